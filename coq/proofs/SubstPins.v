(* C04: everything the substituted schema accepts carries the substituted value. *)
From Coq Require Import PrimFloat.
Require Import D42.Prelude D42.PyFloat D42.Value D42.Regex D42.Schema D42.Validate D42.Conforms
               D42.FromNative D42.Substitute D42.Agree.
Require Import D42P.ListLemmas D42P.ScalarSpec D42P.ValueLemmas D42P.ContainerSpec D42P.FromNativeSpec
               D42P.ValidateSpec D42P.ErrorsSpec D42P.SubstLemmas D42P.SubstNarrows.
Open Scope nat_scope.

(* ---- "the same plain value" implies "carries" ---- *)
Lemma veq_pins v : forall w, veq v w -> pins v w.
Proof.
  induction v as [ | b | z | f | s | b | n | a us | o | l IH | d IH | | | t ] using value_ind';
    intros w H; inversion H; subst.
  - apply pins_none.
  - destruct b; eapply pins_int; reflexivity.
  - eapply pins_int; [reflexivity | eassumption].
  - apply pins_float. left. exists None. assumption.
  - apply pins_same. reflexivity.
  - apply pins_same. reflexivity.
  - apply pins_same. reflexivity.
  - apply pins_same. reflexivity.
  - apply pins_same. reflexivity.
  - apply pins_list. clear H. revert l' H1.
    induction IH as [|x l Hx _ IHl]; intros l' H1; inversion H1; subst; constructor; auto.
  - apply pins_dict. intros k x Hin. destruct (H1 k x Hin) as (y & Hy & Hxy).
    exists y. split; auto. rewrite Forall_forall in IH. exact (IH (k, x) Hin y Hxy).
Qed.

Lemma sub_from_native_ok x s : sub_from_native x = Ok s -> from_native x = Ok s.
Proof.
  unfold sub_from_native. destruct (from_native x) as [s0|k|e]; try discriminate; auto.
  destruct e; discriminate.
Qed.

Lemma native_pins x s y : sub_from_native x = Ok s -> conforms s y -> pins x y.
Proof. intros H Hc. apply veq_pins. eapply fn_rejects_lemma; eauto using sub_from_native_ok. Qed.

Lemma natives_rel l r :
  natives l = Ok r -> exists ss, r = map Some ss /\ Forall2 (fun x s => sub_from_native x = Ok s) l ss.
Proof.
  unfold natives. intros H. apply rmap_ok in H as (ss & H & ->). exists ss. split; auto.
  apply rsequence_ok in H. exact H.
Qed.

Lemma natives_pins l ss l' :
  Forall2 (fun x s => sub_from_native x = Ok s) l ss ->
  Forall2 (fun (c : vpred) y => c y) (map conforms ss) l' -> Forall2 pins l l'.
Proof.
  intros H. revert l'. induction H as [|x s l ss Hxs _ IH]; intros l' Hc; simpl in Hc;
    inversion Hc; subst; constructor; eauto using native_pins.
Qed.

Lemma skipn_skipn' {A} n m (l : list A) : skipn n (skipn m l) = skipn (m + n) l.
Proof.
  revert l. induction m as [|m IH]; intros l; simpl; auto.
  destruct l; [destruct n; reflexivity | apply IH].
Qed.

Lemma In_skipn {A} n (l : list A) x : In x (skipn n l) -> In x l.
Proof. intros H. rewrite <- (firstn_skipn n l). apply in_or_app. auto. Qed.

(* ---- positional description of one window ---- *)
Definition PF (of : option substfn) : Prop :=
  match of with
  | Some f => forall x s' y, plain x = true -> vwf x = true -> f x = Ok s' -> conforms s' y -> pins x y
  | None => True end.

Lemma subst_run_pos fs l idx mid :
  subst_run fs l idx = Ok mid ->
  exists ss, mid = map Some ss /\ length ss = length fs /\ length fs <= length (skipn idx l) /\
             Forall2 (fun (ofx : option substfn * value) s =>
                        exists f, fst ofx = Some f /\ f (snd ofx) = Ok s)
                     (combine fs (skipn idx l)) ss.
Proof.
  revert idx mid. induction fs as [|of fs IH]; intros idx mid H; cbn [subst_run] in H.
  - inversion H. exists []. simpl. repeat split; [lia | constructor].
  - destruct (nth_error l idx) as [x|] eqn:En; [|discriminate].
    destruct of as [f|]; [|discriminate].
    apply bind_ok in H as (s & Hs & H). apply bind_ok in H as (rest & Hr & H). inversion H; subst.
    destruct (IH _ _ Hr) as (ss & -> & Hlen & Hle & Hrel).
    rewrite (skipn_nth_error_cons _ _ _ En).
    exists (s :: ss). cbn [map length combine]. repeat split; try lia.
    constructor; auto. exists f. auto.
Qed.

Lemma window_pins fs xs ss lm :
  Forall PF fs -> Forall (fun x => plain x = true /\ vwf x = true) xs ->
  length fs <= length xs ->
  Forall2 (fun (ofx : option substfn * value) s => exists f, fst ofx = Some f /\ f (snd ofx) = Ok s)
          (combine fs xs) ss ->
  Forall2 (fun (c : vpred) y => c y) (map conforms ss) lm ->
  Forall2 pins (firstn (length fs) xs) lm.
Proof.
  intros HPF. revert xs ss lm. induction HPF as [|of fs Hof _ IH]; intros xs ss lm Hxs Hle Hrel Hc.
  - simpl in *. inversion Hrel; subst. simpl in Hc. inversion Hc. constructor.
  - destruct xs as [|x xs]; [simpl in Hle; lia|]. simpl in Hrel.
    inversion Hrel as [|? s ? ss' (f & Hf & Hfx) Hrest]; subst. simpl in Hf, Hfx. subst of.
    simpl in Hc. inversion Hc as [|? y ? lm' Hy Hcrest]; subst. simpl.
    inversion Hxs as [|? ? [Hp Hw] Hxs']; subst. constructor.
    + eapply Hof; eauto.
    + eapply IH; eauto. simpl in Hle. lia.
Qed.

Lemma subst_elements_pins fs l start els l' :
  Forall PF fs -> Forall (fun x => plain x = true /\ vwf x = true) l -> start <= length l ->
  subst_elements fs l start = Ok els ->
  list_spec (map cfo els) l' -> Forall2 pins l l'.
Proof.
  intros HPF HPl Hst H Hc. unfold subst_elements in H.
  apply bind_ok in H as (mid & Hm & H). apply bind_ok in H as (suf & Hsu & H).
  apply bind_ok in H as (pre & Hp & H). inversion H; subst; clear H.
  apply subst_run_pos in Hm as (ms & -> & Hlms & Hle & Hrel).
  apply natives_rel in Hsu as (ss & -> & Hss). apply natives_rel in Hp as (ps & -> & Hps).
  rewrite <- !map_app, cfo_map_Some in Hc. apply list_spec_all_some in Hc. rewrite !map_app in Hc.
  apply Forall2_app_l in Hc as (l1 & r & -> & Hc1 & Hc).
  apply Forall2_app_l in Hc as (lm & l2 & -> & Hcm & Hc2).
  rewrite map_length, Hlms in Hss.
  assert (El : l = firstn start l ++ firstn (length fs) (skipn start l) ++ skipn (start + length fs) l).
  { rewrite <- (firstn_skipn start l) at 1. f_equal.
    rewrite <- (firstn_skipn (length fs) (skipn start l)) at 1. f_equal.
    rewrite skipn_skipn'. reflexivity. }
  rewrite El. apply Forall2_app; [eapply natives_pins; eauto|].
  apply Forall2_app; [|eapply natives_pins; eauto].
  eapply window_pins; eauto.
  apply Forall_forall. intros x Hx. rewrite Forall_forall in HPl. apply HPl.
  eapply In_skipn; eauto.
Qed.

(* ---- dict entries built from natives ---- *)
Lemma dict_set_self {V} k (x : V) d : In (k, x) (dict_set k x d) \/ exists k', key_eqb k k' = true /\ In (k', x) (dict_set k x d).
Proof.
  induction d as [|[k' y] r IH]; simpl; auto.
  destruct (key_eqb k k') eqn:E.
  - right. exists k'. split; auto. left. reflexivity.
  - destruct IH as [H|(k2 & H1 & H2)]; [left; right; auto | right; exists k2; split; auto; right; auto].
Qed.

Lemma set_entry_self k s o acc : In (k, s, o) (set_entry k s o acc).
Proof.
  unfold set_entry. apply in_map_iff.
  destruct (dict_set_self k (s, o) (map (fun e : dentry => (de_key e, (de_schema e, de_opt e))) acc))
    as [H|(k' & Hk & H)].
  - exists (k, (s, o)). auto.
  - apply key_eqb_eq in Hk. subst. exists (k', (s, o)). auto.
Qed.

Lemma dict_set_other {V} k (x : V) d k' y : k' <> k -> In (k', y) d -> In (k', y) (dict_set k x d).
Proof.
  intros Hne. induction d as [|[k2 y2] r IH]; simpl; [contradiction|].
  intros [H|H].
  - inversion H; subst. destruct (key_eqb k k') eqn:E.
    + apply key_eqb_eq in E. congruence.
    + left. reflexivity.
  - destruct (key_eqb k k2); right; auto.
Qed.

Lemma set_entry_other k s o acc e : de_key e <> k -> In e acc -> In e (set_entry k s o acc).
Proof.
  intros Hne Hin. unfold set_entry. apply in_map_iff.
  exists (de_key e, (de_schema e, de_opt e)). split.
  - destruct e as [[? ?] ?]. reflexivity.
  - apply dict_set_other; auto. apply in_map_iff. exists e. auto.
Qed.

Lemma native_entries_in d :
  NoDup (map fst d) ->
  forall acc ents, native_entries d acc = Ok ents ->
  (forall e, In e acc -> ~ In (de_key e) (map fst d) -> In e ents) /\
  (forall k x, In (k, x) d -> is_vell x = false ->
               exists s, sub_from_native x = Ok s /\ In (k, Some s, false) ents).
Proof.
  induction d as [|[k x] r IH]; intros Hnd acc ents H; cbn [native_entries] in H.
  - inversion H; subst. split; [auto | intros ? ? []].
  - inversion Hnd as [|? ? Hk Hnd']; subst.
    apply bind_ok in H as (s & Hs & H). destruct (IH Hnd' _ _ H) as [IH1 IH2]. split.
    + intros e Hin Hne. apply IH1.
      * apply set_entry_other; auto. intros E. apply Hne. simpl. auto.
      * intros Hr. apply Hne. simpl. auto.
    + intros k' x' [Hin|Hin] Hv.
      * inversion Hin; subst. rewrite Hv in Hs. apply rmap_ok in Hs as (s0 & Hs0 & ->).
        exists s0. split; auto. apply IH1; [apply set_entry_self | exact Hk].
      * apply IH2; auto.
Qed.

(* ---- the theorem ---- *)
Definition pinsP (s : schema) : Prop :=
  forall v s', plain v = true -> vwf v = true -> substitute s v = Ok s' ->
               forall w, conforms s' w -> pins v w.

Lemma vwf_list_In l x : vwf (VList l) = true -> In x l -> vwf x = true.
Proof.
  cbn [vwf]. intros H Hin. apply forallb_id_map' in H. rewrite Forall_forall in H. auto.
Qed.

Lemma vwf_dict d : vwf (VDict d) = true ->
  NoDup (map fst d) /\ forall k x, In (k, x) d -> vwf x = true.
Proof.
  cbn [vwf]. intros H. apply andb_true_iff in H as [H1 H2]. apply nodup_keys_NoDup in H1.
  split; auto. apply forallb_id_map' in H2. rewrite Forall_forall in H2.
  intros k x Hin. apply (H2 (k, x) Hin).
Qed.

Lemma native_dict_pins (d : list (key * value)) ents d' :
  plain (VDict d) = true -> NoDup (map fst d) ->
  (forall k x, In (k, x) d -> exists s, sub_from_native x = Ok s /\ In (k, Some s, false) ents) ->
  dict_spec (dcs ents) d' -> pins (VDict d) (VDict d').
Proof.
  intros Hpl Hnd Hents [H1 _]. apply pins_dict. intros k x Hin.
  destruct (Hents k x Hin) as (s & Hs & Hine).
  assert (Hne : k <> KEll).
  { intros ->. cbn [plain] in Hpl. apply forallb_id_map' in Hpl. rewrite Forall_forall in Hpl.
    specialize (Hpl _ Hin). simpl in Hpl. discriminate. }
  specialize (H1 k (Some (conforms s)) false).
  assert (Hm : In (k, (Some (conforms s), false)) (dcs ents)).
  { unfold dcs. apply in_map_iff. exists (k, Some s, false). auto. }
  specialize (H1 Hm Hne). destruct (assoc k d') as [y|]; [|discriminate].
  exists y. split; auto. eapply native_pins; eauto.
Qed.

Ltac scalar_start' Hs EV :=
  cbn [substitute] in Hs;
  match type of Hs with
  | match validate Subst ?s [] ?v with _ => _ end = _ =>
      destruct (validate Subst s [] v) eqn:EV; [|discriminate];
      apply subst_valid_scalar in EV; [|reflexivity|assumption]
  end.

Theorem subst_pins_lemma : forall s, wf s = true -> pinsP s.
Proof.
  induction s as [ | val | val mn mx | val mn mx pr | val len mnl mxl al sub pat
                 | es ty len mnl mxl IHes IHty | ks IHks | ts IHts
                 | val | val | val | val | nm t IHt | t IHt ] using schema_ind';
    intros Hwf v s' Hpl Hvw Hs w Hc.
  - (* none *) scalar_start' Hs EV. inversion Hs; subst. cbn in EV, Hc. subst. apply pins_none.
  - (* bool *) scalar_start' Hs EV. destruct v; try discriminate. inversion Hs; subst.
    destruct Hc as (b0 & -> & Hb). cbn in Hb. subst. destruct b; eapply pins_int; reflexivity.
  - (* int *) scalar_start' Hs EV. destruct (as_intv v) as [i|] eqn:Ei; [|discriminate].
    inversion Hs; subst. apply as_intv_iz in Ei.
    destruct Hc as (z0 & Hz & Hv0 & _). cbn in Hv0. subst. eapply pins_int; eauto.
  - (* float *) scalar_start' Hs EV. destruct v as [| | |x| | | | | | | | | |]; try discriminate.
    inversion Hs; subst.
    destruct EV as (x1 & E1 & Hv & _). inversion E1; subst x1.
    destruct Hc as (y & -> & Hy & _). apply pins_float. destruct val as [e|]; cbn in Hy, Hv.
    + right. exists e, pr. auto.
    + left. exists pr. exact Hy.
  - (* str *) scalar_start' Hs EV. destruct v; try discriminate. inversion Hs; subst.
    destruct Hc as (s0 & -> & Hv0 & _). cbn in Hv0. subst. apply pins_same. reflexivity.
  - (* list *)
    cbn [substitute] in Hs.
    destruct (validate Subst (SList es ty len mnl mxl) [] v) eqn:EV; [|discriminate].
    destruct v as [| | | | | | | | |l| | | |]; try discriminate.
    destruct (negb (length l =? 0) && forallb is_vell l); [discriminate|].
    destruct (existsb is_vell (removelast (tl l))); [discriminate|].
    cbn [wf] in Hwf. apply andb_true_iff in Hwf as [Hwes Hwty].
    assert (HPl : Forall (fun x => plain x = true /\ vwf x = true) l).
    { apply Forall_forall. intros x Hx. split; [eapply plain_list_In | eapply vwf_list_In]; eauto. }
    destruct ty as [t|].
    + (* typed *)
      assert (Hs2 : exists els, rsequence (map (fun x => if is_vell x then Ok None
                                                         else rmap Some (substitute t x)) l) = Ok els /\
                                s' = SList (Some els) None len mnl mxl).
      { destruct es; apply bind_ok in Hs as (els & ? & Hs); inversion Hs; eauto. }
      destruct Hs2 as (els & Hr & ->). apply rsequence_ok in Hr.
      destruct Hc as (l' & -> & _ & Hc). apply pins_list.
      specialize (IHty t eq_refl Hwty).
      assert (Hels : exists ss, els = map Some ss /\ Forall2 (fun x s => substitute t x = Ok s) l ss).
      { clear - Hr HPl. induction Hr as [|x e l els Hxe _ IH].
        - exists []. split; auto.
        - inversion HPl as [|? ? [H1 _] H2]; subst. destruct (IH H2) as (ss & -> & Hss).
          rewrite (plain_not_ell _ H1) in Hxe. apply rmap_ok in Hxe as (s & Hs & ->).
          exists (s :: ss). split; auto. }
      destruct Hels as (ss & -> & Hss).
      change (map (fun e => match e with Some sch => Some (conforms sch) | None => None end) (map Some ss))
        with (map cfo (map Some ss)) in Hc.
      rewrite cfo_map_Some in Hc. apply list_spec_all_some in Hc.
      clear - Hss Hc HPl IHty. revert l' Hc.
      induction Hss as [|x s l ss Hxs _ IH]; intros l' Hc; simpl in Hc; inversion Hc; subst; constructor.
      * inversion HPl as [|? ? [Hq1 Hq2] Hq3]; subst. eapply IHty; eauto.
      * inversion HPl; subst. apply IH; auto.
    + destruct es as [es'|].
      * (* element list *)
        apply bind_ok in Hs as (els & Hr & Hs). inversion Hs; subst; clear Hs.
        destruct Hc as (l' & -> & _ & Hc). apply pins_list.
        specialize (IHes es' eq_refl). apply andb_true_iff in Hwes as [Hew Hwm].
        apply forallb_id_map' in Hwm.
        change (map (fun e => match e with Some sch => Some (conforms sch) | None => None end) els)
          with (map cfo els) in Hc.
        set (fs := map (fun e => match e with Some sch => Some (substitute sch) | None => None end) es') in *.
        assert (HPF : Forall PF fs).
        { unfold fs. clear - IHes Hwm. induction IHes as [|o r Ho _ IH]; simpl; constructor.
          - inversion Hwm; subst. destruct o as [sch|]; simpl; auto.
            intros x s1 y Hx Hw Hsub Hy. eapply (Ho sch eq_refl); eauto.
          - apply IH. inversion Hwm; auto. }
        assert (HPFm : Forall PF (middle fs))
          by (apply Forall_middle; exact HPF).
        unfold subst_list_elements in Hr. destruct (existsb is_vell l); [discriminate|].
        match type of Hr with match ?c with _ => _ end = _ => destruct c eqn:Ecl end.
        -- apply first_window_spec in Hr as (i & Hi & Hr). apply in_seq in Hi.
           apply (subst_elements_pins (middle fs) l i els l'); auto. lia.
        -- apply (subst_elements_pins (middle fs) l 0 els l'); auto. lia.
        -- apply (subst_elements_pins (middle fs) l (length l - length (middle fs)) els l'); auto. lia.
        -- apply (subst_elements_pins (middle fs) l 0 els l'); auto. lia.
      * (* untyped *)
        apply bind_ok in Hs as (els & Hr & Hs). inversion Hs; subst; clear Hs.
        destruct Hc as (l' & -> & _ & Hc). apply pins_list. apply rsequence_ok in Hr.
        assert (Hels : exists ss, els = map Some ss /\ Forall2 (fun x s => sub_from_native x = Ok s) l ss).
        { clear - Hr HPl. induction Hr as [|x e l els Hxe _ IH].
          - exists []. split; auto.
          - inversion HPl as [|? ? [H1 _] H2]; subst. destruct (IH H2) as (ss & -> & Hss).
            rewrite (plain_not_ell _ H1) in Hxe. apply rmap_ok in Hxe as (s & Hs & ->).
            exists (s :: ss). split; auto. }
        destruct Hels as (ss & -> & Hss).
        change (map (fun e => match e with Some sch => Some (conforms sch) | None => None end) (map Some ss))
          with (map cfo (map Some ss)) in Hc.
        rewrite cfo_map_Some in Hc. apply list_spec_all_some in Hc.
        eapply natives_pins; eauto.
  - (* dict *)
    cbn [substitute] in Hs.
    destruct (validate Subst (SDict ks) [] v) eqn:EV; [|discriminate].
    destruct v as [| | | | | | | | | |d| | |]; try discriminate.
    destruct (vwf_dict _ Hvw) as [Hnd Hvm].
    assert (Hne : forall k x, In (k, x) d -> is_vell x = false).
    { intros k x Hin. apply plain_not_ell. eapply plain_dict_assoc; eauto.
      apply assoc_NoDup_In; eauto. }
    destruct ks as [ents0|].
    + cbv beta iota zeta in Hs.
      match type of Hs with (if ?c then _ else _) = _ => destruct c eqn:Erel end.
      * apply bind_ok in Hs as (ents & Hr & Hs). inversion Hs; subst; clear Hs.
        destruct Hc as (d' & -> & Hc).
        destruct (native_entries_in d Hnd _ _ Hr) as [_ H2].
        apply (native_dict_pins d (set_entry KEll None false ents) d' Hpl Hnd); [|exact Hc].
        intros k x Hin. destruct (H2 k x Hin (Hne k x Hin)) as (s & Hs & Hine).
        exists s. split; auto. apply set_entry_other; auto.
        change (k <> KEll). intros ->. cbn [plain] in Hpl. apply forallb_id_map' in Hpl. rewrite Forall_forall in Hpl.
        specialize (Hpl _ Hin). simpl in Hpl. discriminate.
      * apply bind_ok in Hs as (ents & Hr & Hs). inversion Hs; subst; clear Hs.
        destruct Hc as (d' & -> & Hc).
        specialize (IHks ents0 eq_refl). cbn [wf] in Hwf.
        apply andb_true_iff in Hwf as [Hwf Hwm]. apply forallb_id_map' in Hwm.
        fold (dfs ents0) in Hr. fold (dcs ents) in Hc.
        destruct (subst_dict_declared _ _ _ Hr) as [Hnk Hdecl].
        apply subst_dict_spec in Hr.
        2:{ intros k x Ha. apply (Hne k x). apply assoc_In. exact Ha. }
        destruct Hc as [H1 _]. apply pins_dict. intros k x Hin.
        specialize (Hdecl k x Hin). apply in_map_iff in Hdecl as (e0 & Hk0 & Hin0).
        destruct (Forall2_In_l _ _ _ _ Hr Hin0) as (e & Hine & Hke & Hcase).
        pose proof (assoc_NoDup_In _ _ _ Hnd Hin) as Ha. rewrite Hk0 in Hcase.
        destruct Hcase as [[Hnone _]|(sch & x0 & s1 & Hsch & Ha0 & Hsub & Hs1 & Ho)]; [congruence|].
        rewrite Ha in Ha0. inversion Ha0; subst x0.
        assert (Hnek : k <> KEll).
        { intros ->. unfold has_key in Hnk. rewrite Ha in Hnk. discriminate. }
        specialize (H1 k (Some (conforms s1)) false).
        assert (Hm : In (k, (Some (conforms s1), false)) (dcs ents)).
        { unfold dcs. apply in_map_iff. exists e. rewrite Hke, Hk0, Hs1, Ho. auto. }
        specialize (H1 Hm Hnek). destruct (assoc k d') as [y|]; [|discriminate].
        exists y. split; auto. simpl in H1.
        rewrite Forall_forall in IHks, Hwm.
        assert (Hwsch : wf sch = true) by (specialize (Hwm e0 Hin0); rewrite Hsch in Hwm; exact Hwm).
        eapply (IHks e0 Hin0 sch Hsch Hwsch); eauto.
        eapply plain_dict_assoc; eauto.
    + apply bind_ok in Hs as (ents & Hr & Hs). inversion Hs; subst; clear Hs.
      destruct Hc as (d' & -> & Hc).
      destruct (native_entries_in d Hnd _ _ Hr) as [_ H2].
      apply (native_dict_pins d ents d' Hpl Hnd); [|exact Hc].
      intros k x Hin. apply H2; eauto.
  - (* any *)
    cbn [substitute] in Hs.
    destruct (validate Subst (SAny ts) [] v) eqn:EV; [|discriminate].
    destruct ts as [ts'|].
    + apply bind_ok in Hs as (kept & Hk & Hs). destruct kept as [|k0 kr]; [discriminate|].
      inversion Hs; subst; clear Hs. cbn [conforms] in Hc.
      apply fold_or_Exists in Hc. apply any_subst_spec in Hk.
      specialize (IHts ts' eq_refl). cbn [wf] in Hwf. apply forallb_id_map' in Hwf.
      apply Exists_exists in Hc as (s1 & Hin & Hc1). rewrite Forall_forall in Hk.
      destruct (Hk s1 Hin) as (f & Hf & Hfv). apply in_map_iff in Hf as (t & <- & Ht).
      rewrite Forall_forall in IHts, Hwf. eapply IHts; eauto.
    + apply bind_ok in Hs as (s1 & Hs1 & Hs). inversion Hs; subst; clear Hs.
      cbn in Hc. destruct Hc as [Hc|[]]. eapply native_pins; eauto.
  - (* bytes *) scalar_start' Hs EV. destruct v; try discriminate. inversion Hs; subst.
    destruct Hc as (b0 & -> & Hb). cbn in Hb. subst. apply pins_same. reflexivity.
  - (* uuid *) scalar_start' Hs EV. destruct v; try discriminate. inversion Hs; subst.
    destruct Hc as (n0 & -> & _ & Hb). cbn in Hb. subst. apply pins_same. reflexivity.
  - (* datetime *) scalar_start' Hs EV.
    destruct v as [| | | | | | | av uv | | | | | |]; try discriminate. inversion Hs; subst.
    destruct Hc as (a0 & us0 & -> & Hb). cbn in Hb. inversion Hb; subst. apply pins_same. reflexivity.
  - (* date *) scalar_start' Hs EV. inversion Hs; subst.
    destruct EV as [Hi _]. destruct Hc as [Hi0 Hv0]. cbn in Hv0.
    rewrite (date_eqb_eq _ _ Hi0 Hv0). apply pins_same. destruct v; try discriminate; reflexivity.
  - (* alias *)
    cbn [substitute] in Hs. apply bind_ok in Hs as (t' & Ht & Hs). inversion Hs; subst.
    cbn [conforms] in *. eapply IHt; eauto.
  - (* custom *)
    cbn [substitute] in Hs. apply bind_ok in Hs as (t' & Ht & Hs). inversion Hs; subst.
    cbn [conforms] in *. eapply IHt; eauto.
Qed.

(* ---- unspecified dict keys keep their schema and optionality ---- *)
Definition relaxed_only (ents0 : list dentry) : bool :=
  Nat.eqb (length ents0) 1 && declared KEll (map (fun e : dentry => (de_key e, tt)) ents0).

Lemma subst_keeps_lemma ents0 d s' :
  plain (VDict d) = true -> relaxed_only ents0 = false ->
  substitute (SDict (Some ents0)) (VDict d) = Ok s' ->
  exists ents, s' = SDict (Some ents) /\
               Forall2 (fun e0 e => de_key e = de_key e0 /\
                                    (assoc (de_key e0) d = None -> e = e0)) ents0 ents.
Proof.
  intros Hpl Hrel Hs. cbn [substitute] in Hs.
  destruct (validate Subst (SDict (Some ents0)) [] (VDict d)); [|discriminate].
  cbv beta iota zeta in Hs. unfold relaxed_only in Hrel.
  match type of Hs with (if ?c then _ else _) = _ => change c with (Nat.eqb (length ents0) 1 && declared KEll (map (fun e : dentry => (de_key e, tt)) ents0)) in Hs end.
  rewrite Hrel in Hs.
  apply bind_ok in Hs as (ents & Hr & Hs). inversion Hs; subst; clear Hs.
  exists ents. split; auto. fold (dfs ents0) in Hr. apply subst_dict_spec in Hr.
  2:{ intros k x Ha. apply plain_not_ell. eapply plain_dict_assoc; eauto. }
  eapply Forall2_impl; [|exact Hr]. intros e0 e [Hk Hcase]. split; auto.
  intros Hn. destruct Hcase as [[_ He]|(sch & x & s1 & _ & Ha & _)]; [exact He | congruence].
Qed.
