(* C18: rollout inverts flattening; rollout of a nested mapping is the identity. *)
Require Import D42.Prelude D42.Rollout D42P.RolloutStr D42P.RolloutDict.
From Coq Require Import Permutation.

(* what the first loop has built after consuming the flat entries L *)
Definition Exp (sep : pystr) (L : list fent) (k : rkey) (v : rval) : Prop :=
  (k = RKEll /\ v = REll /\ In FEll L) \/
  (exists o s id, k = RKStr o s /\ v = RLeaf id /\ In (FE o [s] id) L) \/
  (exists s, k = RKStr false s /\ v = RDict (map (ent sep) (sub s L)) /\ sub s L <> []).

Definition Inv (sep : pystr) (L : list fent) (upd : rdict) : Prop :=
  NoDup (map fst upd) /\ forall k v, rlookup k upd = Some v <-> Exp sep L k v.

Lemma Inv_rinsert sep L L2 upd K V :
  Inv sep L upd ->
  (forall k v, Exp sep L2 k v <-> (k = K /\ v = V) \/ (k <> K /\ Exp sep L k v)) ->
  Inv sep L2 (rinsert K V upd).
Proof.
  intros [Hnd HI] HE. split; [apply keys_rinsert_nodup; exact Hnd|].
  intros k v. rewrite HE. destruct (rkey_eq_dec k K) as [->|Hne].
  - rewrite rlookup_rinsert_eq. split.
    + intro H. inversion H. left. auto.
    + intros [[_ ->]|[Hc _]]; [reflexivity | congruence].
  - rewrite rlookup_rinsert_neq by exact Hne. rewrite HI. split.
    + intro H. right. auto.
    + intros [[Hc _]|[_ H]]; [congruence | exact H].
Qed.

Lemma rinsert_rinsert K V0 V d : rinsert K V (rinsert K V0 d) = rinsert K V d.
Proof.
  induction d as [|[k' v'] r IH]; cbn [rinsert].
  - rewrite rkey_eqb_refl. reflexivity.
  - destruct (rkey_eqb k' K) eqn:E; cbn [rinsert]; rewrite E; [reflexivity | f_equal; exact IH].
Qed.

Lemma Exp_mono_nil sep L e k v :
  (forall s, sub1 s e = []) -> Exp sep L k v -> Exp sep (L ++ [e]) k v.
Proof.
  intros Hs [(-> & -> & H)|[(o & s & id & -> & -> & H)|(s & -> & -> & H)]].
  - left. rewrite in_app_iff. auto.
  - right. left. exists o, s, id. rewrite in_app_iff. auto.
  - right. right. exists s.
    assert (sub s (L ++ [e]) = sub s L) as E.
    { rewrite sub_app. unfold sub at 2. cbn [flat_map]. rewrite Hs. cbn [app]. apply app_nil_r. }
    rewrite E. auto.
Qed.

Lemma step_str sep upd o s v :
  sep <> [] ->
  step sep upd (RKStr o s, v) =
  match split sep s with
  | [] => Raise OtherExn
  | [key] => Ok (rinsert (RKStr o key) v upd)
  | key :: rest =>
      let k := RKStr false key in
      let upd1 := match rlookup k upd with
                  | None => rinsert k (RDict []) upd
                  | Some _ => upd
                  end in
      match rlookup k upd1 with
      | Some (RDict es) =>
          Ok (rinsert k (RDict (rinsert (RKStr o (join sep rest)) v es)) upd1)
      | _ => Raise TypeError
      end
  end.
Proof. intro H. destruct sep; [congruence | reflexivity]. Qed.

Section Loop.
  Variable sep : pystr.
  Variable cs : tmap.
  Hypothesis Hsep : sep <> [].
  Hypothesis Hw : wf_tmap cs = true.
  Hypothesis Hu : unambiguous_tmap sep cs = true.

  Let Hnd : NoDup (map ckey cs) := proj1 (wf_tmap_facts cs Hw).
  Let Hok : forall c, In c cs -> child_ok c := proj2 (wf_tmap_facts cs Hw).

  Lemma unamb_of o p id : In (FE o p id) (flatten_m cs) -> unambiguous sep p = true.
  Proof.
    intro H. unfold unambiguous_tmap in Hu. rewrite forallb_forall in Hu. exact (Hu _ H).
  Qed.

  Lemma leaf_node_conflict s id o k2 r id' :
    In (FE false [s] id) (flatten_m cs) -> In (FE o (s :: k2 :: r) id') (flatten_m cs) -> False.
  Proof.
    intros H1 H2.
    apply flatten_shape in H1 as (o1 & k1 & t1 & Hin1 & S1); [|exact Hok].
    apply flatten_shape in H2 as (o2 & kk & t2 & Hin2 & S2); [|exact Hok].
    destruct S1 as [(Ep1 & Eo1 & Et1)|(cs1 & a & b & _ & _ & _ & _ & Ep1 & _)]; [|discriminate].
    destruct S2 as [(Ep2 & _)|(cs2 & a & b & Et2 & Eo2 & _ & _ & Ep2 & _)]; [discriminate|].
    inversion Ep1; inversion Ep2; subst.
    assert ((false, kk, TLeaf id) = (false, kk, TNode cs2)) as E
      by (apply (child_key_unique cs); auto).
    discriminate.
  Qed.

  Definition InF (e : fent) : Prop := In e (FEll :: flatten_m cs).

  Lemma InF_FE o p id : InF (FE o p id) -> In (FE o p id) (flatten_m cs).
  Proof. intros [H|H]; [discriminate | exact H]. Qed.

  (* ---- the three kinds of entries ---- *)
  Lemma step_ell L upd :
    Inv sep L upd ->
    exists upd', step sep upd (ent sep FEll) = Ok upd' /\ Inv sep (L ++ [FEll]) upd'.
  Proof.
    intro HI. exists (rinsert RKEll REll upd). split; [reflexivity|].
    apply (Inv_rinsert sep L); [exact HI|]. intros k v. split.
    - intros [(-> & -> & H)|[(o & s & id & -> & -> & H)|(s & -> & -> & H)]].
      + left. auto.
      + right. split; [discriminate|]. right. left. exists o, s, id.
        apply in_app_iff in H as [H|[H|[]]]; [auto | discriminate].
      + right. split; [discriminate|]. right. right. exists s.
        rewrite sub_app in H |- *. unfold sub at 2 in H. unfold sub at 2. cbn in H |- *.
        rewrite app_nil_r in H |- *. auto.
    - intros [[-> ->]|[_ H]].
      + left. rewrite in_app_iff. cbn. auto.
      + apply Exp_mono_nil; [reflexivity | exact H].
  Qed.

  Lemma step_leaf L upd o s id :
    Inv sep L upd -> incl L (FEll :: flatten_m cs) -> In (FE o [s] id) (flatten_m cs) ->
    exists upd', step sep upd (ent sep (FE o [s] id)) = Ok upd' /\ Inv sep (L ++ [FE o [s] id]) upd'.
  Proof.
    intros HI Hincl He. exists (rinsert (RKStr o s) (RLeaf id) upd). split.
    - cbn [ent join]. rewrite step_str by exact Hsep.
      pose proof (unamb_of _ _ _ He) as U. cbn [unambiguous] in U. apply negb_true_iff in U.
      rewrite split_nosep by assumption. reflexivity.
    - apply (Inv_rinsert sep L); [exact HI|]. intros k v.
      assert (forall s', sub1 s' (FE o [s] id) = []) as Hs1 by reflexivity.
      split.
      + intros [(-> & -> & H)|[(o' & s' & id' & -> & -> & H)|(s' & -> & -> & H)]].
        * right. split; [discriminate|]. left. apply in_app_iff in H as [H|[H|[]]]; [auto | discriminate].
        * apply in_app_iff in H as [H|[H|[]]].
          -- destruct (rkey_eq_dec (RKStr o' s') (RKStr o s)) as [E|Hne].
             ++ inversion E; subst. left. split; [reflexivity|]. f_equal.
                apply (flatten_key_fun cs o [s]); [exact Hw | | exact He].
                apply InF_FE. apply Hincl. exact H.
             ++ right. split; [exact Hne|]. right. left. exists o', s', id'. auto.
          -- inversion H; subst. left. auto.
        * rewrite sub_app in H |- *. unfold sub at 2 in H. unfold sub at 2. cbn in H |- *.
          rewrite app_nil_r in H |- *.
          destruct (rkey_eq_dec (RKStr false s') (RKStr o s)) as [E|Hne].
          -- exfalso. inversion E; subst. destruct (sub s L) as [|x l] eqn:Esub; [congruence|].
             assert (In x (sub s L)) as Hx by (rewrite Esub; left; reflexivity).
             apply in_sub in Hx as (o2 & k2 & r & id2 & _ & Hx).
             apply Hincl in Hx. apply InF_FE in Hx. exact (leaf_node_conflict _ _ _ _ _ _ He Hx).
          -- right. split; [exact Hne|]. right. right. exists s'. auto.
      + intros [[-> ->]|[_ H]].
        * right. left. exists o, s, id. rewrite in_app_iff. cbn. auto.
        * apply Exp_mono_nil; [exact Hs1 | exact H].
  Qed.

  Lemma step_node L upd o s k2 r id :
    Inv sep L upd -> incl L (FEll :: flatten_m cs) -> ~ In (FE o (s :: k2 :: r) id) L ->
    In (FE o (s :: k2 :: r) id) (flatten_m cs) ->
    exists upd', step sep upd (ent sep (FE o (s :: k2 :: r) id)) = Ok upd'
                 /\ Inv sep (L ++ [FE o (s :: k2 :: r) id]) upd'.
  Proof.
    intros HI Hincl Hnew He.
    set (K := RKStr false s). set (T := RKStr o (join sep (k2 :: r))).
    set (V := RDict (map (ent sep) (sub s L ++ [FE o (k2 :: r) id]))).
    pose proof (unamb_of _ _ _ He) as U.
    assert (unambiguous sep (k2 :: r) = true) as U2 by (eapply unambiguous_tl; exact U).
    (* the tail key is new in the sub-dict *)
    assert (~ In T (map fst (map (ent sep) (sub s L)))) as HT.
    { intro Hin. apply in_map_iff in Hin as [[k0 v0] [Ek Hin]]. cbn [fst] in Ek. subst k0.
      apply in_map_iff in Hin as [x [Ex Hx]]. apply in_sub in Hx as (o1 & a & b & id1 & -> & Hx).
      cbn [ent] in Ex. unfold T in Ex. inversion Ex as [[Eo Ej]]. subst o1.
      pose proof (InF_FE _ _ _ (Hincl _ Hx)) as Hx'.
      pose proof (unamb_of _ _ _ Hx') as U1. apply unambiguous_tl in U1.
      change (join sep (a :: b) = join sep (k2 :: r)) in Ej.
      apply join_inj in Ej; try assumption; try discriminate. inversion Ej; subst a b.
      assert (id1 = id) by (eapply flatten_key_fun; eauto). subst id1. contradiction. }
    exists (rinsert K V upd). split.
    - cbn [ent]. rewrite step_str by exact Hsep.
      rewrite split_join_lemma by (try assumption; discriminate).
      cbv beta iota zeta. fold K. destruct HI as [HndU HI].
      destruct (rlookup K upd) as [v|] eqn:EL.
      + rewrite EL. apply HI in EL as HE.
        destruct HE as [(Ec & _)|[(o' & s' & id' & Ek & -> & H)|(s' & Ek & -> & H)]].
        * discriminate.
        * exfalso. unfold K in Ek. inversion Ek; subst o' s'.
          apply Hincl in H. apply InF_FE in H. exact (leaf_node_conflict _ _ _ _ _ _ H He).
        * unfold K in Ek. inversion Ek; subst s'. fold T.
          rewrite (rinsert_notin T _ _ HT). unfold V. rewrite map_app. reflexivity.
      + rewrite rlookup_rinsert_eq. rewrite rinsert_rinsert. fold T.
        assert (sub s L = []) as E0.
        { destruct (sub s L) as [|x l] eqn:Esub; [reflexivity|]. exfalso.
          assert (rlookup K upd = Some (RDict (map (ent sep) (sub s L)))) as Hc.
          { apply HI. right. right. exists s. rewrite Esub. split; [reflexivity|]. split; [reflexivity | discriminate]. }
          congruence. }
        unfold V. rewrite E0. reflexivity.
    - apply (Inv_rinsert sep L); [exact HI|]. intros k v.
      assert (sub s (L ++ [FE o (s :: k2 :: r) id]) = sub s L ++ [FE o (k2 :: r) id]) as Esub.
      { rewrite sub_app. unfold sub at 2. cbn. rewrite str_eqb_refl. reflexivity. }
      assert (forall s', s' <> s -> sub s' (L ++ [FE o (s :: k2 :: r) id]) = sub s' L) as Esub'.
      { intros s' Hne. rewrite sub_app. unfold sub at 2. cbn.
        destruct (str_eqb s s') eqn:E; [apply str_eqb_eq in E; congruence|]. cbn. apply app_nil_r. }
      split.
      + intros [(-> & -> & H)|[(o' & s' & id' & -> & -> & H)|(s' & -> & -> & H)]].
        * right. split; [discriminate|]. left. apply in_app_iff in H as [H|[H|[]]]; [auto | discriminate].
        * apply in_app_iff in H as [H|[H|[]]]; [|discriminate].
          right. split.
          -- intro E. unfold K in E. inversion E; subst o' s'.
             apply Hincl in H. apply InF_FE in H. exact (leaf_node_conflict _ _ _ _ _ _ H He).
          -- right. left. exists o', s', id'. auto.
        * destruct (list_eq_dec N.eq_dec s' s) as [->|Hne].
          -- left. split; [reflexivity|]. unfold V. rewrite Esub. reflexivity.
          -- right. split; [unfold K; congruence|]. right. right. exists s'.
             rewrite Esub' in * by exact Hne. auto.
      + intros [[-> ->]|[Hne H]].
        * right. right. exists s. rewrite Esub. split; [reflexivity|]. split; [reflexivity|].
          destruct (sub s L); discriminate.
        * destruct H as [(-> & -> & H)|[(o' & s' & id' & -> & -> & H)|(s' & -> & -> & H)]].
          -- left. rewrite in_app_iff. auto.
          -- right. left. exists o', s', id'. rewrite in_app_iff. auto.
          -- right. right. exists s'. assert (s' <> s) as Hs by (unfold K in Hne; congruence).
             rewrite Esub' by exact Hs. auto.
  Qed.

  Lemma Inv_nil : Inv sep [] [].
  Proof.
    split; [constructor|]. intros k v. cbn. split; [discriminate|].
    intros [(_ & _ & [])|[(o & s & id & _ & _ & [])|(s & _ & _ & H)]]. exfalso. apply H. reflexivity.
  Qed.

  Lemma loop_app d1 d2 acc : loop sep (d1 ++ d2) acc = loop sep d2 (loop sep d1 acc).
  Proof. unfold loop. apply fold_left_app. Qed.

  Lemma loop_inv L :
    NoDup L -> incl L (FEll :: flatten_m cs) ->
    exists upd, loop sep (map (ent sep) L) (Ok []) = Ok upd /\ Inv sep L upd.
  Proof.
    induction L as [|e L IH] using rev_ind; intros HndL Hincl.
    - exists []. split; [reflexivity | apply Inv_nil].
    - assert (NoDup L /\ ~ In e L) as [HndL' Hnew].
      { apply NoDup_remove in HndL. rewrite app_nil_r in HndL. exact HndL. }
      assert (incl L (FEll :: flatten_m cs)) as Hincl' by (intros x Hx; apply Hincl; apply in_app_iff; auto).
      destruct (IH HndL' Hincl') as [upd [EL HI]].
      rewrite map_app, loop_app, EL. cbn [map loop fold_left bind].
      assert (InF e) as HeF by (apply Hincl; apply in_app_iff; cbn; auto).
      destruct e as [|o p id].
      + apply step_ell. exact HI.
      + apply InF_FE in HeF. pose proof HeF as HeF'.
        apply flatten_shape in HeF' as (o1 & k1 & t1 & Hin1 & S1); [|exact Hok].
        destruct S1 as [(-> & _ & _)|(cs1 & a & b & _ & _ & _ & _ & -> & _)].
        * apply step_leaf; assumption.
        * apply step_node; assumption.
  Qed.
End Loop.

(* ---- second loop ---- *)
Lemma rsequence_map_ok {A B} (f : A -> result B) (R : A -> B -> Prop) (l : list A) :
  (forall a, In a l -> exists b, f a = Ok b /\ R a b) ->
  exists l', rsequence (map f l) = Ok l' /\ Forall2 R l l'.
Proof.
  induction l as [|a l IH]; intro H.
  - exists []. split; [reflexivity | constructor].
  - destruct (H a (or_introl eq_refl)) as [b [Eb Rb]].
    destruct IH as [l' [El HF]]; [intros x Hx; apply H; right; exact Hx|].
    exists (b :: l'). cbn [map rsequence]. rewrite Eb, El. cbn [bind]. split; [reflexivity|].
    constructor; assumption.
Qed.

Lemma Forall2_in_r {A B} (R : A -> B -> Prop) l l' b :
  Forall2 R l l' -> In b l' -> exists a, In a l /\ R a b.
Proof.
  induction 1 as [|x y l l' Hxy HF IH]; cbn [In]; [tauto|].
  intros [<-|H]; [exists x; auto|]. destruct (IH H) as [a [Ha Ra]]. exists a. auto.
Qed.

Lemma Forall2_map_eq {A B C} (R : A -> B -> Prop) (f : A -> C) (g : B -> C) l l' :
  Forall2 R l l' -> (forall a b, R a b -> f a = g b) -> map f l = map g l'.
Proof.
  intros HF H. induction HF as [|x y l l' Hxy HF IH]; [reflexivity|].
  cbn [map]. rewrite IH, (H _ _ Hxy). reflexivity.
Qed.

(* ---- the target dict ---- *)
Lemma of_tmap_keys ell cs :
  map fst (of_tmap ell cs) = map ckey cs ++ (if ell then [RKEll] else []).
Proof.
  unfold of_tmap. rewrite map_app, map_map. cbn [fst]. destruct ell; reflexivity.
Qed.

Lemma of_tmap_keys_nodup ell cs : NoDup (map ckey cs) -> NoDup (map fst (of_tmap ell cs)).
Proof.
  intro H. rewrite of_tmap_keys. destruct ell; [|rewrite app_nil_r; exact H].
  apply NoDup_snoc; [exact H|]. intro Hin. apply in_map_iff in Hin as [c [E _]]. discriminate.
Qed.

Lemma of_tmap_lookup_child ell cs o s t :
  NoDup (map ckey cs) -> In (o, s, t) cs -> rlookup (RKStr o s) (of_tmap ell cs) = Some (of_tree t).
Proof.
  intros Hnd Hin. apply in_rlookup; [apply of_tmap_keys_nodup; exact Hnd|].
  unfold of_tmap. apply in_app_iff. left.
  apply in_map_iff. exists (o, s, t). split; [reflexivity | exact Hin].
Qed.

Lemma of_tmap_lookup_ell cs : NoDup (map ckey cs) -> rlookup RKEll (of_tmap true cs) = Some REll.
Proof.
  intro Hnd. apply in_rlookup; [apply of_tmap_keys_nodup; exact Hnd|].
  unfold of_tmap. apply in_app_iff. right. left. reflexivity.
Qed.

Lemma dict_equiv_intro d t :
  length d = length t ->
  (forall k v, In (k, v) d -> exists w, rlookup k t = Some w /\ val_equiv v w = true) ->
  dict_equiv d t = true.
Proof.
  intros Hl H. unfold dict_equiv. cbn [val_equiv]. apply andb_true_iff. split.
  - apply Nat.eqb_eq. exact Hl.
  - apply forallb_forall. intros [k v] Hin. cbn [fst snd].
    destruct (H k v Hin) as [w [-> Hw]]. exact Hw.
Qed.

Lemma same_keys_length (d t : rdict) :
  NoDup (map fst d) -> NoDup (map fst t) ->
  (forall k, In k (map fst d) <-> In k (map fst t)) -> length d = length t.
Proof.
  intros H1 H2 H. rewrite <- (map_length fst d), <- (map_length fst t).
  apply Permutation_length. apply NoDup_Permutation; assumption.
Qed.

(* ---- hypotheses are inherited by sub-mappings ---- *)
Lemma unamb_child sep cs o s cs' :
  unambiguous_tmap sep cs = true -> In (o, s, TNode cs') cs -> unambiguous_tmap sep cs' = true.
Proof.
  unfold unambiguous_tmap. rewrite !forallb_forall. intros H Hin e He.
  pose proof (node_in_flatten cs o s cs' e Hin He) as H2. apply H in H2.
  destruct e as [|o' p id]; [reflexivity|]. cbn [fcons fent_unamb] in *.
  eapply unambiguous_tl. exact H2.
Qed.

Lemma depth_child cs o s t : In (o, s, t) cs -> tdepth t <= tmap_depth cs.
Proof.
  unfold tmap_depth. induction cs as [|c r IH]; cbn [In fold_right]; [tauto|].
  intros [->|H]; cbn [snd]; [lia|]. specialize (IH H). lia.
Qed.

Lemma tdepth_node cs : tdepth (TNode cs) = S (tmap_depth cs).
Proof. reflexivity. Qed.

Lemma flat_all_nodup ell cs : wf_tmap cs = true -> NoDup (flat_all ell cs).
Proof.
  intro Hw. unfold flat_all. destruct ell; [|rewrite app_nil_r; apply nodup_flatten; exact Hw].
  apply NoDup_snoc; [apply nodup_flatten; exact Hw | apply FEll_notin_flatten].
Qed.

Lemma flat_all_in ell cs e :
  In e (flat_all ell cs) <-> In e (flatten_m cs) \/ (e = FEll /\ ell = true).
Proof.
  unfold flat_all. rewrite in_app_iff. destruct ell; cbn [In]; intuition congruence.
Qed.

Lemma sub_flat_all s ell cs : sub s (flat_all ell cs) = sub s (flatten_m cs).
Proof.
  unfold flat_all. rewrite sub_app. destruct ell; cbn; apply app_nil_r.
Qed.

Definition ph2 (f : nat) (sep : pystr) (kv : rkey * rval) : result (rkey * rval) :=
  match snd kv with
  | RDict es => do r <- rollout f sep es; Ok (fst kv, RDict r)
  | _ => Ok kv
  end.

Lemma rollout_S f sep d :
  rollout (S f) sep d = do upd <- loop sep d (Ok []); rsequence (map (ph2 f sep) upd).
Proof. reflexivity. Qed.

Definition R2 (cs : tmap) (kv kv' : rkey * rval) : Prop :=
  fst kv' = fst kv /\
  match snd kv with
  | RDict _ => exists s cs' es', fst kv = RKStr false s /\ In (false, s, TNode cs') cs /\
                 snd kv' = RDict es' /\ val_keys_ok (RDict es') = true /\
                 val_equiv (RDict es') (of_tree (TNode cs')) = true
  | _ => snd kv' = snd kv
  end.

Theorem rollout_flatten_inverse_fent :
  forall fuel sep cs ell L,
    sep <> [] -> wf_tmap cs = true -> unambiguous_tmap sep cs = true ->
    tmap_depth cs < fuel -> Permutation L (flat_all ell cs) ->
    exists d, rollout fuel sep (map (ent sep) L) = Ok d
              /\ dict_keys_ok d = true /\ dict_equiv d (of_tmap ell cs) = true.
Proof.
  induction fuel as [|f IH]; intros sep cs ell L Hsep Hw Hu Hd HP; [lia|].
  pose proof (wf_tmap_facts cs Hw) as [Hnd Hok].
  assert (NoDup L) as HndL.
  { eapply Permutation_NoDup; [symmetry; exact HP | apply flat_all_nodup; exact Hw]. }
  assert (forall e, In e L <-> In e (flat_all ell cs)) as HinL.
  { intro e. split; apply Permutation_in; [exact HP | symmetry; exact HP]. }
  assert (incl L (FEll :: flatten_m cs)) as Hincl.
  { intros e He. apply HinL, flat_all_in in He. cbn [In]. destruct He as [He|[-> _]]; auto. }
  destruct (loop_inv sep cs Hsep Hw Hu L HndL Hincl) as [upd [EL [HndU HI]]].
  rewrite rollout_S, EL. cbn [bind].
  (* sub-lists are permutations of the sub-mappings' flattenings *)
  assert (forall s cs', In (false, s, TNode cs') cs -> Permutation (sub s L) (flatten_m cs')) as Hsub.
  { intros s cs' Hin. rewrite <- (sub_flatten s cs cs' Hnd Hok Hin), <- (sub_flat_all s ell cs).
    apply sub_perm. exact HP. }
  (* a non-empty sub-list comes from a node child *)
  assert (forall s, sub s L <> [] -> exists cs', In (false, s, TNode cs') cs /\ cs' <> [] /\ wf_tmap cs' = true)
    as Hnode.
  { intros s Hne. assert (exists x, In x (sub s L)) as [x Hx]
      by (destruct (sub s L) as [|x l]; [congruence | exists x; left; reflexivity]).
    apply in_sub in Hx as (o & k2 & r & id & _ & Hx).
    apply HinL, flat_all_in in Hx. destruct Hx as [Hx|[Hx _]]; [|discriminate].
    apply flatten_shape in Hx as (o1 & k1 & t1 & Hin1 & S1); [|exact Hok].
    destruct S1 as [(Ep & _)|(cs1 & a & b & -> & -> & Hne1 & Hw1 & Ep & _)]; [discriminate|].
    inversion Ep; subst. exists cs1. auto. }
  destruct (rsequence_map_ok (ph2 f sep) (R2 cs) upd) as [d [Ed HF]].
  { intros [k v] Hkv. assert (rlookup k upd = Some v) as Hl by (apply in_rlookup; assumption).
    apply HI in Hl. destruct Hl as [(-> & -> & _)|[(o & s & id & -> & -> & _)|(s & -> & -> & Hne)]].
    - exists (RKEll, REll). split; [reflexivity|]. split; reflexivity.
    - exists (RKStr o s, RLeaf id). split; [reflexivity|]. split; reflexivity.
    - destruct (Hnode s Hne) as (cs' & Hin & Hne' & Hw').
      destruct (IH sep cs' false (sub s L)) as (d' & Ed' & Hk' & He'); try assumption.
      + eapply unamb_child; eassumption.
      + pose proof (depth_child _ _ _ _ Hin) as Hdc. rewrite tdepth_node in Hdc. lia.
      + unfold flat_all. rewrite app_nil_r. apply Hsub. exact Hin.
      + exists (RKStr false s, RDict d'). unfold ph2. cbn [snd fst]. rewrite Ed'. cbn [bind].
        split; [reflexivity|]. split; [reflexivity|]. cbn [snd fst].
        exists s, cs', d'. repeat split; try assumption.
        unfold of_tmap in He'. rewrite app_nil_r in He'. exact He'. }
  exists d. split; [exact Ed|].
  assert (map fst d = map fst upd) as Ekeys.
  { symmetry. eapply Forall2_map_eq; [exact HF|]. intros a b [E _]. symmetry. exact E. }
  (* every entry of the result, related to the target *)
  assert (forall k v', In (k, v') d ->
            val_keys_ok v' = true /\
            exists w, rlookup k (of_tmap ell cs) = Some w /\ val_equiv v' w = true) as Hent.
  { intros k v' Hin. destruct (Forall2_in_r _ _ _ _ HF Hin) as [[k0 v] [Hin0 [Ek Rv]]].
    cbn [fst snd] in Ek, Rv. subst k0.
    assert (rlookup k upd = Some v) as Hl by (apply in_rlookup; assumption).
    apply HI in Hl. destruct Hl as [(-> & -> & HL)|[(o & s & id & -> & -> & HL)|(s & -> & -> & Hne)]].
    - subst v'. split; [reflexivity|]. apply HinL, flat_all_in in HL.
      destruct HL as [HL|[_ ->]]; [exfalso; exact (FEll_notin_flatten _ HL)|].
      exists REll. split; [apply of_tmap_lookup_ell; exact Hnd | reflexivity].
    - subst v'. split; [reflexivity|]. apply HinL, flat_all_in in HL.
      destruct HL as [HL|[HL _]]; [|discriminate].
      apply flatten_shape in HL as (o1 & k1 & t1 & Hin1 & S1); [|exact Hok].
      destruct S1 as [(Ep & Eo & Et)|(cs1 & a & b & _ & _ & _ & _ & Ep & _)]; [|discriminate].
      inversion Ep; subst k1 o1 t1. exists (RLeaf id). split.
      + apply (of_tmap_lookup_child ell cs o s (TLeaf id)); assumption.
      + cbn. apply N.eqb_refl.
    - destruct Rv as (s0 & cs' & es' & Es & Hin' & -> & Hk' & He').
      inversion Es; subst s0. split; [exact Hk'|].
      exists (of_tree (TNode cs')). split; [|exact He'].
      apply (of_tmap_lookup_child ell cs false s (TNode cs')); assumption. }
  split.
  - unfold dict_keys_ok. cbn [val_keys_ok]. apply andb_true_iff. split.
    + apply keys_nodupb_spec. rewrite Ekeys. exact HndU.
    + apply forallb_forall. intros [k v'] Hin. cbn [snd]. apply (Hent k v' Hin).
  - apply dict_equiv_intro.
    + apply same_keys_length.
      * rewrite Ekeys. exact HndU.
      * apply of_tmap_keys_nodup. exact Hnd.
      * intro k. split.
        -- intro Hin. apply in_map_iff in Hin as [[k0 v'] [E Hin]]. cbn [fst] in E. subst k0.
           destruct (Hent k v' Hin) as [_ [w [Hlw _]]]. eapply rlookup_some_key. exact Hlw.
        -- intro Hin. rewrite Ekeys. rewrite of_tmap_keys in Hin. apply in_app_iff in Hin as [Hin|Hin].
           ++ apply in_map_iff in Hin as [[[o s] t] [<- Hin]]. unfold ckey. cbn [fst snd].
              destruct t as [id|cs'].
              ** apply (rlookup_some_key _ (RLeaf id)). apply HI. right. left. exists o, s, id.
                 repeat split. apply HinL, flat_all_in. left. apply leaf_in_flatten. exact Hin.
              ** pose proof (Hok _ Hin) as Hc. unfold child_ok in Hc. cbn [fst snd] in Hc.
                 destruct Hc as (-> & Hne' & Hw').
                 apply (rlookup_some_key _ (RDict (map (ent sep) (sub s L)))). apply HI. right. right.
                 exists s. repeat split. intro E0. pose proof (Hsub s cs' Hin) as HPs. rewrite E0 in HPs.
                 apply Permutation_nil in HPs.
                 exact (wf_flatten_nonempty (TNode cs') cs' eq_refl Hne' Hw' HPs).
           ++ destruct ell; [|destruct Hin]. destruct Hin as [<-|[]].
              apply (rlookup_some_key _ REll). apply HI. left. repeat split.
              apply HinL, flat_all_in. right. auto.
    + intros k v' Hin. destruct (Hent k v' Hin) as [_ H]. exact H.
Qed.

(* ---- the theorem on the flat dict itself ---- *)
Theorem rollout_flatten_inverse_lemma :
  forall (sep : pystr) (ell : bool) (cs : tmap) (flat : rdict) (fuel : nat),
    sep <> [] -> wf_tmap cs = true -> unambiguous_tmap sep cs = true ->
    Permutation flat (map (ent sep) (flat_all ell cs)) ->
    tmap_depth cs < fuel ->
    exists d, rollout fuel sep flat = Ok d
              /\ dict_keys_ok d = true /\ dict_equiv d (of_tmap ell cs) = true.
Proof.
  intros sep ell cs flat fuel Hsep Hw Hu HP Hf.
  apply Permutation_map_inv in HP as [L [-> HP]].
  apply rollout_flatten_inverse_fent; try assumption. symmetry. exact HP.
Qed.

(* 1-character separators: separator-free segments suffice *)
Lemma sepfree_unambiguous_tmap c cs : sepfree_tmap [c] cs = true -> unambiguous_tmap [c] cs = true.
Proof.
  unfold sepfree_tmap, unambiguous_tmap. rewrite !forallb_forall. intros H e He.
  specialize (H e He). destruct e as [|o p id]; [reflexivity|]. cbn [fent_unamb].
  apply sepfree_unambiguous_1_lemma. exact H.
Qed.

Theorem rollout_flatten_inverse_1char_lemma :
  forall (c : N) (ell : bool) (cs : tmap) (flat : rdict) (fuel : nat),
    wf_tmap cs = true -> sepfree_tmap [c] cs = true ->
    Permutation flat (map (ent [c]) (flat_all ell cs)) ->
    tmap_depth cs < fuel ->
    exists d, rollout fuel [c] flat = Ok d
              /\ dict_keys_ok d = true /\ dict_equiv d (of_tmap ell cs) = true.
Proof.
  intros c ell cs flat fuel Hw Hs HP Hf.
  apply rollout_flatten_inverse_lemma; try assumption; [discriminate|].
  apply sepfree_unambiguous_tmap. exact Hs.
Qed.

(* ---- the carved-out corners are real ---- *)
Open Scope N_scope.
(* multi-character separator, separator-free keys, but an occurrence straddles a boundary:
   {"a_": {"b": 1}} flattened with "__" is {"a___b": 1}; rollout gives {"a": {"_b": 1}} *)
Lemma rollout_flatten_inverse_refuted_ambiguous_lemma :
  exists (sep : pystr) (cs : tmap) (d : rdict),
    sep <> [] /\ wf_tmap cs = true /\ sepfree_tmap sep cs = true /\ unambiguous_tmap sep cs = false
    /\ rollout (S (tmap_depth cs)) sep (map (ent sep) (flat_all false cs)) = Ok d
    /\ dict_equiv d (of_tmap false cs) = false.
Proof.
  exists [95; 95], [(false, [97; 95], TNode [(false, [98], TLeaf 1)])].
  eexists. split; [discriminate|]. repeat split; vm_compute; reflexivity.
Qed.

Lemma split_join_refuted_lemma :
  exists (sep : pystr) (segs : list pystr),
    sep <> [] /\ forallb (fun seg => negb (infix sep seg)) segs = true
    /\ split sep (join sep segs) <> segs.
Proof.
  exists [95; 95], [[97; 95]; [98]]. split; [discriminate|]. split; [reflexivity|].
  vm_compute. discriminate.
Qed.

(* an interior dict without any leaf has no flat key: {"a": {}} flattens to {} *)
Lemma rollout_flatten_inverse_refuted_empty_node_lemma :
  exists (sep : pystr) (cs : tmap) (d : rdict),
    sep <> [] /\ wf_tmap cs = false /\ unambiguous_tmap sep cs = true
    /\ rollout (S (tmap_depth cs)) sep (map (ent sep) (flat_all false cs)) = Ok d
    /\ dict_equiv d (of_tmap false cs) = false.
Proof.
  exists [46], [(false, [97], TNode [])].
  eexists. split; [discriminate|]. repeat split; vm_compute; reflexivity.
Qed.

(* optional on an interior key cannot be written on a flat key:
   {optional("a"): {"b": 1}} -> {"a.b": 1} -> {"a": {"b": 1}} *)
Lemma rollout_flatten_inverse_refuted_optional_node_lemma :
  exists (sep : pystr) (cs : tmap) (d : rdict),
    sep <> [] /\ wf_tmap cs = false /\ unambiguous_tmap sep cs = true
    /\ rollout (S (tmap_depth cs)) sep (map (ent sep) (flat_all false cs)) = Ok d
    /\ dict_equiv d (of_tmap false cs) = false.
Proof.
  exists [46], [(true, [97], TNode [(false, [98], TLeaf 1)])].
  eexists. split; [discriminate|]. repeat split; vm_compute; reflexivity.
Qed.
Close Scope N_scope.

(* ---- already nested input: identity ---- *)
Lemma rsequence_map_id {A} (f : A -> result A) (l : list A) :
  (forall a, In a l -> f a = Ok a) -> rsequence (map f l) = Ok l.
Proof.
  induction l as [|a l IH]; intro H; [reflexivity|].
  cbn [map rsequence]. rewrite (H a (or_introl eq_refl)), IH by (intros x Hx; apply H; right; exact Hx).
  reflexivity.
Qed.

Lemma loop_nested sep d : sep <> [] ->
  forall acc, NoDup (map fst (acc ++ d)) ->
    (forall kv, In kv d -> nested_key_ok sep kv = true) ->
    loop sep d (Ok acc) = Ok (acc ++ d).
Proof.
  intro Hsep. induction d as [|[k v] d IH]; intros acc Hnd Hk.
  - rewrite app_nil_r. reflexivity.
  - assert (~ In k (map fst acc)) as Hnew.
    { rewrite map_app in Hnd. cbn [map fst] in Hnd. apply NoDup_remove_2 in Hnd.
      intro Hin. apply Hnd. apply in_app_iff. auto. }
    assert (step sep acc (k, v) = Ok (acc ++ [(k, v)])) as Es.
    { pose proof (Hk (k, v) (or_introl eq_refl)) as H. unfold nested_key_ok in H. cbn [fst snd] in H.
      destruct k as [|o s|]; [| |discriminate].
      - destruct v; try discriminate. cbn [step]. rewrite rinsert_notin by exact Hnew. reflexivity.
      - apply negb_true_iff in H. rewrite step_str by exact Hsep. rewrite split_nosep by assumption.
        rewrite rinsert_notin by exact Hnew. reflexivity. }
    unfold loop in *. cbn [fold_left bind]. rewrite Es.
    replace (acc ++ (k, v) :: d) with ((acc ++ [(k, v)]) ++ d) by (rewrite <- app_assoc; reflexivity).
    apply IH.
    + rewrite <- app_assoc. exact Hnd.
    + intros kv Hin. apply Hk. right. exact Hin.
Qed.

Lemma vdepth_entry (k : rkey) v (es : rdict) :
  In (k, v) es -> vdepth v <= fold_right (fun (kv : rkey * rval) m => Nat.max (vdepth (snd kv)) m) 0 es.
Proof.
  induction es as [|e r IH]; cbn [In fold_right]; [tauto|].
  intros [->|H]; cbn [snd]; [lia|]. specialize (IH H). lia.
Qed.

Theorem rollout_nested_id_lemma :
  forall (fuel : nat) (sep : pystr) (d : rdict),
    sep <> [] -> nested_ok sep (RDict d) = true -> vdepth (RDict d) <= fuel ->
    rollout fuel sep d = Ok d.
Proof.
  induction fuel as [|f IH]; intros sep d Hsep Hn Hd; [cbn [vdepth] in Hd; lia|].
  cbn [nested_ok] in Hn. apply andb_true_iff in Hn as [Hnd Hall].
  apply keys_nodupb_spec in Hnd. rewrite forallb_forall in Hall.
  rewrite rollout_S. rewrite (loop_nested sep d Hsep []).
  - cbn [app bind]. apply rsequence_map_id. intros [k v] Hin.
    specialize (Hall _ Hin). apply andb_true_iff in Hall as [_ Hv]. cbn [snd] in Hv.
    unfold ph2. cbn [snd fst]. destruct v as [id|es|]; try reflexivity.
    rewrite IH; [reflexivity | exact Hsep | exact Hv |].
    cbn [vdepth] in Hd. pose proof (vdepth_entry _ _ _ Hin) as Hle. lia.
  - exact Hnd.
  - intros kv Hin. specialize (Hall _ Hin). apply andb_true_iff in Hall as [H _]. exact H.
Qed.
