(* The line splice of rewrite_imports (theories/Migrate.v) after the repair of F21: for every
   source whose ast view is [body], the spliced lines read back as the original statements
   with every absolute from-import replaced by its replacement statements - whether or not
   the import shares physical lines with other code.
   Plan: (1) the reverse-order splices amount to a forward function [Lines] defined on the
   lines alone; (2) [Lines ls] reads back as the rewritten statements. *)
Require Import D42.Prelude D42.Migrate.
Require Import D42Gen.GenMapping.
Require Import D42P.MigrateSpec.
Open Scope nat_scope.

Local Arguments Nat.eqb : simpl never.
Local Arguments Nat.leb : simpl never.

(* ------------------------------------------------------------------ list facts *)
Lemma firstn_le_app {A} a (X Y : list A) : a <= length X -> firstn a (X ++ Y) = firstn a X.
Proof.
  intros H. rewrite firstn_app. replace (a - length X) with 0 by lia.
  simpl. apply app_nil_r.
Qed.

Lemma firstn_len_app {A} (X Y : list A) : firstn (length X) (X ++ Y) = X.
Proof. rewrite firstn_app, Nat.sub_diag, firstn_all. simpl. apply app_nil_r. Qed.

Lemma skipn_len_app {A} (X Y : list A) : skipn (length X) (X ++ Y) = Y.
Proof. rewrite skipn_app, Nat.sub_diag, skipn_all. reflexivity. Qed.

Lemma nth_len_app {A} (X : list A) y Z d : nth (length X) (X ++ y :: Z) d = y.
Proof. rewrite app_nth2 by lia. rewrite Nat.sub_diag. reflexivity. Qed.

(* ------------------------------------------------------------------ the forward function *)
Section Fwd.
Variable mp : mapping_t.

(* what replacing an import gives, given the pieces P before it on its first line and the
   already transformed rest (pieces after it on its last line, following lines) *)
Definition finish (P : list frag) (R : list stmt) (hm : list frag * list (list frag))
  : list (list frag) :=
  if negb (is_nil P) || negb (is_nil (fst hm))
  then (P ++ map stmt_frag R ++ fst hm) :: snd hm
  else map stmt_line R ++ snd hm.

(* the rest of a physical line that has something before it: every import is replaced in place.
   L = the transformed following lines, O = the same when a multi-line import is open *)
Fixpoint tail_with (L : list (list frag)) (O : list frag * list (list frag)) (l : list frag)
  : list frag * list (list frag) :=
  match l with
  | [] => ([], L)
  | Frag s k n :: l' =>
      if rewritten s && (k =? 0) then
        let hm := if n =? 1 then tail_with L O l' else O in
        (map stmt_frag (rewrite_stmt mp s) ++ fst hm, snd hm)
      else let hm := tail_with L O l' in (Frag s k n :: fst hm, snd hm)
  end.

(* fst: the transformed lines from a line start; snd: the same from inside a multi-line
   rewritten import (rest of its last line, following lines) *)
Fixpoint both (ls : list (list frag)) : list (list frag) * (list frag * list (list frag)) :=
  match ls with
  | [] => ([], ([], []))
  | l :: ls' =>
      let LO := both ls' in
      (match l with
       | [] => [] :: fst LO
       | Frag s k n :: l' =>
           if rewritten s && (k =? 0)
           then finish [] (rewrite_stmt mp s)
                       (if n =? 1 then tail_with (fst LO) (snd LO) l' else snd LO)
           else let hm := tail_with (fst LO) (snd LO) l in fst hm :: snd hm
       end,
       match l with
       | [] => ([], [])
       | Frag s k n :: l' => if S k =? n then tail_with (fst LO) (snd LO) l' else snd LO
       end)
  end.

Definition Lines (ls : list (list frag)) : list (list frag) := fst (both ls).
Definition Open (ls : list (list frag)) : list frag * list (list frag) := snd (both ls).
Definition Tail (l : list frag) (ls : list (list frag)) : list frag * list (list frag) :=
  tail_with (Lines ls) (Open ls) l.

Lemma Lines_nil : Lines [] = [].
Proof. reflexivity. Qed.
Lemma Lines_blank ls : Lines ([] :: ls) = [] :: Lines ls.
Proof. reflexivity. Qed.
Lemma Lines_cons s k n l' ls :
  Lines ((Frag s k n :: l') :: ls) =
  if rewritten s && (k =? 0)
  then finish [] (rewrite_stmt mp s) (if n =? 1 then Tail l' ls else Open ls)
  else fst (Tail (Frag s k n :: l') ls) :: snd (Tail (Frag s k n :: l') ls).
Proof. reflexivity. Qed.
Lemma Open_cons s k n l' ls :
  Open ((Frag s k n :: l') :: ls) = if S k =? n then Tail l' ls else Open ls.
Proof. reflexivity. Qed.
Lemma Tail_nil ls : Tail [] ls = ([], Lines ls).
Proof. reflexivity. Qed.
Lemma Tail_cons s k n l' ls :
  Tail (Frag s k n :: l') ls =
  if rewritten s && (k =? 0)
  then (map stmt_frag (rewrite_stmt mp s) ++ fst (if n =? 1 then Tail l' ls else Open ls),
        snd (if n =? 1 then Tail l' ls else Open ls))
  else (Frag s k n :: fst (Tail l' ls), snd (Tail l' ls)).
Proof. reflexivity. Qed.

Definition at_cursor (pf l : list frag) (ls : list (list frag)) : list (list frag) :=
  match pf with
  | [] => Lines (l :: ls)
  | _ => (pf ++ fst (Tail l ls)) :: snd (Tail l ls)
  end.

Lemma at_cursor_ne pf l ls : pf <> [] ->
  at_cursor pf l ls = (pf ++ fst (Tail l ls)) :: snd (Tail l ls).
Proof. destruct pf; [congruence | reflexivity]. Qed.

Lemma finish_ne P R hm : P <> [] -> finish P R hm = (P ++ map stmt_frag R ++ fst hm) :: snd hm.
Proof. destruct P; [congruence | reflexivity]. Qed.

(* ------------------------------------------------------------------ one splice *)
Lemma replacements_app a b : replacements mp (a ++ b) = replacements mp a ++ replacements mp b.
Proof. unfold replacements. apply flat_map_app. Qed.

Lemma replacements_cons it its :
  replacements mp (it :: its) = replacements mp [it] ++ replacements mp its.
Proof. apply (replacements_app [it] its). Qed.

Lemma replacements_plain s p q : rewritten s = false -> replacements mp [(s, p, q)] = [].
Proof. destruct s as [[|l] m ns|i]; simpl; intros H; try discriminate; reflexivity. Qed.

Lemma replacements_rewritten s p q : rewritten s = true ->
  replacements mp [(s, p, q)] = [(p, q, rewrite_stmt mp s)].
Proof. destruct s as [[|l] m ns|i]; simpl; intros H; try discriminate; reflexivity. Qed.

Lemma splice_same_line pre pf f h m R i c :
  length pre = i -> length pf = c ->
  splice ((i, c), (i, S c), R) (pre ++ ((pf ++ [f]) ++ h) :: m) = pre ++ finish pf R (h, m).
Proof.
  intros Hi Hc. unfold splice. subst i.
  rewrite nth_len_app.
  replace (firstn c ((pf ++ [f]) ++ h)) with pf
    by (subst c; rewrite <- app_assoc; rewrite firstn_len_app; reflexivity).
  replace (skipn (S c) ((pf ++ [f]) ++ h)) with h
    by (subst c; replace (S (length pf)) with (length (pf ++ [f]))
          by (rewrite app_length; simpl; lia); rewrite skipn_len_app; reflexivity).
  rewrite firstn_len_app.
  replace (Nat.max (length pre) (S (length pre))) with (length (pre ++ [(pf ++ [f]) ++ h]))
    by (rewrite app_length; simpl; lia).
  replace (pre ++ ((pf ++ [f]) ++ h) :: m) with ((pre ++ [(pf ++ [f]) ++ h]) ++ m)
    by (rewrite <- app_assoc; reflexivity).
  rewrite skipn_len_app. unfold finish. simpl fst. simpl snd.
  destruct (negb (is_nil pf) || negb (is_nil h)); reflexivity.
Qed.

Lemma splice_multi PRE a p i f h m R :
  a < length PRE -> length PRE = i ->
  splice ((a, p), (i, 1), R) (PRE ++ (f :: h) :: m)
  = firstn a PRE ++ finish (firstn p (nth a PRE [])) R (h, m).
Proof.
  intros Ha Hi. unfold splice. subst i.
  rewrite (app_nth1 PRE _ [] Ha). rewrite nth_len_app. simpl skipn.
  rewrite firstn_le_app by lia.
  replace (Nat.max a (S (length PRE))) with (length (PRE ++ [f :: h]))
    by (rewrite app_length; simpl; lia).
  replace (PRE ++ (f :: h) :: m) with ((PRE ++ [f :: h]) ++ m)
    by (rewrite <- app_assoc; reflexivity).
  rewrite skipn_len_app. unfold finish. simpl fst. simpl snd.
  destruct (negb (is_nil (firstn p (nth a PRE []))) || negb (is_nil h)); reflexivity.
Qed.

(* ------------------------------------------------------------------ (1) splices = Lines *)
Lemma apply_cons r rs ls : apply_replacements (r :: rs) ls = splice r (apply_replacements rs ls).
Proof. reflexivity. Qed.

Local Arguments apply_replacements : simpl never.
Local Arguments splice : simpl never.
Local Arguments finish : simpl never.
Local Arguments Lines : simpl never.
Local Arguments Open : simpl never.
Local Arguments Tail : simpl never.
Local Arguments at_cursor : simpl never.
Local Arguments rewrite_stmt : simpl never.

Definition P_lines (ls : list (list frag)) : Prop :=
  forall i st items pre, parse_lines i st ls = Some items -> length pre = i ->
    match st with
    | Some (s, (a, p), k, n) =>
        if rewritten s then
          a < i -> k <> 0 ->
          apply_replacements (replacements mp items) (pre ++ ls)
          = firstn a pre ++ finish (firstn p (nth a pre [])) (rewrite_stmt mp s) (Open ls)
        else apply_replacements (replacements mp items) (pre ++ ls) = pre ++ Lines ls
    | None => apply_replacements (replacements mp items) (pre ++ ls) = pre ++ Lines ls
    end.

Lemma Q_frags ls : P_lines ls -> forall l i c pf pre its st1 rest,
  eat_frags i c l = Some (its, st1) -> parse_lines (S i) st1 ls = Some rest ->
  length pre = i -> length pf = c ->
  apply_replacements (replacements mp (its ++ rest)) (pre ++ (pf ++ l) :: ls)
  = pre ++ at_cursor pf l ls.
Proof.
  intros HP. induction l as [|[s k n] l' IH]; intros i c pf pre its st1 rest HE HR Hi Hc.
  - simpl in HE. inversion HE. subst its st1. simpl app. rewrite app_nil_r.
    replace (pre ++ pf :: ls) with ((pre ++ [pf]) ++ ls) by (rewrite <- app_assoc; reflexivity).
    assert (HL : length (pre ++ [pf]) = S i) by (rewrite app_length; simpl; lia).
    pose proof (HP (S i) None rest (pre ++ [pf]) HR HL) as X. simpl in X. rewrite X.
    rewrite <- app_assoc. f_equal. destruct pf as [|x pf].
    + unfold at_cursor. rewrite Lines_blank. reflexivity.
    + rewrite at_cursor_ne by discriminate. rewrite Tail_nil. simpl. rewrite app_nil_r. reflexivity.
  - simpl in HE. destruct (stmt_wf s && (k =? 0)) eqn:W; try discriminate.
    apply andb_true_iff in W. destruct W as [W K]. apply Nat.eqb_eq in K. subst k.
    replace (pf ++ Frag s 0 n :: l') with ((pf ++ [Frag s 0 n]) ++ l')
      by (rewrite <- app_assoc; reflexivity).
    assert (NE : pf ++ [Frag s 0 n] <> []) by (destruct pf; discriminate).
    destruct (n =? 1) eqn:N1.
    + destruct (eat_frags i (S c) l') as [[its' st']|] eqn:E'; simpl in HE; try discriminate.
      inversion HE. subst its st1. clear HE.
      assert (Hc' : length (pf ++ [Frag s 0 n]) = S c) by (rewrite app_length; simpl; lia).
      pose proof (IH i (S c) (pf ++ [Frag s 0 n]) pre its' st' rest E' HR Hi Hc') as X.
      rewrite (at_cursor_ne _ _ _ NE) in X.
      unfold prepend. simpl fst. simpl app. rewrite replacements_cons.
      destruct (rewritten s) eqn:RW.
      * rewrite (replacements_rewritten _ _ _ RW). simpl app. rewrite apply_cons. rewrite X.
        rewrite (splice_same_line pre pf _ _ _ _ i c Hi Hc). f_equal.
        destruct pf as [|x pf].
        -- unfold at_cursor. rewrite Lines_cons, RW, N1, Nat.eqb_refl. reflexivity.
        -- rewrite at_cursor_ne by discriminate. rewrite finish_ne by discriminate.
           rewrite Tail_cons, RW, N1, Nat.eqb_refl. reflexivity.
      * rewrite (replacements_plain _ _ _ RW). simpl app. rewrite X. f_equal.
        destruct pf as [|x pf].
        -- unfold at_cursor. rewrite Lines_cons, RW. simpl andb. cbv iota.
           rewrite Tail_cons, RW. reflexivity.
        -- rewrite at_cursor_ne by discriminate. rewrite Tail_cons, RW. simpl andb. cbv iota.
           simpl fst. simpl snd. rewrite <- app_assoc. reflexivity.
    + destruct (2 <=? n) eqn:N2; try discriminate. destruct l' as [|f' l']; try discriminate.
      inversion HE. subst its st1. clear HE. simpl app. rewrite app_nil_r.
      replace (pre ++ (pf ++ [Frag s 0 n]) :: ls) with ((pre ++ [pf ++ [Frag s 0 n]]) ++ ls)
        by (rewrite <- app_assoc; reflexivity).
      assert (HL : length (pre ++ [pf ++ [Frag s 0 n]]) = S i) by (rewrite app_length; simpl; lia).
      pose proof (HP (S i) (Some (s, (i, c), 1, n)) rest (pre ++ [pf ++ [Frag s 0 n]]) HR HL) as X.
      simpl in X. destruct (rewritten s) eqn:RW.
      * rewrite (X (Nat.lt_succ_diag_r i) (Nat.neq_succ_0 0)). subst i.
        rewrite firstn_len_app. rewrite nth_len_app. subst c. rewrite firstn_len_app.
        f_equal. destruct pf as [|x pf].
        -- unfold at_cursor. rewrite Lines_cons, RW, N1, Nat.eqb_refl. reflexivity.
        -- rewrite at_cursor_ne by discriminate. rewrite finish_ne by discriminate.
           rewrite Tail_cons, RW, N1, Nat.eqb_refl. reflexivity.
      * rewrite X. rewrite <- app_assoc. f_equal. destruct pf as [|x pf].
        -- unfold at_cursor. rewrite Lines_cons, RW. simpl andb. cbv iota.
           rewrite Tail_cons, RW, Tail_nil. reflexivity.
        -- rewrite at_cursor_ne by discriminate. rewrite Tail_cons, RW, Tail_nil. reflexivity.
Qed.

Lemma P_all : forall ls, P_lines ls.
Proof.
  induction ls as [|l ls IH]; intros i st items pre HPa Hi.
  - simpl in HPa. destruct st as [[[[s0 [a p]] k0] n0]|]; try discriminate.
    inversion HPa. subst. rewrite Lines_nil. reflexivity.
  - simpl in HPa. destruct (eat_line i st l) as [[its st1]|] eqn:EL; try discriminate.
    destruct (parse_lines (S i) st1 ls) as [rest|] eqn:PR; try discriminate.
    inversion HPa. subst items. clear HPa.
    destruct st as [[[[s0 [a p]] k0] n0]|].
    + (* a statement is open *)
      unfold eat_line in EL. destruct l as [|[s k n] l']; try discriminate.
      destruct (stmt_eqb s s0 && (k =? k0) && (n =? n0)) eqn:T; try discriminate.
      apply andb_true_iff in T. destruct T as [T T3]. apply andb_true_iff in T. destruct T as [T1 T2].
      apply stmt_eqb_eq in T1. apply Nat.eqb_eq in T2. apply Nat.eqb_eq in T3. subst s k n.
      destruct (S k0 =? n0) eqn:FIN.
      * (* its last piece *)
        destruct (eat_frags i 1 l') as [[its' st']|] eqn:E'; simpl in EL; try discriminate.
        inversion EL. subst its st1. clear EL.
        pose proof (Q_frags ls IH l' i 1 [Frag s0 k0 n0] pre its' st' rest E' PR Hi eq_refl) as X.
        rewrite at_cursor_ne in X by discriminate.
        unfold prepend. simpl fst. simpl app. rewrite replacements_cons.
        destruct (rewritten s0) eqn:RW.
        -- intros Ha Hk. rewrite (replacements_rewritten _ _ _ RW). simpl app. rewrite apply_cons.
           simpl app in X. rewrite X.
           rewrite (splice_multi pre a p i _ _ _ _ (eq_ind _ (fun z => a < z) Ha _ (eq_sym Hi)) Hi).
           rewrite Open_cons, FIN. destruct (Tail l' ls). reflexivity.
        -- rewrite (replacements_plain _ _ _ RW). simpl app. simpl app in X. rewrite X.
           rewrite Lines_cons, RW. simpl andb. cbv iota. rewrite Tail_cons, RW. reflexivity.
      * (* a middle piece: the line holds nothing else *)
        destruct l' as [|f' l']; try discriminate. inversion EL. subst its st1. clear EL. simpl app.
        replace (pre ++ [Frag s0 k0 n0] :: ls) with ((pre ++ [[Frag s0 k0 n0]]) ++ ls)
          by (rewrite <- app_assoc; reflexivity).
        assert (HL : length (pre ++ [[Frag s0 k0 n0]]) = S i) by (rewrite app_length; simpl; lia).
        pose proof (IH (S i) (Some (s0, (a, p), S k0, n0)) rest (pre ++ [[Frag s0 k0 n0]]) PR HL) as X.
        simpl in X. destruct (rewritten s0) eqn:RW.
        -- intros Ha Hk. rewrite X by lia.
           rewrite firstn_le_app by lia. rewrite (app_nth1 pre _ [] (eq_ind _ (fun z => a < z) Ha _ (eq_sym Hi))).
           rewrite Open_cons, FIN. reflexivity.
        -- rewrite X. rewrite <- app_assoc. f_equal.
           rewrite Lines_cons, RW. simpl andb. cbv iota. rewrite Tail_cons, RW, Tail_nil. reflexivity.
    + (* at a line start, nothing open *)
      unfold eat_line in EL.
      pose proof (Q_frags ls IH l i 0 [] pre its st1 rest EL PR Hi eq_refl) as X.
      exact X.
Qed.

Lemma apply_replacements_Lines ls body :
  ast_view ls = Some body -> apply_replacements (replacements mp body) ls = Lines ls.
Proof. intros H. exact (P_all ls 0 None body [] H eq_refl). Qed.
End Fwd.

(* ------------------------------------------------------------------ reading statements off
   lines does not depend on the positions: a position-free copy of the parser *)
Definition pstate0 := option (stmt * nat * nat).
Definition forget (st : pstate) : pstate0 :=
  match st with Some (s, _, k, n) => Some (s, k, n) | None => None end.
Definition proj (r : list (stmt * (nat * nat) * (nat * nat)) * pstate) : list stmt * pstate0 :=
  (map it_stmt (fst r), forget (snd r)).
Definition prepend0 (s : stmt) (r : list stmt * pstate0) : list stmt * pstate0 := (s :: fst r, snd r).

Fixpoint eat_frags0 (l : list frag) : option (list stmt * pstate0) :=
  match l with
  | [] => Some ([], None)
  | Frag s k n :: l' =>
      if stmt_wf s && (k =? 0) then
        if n =? 1 then option_map (prepend0 s) (eat_frags0 l')
        else if 2 <=? n then
               match l' with [] => Some ([], Some (s, 1, n)) | _ => None end
             else None
      else None
  end.

Definition eat_line0 (st : pstate0) (l : list frag) : option (list stmt * pstate0) :=
  match st with
  | None => eat_frags0 l
  | Some (s0, k0, n0) =>
      match l with
      | [] => None
      | Frag s k n :: l' =>
          if stmt_eqb s s0 && (k =? k0) && (n =? n0) then
            if S k0 =? n0 then option_map (prepend0 s0) (eat_frags0 l')
            else match l' with [] => Some ([], Some (s0, S k0, n0)) | _ => None end
          else None
      end
  end.

Fixpoint parse0 (st : pstate0) (ls : list (list frag)) : option (list stmt) :=
  match ls with
  | [] => match st with None => Some [] | Some _ => None end
  | l :: ls' =>
      match eat_line0 st l with
      | None => None
      | Some (ss, st') =>
          match parse0 st' ls' with
          | None => None
          | Some rest => Some (ss ++ rest)
          end
      end
  end.

Lemma eat_frags_proj l : forall i c, option_map proj (eat_frags i c l) = eat_frags0 l.
Proof.
  induction l as [|[s k n] l IH]; intros i c; simpl; auto.
  destruct (stmt_wf s && (k =? 0)); auto. destruct (n =? 1).
  - rewrite <- (IH i (S c)). destruct (eat_frags i (S c) l) as [[its st]|]; reflexivity.
  - destruct (2 <=? n); auto. destruct l; reflexivity.
Qed.

Lemma eat_line_proj i st l : option_map proj (eat_line i st l) = eat_line0 (forget st) l.
Proof.
  destruct st as [[[[s0 p0] k0] n0]|]; simpl; [|apply eat_frags_proj].
  destruct l as [|[s k n] l]; auto.
  destruct (stmt_eqb s s0 && (k =? k0) && (n =? n0)); auto.
  destruct (S k0 =? n0).
  - rewrite <- (eat_frags_proj l i 1). destruct (eat_frags i 1 l) as [[its st]|]; reflexivity.
  - destruct l; reflexivity.
Qed.

Lemma parse_proj : forall ls i st,
  option_map (map it_stmt) (parse_lines i st ls) = parse0 (forget st) ls.
Proof.
  induction ls as [|l ls IH]; intros i st; simpl.
  - destruct st as [[[[s a] k] n]|]; reflexivity.
  - rewrite <- (eat_line_proj i st l).
    destruct (eat_line i st l) as [[its st1]|]; simpl; auto.
    rewrite <- (IH (S i) st1).
    destruct (parse_lines (S i) st1 ls); simpl; auto. rewrite map_app. reflexivity.
Qed.

Lemma stmts_of_parse0 ls : stmts_of ls = parse0 None ls.
Proof. unfold stmts_of, ast_view. apply (parse_proj ls 0 None). Qed.

Lemma rewrite_stmt_plain mp s : rewritten s = false -> rewrite_stmt mp s = [s].
Proof. destruct s as [[|l] m ns|i]; simpl; intros H; try discriminate; reflexivity. Qed.

Lemma rewrite_stmt_wf mp s : Forall (fun r => stmt_wf r = true) (rewrite_stmt mp s) \/ rewritten s = false.
Proof.
  destruct s as [[|l] m ns|i]; simpl; auto. left. apply rewrite_import_wf.
Qed.

(* ------------------------------------------------------------------ gluing complete pieces *)
Lemma parse0_line_cons st l m :
  parse0 st (l :: m) =
  match eat_line0 st l with
  | None => None
  | Some (ss, st') => option_map (app ss) (parse0 st' m)
  end.
Proof. simpl. destruct (eat_line0 st l) as [[ss st']|]; auto. Qed.

Lemma eat_frags0_glue R h : Forall (fun r => stmt_wf r = true) R ->
  eat_frags0 (map stmt_frag R ++ h)
  = option_map (fun r : list stmt * pstate0 => (R ++ fst r, snd r)) (eat_frags0 h).
Proof.
  induction R as [|r R IH]; intros H; simpl.
  - destruct (eat_frags0 h) as [[a b]|]; reflexivity.
  - inversion H as [|x l H1 H2]. subst. rewrite H1. simpl. rewrite (IH H2).
    destruct (eat_frags0 h) as [[a b]|]; reflexivity.
Qed.

Lemma parse0_glue R h m : Forall (fun r => stmt_wf r = true) R ->
  parse0 None ((map stmt_frag R ++ h) :: m) = option_map (app R) (parse0 None (h :: m)).
Proof.
  intros H. rewrite !parse0_line_cons. unfold eat_line0. rewrite (eat_frags0_glue R h H).
  destruct (eat_frags0 h) as [[a b]|]; simpl; auto.
  destruct (parse0 b m); simpl; auto. rewrite app_assoc. reflexivity.
Qed.

Lemma parse0_blank m : parse0 None ([] :: m) = parse0 None m.
Proof. rewrite parse0_line_cons. simpl. destruct (parse0 None m); reflexivity. Qed.

Lemma parse0_stmt_lines R m : Forall (fun r => stmt_wf r = true) R ->
  parse0 None (map stmt_line R ++ m) = option_map (app R) (parse0 None m).
Proof.
  induction R as [|r R IH]; intros H.
  - simpl. destruct (parse0 None m); reflexivity.
  - inversion H as [|x l H1 H2]. subst.
    change (map stmt_line (r :: R) ++ m) with ([Frag r 0 1] :: (map stmt_line R ++ m)).
    rewrite parse0_line_cons. unfold eat_line0. cbn [eat_frags0]. rewrite H1, !Nat.eqb_refl.
    cbn [andb option_map prepend0 fst snd]. rewrite (IH H2).
    destruct (parse0 None m); reflexivity.
Qed.

Lemma parse0_finish R hm : Forall (fun r => stmt_wf r = true) R ->
  parse0 None (finish [] R hm) = option_map (app R) (parse0 None (fst hm :: snd hm)).
Proof.
  intros H. destruct hm as [h m]. unfold finish. simpl fst. simpl snd. simpl negb. simpl orb.
  destruct h as [|f h]; simpl is_nil; simpl negb; cbv iota.
  - rewrite (parse0_stmt_lines R m H), parse0_blank. reflexivity.
  - simpl app. apply (parse0_glue R (f :: h) m H).
Qed.

(* ------------------------------------------------------------------ (2) Lines reads back *)
Section ReadBack.
Variable mp : mapping_t.
Local Notation rw := (rewrite_stmt mp).
Local Arguments finish : simpl never.
Local Arguments Lines : simpl never.
Local Arguments Open : simpl never.
Local Arguments Tail : simpl never.
Local Arguments rewrite_stmt : simpl never.

Definition ptail (hm : list frag * list (list frag)) : option (list stmt) :=
  parse0 None (fst hm :: snd hm).

Definition P2 (ls : list (list frag)) : Prop :=
  forall st ss, parse0 st ls = Some ss ->
    match st with
    | Some (s, k, n) =>
        if rewritten s then
          k <> 0 -> exists ss', ss = s :: ss' /\ ptail (Open mp ls) = Some (flat_map rw ss')
        else parse0 st (Lines mp ls) = Some (flat_map rw ss)
    | None => parse0 None (Lines mp ls) = Some (flat_map rw ss)
    end.

Lemma rw_wf s : rewritten s = true -> Forall (fun r => stmt_wf r = true) (rw s).
Proof. intros H. destruct (rewrite_stmt_wf mp s) as [X|X]; [exact X | congruence]. Qed.

Lemma parse0_single s h m : stmt_wf s = true ->
  parse0 None ((Frag s 0 1 :: h) :: m) = option_map (cons s) (parse0 None (h :: m)).
Proof.
  intros W. rewrite !parse0_line_cons. unfold eat_line0. cbn [eat_frags0].
  rewrite W, !Nat.eqb_refl. cbn [andb].
  destruct (eat_frags0 h) as [[a b]|]; simpl; auto. destruct (parse0 b m); reflexivity.
Qed.

Lemma parse0_first s n m : stmt_wf s = true -> (n =? 1) = false -> (2 <=? n) = true ->
  parse0 None ([Frag s 0 n] :: m) = parse0 (Some (s, 1, n)) m.
Proof.
  intros W N1 N2. rewrite parse0_line_cons. unfold eat_line0. cbn [eat_frags0].
  rewrite W, Nat.eqb_refl, N1, N2. cbn [andb]. destruct (parse0 (Some (s, 1, n)) m); reflexivity.
Qed.

Lemma Q2 ls : P2 ls -> forall l ss1 st1 rest,
  eat_frags0 l = Some (ss1, st1) -> parse0 st1 ls = Some rest ->
  ptail (Tail mp l ls) = Some (flat_map rw (ss1 ++ rest)).
Proof.
  intros HP. induction l as [|[s k n] l' IH]; intros ss1 st1 rest HE HR.
  - simpl in HE. inversion HE. subst ss1 st1. rewrite Tail_nil. unfold ptail. simpl fst. simpl snd.
    rewrite parse0_blank. exact (HP None rest HR).
  - simpl in HE. destruct (stmt_wf s && (k =? 0)) eqn:W; try discriminate.
    apply andb_true_iff in W. destruct W as [W K]. apply Nat.eqb_eq in K. subst k.
    rewrite Tail_cons. rewrite Nat.eqb_refl, andb_true_r.
    destruct (n =? 1) eqn:N1.
    + apply Nat.eqb_eq in N1. subst n.
      destruct (eat_frags0 l') as [[ss' st']|] eqn:E'; simpl in HE; try discriminate.
      inversion HE. subst ss1 st1. clear HE.
      pose proof (IH ss' st' rest eq_refl HR) as X. unfold ptail in X.
      destruct (rewritten s) eqn:RW; unfold ptail; simpl fst; simpl snd.
      * rewrite (parse0_glue _ _ _ (rw_wf s RW)). rewrite X. simpl. reflexivity.
      * rewrite (parse0_single s _ _ W). rewrite X. simpl.
        rewrite (rewrite_stmt_plain mp s RW). reflexivity.
    + destruct (2 <=? n) eqn:N2; try discriminate. destruct l' as [|f' l']; try discriminate.
      inversion HE. subst ss1 st1. clear HE. simpl app.
      pose proof (HP (Some (s, 1, n)) rest HR) as X. simpl in X.
      destruct (rewritten s) eqn:RW; unfold ptail; simpl fst; simpl snd.
      * destruct (X (Nat.neq_succ_0 0)) as [ss' [-> X2]]. unfold ptail in X2.
        rewrite (parse0_glue _ _ _ (rw_wf s RW)). rewrite X2. simpl. reflexivity.
      * try rewrite Tail_nil. simpl fst. simpl snd. rewrite (parse0_first s n _ W N1 N2). exact X.
Qed.

Lemma parse0_open_final s0 k0 n0 f h m :
  (let 'Frag s k n := f in stmt_eqb s s0 && (k =? k0) && (n =? n0)) = true -> (S k0 =? n0) = true ->
  parse0 (Some (s0, k0, n0)) ((f :: h) :: m) = option_map (cons s0) (parse0 None (h :: m)).
Proof.
  destruct f as [s k n]. intros T F. rewrite !parse0_line_cons. unfold eat_line0. rewrite T, F.
  destruct (eat_frags0 h) as [[a b]|]; simpl; auto. destruct (parse0 b m); reflexivity.
Qed.

Lemma parse0_open_middle s0 k0 n0 f m :
  (let 'Frag s k n := f in stmt_eqb s s0 && (k =? k0) && (n =? n0)) = true -> (S k0 =? n0) = false ->
  parse0 (Some (s0, k0, n0)) ([f] :: m) = parse0 (Some (s0, S k0, n0)) m.
Proof.
  destruct f as [s k n]. intros T F. rewrite parse0_line_cons. unfold eat_line0. rewrite T, F.
  destruct (parse0 (Some (s0, S k0, n0)) m); reflexivity.
Qed.

Lemma P2_all : forall ls, P2 ls.
Proof.
  induction ls as [|l ls IH]; intros st ss HPa.
  - simpl in HPa. destruct st as [[[s0 k0] n0]|]; try discriminate. inversion HPa. reflexivity.
  - rewrite parse0_line_cons in HPa.
    destruct (eat_line0 st l) as [[ss1 st1]|] eqn:EL; try discriminate.
    destruct (parse0 st1 ls) as [rest|] eqn:PR; try discriminate.
    simpl in HPa. inversion HPa. subst ss. clear HPa.
    destruct st as [[[s0 k0] n0]|].
    + unfold eat_line0 in EL. destruct l as [|[s k n] l']; try discriminate.
      destruct (stmt_eqb s s0 && (k =? k0) && (n =? n0)) eqn:T; try discriminate.
      pose proof T as T'. apply andb_true_iff in T'. destruct T' as [T' _].
      apply andb_true_iff in T'. destruct T' as [T1 _]. apply stmt_eqb_eq in T1.
      destruct (S k0 =? n0) eqn:FIN.
      * destruct (eat_frags0 l') as [[ss' st']|] eqn:E'; simpl in EL; try discriminate.
        inversion EL. subst ss1 st1. clear EL.
        pose proof (Q2 ls IH l' ss' st' rest E' PR) as X.
        destruct (rewritten s0) eqn:RW.
        -- intros _. exists (ss' ++ rest). split; [reflexivity|].
           rewrite Open_cons. replace (S k =? n) with true.
           ++ exact X.
           ++ apply andb_true_iff in T. destruct T as [T T3]. apply andb_true_iff in T. destruct T as [_ T2].
              apply Nat.eqb_eq in T2. apply Nat.eqb_eq in T3. subst. auto.
        -- rewrite Lines_cons. subst s. rewrite RW. cbn [andb]. rewrite Tail_cons, RW. cbn [andb fst snd].
           rewrite (parse0_open_final s0 k0 n0 (Frag s0 k n) _ _ T FIN).
           unfold ptail in X. rewrite X. simpl. rewrite (rewrite_stmt_plain mp s0 RW). reflexivity.
      * destruct l' as [|f' l']; try discriminate. inversion EL. subst ss1 st1. clear EL. simpl app.
        pose proof (IH (Some (s0, S k0, n0)) rest PR) as X. simpl in X.
        destruct (rewritten s0) eqn:RW.
        -- intros _. destruct (X (Nat.neq_succ_0 k0)) as [ss' [-> X2]]. exists ss'. split; auto.
           rewrite Open_cons. replace (S k =? n) with false; [exact X2|].
           apply andb_true_iff in T. destruct T as [T T3]. apply andb_true_iff in T. destruct T as [_ T2].
           apply Nat.eqb_eq in T2. apply Nat.eqb_eq in T3. subst. auto.
        -- rewrite Lines_cons. subst s. rewrite RW. cbn [andb]. rewrite Tail_cons, RW, Tail_nil. cbn [andb fst snd].
           rewrite (parse0_open_middle s0 k0 n0 (Frag s0 k n) _ T FIN). exact X.
    + unfold eat_line0 in EL. destruct l as [|[s k n] l'].
      * simpl in EL. inversion EL. subst ss1 st1. rewrite Lines_blank, parse0_blank.
        exact (IH None rest PR).
      * rewrite Lines_cons. destruct (rewritten s && (k =? 0)) eqn:HD.
        -- apply andb_true_iff in HD. destruct HD as [RW K]. apply Nat.eqb_eq in K. subst k.
           rewrite (parse0_finish _ _ (rw_wf s RW)).
           simpl in EL. destruct (stmt_wf s && (0 =? 0)) eqn:W; try discriminate.
           destruct (n =? 1) eqn:N1.
           ++ destruct (eat_frags0 l') as [[ss' st']|] eqn:E'; simpl in EL; try discriminate.
              inversion EL. subst ss1 st1. clear EL.
              pose proof (Q2 ls IH l' ss' st' rest E' PR) as X. unfold ptail in X. rewrite X.
              reflexivity.
           ++ destruct (2 <=? n); try discriminate. destruct l' as [|f' l']; try discriminate.
              inversion EL. subst ss1 st1. clear EL. simpl app.
              pose proof (IH (Some (s, 1, n)) rest PR) as X. simpl in X. rewrite RW in X.
              destruct (X (Nat.neq_succ_0 0)) as [ss' [-> X2]]. unfold ptail in X2. rewrite X2.
              reflexivity.
        -- exact (Q2 ls IH (Frag s k n :: l') ss1 st1 rest EL PR).
Qed.

Lemma Lines_reads_back ls ss :
  parse0 None ls = Some ss -> parse0 None (Lines mp ls) = Some (flat_map rw ss).
Proof. intros H. exact (P2_all ls None ss H). Qed.
End ReadBack.

(* ------------------------------------------------------------------ main statements *)
Lemma rewrite_splice_correct_lemma mp ls body :
  ast_view ls = Some body ->
  stmts_of (apply_replacements (replacements mp body) ls)
  = Some (flat_map (rewrite_stmt mp) (map it_stmt body)).
Proof.
  intros HA. rewrite (apply_replacements_Lines mp ls body HA), stmts_of_parse0.
  apply Lines_reads_back. rewrite <- stmts_of_parse0. unfold stmts_of. rewrite HA. reflexivity.
Qed.

(* None exactly when there is no absolute ImportFrom at top level *)
Lemma replacements_nil_iff mp body :
  replacements mp body = [] <-> forallb (fun it => negb (rewritten (it_stmt it))) body = true.
Proof.
  induction body as [|[[s a] b] body IH]; simpl; [tauto|].
  rewrite andb_true_iff, <- IH. unfold it_stmt. simpl.
  destruct s as [[|l] m ns|i]; simpl; split; intros H; try discriminate; try tauto.
  destruct H; discriminate.
Qed.

Lemma rewrite_none_iff_lemma mp ls body :
  rewrite_imports mp ls body = None <->
  (forall it, In it body -> rewritten (it_stmt it) = false).
Proof.
  unfold rewrite_imports.
  assert (E : (forall it, In it body -> rewritten (it_stmt it) = false)
              <-> replacements mp body = []).
  { rewrite replacements_nil_iff, forallb_forall. split; intros H it Hit.
    - rewrite (H it Hit). reflexivity.
    - apply negb_true_iff. auto. }
  rewrite E. destruct (replacements mp body); split; intros H; congruence.
Qed.

Lemma rewrite_source_correct_lemma mp ls body :
  ast_view ls = Some body ->
  match rewrite_source mp ls with
  | Ok None => forall it, In it body -> rewritten (it_stmt it) = false
  | Ok (Some out) =>
      (exists it, In it body /\ rewritten (it_stmt it) = true) /\
      stmts_of out = Some (flat_map (rewrite_stmt mp) (map it_stmt body))
  | _ => False
  end.
Proof.
  intros HA. unfold rewrite_source. rewrite HA.
  destruct (rewrite_imports mp ls body) as [out|] eqn:E.
  - split.
    + destruct (existsb (fun it => rewritten (it_stmt it)) body) eqn:X.
      * apply existsb_exists in X. exact X.
      * exfalso. assert (N : rewrite_imports mp ls body = None).
        { apply rewrite_none_iff_lemma. intros it Hit.
          destruct (rewritten (it_stmt it)) eqn:R; auto.
          assert (existsb (fun it => rewritten (it_stmt it)) body = true)
            by (apply existsb_exists; exists it; auto). congruence. }
        congruence.
    + assert (O : out = apply_replacements (replacements mp body) ls).
      { unfold rewrite_imports in E. destruct (replacements mp body); [discriminate | congruence]. }
      subst out. apply rewrite_splice_correct_lemma; auto.
  - apply (proj1 (rewrite_none_iff_lemma mp ls body)). exact E.
Qed.

(* ------------------------------------------------------------------ witnesses *)
Definition s_district42 : pystr := [100;105;115;116;114;105;99;116;52;50]%N.
Definition s_d42 : pystr := [100;52;50]%N.
Definition s_schema : pystr := [115;99;104;101;109;97]%N.
Definition s_foo : pystr := [102;111;111]%N.

(* the former F21 witness "from district42 import schema; x = 1": one physical line *)
Definition f21_import : stmt := ImportFrom 0 (Some s_district42) [(s_schema, None)].
Definition f21_lines : list (list frag) := [[Frag f21_import 0 1; Frag (Other 1) 0 1]].

Lemma f21_now_correct_lemma :
  line_disjoint f21_lines = false /\
  rewrite_source gen_mapping f21_lines
  = Ok (Some [[Frag (ImportFrom 0 (Some s_d42) [(s_schema, None)]) 0 1; Frag (Other 1) 0 1]]).
Proof. vm_compute. split; reflexivity. Qed.

(* the former F27 witness "\x0cfrom district42 import schema\nx = 1\n": since the repair the
   line list is the tokenizer's, the form feed is just a blank in front of the import *)
Definition ff_lines : list (list frag) := [[Frag f21_import 0 1]; [Frag (Other 1) 0 1]].

Lemma ff_now_correct_lemma :
  rewrite_source gen_mapping ff_lines
  = Ok (Some [[Frag (ImportFrom 0 (Some s_d42) [(s_schema, None)]) 0 1]; [Frag (Other 1) 0 1]]).
Proof. vm_compute. reflexivity. Qed.

(* the hypothesis [ast_view ls = Some body] is needed: positions that do not index the line
   list (what str.splitlines() did before the repair of F27) replace the wrong line *)
Definition mis_lines : list (list frag) := [[]; [Frag f21_import 0 1]; [Frag (Other 1) 0 1]].
Definition mis_body : list (stmt * (nat * nat) * (nat * nat)) :=
  [(f21_import, (0, 0), (0, 1)); (Other 1, (1, 0), (1, 1))].

Lemma misaligned_positions_lemma :
  aligned mis_lines mis_body = false /\
  match rewrite_imports gen_mapping mis_lines mis_body with
  | Some out => stmts_of out = Some [ImportFrom 0 (Some s_d42) [(s_schema, None)]; f21_import; Other 1]
  | None => False
  end.
Proof. vm_compute. split; reflexivity. Qed.
