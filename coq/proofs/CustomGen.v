(* C16, generation: a forwarding custom wrapper does not change what is generated. *)
From Coq Require Import PrimFloat.
Require Import D42.Prelude D42.PyFloat D42.Value D42.Regex D42.Schema D42.PyRandom D42.RegexGen
               D42.Generate D42.Custom.
Require Import D42P.ListLemmas D42P.ValueLemmas D42P.GenIndep.

Lemma Forall2_map_both {A B} (f g : A -> B) (R : B -> B -> Prop) l :
  Forall (fun a => R (f a) (g a)) l -> Forall2 R (map f l) (map g l).
Proof. induction 1; simpl; constructor; auto. Qed.

Theorem erase_gen_lemma w : forall s, meq (gen w (erase s)) (gen w s).
Proof.
  induction s as [ | val | val mn mx | val mn mx pr | val len mnl mxl al sub pat
                 | es ty len mnl mxl IHes IHty | ks IHks | ts IHts
                 | val | val | val | val | nm t IHt | t IHt ] using schema_ind';
    cbn [erase gen]; try apply meq_refl.
  - (* list *)
    destruct es as [es'|].
    + apply meq_bind.
      * apply meq_msequence, strip_m_rel. rewrite map_map. apply Forall2_map_both.
        specialize (IHes es' eq_refl). clear - IHes.
        induction IHes as [|o r Ho _ IH]; constructor; auto.
        destruct o as [e|]; simpl; auto.
      * intros vals. rewrite map_map.
        replace (map (fun x : option schema =>
                        match match x with Some e => Some (erase e) | None => None end with
                        | Some _ => Some tt | None => None end) es')
          with (map (fun o : option schema => match o with Some _ => Some tt | None => None end) es')
          by (apply map_ext; intros [e|]; reflexivity).
        apply meq_refl.
    + apply meq_bind; [apply meq_refl|]. intros [n specified]. destruct ty as [t|]; [|apply meq_refl].
      apply meq_bind; [|intros; apply meq_refl]. apply meq_msequence, Forall2_repeat.
      apply (IHty t eq_refl).
  - (* dict *)
    destruct ks as [ents|]; [|apply meq_refl].
    apply meq_bind; [|intros; apply meq_refl]. apply meq_msequence, strip_m_rel.
    rewrite map_map. apply Forall2_map_both. specialize (IHks ents eq_refl).
    clear - IHks. induction IHks as [|e r He _ IH]; constructor; auto.
    destruct e as [[k o] b]. unfold de_key, de_opt, de_schema in *. simpl in *.
    destruct (is_kell k); simpl; auto. destruct b; simpl; auto.
    destruct o as [sch|]; simpl.
    + apply meq_bind; [apply (He sch eq_refl) | intros; apply meq_refl].
    + apply meq_refl.
  - (* any *)
    destruct ts as [ts'|]; [|apply meq_refl].
    apply meq_choice_run. rewrite map_map. apply Forall2_map_both. exact (IHts ts' eq_refl).
  - exact IHt.
  - exact IHt.
Qed.
