(* C14: from_native v denotes exactly v. *)
From Coq Require Import PrimFloat SpecFloat FloatOps FloatAxioms.
Require Import D42.Prelude D42.PyFloat D42.Value D42.Regex D42.Schema D42.Validate D42.Conforms
               D42.FromNative D42.Agree.
Require Import D42P.ListLemmas D42P.ScalarSpec D42P.ValueLemmas D42P.FloatFacts.

Lemma eqb_refl_nonnan f : is_nan f = false -> PrimFloat.eqb f f = true.
Proof.
  unfold is_nan, view. rewrite FloatAxioms.eqb_spec. unfold SFeqb.
  destruct (Prim2SF f) as [s|s| |s m e]; simpl; intros H; try reflexivity; try discriminate.
  - destruct s; reflexivity.
  - destruct s; rewrite Z.compare_refl, Pos.compare_cont_refl; reflexivity.
Qed.

Lemma isclose_refl f : is_nan f = false -> isclose f f = true.
Proof. intros H. unfold isclose, isclose_gen. rewrite (eqb_refl_nonnan _ H). reflexivity. Qed.

Lemma forallb_id_map_eq {A} (f : A -> bool) l : forallb (fun x => x) (map f l) = forallb f l.
Proof. induction l; simpl; congruence. Qed.

Lemma forallb_map_c {A B} (f : B -> bool) (g : A -> B) l :
  forallb f (map g l) = forallb (fun x => f (g x)) l.
Proof. induction l; simpl; congruence. Qed.

(* ---- which values are converted ---- *)
Lemma rseq_cases {A B} (f : A -> result B) (p : A -> bool) l :
  Forall (fun x => (p x = true /\ exists y, f x = Ok y) \/ (p x = false /\ f x = Raise ValueError)) l ->
  (forallb p l = true /\ exists r, rsequence (map f l) = Ok r) \/
  (forallb p l = false /\ rsequence (map f l) = Raise ValueError).
Proof.
  induction 1 as [|x l Hx _ IH]; simpl.
  - left. split; auto. eexists; reflexivity.
  - destruct Hx as [[Hp (y & Hy)]|[Hp Hy]]; rewrite Hp, Hy; simpl.
    + destruct IH as [[Hq (r & Hr)]|[Hq Hr]]; rewrite Hq, Hr; simpl.
      * left. split; auto. eexists; reflexivity.
      * right. auto.
    + right. auto.
Qed.

Lemma fn_cases v :
  (plain v = true /\ exists s, from_native v = Ok s) \/
  (plain v = false /\ from_native v = Raise ValueError).
Proof.
  induction v as [ | b | z | f | s | b | n | a us | o | l IH | d IH | | | t ] using value_ind';
    try (left; split; [reflexivity | eexists; reflexivity]);
    try (right; split; reflexivity).
  - cbn [plain from_native]. destruct (uuid_is_v4 n).
    + left. split; auto. eexists; reflexivity.
    + right. auto.
  - cbn [plain from_native]. rewrite forallb_id_map_eq.
    destruct (rseq_cases (fun x => from_native x) (fun x => plain x) l IH) as [[Hp (r & Hr)]|[Hp Hr]];
      rewrite Hp, Hr; simpl.
    + left. split; auto. eexists; reflexivity.
    + right. auto.
  - cbn [plain from_native]. rewrite forallb_id_map_eq.
    destruct (existsb (fun kv : key * value => is_kell (fst kv)) d) eqn:Ek.
    + right. split; auto. apply existsb_exists in Ek as (kv & Hin & Hk).
      apply not_true_iff_false. intros Hall. rewrite forallb_forall in Hall.
      specialize (Hall kv Hin). rewrite Hk in Hall. discriminate.
    + assert (Hp : forallb (fun kv : key * value => negb (is_kell (fst kv)) && plain (snd kv)) d
                   = forallb (fun kv => plain (snd kv)) d).
      { clear IH. induction d as [|kv r IHr]; simpl in *; auto.
        apply orb_false_iff in Ek as [E1 E2]. rewrite E1, (IHr E2). reflexivity. }
      rewrite Hp.
      destruct (rseq_cases (fun kv : key * value => rmap (fun s => (fst kv, s)) (from_native (snd kv)))
                           (fun kv => plain (snd kv)) d) as [[Hq (r & Hr)]|[Hq Hr]].
      * eapply Forall_impl; [|exact IH]. intros kv [[H1 (s & H2)]|[H1 H2]].
        -- left. split; auto. rewrite H2. eexists; reflexivity.
        -- right. split; auto. rewrite H2. reflexivity.
      * rewrite Hq, Hr. simpl. left. split; auto. eexists; reflexivity.
      * rewrite Hq, Hr. simpl. right. auto.
Qed.

Lemma fn_ok_iff_plain v : (exists s, from_native v = Ok s) <-> plain v = true.
Proof.
  destruct (fn_cases v) as [[H1 H2]|[H1 H2]]; split; auto.
  - intros (s & Hs). congruence.
  - congruence.
Qed.

Lemma fn_refuses_nonplain_lemma v : plain v = false -> from_native v = Raise ValueError.
Proof. destruct (fn_cases v) as [[H1 H2]|[H1 H2]]; [congruence | auto]. Qed.

(* ---- from_native v accepts v ---- *)
Lemma dict_ents_rel d ents :
  Forall2 (fun (kv : key * value) (e : key * schema) =>
             rmap (fun s => (fst kv, s)) (from_native (snd kv)) = Ok e) d ents ->
  Forall2 (fun kv e => fst e = fst kv /\ from_native (snd kv) = Ok (snd e)) d ents.
Proof.
  induction 1 as [|kv e d ents H _ IH]; constructor; auto.
  destruct (from_native (snd kv)); simpl in H; inversion H; subst; auto.
Qed.

Lemma Forall2_fst_map {A B C} (R : A * B -> A * C -> Prop) l1 l2 :
  Forall2 (fun x y => fst y = fst x /\ R x y) l1 l2 -> map fst l2 = map fst l1.
Proof. induction 1 as [|x y l1 l2 [H _] _ IH]; simpl; congruence. Qed.

Lemma Forall2_In_l {A B} (R : A -> B -> Prop) l1 l2 x :
  Forall2 R l1 l2 -> In x l1 -> exists y, In y l2 /\ R x y.
Proof.
  induction 1 as [|a b l1 l2 H _ IH]; simpl; [contradiction|].
  intros [->|Hin]; [eauto|]. destruct (IH Hin) as (y & ? & ?). eauto.
Qed.

Lemma Forall2_In_r {A B} (R : A -> B -> Prop) l1 l2 y :
  Forall2 R l1 l2 -> In y l2 -> exists x, In x l1 /\ R x y.
Proof.
  induction 1 as [|a b l1 l2 H _ IH]; simpl; [contradiction|].
  intros [->|Hin]; [eauto|]. destruct (IH Hin) as (x & ? & ?). eauto.
Qed.

Definition member_preds (ents : list (key * schema)) : list (key * (option vpred * bool)) :=
  map (fun e : dentry =>
         (de_key e, (match de_schema e with Some sch => Some (conforms sch) | None => None end, de_opt e)))
      (map (fun e : key * schema => (fst e, Some (snd e), false)) ents).

Lemma member_preds_eq ents :
  member_preds ents = map (fun e : key * schema => (fst e, (Some (conforms (snd e)), false))) ents.
Proof. unfold member_preds. rewrite map_map. apply map_ext. intros [k s]. reflexivity. Qed.

Lemma keys_of_natives (ents : list (key * schema)) :
  map de_key (map (fun e : key * schema => (fst e, Some (snd e), false)) ents) = map fst ents.
Proof. rewrite map_map. apply map_ext. intros [k s]. reflexivity. Qed.

Lemma wfs_of_natives (ents : list (key * schema)) :
  map (fun e : dentry => match de_schema e with Some t => wf t | None => true end)
      (map (fun e : key * schema => (fst e, Some (snd e), false)) ents)
  = map (fun e => wf (snd e)) ents.
Proof. rewrite map_map. apply map_ext. intros [k s]. reflexivity. Qed.

Lemma preds_keys (ents : list (key * schema)) :
  map fst (map (fun e : key * schema => (fst e, (Some (conforms (snd e)), false))) ents) = map fst ents.
Proof. rewrite map_map. apply map_ext. intros [k s]. reflexivity. Qed.

Lemma no_kell_keys (d : list (key * value)) :
  existsb (fun kv => is_kell (fst kv)) d = false -> ~ In KEll (map fst d).
Proof.
  intros H Hin. apply in_map_iff in Hin as (kv & Hk & Hin).
  assert (existsb (fun kv : key * value => is_kell (fst kv)) d = true); [|congruence].
  apply existsb_exists. exists kv. split; auto. rewrite Hk. reflexivity.
Qed.

Lemma fn_accepts_lemma v :
  forall s, vwf v = true -> from_native v = Ok s ->
            wf s = true /\ conforms s v.
Proof.
  induction v as [ | b | z | f | s0 | b | n | a us | o | l IH | d IH | | | t ] using value_ind';
    intros s Hw Hs; cbn [from_native] in Hs; try discriminate.
  - inversion Hs; subst. split; reflexivity.
  - inversion Hs; subst. split; [reflexivity|]. exists b. split; reflexivity.
  - inversion Hs; subst. split; [reflexivity|]. exists z. cbn. auto.
  - inversion Hs; subst. split; [reflexivity|]. exists f.
    cbn. repeat split; auto. unfold float_value_ok. destruct (is_nan f) eqn:En; cbn; [reflexivity|].
    apply isclose_refl. exact En.
  - inversion Hs; subst. split; [reflexivity|]. exists s0. cbn. unfold len_ok. cbn. repeat split; auto.
  - inversion Hs; subst. split; [reflexivity|]. exists b. split; reflexivity.
  - destruct (uuid_is_v4 n) eqn:E4; [|discriminate]. inversion Hs; subst.
    split; [reflexivity|]. exists n. apply uuid_is_v4_iff in E4. repeat split; auto.
  - inversion Hs; subst. split; [reflexivity|]. exists a, us. split; reflexivity.
  - inversion Hs; subst. split; [reflexivity|]. cbn. split; auto. apply Z.eqb_refl.
  - (* list *)
    destruct (rsequence (map (fun x => from_native x) l)) as [es| |] eqn:Er; simpl in Hs; try discriminate.
    inversion Hs; subst; clear Hs. apply rsequence_ok in Er.
    cbn [vwf] in Hw. apply forallb_id_map' in Hw.
    assert (Hall : Forall2 (fun x e => wf e = true /\ conforms e x) l es).
    { clear - IH Hw Er. induction Er as [|x e l es Hxe _ IHr]; constructor.
      - inversion IH; inversion Hw; subst. auto.
      - inversion IH; inversion Hw; subst. auto. }
    split.
    + cbn [wf]. rewrite elems_wf_map_Some. simpl. rewrite andb_true_r.
      rewrite map_map. apply forallb_id_map'.
      clear - Hall. induction Hall as [|x e l es [H _] _ IHr]; constructor; auto.
    + exists l. split; auto. split; [unfold len_ok; cbn; auto|].
      rewrite map_map.
      replace (map (fun x : schema => Some (conforms x)) es) with (map Some (map conforms es))
        by (rewrite map_map; reflexivity).
      unfold list_spec. rewrite classify_map_Some, middle_map_Some, strip_map_Some.
      clear - Hall. induction Hall as [|x e l es [_ H] _ IHr]; simpl; constructor; auto.
  - (* dict *)
    destruct (existsb (fun kv : key * value => is_kell (fst kv)) d) eqn:Ek; [discriminate|].
    destruct (rsequence (map (fun kv : key * value => rmap (fun s => (fst kv, s)) (from_native (snd kv))) d))
      as [ents| |] eqn:Er; simpl in Hs; try discriminate.
    inversion Hs; subst; clear Hs. apply rsequence_ok in Er. apply dict_ents_rel in Er.
    cbn [vwf] in Hw. apply andb_true_iff in Hw as [Hnd Hw].
    apply forallb_id_map' in Hw. apply nodup_keys_NoDup in Hnd.
    pose proof (no_kell_keys _ Ek) as Hnk.
    assert (Hkeys : map fst ents = map fst d) by (eapply Forall2_fst_map; exact Er).
    assert (Hall : Forall2 (fun kv e => fst e = fst kv /\ wf (snd e) = true /\ conforms (snd e) (snd kv)) d ents).
    { clear - IH Hw Er. induction Er as [|kv e d ents [Hk Hf] _ IHr]; constructor.
      - inversion IH; inversion Hw; subst. split; auto.
      - inversion IH; inversion Hw; subst. auto. }
    split.
    + unfold dict_of_natives. cbn [wf]. rewrite !andb_true_iff. repeat split.
      * rewrite forallb_map_c. apply forallb_forall. intros [k s] Hin. simpl.
        destruct k; auto. exfalso. apply Hnk. rewrite <- Hkeys. apply in_map_iff.
        exists (KEll, s). auto.
      * rewrite keys_of_natives, Hkeys.
        apply nodup_keys_NoDup. exact Hnd.
      * rewrite wfs_of_natives. apply forallb_id_map'.
        clear - Hall. induction Hall as [|kv e d ents (_ & H & _) _ IHr]; constructor; auto.
    + exists d. split; auto. unfold dict_of_natives.
      fold (member_preds ents). rewrite member_preds_eq. split.
      * intros k c opt Hin Hk. apply in_map_iff in Hin as ([k' s'] & E & Hin). simpl in E.
        inversion E; subst; clear E.
        destruct (Forall2_In_r _ _ _ _ Hall Hin) as ([k0 x] & Hind & Hk0 & _ & Hc). simpl in *. subst k0.
        rewrite (assoc_NoDup_In _ _ _ Hnd Hind). simpl. exact Hc.
      * intros _ k x Hin. apply declared_In. rewrite preds_keys, Hkeys.
        apply in_map_iff. exists (k, x). auto.
Qed.

(* ---- from_native v rejects everything that is not v ---- *)
Lemma py_eqb_date_l o w : isinst TDate w = true -> py_eqb w (VDate o) = true -> w = VDate o.
Proof.
  destruct w; simpl; try discriminate. intros _ H. apply Z.eqb_eq in H. congruence.
Qed.

Lemma fn_rejects_lemma v :
  forall s w, from_native v = Ok s -> conforms s w -> veq v w.
Proof.
  induction v as [ | b | z | f | s0 | b | n | a us | o | l IH | d IH | | | t ] using value_ind';
    intros s w Hs Hc; cbn [from_native] in Hs; try discriminate.
  - inversion Hs; subst. cbn in Hc. subst. constructor.
  - inversion Hs; subst. destruct Hc as (b0 & -> & Hb). cbn in Hb. subst. constructor.
  - inversion Hs; subst. destruct Hc as (z0 & Hz & Hv & _). cbn in Hv. subst. constructor. exact Hz.
  - inversion Hs; subst. destruct Hc as (x & -> & Hv & _). cbn in Hv. constructor. exact Hv.
  - inversion Hs; subst. destruct Hc as (x & -> & Hv & _). cbn in Hv. subst. constructor.
  - inversion Hs; subst. destruct Hc as (x & -> & Hv). cbn in Hv. subst. constructor.
  - destruct (uuid_is_v4 n); [|discriminate]. inversion Hs; subst.
    destruct Hc as (x & -> & _ & Hv). cbn in Hv. subst. constructor.
  - inversion Hs; subst. destruct Hc as (a0 & us0 & -> & Hv). cbn in Hv. inversion Hv; subst. constructor.
  - inversion Hs; subst. destruct Hc as [Hi Hv]. cbn in Hv. rewrite (py_eqb_date_l _ _ Hi Hv). constructor.
  - (* list *)
    destruct (rsequence (map (fun x => from_native x) l)) as [es| |] eqn:Er; simpl in Hs; try discriminate.
    inversion Hs; subst; clear Hs. apply rsequence_ok in Er.
    destruct Hc as (l' & -> & _ & Hc). rewrite map_map in Hc.
    replace (map (fun x : schema => Some (conforms x)) es) with (map Some (map conforms es)) in Hc
      by (rewrite map_map; reflexivity).
    unfold list_spec in Hc. rewrite classify_map_Some, middle_map_Some, strip_map_Some in Hc.
    constructor. clear - IH Er Hc. revert l' Hc.
    induction Er as [|x e l es Hxe _ IHr]; intros l' Hc; simpl in Hc; inversion Hc; subst; constructor.
    + inversion IH; subst. eauto.
    + inversion IH; subst. auto.
  - (* dict *)
    destruct (existsb (fun kv : key * value => is_kell (fst kv)) d) eqn:Ek; [discriminate|].
    destruct (rsequence (map (fun kv : key * value => rmap (fun s => (fst kv, s)) (from_native (snd kv))) d))
      as [ents| |] eqn:Er; simpl in Hs; try discriminate.
    inversion Hs; subst; clear Hs. apply rsequence_ok in Er. apply dict_ents_rel in Er.
    pose proof (no_kell_keys _ Ek) as Hnk.
    assert (Hkeys : map fst ents = map fst d) by (eapply Forall2_fst_map; exact Er).
    destruct Hc as (d' & -> & Hc). unfold dict_of_natives in Hc.
    fold (member_preds ents) in Hc. rewrite member_preds_eq in Hc. destruct Hc as [H1 H2].
    constructor.
    + intros k x Hin.
      destruct (Forall2_In_l _ _ _ _ Er Hin) as ([k' s'] & Hin' & Hk & Hf). simpl in Hk, Hf. subst k'.
      assert (Hne : k <> KEll).
      { intros ->. apply Hnk. apply in_map_iff. exists (KEll, x). auto. }
      specialize (H1 k (Some (conforms s')) false).
      assert (Hm : In (k, (Some (conforms s'), false))
                      (map (fun e : key * schema => (fst e, (Some (conforms (snd e)), false))) ents)).
      { apply in_map_iff. exists (k, s'). auto. }
      specialize (H1 Hm Hne). destruct (assoc k d') as [y|]; [|discriminate].
      exists y. split; auto. simpl in H1.
      rewrite Forall_forall in IH. exact (IH (k, x) Hin s' y Hf H1).
    + intros k y Hin.
      assert (Hd : declared KEll (map (fun e : key * schema => (fst e, (Some (conforms (snd e)), false))) ents) = false).
      { apply not_true_iff_false. intros Hd. apply declared_In in Hd.
        rewrite preds_keys, Hkeys in Hd. contradiction. }
      specialize (H2 Hd k y Hin). apply declared_In in H2.
      rewrite preds_keys, Hkeys in H2. exact H2.
Qed.

(* ---- the result is a well-formed schema (so C02's theorem applies to it) ---- *)
Lemma fn_wf_lemma v : forall s, vwf v = true -> from_native v = Ok s -> wf s = true.
Proof.
  induction v as [ | b | z | f | s0 | b | n | a us | o | l IH | d IH | | | t ] using value_ind';
    intros s Hw Hs; cbn [from_native] in Hs; try discriminate;
    try (inversion Hs; subst; reflexivity).
  - destruct (uuid_is_v4 n); [|discriminate]. inversion Hs; subst. reflexivity.
  - destruct (rsequence (map (fun x => from_native x) l)) as [es| |] eqn:Er; simpl in Hs; try discriminate.
    inversion Hs; subst; clear Hs. apply rsequence_ok in Er.
    cbn [vwf] in Hw. apply forallb_id_map' in Hw.
    cbn [wf]. rewrite elems_wf_map_Some. simpl. rewrite andb_true_r.
    rewrite map_map. apply forallb_id_map'.
    clear - IH Hw Er. induction Er as [|x e l es Hxe _ IHr]; constructor.
    + inversion IH; inversion Hw; subst. auto.
    + inversion IH; inversion Hw; subst. auto.
  - destruct (existsb (fun kv : key * value => is_kell (fst kv)) d) eqn:Ek; [discriminate|].
    destruct (rsequence (map (fun kv : key * value => rmap (fun s => (fst kv, s)) (from_native (snd kv))) d))
      as [ents| |] eqn:Er; simpl in Hs; try discriminate.
    inversion Hs; subst; clear Hs. apply rsequence_ok in Er. apply dict_ents_rel in Er.
    cbn [vwf] in Hw. apply andb_true_iff in Hw as [Hnd Hw]. apply forallb_id_map' in Hw.
    pose proof (no_kell_keys _ Ek) as Hnk.
    assert (Hkeys : map fst ents = map fst d) by (eapply Forall2_fst_map; exact Er).
    unfold dict_of_natives. cbn [wf]. rewrite !andb_true_iff. repeat split.
    + rewrite forallb_map_c. apply forallb_forall. intros [k s] Hin. simpl.
      destruct k; auto. exfalso. apply Hnk. rewrite <- Hkeys. apply in_map_iff.
      exists (KEll, s). auto.
    + rewrite keys_of_natives, Hkeys. exact Hnd.
    + rewrite wfs_of_natives. apply forallb_id_map'.
      clear - IH Hw Er. induction Er as [|kv e d ents [Hk Hf] _ IHr]; constructor.
      * inversion IH; inversion Hw; subst. eauto.
      * inversion IH; inversion Hw; subst. auto.
Qed.
