(* C12: substitution of a plain value never returns a schema that cannot be generated from.
   [subst_wf_lemma]  : the result of substituting a plain value is well-formed;
   [subst_sat_lemma] : it is hereditarily satisfiable ([sat]) when the original is [hsat]
                       (theories/HSat.v);
   [subst_result_generates] : hence the generator returns a conforming value on every tape. *)
From Coq Require Import PrimFloat.
Require Import D42.Prelude D42.PyFloat D42.Value D42.Regex D42.Schema D42.Validate D42.Conforms
               D42.FromNative D42.Substitute D42.Agree D42.PyRandom D42.Generate D42.Sat D42.SatB
               D42.HSat.
Require Import D42P.ListLemmas D42P.ScalarSpec D42P.ValueLemmas D42P.ContainerSpec D42P.FromNativeSpec
               D42P.ValidateSpec D42P.ErrorsSpec D42P.SubstLemmas D42P.SubstNarrows D42P.SubstPins
               D42P.SubstIdem D42P.RandomSpec D42P.GenerateScalar D42P.GenerateSpec D42P.SatBSpec.
Open Scope nat_scope.

(* ================= the shape of substitution results, for any predicate on results ====== *)

(* "every schema f returns for a plain value satisfies Q" *)
Definition PQ (Q : schema -> Prop) (f : substfn) : Prop :=
  forall x s', plain x = true -> vwf x = true -> f x = Ok s' -> Q s'.
Definition PQo (Q : schema -> Prop) (of : option substfn) : Prop :=
  match of with Some f => PQ Q f | None => True end.
(* "every from_native result satisfies Q" *)
Definition NQ (Q : schema -> Prop) : Prop :=
  forall x sx, plain x = true -> vwf x = true -> from_native x = Ok sx -> Q sx.

Definition pv (x : value) : Prop := plain x = true /\ vwf x = true.

Lemma window_Q Q fs : Forall (PQo Q) fs -> forall xs ss, Forall pv xs ->
  Forall2 (fun (ofx : option substfn * value) s => exists f, fst ofx = Some f /\ f (snd ofx) = Ok s)
          (combine fs xs) ss ->
  Forall Q ss.
Proof.
  induction 1 as [|of fs Hof _ IH]; intros xs ss Hxs Hrel.
  - simpl in Hrel. inversion Hrel; subst. constructor.
  - destruct xs as [|x xs]; simpl in Hrel; [inversion Hrel; subst; constructor|].
    inversion Hrel as [|? s ? ss' (f & Hf & Hfx) Hrest]; subst. simpl in Hf, Hfx. subst of.
    inversion Hxs as [|? ? (Hp & Hw) Hxs']; subst. constructor.
    + eapply Hof; eauto.
    + eapply IH; eauto.
Qed.

Lemma natives_Q Q l ss : NQ Q -> Forall pv l ->
  Forall2 (fun x s => sub_from_native x = Ok s) l ss -> Forall Q ss.
Proof.
  intros HN Hl H. induction H as [|x s l ss Hxs _ IH]; constructor.
  - inversion Hl as [|? ? (Hp & Hw) _]; subst. eapply HN; eauto using sub_from_native_ok.
  - apply IH. inversion Hl; auto.
Qed.

Lemma pv_sub l l' : Forall pv l -> (forall x, In x l' -> In x l) -> Forall pv l'.
Proof. intros H Hin. apply Forall_forall. intros x Hx. rewrite Forall_forall in H. auto. Qed.

Lemma subst_elements_Q Q fs l start els :
  Forall (PQo Q) fs -> NQ Q -> Forall pv l -> start <= length l ->
  subst_elements fs l start = Ok els ->
  exists es, els = map Some es /\ length es = length l /\ Forall Q es.
Proof.
  intros HPF HN HPl Hst H. unfold subst_elements in H.
  apply bind_ok in H as (mid & Hm & H). apply bind_ok in H as (suf & Hsu & H).
  apply bind_ok in H as (pre & Hp & H). inversion H; subst; clear H.
  apply subst_run_pos in Hm as (ms & -> & Hlms & Hle & Hrel).
  apply natives_rel in Hsu as (ss & -> & Hss). apply natives_rel in Hp as (ps & -> & Hps).
  exists (ps ++ ms ++ ss). split; [rewrite !map_app; reflexivity|].
  rewrite map_length, Hlms in Hss.
  pose proof (Forall2_len _ _ _ Hss) as L1. pose proof (Forall2_len _ _ _ Hps) as L2.
  rewrite skipn_length in L1, Hle. rewrite firstn_length in L2.
  split; [rewrite !app_length; lia|].
  apply Forall_app. split; [|apply Forall_app; split].
  - apply (natives_Q Q (firstn start l) ps HN); [|exact Hps].
    apply (pv_sub l); [exact HPl|]. intros x Hx. eapply In_firstn; eauto.
  - apply (window_Q Q fs HPF (skipn start l) ms); [|exact Hrel].
    apply (pv_sub l); [exact HPl|]. intros x Hx. eapply In_skipn; eauto.
  - apply (natives_Q Q (skipn (start + length fs) l) ss HN); [|exact Hss].
    apply (pv_sub l); [exact HPl|]. intros x Hx. eapply In_skipn; eauto.
Qed.

Lemma pv_list l : plain (VList l) = true -> vwf (VList l) = true -> Forall pv l.
Proof.
  intros Hpl Hvw. apply Forall_forall. intros x Hx.
  split; [eapply plain_list_In | eapply vwf_list_In]; eauto.
Qed.

(* lists: the result is an exact element list, one concrete element per item of the value *)
Lemma subst_list_shape Q es ty len mnl mxl v s' :
  NQ Q ->
  (forall t, ty = Some t -> PQ Q (substitute t)) ->
  (forall es', ty = None -> es = Some es' ->
               Forall (fun o => forall sch, o = Some sch -> PQ Q (substitute sch)) es') ->
  plain v = true -> vwf v = true ->
  substitute (SList es ty len mnl mxl) v = Ok s' ->
  exists l ess, v = VList l /\ s' = SList (Some (map Some ess)) None len mnl mxl /\
                len_ok (zlen l) len mnl mxl /\ length ess = length l /\ Forall Q ess.
Proof.
  intros HN Hty Hes Hpl Hvw Hs.
  cbn [substitute] in Hs.
  destruct (validate Subst (SList es ty len mnl mxl) [] v) eqn:EV; [|discriminate].
  destruct v as [| | | | | | | | |l| | | |]; try discriminate.
  destruct (negb (length l =? 0) && forallb is_vell l); [discriminate|].
  destruct (existsb is_vell (removelast (tl l))); [discriminate|].
  cbn [validate] in EV.
  destruct (check_len_first [] (VList l) (zlen l) len mnl mxl) eqn:EL; [|discriminate].
  apply check_len_first_nil in EL.
  pose proof (pv_list l Hpl Hvw) as HPl.
  exists l.
  destruct ty as [t|].
  - assert (Hs2 : exists els, rsequence (map (fun x => if is_vell x then Ok None
                                                       else rmap Some (substitute t x)) l) = Ok els /\
                              s' = SList (Some els) None len mnl mxl).
    { destruct es; apply bind_ok in Hs as (els & ? & Hs); inversion Hs; eauto. }
    destruct Hs2 as (els & Hr & ->). apply rsequence_ok in Hr.
    specialize (Hty t eq_refl).
    assert (Hels : exists ss, els = map Some ss /\ length ss = length l /\ Forall Q ss).
    { clear - Hr HPl Hty. induction Hr as [|x e l els Hxe _ IH].
      - exists []. repeat split; auto.
      - inversion HPl as [|? ? (H1 & H2) H4]; subst. destruct (IH H4) as (ss & -> & Hl & Hss).
        rewrite (plain_not_ell _ H1) in Hxe. apply rmap_ok in Hxe as (s & Hs & ->).
        exists (s :: ss). split; [reflexivity|]. split; [simpl; lia|].
        constructor; [apply (Hty x s); auto | exact Hss]. }
    destruct Hels as (ss & -> & Hl & Hss). exists ss. repeat split; auto; apply EL.
  - destruct es as [es'|].
    + apply bind_ok in Hs as (els & Hr & Hs). inversion Hs; subst; clear Hs.
      specialize (Hes es' eq_refl eq_refl).
      set (fs := map (fun e => match e with Some sch => Some (substitute sch) | None => None end) es') in *.
      assert (HPF : Forall (PQo Q) fs).
      { unfold fs. clear - Hes. induction Hes as [|o r Ho _ IH]; simpl; constructor; auto.
        destruct o as [sch|]; simpl; auto. }
      assert (HPFm : Forall (PQo Q) (middle fs)) by (apply Forall_middle; exact HPF).
      unfold subst_list_elements in Hr. destruct (existsb is_vell l); [discriminate|].
      assert (Hex : exists ess, els = map Some ess /\ length ess = length l /\ Forall Q ess).
      { match type of Hr with match ?c with _ => _ end = _ => destruct c eqn:Ecl end.
        - apply first_window_spec in Hr as (i & Hi & Hr). apply in_seq in Hi.
          apply (subst_elements_Q Q (middle fs) l i els); auto. lia.
        - apply (subst_elements_Q Q (middle fs) l 0 els); auto. lia.
        - apply (subst_elements_Q Q (middle fs) l (length l - length (middle fs)) els); auto. lia.
        - apply (subst_elements_Q Q (middle fs) l 0 els); auto. lia. }
      destruct Hex as (ess & -> & Hl & Hess). exists ess. repeat split; auto; apply EL.
    + apply bind_ok in Hs as (els & Hr & Hs). inversion Hs; subst; clear Hs.
      apply rsequence_ok in Hr.
      assert (Hels : exists ss, els = map Some ss /\ Forall2 (fun x s => sub_from_native x = Ok s) l ss).
      { clear - Hr HPl. induction Hr as [|x e l els Hxe _ IH].
        - exists []. split; auto.
        - inversion HPl as [|? ? (H1 & _) H2]; subst. destruct (IH H2) as (ss & -> & Hss).
          rewrite (plain_not_ell _ H1) in Hxe. apply rmap_ok in Hxe as (s & Hs & ->).
          exists (s :: ss). split; auto. }
      destruct Hels as (ss & -> & Hss). exists ss. repeat split; auto; try apply EL.
      * symmetry. eapply Forall2_len; eauto.
      * eapply natives_Q; eauto.
Qed.

(* dicts: either every member is native (plus the relaxing marker), or the entries are
   related one by one to the declared ones *)
Definition native_ents (d : list (key * value)) (ss : list schema) : list dentry :=
  map (fun p => native_entry (fst p) (snd p)) (combine d ss).

Lemma subst_dict_shape ks v s' :
  plain v = true -> vwf v = true ->
  substitute (SDict ks) v = Ok s' ->
  exists d ents, v = VDict d /\ s' = SDict (Some ents) /\
    ((exists ss ex, Forall2 (fun kv s => sub_from_native (snd kv) = Ok s) d ss /\
                    ents = native_ents d ss ++ ex /\ (ex = [] \/ ex = [(KEll, None, false)])) \/
     (exists ents0, ks = Some ents0 /\ Forall2 (entry_rel d) ents0 ents)).
Proof.
  intros Hpl Hvw Hs.
  cbn [substitute] in Hs.
  destruct (validate Subst (SDict ks) [] v) eqn:EV; [|discriminate].
  destruct v as [| | | | | | | | | |d| | |]; try discriminate.
  destruct (vwf_dict _ Hvw) as [Hnd Hvm].
  assert (Hne : forall k x, In (k, x) d -> is_vell x = false).
  { intros k x Hin. apply plain_not_ell. eapply plain_dict_assoc; eauto.
    apply assoc_NoDup_In; eauto. }
  assert (Hnokell : ~ In KEll (map fst d)).
  { intros Hin. apply in_map_iff in Hin as ([k x] & Hk & Hin). simpl in Hk. subst k.
    cbn [plain] in Hpl. apply forallb_id_map' in Hpl. rewrite Forall_forall in Hpl.
    specialize (Hpl _ Hin). simpl in Hpl. discriminate. }
  assert (Hnatkeys : forall ss, Forall2 (fun kv s => sub_from_native (snd kv) = Ok s) d ss ->
                     map de_key (native_ents d ss) = map fst d).
  { intros ss Hss. unfold native_ents. rewrite map_map. unfold native_entry, de_key. simpl.
    clear - Hss. induction Hss as [|kv s d ss _ _ IH]; simpl; congruence. }
  exists d.
  destruct ks as [ents0|].
  - cbv beta iota zeta in Hs.
    match type of Hs with (if ?c then _ else _) = _ => destruct c eqn:Erel end.
    + apply bind_ok in Hs as (ents & Hr & Hs). inversion Hs; subst; clear Hs.
      destruct (native_entries_exact d Hnd Hne [] ents) as (ss & Hss & ->); auto.
      simpl app. fold (native_ents d ss).
      assert (Hfr : ~ In KEll (map de_key (native_ents d ss))) by (rewrite Hnatkeys; auto).
      rewrite (set_entry_fresh KEll None false _ Hfr).
      eexists. split; [reflexivity|]. split; [reflexivity|]. left. exists ss, [(KEll, None, false)]. auto.
    + apply bind_ok in Hs as (ents & Hr & Hs). inversion Hs; subst; clear Hs.
      fold (dfs ents0) in Hr.
      apply subst_dict_spec in Hr.
      2:{ intros k x Ha. apply (Hne k x). apply assoc_In. exact Ha. }
      eexists. split; [reflexivity|]. split; [reflexivity|]. right. exists ents0. auto.
  - apply bind_ok in Hs as (ents & Hr & Hs). inversion Hs; subst; clear Hs.
    destruct (native_entries_exact d Hnd Hne [] ents) as (ss & Hss & ->); auto.
    simpl app. fold (native_ents d ss).
    eexists. split; [reflexivity|]. split; [reflexivity|]. left. exists ss, []. rewrite app_nil_r. auto.
Qed.

Lemma plain_dict_no_kell_key d : plain (VDict d) = true -> ~ In KEll (map fst d).
Proof.
  intros Hpl Hin. apply in_map_iff in Hin as ([k x] & Hk & Hin). simpl in Hk. subst k.
  cbn [plain] in Hpl. apply forallb_id_map' in Hpl. rewrite Forall_forall in Hpl.
  specialize (Hpl _ Hin). simpl in Hpl. discriminate.
Qed.

Lemma native_ents_keys d ss :
  Forall2 (fun (kv : key * value) s => sub_from_native (snd kv) = Ok s) d ss ->
  map de_key (native_ents d ss) = map fst d.
Proof.
  intros Hss. unfold native_ents. rewrite map_map. unfold native_entry, de_key. simpl.
  induction Hss as [|kv s d ss _ _ IH]; simpl; congruence.
Qed.

(* every native entry is (k, Some s, false) with k a real key and s a from_native result *)
Lemma native_ents_Q Q d ss :
  NQ Q -> plain (VDict d) = true -> vwf (VDict d) = true ->
  Forall2 (fun (kv : key * value) s => sub_from_native (snd kv) = Ok s) d ss ->
  Forall (fun e : dentry => exists k s, e = (k, Some s, false) /\ k <> KEll /\ Q s) (native_ents d ss).
Proof.
  intros HN Hpl Hvw Hss. destruct (vwf_dict _ Hvw) as [Hnd Hvm].
  pose proof (plain_dict_no_kell_key d Hpl) as Hnk.
  apply Forall_forall. intros e Hin. unfold native_ents in Hin.
  apply in_map_iff in Hin as ([[k x] s] & <- & Hin).
  unfold native_entry. simpl. exists k, s. split; [reflexivity|].
  pose proof (in_combine_l _ _ _ _ Hin) as Hind.
  split.
  - intros ->. apply Hnk. apply in_map_iff. exists (KEll, x). auto.
  - assert (Hsx : sub_from_native x = Ok s).
    { clear - Hss Hin. induction Hss as [|kv s0 d ss H _ IH]; simpl in Hin; [contradiction|].
      destruct Hin as [E|Hin]; [inversion E; subst; exact H | auto]. }
    apply (HN x s); auto using sub_from_native_ok.
    + eapply plain_dict_assoc; eauto. apply assoc_NoDup_In; eauto.
    + eapply Hvm; eauto.
Qed.

(* any *)
Lemma subst_any_shape ts v s' :
  substitute (SAny ts) v = Ok s' ->
  exists kept, s' = SAny (Some kept) /\ kept <> [] /\
    ((ts = None /\ exists s1, from_native v = Ok s1 /\ kept = [s1]) \/
     (exists ts', ts = Some ts' /\
                  Forall (fun s1 => exists t, In t ts' /\ substitute t v = Ok s1) kept)).
Proof.
  intros Hs. cbn [substitute] in Hs.
  destruct (validate Subst (SAny ts) [] v) eqn:EV; [|discriminate].
  destruct ts as [ts'|].
  - apply bind_ok in Hs as (kept & Hk & Hs). destruct kept as [|k0 kr] eqn:Ekept; [discriminate|].
    inversion Hs; subst; clear Hs. apply any_subst_spec in Hk.
    eexists. split; [reflexivity|]. split; [discriminate|]. right. exists ts'. split; auto.
    eapply Forall_impl; [|exact Hk]. intros s1 (f & Hf & Hfv).
    apply in_map_iff in Hf as (t & <- & Ht). eauto.
  - apply bind_ok in Hs as (s1 & Hs1 & Hs). inversion Hs; subst; clear Hs.
    eexists. split; [reflexivity|]. split; [discriminate|]. left. split; auto.
    exists s1. auto using sub_from_native_ok.
Qed.

(* ================= well-formedness of the result ================= *)

Lemma wf_list_exact ess len mnl mxl :
  Forall (fun e => wf e = true) ess -> wf (SList (Some (map Some ess)) None len mnl mxl) = true.
Proof.
  intros H. cbn [wf]. rewrite elems_wf_map_Some, map_map. simpl.
  rewrite andb_true_r. apply forallb_id_map'. exact H.
Qed.

Lemma wf_dict_intro ents :
  Forall (fun e => entry_shape_ok e = true) ents -> NoDup (map de_key ents) ->
  Forall (fun e : dentry => forall t, de_schema e = Some t -> wf t = true) ents ->
  wf (SDict (Some ents)) = true.
Proof.
  intros Hsh Hnd Hw. cbn [wf]. rewrite !andb_true_iff. split; [split|].
  - apply forallb_forall. rewrite Forall_forall in Hsh. exact Hsh.
  - apply nodup_keys_NoDup. exact Hnd.
  - apply forallb_id_map'. eapply Forall_impl; [|exact Hw]. intros e He.
    destruct (de_schema e) as [t|] eqn:E; [exact (He t E) | reflexivity].
Qed.

Lemma shape_real k s : k <> KEll -> entry_shape_ok (k, Some s, false) = true.
Proof. destruct k; simpl; auto; congruence. Qed.

Lemma NoDup_app_one {A} (l : list A) a : NoDup l -> ~ In a l -> NoDup (l ++ [a]).
Proof.
  intros Hnd Hin. induction Hnd as [|x l Hx _ IH]; simpl.
  - constructor; [intros []|constructor].
  - constructor.
    + intros H. apply in_app_or in H as [H|[H|[]]]; [contradiction|].
      subst. apply Hin. left. reflexivity.
    + apply IH. intros H. apply Hin. right. exact H.
Qed.

Definition wfP (s : schema) : Prop :=
  forall v s', plain v = true -> vwf v = true -> substitute s v = Ok s' -> wf s' = true.

Ltac scalar_open Hs :=
  cbn [substitute] in Hs;
  match type of Hs with
  | match validate Subst ?s [] ?v with _ => _ end = _ =>
      destruct (validate Subst s [] v); [|discriminate]
  end.

Theorem subst_wf_lemma : forall s, wf s = true -> wfP s.
Proof.
  induction s as [ | val | val mn mx | val mn mx pr | val len mnl mxl al sub pat
                 | es ty len mnl mxl IHes IHty | ks IHks | ts IHts
                 | val | val | val | val | nm t IHt | t IHt ] using schema_ind';
    intros Hwf v s' Hpl Hvw Hs.
  - scalar_open Hs. inversion Hs; subst. reflexivity.
  - scalar_open Hs. destruct v; try discriminate. inversion Hs; subst. reflexivity.
  - scalar_open Hs. destruct (as_intv v); [|discriminate]. inversion Hs; subst. reflexivity.
  - scalar_open Hs. destruct v; try discriminate. inversion Hs; subst. reflexivity.
  - scalar_open Hs. destruct v; try discriminate. inversion Hs; subst. exact Hwf.
  - (* list *)
    cbn [wf] in Hwf. apply andb_true_iff in Hwf as [Hwes Hwty].
    destruct (subst_list_shape (fun e => wf e = true) es ty len mnl mxl v s')
      as (l & ess & -> & -> & _ & _ & Hall); auto.
    + intros x sx _ Hw Hx. eapply fn_wf_lemma; eauto.
    + intros t -> x s1 Hx Hw Hsub. eapply (IHty t eq_refl Hwty); eauto.
    + intros es' -> ->. specialize (IHes es' eq_refl).
      apply andb_true_iff in Hwes as [_ Hwm]. apply forallb_id_map' in Hwm.
      clear - IHes Hwm. induction IHes as [|o r Ho _ IH]; constructor.
      * inversion Hwm; subst. intros sch -> x s1 Hx Hw Hsub. eapply (Ho sch eq_refl); eauto.
      * apply IH. inversion Hwm; auto.
    + apply wf_list_exact. exact Hall.
  - (* dict *)
    destruct (subst_dict_shape ks v s' Hpl Hvw Hs) as (d & ents & -> & -> & Hcase).
    destruct (vwf_dict _ Hvw) as [Hnd Hvm].
    pose proof (plain_dict_no_kell_key d Hpl) as Hnk.
    destruct Hcase as [(ss & ex & Hss & -> & Hex) | (ents0 & -> & Hrel)].
    + pose proof (native_ents_Q (fun e => wf e = true) d ss) as HQ.
      assert (HN : NQ (fun e => wf e = true)) by (intros x sx _ Hw Hx; eapply fn_wf_lemma; eauto).
      specialize (HQ HN Hpl Hvw Hss). pose proof (native_ents_keys d ss Hss) as Hk.
      apply wf_dict_intro.
      * apply Forall_app. split.
        -- eapply Forall_impl; [|exact HQ]. intros e (k & s & -> & Hkk & _). apply shape_real. exact Hkk.
        -- destruct Hex as [-> | ->]; repeat constructor.
      * rewrite map_app, Hk. destruct Hex as [-> | ->]; simpl.
        -- rewrite app_nil_r. exact Hnd.
        -- apply NoDup_app_one; auto.
      * apply Forall_app. split.
        -- eapply Forall_impl; [|exact HQ]. intros e (k & s & -> & _ & Hws) t Ht.
           unfold de_schema in Ht. simpl in Ht. inversion Ht; subst. exact Hws.
        -- destruct Hex as [-> | ->]; repeat constructor. intros t Ht. discriminate.
    + specialize (IHks ents0 eq_refl). cbn [wf] in Hwf.
      apply andb_true_iff in Hwf as [Hwf Hwm]. apply andb_true_iff in Hwf as [Hsh Hndk].
      apply forallb_id_map' in Hwm. apply nodup_keys_NoDup in Hndk.
      rewrite forallb_forall in Hsh. rewrite Forall_forall in IHks, Hwm.
      pose proof (entry_rel_keys _ _ _ Hrel) as Hkeys.
      apply wf_dict_intro.
      * apply Forall_forall. intros e Hine.
        destruct (Forall2_In_r _ _ _ _ Hrel Hine) as (e0 & Hin0 & Hke & Hc).
        destruct Hc as [[_ ->]|(sch & x & s1 & Hsch & Ha & Hsub & Hs1 & Ho)]; [apply Hsh; exact Hin0|].
        destruct e as [[k o] b]. change (k = de_key e0) in Hke. change (o = Some s1) in Hs1.
        change (b = false) in Ho. subst o b.
        apply shape_real. intros ->. apply Hnk. rewrite <- Hke in Ha. apply assoc_In in Ha.
        apply in_map_iff. exists (KEll, x). auto.
      * rewrite Hkeys. exact Hndk.
      * apply Forall_forall. intros e Hine t Ht.
        destruct (Forall2_In_r _ _ _ _ Hrel Hine) as (e0 & Hin0 & Hke & Hc).
        destruct Hc as [[_ ->]|(sch & x & s1 & Hsch & Ha & Hsub & Hs1 & Ho)].
        -- specialize (Hwm e0 Hin0). rewrite Ht in Hwm. exact Hwm.
        -- rewrite Hs1 in Ht. inversion Ht; subst s1.
           assert (Hwsch : wf sch = true) by (specialize (Hwm e0 Hin0); rewrite Hsch in Hwm; exact Hwm).
           pose proof (assoc_In _ _ _ Ha) as Hind.
           apply (IHks e0 Hin0 sch Hsch Hwsch x t); auto.
           ++ eapply plain_dict_assoc; eauto.
           ++ eapply Hvm; eauto.
  - (* any *)
    destruct (subst_any_shape ts v s' Hs) as (kept & -> & _ & Hcase).
    cbn [wf]. apply forallb_id_map'.
    destruct Hcase as [(-> & s1 & Hs1 & ->) | (ts' & -> & Hk)].
    + constructor; [|constructor]. eapply fn_wf_lemma; eauto.
    + specialize (IHts ts' eq_refl). cbn [wf] in Hwf. apply forallb_id_map' in Hwf.
      rewrite Forall_forall in IHts, Hwf.
      eapply Forall_impl; [|exact Hk]. intros s1 (t & Ht & Hsub).
      apply (IHts t Ht (Hwf t Ht) v s1); auto.
  - scalar_open Hs. destruct v; try discriminate. inversion Hs; subst. reflexivity.
  - scalar_open Hs. destruct v; try discriminate. inversion Hs; subst. reflexivity.
  - scalar_open Hs. destruct v; try discriminate. inversion Hs; subst. reflexivity.
  - scalar_open Hs. inversion Hs; subst. reflexivity.
  - cbn [substitute] in Hs. apply bind_ok in Hs as (t' & Ht & Hs). inversion Hs; subst.
    cbn [wf]. eapply IHt; eauto.
  - cbn [substitute] in Hs. apply bind_ok in Hs as (t' & Ht & Hs). inversion Hs; subst.
    cbn [wf]. eapply IHt; eauto.
Qed.

(* ================= satisfiability of the result ================= *)

Lemma sat_list_exact w ess (l : list value) len mnl mxl :
  length ess = length l -> len_ok (zlen l) len mnl mxl -> Forall (sat w) ess ->
  sat w (SList (Some (map Some ess)) None len mnl mxl).
Proof.
  intros Hl Hlen Hall. cbn [sat]. split; [reflexivity|]. split.
  - unfold padded_len. rewrite strip_map_Some, first_ell_map_Some, last_ell_map_Some.
    cbn [orb].
    replace (zlen ess) with (zlen l) by (unfold zlen; rewrite Hl; reflexivity).
    destruct (pad_target len mnl) as [k|]; [rewrite andb_false_r|]; exact Hlen.
  - rewrite map_map. apply fold_and_Forall. exact Hall.
Qed.

Definition entry_sat (w : world) (e : dentry) : Prop :=
  if is_kell (de_key e) || de_opt e then True
  else match de_schema e with Some sch => sat w sch | None => False end.

Lemma sat_dict_intro w ents : Forall (entry_sat w) ents -> sat w (SDict (Some ents)).
Proof. intros H. cbn [sat]. apply (fold_and_Forall (entry_sat w)). exact H. Qed.

(* from_native results are satisfiable *)
Lemma fn_sat w x : forall sx, from_native x = Ok sx -> sat w sx.
Proof.
  induction x as [ | b | z | f | s0 | b | n | a us | o | l IH | d IH | | | t ] using value_ind';
    intros sx Hs; cbn [from_native] in Hs; try discriminate.
  - inversion Hs; subst. exact I.
  - inversion Hs; subst. exact I.
  - inversion Hs; subst. cbn [sat sat_int opt_holds]. auto.
  - inversion Hs; subst. cbn [sat sat_float opt_holds]. split; [apply float_value_ok_refl | auto].
  - inversion Hs; subst. unfold str_schema. cbn [sat sat_str]. exists s0.
    unfold len_ok. cbn [opt_holds]. repeat split; auto.
  - inversion Hs; subst. exact I.
  - destruct (uuid_is_v4 n) eqn:E4; [|discriminate]. inversion Hs; subst.
    cbn [sat opt_holds]. apply uuid_is_v4_iff. exact E4.
  - inversion Hs; subst. exact I.
  - inversion Hs; subst. cbn [sat opt_holds]. reflexivity.
  - (* list *)
    destruct (rsequence (map (fun x => from_native x) l)) as [es| |] eqn:Er; simpl in Hs; try discriminate.
    inversion Hs; subst; clear Hs. apply rsequence_ok in Er.
    apply (sat_list_exact w es l).
    + symmetry. eapply Forall2_len; eauto.
    + unfold len_ok. cbn [opt_holds]. auto.
    + clear - IH Er. induction Er as [|x e l es Hxe _ IHr]; constructor.
      * inversion IH; subst. auto.
      * inversion IH; subst. auto.
  - (* dict *)
    destruct (existsb (fun kv : key * value => is_kell (fst kv)) d) eqn:Ek; [discriminate|].
    destruct (rsequence (map (fun kv : key * value => rmap (fun s => (fst kv, s)) (from_native (snd kv))) d))
      as [ents| |] eqn:Er; simpl in Hs; try discriminate.
    inversion Hs; subst; clear Hs. apply rsequence_ok in Er.
    unfold dict_of_natives. apply sat_dict_intro.
    clear - IH Er. induction Er as [|kv e d ents Hkv _ IHr]; simpl; constructor.
    + inversion IH as [|? ? Hx _]; subst. apply rmap_ok in Hkv as (s & Hs & ->).
      unfold entry_sat, de_key, de_schema, de_opt. simpl.
      destruct (is_kell (fst kv)); simpl; auto.
    + inversion IH; subst. auto.
Qed.

Definition satP (w : world) (s : schema) : Prop :=
  wf s = true -> hsat w s ->
  forall v s', plain v = true -> vwf v = true -> substitute s v = Ok s' -> sat w s'.

Ltac scalar_conf Hs EV :=
  cbn [substitute] in Hs;
  match type of Hs with
  | match validate Subst ?s [] ?v with _ => _ end = _ =>
      destruct (validate Subst s [] v) eqn:EV; [|discriminate];
      apply subst_valid_scalar in EV; [|reflexivity|assumption]
  end.

Theorem subst_sat_ind w : forall s, satP w s.
Proof.
  induction s as [ | val | val mn mx | val mn mx pr | val len mnl mxl al sub pat
                 | es ty len mnl mxl IHes IHty | ks IHks | ts IHts
                 | val | val | val | val | nm t IHt | t IHt ] using schema_ind';
    intros Hwf Hh v s' Hpl Hvw Hs.
  - (* none *) scalar_conf Hs EV. inversion Hs; subst. exact I.
  - (* bool *) scalar_conf Hs EV. destruct v; try discriminate. inversion Hs; subst. exact I.
  - (* int *) scalar_conf Hs EV. destruct (as_intv v) as [i|] eqn:Ei; [|discriminate].
    inversion Hs; subst. pose proof (as_intv_iz _ _ Ei) as Ez.
    destruct EV as (z1 & E1 & _ & Hmn & Hmx). rewrite Ez in E1. inversion E1; subst.
    cbn [sat sat_int]. split; [exact Hmn | exact Hmx].
  - (* float *) scalar_conf Hs EV. destruct v as [| | |x| | | | | | | | | |]; try discriminate.
    inversion Hs; subst. destruct val as [e|].
    + (* the declared value is kept: the result is the original schema *) exact Hh.
    + destruct EV as (x1 & E1 & _ & Hmn & Hmx). inversion E1; subst x1.
      cbn [sat sat_float]. split; [apply float_value_ok_refl|]. split; [exact Hmn | exact Hmx].
  - (* str *) scalar_conf Hs EV. destruct v; try discriminate. inversion Hs; subst.
    destruct EV as (s1 & E1 & _ & Hpat & Hlen & Hsub & Hal). inversion E1; subst.
    cbn [sat sat_str conforms]. exists s1. split; [reflexivity|]. split; [reflexivity|].
    split; [exact Hpat|]. split; [exact Hlen|]. split; [exact Hsub | exact Hal].
  - (* list *)
    cbn [wf] in Hwf. apply andb_true_iff in Hwf as [Hwes Hwty].
    destruct (subst_list_shape (sat w) es ty len mnl mxl v s')
      as (l & ess & -> & -> & Hlen & Hl & Hall); auto.
    + intros x sx _ _ Hx. eapply fn_sat; eauto.
    + intros t -> x s1 Hx Hw Hsub. cbn [hsat] in Hh. eapply (IHty t eq_refl Hwty Hh); eauto.
    + intros es' -> ->. cbn [hsat] in Hh. specialize (IHes es' eq_refl).
      apply andb_true_iff in Hwes as [_ Hwm]. apply forallb_id_map' in Hwm.
      apply (fold_and_Forall (fun o => match o with Some e => hsat w e | None => True end)) in Hh.
      clear - IHes Hwm Hh. induction IHes as [|o r Ho _ IH]; constructor.
      * inversion Hwm as [|? ? Hw1 Hw2]; inversion Hh as [|? ? Hh1 Hh2]; subst.
        intros sch -> x s1 Hx Hw Hsub. exact (Ho sch eq_refl Hw1 Hh1 x s1 Hx Hw Hsub).
      * apply IH; [inversion Hh | inversion Hwm]; auto.
    + apply (sat_list_exact w ess l); auto.
  - (* dict *)
    destruct (subst_dict_shape ks v s' Hpl Hvw Hs) as (d & ents & -> & -> & Hcase).
    destruct (vwf_dict _ Hvw) as [Hnd Hvm].
    apply sat_dict_intro.
    destruct Hcase as [(ss & ex & Hss & -> & Hex) | (ents0 & -> & Hrel)].
    + assert (HN : NQ (sat w)) by (intros x sx _ _ Hx; eapply fn_sat; eauto).
      pose proof (native_ents_Q (sat w) d ss HN Hpl Hvw Hss) as HQ.
      apply Forall_app. split.
      * eapply Forall_impl; [|exact HQ]. intros e (k & s & -> & _ & Hsat).
        unfold entry_sat, de_key, de_schema, de_opt. simpl. destruct (is_kell k); simpl; auto.
      * destruct Hex as [-> | ->]; repeat constructor.
    + specialize (IHks ents0 eq_refl). cbn [wf] in Hwf.
      apply andb_true_iff in Hwf as [_ Hwm]. apply forallb_id_map' in Hwm.
      cbn [hsat] in Hh.
      apply (fold_and_Forall (fun e : dentry =>
               if is_kell (de_key e) then True
               else match de_schema e with
                    | Some sch => hsat w sch /\ (if de_opt e then True else sat w sch)
                    | None => de_opt e = true end)) in Hh.
      rewrite Forall_forall in IHks, Hwm, Hh.
      apply Forall_forall. intros e Hine.
      destruct (Forall2_In_r _ _ _ _ Hrel Hine) as (e0 & Hin0 & Hke & Hc).
      specialize (Hh e0 Hin0). unfold entry_sat. rewrite Hke.
      destruct (is_kell (de_key e0)) eqn:Ekl; [reflexivity|]. cbn [orb].
      destruct Hc as [[_ ->]|(sch & x & s1 & Hsch & Ha & Hsub & Hs1 & Ho)].
      * (* not mentioned: the original entry *)
        destruct (de_schema e0) as [sch|].
        -- destruct Hh as [_ Hh]. destruct (de_opt e0); [exact I | exact Hh].
        -- rewrite Hh. exact I.
      * (* mentioned: substituted, now required *)
        rewrite Ho, Hs1. rewrite Hsch in Hh. destruct Hh as [Hhs _].
        assert (Hwsch : wf sch = true) by (specialize (Hwm e0 Hin0); rewrite Hsch in Hwm; exact Hwm).
        pose proof (assoc_In _ _ _ Ha) as Hind.
        apply (IHks e0 Hin0 sch Hsch Hwsch Hhs x s1); auto.
        -- eapply plain_dict_assoc; eauto.
        -- eapply Hvm; eauto.
  - (* any *)
    destruct (subst_any_shape ts v s' Hs) as (kept & -> & Hne & Hcase).
    cbn [sat]. split; [exact Hne|]. apply fold_and_Forall.
    destruct Hcase as [(-> & s1 & Hs1 & ->) | (ts' & -> & Hk)].
    + constructor; [|constructor]. eapply fn_sat; eauto.
    + specialize (IHts ts' eq_refl). cbn [wf] in Hwf. apply forallb_id_map' in Hwf.
      cbn [hsat] in Hh. apply (fold_and_Forall (fun t => hsat w t)) in Hh.
      rewrite Forall_forall in IHts, Hwf, Hh.
      eapply Forall_impl; [|exact Hk]. intros s1 (t & Ht & Hsub).
      apply (IHts t Ht (Hwf t Ht) (Hh t Ht) v s1); auto.
  - (* bytes *) scalar_conf Hs EV. destruct v; try discriminate. inversion Hs; subst. exact I.
  - (* uuid *) scalar_conf Hs EV. destruct v; try discriminate. inversion Hs; subst.
    destruct EV as (n1 & E1 & H4 & _). inversion E1; subst. cbn [sat opt_holds]. exact H4.
  - (* datetime *) scalar_conf Hs EV.
    destruct v as [| | | | | | | av uv | | | | | |]; try discriminate. inversion Hs; subst. exact I.
  - (* date *) scalar_conf Hs EV. inversion Hs; subst. destruct EV as [Hi _].
    cbn [sat opt_holds]. exact Hi.
  - (* alias *)
    cbn [substitute] in Hs. apply bind_ok in Hs as (t' & Ht & Hs). inversion Hs; subst.
    cbn [sat]. cbn [wf] in Hwf. cbn [hsat] in Hh. eapply IHt; eauto.
  - (* custom *)
    cbn [substitute] in Hs. apply bind_ok in Hs as (t' & Ht & Hs). inversion Hs; subst.
    cbn [sat]. cbn [wf] in Hwf. cbn [hsat] in Hh. eapply IHt; eauto.
Qed.

Theorem subst_sat_lemma : forall w s, wf s = true -> hsat w s ->
  forall v s', plain v = true -> vwf v = true -> substitute s v = Ok s' -> sat w s'.
Proof. intros w s. exact (subst_sat_ind w s). Qed.

Corollary subst_result_generates : forall w s v s',
  world_ok w -> wf s = true -> hsat w s -> plain v = true -> vwf v = true ->
  substitute s v = Ok s' -> forall t, exists g t', gen w s' t = Ok (g, t') /\ conforms s' g.
Proof.
  intros w s v s' Hw Hwf Hh Hpl Hvw Hs t.
  pose proof (subst_wf_lemma s Hwf v s' Hpl Hvw Hs) as Hwf'.
  pose proof (subst_sat_lemma w s Hwf Hh v s' Hpl Hvw Hs) as Hsat'.
  destruct (gen_sound_lemma w Hw s' Hwf' Hsat' t) as (g & t' & E & Hc). eauto.
Qed.

(* ================= the decidable form of the hypothesis ================= *)
Lemma hsatb_sound_lemma : forall w s, wf s = true -> hsatb w s = true -> hsat w s.
Proof.
  intros w.
  induction s as [ | val | val mn mx | val mn mx pr | val len mnl mxl al sub pat
                 | es ty len mnl mxl IHes IHty | ks IHks | ts IHts
                 | val | val | val | val | nm t IHt | t IHt ] using schema_ind';
    intros Hwf Hb; cbn [hsat]; try exact I.
  - destruct val as [e|]; [|exact I]. cbn [hsatb] in Hb. apply satb_float_iff. exact Hb.
  - cbn [wf] in Hwf. apply andb_true_iff in Hwf as [Hwes Hwty]. cbn [hsatb] in Hb.
    destruct ty as [t|]; [apply (IHty t eq_refl Hwty Hb)|].
    destruct es as [es'|]; [|exact I].
    apply andb_true_iff in Hwes as [_ Hwm]. apply forallb_id_map' in Hwm, Hb.
    apply (fold_and_Forall (fun o => match o with Some e => hsat w e | None => True end)).
    specialize (IHes es' eq_refl). rewrite Forall_forall in *. intros o Ho.
    specialize (IHes o Ho). specialize (Hwm o Ho). specialize (Hb o Ho).
    destruct o as [e|]; [|exact I]. apply (IHes e eq_refl Hwm Hb).
  - destruct ks as [ents|]; [|exact I]. cbn [hsatb] in Hb. cbn [wf] in Hwf.
    apply andb_true_iff in Hwf as [_ Hwm]. apply forallb_id_map' in Hwm, Hb.
    apply (fold_and_Forall (fun e : dentry =>
             if is_kell (de_key e) then True
             else match de_schema e with
                  | Some sch => hsat w sch /\ (if de_opt e then True else sat w sch)
                  | None => de_opt e = true end)).
    specialize (IHks ents eq_refl). rewrite Forall_forall in *. intros e He.
    specialize (IHks e He). specialize (Hwm e He). specialize (Hb e He).
    destruct (is_kell (de_key e)); [exact I|].
    destruct (de_schema e) as [sch|]; [|exact Hb].
    apply andb_true_iff in Hb as [Hb1 Hb2]. split; [apply (IHks sch eq_refl Hwm Hb1)|].
    destruct (de_opt e); [exact I|]. apply satb_sound_lemma; auto.
  - destruct ts as [ts'|]; [|exact I]. cbn [hsatb] in Hb. cbn [wf] in Hwf.
    apply forallb_id_map' in Hwf, Hb. apply (fold_and_Forall (fun t => hsat w t)).
    specialize (IHts ts' eq_refl). rewrite Forall_forall in *. intros t Ht.
    apply (IHts t Ht (Hwf t Ht) (Hb t Ht)).
  - cbn [hsatb] in Hb. cbn [wf] in Hwf. auto.
  - cbn [hsatb] in Hb. cbn [wf] in Hwf. auto.
Qed.

(* ================= without optional members, [sat] is enough ================= *)
Lemma sat_hsat_lemma : forall w s, opt_free s = true -> sat w s -> hsat w s.
Proof.
  intros w.
  induction s as [ | val | val mn mx | val mn mx pr | val len mnl mxl al sub pat
                 | es ty len mnl mxl IHes IHty | ks IHks | ts IHts
                 | val | val | val | val | nm t IHt | t IHt ] using schema_ind';
    intros Hof Hs; cbn [hsat]; try exact I.
  - destruct val as [e|]; [exact Hs | exact I].
  - cbn [opt_free] in Hof. apply andb_true_iff in Hof as [Hoes Hoty]. cbn [sat] in Hs.
    destruct es as [es'|].
    + destruct Hs as (-> & _ & Hall). apply forallb_id_map' in Hoes.
      apply (fold_and_Forall (fun o => match o with Some e => sat w e | None => True end)) in Hall.
      apply (fold_and_Forall (fun o => match o with Some e => hsat w e | None => True end)).
      specialize (IHes es' eq_refl). rewrite Forall_forall in *. intros o Ho.
      specialize (IHes o Ho). specialize (Hoes o Ho). specialize (Hall o Ho).
      destruct o as [e|]; [|exact I]. apply (IHes e eq_refl Hoes Hall).
    + destruct Hs as [_ Hty]. destruct ty as [t|]; [|exact I]. apply (IHty t eq_refl Hoty Hty).
  - destruct ks as [ents|]; [|exact I]. cbn [opt_free] in Hof. cbn [sat] in Hs.
    apply forallb_id_map' in Hof.
    apply (fold_and_Forall (fun e : dentry =>
             if is_kell (de_key e) || de_opt e then True
             else match de_schema e with Some sch => sat w sch | None => False end)) in Hs.
    apply (fold_and_Forall (fun e : dentry =>
             if is_kell (de_key e) then True
             else match de_schema e with
                  | Some sch => hsat w sch /\ (if de_opt e then True else sat w sch)
                  | None => de_opt e = true end)).
    specialize (IHks ents eq_refl). rewrite Forall_forall in *. intros e He.
    specialize (IHks e He). specialize (Hof e He). specialize (Hs e He).
    apply andb_true_iff in Hof as [Ho1 Ho2]. apply negb_true_iff in Ho1.
    destruct (is_kell (de_key e)); [exact I|]. rewrite Ho1 in Hs |- *. cbn [orb] in Hs.
    destruct (de_schema e) as [sch|]; [|contradiction].
    split; [apply (IHks sch eq_refl Ho2 Hs) | exact Hs].
  - destruct ts as [ts'|]; [|exact I]. cbn [opt_free] in Hof. cbn [sat] in Hs.
    destruct Hs as [_ Hall]. apply forallb_id_map' in Hof.
    apply (fold_and_Forall (fun t => sat w t)) in Hall. apply (fold_and_Forall (fun t => hsat w t)).
    specialize (IHts ts' eq_refl). rewrite Forall_forall in *. intros t Ht.
    apply (IHts t Ht (Hof t Ht) (Hall t Ht)).
  - cbn [opt_free] in Hof. cbn [sat] in Hs. auto.
  - cbn [opt_free] in Hof. cbn [sat] in Hs. auto.
Qed.

Corollary subst_sat_opt_free : forall w s, wf s = true -> opt_free s = true -> sat w s ->
  forall v s', plain v = true -> vwf v = true -> substitute s v = Ok s' -> sat w s'.
Proof.
  intros w s Hwf Hof Hs. apply subst_sat_lemma; [exact Hwf | apply sat_hsat_lemma; assumption].
Qed.

Print Assumptions subst_wf_lemma.
Print Assumptions subst_sat_lemma.
Print Assumptions subst_result_generates.
Print Assumptions hsatb_sound_lemma.
Print Assumptions subst_sat_opt_free.
