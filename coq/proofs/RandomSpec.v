(* Range facts about the tape primitives and the monad plumbing used by GenerateSpec. *)
From Coq Require Import PrimFloat SpecFloat FloatOps FloatAxioms.
Require Import D42.Prelude D42.PyFloat D42.Value D42.PyRandom.
Open Scope Z_scope.

(* a computation that returns, on every tape, a value satisfying P *)
Definition returns {A} (m : M A) (P : A -> Prop) : Prop :=
  forall t, exists a t', m t = Ok (a, t') /\ P a.

Lemma returns_ret {A} (a : A) (P : A -> Prop) : P a -> returns (ret a) P.
Proof. intros H t. exists a, t. split; auto. Qed.

Lemma returns_bind {A B} (m : M A) (f : A -> M B) (P : A -> Prop) (Q : B -> Prop) :
  returns m P -> (forall a, P a -> returns (f a) Q) -> returns (mbind m f) Q.
Proof.
  intros Hm Hf t. destruct (Hm t) as (a & t1 & E & Pa).
  destruct (Hf a Pa t1) as (b & t2 & E2 & Qb). exists b, t2. split; auto.
  unfold mbind. rewrite E. exact E2.
Qed.

Lemma returns_weaken {A} (m : M A) (P Q : A -> Prop) :
  returns m P -> (forall a, P a -> Q a) -> returns m Q.
Proof. intros H HPQ t. destruct (H t) as (a & t' & E & Pa). eauto. Qed.

Lemma returns_mlift {A} (r : result A) a (P : A -> Prop) : r = Ok a -> P a -> returns (mlift r) P.
Proof. intros -> Pa t. exists a, t. split; auto. Qed.

Lemma returns_draw : returns draw (fun _ => True).
Proof. intros [|x t]; simpl; eauto. Qed.

Lemma returns_randint a b : a <= b -> returns (randint a b) (fun z => a <= z <= b).
Proof.
  intros Hab. unfold randint. destruct (b <? a) eqn:E; [apply Z.ltb_lt in E; lia|].
  eapply returns_bind; [apply returns_draw|]. intros x _. apply returns_ret.
  pose proof (Z.mod_pos_bound (Z.of_N x) (b - a + 1)). lia.
Qed.

Lemma returns_choice {A} (l : list A) : l <> [] -> returns (choice l) (fun x => In x l).
Proof.
  destruct l as [|d l]; [congruence|]. intros _. unfold choice.
  eapply returns_bind; [apply returns_draw|]. intros x _. apply returns_ret.
  apply nth_In. set (n := length (d :: l)).
  assert (0 < N.of_nat n)%N by (unfold n; simpl; lia).
  pose proof (N.mod_upper_bound x (N.of_nat n)). lia.
Qed.

(* sequences *)
Lemma returns_msequence {A} (ms : list (M A)) (Q : M A -> A -> Prop) :
  Forall (fun m => returns m (Q m)) ms ->
  returns (msequence ms) (fun l => Forall2 Q ms l).
Proof.
  induction 1 as [|m ms Hm _ IH]; cbn [msequence].
  - apply returns_ret. constructor.
  - eapply returns_bind; [exact Hm|]. intros a Qa.
    eapply returns_bind; [exact IH|]. intros l Hl. apply returns_ret. constructor; auto.
Qed.

Lemma Forall2_repeat_l {A B} (R : A -> B -> Prop) x n l :
  Forall2 R (repeat x n) l -> length l = n /\ Forall (R x) l.
Proof.
  revert l. induction n as [|n IH]; intros l H; simpl in H; inversion H; subst; simpl.
  - split; auto.
  - destruct (IH _ H4). split; [lia | constructor; auto].
Qed.

Lemma returns_repeat {A} (m : M A) (P : A -> Prop) n :
  returns m P -> returns (msequence (repeat m n)) (fun l => length l = n /\ Forall P l).
Proof.
  intros Hm.
  eapply returns_weaken.
  - apply (returns_msequence (repeat m n) (fun _ a => P a)).
    apply Forall_forall. intros x Hx. apply repeat_spec in Hx. subst. exact Hm.
  - intros l Hl. apply Forall2_repeat_l in Hl. exact Hl.
Qed.

(* random_str *)
Lemma returns_random_str n (alphabet : pystr) :
  (alphabet <> [] \/ n <= 0) ->
  returns (random_str n alphabet)
          (fun s => length s = Z.to_nat n /\ Forall (fun c => In c alphabet) s).
Proof.
  intros H. unfold random_str. destruct H as [H|H].
  - apply returns_repeat. apply returns_choice. exact H.
  - replace (Z.to_nat n) with 0%nat by lia. simpl. apply returns_ret. split; auto.
Qed.

(* ---- float comparisons ---- *)
Lemma SFcompare_antisym a b c :
  SFcompare a b = Some c -> SFcompare b a = Some (CompOpp c).
Proof.
  destruct a as [sa|sa| |sa ma ea], b as [sb|sb| |sb mb eb]; simpl; intros H; inversion H; subst;
    try reflexivity; try (destruct sa; reflexivity); try (destruct sb; reflexivity);
    try (destruct sa, sb; reflexivity).
  destruct sa, sb; simpl; try reflexivity.
  - rewrite (Z.compare_antisym ea eb). destruct (ea ?= eb); simpl; try reflexivity.
    rewrite (Pos.compare_cont_antisym ma mb Eq). simpl. reflexivity.
  - rewrite (Z.compare_antisym ea eb). destruct (ea ?= eb); simpl; try reflexivity.
    rewrite (Pos.compare_cont_antisym ma mb Eq). simpl. reflexivity.
Qed.

Lemma leb_ltb_false a f : PrimFloat.leb a f = true -> PrimFloat.ltb f a = false.
Proof.
  rewrite leb_spec, ltb_spec. unfold SFleb, SFltb.
  destruct (SFcompare (Prim2SF a) (Prim2SF f)) as [c|] eqn:E; [|discriminate].
  rewrite (SFcompare_antisym _ _ _ E). destruct c; simpl; auto; discriminate.
Qed.

Lemma ltb_irrefl a : PrimFloat.ltb a a = false.
Proof.
  rewrite ltb_spec. unfold SFltb.
  destruct (SFcompare (Prim2SF a) (Prim2SF a)) as [c|] eqn:E; auto.
  pose proof (SFcompare_antisym _ _ _ E) as E2. rewrite E in E2. inversion E2.
  destruct c; auto; discriminate.
Qed.

Lemma returns_uniform a b :
  PrimFloat.ltb b a = false ->
  returns (uniform a b) (fun x => PrimFloat.ltb x a = false /\ PrimFloat.ltb b x = false).
Proof.
  intros Hab. unfold uniform. eapply returns_bind; [apply returns_draw|]. intros x _.
  apply returns_ret. destruct (bits_to_float x) as [f|].
  - destruct (PrimFloat.leb a f && PrimFloat.leb f b) eqn:E.
    + apply andb_true_iff in E as [E1 E2]. split; apply leb_ltb_false; auto.
    + split; [apply ltb_irrefl | exact Hab].
  - split; [apply ltb_irrefl | exact Hab].
Qed.
