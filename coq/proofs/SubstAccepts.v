(* C04: "if the value conforms to the original schema then the result accepts it" - proved for
   schemas without a choice point over partial structures (no any with two or more alternatives,
   no [..., x, ...] list); refuted in general (F20, F25: props/C04.v). *)
From Coq Require Import PrimFloat.
Require Import D42.Prelude D42.PyFloat D42.Value D42.Regex D42.Schema D42.Validate D42.Conforms
               D42.FromNative D42.Substitute D42.Agree D42.ChoiceFree.
Require Import D42P.ListLemmas D42P.ScalarSpec D42P.ValueLemmas D42P.ContainerSpec D42P.FromNativeSpec
               D42P.ValidateSpec D42P.ErrorsSpec D42P.SubstLemmas D42P.SubstNarrows D42P.SubstPins
               D42P.SubstIdem.
Open Scope nat_scope.

Definition acceptsP (s : schema) : Prop :=
  forall v s', plain v = true -> vwf v = true -> substitute s v = Ok s' -> conforms s v -> conforms s' v.

(* natives accept their own values *)
Lemma natives_accept l ss :
  Forall (fun x => plain x = true /\ vwf x = true) l ->
  Forall2 (fun x s => sub_from_native x = Ok s) l ss ->
  Forall2 (fun (c : vpred) x => c x) (map conforms ss) l.
Proof.
  intros Hl H. induction H as [|x s l ss Hxs _ IH]; simpl; constructor.
  - inversion Hl as [|? ? (Hp & Hw) _]; subst.
    apply (fn_accepts_lemma x s Hw (sub_from_native_ok _ _ Hxs)).
  - apply IH. inversion Hl; auto.
Qed.

Definition PAcc (of : option substfn) (oc : option vpred) : Prop :=
  match of, oc with
  | Some f, Some c => forall x s', plain x = true -> vwf x = true -> f x = Ok s' -> c x -> conforms s' x
  | None, None => True
  | _, _ => False end.

Lemma PAcc_mark a b : PAcc a b -> same_mark a b.
Proof. unfold same_mark. destruct a, b; simpl; try reflexivity; contradiction. Qed.

Lemma window_accept fs cs xs ss :
  Forall2 PAcc fs cs -> Forall (fun x => plain x = true /\ vwf x = true) xs ->
  length fs <= length xs ->
  Forall2 (fun (ofx : option substfn * value) s => exists f, fst ofx = Some f /\ f (snd ofx) = Ok s)
          (combine fs xs) ss ->
  Forall2 (fun (c : vpred) x => c x) (strip cs) (firstn (length fs) xs) ->
  Forall2 (fun (c : vpred) x => c x) (map conforms ss) (firstn (length fs) xs).
Proof.
  intros HP. revert xs ss. induction HP as [|of oc fs cs Hoc _ IH]; intros xs ss Hxs Hle Hrel Hc.
  - simpl in *. inversion Hrel; subst. constructor.
  - destruct xs as [|x xs]; [simpl in Hle; lia|]. simpl in Hrel.
    inversion Hrel as [|? s ? ss' (f & Hf & Hfx) Hrest]; subst. simpl in Hf, Hfx. subst of.
    destruct oc as [c|]; [|contradiction]. simpl in Hc.
    inversion Hc as [|? ? ? ? Hcx Hcrest]; subst.
    inversion Hxs as [|? ? (Hp & Hw) Hxs']; subst. simpl. constructor.
    + eapply Hoc; eauto.
    + eapply IH; eauto. simpl in Hle. lia.
Qed.

(* the spec's window is the positional one when the form is not "contains" *)
Lemma Forall2_firstn_len {A B} (R : A -> B -> Prop) cs l :
  Forall2 R cs l -> firstn (length cs) l = l.
Proof. intros H. rewrite (Forall2_len _ _ _ H). apply firstn_all. Qed.

Lemma subst_elements_accept fs cs l start els :
  Forall2 PAcc fs cs -> Forall (fun x => plain x = true /\ vwf x = true) l -> start <= length l ->
  subst_elements fs l start = Ok els ->
  Forall2 (fun (c : vpred) x => c x) (strip cs) (firstn (length fs) (skipn start l)) ->
  exists es, els = map Some es /\ Forall2 (fun (c : vpred) x => c x) (map conforms es) l.
Proof.
  intros HP HPl Hst H Hwin. unfold subst_elements in H.
  apply bind_ok in H as (mid & Hm & H). apply bind_ok in H as (suf & Hsu & H).
  apply bind_ok in H as (pre & Hp & H). inversion H; subst; clear H.
  apply subst_run_pos in Hm as (ms & -> & Hlms & Hle & Hrel).
  apply natives_rel in Hsu as (ss & -> & Hss). apply natives_rel in Hp as (ps & -> & Hps).
  exists (ps ++ ms ++ ss). split; [rewrite !map_app; reflexivity|].
  rewrite map_length, Hlms in Hss.
  assert (El : l = firstn start l ++ firstn (length fs) (skipn start l) ++ skipn (start + length fs) l).
  { rewrite <- (firstn_skipn start l) at 1. f_equal.
    rewrite <- (firstn_skipn (length fs) (skipn start l)) at 1. f_equal.
    rewrite skipn_skipn'. reflexivity. }
  rewrite El. rewrite !map_app.
  assert (Hsub : forall l', (forall x, In x l' -> In x l) ->
                            Forall (fun x => plain x = true /\ vwf x = true) l').
  { intros l' Hin. apply Forall_forall. intros x Hx. rewrite Forall_forall in HPl. auto. }
  apply Forall2_app; [apply natives_accept; auto; apply Hsub; intros x Hx; eapply In_firstn; eauto|].
  apply Forall2_app.
  - eapply window_accept; eauto. apply Hsub. intros x Hx. eapply In_skipn; eauto.
  - apply natives_accept; auto. apply Hsub. intros x Hx. eapply In_skipn; eauto.
Qed.

(* ---- small list facts ---- *)
Lemma firstn_app_exact {A} (a b : list A) n : n = length a -> firstn n (a ++ b) = a.
Proof. intros ->. rewrite firstn_app, firstn_all, Nat.sub_diag. simpl. apply app_nil_r. Qed.

Lemma skipn_app_exact {A} (a b : list A) n : n = length a -> skipn n (a ++ b) = b.
Proof. intros ->. rewrite skipn_app, skipn_all, Nat.sub_diag. reflexivity. Qed.

Lemma Forall2_In_combine {A B} (R : A -> B -> Prop) l1 l2 a b :
  Forall2 R l1 l2 -> In (a, b) (combine l1 l2) -> R a b.
Proof.
  induction 1 as [|x y l1 l2 Hxy _ IH]; simpl; [contradiction|].
  intros [E|Hin]; [inversion E; subst; exact Hxy | auto].
Qed.

(* ---- element lists: the member functions accept what the member predicates accept ---- *)
Lemma PAcc_build (P : schema -> Prop) es' :
  (forall s, P s -> wf s = true -> choice_free s = true -> acceptsP s) ->
  Forall (fun o : option schema => forall s, o = Some s -> P s) es' ->
  Forall (fun o : option schema => match o with Some e => wf e | None => true end = true) es' ->
  Forall (fun o : option schema => match o with Some e => choice_free e | None => true end = true) es' ->
  Forall2 PAcc (map (option_map substitute) es') (map cfo es').
Proof.
  intros HP H. induction H as [|o r Ho _ IH]; intros Hw Hcf; simpl; constructor.
  - inversion Hw as [|? ? Hw1 _]; inversion Hcf as [|? ? Hcf1 _]; subst.
    destruct o as [sch|]; simpl; [|exact I].
    intros x s1 Hx Hvx Hsub Hcx. exact (HP sch (Ho sch eq_refl) Hw1 Hcf1 x s1 Hx Hvx Hsub Hcx).
  - inversion Hw; inversion Hcf; subst. apply IH; assumption.
Qed.

Lemma subst_list_accepts (fs : list (option substfn)) (cs : list (option vpred)) l els :
  Forall2 PAcc fs cs -> elems_wf cs = true -> classify fs <> FBody ->
  Forall (fun x => plain x = true /\ vwf x = true) l ->
  subst_list_elements fs l = Ok els -> list_spec cs l ->
  exists es, els = map Some es /\ Forall2 (fun (c : vpred) x => c x) (map conforms es) l.
Proof.
  intros HP Hewf Hnb HPl Hr Hc.
  assert (Hmk : Forall2 same_mark fs cs) by (eapply Forall2_impl; [|exact HP]; apply PAcc_mark).
  pose proof (mark_classify _ _ Hmk) as Hcl.
  pose proof (Forall2_middle _ _ _ PAcc_mark HP) as Hmid.
  pose proof (Forall2_len _ _ _ Hmid) as Hlm.
  unfold elems_wf in Hewf. pose proof (strip_length_all_some _ Hewf) as Hls.
  unfold subst_list_elements in Hr. destruct (existsb is_vell l); [discriminate|].
  unfold list_spec in Hc. rewrite <- Hcl in Hc. cbv zeta in Hc.
  destruct (classify fs) eqn:Ecl.
  - exfalso. apply Hnb. reflexivity.
  - (* head *)
    destruct Hc as (lm & l2 & -> & Hc). pose proof (Forall2_len _ _ _ Hc) as Hlc.
    apply (subst_elements_accept (middle fs) (middle cs) (lm ++ l2) 0 els); auto; [lia|].
    cbn [skipn]. rewrite firstn_app_exact by congruence. exact Hc.
  - (* tail *)
    destruct Hc as (l1 & lm & -> & Hc). pose proof (Forall2_len _ _ _ Hc) as Hlc.
    assert (Est : length (l1 ++ lm) - length (middle fs) = length l1)
      by (rewrite app_length; lia).
    rewrite Est in Hr.
    apply (subst_elements_accept (middle fs) (middle cs) (l1 ++ lm) (length l1) els); auto;
      [rewrite app_length; lia|].
    rewrite skipn_app_exact by reflexivity. rewrite firstn_all2 by lia. exact Hc.
  - (* exact *)
    pose proof (Forall2_len _ _ _ Hc) as Hlc.
    apply (subst_elements_accept (middle fs) (middle cs) l 0 els); auto; [lia|].
    cbn [skipn]. rewrite firstn_all2 by lia. exact Hc.
Qed.

(* ---- dicts ---- *)
Lemma native_dict_accept (d : list (key * value)) ss extra :
  NoDup (map fst d) -> (forall k x, In (k, x) d -> vwf x = true) ->
  Forall2 (fun (kv : key * value) s => sub_from_native (snd kv) = Ok s) d ss ->
  (forall e, In e extra -> de_key e = KEll) ->
  dict_spec (dcs (map (fun p => native_entry (fst p) (snd p)) (combine d ss) ++ extra)) d.
Proof.
  intros Hnd Hvm Hss Hex. split.
  - intros k c opt Hin Hne. unfold dcs in Hin. apply in_map_iff in Hin as (e & E & Hin).
    inversion E; subst; clear E. apply in_app_or in Hin as [Hin|Hin].
    + apply in_map_iff in Hin as ([[k x] s] & <- & Hin).
      unfold native_entry, de_key, de_schema, de_opt. cbn [fst snd].
      pose proof (in_combine_l _ _ _ _ Hin) as Hind.
      rewrite (assoc_NoDup_In _ _ _ Hnd Hind). cbn [cfo opt_holds].
      pose proof (Forall2_In_combine _ _ _ _ _ Hss Hin) as Hsx. cbn [snd] in Hsx.
      apply (fn_accepts_lemma x s (Hvm k x Hind) (sub_from_native_ok _ _ Hsx)).
    + exfalso. apply Hne. apply Hex. exact Hin.
  - intros _ k x Hin. apply declared_In. rewrite dcs_keys, map_app. apply in_or_app. left.
    rewrite map_map. unfold native_entry, de_key. cbn [fst].
    apply In_nth_error in Hin as (n & Hn). clear - Hn Hss. revert n Hn.
    induction Hss as [|kv s d ss _ _ IH]; intros n Hn; [destruct n; discriminate|].
    destruct n as [|n]; simpl in *; [inversion Hn; subst; left; reflexivity | right; eauto].
Qed.

Lemma dict_spec_accepts d ents0 ents :
  plain (VDict d) = true -> (forall k x, In (k, x) d -> vwf x = true) ->
  Forall (fun e0 => forall sch, de_schema e0 = Some sch -> acceptsP sch) ents0 ->
  Forall2 (entry_rel d) ents0 ents ->
  dict_spec (dcs ents0) d -> dict_spec (dcs ents) d.
Proof.
  intros Hpl Hvm HP Hrel [H1 H2].
  assert (Hk : map fst (dcs ents) = map fst (dcs ents0))
    by (rewrite !dcs_keys; eapply entry_rel_keys; eauto).
  split.
  - intros k c opt Hin Hne. unfold dcs in Hin. apply in_map_iff in Hin as (e & E & Hin).
    inversion E; subst; clear E.
    destruct (Forall2_In_r _ _ _ _ Hrel Hin) as (e0 & Hin0 & Hke & Hcase).
    rewrite Forall_forall in HP.
    destruct Hcase as [[_ ->]|(sch & x & s1 & Hsch & Ha & Hsub & Hs1 & Ho)].
    + apply H1; auto. unfold dcs. apply in_map_iff. exists e0. auto.
    + specialize (H1 (de_key e0) (cfo (de_schema e0)) (de_opt e0)).
      assert (Hm : In (de_key e0, (cfo (de_schema e0), de_opt e0)) (dcs ents0)).
      { unfold dcs. apply in_map_iff. exists e0. auto. }
      rewrite Hke in Hne |- *. specialize (H1 Hm Hne). rewrite Ha in H1 |- *.
      rewrite Hsch in H1. rewrite Hs1. cbn [cfo opt_holds] in H1 |- *.
      apply (HP e0 Hin0 sch Hsch x s1); auto.
      * eapply plain_dict_assoc; eauto.
      * apply (Hvm (de_key e0) x). apply assoc_In. exact Ha.
  - rewrite (declared_same_keys KEll _ _ Hk). intros Hd k x Hin.
    rewrite (declared_same_keys k _ _ Hk). eapply H2; eauto.
Qed.

(* ---- the theorem ---- *)
Theorem subst_accepts_lemma : forall s, wf s = true -> choice_free s = true -> acceptsP s.
Proof.
  induction s as [ | val | val mn mx | val mn mx pr | val len mnl mxl al sub pat
                 | es ty len mnl mxl IHes IHty | ks IHks | ts IHts
                 | val | val | val | val | nm t IHt | t IHt ] using schema_ind';
    intros Hwf Hcf v s' Hpl Hvw Hs Hc.
  - (* none *) scalar_start' Hs EV. inversion Hs; subst. exact Hc.
  - (* bool *) scalar_start' Hs EV. destruct v as [|b0| | | | | | | | | | | |]; try discriminate.
    inversion Hs; subst. exists b0. split; [reflexivity | cbn; reflexivity].
  - (* int *) scalar_start' Hs EV. destruct (as_intv v) as [i|] eqn:Ei; [|discriminate].
    inversion Hs; subst. apply as_intv_iz in Ei.
    destruct Hc as (z1 & E1 & _ & Hmn & Hmx). rewrite Ei in E1. inversion E1; subst z1.
    exists (iz i). split; [exact Ei|]. split; [cbn; reflexivity|]. split; assumption.
  - (* float *) scalar_start' Hs EV. destruct v as [| | |x| | | | | | | | | |]; try discriminate.
    inversion Hs; subst.
    destruct Hc as (x1 & E1 & Hv & Hmn & Hmx). inversion E1; subst x1.
    exists x. split; [reflexivity|]. split; [|split; assumption].
    destruct val as [e|]; cbn in Hv |- *; [exact Hv | apply float_value_ok_refl].
  - (* str *) scalar_start' Hs EV. destruct v as [| | | |x| | | | | | | | |]; try discriminate.
    inversion Hs; subst.
    destruct Hc as (s1 & E1 & _ & Hrest). inversion E1; subst s1.
    exists x. split; [reflexivity|]. split; [cbn; reflexivity | exact Hrest].
  - (* list *)
    cbn [substitute] in Hs.
    destruct (validate Subst (SList es ty len mnl mxl) [] v) eqn:EV; [|discriminate].
    destruct v as [| | | | | | | | |l| | | |]; try discriminate.
    destruct (negb (length l =? 0) && forallb is_vell l); [discriminate|].
    destruct (existsb is_vell (removelast (tl l))); [discriminate|].
    cbn [wf] in Hwf. apply andb_true_iff in Hwf as [Hwes Hwty].
    cbn [choice_free] in Hcf. apply andb_true_iff in Hcf as [Hcfes Hcfty].
    assert (HPl : Forall (fun x => plain x = true /\ vwf x = true) l).
    { apply Forall_forall. intros x Hx. split; [eapply plain_list_In | eapply vwf_list_In]; eauto. }
    destruct Hc as (l0 & E0 & Hlen & Hc). inversion E0; subst l0; clear E0.
    destruct ty as [t|].
    + (* typed *)
      assert (Hs2 : exists els, rsequence (map (fun x => if is_vell x then Ok None
                                                         else rmap Some (substitute t x)) l) = Ok els /\
                                s' = SList (Some els) None len mnl mxl).
      { destruct es; apply bind_ok in Hs as (els & ? & Hs); inversion Hs; eauto. }
      destruct Hs2 as (els & Hr & ->). apply rsequence_ok in Hr.
      specialize (IHty t eq_refl Hwty Hcfty).
      assert (Hels : exists ss, els = map Some ss /\ Forall2 (fun x s => substitute t x = Ok s) l ss).
      { clear - Hr HPl. induction Hr as [|x e l els Hxe _ IH].
        - exists []. split; auto.
        - inversion HPl as [|? ? [H1 _] H2]; subst. destruct (IH H2) as (ss & -> & Hss).
          rewrite (plain_not_ell _ H1) in Hxe. apply rmap_ok in Hxe as (s & Hs & ->).
          exists (s :: ss). split; auto. }
      destruct Hels as (ss & -> & Hss).
      exists l. split; [reflexivity|]. split; [exact Hlen|].
      change (list_spec (map cfo (map Some ss)) l).
      rewrite cfo_map_Some. apply list_spec_all_some.
      clear - Hss Hc HPl IHty.
      induction Hss as [|x s l ss Hxs _ IH]; simpl; constructor.
      * inversion HPl as [|? ? [Hq1 Hq2] Hq3]; inversion Hc; subst. eapply IHty; eauto.
      * inversion HPl; inversion Hc; subst. apply IH; auto.
    + destruct es as [es'|].
      * (* element list *)
        apply bind_ok in Hs as (els & Hr & Hs). inversion Hs; subst; clear Hs.
        specialize (IHes es' eq_refl). apply andb_true_iff in Hwes as [Hew Hwm].
        apply forallb_id_map' in Hwm.
        apply andb_true_iff in Hcfes as [Hnb Hcfm]. apply forallb_id_map' in Hcfm.
        change (list_spec (map cfo es') l) in Hc.
        change (subst_list_elements (map (option_map substitute) es') l = Ok els) in Hr.
        destruct (subst_list_accepts (map (option_map substitute) es') (map cfo es') l els)
          as (ess & -> & Hess); auto.
        -- apply (PAcc_build (fun s => wf s = true -> choice_free s = true -> acceptsP s)); auto.
        -- change (map cfo es') with (map (option_map conforms) es'). rewrite elems_wf_map. exact Hew.
        -- rewrite classify_map. intros E. rewrite E in Hnb. discriminate.
        -- exists l. split; [reflexivity|]. split; [exact Hlen|].
           change (list_spec (map cfo (map Some ess)) l).
           rewrite cfo_map_Some. apply list_spec_all_some. exact Hess.
      * (* untyped *)
        apply bind_ok in Hs as (els & Hr & Hs). inversion Hs; subst; clear Hs.
        apply rsequence_ok in Hr.
        assert (Hels : exists ss, els = map Some ss /\ Forall2 (fun x s => sub_from_native x = Ok s) l ss).
        { clear - Hr HPl. induction Hr as [|x e l els Hxe _ IH].
          - exists []. split; auto.
          - inversion HPl as [|? ? [H1 _] H2]; subst. destruct (IH H2) as (ss & -> & Hss).
            rewrite (plain_not_ell _ H1) in Hxe. apply rmap_ok in Hxe as (s & Hs & ->).
            exists (s :: ss). split; auto. }
        destruct Hels as (ss & -> & Hss).
        exists l. split; [reflexivity|]. split; [exact Hlen|].
        change (list_spec (map cfo (map Some ss)) l).
        rewrite cfo_map_Some. apply list_spec_all_some. apply natives_accept; auto.
  - (* dict *)
    cbn [substitute] in Hs.
    destruct (validate Subst (SDict ks) [] v) eqn:EV; [|discriminate].
    destruct v as [| | | | | | | | | |d| | |]; try discriminate.
    destruct (vwf_dict _ Hvw) as [Hnd Hvm].
    assert (Hne : forall k x, In (k, x) d -> is_vell x = false).
    { intros k x Hin. apply plain_not_ell. eapply plain_dict_assoc; eauto.
      apply assoc_NoDup_In; eauto. }
    assert (Hnokell : ~ In KEll (map fst d)).
    { intros Hin. apply in_map_iff in Hin as ([k x] & Hk & Hin). simpl in Hk. subst k.
      cbn [plain] in Hpl. apply forallb_id_map' in Hpl. rewrite Forall_forall in Hpl.
      specialize (Hpl _ Hin). simpl in Hpl. discriminate. }
    assert (Hnatkeys : forall ss, Forall2 (fun (kv : key * value) s => sub_from_native (snd kv) = Ok s) d ss ->
                       map de_key (map (fun p => native_entry (fst p) (snd p)) (combine d ss)) = map fst d).
    { intros ss Hss. rewrite map_map. unfold native_entry, de_key. simpl.
      clear - Hss. induction Hss as [|kv s d ss _ _ IH]; simpl; congruence. }
    destruct Hc as (d0 & E0 & Hc). inversion E0; subst d0; clear E0.
    destruct ks as [ents0|].
    + cbv beta iota zeta in Hs.
      match type of Hs with (if ?c then _ else _) = _ => destruct c eqn:Erel end.
      * (* relaxed-only *)
        apply bind_ok in Hs as (ents & Hr & Hs). inversion Hs; subst; clear Hs.
        destruct (native_entries_exact d Hnd Hne [] ents) as (ss & Hss & ->); auto.
        simpl app.
        set (ne := map (fun p => native_entry (fst p) (snd p)) (combine d ss)) in *.
        assert (Hfr : ~ In KEll (map de_key ne)) by (unfold ne; rewrite Hnatkeys; auto).
        rewrite (set_entry_fresh KEll None false ne Hfr).
        exists d. split; [reflexivity|]. fold (dcs (ne ++ [(KEll, None, false)])).
        apply native_dict_accept; auto.
        intros e [<-|[]]. reflexivity.
      * apply bind_ok in Hs as (ents & Hr & Hs). inversion Hs; subst; clear Hs.
        specialize (IHks ents0 eq_refl). cbn [wf] in Hwf.
        apply andb_true_iff in Hwf as [Hwf Hwm]. apply forallb_id_map' in Hwm.
        cbn [choice_free] in Hcf. apply forallb_id_map' in Hcf.
        fold (dfs ents0) in Hr. fold (dcs ents0) in Hc.
        apply subst_dict_spec in Hr.
        2:{ intros k x Ha. apply (Hne k x). apply assoc_In. exact Ha. }
        exists d. split; [reflexivity|]. fold (dcs ents).
        apply (dict_spec_accepts d ents0 ents); auto.
        rewrite Forall_forall in IHks, Hwm, Hcf |- *.
        intros e0 Hin0 sch Hsch. apply (IHks e0 Hin0 sch Hsch).
        -- specialize (Hwm e0 Hin0). rewrite Hsch in Hwm. exact Hwm.
        -- specialize (Hcf e0 Hin0). rewrite Hsch in Hcf. exact Hcf.
    + (* undeclared dict *)
      apply bind_ok in Hs as (ents & Hr & Hs). inversion Hs; subst; clear Hs.
      destruct (native_entries_exact d Hnd Hne [] ents) as (ss & Hss & ->); auto.
      simpl app. exists d. split; [reflexivity|].
      set (ne := map (fun p => native_entry (fst p) (snd p)) (combine d ss)).
      fold (dcs ne). rewrite <- (app_nil_r ne).
      apply native_dict_accept; auto. intros e [].
  - (* any *)
    cbn [substitute] in Hs.
    destruct (validate Subst (SAny ts) [] v) eqn:EV; [|discriminate].
    destruct ts as [ts'|].
    + apply bind_ok in Hs as (kept & Hk & Hs). destruct kept as [|k0 kr]; [discriminate|].
      inversion Hs; subst; clear Hs.
      specialize (IHts ts' eq_refl). cbn [wf] in Hwf. apply forallb_id_map' in Hwf.
      cbn [choice_free] in Hcf. apply andb_true_iff in Hcf as [Hlen Hcf].
      apply forallb_id_map' in Hcf.
      destruct ts' as [|t [|t2 r]]; [destruct Hc | | discriminate].
      cbn [map any_subst] in Hk.
      inversion IHts as [|? ? IHt _]; inversion Hwf as [|? ? Hwt _]; inversion Hcf as [|? ? Hct _]; subst.
      destruct (substitute t v) as [s1|k|e] eqn:Et.
      * apply bind_ok in Hk as (rest & Hr0 & Hk). inversion Hr0; subst rest. inversion Hk; subst.
        cbn [conforms map fold_right] in Hc |- *. destruct Hc as [Hc|[]]. left.
        apply (IHt Hwt Hct v k0); auto.
      * destruct k; discriminate.
      * discriminate.
    + apply bind_ok in Hs as (s1 & Hs1 & Hs). inversion Hs; subst; clear Hs.
      cbn [conforms map fold_right]. left.
      apply (fn_accepts_lemma v s1 Hvw (sub_from_native_ok _ _ Hs1)).
  - (* bytes *) scalar_start' Hs EV. destruct v as [| | | | |b0| | | | | | | |]; try discriminate.
    inversion Hs; subst. exists b0. split; [reflexivity | cbn; reflexivity].
  - (* uuid *) scalar_start' Hs EV. destruct v as [| | | | | |n0| | | | | | |]; try discriminate.
    inversion Hs; subst.
    destruct Hc as (n1 & E1 & H4 & _). inversion E1; subst n1.
    exists n0. split; [reflexivity|]. split; [exact H4 | cbn; reflexivity].
  - (* datetime *) scalar_start' Hs EV.
    destruct v as [| | | | | | | av uv | | | | | |]; try discriminate. inversion Hs; subst.
    exists av, uv. split; [reflexivity | cbn; reflexivity].
  - (* date *) scalar_start' Hs EV. inversion Hs; subst. destruct Hc as [Hi _].
    split; [exact Hi|]. cbn. apply date_eqb_refl'. exact Hi.
  - (* alias *)
    cbn [substitute] in Hs. apply bind_ok in Hs as (t' & Ht & Hs). inversion Hs; subst.
    cbn [conforms wf choice_free] in *. eapply IHt; eauto.
  - (* custom *)
    cbn [substitute] in Hs. apply bind_ok in Hs as (t' & Ht & Hs). inversion Hs; subst.
    cbn [conforms wf choice_free] in *. eapply IHt; eauto.
Qed.

