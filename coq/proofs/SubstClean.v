(* C12, first half: substitution returns a schema or fails with SubstitutionError - for
   every well-formed schema and EVERY value (conforming or not, convertible or not). *)
From Coq Require Import PrimFloat.
Require Import D42.Prelude D42.PyFloat D42.Value D42.Regex D42.Schema D42.Validate D42.Conforms
               D42.FromNative D42.Substitute.
Require Import D42P.ListLemmas D42P.ScalarSpec D42P.ValueLemmas D42P.ContainerSpec D42P.FromNativeSpec
               D42P.ValidateSpec D42P.ErrorsSpec D42P.SubstLemmas D42P.SubstNarrows.
Open Scope nat_scope.

(* the outcome is a schema or SubstitutionError *)
Definition clean {A} (r : result A) : Prop :=
  match r with Ok _ | Err SubstErr => True | _ => False end.

Lemma clean_bind {A B} (r : result A) (f : A -> result B) :
  clean r -> (forall a, r = Ok a -> clean (f a)) -> clean (bind r f).
Proof. destruct r as [a|[]|]; simpl; auto; contradiction. Qed.

Lemma clean_rmap {A B} (f : A -> B) r : clean r -> clean (rmap f r).
Proof. destruct r as [a|[]|]; simpl; auto. Qed.

Lemma clean_rsequence {A} (l : list (result A)) : Forall clean l -> clean (rsequence l).
Proof.
  induction 1 as [|r l Hr _ IH]; simpl; auto.
  apply clean_bind; auto. intros a _. apply clean_bind; auto. intros; exact I.
Qed.

Lemma sub_from_native_clean v : clean (sub_from_native v).
Proof.
  unfold sub_from_native. destruct (fn_cases v) as [[_ (s & ->)]|[_ ->]]; exact I.
Qed.

Lemma natives_clean l : clean (natives l).
Proof.
  unfold natives. apply clean_rmap, clean_rsequence, Forall_forall.
  intros r Hin. apply in_map_iff in Hin as (x & <- & _). apply sub_from_native_clean.
Qed.

Definition fclean (of : option substfn) : Prop :=
  match of with Some f => forall x, clean (f x) | None => False end.

Lemma subst_run_clean fs l idx : Forall fclean fs -> clean (subst_run fs l idx).
Proof.
  intros H. revert idx. induction H as [|of fs Hf _ IH]; intros idx; cbn [subst_run]; [exact I|].
  destruct (nth_error l idx); [|exact I]. destruct of as [f|]; [|contradiction].
  apply clean_bind; [apply Hf|]. intros s _. apply clean_bind; [apply IH|]. intros; exact I.
Qed.

Lemma subst_elements_clean fs l start : Forall fclean fs -> clean (subst_elements fs l start).
Proof.
  intros H. unfold subst_elements. apply clean_bind; [apply subst_run_clean; auto|].
  intros mid _. apply clean_bind; [apply natives_clean|]. intros suf _.
  apply clean_bind; [apply natives_clean|]. intros; exact I.
Qed.

Lemma first_window_clean fs l idxs : Forall fclean fs -> clean (first_window fs l idxs).
Proof.
  intros H. induction idxs as [|i rest IH]; cbn [first_window]; [exact I|].
  pose proof (subst_elements_clean fs l i H) as Hc.
  destruct (subst_elements fs l i) as [r|[]|e]; simpl in *; auto.
Qed.

Lemma subst_list_elements_clean fs l :
  Forall fclean (middle fs) -> clean (subst_list_elements fs l).
Proof.
  intros H. unfold subst_list_elements. destruct (existsb is_vell l); [exact I|].
  destruct (classify fs); auto using first_window_clean, subst_elements_clean.
Qed.

Lemma native_entries_clean d acc : clean (native_entries d acc).
Proof.
  revert acc. induction d as [|[k x] r IH]; intros acc; cbn [native_entries]; [exact I|].
  apply clean_bind.
  - destruct (is_vell x); [exact I|]. apply clean_rmap, sub_from_native_clean.
  - intros s _. apply IH.
Qed.

Lemma any_subst_clean fs v : Forall (fun f => clean (f v)) fs -> clean (any_subst fs v).
Proof.
  induction 1 as [|f r Hf _ IH]; cbn [any_subst]; [exact I|].
  destruct (f v) as [s|[]|e]; simpl in *; try contradiction; auto.
  apply clean_bind; auto.
Qed.

(* what "no error from the partial validator" says about the kind of the value *)
Lemma subst_valid_type s v t :
  validate Subst s [] v = [] ->
  match s with
  | SBool _ => t = TBool | SInt _ _ _ => t = TInt | SFloat _ _ _ _ => t = TFloat
  | SStr _ _ _ _ _ _ _ => t = TStr | SList _ _ _ _ _ => t = TList | SDict _ => t = TDict
  | SBytes _ => t = TBytes | SUuid _ => t = TUuid | SDatetime _ => t = TDatetime
  | _ => False end ->
  isinst t v = true.
Proof.
  destruct s; intros H Ht; try contradiction; subst t; cbn in H.
  - unfold v_bool in H. destruct (isinst TBool v); auto. discriminate.
  - unfold v_int in H. destruct v; simpl in *; auto; discriminate.
  - unfold v_float in H. destruct v; simpl in *; auto; discriminate.
  - unfold v_str in H. destruct v; simpl in *; auto; discriminate.
  - destruct v; simpl in *; auto; discriminate.
  - destruct v; simpl in *; auto; discriminate.
  - unfold v_bytes in H. destruct (isinst TBytes v); auto. discriminate.
  - unfold v_uuid in H. destruct v; simpl in *; auto; discriminate.
  - unfold v_datetime in H. destruct (isinst TDatetime v); auto. discriminate.
Qed.

Lemma forallb_is_some_Forall {A} (P : option A -> Prop) (l : list (option A)) :
  forallb is_some l = true -> (forall a, P (Some a)) -> Forall P l.
Proof.
  intros H HP. induction l as [|o r IH]; constructor.
  - destruct o; [apply HP | discriminate].
  - apply IH. simpl in H. apply andb_true_iff in H. tauto.
Qed.

Theorem subst_clean_lemma : forall s, wf s = true -> forall v, clean (substitute s v).
Proof.
  induction s as [ | val | val mn mx | val mn mx pr | val len mnl mxl al sub pat
                 | es ty len mnl mxl IHes IHty | ks IHks | ts IHts
                 | val | val | val | val | nm t IHt | t IHt ] using schema_ind';
    intros Hwf v; cbn [substitute];
    try (match goal with
         | |- clean (match validate Subst ?s [] v with _ => _ end) =>
             destruct (validate Subst s [] v) eqn:EV; [|exact I]
         end).
  - exact I.
  - pose proof (subst_valid_type _ _ TBool EV eq_refl). destruct v; try discriminate. exact I.
  - pose proof (subst_valid_type _ _ TInt EV eq_refl). destruct v; try discriminate; exact I.
  - pose proof (subst_valid_type _ _ TFloat EV eq_refl). destruct v; try discriminate. exact I.
  - pose proof (subst_valid_type _ _ TStr EV eq_refl). destruct v; try discriminate. exact I.
  - (* list *)
    pose proof (subst_valid_type _ _ TList EV eq_refl). destruct v as [| | | | | | | | |l| | | |]; try discriminate.
    destruct (negb (length l =? 0) && forallb is_vell l); [exact I|].
    destruct (existsb is_vell (removelast (tl l))); [exact I|].
    cbn [wf] in Hwf. apply andb_true_iff in Hwf as [Hwes Hwty].
    destruct ty as [t|].
    + assert (Hc : clean (rsequence (map (fun x => if is_vell x then Ok None
                                                    else rmap Some (substitute t x)) l))).
      { apply clean_rsequence, Forall_forall. intros r Hin. apply in_map_iff in Hin as (x & <- & _).
        destruct (is_vell x); [exact I|]. apply clean_rmap. apply (IHty t eq_refl Hwty). }
      destruct es; (apply clean_bind; [exact Hc | intros; exact I]).
    + destruct es as [es'|].
      * apply clean_bind; [|intros; exact I].
        apply andb_true_iff in Hwes as [Hew Hwm]. apply forallb_id_map' in Hwm.
        apply subst_list_elements_clean.
        change (map (fun e => match e with Some sch => Some (substitute sch) | None => None end) es')
          with (map (option_map (fun sch => substitute sch)) es').
        rewrite middle_map. unfold elems_wf in Hew.
        specialize (IHes es' eq_refl).
        assert (Hall : Forall (fun o => forall sch, o = Some sch -> forall x, clean (substitute sch x)) es').
        { clear - IHes Hwm. induction IHes as [|o r Ho _ IH]; constructor.
          - inversion Hwm; subst. intros sch -> x. apply (Ho sch eq_refl). assumption.
          - apply IH. inversion Hwm; auto. }
        assert (Hmid : Forall (fun o => forall sch, o = Some sch -> forall x, clean (substitute sch x)) (middle es')).
        { apply Forall_middle. exact Hall. }
        clear - Hew Hmid. induction (middle es') as [|o r IH]; simpl; constructor.
        -- simpl in Hew. apply andb_true_iff in Hew as [Ho _]. destruct o as [sch|]; [|discriminate].
           simpl. intros x. inversion Hmid; subst. eauto.
        -- apply IH; [simpl in Hew; apply andb_true_iff in Hew; tauto | inversion Hmid; auto].
      * apply clean_bind; [|intros; exact I].
        apply clean_rsequence, Forall_forall. intros r Hin. apply in_map_iff in Hin as (x & <- & _).
        destruct (is_vell x); [exact I|]. apply clean_rmap, sub_from_native_clean.
  - (* dict *)
    pose proof (subst_valid_type _ _ TDict EV eq_refl). destruct v as [| | | | | | | | | |d| | |]; try discriminate.
    destruct ks as [ents0|].
    + cbv beta iota zeta.
      match goal with |- clean (if ?c then _ else _) => destruct c eqn:Erel end.
      * apply clean_bind; [apply native_entries_clean | intros; exact I].
      * apply clean_bind; [|intros; exact I].
        unfold subst_dict_entries. destruct (has_key KEll d) eqn:Ehk; [exact I|].
        apply clean_bind.
        2:{ intros ents _. destruct (forallb _ d); exact I. }
        apply clean_rsequence, Forall_forall. intros r Hin. apply in_map_iff in Hin as (e & <- & Hin).
        apply in_map_iff in Hin as (e0 & <- & Hin0).
        cbn [wf] in Hwf. apply andb_true_iff in Hwf as [Hwf Hwm]. apply andb_true_iff in Hwf as [Hshape _].
        apply forallb_id_map' in Hwm. rewrite forallb_forall in Hshape. specialize (Hshape e0 Hin0).
        specialize (IHks ents0 eq_refl). rewrite Forall_forall in IHks, Hwm.
        specialize (IHks e0 Hin0). specialize (Hwm e0 Hin0).
        destruct e0 as [[k o] b]. unfold de_key, de_schema, de_opt in *. simpl in *.
        destruct (assoc k d) as [x|] eqn:Ea; [|exact I].
        destruct (is_vell x); [exact I|].
        destruct o as [sch|].
        -- apply clean_bind; [apply (IHks sch eq_refl Hwm) | intros; exact I].
        -- destruct k; try discriminate. destruct b; try discriminate.
           unfold has_key in Ehk. rewrite Ea in Ehk. discriminate.
    + apply clean_bind; [apply native_entries_clean | intros; exact I].
  - (* any *)
    destruct ts as [ts'|].
    + apply clean_bind.
      * apply any_subst_clean. apply Forall_forall. intros f Hin. apply in_map_iff in Hin as (t & <- & Ht).
        specialize (IHts ts' eq_refl). cbn [wf] in Hwf. apply forallb_id_map' in Hwf.
        rewrite Forall_forall in IHts, Hwf. apply IHts; auto.
      * intros kept _. destruct kept; exact I.
    + apply clean_bind; [apply sub_from_native_clean | intros; exact I].
  - pose proof (subst_valid_type _ _ TBytes EV eq_refl). destruct v; try discriminate. exact I.
  - pose proof (subst_valid_type _ _ TUuid EV eq_refl). destruct v; try discriminate. exact I.
  - pose proof (subst_valid_type _ _ TDatetime EV eq_refl). destruct v; try discriminate. exact I.
  - exact I.
  - apply clean_bind; [apply IHt; exact Hwf | intros; exact I].
  - apply clean_bind; [apply IHt; exact Hwf | intros; exact I].
Qed.
