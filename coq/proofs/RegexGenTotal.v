(* For supported patterns the regex generator returns a string on every tape, whatever the
   iteration order of character sets. *)
From Coq Require Import Permutation.
Require Import D42.Prelude D42.Regex D42.PyRandom D42.RegexGen D42.ReSupported.
Require Import D42P.RandomSpec D42P.RegexGenSpec.
Open Scope N_scope.

Definition total {A} (m : M A) : Prop := returns m (fun _ => True).

Lemma total_bind {A B} (m : M A) (f : A -> M B) :
  total m -> (forall a, total (f a)) -> total (mbind m f).
Proof. intros Hm Hf. eapply returns_bind; [exact Hm|]. intros a _. apply Hf. Qed.

Lemma total_ret {A} (a : A) : total (ret a).
Proof. apply returns_ret. exact I. Qed.

Lemma total_choice {A} (l : list A) : l <> [] -> total (random_choice l).
Proof. intros H. eapply returns_weaken; [apply returns_choice; exact H | auto]. Qed.

Lemma total_randint a b : (a <= b)%Z -> total (random_int a b).
Proof. intros H. eapply returns_weaken; [apply returns_randint; exact H | auto]. Qed.

Lemma total_seq_run gs : Forall total gs -> total (seq_run gs).
Proof.
  induction 1 as [|g gs Hg _ IH]; cbn [seq_run]; [apply total_ret|].
  apply total_bind; auto. intros s. apply total_bind; auto. intros; apply total_ret.
Qed.

Lemma total_mrepeat g n : total g -> total (mrepeat g n).
Proof.
  intros Hg. induction n as [|n IH]; cbn [mrepeat]; [apply total_ret|].
  apply total_bind; auto. intros s. apply total_bind; auto. intros; apply total_ret.
Qed.

Lemma is_nil_false {A} (l : list A) : negb (is_nil l) = true -> l <> [].
Proof. destruct l; simpl; [discriminate | intros _; discriminate]. Qed.

Section Total.
  Variable cfg : gcfg.
  Variable hash_perm : pystr -> pystr.
  Hypothesis Hperm : forall l, Permutation (hash_perm l) l.

  Lemma perm_nonempty l : l <> [] -> hash_perm l <> [].
  Proof.
    intros Hl E. pose proof (Hperm l) as P. rewrite E in P. apply Permutation_nil in P. contradiction.
  Qed.

  Lemma exclude_letters_ok items acc :
    items_supported items = true ->
    exclude_letters cfg items acc = Ok (acc ++ excluded cfg items).
  Proof.
    revert acc. induction items as [|it rest IH]; intros acc Hs; cbn [exclude_letters excluded].
    - rewrite app_nil_r. reflexivity.
    - cbn [items_supported forallb] in Hs. apply andb_true_iff in Hs as [H1 H2].
      destruct it as [c|lo hi|k].
      + rewrite IH by exact H2. rewrite <- app_assoc. reflexivity.
      + rewrite IH by exact H2. rewrite <- app_assoc. reflexivity.
      + destruct k; cbn [category_alphabet bind] in *; try discriminate;
          rewrite IH by exact H2; rewrite <- app_assoc; reflexivity.
  Qed.

  Lemma total_gen_not_in items : neg_total cfg items = true -> total (gen_not_in cfg hash_perm items).
  Proof.
    unfold neg_total. intros H. apply andb_true_iff in H as [Hs Hne]. unfold gen_not_in.
    rewrite (exclude_letters_ok items [] Hs). cbn [app].
    eapply returns_bind; [apply (returns_mlift _ (excluded cfg items) (fun x => x = excluded cfg items)); auto|].
    intros ex ->. apply total_choice. apply perm_nonempty. apply is_nil_false. exact Hne.
  Qed.

  Lemma total_gen_in items :
    negb (is_nil items) && forallb (item_total cfg) items = true -> total (gen_in cfg items).
  Proof.
    intros H. apply andb_true_iff in H as [Hne Hall]. unfold gen_in.
    destruct items as [|i0 rest] eqn:E; [discriminate|]. rewrite <- E in *.
    eapply returns_bind; [apply returns_choice; subst; discriminate|].
    intros it Hin. rewrite forallb_forall in Hall. specialize (Hall it Hin).
    destruct it as [c|lo hi|k]; cbn [item_total] in Hall.
    - apply total_ret.
    - apply total_bind; [|intros; apply total_ret]. apply total_randint. apply N.leb_le in Hall. lia.
    - destruct k; try discriminate; cbn [category_alphabet].
      + eapply returns_bind; [apply (returns_mlift _ (g_digits cfg) (fun x => x = g_digits cfg)); auto|].
        intros a ->. apply total_choice. apply is_nil_false. exact Hall.
      + eapply returns_bind; [apply (returns_mlift _ (g_word cfg) (fun x => x = g_word cfg)); auto|].
        intros a ->. apply total_choice. apply is_nil_false. exact Hall.
  Qed.

  Theorem gen_total : forall r, re_supported cfg r = true -> total (RegexGen.gen cfg hash_perm r).
  Proof.
    induction r as [c|c| |neg items|alts IH|body IH|lz mn mx body IH|k|op] using re_ind';
      intros Hs; cbn [RegexGen.gen]; cbn [re_supported] in Hs.
    - apply total_ret.
    - apply total_bind; [apply total_gen_not_in; exact Hs | intros; apply total_ret].
    - apply total_bind; [apply total_choice; apply is_nil_false; exact Hs | intros; apply total_ret].
    - apply total_bind; [|intros; apply total_ret].
      destruct neg; [apply total_gen_not_in | apply total_gen_in]; exact Hs.
    - apply andb_true_iff in Hs as [Hne Hall]. rewrite forallb_forall in Hall.
      eapply returns_bind with (P := fun g => total g).
      + eapply returns_weaken; [apply returns_choice|].
        * destruct alts; [discriminate | discriminate].
        * intros g Hg. apply in_map_iff in Hg as (alt & <- & Hin).
          apply total_seq_run. apply Forall_forall. intros g Hg. apply in_map_iff in Hg as (r0 & <- & Hr0).
          rewrite Forall_forall in IH. specialize (IH alt Hin). rewrite Forall_forall in IH.
          apply IH; auto. specialize (Hall alt Hin). rewrite forallb_forall in Hall. auto.
      + intros g Hg. exact Hg.
    - apply total_seq_run. rewrite forallb_forall in Hs. apply Forall_forall. intros g Hg.
      apply in_map_iff in Hg as (r0 & <- & Hr0). rewrite Forall_forall in IH. auto.
    - apply andb_true_iff in Hs as [Hrange Hall]. unfold gen_max_repeat.
      apply total_bind.
      + apply total_randint. destruct mx as [m|]; [apply N.leb_le in Hrange; lia | lia].
      + intros count. apply total_mrepeat. apply total_seq_run. rewrite forallb_forall in Hall.
        apply Forall_forall. intros g Hg. apply in_map_iff in Hg as (r0 & <- & Hr0).
        rewrite Forall_forall in IH. auto.
    - apply total_ret.
    - discriminate.
  Qed.

  Theorem gen_re_total p :
    forallb (re_supported cfg) p = true -> total (gen_re cfg hash_perm p).
  Proof.
    intros H. unfold gen_re. apply total_seq_run. rewrite forallb_forall in H.
    apply Forall_forall. intros g Hg. apply in_map_iff in Hg as (r & <- & Hr). apply gen_total. auto.
  Qed.
End Total.
