(* Induction over nested values, key equality, association lists, rsequence. *)
From Coq Require Import PrimFloat.
Require Import D42.Prelude D42.PyFloat D42.Value D42.Schema D42.Validate.
Require Import D42P.ListLemmas D42P.ScalarSpec.

(* ---- induction principle for [value] with premises for the nested occurrences ---- *)
Section ValueInd.
  Variable P : value -> Prop.
  Hypothesis HNone : P VNone.
  Hypothesis HBool : forall b, P (VBool b).
  Hypothesis HInt : forall z, P (VInt z).
  Hypothesis HFloat : forall f, P (VFloat f).
  Hypothesis HStr : forall s, P (VStr s).
  Hypothesis HBytes : forall b, P (VBytes b).
  Hypothesis HUuid : forall n, P (VUuid n).
  Hypothesis HDatetime : forall a us, P (VDatetime a us).
  Hypothesis HDate : forall o, P (VDate o).
  Hypothesis HList : forall l, Forall P l -> P (VList l).
  Hypothesis HDict : forall d, Forall (fun kv => P (snd kv)) d -> P (VDict d).
  Hypothesis HEll : P VEllipsis.
  Hypothesis HNil : P VNil.
  Hypothesis HOther : forall t, P (VOther t).

  Fixpoint value_ind' (v : value) : P v :=
    match v with
    | VNone => HNone
    | VBool b => HBool b
    | VInt z => HInt z
    | VFloat f => HFloat f
    | VStr s => HStr s
    | VBytes b => HBytes b
    | VUuid n => HUuid n
    | VDatetime a us => HDatetime a us
    | VDate o => HDate o
    | VList l =>
        HList l ((fix go (l : list value) : Forall P l :=
                    match l with
                    | [] => Forall_nil _
                    | x :: r => Forall_cons x (value_ind' x) (go r) end) l)
    | VDict d =>
        HDict d ((fix go (d : list (key * value)) : Forall (fun kv => P (snd kv)) d :=
                    match d with
                    | [] => Forall_nil _
                    | kv :: r => Forall_cons kv (value_ind' (snd kv)) (go r) end) d)
    | VEllipsis => HEll
    | VNil => HNil
    | VOther t => HOther t
    end.
End ValueInd.

(* ---- keys ---- *)
Lemma key_eqb_eq a b : key_eqb a b = true <-> a = b.
Proof.
  destruct a, b; simpl; try (split; [discriminate | intros H; discriminate]); try (split; auto; fail).
  - rewrite str_eqb_eq. split; [intros ->; auto | intros H; inversion H; auto].
  - rewrite Z.eqb_eq. split; [intros ->; auto | intros H; inversion H; auto].
  - rewrite bytes_eqb_eq. split; [intros ->; auto | intros H; inversion H; auto].
  - rewrite N.eqb_eq. split; [intros ->; auto | intros H; inversion H; auto].
Qed.

Lemma key_eqb_refl k : key_eqb k k = true.
Proof. apply key_eqb_eq. reflexivity. Qed.

Lemma key_eqb_neq a b : key_eqb a b = false <-> a <> b.
Proof.
  split.
  - intros H E. apply key_eqb_eq in E. congruence.
  - intros H. destruct (key_eqb a b) eqn:E; auto. apply key_eqb_eq in E. contradiction.
Qed.

Lemma assoc_In {V} k (d : list (key * V)) x : assoc k d = Some x -> In (k, x) d.
Proof.
  induction d as [|[k' y] r IH]; simpl; [discriminate|].
  destruct (key_eqb k k') eqn:E.
  - apply key_eqb_eq in E. subst. intros H; inversion H; auto.
  - intros H. right. auto.
Qed.

Lemma assoc_None {V} k (d : list (key * V)) : assoc k d = None <-> ~ In k (map fst d).
Proof.
  induction d as [|[k' y] r IH]; simpl.
  - split; auto.
  - destruct (key_eqb k k') eqn:E.
    + apply key_eqb_eq in E. subst. split; [discriminate | intros H; exfalso; apply H; auto].
    + apply key_eqb_neq in E. rewrite IH. split.
      * intros H [H1|H1]; [congruence | contradiction].
      * intros H H1. apply H. auto.
Qed.

Lemma nodup_keys_NoDup l : nodup_keys l = true <-> NoDup l.
Proof.
  induction l as [|k r IH]; simpl.
  - split; [constructor | auto].
  - rewrite andb_true_iff, negb_true_iff, IH. split.
    + intros [H1 H2]. constructor; auto. intros Hin.
      assert (existsb (key_eqb k) r = true); [|congruence].
      apply existsb_exists. exists k. split; auto. apply key_eqb_refl.
    + intros H. inversion H; subst. split; auto.
      destruct (existsb (key_eqb k) r) eqn:E; auto.
      apply existsb_exists in E as (x & Hx & Ex). apply key_eqb_eq in Ex. subst. contradiction.
Qed.

Lemma assoc_NoDup_In {V} k (x : V) d :
  NoDup (map fst d) -> In (k, x) d -> assoc k d = Some x.
Proof.
  induction d as [|[k' y] r IH]; simpl; [contradiction|].
  intros Hnd [H|H].
  - inversion H; subst. rewrite key_eqb_refl. reflexivity.
  - inversion Hnd; subst. destruct (key_eqb k k') eqn:E.
    + apply key_eqb_eq in E. subst. exfalso. apply H2. apply in_map_iff. exists (k', x). auto.
    + auto.
Qed.

Lemma has_key_In {V} k (d : list (key * V)) : has_key k d = true <-> In k (map fst d).
Proof.
  unfold has_key, is_some, is_none. destruct (assoc k d) eqn:E; simpl.
  - split; auto. intros _. apply assoc_In in E. apply in_map_iff. exists (k, v). auto.
  - split; [discriminate|]. intros H. apply assoc_None in E. contradiction.
Qed.

Lemma declared_In {A} k (fs : list (key * A)) : declared k fs = true <-> In k (map fst fs).
Proof.
  unfold declared. rewrite existsb_exists. split.
  - intros (e & He & E). apply key_eqb_eq in E. subst. apply in_map. exact He.
  - intros H. apply in_map_iff in H as (e & <- & He). exists e. split; auto. apply key_eqb_refl.
Qed.

(* ---- rsequence ---- *)
Lemma rsequence_ok {A B} (f : A -> result B) l r :
  rsequence (map f l) = Ok r -> Forall2 (fun x y => f x = Ok y) l r.
Proof.
  revert r. induction l as [|x l IH]; simpl; intros r H.
  - inversion H. constructor.
  - destruct (f x) as [y| |] eqn:E; simpl in H; try discriminate.
    destruct (rsequence (map f l)) as [r'| |] eqn:E2; simpl in H; try discriminate.
    inversion H; subst. constructor; auto.
Qed.

Lemma rsequence_all_ok {A B} (f : A -> result B) l :
  Forall (fun x => exists y, f x = Ok y) l -> exists r, rsequence (map f l) = Ok r.
Proof.
  induction 1 as [|x l (y & Hy) _ (r & Hr)]; simpl.
  - eexists; reflexivity.
  - rewrite Hy, Hr. simpl. eexists; reflexivity.
Qed.

Lemma rsequence_ok_iff {A B} (f : A -> result B) l r :
  rsequence (map f l) = Ok r <-> Forall2 (fun x y => f x = Ok y) l r.
Proof.
  split; [apply rsequence_ok|].
  induction 1 as [|x y l r Hxy _ IH]; simpl; auto.
  rewrite Hxy, IH. reflexivity.
Qed.

Lemma forallb_id_map' {A} (f : A -> bool) l :
  forallb (fun x => x) (map f l) = true <-> Forall (fun a => f a = true) l.
Proof.
  induction l as [|a r IH]; simpl; [split; auto|].
  rewrite andb_true_iff, IH. split; [intros [? ?]; auto | intros H; inversion H; auto].
Qed.

(* ---- element lists without markers ---- *)
Lemma first_ell_map_Some {A} (l : list A) : first_ell (map Some l) = false.
Proof. destruct l; reflexivity. Qed.

Lemma last_ell_map_Some {A} (l : list A) : last_ell (map Some l) = false.
Proof.
  unfold last_ell. rewrite <- map_rev. destruct (rev l); reflexivity.
Qed.

Lemma classify_map_Some {A} (l : list A) : classify (map Some l) = FExact.
Proof.
  unfold classify. rewrite first_ell_map_Some, last_ell_map_Some.
  rewrite !andb_false_r. reflexivity.
Qed.

Lemma middle_map_Some {A} (l : list A) : middle (map Some l) = map Some l.
Proof. unfold middle. rewrite classify_map_Some. reflexivity. Qed.

Lemma strip_map_Some {A} (l : list A) : strip (map Some l) = l.
Proof. induction l; simpl; congruence. Qed.

Lemma elems_wf_map_Some {A} (l : list A) : elems_wf (map Some l) = true.
Proof.
  unfold elems_wf. rewrite middle_map_Some. induction l; simpl; auto.
Qed.
