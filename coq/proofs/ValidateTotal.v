(* C08: on well-formed schemas the faithful (partial) validator never raises, for any
   value whatsoever, and computes exactly the total function [validate]. *)
From Coq Require Import PrimFloat.
Require Import D42.Prelude D42.PyFloat D42.Value D42.Regex D42.Schema D42.Validate.
Require Import D42P.ListLemmas D42P.ContainerSpec D42P.ValidateSpec.
Open Scope Z_scope.

Definition okR (fR : elemfnR) (f : elemfn) : Prop := forall p x, fR p x = Ok (f p x).
Definition relR (fR : option elemfnR) (f : option elemfn) : Prop :=
  match fR, f with
  | Some a, Some b => okR a b
  | None, None => True
  | _, _ => False end.

(* ---------------- scalars ---------------- *)
Lemma vr_int_total val mn mx p v : vr_int val mn mx p v = Ok (v_int val mn mx p v).
Proof.
  unfold vr_int, v_int.
  destruct v as [|b|z| | | | | | | | | | |]; simpl; try reflexivity.
  - destruct (match val with Some e => check_value p (VBool b) (of_intv e) | None => [] end);
      [|destruct b; reflexivity].
    destruct b; destruct mn, mx; reflexivity.
  - destruct (match val with Some e => check_value p (VInt z) (of_intv e) | None => [] end); [|reflexivity].
    destruct mn, mx; reflexivity.
Qed.

Lemma prec_total x e pr :
  catch_ov (do a <- r_round_scaled x pr; do b <- r_round_scaled e pr; Ok (a =? b))
           (Ok (PrimFloat.eqb x e)) = Ok (prec_equal x e pr).
Proof.
  unfold prec_equal, r_round_scaled.
  destruct (py_round (PrimFloat.mul x (scale10 pr))) as [a|]; simpl.
  - destruct (py_round (PrimFloat.mul e (scale10 pr))) as [b|]; simpl; [reflexivity|].
    destruct (is_nan _); reflexivity.
  - destruct (is_nan _); reflexivity.
Qed.

Lemma vr_float_total val mn mx pr p v :
  vr_float val mn mx pr p v = Ok (v_float val mn mx pr p v).
Proof.
  unfold vr_float, v_float.
  destruct v as [| | |x| | | | | | | | | |]; simpl; try reflexivity.
  destruct val as [e|]; simpl.
  - unfold float_value_ok. destruct (is_nan x || is_nan e); simpl.
    + destruct (is_nan x && is_nan e); simpl; [|reflexivity]. destruct mn, mx; reflexivity.
    + destruct pr as [pr|]; simpl.
      * rewrite prec_total. simpl. destruct (prec_equal x e (iz pr)); simpl; [|reflexivity].
        destruct mn, mx; reflexivity.
      * destruct (isclose x e); simpl; [|reflexivity]. destruct mn, mx; reflexivity.
  - destruct mn, mx; reflexivity.
Qed.

Lemma vr_str_total val len mnl mxl al sub pat p v :
  pat_ok pat = true ->
  vr_str val len mnl mxl al sub pat p v = Ok (v_str val len mnl mxl al sub pat p v).
Proof.
  intros Hpat. unfold vr_str, v_str.
  destruct v as [| | | |s| | | | | | | | |]; simpl; try reflexivity.
  destruct (match val with Some e => check_value p (VStr s) (VStr e) | None => [] end); [|reflexivity].
  assert (Hp : (match pat with
                | None => Ok []
                | Some pt => match searchb (snd pt) s with
                             | Some b => Ok (if b then [] else [VE (ERegex pt) p (VStr s)])
                             | None => Raise OtherExn end end)
               = Ok (match pat with
                     | Some pt => if pat_search pt s then [] else [VE (ERegex pt) p (VStr s)]
                     | None => [] end)).
  { destruct pat as [pt|]; [|reflexivity]. unfold pat_search. simpl in Hpat.
    destruct pt as [src tree]. simpl in *. unfold re_modelled, searchb in *.
    destruct (search_rx tree); simpl in *; [reflexivity | discriminate]. }
  rewrite Hp. simpl.
  destruct (match pat with Some pt => if pat_search pt s then [] else [VE (ERegex pt) p (VStr s)] | None => [] end);
    [|reflexivity].
  assert (Hl : (match len, mnl, mxl with
                | None, None, None => Ok []
                | _, _, _ => Ok (check_len p (VStr s) (zlen s) len mnl mxl) end)
               = Ok (check_len p (VStr s) (zlen s) len mnl mxl)).
  { destruct len, mnl, mxl; reflexivity. }
  rewrite Hl. simpl. destruct sub, al; reflexivity.
Qed.

Lemma vr_uuid_total val p v : vr_uuid val p v = Ok (v_uuid val p v).
Proof.
  unfold vr_uuid, v_uuid.
  destruct v as [| | | | | |n| | | | | | |]; simpl; try reflexivity.
  unfold uuid_is_v4. destruct (uuid_version n) as [k|]; [|reflexivity].
  destruct k as [|k]; [reflexivity|].
  destruct k as [k|k|]; try reflexivity.
  destruct k as [k|k|]; try reflexivity.
  destruct k as [k|k|]; reflexivity.
Qed.

(* ---------------- containers ---------------- *)
Lemma velemsR_total fRs fs p l idx :
  Forall2 okR fRs fs -> velemsR fRs p l idx = Ok (velems fs p l idx).
Proof.
  intros H. revert idx. induction H as [|fR f fRs fs Hf H IH]; intros idx; cbn [velemsR velems]; [reflexivity|].
  destruct (nth_error l idx) as [x|]; [|reflexivity].
  rewrite Hf, IH. reflexivity.
Qed.

Lemma rsequence_map_ok {A B} (g : A -> result B) (h : A -> B) l :
  (forall a, g a = Ok (h a)) -> rsequence (map g l) = Ok (map h l).
Proof.
  intros H. induction l as [|a r IH]; simpl; [reflexivity|]. rewrite H, IH. reflexivity.
Qed.

Lemma relR_first_ell fR f : Forall2 relR fR f -> first_ell fR = first_ell f.
Proof. destruct 1 as [|a b ? ? Hab]; auto. destruct a, b; simpl in *; try contradiction; auto. Qed.
Lemma relR_last_ell fR f : Forall2 relR fR f -> last_ell fR = last_ell f.
Proof. intros H. unfold last_ell. apply Forall2_rev in H. apply relR_first_ell in H. exact H. Qed.
Lemma relR_classify fR f : Forall2 relR fR f -> classify fR = classify f.
Proof.
  intros H. unfold classify.
  rewrite (Forall2_len _ _ _ H), (relR_first_ell _ _ H), (relR_last_ell _ _ H).
  reflexivity.
Qed.
Lemma relR_middle fR f : Forall2 relR fR f -> Forall2 relR (middle fR) (middle f).
Proof.
  intros H. unfold middle. rewrite (relR_classify _ _ H).
  destruct (classify f); auto using Forall2_tl, Forall2_removelast.
Qed.
Lemma relR_strip fR f :
  Forall2 relR fR f -> forallb is_some f = true -> Forall2 okR (map of_optR fR) (strip f).
Proof.
  induction 1 as [|a b fR f Hab H IH]; simpl; intros Hs; auto.
  destruct a, b; simpl in *; try contradiction; try discriminate. constructor; auto.
Qed.

Lemma list_logicR_total fR f p l :
  Forall2 relR fR f -> elems_wf f = true -> list_logicR fR p l = Ok (list_logic f p l).
Proof.
  intros H Hwf. unfold list_logicR, list_logic.
  pose proof (relR_middle _ _ H) as Hm.
  pose proof (relR_strip _ _ Hm Hwf) as Hs.
  rewrite (relR_classify _ _ H), (Forall2_len _ _ _ H).
  rewrite map_length, (Forall2_len _ _ _ Hm).
  destruct (classify f).
  - destruct l as [|x l0]; [apply velemsR_total; exact Hs|].
    rewrite (rsequence_map_ok _ (fun i => velems (strip (middle f)) p (x :: l0) i)).
    + reflexivity.
    + intros i. apply velemsR_total. exact Hs.
  - apply velemsR_total. exact Hs.
  - apply velemsR_total. exact Hs.
  - rewrite (velemsR_total _ _ _ _ _ Hs). reflexivity.
Qed.

Lemma typed_logicR_total m fR f p l :
  okR fR f -> typed_logicR m fR p l = Ok (typed_logic m f p l).
Proof.
  intros Hf. unfold typed_logicR, typed_logic.
  rewrite (rsequence_map_ok _ (fun ix => if skip_ell m (fst ix) (length l) (snd ix) then []
                                         else f (p ++ [KInt (Z.of_nat (fst ix))]) (snd ix))).
  - simpl. rewrite flat_map_concat_map. reflexivity.
  - intros [i x]. simpl. destruct (skip_ell m i (length l) x); [reflexivity | apply Hf].
Qed.

Definition relRd (a : key * (option elemfnR * bool)) (b : key * (option elemfn * bool)) : Prop :=
  fst a = fst b /\ snd (snd a) = snd (snd b) /\ relR (fst (snd a)) (fst (snd b)) /\
  (is_kell (fst b) = false -> is_some (fst (snd b)) = true).

Lemma dict_membersR_total m fR f p d :
  Forall2 relRd fR f -> dict_membersR m fR p d = Ok (dict_members m f p d).
Proof.
  intros H. unfold dict_membersR, dict_members.
  assert (G : rsequence (map (fun e : key * (option elemfnR * bool) =>
          let '(k, (f, opt)) := e in
          if is_kell k then Ok [] else
          match assoc k d with
          | Some x => match m, x with Subst, VEllipsis => Ok [] | _, _ => of_optR f (p ++ [k]) x end
          | None => match m with Plain => Ok (if opt then [] else [VE (EMissingKey k) p (VDict d)]) | Subst => Ok [] end
          end) fR)
       = Ok (map (fun e : key * (option elemfn * bool) =>
          let '(k, (f, opt)) := e in
          if is_kell k then [] else
          match assoc k d with
          | Some x => match m, x with Subst, VEllipsis => [] | _, _ => match f with Some f => f (p ++ [k]) x | None => [] end end
          | None => match m with Plain => if opt then [] else [VE (EMissingKey k) p (VDict d)] | Subst => [] end
          end) f)).
  { induction H as [|[k [a o]] [k' [b o']] fR f (Hk & Ho & Hr & Hsh) H IH]; simpl in *; [reflexivity|].
    subst k' o'.
    assert (Hd : (if is_kell k then Ok [] else
                  match assoc k d with
                  | Some x => match m, x with Subst, VEllipsis => Ok [] | _, _ => of_optR a (p ++ [k]) x end
                  | None => match m with Plain => Ok (if o then [] else [VE (EMissingKey k) p (VDict d)]) | Subst => Ok [] end
                  end)
                 = Ok (if is_kell k then [] else
                       match assoc k d with
                       | Some x => match m, x with Subst, VEllipsis => [] | _, _ => match b with Some f => f (p ++ [k]) x | None => [] end end
                       | None => match m with Plain => if o then [] else [VE (EMissingKey k) p (VDict d)] | Subst => [] end
                       end)).
    { destruct (is_kell k); [reflexivity|]. specialize (Hsh eq_refl).
      destruct b as [b|]; [|discriminate]. destruct a as [a|]; [|contradiction]. simpl in Hr.
      destruct (assoc k d) as [x|].
      - destruct m; [apply Hr|]. destruct x; try apply Hr. reflexivity.
      - destruct m; reflexivity. }
    rewrite Hd. simpl. rewrite IH. reflexivity. }
  rewrite G. simpl. rewrite flat_map_concat_map. reflexivity.
Qed.

Lemma relRd_declared fR f k : Forall2 relRd fR f -> declared k fR = declared k f.
Proof. induction 1 as [|a b fR f (Hk & _) H IH]; simpl; auto. rewrite Hk, IH. reflexivity. Qed.

Lemma dict_extras_ext {A B} (fR : list (key * A)) (f : list (key * B)) p d :
  (forall k, declared k fR = declared k f) -> dict_extras fR p d = dict_extras f p d.
Proof.
  intros H. unfold dict_extras. rewrite H. destruct (declared KEll f); [reflexivity|].
  apply flat_map_ext. intros [k x]. simpl. rewrite H. reflexivity.
Qed.

Lemma any_logicR_total ts fR f p v :
  Forall2 okR fR f -> any_logicR ts fR p v = Ok (any_logic ts f p v).
Proof.
  intros H. unfold any_logic.
  induction H as [|a b fR f Hab H IH]; simpl; [reflexivity|].
  rewrite Hab. simpl. destruct (b p v); simpl; [reflexivity|]. exact IH.
Qed.

(* ---------------- the theorem ---------------- *)
Theorem validate_total_lemma :
  forall m s, wf s = true -> forall p v, validateR m s p v = Ok (validate m s p v).
Proof.
  intros m.
  induction s as [ | val | val mn mx | val mn mx pr | val len mnl mxl al sub pat
                 | es ty len mnl mxl IHes IHty | ks IHks | ts IHts
                 | val | val | val | val | nm t IHt | t IHt ] using schema_ind';
    intros Hwf p v; cbn [validateR validate]; try reflexivity.
  - apply vr_int_total.
  - apply vr_float_total.
  - apply vr_str_total. exact Hwf.
  - (* list *)
    destruct v as [| | | | | | | | |l| | | |]; simpl; try reflexivity.
    destruct (check_len_first p (VList l) (zlen l) len mnl mxl); [|reflexivity].
    cbn [wf] in Hwf. apply andb_true_iff in Hwf as [Hwes Hwty].
    destruct ty as [t|].
    + apply typed_logicR_total. intros p0 x. apply (IHty t eq_refl Hwty).
    + destruct es as [es'|]; [|reflexivity].
      apply andb_true_iff in Hwes as [Hew Hwm]. apply forallb_id_map in Hwm.
      apply list_logicR_total.
      * specialize (IHes es' eq_refl). clear - IHes Hwm.
        induction IHes as [|o r Ho _ IH]; simpl; constructor.
        -- inversion Hwm; subst. destruct o as [sch|]; simpl; auto.
           intros p x. apply (Ho sch eq_refl). assumption.
        -- apply IH. inversion Hwm; auto.
      * change (elems_wf (map (option_map (validate m)) es') = true).
        rewrite elems_wf_map. exact Hew.
  - (* dict *)
    destruct v as [| | | | | | | | | |d| | |]; simpl; try reflexivity.
    destruct ks as [ents|]; [|reflexivity].
    cbn [wf] in Hwf. apply andb_true_iff in Hwf as [Hwf Hwm]. apply andb_true_iff in Hwf as [Hsh Hnd].
    apply forallb_id_map in Hwm. specialize (IHks ents eq_refl).
    assert (HR : Forall2 relRd
                   (map (fun e : dentry => (de_key e, (match de_schema e with Some sch => Some (validateR m sch) | None => None end, de_opt e))) ents)
                   (map (fun e : dentry => (de_key e, (match de_schema e with Some sch => Some (validate m sch) | None => None end, de_opt e))) ents)).
    { rewrite forallb_forall in Hsh. clear - IHks Hwm Hsh.
      induction IHks as [|e r He _ IH]; simpl; constructor.
      - inversion Hwm; subst. unfold relRd. simpl. repeat split.
        + destruct (de_schema e) as [sch|] eqn:Es; simpl; auto.
          unfold okR. intros p0 x0. apply (He sch eq_refl). assumption.
        + intros Hk. specialize (Hsh e (or_introl eq_refl)).
          destruct e as [[k o] b]. unfold de_key, de_schema in *. simpl in *.
          destruct k, o; simpl in *; try reflexivity; try discriminate.
      - apply IH; [intros x Hx; apply Hsh; right; exact Hx | inversion Hwm; auto]. }
    rewrite (dict_membersR_total _ _ _ _ _ HR). cbn [bind]. unfold dict_logic.
    f_equal. f_equal. apply dict_extras_ext. intros k. apply relRd_declared. exact HR.
  - (* any *)
    destruct ts as [ts'|]; [|reflexivity].
    cbn [wf] in Hwf. apply forallb_id_map in Hwf. specialize (IHts ts' eq_refl).
    apply any_logicR_total. clear - IHts Hwf.
    induction IHts as [|t r Ht _ IH]; simpl; constructor.
    + inversion Hwf; subst. intros p x. apply Ht. assumption.
    + apply IH. inversion Hwf; auto.
  - apply vr_uuid_total.
  - apply IHt. exact Hwf.
  - apply IHt. exact Hwf.
Qed.
