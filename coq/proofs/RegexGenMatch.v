(* The declarative semantics [matches] of theories/RegexGen.v against the executable
   derivative matcher of D42.Regex (the one the validator model uses):
     rx_match_L                 rx_match r s = true <-> s in the language of r
     to_rx_matches              to_rx r = Some x -> (L x s <-> matches r s)
     matches_top_iff_fullmatchb re_modelled p -> (matches_top p s <-> fullmatchb p s = Some true)
     fullmatch_search           fullmatchb p s = Some true -> searchb p s = Some true
     regen_validates_lemma      generated strings pass the validator's re.search *)
From Coq Require Import Permutation.
Require Import D42.Prelude D42.Regex D42.PyRandom D42.RegexGen.
Require Import D42P.RegexGenSpec.
Open Scope N_scope.

(* ------------------------------------------------------------------ languages *)
Inductive star (P : pystr -> Prop) : pystr -> Prop :=
| star_nil : star P []
| star_app s1 s2 : P s1 -> star P s2 -> star P (s1 ++ s2).

Fixpoint L (r : rx) (s : pystr) : Prop :=
  match r with
  | Void => False
  | Eps => s = []
  | Chr cs => exists c, s = [c] /\ cset_mem cs c = true
  | Cat a b => exists s1 s2, s = s1 ++ s2 /\ L a s1 /\ L b s2
  | Alt a b => L a s \/ L b s
  | Star a => star (L a) s
  end.

Fixpoint lpow (P : pystr -> Prop) (n : nat) (s : pystr) : Prop :=
  match n with
  | O => s = []
  | S k => exists s1 s2, s = s1 ++ s2 /\ P s1 /\ lpow P k s2 end.

Lemma L_Cat_Void_l b s : L (Cat Void b) s <-> False.
Proof. cbn [L]. split; [intros (s1 & s2 & _ & [] & _)|tauto]. Qed.
Lemma L_Cat_Void_r a s : L (Cat a Void) s <-> False.
Proof. cbn [L]. split; [intros (s1 & s2 & _ & _ & [])|tauto]. Qed.
Lemma L_Cat_Eps_l b s : L (Cat Eps b) s <-> L b s.
Proof.
  cbn [L]. split.
  - intros (s1 & s2 & -> & -> & H). exact H.
  - intros H. exists [], s. auto.
Qed.
Lemma L_Cat_Eps_r a s : L (Cat a Eps) s <-> L a s.
Proof.
  cbn [L]. split.
  - intros (s1 & s2 & -> & H & ->). rewrite app_nil_r. exact H.
  - intros H. exists s, []. rewrite app_nil_r. auto.
Qed.

Lemma L_mkCat a b s : L (mkCat a b) s <-> L (Cat a b) s.
Proof.
  destruct a, b; cbn [mkCat];
    first [ reflexivity
          | rewrite L_Cat_Void_l; reflexivity
          | rewrite L_Cat_Void_r; reflexivity
          | rewrite L_Cat_Eps_l; reflexivity
          | rewrite L_Cat_Eps_r; reflexivity ].
Qed.

Lemma L_mkAlt a b s : L (mkAlt a b) s <-> L (Alt a b) s.
Proof. destruct a, b; cbn [mkAlt L]; tauto. Qed.

Lemma nullable_L r : nullable r = true <-> L r [].
Proof.
  induction r as [| |cs|a IHa b IHb|a IHa b IHb|a IHa]; cbn [nullable L].
  - split; [discriminate|tauto].
  - split; auto.
  - split; [discriminate|]. intros (c & H & _). discriminate.
  - rewrite andb_true_iff, IHa, IHb. split.
    + intros [Ha Hb]. exists [], []. auto.
    + intros (s1 & s2 & E & Ha & Hb). symmetry in E. apply app_eq_nil in E as [-> ->]. auto.
  - rewrite orb_true_iff, IHa, IHb. tauto.
  - split; [intros _; constructor|reflexivity].
Qed.

Lemma star_cons_inv P c s :
  star P (c :: s) -> exists s1 s2, s = s1 ++ s2 /\ P (c :: s1) /\ star P s2.
Proof.
  intros H. remember (c :: s) as w eqn:E. revert c s E.
  induction H as [|s1 s2 H1 H2 IH]; intros c s E; [discriminate|].
  destruct s1 as [|x s1'].
  - cbn [app] in E. apply IH. exact E.
  - cbn [app] in E. inversion E; subst. exists s1', s2. auto.
Qed.

Lemma deriv_L c r : forall s, L (deriv c r) s <-> L r (c :: s).
Proof.
  induction r as [| |cs|a IHa b IHb|a IHa b IHb|a IHa]; intros s; cbn [deriv].
  - cbn [L]. tauto.
  - cbn [L]. split; [tauto|discriminate].
  - destruct (cset_mem cs c) eqn:E; cbn [L].
    + split.
      * intros ->. exists c. auto.
      * intros (c' & H & _). inversion H. reflexivity.
    + split; [tauto|]. intros (c' & H & Hm). inversion H; subst. congruence.
  - assert (Hcat : L (mkCat (deriv c a) b) s <->
                   exists s1 s2, s = s1 ++ s2 /\ L a (c :: s1) /\ L b s2).
    { rewrite L_mkCat. cbn [L]. split.
      - intros (s1 & s2 & E & Ha & Hb). exists s1, s2. rewrite <- IHa. auto.
      - intros (s1 & s2 & E & Ha & Hb). exists s1, s2. rewrite IHa. auto. }
    destruct (nullable a) eqn:En.
    + rewrite L_mkAlt. cbn [L]. fold (L (mkCat (deriv c a) b) s). rewrite Hcat, IHb. split.
      * intros [(s1 & s2 & -> & Ha & Hb)|Hb].
        -- exists (c :: s1), s2. auto.
        -- exists [], (c :: s). apply nullable_L in En. auto.
      * intros (s1 & s2 & E & Ha & Hb). destruct s1 as [|x s1'].
        -- cbn [app] in E. subst s2. right. exact Hb.
        -- cbn [app] in E. inversion E; subst. left. exists s1', s2. auto.
    + rewrite Hcat. cbn [L]. split.
      * intros (s1 & s2 & -> & Ha & Hb). exists (c :: s1), s2. auto.
      * intros (s1 & s2 & E & Ha & Hb). destruct s1 as [|x s1'].
        -- apply nullable_L in Ha. congruence.
        -- cbn [app] in E. inversion E; subst. exists s1', s2. auto.
  - rewrite L_mkAlt. cbn [L]. rewrite IHa, IHb. tauto.
  - rewrite L_mkCat. cbn [L]. split.
    + intros (s1 & s2 & -> & Ha & Hs). apply IHa in Ha.
      change (c :: s1 ++ s2) with ((c :: s1) ++ s2). constructor; assumption.
    + intros H. apply star_cons_inv in H as (s1 & s2 & -> & Ha & Hs).
      exists s1, s2. rewrite IHa. auto.
Qed.

Theorem rx_match_L s : forall r, rx_match r s = true <-> L r s.
Proof.
  induction s as [|c s IH]; intros r; cbn [rx_match].
  - apply nullable_L.
  - rewrite IH. apply deriv_L.
Qed.

(* ------------------------------------------------------------------ powers *)
Lemma L_rx_pow b n : forall s, L (rx_pow b n) s <-> lpow (L b) n s.
Proof.
  induction n as [|k IH]; intros s; cbn [rx_pow lpow].
  - cbn [L]. tauto.
  - rewrite L_mkCat. cbn [L]. split; intros (s1 & s2 & E & H1 & H2); exists s1, s2;
      (split; [exact E|split; [exact H1|apply IH; exact H2]]).
Qed.

Lemma lpow_app P a b : forall s1 s2, lpow P a s1 -> lpow P b s2 -> lpow P (a + b) (s1 ++ s2).
Proof.
  induction a as [|a IH]; intros s1 s2 H1 H2; cbn [lpow plus] in *.
  - subst. exact H2.
  - destruct H1 as (u & v & -> & Hu & Hv). exists u, (v ++ s2). rewrite app_assoc. auto.
Qed.

Lemma lpow_split P a b : forall s, lpow P (a + b) s ->
  exists s1 s2, s = s1 ++ s2 /\ lpow P a s1 /\ lpow P b s2.
Proof.
  induction a as [|a IH]; intros s H; cbn [lpow plus] in *.
  - exists [], s. auto.
  - destruct H as (u & v & -> & Hu & Hv). apply IH in Hv as (s1 & s2 & -> & H1 & H2).
    exists (u ++ s1), s2. rewrite app_assoc. split; [reflexivity|]. split; [|exact H2].
    exists u, s1. auto.
Qed.

Lemma lpow_star P n : forall s, lpow P n s -> star P s.
Proof.
  induction n as [|k IH]; intros s H; cbn [lpow] in H.
  - subst. constructor.
  - destruct H as (u & v & -> & Hu & Hv). constructor; auto.
Qed.

Lemma star_lpow P s : star P s -> exists n, lpow P n s.
Proof.
  induction 1 as [|s1 s2 H1 _ [n IH]].
  - exists O. reflexivity.
  - exists (S n). exists s1, s2. auto.
Qed.

(* up to j optional copies *)
Lemma lpow_opt_intro P k j : (k <= j)%nat -> forall s,
  lpow P k s -> lpow (fun w => w = [] \/ P w) j s.
Proof.
  revert k. induction j as [|j IH]; intros k Hk s H.
  - assert (k = O) by lia. subst. exact H.
  - destruct k as [|k].
    + cbn [lpow] in H. subst. exists [], []. split; [reflexivity|]. split; [left; reflexivity|].
      apply (IH O); [lia|reflexivity].
    + cbn [lpow] in H. destruct H as (u & v & -> & Hu & Hv).
      exists u, v. split; [reflexivity|]. split; [right; exact Hu|]. apply (IH k); [lia|exact Hv].
Qed.

Lemma lpow_opt_elim P j : forall s,
  lpow (fun w => w = [] \/ P w) j s -> exists k, (k <= j)%nat /\ lpow P k s.
Proof.
  induction j as [|j IH]; intros s H; cbn [lpow] in H.
  - exists O. split; [lia|exact H].
  - destruct H as (u & v & -> & [->|Hu] & Hv); apply IH in Hv as (k & Hk & Hv).
    + exists k. split; [lia|exact Hv].
    + exists (S k). split; [lia|]. exists u, v. auto.
Qed.

Lemma lpow_ext (P Q : pystr -> Prop) n : (forall s, P s <-> Q s) -> forall s, lpow P n s <-> lpow Q n s.
Proof.
  intros HPQ. induction n as [|k IH]; intros s; cbn [lpow]; [tauto|].
  split; intros (u & v & E & Hu & Hv); exists u, v; (split; [exact E|]); split;
    try (apply HPQ; exact Hu); apply IH; exact Hv.
Qed.

(* ------------------------------------------------------------------ sequences, alternatives *)
Lemma rx_seq_cons o l x :
  rx_seq (o :: l) = Some x -> exists a b, o = Some a /\ rx_seq l = Some b /\ x = mkCat a b.
Proof.
  unfold rx_seq. cbn [fold_right]. fold (rx_seq l).
  destruct o as [a|]; [|discriminate]. destruct (rx_seq l) as [b|]; [|discriminate].
  intros H. inversion H. eauto.
Qed.

Lemma rx_alts_cons o l x :
  rx_alts (o :: l) = Some x -> exists a b, o = Some a /\ rx_alts l = Some b /\ x = mkAlt a b.
Proof.
  unfold rx_alts. cbn [fold_right]. fold (rx_alts l).
  destruct o as [a|]; [|discriminate]. destruct (rx_alts l) as [b|]; [|discriminate].
  intros H. inversion H. eauto.
Qed.

Scheme matches_min := Minimality for matches Sort Prop
  with matches_seq_min := Minimality for matches_seq Sort Prop
  with matches_rep_min := Minimality for matches_rep Sort Prop.
Combined Scheme matches_mutind from matches_min, matches_seq_min, matches_rep_min.

Definition seq_rx (body : list re) : option rx := rx_seq (map (fun r0 => to_rx r0) body).

Lemma to_rx_repeat lz mn mx body x :
  to_rx (RRepeat lz mn mx body) = Some x ->
  exists b, seq_rx body = Some b /\
    x = match mx with
        | None => mkCat (rx_pow b (N.to_nat mn)) (Star b)
        | Some m => if m <? mn then Void
                    else mkCat (rx_pow b (N.to_nat mn)) (rx_pow (mkAlt Eps b) (N.to_nat (m - mn)))
        end.
Proof.
  cbn [to_rx]. fold (seq_rx body). destruct (seq_rx body) as [b|]; [|discriminate].
  intros H. exists b. split; [reflexivity|].
  destruct mx as [m|]; [destruct (m <? mn)|]; inversion H; reflexivity.
Qed.

Lemma cset_lit c x : cset_mem (CS false [CLit c]) x = (x =? c).
Proof. cbn [cset_mem existsb item_mem]. destruct (x =? c); reflexivity. Qed.
Lemma cset_notlit c x : cset_mem (CS true [CLit c]) x = negb (x =? c).
Proof. cbn [cset_mem existsb item_mem]. destruct (x =? c); reflexivity. Qed.

(* soundness of the translation: matches => in the language of to_rx, whenever to_rx is defined *)
Lemma matches_L_all :
  (forall r s, matches r s -> forall x, to_rx r = Some x -> L x s) /\
  (forall body s, matches_seq body s -> forall x, seq_rx body = Some x -> L x s) /\
  (forall body n s, matches_rep body n s -> forall b, seq_rx body = Some b -> lpow (L b) n s).
Proof.
  apply matches_mutind.
  - intros c x H. inversion H; subst. cbn [L]. exists c. split; [reflexivity|].
    rewrite cset_lit. apply N.eqb_refl.
  - intros c x0 Hne x H. inversion H; subst. cbn [L]. exists x0. split; [reflexivity|].
    rewrite cset_notlit. apply N.eqb_neq in Hne. rewrite Hne. reflexivity.
  - intros x0 Hne x H. inversion H; subst. cbn [L]. exists x0. split; [reflexivity|].
    unfold any_cs. rewrite cset_notlit. apply N.eqb_neq in Hne. rewrite Hne. reflexivity.
  - intros neg items x0 _ Hm x H. cbn [to_rx] in H.
    destruct (items_supported items); inversion H; subst. cbn [L]. exists x0. auto.
  - intros alts alt s Hin _ IH x H. cbn [to_rx] in H.
    change (rx_alts (map seq_rx alts) = Some x) in H.
    revert x H. induction alts as [|a0 rest IHl]; intros x H; [destruct Hin|].
    cbn [map] in H. apply rx_alts_cons in H as (a & b & Ha & Hb & ->).
    rewrite L_mkAlt. cbn [L]. destruct Hin as [->|Hin].
    + left. apply IH. exact Ha.
    + right. apply IHl; assumption.
  - intros body s _ IH x H. cbn [to_rx] in H. apply IH. exact H.
  - intros lz mn mx body n s Hmn Hmx _ IH x H.
    apply to_rx_repeat in H as (b & Hb & ->). specialize (IH b Hb).
    replace n with (N.to_nat mn + (n - N.to_nat mn))%nat in IH by lia.
    apply lpow_split in IH as (s1 & s2 & -> & H1 & H2).
    destruct mx as [m|].
    + destruct (m <? mn) eqn:E; [apply N.ltb_lt in E; lia|].
      rewrite L_mkCat. cbn [L]. exists s1, s2. split; [reflexivity|].
      split; [apply L_rx_pow; exact H1|]. apply L_rx_pow.
      apply (lpow_ext _ _ _ (fun w => L_mkAlt Eps b w)). cbn [L].
      apply (lpow_opt_intro _ (n - N.to_nat mn)); [lia|exact H2].
    + rewrite L_mkCat. cbn [L]. exists s1, s2. split; [reflexivity|].
      split; [apply L_rx_pow; exact H1|]. eapply lpow_star. exact H2.
  - intros x H. inversion H. reflexivity.
  - intros r rest s1 s2 _ IH1 _ IH2 x H. unfold seq_rx in H. cbn [map] in H.
    apply rx_seq_cons in H as (a & b & Ha & Hb & ->).
    rewrite L_mkCat. cbn [L]. exists s1, s2. split; [reflexivity|]. split; [apply IH1; exact Ha|].
    apply IH2. exact Hb.
  - intros body b _. reflexivity.
  - intros body n s1 s2 _ IH1 _ IH2 b Hb. cbn [lpow]. exists s1, s2. auto.
Qed.

(* completeness of the translation *)
Lemma L_matches_seq body :
  Forall (fun r => forall x, to_rx r = Some x -> forall s, L x s -> matches r s) body ->
  forall x, seq_rx body = Some x -> forall s, L x s -> matches_seq body s.
Proof.
  induction 1 as [|r rest Hr _ IH]; intros x H s HL.
  - inversion H; subst. cbn [L] in HL. subst. constructor.
  - unfold seq_rx in H. cbn [map] in H. apply rx_seq_cons in H as (a & b & Ha & Hb & ->).
    apply L_mkCat in HL. cbn [L] in HL. destruct HL as (s1 & s2 & -> & H1 & H2).
    constructor; [eapply Hr; eassumption|eapply IH; eassumption].
Qed.

Lemma lpow_matches_rep body b :
  (forall s, L b s -> matches_seq body s) ->
  forall n s, lpow (L b) n s -> matches_rep body n s.
Proof.
  intros Hb. induction n as [|k IH]; intros s H; cbn [lpow] in H.
  - subst. constructor.
  - destruct H as (u & v & -> & Hu & Hv). constructor; auto.
Qed.

Theorem L_matches : forall r x, to_rx r = Some x -> forall s, L x s -> matches r s.
Proof.
  induction r as [c|c| |neg items|alts IH|body IH|lz mn mx body IH|k|op] using re_ind';
    intros x H s HL.
  - inversion H; subst. cbn [L] in HL. destruct HL as (c' & -> & Hm).
    rewrite cset_lit in Hm. apply N.eqb_eq in Hm. subst. constructor.
  - inversion H; subst. cbn [L] in HL. destruct HL as (c' & -> & Hm).
    rewrite cset_notlit in Hm. apply negb_true_iff in Hm.
    constructor. apply N.eqb_neq. exact Hm.
  - inversion H; subst. cbn [L] in HL. destruct HL as (c' & -> & Hm).
    unfold any_cs in Hm. rewrite cset_notlit in Hm. apply negb_true_iff in Hm.
    constructor. apply N.eqb_neq. exact Hm.
  - cbn [to_rx] in H. destruct (items_supported items) eqn:E; inversion H; subst.
    cbn [L] in HL. destruct HL as (c' & -> & Hm). constructor; auto.
  - cbn [to_rx] in H. change (rx_alts (map seq_rx alts) = Some x) in H.
    revert x H HL. induction IH as [|a0 rest Ha0 _ IHl]; intros x H HL.
    + inversion H; subst. destruct HL.
    + cbn [map] in H. apply rx_alts_cons in H as (a & b & Ha & Hb & ->).
      apply L_mkAlt in HL. cbn [L] in HL. destruct HL as [HL|HL].
      * apply MBranch with (alt := a0); [left; reflexivity|].
        eapply L_matches_seq; eassumption.
      * specialize (IHl b Hb HL). inversion IHl; subst.
        apply MBranch with (alt := alt); [right; assumption|assumption].
  - cbn [to_rx] in H. constructor. eapply L_matches_seq; eassumption.
  - apply to_rx_repeat in H as (b & Hb & ->).
    assert (Hbody : forall w, L b w -> matches_seq body w)
      by (intros w; eapply L_matches_seq; eassumption).
    destruct mx as [m|].
    + destruct (m <? mn) eqn:E; [destruct HL|]. apply N.ltb_ge in E.
      apply L_mkCat in HL. cbn [L] in HL. destruct HL as (s1 & s2 & -> & H1 & H2).
      apply L_rx_pow in H1. apply L_rx_pow in H2.
      apply (lpow_ext _ _ _ (fun w => L_mkAlt Eps b w)) in H2. cbn [L] in H2.
      apply lpow_opt_elim in H2 as (k & Hk & H2).
      apply MRepeat with (n := (N.to_nat mn + k)%nat); [lia|lia|].
      eapply lpow_matches_rep; [exact Hbody|]. apply lpow_app; assumption.
    + apply L_mkCat in HL. cbn [L] in HL. destruct HL as (s1 & s2 & -> & H1 & H2).
      apply L_rx_pow in H1. apply star_lpow in H2 as (k & H2).
      apply MRepeat with (n := (N.to_nat mn + k)%nat); [lia|exact I|].
      eapply lpow_matches_rep; [exact Hbody|]. apply lpow_app; assumption.
  - discriminate.
  - discriminate.
Qed.

Theorem to_rx_matches r x s : to_rx r = Some x -> (L x s <-> matches r s).
Proof.
  intros H. split.
  - apply L_matches. exact H.
  - intros Hm. eapply (proj1 matches_L_all); eassumption.
Qed.

Theorem seq_rx_matches body x s : seq_rx body = Some x -> (L x s <-> matches_seq body s).
Proof.
  intros H. split.
  - eapply L_matches_seq; [|exact H]. apply Forall_forall. intros r _. apply L_matches.
  - intros Hm. eapply (proj1 (proj2 matches_L_all)); eassumption.
Qed.

(* ------------------------------------------------------------------ top level *)
Lemma seq_to_rx_seq_rx p : seq_to_rx p = seq_rx p.
Proof. reflexivity. Qed.

Lemma search_rx_spec p :
  search_rx p =
  match seq_rx (strip_anchors p) with
  | None => None
  | Some body =>
      Some (Cat (if fst (strip_begin p) then Eps else sigma_star)
                (Cat body (match snd (strip_end (snd (strip_begin p))) with
                           | EndOpen => sigma_star | EndDollar => opt_newline | EndZ => Eps end)))
  end.
Proof.
  unfold search_rx, strip_anchors. destruct (strip_begin p) as [b p1]. cbn [fst snd].
  destruct (strip_end p1) as [p2 e]. cbn [fst snd]. rewrite seq_to_rx_seq_rx. reflexivity.
Qed.

Lemma fullmatch_rx_spec p : fullmatch_rx p = seq_rx (strip_anchors p).
Proof.
  unfold fullmatch_rx, strip_anchors. destruct (strip_begin p) as [b p1]. cbn [fst snd].
  destruct (strip_end p1) as [p2 e]. cbn [fst snd]. rewrite seq_to_rx_seq_rx.
  destruct (seq_rx p2); reflexivity.
Qed.

Lemma re_modelled_spec p : re_modelled p = true <-> exists x, seq_rx (strip_anchors p) = Some x.
Proof.
  unfold re_modelled. rewrite search_rx_spec. destruct (seq_rx (strip_anchors p)) as [b|].
  - split; [eauto|reflexivity].
  - split; [discriminate|]. intros (x & H). discriminate.
Qed.

Theorem matches_top_iff_fullmatchb_lemma p s :
  re_modelled p = true -> (matches_top p s <-> fullmatchb p s = Some true).
Proof.
  intros H. apply re_modelled_spec in H as (x & Hx).
  unfold fullmatchb, matches_top. rewrite fullmatch_rx_spec, Hx.
  rewrite <- (seq_rx_matches _ _ s Hx), <- rx_match_L.
  split; [intros ->; reflexivity|intros E; inversion E; reflexivity].
Qed.

Theorem fullmatch_search_lemma p s : fullmatchb p s = Some true -> searchb p s = Some true.
Proof.
  unfold fullmatchb, searchb. rewrite fullmatch_rx_spec, search_rx_spec.
  destruct (seq_rx (strip_anchors p)) as [b|]; [|discriminate].
  intros H. inversion H as [Hm]. rewrite Hm. f_equal. apply rx_match_L in Hm. apply rx_match_L.
  cbn [L]. exists [], s. split; [reflexivity|]. split.
  - destruct (fst (strip_begin p)); [reflexivity|constructor].
  - exists s, []. rewrite app_nil_r. split; [reflexivity|]. split; [exact Hm|].
    destruct (snd (strip_end (snd (strip_begin p)))); cbn [L sigma_star opt_newline].
    + constructor.
    + left. reflexivity.
    + reflexivity.
Qed.

(* a pattern the validator model can evaluate has its anchors at the ends only *)
Lemma rx_seq_all_some body x :
  seq_rx body = Some x -> Forall (fun r => exists y, to_rx r = Some y) body.
Proof.
  revert x. induction body as [|r rest IH]; intros x H; [constructor|].
  unfold seq_rx in H. cbn [map] in H. apply rx_seq_cons in H as (a & b & Ha & Hb & _).
  constructor; [eauto|eapply IH; exact Hb].
Qed.

Lemma to_rx_no_at : forall r x, to_rx r = Some x -> no_at r = true.
Proof.
  induction r as [c|c| |neg items|alts IH|body IH|lz mn mx body IH|k|op] using re_ind';
    intros x H; try reflexivity; try discriminate.
  - cbn [to_rx] in H. change (rx_alts (map seq_rx alts) = Some x) in H. cbn [no_at].
    revert x H. induction IH as [|a0 rest Ha0 _ IHl]; intros x H; [reflexivity|].
    cbn [map] in H. apply rx_alts_cons in H as (a & b & Ha & Hb & _).
    cbn [forallb]. rewrite (IHl _ Hb), andb_true_r.
    apply rx_seq_all_some in Ha. apply forallb_forall. intros r Hr.
    rewrite Forall_forall in Ha0, Ha. destruct (Ha _ Hr) as (y & Hy). eapply Ha0; eassumption.
  - cbn [to_rx] in H. cbn [no_at]. apply rx_seq_all_some in H.
    apply forallb_forall. intros r Hr.
    rewrite Forall_forall in IH, H. destruct (H _ Hr) as (y & Hy). eapply IH; eassumption.
  - apply to_rx_repeat in H as (b & Hb & _). cbn [no_at]. apply rx_seq_all_some in Hb.
    apply forallb_forall. intros r Hr.
    rewrite Forall_forall in IH, Hb. destruct (Hb _ Hr) as (y & Hy). eapply IH; eassumption.
Qed.

Lemma re_modelled_anchors_ok p : re_modelled p = true -> anchors_ok p = true.
Proof.
  intros H. apply re_modelled_spec in H as (x & Hx). unfold anchors_ok.
  apply rx_seq_all_some in Hx. apply forallb_forall. intros r Hr.
  rewrite Forall_forall in Hx. destruct (Hx _ Hr) as (y & Hy). eapply to_rx_no_at. exact Hy.
Qed.

Theorem regen_validates_lemma (hash_perm : pystr -> pystr) cfg p t s t' :
  (forall l, Permutation (hash_perm l) l) ->
  alphabets_ok cfg = true ->
  re_modelled p = true ->
  gen_re cfg hash_perm p t = Ok (s, t') ->
  fullmatchb p s = Some true /\ searchb p s = Some true.
Proof.
  intros Hp Hc Hm H.
  assert (Hf : fullmatchb p s = Some true).
  { apply matches_top_iff_fullmatchb_lemma; [exact Hm|].
    eapply regen_fullmatch_lemma; try eassumption. apply re_modelled_anchors_ok. exact Hm. }
  split; [exact Hf|]. apply fullmatch_search_lemma. exact Hf.
Qed.

(* ------------------------------------------------------------------ the running code's alphabets *)
Theorem regen_fullmatch_default_lemma (hash_perm : pystr -> pystr) k p :
  (forall l, Permutation (hash_perm l) l) ->
  anchors_ok p = true ->
  forall t s t', gen_re (default_cfg k) hash_perm p t = Ok (s, t') -> matches_top p s.
Proof. intros Hp. apply regen_fullmatch_lemma; [exact Hp|apply default_alphabets_ok]. Qed.

Theorem regen_validates_default_lemma (hash_perm : pystr -> pystr) k p t s t' :
  (forall l, Permutation (hash_perm l) l) ->
  re_modelled p = true ->
  gen_re (default_cfg k) hash_perm p t = Ok (s, t') ->
  fullmatchb p s = Some true /\ searchb p s = Some true.
Proof. intros Hp. apply regen_validates_lemma; [exact Hp|apply default_alphabets_ok]. Qed.
