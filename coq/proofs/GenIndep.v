(* C17: for environment-free schemas the generated values are a function of the tape only. *)
From Coq Require Import PrimFloat.
Require Import D42.Prelude D42.PyFloat D42.Value D42.Regex D42.Schema D42.PyRandom D42.RegexGen
               D42.Generate D42.EnvFree.
Require Import D42P.ListLemmas D42P.ValueLemmas D42P.RegexGenSpec.

(* pointwise equality of computations *)
Definition meq {A} (m1 m2 : M A) : Prop := forall t, m1 t = m2 t.

Lemma meq_refl {A} (m : M A) : meq m m.
Proof. intros t. reflexivity. Qed.

Lemma meq_bind {A B} (m1 m2 : M A) (f1 f2 : A -> M B) :
  meq m1 m2 -> (forall a, meq (f1 a) (f2 a)) -> meq (mbind m1 f1) (mbind m2 f2).
Proof.
  intros Hm Hf t. unfold mbind. rewrite Hm. destruct (m2 t) as [[a t1]|k|e]; auto. apply Hf.
Qed.

Lemma meq_seq_run gs1 gs2 : Forall2 meq gs1 gs2 -> meq (seq_run gs1) (seq_run gs2).
Proof.
  induction 1 as [|g1 g2 l1 l2 Hg _ IH]; cbn [seq_run]; [apply meq_refl|].
  apply meq_bind; auto. intros s. apply meq_bind; auto. intros; apply meq_refl.
Qed.

Lemma meq_mrepeat g1 g2 n : meq g1 g2 -> meq (mrepeat g1 n) (mrepeat g2 n).
Proof.
  intros Hg. induction n as [|n IH]; cbn [mrepeat]; [apply meq_refl|].
  apply meq_bind; auto. intros s. apply meq_bind; auto. intros; apply meq_refl.
Qed.

Lemma meq_msequence {A} (l1 l2 : list (M A)) : Forall2 meq l1 l2 -> meq (msequence l1) (msequence l2).
Proof.
  induction 1 as [|g1 g2 l1 l2 Hg _ IH]; cbn [msequence]; [apply meq_refl|].
  apply meq_bind; auto. intros s. apply meq_bind; auto. intros; apply meq_refl.
Qed.

Lemma Forall2_map_same {A B} (f g : A -> B) (R : B -> B -> Prop) l :
  Forall (fun a => R (f a) (g a)) l -> Forall2 R (map f l) (map g l).
Proof. induction 1; simpl; constructor; auto. Qed.

Lemma Forall2_nth {A B} (R : A -> B -> Prop) l1 l2 d1 d2 k :
  Forall2 R l1 l2 -> R d1 d2 -> R (nth k l1 d1) (nth k l2 d2).
Proof.
  intros H Hd. revert k. induction H as [|a b l1 l2 Hab _ IH]; intros k; destruct k; simpl; auto.
Qed.

(* choosing a computation from a list and running it *)
Lemma meq_choice_run {A} (l1 l2 : list (M A)) :
  Forall2 meq l1 l2 ->
  meq (mbind (random_choice l1) (fun g => g)) (mbind (random_choice l2) (fun g => g)).
Proof.
  intros H t. unfold random_choice, choice, mbind.
  pose proof (Forall2_len _ _ _ H) as Hlen.
  destruct H as [|a b l1 l2 Hab H]; [reflexivity|].
  unfold draw. destruct t as [|x t]; unfold ret.
  - rewrite Hlen. apply (Forall2_nth meq (a :: l1) (b :: l2) a b _ (Forall2_cons _ _ Hab H) Hab).
  - rewrite Hlen. apply (Forall2_nth meq (a :: l1) (b :: l2) a b _ (Forall2_cons _ _ Hab H) Hab).
Qed.

(* ---- patterns without negated classes do not read the set order ---- *)
Lemma gen_perm_indep cfg p1 p2 :
  forall r, re_no_neg r = true -> meq (RegexGen.gen cfg p1 r) (RegexGen.gen cfg p2 r).
Proof.
  induction r as [c|c| |neg items|alts IH|body IH|lz mn mx body IH|k|op] using re_ind';
    intros Hn; cbn [RegexGen.gen]; try apply meq_refl; cbn [re_no_neg] in Hn.
  - discriminate.
  - destruct neg; [discriminate|]. apply meq_refl.
  - apply meq_choice_run. apply Forall2_map_same. rewrite forallb_forall in Hn.
    rewrite Forall_forall in *. intros alt Hin. specialize (Hn _ Hin). specialize (IH _ Hin).
    apply meq_seq_run. apply Forall2_map_same. rewrite forallb_forall in Hn.
    rewrite Forall_forall in *. intros r0 Hin0. apply IH; auto.
  - apply meq_seq_run. apply Forall2_map_same. rewrite forallb_forall in Hn.
    rewrite Forall_forall in *. intros r0 Hin. apply IH; auto.
  - unfold gen_max_repeat. apply meq_bind; [apply meq_refl|]. intros count.
    apply meq_mrepeat. apply meq_seq_run. apply Forall2_map_same. rewrite forallb_forall in Hn.
    rewrite Forall_forall in *. intros r0 Hin. apply IH; auto.
Qed.

Lemma gen_re_perm_indep cfg p1 p2 p :
  forallb re_no_neg p = true -> meq (gen_re cfg p1 p) (gen_re cfg p2 p).
Proof.
  intros Hn. unfold gen_re. apply meq_seq_run. apply Forall2_map_same.
  rewrite forallb_forall in Hn. apply Forall_forall. intros r Hin. apply gen_perm_indep; auto.
Qed.

Lemma gen_re_perm_ext cfg p1 p2 p :
  (forall l, p1 l = p2 l) -> meq (gen_re cfg p1 p) (gen_re cfg p2 p).
Proof.
  intros Hp. unfold gen_re. apply meq_seq_run. apply Forall2_map_same. apply Forall_forall.
  intros r _. clear p.
  induction r as [c|c| |neg items|alts IH|body IH|lz mn mx body IH|k|op] using re_ind';
    cbn [RegexGen.gen]; try apply meq_refl.
  - apply meq_bind; [|intros; apply meq_refl]. unfold gen_not_in. apply meq_bind; [apply meq_refl|].
    intros ex. rewrite Hp. apply meq_refl.
  - apply meq_bind; [|intros; apply meq_refl]. destruct neg; [|apply meq_refl].
    unfold gen_not_in. apply meq_bind; [apply meq_refl|]. intros ex. rewrite Hp. apply meq_refl.
  - apply meq_choice_run. apply Forall2_map_same. rewrite Forall_forall in *. intros alt Hin.
    specialize (IH _ Hin). apply meq_seq_run. apply Forall2_map_same. exact IH.
  - apply meq_seq_run. apply Forall2_map_same. exact IH.
  - unfold gen_max_repeat. apply meq_bind; [apply meq_refl|]. intros count.
    apply meq_mrepeat. apply meq_seq_run. apply Forall2_map_same. exact IH.
Qed.

Definition orel {A} (R : A -> A -> Prop) (a b : option A) : Prop :=
  match a, b with Some x, Some y => R x y | None, None => True | _, _ => False end.

Lemma strip_m_rel {A} (l1 l2 : list (option (M A))) :
  Forall2 (orel meq) l1 l2 -> Forall2 meq (strip_m l1) (strip_m l2).
Proof.
  induction 1 as [|a b l1 l2 Hab _ IH]; simpl; [constructor|].
  destruct a, b; simpl in *; try contradiction; auto.
Qed.

Lemma Forall2_repeat {A} (R : A -> A -> Prop) a b n : R a b -> Forall2 R (repeat a n) (repeat b n).
Proof. intros H. induction n; simpl; constructor; auto. Qed.

Section Indep.
  Variables w1 w2 : world.
  Variable negs_ok : bool.
  (* with negated classes allowed, the two worlds must iterate sets in the same order *)
  Hypothesis Hperm : negs_ok = true -> forall l, w_perm w1 l = w_perm w2 l.

  Theorem gen_world_indep_lemma : forall s, env_free negs_ok s = true -> meq (gen w1 s) (gen w2 s).
  Proof.
    induction s as [ | val | val mn mx | val mn mx pr | val len mnl mxl al sub pat
                   | es ty len mnl mxl IHes IHty | ks IHks | ts IHts
                   | val | val | val | val | nm t IHt | t IHt ] using schema_ind';
      intros He; cbn [gen]; try apply meq_refl; cbn [env_free] in He.
    - (* str *)
      unfold g_str. destruct val; [apply meq_refl|]. destruct pat as [[src p]|]; [|apply meq_refl].
      apply meq_bind; [|intros; apply meq_refl].
      destruct negs_ok eqn:En; simpl in He.
      + apply gen_re_perm_ext. apply Hperm. reflexivity.
      + apply gen_re_perm_indep. exact He.
    - (* list *)
      apply andb_true_iff in He as [Hees Hety]. destruct es as [es'|].
      + apply meq_bind; [|intros; apply meq_refl]. apply meq_msequence, strip_m_rel.
        apply Forall2_map_same. apply forallb_id_map' in Hees. specialize (IHes es' eq_refl).
        clear - IHes Hees. induction IHes as [|o r Ho _ IH]; constructor.
        * inversion Hees; subst. destruct o as [e|]; simpl; auto.
        * apply IH. inversion Hees; auto.
      + apply meq_bind; [apply meq_refl|]. intros [n specified]. destruct ty as [t|]; [|apply meq_refl].
        apply meq_bind; [|intros; apply meq_refl]. apply meq_msequence, Forall2_repeat.
        apply (IHty t eq_refl Hety).
    - (* dict *)
      destruct ks as [ents|]; [|apply meq_refl].
      apply meq_bind; [|intros; apply meq_refl]. apply meq_msequence, strip_m_rel.
      apply Forall2_map_same. apply forallb_id_map' in He. specialize (IHks ents eq_refl).
      clear - IHks He. induction IHks as [|e r Hee _ IH]; constructor.
      + inversion He; subst. destruct (is_kell (de_key e)); simpl; auto.
        destruct (de_opt e); simpl; auto. destruct (de_schema e) as [sch|] eqn:Es; simpl.
        * apply meq_bind; [apply (Hee sch eq_refl); assumption | intros; apply meq_refl].
        * apply meq_refl.
      + apply IH. inversion He; auto.
    - (* any *)
      destruct ts as [ts'|]; [|apply meq_refl].
      apply meq_choice_run. apply Forall2_map_same. apply forallb_id_map' in He.
      specialize (IHts ts' eq_refl). clear - IHts He.
      induction IHts as [|t r Ht _ IH]; constructor.
      + inversion He; subst. apply Ht. assumption.
      + apply IH. inversion He; auto.
    - destruct val; [apply meq_refl | discriminate].
    - destruct val as [[a us]|]; [apply meq_refl | discriminate].
    - destruct val; [apply meq_refl | discriminate].
    - apply IHt. exact He.
    - apply IHt. exact He.
  Qed.

  Theorem gen_seq_indep_lemma ss :
    forallb (env_free negs_ok) ss = true -> meq (gen_seq w1 ss) (gen_seq w2 ss).
  Proof.
    induction ss as [|s r IH]; cbn [gen_seq forallb]; [intros; apply meq_refl|].
    intros H. apply andb_true_iff in H as [H1 H2].
    apply meq_bind; [apply gen_world_indep_lemma; exact H1|]. intros v.
    apply meq_bind; [apply IH; exact H2 | intros; apply meq_refl].
  Qed.
End Indep.
