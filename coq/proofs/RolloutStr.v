(* String level of C18: split / join / unambiguous. *)
Require Import D42.Prelude D42.Rollout.
From Coq Require Import Permutation.

Lemma str_eqb_eq (a b : pystr) : str_eqb a b = true <-> a = b.
Proof.
  unfold str_eqb. revert b. induction a as [|x a IH]; intros [|y b]; cbn [list_eqb]; split; intro H;
    try reflexivity; try discriminate.
  - apply andb_true_iff in H as [H1 H2]. apply N.eqb_eq in H1. apply IH in H2. subst. reflexivity.
  - inversion H; subst. apply andb_true_iff. split; [apply N.eqb_refl | apply IH; reflexivity].
Qed.

Lemma str_eqb_refl (a : pystr) : str_eqb a a = true.
Proof. apply str_eqb_eq. reflexivity. Qed.

Lemma str_eqb_neq (a b : pystr) : str_eqb a b = false <-> a <> b.
Proof.
  split.
  - intros H E. apply str_eqb_eq in E. congruence.
  - intro H. destruct (str_eqb a b) eqn:E; [apply str_eqb_eq in E; contradiction | reflexivity].
Qed.

Lemma rkey_eqb_eq (a b : rkey) : rkey_eqb a b = true <-> a = b.
Proof.
  destruct a as [|o s|], b as [|o' s'|]; cbn [rkey_eqb]; split; intro H; try reflexivity; try discriminate.
  - apply andb_true_iff in H as [H1 H2]. apply Bool.eqb_prop in H1. apply str_eqb_eq in H2. subst. reflexivity.
  - inversion H; subst. apply andb_true_iff. split; [apply Bool.eqb_reflx | apply str_eqb_refl].
Qed.

Lemma rkey_eqb_refl (a : rkey) : rkey_eqb a a = true.
Proof. apply rkey_eqb_eq. reflexivity. Qed.

Lemma rkey_eqb_neq (a b : rkey) : rkey_eqb a b = false <-> a <> b.
Proof.
  split.
  - intros H E. apply rkey_eqb_eq in E. congruence.
  - intro H. destruct (rkey_eqb a b) eqn:E; [apply rkey_eqb_eq in E; contradiction | reflexivity].
Qed.

Lemma rkey_eq_dec (a b : rkey) : {a = b} + {a <> b}.
Proof.
  destruct (rkey_eqb a b) eqn:E; [left; apply rkey_eqb_eq; exact E | right; apply rkey_eqb_neq; exact E].
Qed.

(* ---- is_prefix ---- *)
Lemma is_prefix_app (a r : pystr) : is_prefix a (a ++ r) = true.
Proof. induction a as [|x a IH]; cbn; [reflexivity | rewrite N.eqb_refl; exact IH]. Qed.

Lemma is_prefix_spec (a b : pystr) : is_prefix a b = true -> exists r, b = a ++ r.
Proof.
  revert b. induction a as [|x a IH]; intros b H.
  - exists b. reflexivity.
  - destruct b as [|y b]; cbn in H; [discriminate|].
    apply andb_true_iff in H as [H1 H2]. apply N.eqb_eq in H1. subst y.
    destruct (IH _ H2) as [r ->]. exists r. reflexivity.
Qed.

(* ---- split ---- *)
Lemma split_go_skip (sep a s : pystr) : split_go sep (a ++ s) (length a) = split_go sep s 0.
Proof. induction a as [|x a IH]; cbn [app length split_go]; [reflexivity | exact IH]. Qed.

Lemma split_go_nonempty (sep s : pystr) k : split_go sep s k <> [].
Proof.
  revert k. induction s as [|c s IH]; intros k; cbn [split_go]; [discriminate|].
  destruct k; [|apply IH].
  destruct (is_prefix sep (c :: s)); [discriminate|].
  destruct (split_go sep s 0); discriminate.
Qed.

Lemma split_sep_prefix (sep r : pystr) : sep <> [] -> split sep (sep ++ r) = [] :: split sep r.
Proof.
  intro Hne. destruct sep as [|c sep]; [congruence|].
  unfold split. cbn [app split_go]. change (c :: sep ++ r) with ((c :: sep) ++ r).
  rewrite is_prefix_app. replace (length (c :: sep) - 1) with (length sep) by (cbn [length]; lia).
  f_equal. apply split_go_skip.
Qed.

Lemma split_app_sep (sep x r : pystr) :
  sep <> [] -> no_match_before sep x (sep ++ r) = true ->
  split sep (x ++ sep ++ r) = x :: split sep r.
Proof.
  intros Hne. induction x as [|c x IH]; intro H.
  - cbn [app]. apply split_sep_prefix. exact Hne.
  - cbn [no_match_before] in H. apply andb_true_iff in H as [H1 H2]. apply negb_true_iff in H1.
    unfold split in *. cbn [app split_go]. cbn [app] in H1. rewrite H1. rewrite (IH H2). reflexivity.
Qed.

Lemma split_nosep (sep x : pystr) : sep <> [] -> infix sep x = false -> split sep x = [x].
Proof.
  intros Hne. unfold split. induction x as [|c x IH]; intro H.
  - reflexivity.
  - cbn [infix] in H. apply orb_false_iff in H as [H1 H2].
    cbn [split_go]. rewrite H1. rewrite (IH H2). reflexivity.
Qed.

Theorem split_join_lemma (sep : pystr) (segs : list pystr) :
  sep <> [] -> segs <> [] -> unambiguous sep segs = true -> split sep (join sep segs) = segs.
Proof.
  intros Hne. induction segs as [|x rest IH]; intros Hs H; [congruence|].
  destruct rest as [|y rest'].
  - cbn [join]. cbn [unambiguous] in H. apply negb_true_iff in H. apply split_nosep; assumption.
  - change (unambiguous sep (x :: y :: rest')) with
      (no_match_before sep x (sep ++ join sep (y :: rest')) && unambiguous sep (y :: rest')) in H.
    apply andb_true_iff in H as [H1 H2].
    change (join sep (x :: y :: rest')) with (x ++ sep ++ join sep (y :: rest')).
    rewrite split_app_sep by assumption. f_equal. apply IH; [discriminate | exact H2].
Qed.

Lemma unambiguous_tl (sep : pystr) x rest : unambiguous sep (x :: rest) = true -> unambiguous sep rest = true.
Proof.
  destruct rest as [|y r]; [reflexivity|].
  change (unambiguous sep (x :: y :: r)) with
      (no_match_before sep x (sep ++ join sep (y :: r)) && unambiguous sep (y :: r)).
  intro H. apply andb_true_iff in H as [_ H]. exact H.
Qed.

Lemma join_inj (sep : pystr) (a b : list pystr) :
  sep <> [] -> a <> [] -> b <> [] -> unambiguous sep a = true -> unambiguous sep b = true ->
  join sep a = join sep b -> a = b.
Proof.
  intros Hne Ha Hb Ua Ub E.
  rewrite <- (split_join_lemma sep a Hne Ha Ua), <- (split_join_lemma sep b Hne Hb Ub), E. reflexivity.
Qed.

(* ---- sufficient conditions ---- *)
Lemma no_match_before_headfree c sep x rest :
  Nmem c x = false -> no_match_before (c :: sep) x rest = true.
Proof.
  induction x as [|d x IH]; intro H; [reflexivity|].
  unfold Nmem in H. cbn [existsb] in H. apply orb_false_iff in H as [H1 H2].
  cbn [no_match_before app is_prefix]. rewrite H1. cbn [andb negb]. apply IH. exact H2.
Qed.

Lemma infix_headfree c sep x : Nmem c x = false -> infix (c :: sep) x = false.
Proof.
  induction x as [|d x IH]; intro H; [reflexivity|].
  unfold Nmem in H. cbn [existsb] in H. apply orb_false_iff in H as [H1 H2].
  cbn [infix is_prefix]. rewrite H1. cbn [andb orb]. apply IH. exact H2.
Qed.

Lemma headfree_unambiguous (sep : pystr) (segs : list pystr) :
  headfree sep segs = true -> unambiguous sep segs = true.
Proof.
  destruct sep as [|c sep]; [discriminate|]. cbn [headfree].
  induction segs as [|x rest IH]; intro H; [reflexivity|].
  cbn [forallb] in H. apply andb_true_iff in H as [H1 H2]. apply negb_true_iff in H1.
  destruct rest as [|y r].
  - cbn [unambiguous]. rewrite infix_headfree by exact H1. reflexivity.
  - change (unambiguous (c :: sep) (x :: y :: r)) with
      (no_match_before (c :: sep) x ((c :: sep) ++ join (c :: sep) (y :: r)) && unambiguous (c :: sep) (y :: r)).
    rewrite no_match_before_headfree by exact H1. rewrite (IH H2). reflexivity.
Qed.

(* 1-character separator: separator-free segments are unambiguous *)
Lemma infix_single c x : infix [c] x = Nmem c x.
Proof.
  induction x as [|d x IH]; [reflexivity|].
  unfold Nmem in *. cbn [infix is_prefix existsb]. rewrite IH.
  rewrite (N.eqb_sym c d). destruct (N.eqb d c); reflexivity.
Qed.

Lemma sepfree_unambiguous_1_lemma (c : N) (segs : list pystr) :
  forallb (fun seg => negb (infix [c] seg)) segs = true -> unambiguous [c] segs = true.
Proof.
  intro H. apply headfree_unambiguous. cbn [headfree].
  induction segs as [|x r IH]; [reflexivity|].
  cbn [forallb] in *. apply andb_true_iff in H as [H1 H2].
  rewrite infix_single in H1. rewrite H1. cbn [andb]. apply IH. exact H2.
Qed.
