(* Structure of the results of the substitutor's helper functions. *)
From Coq Require Import PrimFloat.
Require Import D42.Prelude D42.PyFloat D42.Value D42.Regex D42.Schema D42.Validate D42.Conforms
               D42.FromNative D42.Substitute.
Require Import D42P.ListLemmas D42P.ScalarSpec D42P.ValueLemmas D42P.ContainerSpec.
Open Scope nat_scope.

Lemma rmap_ok {A B} (f : A -> B) r y : rmap f r = Ok y -> exists x, r = Ok x /\ y = f x.
Proof. destruct r; simpl; intros H; inversion H; eauto. Qed.

Lemma bind_ok {A B} (r : result A) (f : A -> result B) y :
  bind r f = Ok y -> exists x, r = Ok x /\ f x = Ok y.
Proof. destruct r; simpl; intros H; try discriminate; eauto. Qed.

Lemma natives_spec l r :
  natives l = Ok r -> exists ss, r = map Some ss /\ length ss = length l.
Proof.
  unfold natives. intros H. apply rmap_ok in H as (ss & H & ->). exists ss. split; auto.
  apply rsequence_ok in H. symmetry. eapply Forall2_len. exact H.
Qed.

Definition run_rel (l : list value) (of : option substfn) (s : schema) : Prop :=
  exists f x, of = Some f /\ In x l /\ f x = Ok s.

Lemma subst_run_spec fs l idx mid :
  subst_run fs l idx = Ok mid ->
  exists ss, mid = map Some ss /\ (idx <= length l -> idx + length fs <= length l) /\
             Forall2 (run_rel l) fs ss.
Proof.
  revert idx mid. induction fs as [|of fs IH]; intros idx mid H; cbn [subst_run] in H.
  - inversion H. exists []. simpl. repeat split; [lia | constructor].
  - destruct (nth_error l idx) as [x|] eqn:En; [|discriminate].
    destruct of as [f|]; [|discriminate].
    apply bind_ok in H as (s & Hs & H). apply bind_ok in H as (rest & Hr & H). inversion H; subst.
    destruct (IH _ _ Hr) as (ss & -> & Hlen & Hrel).
    assert (idx < length l) by (apply nth_error_Some; congruence).
    exists (s :: ss). simpl. repeat split; [lia|].
    constructor; auto. exists f, x. repeat split; auto. eapply nth_error_In; eauto.
Qed.

Lemma subst_elements_spec fs l start els :
  start <= length l ->
  subst_elements fs l start = Ok els ->
  exists ps ms ss, els = map Some (ps ++ ms ++ ss) /\ length ps = start /\
                   start + length fs + length ss = length l /\ Forall2 (run_rel l) fs ms.
Proof.
  unfold subst_elements. intros Hst H.
  apply bind_ok in H as (mid & Hm & H). apply bind_ok in H as (suf & Hsu & H).
  apply bind_ok in H as (pre & Hp & H). inversion H; subst; clear H.
  apply subst_run_spec in Hm as (ms & -> & Hlen & Hrel).
  apply natives_spec in Hsu as (ss & -> & Hss). apply natives_spec in Hp as (ps & -> & Hps).
  exists ps, ms, ss. rewrite !map_app. repeat split; auto.
  - rewrite Hps, firstn_length. lia.
  - rewrite Hss, skipn_length, map_length. pose proof (Forall2_len _ _ _ Hrel). lia.
Qed.

Lemma first_window_spec fs l idxs els :
  first_window fs l idxs = Ok els -> exists i, In i idxs /\ subst_elements fs l i = Ok els.
Proof.
  induction idxs as [|i rest IH]; cbn [first_window]; [discriminate|].
  destruct (subst_elements fs l i) as [r|k|e] eqn:E.
  - intros H. inversion H; subst. exists i. split; [left; auto | exact E].
  - destruct k; [discriminate|]. intros H. destruct (IH H) as (j & ? & ?). exists j. split; [right|]; auto.
  - discriminate.
Qed.

Lemma any_subst_spec fs v kept :
  any_subst fs v = Ok kept -> Forall (fun s' => exists f, In f fs /\ f v = Ok s') kept.
Proof.
  revert kept. induction fs as [|f r IH]; intros kept H; cbn [any_subst] in H.
  - inversion H. constructor.
  - destruct (f v) as [s|k|e] eqn:E.
    + apply bind_ok in H as (rest & Hr & H). inversion H; subst. constructor.
      * exists f. split; [left; auto | exact E].
      * eapply Forall_impl; [|exact (IH _ Hr)]. intros s' (g & ? & ?). exists g. split; [right|]; auto.
    + destruct k; [discriminate|].
      eapply Forall_impl; [|exact (IH _ H)]. intros s' (g & ? & ?). exists g. split; [right|]; auto.
    + discriminate.
Qed.

Lemma Forall2_impl {A B} (R R' : A -> B -> Prop) l1 l2 :
  (forall a b, R a b -> R' a b) -> Forall2 R l1 l2 -> Forall2 R' l1 l2.
Proof. intros H. induction 1; constructor; auto. Qed.

(* fold_right of disjunctions = Exists *)
Lemma fold_or_Exists {A} (P : A -> Prop) l :
  fold_right (fun c acc => c \/ acc) False (map P l) <-> Exists P l.
Proof.
  induction l as [|a r IH]; simpl.
  - split; [contradiction | intros H; inversion H].
  - rewrite IH. split; [intros [H|H]; auto | intros H; inversion H; auto].
Qed.

(* splitting a Forall2 along an append on the left *)
Lemma Forall2_app_l {A B} (R : A -> B -> Prop) l1 l2 l :
  Forall2 R (l1 ++ l2) l ->
  exists m1 m2, l = m1 ++ m2 /\ Forall2 R l1 m1 /\ Forall2 R l2 m2.
Proof. intros H. apply Forall2_app_inv_l in H as (m1 & m2 & ? & ? & ?). eauto. Qed.

Definition cfo (e : option schema) : option vpred :=
  match e with Some sch => Some (conforms sch) | None => None end.

Lemma cfo_map_Some ss : map cfo (map Some ss) = map Some (map conforms ss).
Proof. rewrite !map_map. reflexivity. Qed.

Lemma list_spec_all_some (cs : list vpred) l :
  list_spec (map Some cs) l <-> Forall2 (fun c x => c x) cs l.
Proof.
  unfold list_spec. rewrite classify_map_Some, middle_map_Some, strip_map_Some. reflexivity.
Qed.

(* plain sub-values *)
Lemma plain_list_In l x : plain (VList l) = true -> In x l -> plain x = true.
Proof.
  cbn [plain]. intros H Hin. apply forallb_id_map' in H. rewrite Forall_forall in H. auto.
Qed.

Lemma plain_dict_assoc d k x : plain (VDict d) = true -> assoc k d = Some x -> plain x = true.
Proof.
  cbn [plain]. intros H Ha. apply forallb_id_map' in H. rewrite Forall_forall in H.
  apply assoc_In in Ha. specialize (H _ Ha). simpl in H. apply andb_true_iff in H. tauto.
Qed.

Lemma plain_not_ell x : plain x = true -> is_vell x = false.
Proof. destruct x; simpl; auto; discriminate. Qed.

Lemma plain_list_no_ell l : plain (VList l) = true -> existsb is_vell l = false.
Proof.
  intros H. apply not_true_iff_false. intros E. apply existsb_exists in E as (x & Hin & Hx).
  rewrite (plain_not_ell x (plain_list_In _ _ H Hin)) in Hx. discriminate.
Qed.
