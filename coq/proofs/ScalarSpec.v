(* Scalar validators: empty error list <-> the declared constraints hold. *)
From Coq Require Import PrimFloat.
Require Import D42.Prelude D42.PyFloat D42.Value D42.Regex D42.Schema D42.Validate D42.Conforms.
Require Import D42P.ListLemmas.
Open Scope Z_scope.

Lemma list_eqb_eq {A} (eqb : A -> A -> bool) :
  (forall x y, eqb x y = true <-> x = y) -> forall a b, list_eqb eqb a b = true <-> a = b.
Proof.
  intros H. induction a as [|x a IH]; intros [|y b]; simpl; split; try discriminate; auto.
  - intros E. apply andb_true_iff in E as [E1 E2]. apply H in E1. apply IH in E2. congruence.
  - intros E. inversion E; subst. apply andb_true_iff. split; [apply H | apply IH]; reflexivity.
Qed.

Lemma str_eqb_eq a b : str_eqb a b = true <-> a = b.
Proof. apply list_eqb_eq. intros; apply N.eqb_eq. Qed.

Lemma bytes_eqb_eq (a b : list N) : list_eqb N.eqb a b = true <-> a = b.
Proof. apply list_eqb_eq. intros; apply N.eqb_eq. Qed.

Lemma Nmem_In c s : Nmem c s = true <-> In c s.
Proof.
  unfold Nmem. rewrite existsb_exists. split.
  - intros (x & Hx & E). apply N.eqb_eq in E. subst. exact Hx.
  - intros H. exists c. split; [exact H | apply N.eqb_refl].
Qed.

Lemma check_value_nil p v e : check_value p v e = [] <-> py_eqb v e = true.
Proof. unfold check_value. destruct (py_eqb v e); split; auto; discriminate. Qed.

Lemma py_eqb_int v z e : as_int v = Some z -> py_eqb v (of_intv e) = (z =? iz e).
Proof.
  destruct v as [|b|x| | | | | | | | | | |]; simpl; try discriminate.
  - destruct b; intros H; inversion H; subst; destruct e as [y|[|]]; reflexivity.
  - intros H; inversion H; subst; destruct e as [y|[|]]; reflexivity.
Qed.

Lemma v_none_nil p v : v_none p v = [] <-> conforms SNone v.
Proof.
  unfold v_none. simpl. destruct v; simpl; split; try discriminate; auto.
Qed.

Lemma v_bool_nil val p v : v_bool val p v = [] <-> conforms (SBool val) v.
Proof.
  unfold v_bool. simpl.
  destruct v as [|b| | | | | | | | | | | |]; simpl;
    try (split; [discriminate | intros (b0 & E & _); discriminate]).
  destruct val as [e|]; simpl.
  - rewrite check_value_nil. simpl. destruct b, e; simpl; split; try discriminate;
      try (intros _; eexists; split; [reflexivity|reflexivity]);
      try (intros (b0 & E & E'); inversion E; subst; discriminate); auto.
  - split; auto. intros _. exists b. split; auto.
Qed.

Lemma v_int_nil val mn mx p v : v_int val mn mx p v = [] <-> conforms (SInt val mn mx) v.
Proof.
  unfold v_int. cbn [conforms].
  destruct (as_int v) as [z|] eqn:Ez.
  2:{ split; [discriminate | intros (z & E & _); discriminate]. }
  assert (Hval : (match val with Some e => check_value p v (of_intv e) | None => [] end) = [] <->
                 opt_holds val (fun e => z = iz e)).
  { destruct val as [e|]; simpl; [|split; auto].
    rewrite check_value_nil, (py_eqb_int _ _ _ Ez). apply Z.eqb_eq. }
  destruct (match val with Some e => check_value p v (of_intv e) | None => [] end) eqn:Ev.
  - rewrite app_nil_iff. split.
    + intros [H1 H2]. exists z. split; [reflexivity|]. split; [apply Hval; reflexivity|]. split.
      * destruct mn as [m|]; simpl; auto. destruct (Z.ltb_spec z (iz m)); [discriminate | lia].
      * destruct mx as [m|]; simpl; auto. destruct (Z.ltb_spec (iz m) z); [discriminate | lia].
    + intros (z' & E & _ & Hmn & Hmx). inversion E; subst z'. split.
      * destruct mn as [m|]; simpl in *; auto. destruct (Z.ltb_spec z (iz m)); [lia | reflexivity].
      * destruct mx as [m|]; simpl in *; auto. destruct (Z.ltb_spec (iz m) z); [lia | reflexivity].
  - cbv iota. split; [discriminate|]. intros (z' & E & Hv & _). inversion E; subst z'.
    apply Hval in Hv. discriminate.
Qed.

Lemma v_float_nil val mn mx pr p v :
  v_float val mn mx pr p v = [] <-> conforms (SFloat val mn mx pr) v.
Proof.
  unfold v_float. cbn [conforms].
  destruct v as [| | |x| | | | | | | | | |];
    try (split; [discriminate | intros (x0 & E & _); discriminate]).
  destruct val as [e|]; cbn [opt_holds].
  - destruct (float_value_ok x e pr) eqn:Ef.
    + rewrite app_nil_iff. split.
      * intros [H1 H2]. exists x. split; [reflexivity|]. split; [exact Ef|]. split.
        -- destruct mn as [m|]; simpl; auto. destruct (PrimFloat.ltb x m); [discriminate | reflexivity].
        -- destruct mx as [m|]; simpl; auto. destruct (PrimFloat.ltb m x); [discriminate | reflexivity].
      * intros (x' & E & _ & Hmn & Hmx). inversion E; subst x'. split.
        -- destruct mn as [m|]; simpl in *; auto. rewrite Hmn. reflexivity.
        -- destruct mx as [m|]; simpl in *; auto. rewrite Hmx. reflexivity.
    + cbv iota. split; [discriminate|]. intros (x' & E & Hv & _). inversion E; subst x'. congruence.
  - rewrite app_nil_iff. split.
    + intros [H1 H2]. exists x. split; [reflexivity|]. split; [exact I|]. split.
      * destruct mn as [m|]; simpl; auto. destruct (PrimFloat.ltb x m); [discriminate | reflexivity].
      * destruct mx as [m|]; simpl; auto. destruct (PrimFloat.ltb m x); [discriminate | reflexivity].
    + intros (x' & E & _ & Hmn & Hmx). inversion E; subst x'. split.
      * destruct mn as [m|]; simpl in *; auto. rewrite Hmn. reflexivity.
      * destruct mx as [m|]; simpl in *; auto. rewrite Hmx. reflexivity.
Qed.

Lemma check_len_nil p v n len mnl mxl :
  check_len p v n len mnl mxl = [] <-> len_ok n len mnl mxl.
Proof.
  unfold check_len, len_ok. rewrite !app_nil_iff.
  assert (H1 : (match len with Some k => if negb (n =? iz k) then [VE (ELen k) p v] else [] | None => [] end) = []
               <-> opt_holds len (fun k => n = iz k)).
  { destruct len as [k|]; simpl; [|split; auto]. destruct (Z.eqb_spec n (iz k)); simpl; split; auto; try discriminate; contradiction. }
  assert (H2 : (match mnl with Some k => if n <? iz k then [VE (EMinLen k) p v] else [] | None => [] end) = []
               <-> opt_holds mnl (fun k => iz k <= n)).
  { destruct mnl as [k|]; simpl; [|split; auto]. destruct (Z.ltb_spec n (iz k)); split; auto; try discriminate; lia. }
  assert (H3 : (match mxl with Some k => if iz k <? n then [VE (EMaxLen k) p v] else [] | None => [] end) = []
               <-> opt_holds mxl (fun k => n <= iz k)).
  { destruct mxl as [k|]; simpl; [|split; auto]. destruct (Z.ltb_spec (iz k) n); split; auto; try discriminate; lia. }
  rewrite H1, H2, H3. tauto.
Qed.

Lemma check_len_first_nil p v n len mnl mxl :
  check_len_first p v n len mnl mxl = [] <-> len_ok n len mnl mxl.
Proof.
  unfold check_len_first. rewrite <- (check_len_nil p v).
  destruct (check_len p v n len mnl mxl); split; auto; discriminate.
Qed.

Lemma forallb_Nmem s a : forallb (fun c => Nmem c a) s = true <-> Forall (fun c => In c a) s.
Proof.
  rewrite forallb_forall, Forall_forall. split; intros H c Hc; apply Nmem_In; auto.
Qed.

Lemma pat_search_true pt s :
  re_modelled (snd pt) = true -> (pat_search pt s = true <-> searchb (snd pt) s = Some true).
Proof.
  unfold pat_search, re_modelled, searchb. destruct (search_rx (snd pt)); simpl; [|discriminate].
  intros _. split; [intros ->; reflexivity | intros H; inversion H; reflexivity].
Qed.

Lemma v_str_nil val len mnl mxl al sub pat p v :
  pat_ok pat = true ->
  (v_str val len mnl mxl al sub pat p v = [] <-> conforms (SStr val len mnl mxl al sub pat) v).
Proof.
  intros Hpat. unfold v_str. cbn [conforms].
  destruct v as [| | | |s| | | | | | | | |];
    try (split; [discriminate | intros (s0 & E & _); discriminate]).
  assert (Hval : (match val with Some e => check_value p (VStr s) (VStr e) | None => [] end) = [] <->
                 opt_holds val (fun e => s = e)).
  { destruct val as [e|]; simpl; [|split; auto]. rewrite check_value_nil. simpl. apply str_eqb_eq. }
  assert (Hp : (match pat with Some pt => if pat_search pt s then [] else [VE (ERegex pt) p (VStr s)] | None => [] end) = [] <->
               opt_holds pat (fun pt => searchb (snd pt) s = Some true)).
  { destruct pat as [pt|]; simpl; [|split; auto].
    simpl in Hpat. destruct pt as [src tree]. simpl in *.
    rewrite <- (pat_search_true (src, tree) s Hpat).
    destruct (pat_search (src, tree) s); split; auto; discriminate. }
  destruct (match val with Some e => check_value p (VStr s) (VStr e) | None => [] end) eqn:Ev.
  2:{ cbv iota. split; [discriminate|]. intros (s0 & E & Hv & _). inversion E; subst s0. apply Hval in Hv. discriminate. }
  destruct (match pat with Some pt => if pat_search pt s then [] else [VE (ERegex pt) p (VStr s)] | None => [] end) eqn:Epp.
  2:{ cbv iota. split; [discriminate|]. intros (s0 & E & _ & Hpp & _). inversion E; subst s0. apply Hp in Hpp. discriminate. }
  cbv iota.
  rewrite !app_nil_iff, check_len_nil.
  assert (Hs : (match sub with Some t => if infix t s then [] else [VE (ESubstr t) p (VStr s)] | None => [] end) = [] <->
               opt_holds sub (fun t => infix t s = true)).
  { destruct sub as [t|]; simpl; [|split; auto]. destruct (infix t s); split; auto; discriminate. }
  assert (Ha : (match al with Some a => if forallb (fun c => Nmem c a) s then [] else [VE (EAlphabet a) p (VStr s)] | None => [] end) = [] <->
               opt_holds al (fun a => Forall (fun c => In c a) s)).
  { destruct al as [a|]; simpl; [|split; auto]. rewrite <- forallb_Nmem.
    destruct (forallb (fun c => Nmem c a) s); split; auto; discriminate. }
  rewrite Hs, Ha. split.
  - intros (H1 & H2 & H3). exists s. split; [reflexivity|].
    split; [apply Hval; reflexivity|]. split; [apply Hp; reflexivity|]. tauto.
  - intros (s0 & E & _ & _ & H1 & H2 & H3). inversion E; subst s0. tauto.
Qed.

Lemma v_bytes_nil val p v : v_bytes val p v = [] <-> conforms (SBytes val) v.
Proof.
  unfold v_bytes. cbn [conforms].
  destruct v as [| | | | |b| | | | | | | |]; simpl;
    try (split; [discriminate | intros (b0 & E & _); discriminate]).
  destruct val as [e|]; simpl.
  - rewrite check_value_nil. simpl. rewrite bytes_eqb_eq. split.
    + intros ->. exists e. auto.
    + intros (b0 & E & E'). inversion E; subst. reflexivity.
  - split; auto. intros _. exists b. auto.
Qed.

Lemma uuid_is_v4_iff n : uuid_is_v4 n = true <-> uuid_version n = Some 4%N.
Proof.
  unfold uuid_is_v4. destruct (uuid_version n) as [k|]; [|split; discriminate].
  destruct k as [|k]; [split; discriminate|].
  destruct k as [k|k|]; try (split; discriminate).
  destruct k as [k|k|]; try (split; discriminate).
  destruct k as [k|k|]; try (split; discriminate).
  split; reflexivity.
Qed.

Lemma v_uuid_nil val p v : v_uuid val p v = [] <-> conforms (SUuid val) v.
Proof.
  unfold v_uuid. cbn [conforms].
  destruct v as [| | | | | |n| | | | | | |];
    try (split; [discriminate | intros (n0 & E & _); discriminate]).
  destruct (uuid_is_v4 n) eqn:E4; simpl.
  - apply uuid_is_v4_iff in E4. destruct val as [e|]; simpl.
    + rewrite check_value_nil. simpl. rewrite N.eqb_eq. split.
      * intros ->. exists e. auto.
      * intros (n0 & E & _ & E'). inversion E; subst. reflexivity.
    + split; auto. intros _. exists n. auto.
  - split; [discriminate|]. intros (n0 & E & Hv & _). inversion E; subst n0.
    apply uuid_is_v4_iff in Hv. congruence.
Qed.

Lemma v_datetime_nil val p v : v_datetime val p v = [] <-> conforms (SDatetime val) v.
Proof.
  unfold v_datetime. cbn [conforms].
  destruct v as [| | | | | | |a us| | | | | |]; simpl;
    try (split; [discriminate | intros (a0 & us0 & E & _); discriminate]).
  destruct val as [[a' us']|]; simpl.
  - rewrite check_value_nil. simpl. rewrite andb_true_iff, Z.eqb_eq, Bool.eqb_true_iff. split.
    + intros [-> ->]. exists a', us'. auto.
    + intros (a0 & us0 & E & E'). inversion E; inversion E'; subst. auto.
  - split; auto. intros _. exists a, us. auto.
Qed.

Lemma v_date_nil val p v : v_date val p v = [] <-> conforms (SDate val) v.
Proof.
  unfold v_date. cbn [conforms].
  destruct (isinst TDate v) eqn:Ei; simpl.
  - destruct val as [e|]; simpl.
    + rewrite check_value_nil. tauto.
    + tauto.
  - split; [discriminate | intros [H _]; discriminate].
Qed.
