(* C15: proofs about the model of `==` between schemas (theories/SchemaEq.v). *)
From Coq Require Import ZArith Bool PrimFloat SpecFloat FloatOps FloatAxioms.
Require Import D42.Prelude D42.PyFloat D42.Value D42.Regex D42.Schema D42.Validate D42.Conforms
               D42.CaseLib D42.SchemaEq.
Require Import D42P.ListLemmas D42P.ScalarSpec D42P.ContainerSpec D42P.FloatFacts D42P.ValidateSpec.

(* ================= `==` on parameter values ================= *)

Lemma int_eq_sym a b : int_eq a b = int_eq b a.
Proof. apply Z.eqb_sym. Qed.
Lemma int_eq_refl a : int_eq a a = true.
Proof. apply Z.eqb_refl. Qed.
Lemma int_eq_iz a b : int_eq a b = true <-> iz a = iz b.
Proof. apply Z.eqb_eq. Qed.
Lemma int_eq_trans a b c : int_eq a b = true -> int_eq b c = true -> int_eq a c = true.
Proof. rewrite !int_eq_iz. congruence. Qed.

Lemma sfcompare_eq_sym x y :
  match SFcompare x y with Some Eq => true | _ => false end =
  match SFcompare y x with Some Eq => true | _ => false end.
Proof.
  destruct x as [s| s| |s m e], y as [t| t| |t n g]; simpl; try reflexivity;
    try (destruct s; reflexivity); try (destruct t; reflexivity);
    try (destruct s, t; reflexivity).
  destruct s, t; try reflexivity;
    rewrite (Z.compare_antisym e g); destruct (e ?= g)%Z; simpl; try reflexivity;
    change (Pos.compare_cont Eq n m) with (Pos.compare_cont (CompOpp Eq) n m);
    rewrite <- (Pos.compare_cont_antisym m n Eq);
    destruct (Pos.compare_cont Eq m n); reflexivity.
Qed.

Lemma feqb_sym a b : PrimFloat.eqb a b = PrimFloat.eqb b a.
Proof. rewrite !FloatAxioms.eqb_spec. unfold SFeqb. apply sfcompare_eq_sym. Qed.

Lemma feqb_refl a : is_nan a = false -> PrimFloat.eqb a a = true.
Proof.
  unfold is_nan, view. rewrite FloatAxioms.eqb_spec. unfold SFeqb.
  destruct (Prim2SF a) as [s| s| |s m e]; simpl; try discriminate; intros _; try reflexivity.
  - destruct s; reflexivity.
  - destruct s; rewrite Z.compare_refl, Pos.compare_cont_refl; reflexivity.
Qed.

Lemma feqb_zeros a b s t :
  Prim2SF a = S754_zero s -> Prim2SF b = S754_zero t -> PrimFloat.eqb a b = true.
Proof. intros Ha Hb. rewrite FloatAxioms.eqb_spec, Ha, Hb. reflexivity. Qed.

Lemma feqb_trans a b c :
  PrimFloat.eqb a b = true -> PrimFloat.eqb b c = true -> PrimFloat.eqb a c = true.
Proof.
  intros H1 H2.
  destruct (eqb_true_cases _ _ H1) as [->|(s & t & Ha & Hb)]; [exact H2|].
  destruct (eqb_true_cases _ _ H2) as [<-|(s' & t' & Hb' & Hc)]; [exact H1|].
  eapply feqb_zeros; eauto.
Qed.

(* a float prop: IEEE equal, or both NaN *)
Lemma float_eq_sym a b : float_eq a b = float_eq b a.
Proof. unfold float_eq. rewrite feqb_sym, (andb_comm (is_nan a)). reflexivity. Qed.

Lemma float_eq_refl a : float_eq a a = true.
Proof.
  unfold float_eq. destruct (is_nan a) eqn:E; [apply orb_true_r|].
  rewrite (feqb_refl a E). reflexivity.
Qed.

Lemma float_eq_cases a b :
  float_eq a b = true ->
  PrimFloat.eqb a b = true \/ (is_nan a = true /\ is_nan b = true).
Proof.
  unfold float_eq. rewrite orb_true_iff, andb_true_iff. tauto.
Qed.

Lemma float_eq_trans a b c : float_eq a b = true -> float_eq b c = true -> float_eq a c = true.
Proof.
  intros H1 H2. unfold float_eq.
  destruct (float_eq_cases _ _ H1) as [E1|[Na Nb]]; destruct (float_eq_cases _ _ H2) as [E2|[Nb' Nc]].
  - rewrite (feqb_trans _ _ _ E1 E2). reflexivity.
  - destruct (eqb_true_not_nan _ _ E1) as [_ X]. congruence.
  - destruct (eqb_true_not_nan _ _ E2) as [X _]. congruence.
  - rewrite Na, Nc. apply orb_true_r.
Qed.

Lemma is_nan_sf m : is_nan m = true -> Prim2SF m = S754_nan.
Proof. unfold is_nan, view. destruct (Prim2SF m); try discriminate; reflexivity. Qed.

Lemma bool_eqb_sym a b : Bool.eqb a b = Bool.eqb b a.
Proof. destruct a, b; reflexivity. Qed.
Lemma list_eqb_sym {A} (eqb : A -> A -> bool) :
  (forall x y, eqb x y = eqb y x) -> forall a b, list_eqb eqb a b = list_eqb eqb b a.
Proof.
  intros H. induction a as [|x a IH]; destruct b as [|y b]; simpl; auto. rewrite H, IH. reflexivity.
Qed.
Lemma str_eqb_sym a b : str_eqb a b = str_eqb b a.
Proof. apply list_eqb_sym. apply N.eqb_sym. Qed.
Lemma bytes_eq_sym a b : bytes_eq a b = bytes_eq b a.
Proof. apply list_eqb_sym. apply N.eqb_sym. Qed.
Lemma dt_eq_sym a b : dt_eq a b = dt_eq b a.
Proof. unfold dt_eq. rewrite bool_eqb_sym, Z.eqb_sym. reflexivity. Qed.
Lemma date_eqb_sym a b : date_eqb a b = date_eqb b a.
Proof.
  destruct a, b; simpl; try reflexivity; [rewrite bool_eqb_sym, Z.eqb_sym | rewrite Z.eqb_sym]; reflexivity.
Qed.
Lemma pat_eq_sym a b : pat_eq a b = pat_eq b a.
Proof. apply str_eqb_sym. Qed.

Lemma bool_eqb_eq a b : Bool.eqb a b = true -> a = b.
Proof. destruct a, b; simpl; congruence. Qed.
Lemma dt_eq_eq a b : dt_eq a b = true -> a = b.
Proof.
  destruct a as [a1 a2], b as [b1 b2]. unfold dt_eq. simpl. rewrite andb_true_iff, Z.eqb_eq.
  intros [H1 ->]. apply bool_eqb_eq in H1. subst. reflexivity.
Qed.
Lemma date_eqb_eq a b : date_eqb a b = true -> a = b.
Proof.
  destruct a, b; simpl; try discriminate.
  - rewrite andb_true_iff, Z.eqb_eq. intros [H1 ->]. apply bool_eqb_eq in H1. subst. reflexivity.
  - rewrite Z.eqb_eq. intros ->. reflexivity.
Qed.
Lemma bytes_eq_eq a b : bytes_eq a b = true -> a = b.
Proof. apply bytes_eqb_eq. Qed.
Lemma str_eqb_refl a : str_eqb a a = true.
Proof. apply str_eqb_eq. reflexivity. Qed.

Lemma key_eqb_eq a b : key_eqb a b = true <-> a = b.
Proof.
  destruct a, b; simpl; try (split; [discriminate | congruence]); try (split; auto; fail).
  - rewrite str_eqb_eq. split; congruence.
  - rewrite Z.eqb_eq. split; congruence.
  - rewrite bytes_eqb_eq. split; congruence.
  - rewrite N.eqb_eq. split; congruence.
Qed.
Lemma key_eqb_refl a : key_eqb a a = true.
Proof. apply key_eqb_eq. reflexivity. Qed.

(* ---- option props ---- *)
Lemma o_eq_sym {A} (eq : A -> A -> bool) :
  (forall x y, eq x y = eq y x) -> forall a b, o_eq eq a b = o_eq eq b a.
Proof. intros H [x|] [y|]; simpl; auto. Qed.
Lemma o_eq_eq {A} (eq : A -> A -> bool) :
  (forall x y, eq x y = true -> x = y) -> forall a b, o_eq eq a b = true -> a = b.
Proof. intros H [x|] [y|]; simpl; try discriminate; auto. intros E. f_equal. auto. Qed.
Lemma o_eq_trans {A} (eq : A -> A -> bool) :
  (forall x y z, eq x y = true -> eq y z = true -> eq x z = true) ->
  forall a b c, o_eq eq a b = true -> o_eq eq b c = true -> o_eq eq a c = true.
Proof. intros H [x|] [y|] [z|]; simpl; try discriminate; eauto. Qed.

Lemma both_same d x : both d x x = x.
Proof. destruct d; simpl; apply andb_diag. Qed.
Lemma both_and d x y : both d x y = x && y.
Proof. destruct d; simpl; auto using andb_comm. Qed.

(* ================= tables of partially applied comparisons ================= *)
Definition otab f (o : option schema) : option cmp :=
  match o with Some x => Some (x, f x) | None => None end.
Definition etab f (l : list (option schema)) : list (option cmp) :=
  map (fun o => match o with Some x => Some (x, f x) | None => None end) l.
Definition dtab (f : schema -> schema -> bool) (l : list dentry) : list (key * option cmp * bool) :=
  map (fun e : dentry =>
         (de_key e, match de_schema e with Some x => Some (x, f x) | None => None end, de_opt e)) l.
Definition ttab (f : schema -> schema -> bool) (l : list schema) : list cmp := map (fun x => (x, f x)) l.

(* pointwise hypotheses about the members of a container *)
Definition on_elems (P : schema -> Prop) (l : list (option schema)) : Prop :=
  Forall (fun o => forall s, o = Some s -> P s) l.
Definition on_entries (P : schema -> Prop) (l : list dentry) : Prop :=
  Forall (fun e => forall s, de_schema e = Some s -> P s) l.

Lemma sprop_eq_ext mk f g o b :
  (forall x, o = Some x -> forall y, f x y = g x y) ->
  sprop_eq mk (otab f o) b = sprop_eq mk (otab g o) b.
Proof. destruct o as [x|], b as [y|]; simpl; auto. Qed.

Lemma elems_eq_ext f g l :
  on_elems (fun x => forall y, f x y = g x y) l ->
  forall l2, elems_eq (etab f l) l2 = elems_eq (etab g l) l2.
Proof.
  induction 1 as [|o l Ho _ IH]; intros [|b l2]; simpl; auto.
  fold (otab f o) (otab g o). rewrite (sprop_eq_ext _ f g o b Ho), IH. reflexivity.
Qed.

Lemma types_eq_ext f g l :
  Forall (fun x => forall y, f x y = g x y) l ->
  forall l2, types_eq (ttab f l) l2 = types_eq (ttab g l) l2.
Proof.
  induction 1 as [|x l Hx _ IH]; intros [|y l2]; simpl; auto. rewrite Hx, IH. reflexivity.
Qed.

Lemma dassoc_dtab f k l :
  dassoc k (dtab f l) =
  match dassoc k l with Some (o, b) => Some (otab f o, b) | None => None end.
Proof.
  induction l as [|[[k' o] b] l IH]; simpl; auto.
  unfold de_key. simpl. destruct (key_eqb k k'); auto.
Qed.

Lemma dassoc_In {X} k (l : list (key * X * bool)) x b :
  dassoc k l = Some (x, b) -> In (k, x, b) l.
Proof.
  induction l as [|[[k' x'] b'] l IH]; simpl; [discriminate|].
  destruct (key_eqb k k') eqn:E.
  - apply key_eqb_eq in E. subst. intros H. inversion H; subst. left. reflexivity.
  - intros H. right. auto.
Qed.

Lemma forallb_ext_in {A} (f g : A -> bool) l :
  (forall x, In x l -> f x = g x) -> forallb f l = forallb g l.
Proof.
  induction l as [|x l IH]; simpl; auto. intros H. rewrite (H x), IH; auto.
Qed.

Lemma forallb_map {A B} (f : B -> bool) (g : A -> B) l :
  forallb f (map g l) = forallb (fun x => f (g x)) l.
Proof. induction l as [|x l IH]; simpl; auto. rewrite IH. reflexivity. Qed.

Lemma on_entries_in P l k o b s :
  on_entries P l -> In (k, o, b) l -> o = Some s -> P s.
Proof.
  unfold on_entries. rewrite Forall_forall. intros H Hin ->. apply (H _ Hin). reflexivity.
Qed.

Lemma dsub_l_ext f g a b :
  on_entries (fun x => forall y, f x y = g x y) a ->
  dsub_l (dtab f a) b = dsub_l (dtab g a) b.
Proof.
  intros H. unfold dsub_l, dtab. rewrite !map_length, !forallb_map. f_equal.
  apply forallb_ext_in. intros [[k o] ob] Hin. unfold de_key, de_schema, de_opt. simpl.
  destruct (dassoc k b) as [[oy o']|]; auto. f_equal.
  apply (sprop_eq_ext VEllipsis f g o oy). intros x -> y. eapply (on_entries_in _ _ _ _ _ _ H Hin eq_refl).
Qed.

Lemma dsub_r_ext f g a b :
  on_entries (fun x => forall y, f x y = g x y) a ->
  dsub_r (dtab f a) b = dsub_r (dtab g a) b.
Proof.
  intros H. unfold dsub_r. fold (dtab f a) (dtab g a). unfold dtab at 1 3. rewrite !map_length. f_equal.
  apply forallb_ext_in. intros e _. rewrite !dassoc_dtab.
  destruct (dassoc (de_key e) a) as [[o ob]|] eqn:E; auto. f_equal.
  apply (sprop_eq_ext VEllipsis f g o (de_schema e)). intros x -> y.
  eapply (on_entries_in _ _ _ _ _ _ H (dassoc_In _ _ _ _ E) eq_refl).
Qed.

(* ================= the two loops collapse into one ================= *)
Fixpoint eqb1 (s1 s2 : schema) {struct s1} : bool :=
  match s1, s2 with
  | SNone, SNone => true
  | SBool v1, SBool v2 => o_eq Bool.eqb v1 v2
  | SInt v1 a1 b1, SInt v2 a2 b2 => o_eq int_eq v1 v2 && o_eq int_eq a1 a2 && o_eq int_eq b1 b2
  | SFloat v1 a1 b1 p1, SFloat v2 a2 b2 p2 =>
      o_eq float_eq v1 v2 && o_eq float_eq a1 a2 && o_eq float_eq b1 b2 && o_eq int_eq p1 p2
  | SStr v1 l1 a1 b1 al1 su1 p1, SStr v2 l2 a2 b2 al2 su2 p2 =>
      o_eq str_eqb v1 v2 && o_eq int_eq l1 l2 && o_eq int_eq a1 a2 && o_eq int_eq b1 b2 &&
      o_eq str_eqb al1 al2 && o_eq str_eqb su1 su2 && o_eq pat_eq p1 p2
  | SList es1 ty1 l1 a1 b1, SList es2 ty2 l2 a2 b2 =>
      oelems_eq (match es1 with
                 | Some l => Some (map (fun o => match o with
                                                 | Some x => Some (x, eqb1 x)
                                                 | None => None end) l)
                 | None => None end) es2 &&
      sprop_eq VNil (match ty1 with Some t => Some (t, eqb1 t) | None => None end) ty2 &&
      o_eq int_eq l1 l2 && o_eq int_eq a1 a2 && o_eq int_eq b1 b2
  | SDict k1, SDict k2 =>
      match k1, k2 with
      | None, None => true
      | Some a, Some b =>
          dsub_l (map (fun e : dentry =>
                         (de_key e,
                          match de_schema e with Some x => Some (x, eqb1 x) | None => None end,
                          de_opt e)) a) b &&
          dsub_r (map (fun e : dentry =>
                         (de_key e,
                          match de_schema e with Some x => Some (x, eqb1 x) | None => None end,
                          de_opt e)) a) b
      | _, _ => false end
  | SAny t1, SAny t2 =>
      otypes_eq (match t1 with Some l => Some (map (fun x => (x, eqb1 x)) l) | None => None end) t2
  | SBytes v1, SBytes v2 => o_eq bytes_eq v1 v2
  | SUuid v1, SUuid v2 => o_eq N.eqb v1 v2
  | SDatetime v1, SDatetime v2 => o_eq dt_eq v1 v2
  | SDate v1, SDate v2 => o_eq date_eqb v1 v2
  | SAlias n1 t1, SAlias n2 t2 => o_eq str_eqb n1 n2 && eqb1 t1 t2
  | SCustom t1, SCustom t2 => eqb1 t1 t2
  | _, _ => false
  end.

Lemma eq_dir_eqb1 : forall s1 s2 d, eq_dir d s1 s2 = eqb1 s1 s2.
Proof.
  induction s1 as [ | val | val mn mx | val mn mx pr | val len mnl mxl al sub pat
                  | es ty len mnl mxl IHes IHty | ks IHks | ts IHts
                  | val | val | val | val | nm t IHt | t IHt ] using schema_ind';
    intros s2 d; destruct s2; try reflexivity; cbn [eq_dir eqb1].
  - rewrite (o_eq_sym Bool.eqb bool_eqb_sym v val). apply both_same.
  - rewrite (o_eq_sym int_eq int_eq_sym v val), (o_eq_sym int_eq int_eq_sym mn0 mn),
      (o_eq_sym int_eq int_eq_sym mx0 mx). apply both_same.
  - rewrite (o_eq_sym float_eq float_eq_sym v val), (o_eq_sym float_eq float_eq_sym mn0 mn),
      (o_eq_sym float_eq float_eq_sym mx0 mx), (o_eq_sym int_eq int_eq_sym prec pr). apply both_same.
  - rewrite (o_eq_sym str_eqb str_eqb_sym v val), (o_eq_sym int_eq int_eq_sym len0 len),
      (o_eq_sym int_eq int_eq_sym mnl0 mnl), (o_eq_sym int_eq int_eq_sym mxl0 mxl),
      (o_eq_sym str_eqb str_eqb_sym alpha al), (o_eq_sym str_eqb str_eqb_sym sub0 sub),
      (o_eq_sym pat_eq pat_eq_sym pat0 pat). apply both_same.
  - (* list *)
    rewrite (o_eq_sym int_eq int_eq_sym len0 len), (o_eq_sym int_eq int_eq_sym mnl0 mnl),
      (o_eq_sym int_eq int_eq_sym mxl0 mxl).
    assert (Ee : forall d', oelems_eq (match es with
                                       | Some l => Some (etab (eq_dir d') l)
                                       | None => None end) es0 =
                            oelems_eq (match es with
                                       | Some l => Some (etab eqb1 l)
                                       | None => None end) es0).
    { intros d'. destruct es as [l|]; [|reflexivity]. destruct es0 as [l2|]; [|reflexivity]. simpl.
      apply elems_eq_ext. specialize (IHes l eq_refl). unfold on_elems.
      eapply Forall_impl; [|exact IHes]. intros o Ho s Hs y. apply (Ho s Hs). }
    assert (Et : forall d', sprop_eq VNil (otab (eq_dir d') ty) ty0 = sprop_eq VNil (otab eqb1 ty) ty0).
    { intros d'. apply sprop_eq_ext. intros x Hx y. apply (IHty x Hx). }
    unfold etab, otab in Ee, Et. rewrite (Ee false), (Ee true), (Et false), (Et true). apply both_same.
  - (* dict *)
    destruct ks as [a|], ks0 as [b|]; try reflexivity.
    specialize (IHks a eq_refl).
    assert (H : forall d', on_entries (fun x => forall y, eq_dir d' x y = eqb1 x y) a).
    { intros d'. unfold on_entries. eapply Forall_impl; [|exact IHks]. intros e He s Hs y. apply (He s Hs). }
    pose proof (dsub_l_ext _ _ a b (H false)) as E1. pose proof (dsub_r_ext _ _ a b (H true)) as E2.
    unfold dtab in E1, E2. rewrite E1, E2. apply both_and.
  - (* any *)
    assert (E : forall d', otypes_eq (match ts with Some l => Some (ttab (eq_dir d') l) | None => None end) ts0 =
                           otypes_eq (match ts with Some l => Some (ttab eqb1 l) | None => None end) ts0).
    { intros d'. destruct ts as [l|]; [|reflexivity]. destruct ts0 as [l2|]; [|reflexivity]. simpl.
      apply types_eq_ext. specialize (IHts l eq_refl).
      eapply Forall_impl; [|exact IHts]. intros x Hx y. apply Hx. }
    unfold ttab in E. rewrite (E false), (E true). apply both_same.
  - rewrite (o_eq_sym bytes_eq bytes_eq_sym v val). apply both_same.
  - rewrite (o_eq_sym N.eqb N.eqb_sym v val). apply both_same.
  - rewrite (o_eq_sym dt_eq dt_eq_sym v val). apply both_same.
  - rewrite (o_eq_sym date_eqb date_eqb_sym v val). apply both_same.
  - rewrite (o_eq_sym str_eqb str_eqb_sym name nm), !IHt. apply both_same.
  - rewrite !IHt. apply both_same.
Qed.

Lemma schema_eqb_eqb1 s1 s2 : schema_eqb s1 s2 = eqb1 s1 s2.
Proof. apply eq_dir_eqb1. Qed.

(* ================= symmetry ================= *)
Lemma sprop_eq_flip mk f g a b :
  (forall x, a = Some x -> forall y, f x y = g y x) ->
  sprop_eq mk (otab f a) b = sprop_eq mk (otab g b) a.
Proof. destruct a as [x|], b as [y|]; simpl; auto. Qed.

Lemma elems_eq_flip f g l1 :
  on_elems (fun x => forall y, f x y = g y x) l1 ->
  forall l2, elems_eq (etab f l1) l2 = elems_eq (etab g l2) l1.
Proof.
  induction 1 as [|o l Ho _ IH]; intros [|b l2]; simpl; auto.
  fold (otab f o) (otab g b). rewrite (sprop_eq_flip _ f g o b Ho), IH. reflexivity.
Qed.

Lemma types_eq_flip f g l1 :
  Forall (fun x => forall y, f x y = g y x) l1 ->
  forall l2, types_eq (ttab f l1) l2 = types_eq (ttab g l2) l1.
Proof.
  induction 1 as [|x l Hx _ IH]; intros [|y l2]; simpl; auto. rewrite Hx, IH. reflexivity.
Qed.

Lemma dsub_flip_lr f g a b :
  on_entries (fun x => forall y, f x y = g y x) a ->
  dsub_l (dtab f a) b = dsub_r (dtab g b) a.
Proof.
  intros H. unfold dsub_l, dsub_r. unfold dtab at 1 2 3. rewrite !map_length, forallb_map. f_equal.
  apply forallb_ext_in. intros [[k o] ob] Hin. rewrite dassoc_dtab.
  unfold de_key, de_schema, de_opt. simpl.
  destruct (dassoc k b) as [[oy o']|]; auto. f_equal.
  apply (sprop_eq_flip VEllipsis f g o oy). intros x -> y. eapply (on_entries_in _ _ _ _ _ _ H Hin eq_refl).
Qed.

Lemma dsub_flip_rl f g a b :
  on_entries (fun x => forall y, f x y = g y x) a ->
  dsub_r (dtab f a) b = dsub_l (dtab g b) a.
Proof.
  intros H. unfold dsub_l, dsub_r. unfold dtab at 1 3 4. rewrite !map_length, forallb_map. f_equal.
  apply forallb_ext_in. intros [[k oy] o'] _. rewrite dassoc_dtab.
  unfold de_key, de_schema, de_opt. simpl.
  destruct (dassoc k a) as [[o ob]|] eqn:E; auto. f_equal.
  apply (sprop_eq_flip VEllipsis f g o oy). intros x -> y.
  eapply (on_entries_in _ _ _ _ _ _ H (dassoc_In _ _ _ _ E) eq_refl).
Qed.

Lemma eqb1_sym : forall s1 s2, eqb1 s1 s2 = eqb1 s2 s1.
Proof.
  induction s1 as [ | val | val mn mx | val mn mx pr | val len mnl mxl al sub pat
                  | es ty len mnl mxl IHes IHty | ks IHks | ts IHts
                  | val | val | val | val | nm t IHt | t IHt ] using schema_ind';
    intros s2; destruct s2; try reflexivity; cbn [eqb1].
  - apply (o_eq_sym Bool.eqb bool_eqb_sym).
  - rewrite (o_eq_sym int_eq int_eq_sym v val), (o_eq_sym int_eq int_eq_sym mn0 mn),
      (o_eq_sym int_eq int_eq_sym mx0 mx). reflexivity.
  - rewrite (o_eq_sym float_eq float_eq_sym v val), (o_eq_sym float_eq float_eq_sym mn0 mn),
      (o_eq_sym float_eq float_eq_sym mx0 mx), (o_eq_sym int_eq int_eq_sym prec pr). reflexivity.
  - rewrite (o_eq_sym str_eqb str_eqb_sym v val), (o_eq_sym int_eq int_eq_sym len0 len),
      (o_eq_sym int_eq int_eq_sym mnl0 mnl), (o_eq_sym int_eq int_eq_sym mxl0 mxl),
      (o_eq_sym str_eqb str_eqb_sym alpha al), (o_eq_sym str_eqb str_eqb_sym sub0 sub),
      (o_eq_sym pat_eq pat_eq_sym pat0 pat). reflexivity.
  - (* list *)
    rewrite (o_eq_sym int_eq int_eq_sym len0 len), (o_eq_sym int_eq int_eq_sym mnl0 mnl),
      (o_eq_sym int_eq int_eq_sym mxl0 mxl).
    assert (Ee : oelems_eq (match es with Some l => Some (etab eqb1 l) | None => None end) es0 =
                 oelems_eq (match es0 with Some l => Some (etab eqb1 l) | None => None end) es).
    { destruct es as [l|], es0 as [l2|]; try reflexivity. simpl.
      apply elems_eq_flip. specialize (IHes l eq_refl). unfold on_elems.
      eapply Forall_impl; [|exact IHes]. intros o Ho s Hs y. apply (Ho s Hs). }
    assert (Et : sprop_eq VNil (otab eqb1 ty) ty0 = sprop_eq VNil (otab eqb1 ty0) ty).
    { apply sprop_eq_flip. intros x Hx y. apply (IHty x Hx). }
    unfold etab, otab in Ee, Et. rewrite Ee, Et. reflexivity.
  - (* dict *)
    destruct ks as [a|], ks0 as [b|]; try reflexivity.
    specialize (IHks a eq_refl).
    assert (H : on_entries (fun x => forall y, eqb1 x y = eqb1 y x) a).
    { unfold on_entries. eapply Forall_impl; [|exact IHks]. intros e He s Hs y. apply (He s Hs). }
    pose proof (dsub_flip_lr _ _ a b H) as E1. pose proof (dsub_flip_rl _ _ a b H) as E2.
    unfold dtab in E1, E2. rewrite E1, E2. apply andb_comm.
  - (* any *)
    destruct ts as [l|], ts0 as [l2|]; try reflexivity. simpl.
    apply (types_eq_flip eqb1 eqb1). specialize (IHts l eq_refl).
    eapply Forall_impl; [|exact IHts]. intros x Hx y. apply Hx.
  - apply (o_eq_sym bytes_eq bytes_eq_sym).
  - apply (o_eq_sym N.eqb N.eqb_sym).
  - apply (o_eq_sym dt_eq dt_eq_sym).
  - apply (o_eq_sym date_eqb date_eqb_sym).
  - rewrite (o_eq_sym str_eqb str_eqb_sym name nm), IHt. reflexivity.
  - apply IHt.
Qed.

Lemma eq_sym_lemma s1 s2 : schema_eqb s1 s2 = schema_eqb s2 s1.
Proof. rewrite !schema_eqb_eqb1. apply eqb1_sym. Qed.

(* ================= which schemas validate a marker ================= *)
Definition typeless (v : value) : bool :=
  match v with VEllipsis | VNil | VOther _ => true | _ => false end.

Lemma existsb_iff {A} (f g : A -> bool) l :
  Forall (fun x => f x = true <-> g x = true) l -> (existsb f l = true <-> existsb g l = true).
Proof.
  induction 1 as [|x l Hx _ IH]; simpl; [tauto|]. rewrite !orb_true_iff, Hx, IH. tauto.
Qed.

Lemma existsb_map {A B} (f : B -> bool) (g : A -> B) l :
  existsb f (map g l) = existsb (fun x => f (g x)) l.
Proof. induction l as [|x l IH]; simpl; auto. rewrite IH. reflexivity. Qed.

Lemma nil_check {A} (l : list A) : match l with [] => true | _ => false end = true <-> l = [].
Proof. destruct l; split; auto; discriminate. Qed.

Lemma any_logic_nil ts fs p v :
  any_logic ts fs p v = [] <->
  existsb (fun f : elemfn => match f p v with [] => true | _ => false end) fs = true.
Proof.
  unfold any_logic, elemfn in *.
  destruct (existsb (fun f : path -> value -> list verror => match f p v with [] => true | _ => false end) fs);
    split; auto; discriminate.
Qed.

Lemma typeless_universal v :
  typeless v = true -> forall s p, validate Plain s p v = [] <-> universal s = true.
Proof.
  intros Hv.
  induction s as [ | val | val mn mx | val mn mx pr | val len mnl mxl al sub pat
                 | es ty len mnl mxl IHes IHty | ks IHks | ts IHts
                 | val | val | val | val | nm t IHt | t IHt ] using schema_ind';
    intros p; cbn [validate universal];
    try (destruct v; try discriminate Hv; cbn; split; discriminate).
  - destruct ts as [l|]; [|split; auto].
    rewrite any_logic_nil, !existsb_map. apply existsb_iff.
    specialize (IHts l eq_refl). eapply Forall_impl; [|exact IHts].
    intros t Ht. simpl. rewrite nil_check. apply Ht.
  - apply IHt.
  - apply IHt.
Qed.

Lemma verdict_nil s v : verdict s v = true <-> validate Plain s [] v = [].
Proof. unfold verdict. destruct (validate Plain s [] v); split; auto; discriminate. Qed.

Lemma bool_iff_eq (a b : bool) : (a = true <-> b = true) -> a = b.
Proof.
  destruct a, b; intros [H1 H2]; try reflexivity;
    [symmetry; apply H1; reflexivity | apply H2; reflexivity].
Qed.

Lemma verdict_ell s : verdict s VEllipsis = universal s.
Proof. apply bool_iff_eq. rewrite verdict_nil. apply (typeless_universal VEllipsis eq_refl). Qed.
Lemma verdict_vnil s : verdict s VNil = universal s.
Proof. apply bool_iff_eq. rewrite verdict_nil. apply (typeless_universal VNil eq_refl). Qed.

Lemma universal_accepts : forall s, universal s = true -> forall p v, validate Plain s p v = [].
Proof.
  induction s as [ | val | val mn mx | val mn mx pr | val len mnl mxl al sub pat
                 | es ty len mnl mxl IHes IHty | ks IHks | ts IHts
                 | val | val | val | val | nm t IHt | t IHt ] using schema_ind';
    cbn [universal validate]; try discriminate; auto.
  destruct ts as [l|]; [|reflexivity]. intros H p v. apply any_logic_nil.
  rewrite existsb_map in H. rewrite existsb_map. apply existsb_exists in H as (t & Hin & Ht). apply existsb_exists.
  exists t. split; [exact Hin|]. specialize (IHts l eq_refl). rewrite Forall_forall in IHts.
  rewrite (IHts t Hin Ht p v). reflexivity.
Qed.

(* ---- reading the hypotheses at a node ---- *)
Lemma fold_and_Forall {A} (P : A -> Prop) l : fold_right and True (map P l) <-> Forall P l.
Proof.
  induction l as [|x l IH]; simpl; [split; auto|]. rewrite IH.
  split; [intros [? ?]; auto | intros H; inversion H; auto].
Qed.

Lemma mf_list es ty len mnl mxl :
  marker_free (SList es ty len mnl mxl) = true ->
  (forall l, es = Some l ->
     Forall (fun o => forall x, o = Some x -> verdict x VEllipsis = false /\ marker_free x = true) l) /\
  (forall t, ty = Some t -> verdict t VNil = false /\ marker_free t = true).
Proof.
  cbn [marker_free]. rewrite andb_true_iff. intros [He Ht]. split.
  - intros l ->. apply forallb_id_map in He. eapply Forall_impl; [|exact He].
    intros o Ho x ->. apply andb_true_iff in Ho as [H1 H2]. apply negb_true_iff in H1. auto.
  - intros t ->. apply andb_true_iff in Ht as [H1 H2]. apply negb_true_iff in H1. auto.
Qed.

Definition entry_mf (e : dentry) : Prop :=
  match de_schema e with
  | Some x => (is_kell (de_key e) = true -> verdict x VEllipsis = false) /\ marker_free x = true
  | None => is_kell (de_key e) = true end.

Lemma mf_dict a : marker_free (SDict (Some a)) = true -> Forall entry_mf a.
Proof.
  cbn [marker_free]. intros H. apply forallb_id_map in H. eapply Forall_impl; [|exact H].
  intros e He. unfold entry_mf. simpl in He. destruct (de_schema e) as [x|]; [|exact He].
  apply andb_true_iff in He as [H1 H2]. split; [|exact H2]. intros Hk. rewrite Hk in H1. simpl in H1.
  apply negb_true_iff in H1. exact H1.
Qed.

Lemma mf_any l : marker_free (SAny (Some l)) = true -> Forall (fun x => marker_free x = true) l.
Proof. cbn [marker_free]. intros H. apply forallb_id_map in H. exact H. Qed.

Section Pats.
  Variable parse : pystr -> list re.

  Lemma pats_list es ty len mnl mxl :
    pats_from parse (SList es ty len mnl mxl) ->
    (forall l, es = Some l -> Forall (fun o => forall x, o = Some x -> pats_from parse x) l) /\
    (forall t, ty = Some t -> pats_from parse t).
  Proof.
    cbn [pats_from]. intros [He Ht]. split.
    - intros l ->. apply fold_and_Forall in He. eapply Forall_impl; [|exact He]. intros o Ho x ->. exact Ho.
    - intros t ->. exact Ht.
  Qed.

  Lemma pats_dict a :
    pats_from parse (SDict (Some a)) ->
    Forall (fun e : dentry => forall x, de_schema e = Some x -> pats_from parse x) a.
  Proof.
    cbn [pats_from]. intros H. apply fold_and_Forall in H. eapply Forall_impl; [|exact H].
    intros e He x Hx. cbv beta in He. rewrite Hx in He. exact He.
  Qed.

  Lemma pats_any l : pats_from parse (SAny (Some l)) -> Forall (pats_from parse) l.
  Proof. cbn [pats_from]. intros H. apply fold_and_Forall in H. exact H. Qed.
End Pats.

(* ================= congruence of the container logic for "no error" ================= *)
Definition nileq (f g : elemfn) : Prop := forall p x, f p x = [] <-> g p x = [].
Definition orel {A B} (R : A -> B -> Prop) (a : option A) (b : option B) : Prop :=
  match a, b with
  | Some x, Some y => R x y
  | None, None => True
  | _, _ => False end.

Lemma velems_cong fs gs :
  Forall2 nileq fs gs -> forall p l i, velems fs p l i = [] <-> velems gs p l i = [].
Proof.
  induction 1 as [|f g fs gs Hfg _ IH]; intros p l i; cbn [velems]; [tauto|].
  destruct (nth_error l i) as [x|]; [|tauto]. rewrite !app_nil_iff, (Hfg _ x), (IH p l (S i)). tauto.
Qed.

Lemma orel_first_ell {A B} (R : A -> B -> Prop) fs gs :
  Forall2 (orel R) fs gs -> first_ell fs = first_ell gs.
Proof. destruct 1 as [|f g ? ? Hfg]; auto. destruct f, g; simpl in *; try contradiction; auto. Qed.
Lemma orel_last_ell {A B} (R : A -> B -> Prop) fs gs :
  Forall2 (orel R) fs gs -> last_ell fs = last_ell gs.
Proof. intros H. unfold last_ell. apply Forall2_rev in H. apply orel_first_ell in H. exact H. Qed.
Lemma orel_classify {A B} (R : A -> B -> Prop) fs gs :
  Forall2 (orel R) fs gs -> classify fs = classify gs.
Proof.
  intros H. unfold classify.
  rewrite (Forall2_len _ _ _ H), (orel_first_ell _ _ _ H), (orel_last_ell _ _ _ H). reflexivity.
Qed.
Lemma orel_middle {A B} (R : A -> B -> Prop) fs gs :
  Forall2 (orel R) fs gs -> Forall2 (orel R) (middle fs) (middle gs).
Proof.
  intros H. unfold middle. rewrite (orel_classify _ _ _ H).
  destruct (classify gs); auto using Forall2_tl, Forall2_removelast.
Qed.
Lemma orel_strip {A B} (R : A -> B -> Prop) fs gs :
  Forall2 (orel R) fs gs -> Forall2 R (strip fs) (strip gs).
Proof.
  induction 1 as [|f g fs gs Hfg H IH]; simpl; auto.
  destruct f, g; simpl in *; try contradiction; auto.
Qed.

Lemma min_map_nil {A} (F : nat -> list A) idxs :
  match map F idxs with [] => [] | w :: ws => min_by_len w ws end = [] <->
  idxs = [] \/ Exists (fun i => F i = []) idxs.
Proof.
  destruct idxs as [|i r]; simpl; [split; auto|].
  rewrite min_by_len_nil. change (F i :: map F r) with (map F (i :: r)). rewrite Exists_map.
  split; [auto | intros [H|H]; [discriminate | exact H]].
Qed.

Lemma Exists_iff {A} (P Q : A -> Prop) l : (forall x, P x <-> Q x) -> Exists P l <-> Exists Q l.
Proof. intros H. rewrite !Exists_exists. split; intros (x & Hin & Hx); exists x; split; auto; apply H; auto. Qed.

Lemma list_logic_cong fs gs p l :
  Forall2 (orel nileq) fs gs -> (list_logic fs p l = [] <-> list_logic gs p l = []).
Proof.
  intros H. unfold list_logic.
  pose proof (orel_classify _ _ _ H) as Hc.
  pose proof (orel_strip _ _ _ (orel_middle _ _ _ H)) as Hs.
  pose proof (Forall2_len _ _ _ (orel_middle _ _ _ H)) as Hml.
  pose proof (Forall2_len _ _ _ H) as Hl.
  rewrite <- Hc. destruct (classify fs).
  - destruct l as [|x l]; [apply velems_cong; exact Hs|].
    rewrite !min_map_nil. apply or_iff_compat_l. apply Exists_iff. intros i. apply velems_cong. exact Hs.
  - apply velems_cong; exact Hs.
  - rewrite Hml. apply velems_cong; exact Hs.
  - rewrite !app_nil_iff, Hl, (velems_cong _ _ Hs). tauto.
Qed.

Lemma typed_logic_cong f g p l :
  nileq f g -> (typed_logic Plain f p l = [] <-> typed_logic Plain g p l = []).
Proof.
  intros H. unfold typed_logic. rewrite !flat_map_nil_iff, !Forall_forall.
  split; intros H0 ix Hin; specialize (H0 ix Hin); simpl in *; apply H; exact H0.
Qed.

Lemma any_exists_cong (fs gs : list elemfn) p v :
  Forall2 (fun f g => f p v = [] <-> g p v = []) fs gs ->
  (existsb (fun f : elemfn => match f p v with [] => true | _ => false end) fs = true <->
   existsb (fun f : elemfn => match f p v with [] => true | _ => false end) gs = true).
Proof.
  induction 1 as [|f g fs gs Hfg _ IH]; simpl; [tauto|].
  rewrite !orb_true_iff, !nil_check, Hfg, IH. tauto.
Qed.

(* ================= float parameters that compare equal validate alike ================= *)
Section Zeros.
  Variables (z1 z2 : float) (s t : bool).
  Hypothesis H1 : Prim2SF z1 = S754_zero s.
  Hypothesis H2 : Prim2SF z2 = S754_zero t.

  Lemma zero_eqb_r x : PrimFloat.eqb x z1 = PrimFloat.eqb x z2.
  Proof. rewrite !FloatAxioms.eqb_spec, H1, H2. unfold SFeqb. destruct (Prim2SF x); reflexivity. Qed.
  Lemma zero_ltb_r x : PrimFloat.ltb x z1 = PrimFloat.ltb x z2.
  Proof. rewrite !FloatAxioms.ltb_spec, H1, H2. unfold SFltb. destruct (Prim2SF x); reflexivity. Qed.
  Lemma zero_ltb_l x : PrimFloat.ltb z1 x = PrimFloat.ltb z2 x.
  Proof. rewrite !FloatAxioms.ltb_spec, H1, H2. unfold SFltb. destruct (Prim2SF x); reflexivity. Qed.

  Lemma zero_is_inf : is_inf z1 = false /\ is_inf z2 = false.
  Proof. unfold is_inf, view. rewrite H1, H2. split; reflexivity. Qed.

  Lemma zero_sub x : (forall u, Prim2SF x <> S754_zero u) -> PrimFloat.sub z1 x = PrimFloat.sub z2 x.
  Proof.
    intros Hx. apply Prim2SF_inj. rewrite !sub_spec, H1, H2. unfold SF64sub, SFsub.
    destruct (Prim2SF x) as [u| u| |u m e]; try reflexivity. exfalso. apply (Hx u). reflexivity.
  Qed.

  Lemma zero_abs_mul r : PrimFloat.abs (PrimFloat.mul r z1) = PrimFloat.abs (PrimFloat.mul r z2).
  Proof.
    apply Prim2SF_inj. rewrite !abs_spec, !mul_spec, H1, H2. unfold SF64mul, SFmul.
    destruct (Prim2SF r) as [u| u| |u m e]; reflexivity.
  Qed.

  Lemma zero_isclose x : isclose x z1 = isclose x z2.
  Proof.
    unfold isclose, isclose_gen. rewrite (zero_eqb_r x).
    destruct (PrimFloat.eqb x z2) eqn:E; [reflexivity|].
    destruct zero_is_inf as [-> ->].
    destruct (is_inf x); [reflexivity|]. cbn [orb].
    assert (Hx : forall u, Prim2SF x <> S754_zero u).
    { intros u Hu. rewrite FloatAxioms.eqb_spec, Hu, H2 in E. discriminate. }
    rewrite (zero_sub x Hx), (zero_abs_mul rel_tol_default). reflexivity.
  Qed.

  Lemma zero_prec_equal x p : prec_equal x z1 p = prec_equal x z2 p.
  Proof.
    unfold prec_equal.
    rewrite (py_round_zero_mul z1 s _ H1), (py_round_zero_mul z2 t _ H2), (zero_eqb_r x). reflexivity.
  Qed.
End Zeros.

Lemma float_eq_value_ok x e1 e2 p1 p2 :
  float_eq e1 e2 = true -> o_eq int_eq p1 p2 = true ->
  float_value_ok x e1 p1 = float_value_ok x e2 p2.
Proof.
  intros He Hp. unfold float_value_ok.
  destruct (float_eq_cases _ _ He) as [Ee|[N1 N2]].
  2:{ rewrite N1, N2, !orb_true_r. reflexivity. }
  destruct (eqb_true_not_nan _ _ Ee) as [-> ->].
  destruct (is_nan x); [reflexivity|]. cbn [orb].
  destruct p1 as [p1|], p2 as [p2|]; try discriminate Hp.
  - apply int_eq_iz in Hp. rewrite Hp.
    destruct (eqb_true_cases _ _ Ee) as [->|(s & t & Ha & Hb)]; [reflexivity|].
    apply (zero_prec_equal e1 e2 s t Ha Hb).
  - destruct (eqb_true_cases _ _ Ee) as [->|(s & t & Ha & Hb)]; [reflexivity|].
    apply (zero_isclose e1 e2 s t Ha Hb).
Qed.

Lemma float_eq_ltb x m1 m2 :
  float_eq m1 m2 = true ->
  PrimFloat.ltb x m1 = PrimFloat.ltb x m2 /\ PrimFloat.ltb m1 x = PrimFloat.ltb m2 x.
Proof.
  intros He. destruct (float_eq_cases _ _ He) as [Ee|[N1 N2]].
  - destruct (eqb_true_cases _ _ Ee) as [->|(s & t & Ha & Hb)]; [split; reflexivity|].
    split; [apply (zero_ltb_r m1 m2 s t Ha Hb) | apply (zero_ltb_l m1 m2 s t Ha Hb)].
  - apply is_nan_sf in N1, N2. rewrite !FloatAxioms.ltb_spec, N1, N2. unfold SFltb.
    split; destruct (Prim2SF x); reflexivity.
Qed.

(* ================= scalar schemas ================= *)
Lemma oh_int (a b : option intv) (F : Z -> Prop) :
  o_eq int_eq a b = true -> (opt_holds a (fun e => F (iz e)) <-> opt_holds b (fun e => F (iz e))).
Proof.
  destruct a as [x|], b as [y|]; simpl; try discriminate; [|tauto].
  rewrite int_eq_iz. intros ->. tauto.
Qed.

Lemma len_ok_cong n l1 a1 b1 l2 a2 b2 :
  o_eq int_eq l1 l2 = true -> o_eq int_eq a1 a2 = true -> o_eq int_eq b1 b2 = true ->
  (len_ok n l1 a1 b1 <-> len_ok n l2 a2 b2).
Proof.
  intros H1 H2 H3. unfold len_ok.
  rewrite (oh_int l1 l2 (fun k => n = k) H1), (oh_int a1 a2 (fun k => (k <= n)%Z) H2),
    (oh_int b1 b2 (fun k => (n <= k)%Z) H3). tauto.
Qed.

Lemma sint_cong v1 a1 b1 v2 a2 b2 p v :
  o_eq int_eq v1 v2 = true -> o_eq int_eq a1 a2 = true -> o_eq int_eq b1 b2 = true ->
  (v_int v1 a1 b1 p v = [] <-> v_int v2 a2 b2 p v = []).
Proof.
  intros H1 H2 H3. rewrite !v_int_nil. cbn [conforms].
  split; intros (z & Hz & Hv & Hmn & Hmx); exists z; (split; [exact Hz|]).
  - rewrite <- (oh_int v1 v2 (fun k => z = k) H1), <- (oh_int a1 a2 (fun k => (k <= z)%Z) H2),
      <- (oh_int b1 b2 (fun k => (z <= k)%Z) H3). auto.
  - rewrite (oh_int v1 v2 (fun k => z = k) H1), (oh_int a1 a2 (fun k => (k <= z)%Z) H2),
      (oh_int b1 b2 (fun k => (z <= k)%Z) H3). auto.
Qed.

Lemma oh_float (a b : option float) (F : float -> Prop) :
  (forall x y, float_eq x y = true -> (F x <-> F y)) ->
  o_eq float_eq a b = true -> (opt_holds a F <-> opt_holds b F).
Proof. intros HF. destruct a as [x|], b as [y|]; simpl; try discriminate; [apply HF | tauto]. Qed.

Lemma sfloat_cong v1 a1 b1 p1 v2 a2 b2 p2 p v :
  o_eq float_eq v1 v2 = true -> o_eq float_eq a1 a2 = true -> o_eq float_eq b1 b2 = true ->
  o_eq int_eq p1 p2 = true ->
  (v_float v1 a1 b1 p1 p v = [] <-> v_float v2 a2 b2 p2 p v = []).
Proof.
  intros H1 H2 H3 H4. rewrite !v_float_nil. cbn [conforms].
  assert (E1 : forall x, opt_holds v1 (fun e => float_value_ok x e p1 = true) <->
                         opt_holds v2 (fun e => float_value_ok x e p2 = true)).
  { intros x. destruct v1 as [e1|], v2 as [e2|]; simpl in *; try discriminate; [|tauto].
    rewrite (float_eq_value_ok x e1 e2 p1 p2 H1 H4). tauto. }
  assert (E2 : forall x, opt_holds a1 (fun m => PrimFloat.ltb x m = false) <->
                         opt_holds a2 (fun m => PrimFloat.ltb x m = false)).
  { intros x. apply oh_float; [|exact H2]. intros m1 m2 Hm.
    destruct (float_eq_ltb x m1 m2 Hm) as [-> _]. tauto. }
  assert (E3 : forall x, opt_holds b1 (fun m => PrimFloat.ltb m x = false) <->
                         opt_holds b2 (fun m => PrimFloat.ltb m x = false)).
  { intros x. apply oh_float; [|exact H3]. intros m1 m2 Hm.
    destruct (float_eq_ltb x m1 m2 Hm) as [_ ->]. tauto. }
  split; intros (x & Hx & Hv & Hmn & Hmx); exists x; (split; [exact Hx|]).
  - rewrite <- E1, <- E2, <- E3. auto.
  - rewrite E1, E2, E3. auto.
Qed.

Lemma sstr_cong v l1 a1 b1 l2 a2 b2 al su pat p x :
  o_eq int_eq l1 l2 = true -> o_eq int_eq a1 a2 = true -> o_eq int_eq b1 b2 = true ->
  (v_str v l1 a1 b1 al su pat p x = [] <-> v_str v l2 a2 b2 al su pat p x = []).
Proof.
  intros H1 H2 H3. unfold v_str. destruct x; try tauto.
  destruct (match v with Some e => check_value p (VStr s) (VStr e) | None => [] end); [|tauto].
  destruct (match pat with
            | Some pt => if pat_search pt s then [] else [VE (ERegex pt) p (VStr s)]
            | None => [] end); [|tauto].
  rewrite !app_nil_iff, !check_len_nil, (len_ok_cong _ _ _ _ _ _ _ H1 H2 H3). tauto.
Qed.

(* ================= key tables ================= *)
Definition vtab (ents : list dentry) : list (key * (option elemfn * bool)) :=
  map (fun e : dentry =>
         (de_key e,
          (match de_schema e with Some sch => Some (validate Plain sch) | None => None end,
           de_opt e))) ents.

Definition tincl (fs gs : list (key * (option elemfn * bool))) : Prop :=
  forall k f o, In (k, (f, o)) fs -> exists g, In (k, (g, o)) gs /\ orel nileq f g.

Lemma nileq_sym f g : nileq f g -> nileq g f.
Proof. intros H p x. symmetry. apply H. Qed.
Lemma orel_nileq_sym f g : orel nileq f g -> orel nileq g f.
Proof. destruct f, g; simpl; auto using nileq_sym. Qed.

Lemma dict_members_incl fs gs p d :
  tincl fs gs -> dict_members Plain gs p d = [] -> dict_members Plain fs p d = [].
Proof.
  intros H. unfold dict_members. rewrite !flat_map_nil_iff, !Forall_forall.
  intros Hg [k [f o]] Hin. destruct (H k f o Hin) as (g & Hing & Hr).
  specialize (Hg _ Hing). cbn in *. destruct (is_kell k); [reflexivity|].
  destruct (assoc k d) as [x|]; [|exact Hg].
  destruct f as [f|], g as [g|]; simpl in Hr; try contradiction; [|reflexivity].
  apply Hr. exact Hg.
Qed.

Lemma declared_incl fs gs k :
  tincl fs gs -> declared k fs = true -> declared k gs = true.
Proof.
  intros H. unfold declared. rewrite !existsb_exists. intros ([k' [f o]] & Hin & Hk).
  destruct (H k' f o Hin) as (g & Hing & _). exists (k', (g, o)). auto.
Qed.

Lemma dict_logic_cong fs gs p d :
  tincl fs gs -> tincl gs fs -> (dict_logic Plain fs p d = [] <-> dict_logic Plain gs p d = []).
Proof.
  intros H1 H2. unfold dict_logic. rewrite !app_nil_iff, !dict_extras_iff.
  assert (E : forall k, declared k fs = declared k gs).
  { intros k. apply bool_iff_eq. split; apply declared_incl; assumption. }
  rewrite (E KEll). split; intros [Hm He]; split.
  - eapply dict_members_incl; eauto.
  - intros Hk k x Hin. rewrite <- E. eapply He; eauto.
  - eapply dict_members_incl; eauto.
  - intros Hk k x Hin. rewrite E. eapply He; eauto.
Qed.

(* ================= equal schemas give the same verdicts ================= *)
Definition vf (o : option schema) : option elemfn :=
  match o with Some sch => Some (validate Plain sch) | None => None end.

Lemma member_rel mk ox oy :
  (forall x, ox = Some x -> forall y, oy = Some y -> eqb1 x y = true ->
             nileq (validate Plain x) (validate Plain y)) ->
  (forall x, ox = Some x -> oy = None -> verdict x mk = false) ->
  (forall y, oy = Some y -> ox = None -> verdict y mk = false) ->
  sprop_eq mk (otab eqb1 ox) oy = true ->
  orel nileq (vf ox) (vf oy).
Proof.
  destruct ox as [x|], oy as [y|]; simpl; intros H1 H2 H3 H; auto.
  - rewrite (H2 x eq_refl eq_refl) in H. discriminate.
  - rewrite (H3 y eq_refl eq_refl) in H. discriminate.
Qed.

Section SameVerdicts.
  Variable parse : pystr -> list re.

  Definition SV (s1 : schema) : Prop :=
    forall s2, pats_from parse s1 -> pats_from parse s2 ->
               marker_free s1 = true -> marker_free s2 = true ->
               eqb1 s1 s2 = true -> nileq (validate Plain s1) (validate Plain s2).

  Lemma elems_rel l1 : forall l2,
    on_elems SV l1 ->
    Forall (fun o => forall x, o = Some x -> pats_from parse x) l1 ->
    Forall (fun o => forall x, o = Some x -> pats_from parse x) l2 ->
    Forall (fun o => forall x, o = Some x -> verdict x VEllipsis = false /\ marker_free x = true) l1 ->
    Forall (fun o => forall x, o = Some x -> verdict x VEllipsis = false /\ marker_free x = true) l2 ->
    elems_eq (etab eqb1 l1) l2 = true ->
    Forall2 (orel nileq) (map vf l1) (map vf l2).
  Proof.
    induction l1 as [|ox l1 IH]; intros [|oy l2] HS P1 P2 M1 M2 H; simpl in H; try discriminate;
      [constructor|].
    apply andb_true_iff in H as [Hh Ht].
    apply Forall_cons_iff in HS as [HS0 HS]. apply Forall_cons_iff in P1 as [P10 P1].
    apply Forall_cons_iff in P2 as [P20 P2]. apply Forall_cons_iff in M1 as [M10 M1].
    apply Forall_cons_iff in M2 as [M20 M2].
    simpl. constructor; [|apply IH; assumption].
    apply (member_rel VEllipsis); [| | |exact Hh].
    - intros x -> y -> E. apply (HS0 x eq_refl y); auto.
      + apply (M10 x eq_refl). + apply (M20 y eq_refl).
    - intros x -> _. apply (M10 x eq_refl).
    - intros y -> _. apply (M20 y eq_refl).
  Qed.

  Lemma types_rel l1 : forall l2,
    Forall SV l1 -> Forall (pats_from parse) l1 -> Forall (pats_from parse) l2 ->
    Forall (fun x => marker_free x = true) l1 -> Forall (fun x => marker_free x = true) l2 ->
    types_eq (ttab eqb1 l1) l2 = true ->
    Forall2 nileq (map (fun t => validate Plain t) l1) (map (fun t => validate Plain t) l2).
  Proof.
    induction l1 as [|x l1 IH]; intros [|y l2] HS P1 P2 M1 M2 H; simpl in H; try discriminate;
      [constructor|].
    apply andb_true_iff in H as [Hh Ht].
    apply Forall_cons_iff in HS as [HS0 HS]. apply Forall_cons_iff in P1 as [P10 P1].
    apply Forall_cons_iff in P2 as [P20 P2]. apply Forall_cons_iff in M1 as [M10 M1].
    apply Forall_cons_iff in M2 as [M20 M2].
    simpl. constructor; [apply HS0; assumption | apply IH; assumption].
  Qed.

  Lemma vtab_in k f o a :
    In (k, (f, o)) (vtab a) -> exists ox, In (k, ox, o) a /\ f = vf ox.
  Proof.
    unfold vtab. rewrite in_map_iff. intros ([[k' ox] o'] & E & Hin).
    unfold de_key, de_schema, de_opt in E. simpl in E. inversion E; subst. exists ox. auto.
  Qed.
  Lemma in_vtab k ox o a : In (k, ox, o) a -> In (k, (vf ox, o)) (vtab a).
  Proof. intros H. unfold vtab. apply in_map_iff. exists (k, ox, o). auto. Qed.

  Lemma entry_rel k ox oy o o' a b :
    on_entries SV a ->
    Forall (fun e : dentry => forall x, de_schema e = Some x -> pats_from parse x) a ->
    Forall (fun e : dentry => forall x, de_schema e = Some x -> pats_from parse x) b ->
    Forall entry_mf a -> Forall entry_mf b ->
    In (k, ox, o) a -> In (k, oy, o') b ->
    sprop_eq VEllipsis (otab eqb1 ox) oy = true ->
    orel nileq (vf ox) (vf oy).
  Proof.
    intros HS P1 P2 M1 M2 Ia Ib H.
    unfold on_entries in HS. rewrite Forall_forall in HS, P1, P2, M1, M2.
    pose proof (M1 _ Ia) as Ma. pose proof (M2 _ Ib) as Mb. unfold entry_mf, de_key, de_schema in Ma, Mb.
    simpl in Ma, Mb.
    apply (member_rel VEllipsis); [| | |exact H].
    - intros x -> y -> E. apply (HS _ Ia x eq_refl y); auto.
      + apply (P1 _ Ia x eq_refl). + apply (P2 _ Ib y eq_refl). + apply Ma. + apply Mb.
    - intros x -> ->. apply Ma. exact Mb.
    - intros y -> ->. apply Mb. exact Ma.
  Qed.

  Lemma dict_rel a b :
    on_entries SV a ->
    Forall (fun e : dentry => forall x, de_schema e = Some x -> pats_from parse x) a ->
    Forall (fun e : dentry => forall x, de_schema e = Some x -> pats_from parse x) b ->
    Forall entry_mf a -> Forall entry_mf b ->
    dsub_l (dtab eqb1 a) b = true -> dsub_r (dtab eqb1 a) b = true ->
    tincl (vtab a) (vtab b) /\ tincl (vtab b) (vtab a).
  Proof.
    intros HS P1 P2 M1 M2 Hl Hr. split.
    - intros k f o Hin. apply vtab_in in Hin as (ox & Ia & ->).
      unfold dsub_l in Hl. apply andb_true_iff in Hl as [_ Hl]. rewrite forallb_forall in Hl.
      assert (It : In (k, otab eqb1 ox, o) (dtab eqb1 a)).
      { unfold dtab. apply in_map_iff. exists (k, ox, o). auto. }
      specialize (Hl _ It). cbn [fst snd] in Hl.
      destruct (dassoc k b) as [[oy o']|] eqn:E; [|discriminate].
      apply andb_true_iff in Hl as [Hs Ho]. apply bool_eqb_eq in Ho. subst o'.
      apply dassoc_In in E. exists (vf oy). split; [apply in_vtab; exact E|].
      eapply entry_rel; eauto.
    - intros k f o' Hin. apply vtab_in in Hin as (oy & Ib & ->).
      unfold dsub_r in Hr. apply andb_true_iff in Hr as [_ Hr]. rewrite forallb_forall in Hr.
      specialize (Hr _ Ib). unfold de_key, de_schema, de_opt in Hr. cbn [fst snd] in Hr.
      rewrite dassoc_dtab in Hr.
      destruct (dassoc k a) as [[ox o]|] eqn:E; [|discriminate].
      apply andb_true_iff in Hr as [Hs Ho]. apply bool_eqb_eq in Ho. subst o'.
      apply dassoc_In in E. exists (vf ox). split; [apply in_vtab; exact E|].
      apply orel_nileq_sym. eapply entry_rel; eauto.
  Qed.

  Lemma nonnil_iff {A} (a b : A) (l1 l2 : list A) : (a :: l1 = [] <-> b :: l2 = []).
  Proof. split; discriminate. Qed.

  Lemma same_verdicts_SV : forall s1, SV s1.
  Proof.
    induction s1 as [ | val | val mn mx | val mn mx pr | val len mnl mxl al sub pat
                    | es ty len mnl mxl IHes IHty | ks IHks | ts IHts
                    | val | val | val | val | nm t IHt | t IHt ] using schema_ind';
      intros s2 P1 P2 M1 M2 E; destruct s2; try discriminate E; cbn [eqb1] in E; intros p x;
      cbn [validate].
    - tauto.
    - apply (o_eq_eq _ bool_eqb_eq) in E. subst. tauto.
    - apply andb_true_iff in E as [E E3]. apply andb_true_iff in E as [E1 E2]. apply sint_cong; assumption.
    - apply andb_true_iff in E as [E E4]. apply andb_true_iff in E as [E E3].
      apply andb_true_iff in E as [E1 E2]. apply sfloat_cong; assumption.
    - (* str *)
      apply andb_true_iff in E as [E E7]. apply andb_true_iff in E as [E E6].
      apply andb_true_iff in E as [E E5]. apply andb_true_iff in E as [E E4].
      apply andb_true_iff in E as [E E3]. apply andb_true_iff in E as [E1 E2].
      apply (o_eq_eq _ (fun a b => proj1 (str_eqb_eq a b))) in E1, E5, E6. subst.
      assert (pat = pat0) as ->.
      { cbn [pats_from] in P1, P2. destruct pat as [[t1 r1]|], pat0 as [[t2 r2]|]; simpl in E7; try discriminate; auto.
        unfold pat_eq in E7. simpl in *. apply str_eqb_eq in E7. subst. reflexivity. }
      apply sstr_cong; assumption.
    - (* list *)
      apply andb_true_iff in E as [E E5]. apply andb_true_iff in E as [E E4].
      apply andb_true_iff in E as [E E3]. apply andb_true_iff in E as [E1 E2].
      destruct x; try tauto.
      pose proof (check_len_first_nil p (VList l) (zlen l) len mnl mxl) as L1.
      pose proof (check_len_first_nil p (VList l) (zlen l) len0 mnl0 mxl0) as L2.
      rewrite (len_ok_cong _ _ _ _ _ _ _ E3 E4 E5) in L1.
      destruct (check_len_first p (VList l) (zlen l) len mnl mxl) eqn:C1;
        destruct (check_len_first p (VList l) (zlen l) len0 mnl0 mxl0) eqn:C2.
      2:{ exfalso. assert (X : v :: l0 = []) by (apply L2, L1; reflexivity). discriminate. }
      2:{ exfalso. assert (X : v :: l0 = []) by (apply L1, L2; reflexivity). discriminate. }
      2:{ apply nonnil_iff. }
      destruct (mf_list _ _ _ _ _ M1) as [Me1 Mt1]. destruct (mf_list _ _ _ _ _ M2) as [Me2 Mt2].
      destruct (pats_list _ _ _ _ _ _ P1) as [Pe1 Pt1]. destruct (pats_list _ _ _ _ _ _ P2) as [Pe2 Pt2].
      assert (Rt : orel nileq (vf ty) (vf ty0)).
      { apply (member_rel VNil); [| | |exact E2].
        - intros t -> t0 -> Et. apply (IHty t eq_refl t0); auto.
          + apply (Mt1 t eq_refl). + apply (Mt2 t0 eq_refl).
        - intros t -> _. apply (Mt1 t eq_refl).
        - intros t0 -> _. apply (Mt2 t0 eq_refl). }
      destruct ty as [t|], ty0 as [t0|]; simpl in Rt; try contradiction.
      + apply typed_logic_cong. exact Rt.
      + destruct es as [l1|], es0 as [l2|]; simpl in E1; try discriminate; [|tauto].
        apply list_logic_cong. apply (elems_rel l1 l2); auto. apply (IHes l1 eq_refl).
    - (* dict *)
      destruct x; try tauto.
      destruct ks as [a|], ks0 as [b|]; try discriminate E; [|tauto].
      apply andb_true_iff in E as [El Er].
      destruct (dict_rel a b (IHks a eq_refl) (pats_dict _ _ P1) (pats_dict _ _ P2)
                  (mf_dict _ M1) (mf_dict _ M2) El Er) as [I1 I2].
      apply (dict_logic_cong (vtab a) (vtab b) p d I1 I2).
    - (* any *)
      destruct ts as [l1|], ts0 as [l2|]; simpl in E; try discriminate E; [|tauto].
      rewrite !any_logic_nil. apply any_exists_cong.
      pose proof (types_rel l1 l2 (IHts l1 eq_refl) (pats_any _ _ P1) (pats_any _ _ P2)
                    (mf_any _ M1) (mf_any _ M2) E) as R.
      clear - R. induction R as [|f g fs gs Hfg _ IH]; constructor; auto.
    - apply (o_eq_eq _ bytes_eq_eq) in E. subst. tauto.
    - apply (o_eq_eq _ (fun a b => proj1 (N.eqb_eq a b))) in E. subst. tauto.
    - apply (o_eq_eq _ dt_eq_eq) in E. subst. tauto.
    - apply (o_eq_eq _ date_eqb_eq) in E. subst. tauto.
    - apply andb_true_iff in E as [_ E]. apply (IHt s2); auto.
    - apply (IHt s2); auto.
  Qed.

  Lemma eq_same_verdicts_lemma s1 s2 :
    pats_from parse s1 -> pats_from parse s2 ->
    marker_free s1 = true -> marker_free s2 = true ->
    schema_eqb s1 s2 = true -> forall v, verdict s1 v = verdict s2 v.
  Proof.
    intros P1 P2 M1 M2 E v. rewrite schema_eqb_eqb1 in E.
    apply bool_iff_eq. rewrite !verdict_nil. apply (same_verdicts_SV s1 s2 P1 P2 M1 M2 E).
  Qed.
End SameVerdicts.

(* ================= transitivity ================= *)
Definition TR (s1 : schema) : Prop :=
  forall s2 s3, marker_free s1 = true -> marker_free s2 = true -> marker_free s3 = true ->
                eqb1 s1 s2 = true -> eqb1 s2 s3 = true -> eqb1 s1 s3 = true.

Lemma member_trans mk ox oy oz :
  (forall x, ox = Some x -> forall y z, oy = Some y -> oz = Some z ->
             eqb1 x y = true -> eqb1 y z = true -> eqb1 x z = true) ->
  (forall x, (ox = Some x \/ oy = Some x \/ oz = Some x) -> (ox = None \/ oy = None \/ oz = None) ->
             verdict x mk = false) ->
  sprop_eq mk (otab eqb1 ox) oy = true -> sprop_eq mk (otab eqb1 oy) oz = true ->
  sprop_eq mk (otab eqb1 ox) oz = true.
Proof.
  intros HT Hm.
  destruct ox as [x|], oy as [y|], oz as [z|]; simpl; intros H12 H23; auto;
    try (eapply HT; eauto; fail); exfalso.
  - assert (F : verdict y mk = false) by (apply Hm; auto). congruence.
  - assert (F : verdict x mk = false) by (apply Hm; auto). congruence.
  - assert (F : verdict y mk = false) by (apply Hm; auto). congruence.
Qed.

Notation emf := (fun o : option schema =>
                   forall x, o = Some x -> verdict x VEllipsis = false /\ marker_free x = true).

Lemma elems_trans l1 : forall l2 l3,
  on_elems TR l1 -> Forall emf l1 -> Forall emf l2 -> Forall emf l3 ->
  elems_eq (etab eqb1 l1) l2 = true -> elems_eq (etab eqb1 l2) l3 = true ->
  elems_eq (etab eqb1 l1) l3 = true.
Proof.
  induction l1 as [|ox l1 IH]; intros [|oy l2] [|oz l3] HS M1 M2 M3 H12 H23; simpl in *;
    try discriminate; auto.
  apply andb_true_iff in H12 as [Ha Hb]. apply andb_true_iff in H23 as [Hc Hd].
  apply Forall_cons_iff in HS as [HS0 HS]. apply Forall_cons_iff in M1 as [M10 M1].
  apply Forall_cons_iff in M2 as [M20 M2]. apply Forall_cons_iff in M3 as [M30 M3].
  apply andb_true_iff. split; [|apply (IH l2 l3); assumption].
  fold (otab eqb1 ox). fold (otab eqb1 ox) in Ha. fold (otab eqb1 oy) in Hc.
  apply (member_trans VEllipsis ox oy oz); [| |exact Ha|exact Hc].
  - intros x -> y z -> -> E1 E2. apply (HS0 x eq_refl y z); auto.
    + apply (M10 x eq_refl). + apply (M20 y eq_refl). + apply (M30 z eq_refl).
  - intros x [E|[E|E]] _; [apply (M10 x E) | apply (M20 x E) | apply (M30 x E)].
Qed.

Lemma types_trans l1 : forall l2 l3,
  Forall TR l1 -> Forall (fun x => marker_free x = true) l1 -> Forall (fun x => marker_free x = true) l2 ->
  Forall (fun x => marker_free x = true) l3 ->
  types_eq (ttab eqb1 l1) l2 = true -> types_eq (ttab eqb1 l2) l3 = true ->
  types_eq (ttab eqb1 l1) l3 = true.
Proof.
  induction l1 as [|x l1 IH]; intros [|y l2] [|z l3] HS M1 M2 M3 H12 H23; simpl in *;
    try discriminate; auto.
  apply andb_true_iff in H12 as [Ha Hb]. apply andb_true_iff in H23 as [Hc Hd].
  apply Forall_cons_iff in HS as [HS0 HS]. apply Forall_cons_iff in M1 as [M10 M1].
  apply Forall_cons_iff in M2 as [M20 M2]. apply Forall_cons_iff in M3 as [M30 M3].
  apply andb_true_iff. split; [apply (HS0 y z); assumption | apply (IH l2 l3); assumption].
Qed.

Lemma dsub_l_iff a b :
  dsub_l (dtab eqb1 a) b = true <->
  length a = length b /\
  forall k ox o, In (k, ox, o) a ->
    exists oy, dassoc k b = Some (oy, o) /\ sprop_eq VEllipsis (otab eqb1 ox) oy = true.
Proof.
  unfold dsub_l. unfold dtab at 1. rewrite map_length, andb_true_iff, Nat.eqb_eq, forallb_forall.
  split; intros [Hlen H]; split; auto.
  - intros k ox o Hin.
    assert (It : In (k, otab eqb1 ox, o) (dtab eqb1 a)).
    { unfold dtab. apply in_map_iff. exists (k, ox, o). auto. }
    specialize (H _ It). cbn [fst snd] in H.
    destruct (dassoc k b) as [[oy o']|]; [|discriminate].
    apply andb_true_iff in H as [Hs Ho]. apply bool_eqb_eq in Ho. subst. eauto.
  - intros e Hin. unfold dtab in Hin. apply in_map_iff in Hin as ([[k ox] o] & <- & Hin).
    unfold de_key, de_schema, de_opt. cbn [fst snd].
    destruct (H k ox o Hin) as (oy & -> & Hs). fold (otab eqb1 ox). rewrite Hs, eqb_reflx. reflexivity.
Qed.

Lemma dsub_r_iff a b :
  dsub_r (dtab eqb1 a) b = true <->
  length b = length a /\
  forall k oy o, In (k, oy, o) b ->
    exists ox, dassoc k a = Some (ox, o) /\ sprop_eq VEllipsis (otab eqb1 ox) oy = true.
Proof.
  unfold dsub_r. unfold dtab at 1. rewrite map_length, andb_true_iff, Nat.eqb_eq, forallb_forall.
  split; intros [Hlen H]; split; auto.
  - intros k oy o Hin. specialize (H _ Hin). unfold de_key, de_schema, de_opt in H. cbn [fst snd] in H.
    rewrite dassoc_dtab in H. destruct (dassoc k a) as [[ox o']|]; [|discriminate].
    apply andb_true_iff in H as [Hs Ho]. apply bool_eqb_eq in Ho. subst. eauto.
  - intros [[k oy] o] Hin. unfold de_key, de_schema, de_opt. cbn [fst snd]. rewrite dassoc_dtab.
    destruct (H k oy o Hin) as (ox & -> & Hs). rewrite Hs, eqb_reflx. reflexivity.
Qed.

Lemma entry_marker (a b : list dentry) k x o o' :
  Forall entry_mf a -> Forall entry_mf b -> In (k, Some x, o) a -> In (k, None, o') b ->
  verdict x VEllipsis = false.
Proof.
  rewrite !Forall_forall. intros Ma Mb Ia Ib.
  pose proof (Ma _ Ia) as H1. pose proof (Mb _ Ib) as H2. unfold entry_mf, de_key, de_schema in *.
  simpl in *. apply H1. exact H2.
Qed.

Lemma entry_trans a b c k ox oy oz o1 o2 o3 :
  on_entries TR a -> Forall entry_mf a -> Forall entry_mf b -> Forall entry_mf c ->
  In (k, ox, o1) a -> In (k, oy, o2) b -> In (k, oz, o3) c ->
  sprop_eq VEllipsis (otab eqb1 ox) oy = true -> sprop_eq VEllipsis (otab eqb1 oy) oz = true ->
  sprop_eq VEllipsis (otab eqb1 ox) oz = true.
Proof.
  intros HS Ma Mb Mc Ia Ib Ic H12 H23.
  apply (member_trans VEllipsis ox oy oz); [| |exact H12|exact H23].
  - intros x -> y z -> -> E1 E2.
    unfold on_entries in HS. rewrite Forall_forall in HS, Ma, Mb, Mc.
    apply (HS _ Ia x eq_refl y z); auto.
    + apply (Ma _ Ia). + apply (Mb _ Ib). + apply (Mc _ Ic).
  - intros x Hs Hn.
    destruct Hs as [ -> | [ -> | -> ] ]; destruct Hn as [E|[E|E]]; try discriminate E; subst.
    + apply (entry_marker a b k x o1 o2); assumption.
    + apply (entry_marker a c k x o1 o3); assumption.
    + apply (entry_marker b a k x o2 o1); assumption.
    + apply (entry_marker b c k x o2 o3); assumption.
    + apply (entry_marker c a k x o3 o1); assumption.
    + apply (entry_marker c b k x o3 o2); assumption.
Qed.

Lemma dict_trans a b c :
  on_entries TR a -> Forall entry_mf a -> Forall entry_mf b -> Forall entry_mf c ->
  dsub_l (dtab eqb1 a) b = true -> dsub_r (dtab eqb1 a) b = true ->
  dsub_l (dtab eqb1 b) c = true -> dsub_r (dtab eqb1 b) c = true ->
  dsub_l (dtab eqb1 a) c = true /\ dsub_r (dtab eqb1 a) c = true.
Proof.
  intros HS Ma Mb Mc L1 R1 L2 R2.
  apply dsub_l_iff in L1 as [N1 L1]. apply dsub_r_iff in R1 as [N1' R1].
  apply dsub_l_iff in L2 as [N2 L2]. apply dsub_r_iff in R2 as [N2' R2].
  split.
  - apply dsub_l_iff. split; [congruence|]. intros k ox o Ia.
    destruct (L1 k ox o Ia) as (oy & Eb & S12). pose proof (dassoc_In _ _ _ _ Eb) as Ib.
    destruct (L2 k oy o Ib) as (oz & Ec & S23). pose proof (dassoc_In _ _ _ _ Ec) as Ic.
    exists oz. split; [exact Ec|]. apply (entry_trans a b c k ox oy oz o o o); assumption.
  - apply dsub_r_iff. split; [congruence|]. intros k oz o Ic.
    destruct (R2 k oz o Ic) as (oy & Eb & S23). pose proof (dassoc_In _ _ _ _ Eb) as Ib.
    destruct (R1 k oy o Ib) as (ox & Ea & S12). pose proof (dassoc_In _ _ _ _ Ea) as Ia.
    exists ox. split; [exact Ea|]. apply (entry_trans a b c k ox oy oz o o o); assumption.
Qed.

Lemma eqb1_trans : forall s1, TR s1.
Proof.
  induction s1 as [ | val | val mn mx | val mn mx pr | val len mnl mxl al sub pat
                  | es ty len mnl mxl IHes IHty | ks IHks | ts IHts
                  | val | val | val | val | nm t IHt | t IHt ] using schema_ind';
    intros s2 s3 M1 M2 M3 E12 E23; destruct s2; try discriminate E12; destruct s3; try discriminate E23;
    cbn [eqb1] in *.
  - reflexivity.
  - eapply (o_eq_trans Bool.eqb); eauto. intros x y z H1 H2. apply bool_eqb_eq in H1, H2. subst. destruct z; reflexivity.
  - repeat (apply andb_true_iff in E12 as [E12 ?]). repeat (apply andb_true_iff in E23 as [E23 ?]).
    repeat (apply andb_true_iff; split); eapply (o_eq_trans int_eq int_eq_trans); eauto.
  - repeat (apply andb_true_iff in E12 as [E12 ?]). repeat (apply andb_true_iff in E23 as [E23 ?]).
    repeat (apply andb_true_iff; split);
      first [eapply (o_eq_trans float_eq float_eq_trans); eassumption
            | eapply (o_eq_trans int_eq int_eq_trans); eassumption].
  - repeat (apply andb_true_iff in E12 as [E12 ?]). repeat (apply andb_true_iff in E23 as [E23 ?]).
    assert (ST : forall x y z, str_eqb x y = true -> str_eqb y z = true -> str_eqb x z = true).
    { intros x y z H1' H2'. apply str_eqb_eq in H1', H2'. subst. apply str_eqb_refl. }
    assert (PT : forall x y z, pat_eq x y = true -> pat_eq y z = true -> pat_eq x z = true).
    { intros x y z. unfold pat_eq. apply ST. }
    repeat (apply andb_true_iff; split);
      first [eapply (o_eq_trans str_eqb ST); eassumption
            | eapply (o_eq_trans int_eq int_eq_trans); eassumption
            | eapply (o_eq_trans pat_eq PT); eassumption].
  - (* list *)
    apply andb_true_iff in E12 as [E12 A5]. apply andb_true_iff in E12 as [E12 A4].
    apply andb_true_iff in E12 as [E12 A3]. apply andb_true_iff in E12 as [A1 A2].
    apply andb_true_iff in E23 as [E23 B5]. apply andb_true_iff in E23 as [E23 B4].
    apply andb_true_iff in E23 as [E23 B3]. apply andb_true_iff in E23 as [B1 B2].
    destruct (mf_list _ _ _ _ _ M1) as [Me1 Mt1]. destruct (mf_list _ _ _ _ _ M2) as [Me2 Mt2].
    destruct (mf_list _ _ _ _ _ M3) as [Me3 Mt3].
    repeat (apply andb_true_iff; split);
      try (eapply (o_eq_trans int_eq int_eq_trans); eassumption).
    + destruct es as [l1|], es0 as [l2|], es1 as [l3|]; simpl in *; try discriminate; auto.
      apply (elems_trans l1 l2 l3); auto. apply (IHes l1 eq_refl).
    + fold (otab eqb1 ty). fold (otab eqb1 ty) in A2. fold (otab eqb1 ty0) in B2.
      apply (member_trans VNil ty ty0 ty1); [| |exact A2|exact B2].
      * intros x -> y z -> -> E1 E2. apply (IHty x eq_refl y z); auto.
        -- apply (Mt1 x eq_refl). -- apply (Mt2 y eq_refl). -- apply (Mt3 z eq_refl).
      * intros x [E|[E|E]] _; [apply (Mt1 x E) | apply (Mt2 x E) | apply (Mt3 x E)].
  - (* dict *)
    destruct ks as [a|], ks0 as [b|]; try discriminate E12; destruct ks1 as [c|]; try discriminate E23; auto.
    apply andb_true_iff in E12 as [L1 R1]. apply andb_true_iff in E23 as [L2 R2].
    destruct (dict_trans a b c (IHks a eq_refl) (mf_dict _ M1) (mf_dict _ M2) (mf_dict _ M3) L1 R1 L2 R2)
      as [L3 R3].
    unfold dtab in L3, R3. rewrite L3, R3. reflexivity.
  - (* any *)
    destruct ts as [l1|], ts0 as [l2|]; try discriminate E12; destruct ts1 as [l3|]; try discriminate E23; auto.
    simpl in *. apply (types_trans l1 l2 l3); auto using mf_any.
  - eapply (o_eq_trans bytes_eq); eauto. intros x y z H1 H2. apply bytes_eq_eq in H1, H2. subst. apply bytes_eqb_eq. reflexivity.
  - eapply (o_eq_trans N.eqb); eauto. intros x y z H1 H2. apply N.eqb_eq in H1, H2. subst. apply N.eqb_refl.
  - eapply (o_eq_trans dt_eq); eauto. intros x y z H1 H2. apply dt_eq_eq in H1. subst. exact H2.
  - eapply (o_eq_trans date_eqb); eauto. intros x y z H1 H2. apply date_eqb_eq in H1. subst. exact H2.
  - apply andb_true_iff in E12 as [N12 T12]. apply andb_true_iff in E23 as [N23 T23].
    apply andb_true_iff. split.
    + eapply (o_eq_trans str_eqb); eauto. intros x y z H1 H2. apply str_eqb_eq in H1, H2. subst. apply str_eqb_refl.
    + apply (IHt s2 s3); auto.
  - apply (IHt s2 s3); auto.
Qed.

Lemma eq_trans_lemma s1 s2 s3 :
  marker_free s1 = true -> marker_free s2 = true -> marker_free s3 = true ->
  schema_eqb s1 s2 = true -> schema_eqb s2 s3 = true -> schema_eqb s1 s3 = true.
Proof. rewrite !schema_eqb_eqb1. apply eqb1_trans. Qed.

(* ================= independent builds of one declaration; reflexivity ================= *)
Fixpoint elems_same (x y : list (option schema)) : bool :=
  match x, y with
  | [], [] => true
  | None :: x', None :: y' => elems_same x' y'
  | Some u :: x', Some w :: y' => schema_same u w && elems_same x' y'
  | _, _ => false end.
Fixpoint entries_same (x y : list dentry) : bool :=
  match x, y with
  | [], [] => true
  | (ka, sa, oa) :: x', (kb, sb, ob) :: y' =>
      key_eqb ka kb && Bool.eqb oa ob &&
      match sa, sb with
      | None, None => true
      | Some u, Some w => schema_same u w
      | _, _ => false end && entries_same x' y'
  | _, _ => false end.
Fixpoint types_same (x y : list schema) : bool :=
  match x, y with
  | [], [] => true
  | u :: x', w :: y' => schema_same u w && types_same x' y'
  | _, _ => false end.

Lemma schema_same_list es1 t1 l1 a1 b1 es2 t2 l2 a2 b2 :
  schema_same (SList es1 t1 l1 a1 b1) (SList es2 t2 l2 a2 b2) =
  (match es1, es2 with
   | None, None => true
   | Some x, Some y => elems_same x y
   | _, _ => false end &&
   match t1, t2 with
   | None, None => true
   | Some u, Some w => schema_same u w
   | _, _ => false end &&
   ointv_same l1 l2 && ointv_same a1 a2 && ointv_same b1 b2).
Proof. reflexivity. Qed.
Lemma schema_same_dict k1 k2 :
  schema_same (SDict k1) (SDict k2) =
  match k1, k2 with
  | None, None => true
  | Some x, Some y => entries_same x y
  | _, _ => false end.
Proof. reflexivity. Qed.
Lemma schema_same_any t1 t2 :
  schema_same (SAny t1) (SAny t2) =
  match t1, t2 with
  | None, None => true
  | Some x, Some y => types_same x y
  | _, _ => false end.
Proof. reflexivity. Qed.

Lemma same_eq a b : same a b = true -> a = b.
Proof.
  unfold same. intros H. apply Prim2SF_inj.
  destruct (Prim2SF a) as [s| s| |s m e], (Prim2SF b) as [t| t| |t n g]; try discriminate; auto.
  - apply bool_eqb_eq in H. subst. reflexivity.
  - apply bool_eqb_eq in H. subst. reflexivity.
  - apply andb_true_iff in H as [H H3]. apply andb_true_iff in H as [H1 H2].
    apply bool_eqb_eq in H1. apply Pos.eqb_eq in H2. apply Z.eqb_eq in H3. subst. reflexivity.
Qed.
Lemma same_refl a : same a a = true.
Proof.
  unfold same. destruct (Prim2SF a) as [s| s| |s m e]; auto using eqb_reflx.
  rewrite eqb_reflx, Pos.eqb_refl, Z.eqb_refl. reflexivity.
Qed.

Lemma intv_same_int_eq a b : intv_same a b = true -> int_eq a b = true.
Proof.
  destruct a, b; simpl; try discriminate; unfold int_eq; simpl.
  - intros H. apply Z.eqb_eq in H. subst. apply Z.eqb_refl.
  - intros H. apply bool_eqb_eq in H. subst. apply Z.eqb_refl.
Qed.
Lemma intv_same_refl a : intv_same a a = true.
Proof. destruct a; simpl; [apply Z.eqb_refl | apply eqb_reflx]. Qed.

Lemma o_same_int a b : ointv_same a b = true -> o_eq int_eq a b = true.
Proof. destruct a, b; simpl; auto using intv_same_int_eq. Qed.
Lemma o_same_float a b : ofloat_same a b = true -> o_eq float_eq a b = true.
Proof.
  destruct a as [x|], b as [y|]; simpl; auto. intros H. apply same_eq in H. subst.
  apply float_eq_refl.
Qed.
Lemma option_eqb_refl {A} (eq : A -> A -> bool) :
  (forall x, eq x x = true) -> forall a, option_eqb eq a a = true.
Proof. intros H [x|]; simpl; auto. Qed.

Lemma date_same_eq v v' : date_eqb v v = true -> value_same v v' = true -> date_eqb v v' = true.
Proof. destruct v, v'; simpl; try discriminate; auto. Qed.

Definition RB (s : schema) : Prop :=
  forall s', schema_same s s' = true -> keys_distinct s = true -> date_params_ok s = true ->
             eqb1 s s' = true.

Notation econd := (fun o : option schema =>
                     forall x, o = Some x -> keys_distinct x = true /\ date_params_ok x = true).

Lemma cond_list es ty len mnl mxl :
  keys_distinct (SList es ty len mnl mxl) = true -> date_params_ok (SList es ty len mnl mxl) = true ->
  (forall l, es = Some l -> Forall econd l) /\
  (forall t, ty = Some t -> keys_distinct t = true /\ date_params_ok t = true).
Proof.
  cbn [keys_distinct date_params_ok]. rewrite !andb_true_iff. intros [K1 K2] [N1 N2]. split.
  - intros l ->. apply forallb_id_map in K1, N1. rewrite Forall_forall in *.
    intros o Ho x ->. split; [apply (K1 _ Ho) | apply (N1 _ Ho)].
  - intros t ->. auto.
Qed.

Lemma elems_rebuild l1 : forall l2,
  on_elems RB l1 -> Forall econd l1 -> elems_same l1 l2 = true -> elems_eq (etab eqb1 l1) l2 = true.
Proof.
  induction l1 as [|[x|] l1 IH]; intros [|[y|] l2] HS HC H; simpl in *; try discriminate; auto;
    apply Forall_cons_iff in HS as [HS0 HS]; apply Forall_cons_iff in HC as [HC0 HC].
  - apply andb_true_iff in H as [H1 H2]. destruct (HC0 x eq_refl) as [K N].
    rewrite (HS0 x eq_refl y H1 K N). simpl. apply IH; assumption.
  - apply IH; assumption.
Qed.

Lemma types_rebuild l1 : forall l2,
  Forall RB l1 -> Forall (fun x => keys_distinct x = true /\ date_params_ok x = true) l1 ->
  types_same l1 l2 = true -> types_eq (ttab eqb1 l1) l2 = true.
Proof.
  induction l1 as [|x l1 IH]; intros [|y l2] HS HC H; simpl in *; try discriminate; auto.
  apply Forall_cons_iff in HS as [HS0 HS]. apply Forall_cons_iff in HC as [[K N] HC].
  apply andb_true_iff in H as [H1 H2]. rewrite (HS0 y H1 K N). simpl. apply IH; assumption.
Qed.

(* positional agreement of two key tables *)
Definition erel (e1 e2 : dentry) : Prop :=
  de_key e1 = de_key e2 /\ de_opt e1 = de_opt e2 /\
  sprop_eq VEllipsis (otab eqb1 (de_schema e1)) (de_schema e2) = true.

Lemma entries_rebuild a : forall b,
  on_entries RB a ->
  Forall (fun e : dentry => forall x, de_schema e = Some x -> keys_distinct x = true /\ date_params_ok x = true) a ->
  entries_same a b = true -> Forall2 erel a b.
Proof.
  induction a as [|[[ka sa] oa] a IH]; intros [|[[kb sb] ob] b] HS HC H; simpl in H; try discriminate;
    [constructor|].
  apply Forall_cons_iff in HS as [HS0 HS]. apply Forall_cons_iff in HC as [HC0 HC].
  apply andb_true_iff in H as [H H4]. apply andb_true_iff in H as [H H3]. apply andb_true_iff in H as [H1 H2].
  constructor; [|apply IH; assumption].
  unfold erel, de_key, de_opt, de_schema in *. simpl in *.
  apply key_eqb_eq in H1. apply bool_eqb_eq in H2. repeat split; auto.
  destruct sa as [x|], sb as [y|]; simpl; try discriminate; auto.
  destruct (HC0 x eq_refl) as [K N]. apply (HS0 x eq_refl y H3 K N).
Qed.

Lemma erel_keys a b : Forall2 erel a b -> map de_key a = map de_key b.
Proof. induction 1 as [|e1 e2 a b (Hk & _) _ IH]; simpl; congruence. Qed.

Lemma notin_keys k1 k keys :
  existsb (key_eqb k1) keys = false -> In k keys -> key_eqb k k1 = false.
Proof.
  intros H Hin. destruct (key_eqb k k1) eqn:E; [|reflexivity].
  apply key_eqb_eq in E. subst. exfalso.
  assert (X : existsb (key_eqb k1) keys = true) by (apply existsb_exists; exists k1; auto using key_eqb_refl).
  congruence.
Qed.

Lemma in_keys (k : key) (o : option schema) (b : bool) (l : list dentry) :
  In (k, o, b) l -> In k (map de_key l).
Proof. intros H. apply in_map_iff. exists (k, o, b). auto. Qed.

Lemma pos_lookup a b :
  Forall2 erel a b -> nodup_keys (map de_key a) = true ->
  (forall k ox o, In (k, ox, o) a ->
      exists oy, dassoc k b = Some (oy, o) /\ sprop_eq VEllipsis (otab eqb1 ox) oy = true) /\
  (forall k oy o, In (k, oy, o) b ->
      exists ox, dassoc k a = Some (ox, o) /\ sprop_eq VEllipsis (otab eqb1 ox) oy = true).
Proof.
  induction 1 as [|[[k1 o1] b1] [[k2 o2] b2] a b (Hk & Ho & Hs) HR IH]; intros Hnd.
  - split; intros ? ? ? [].
  - unfold de_key, de_opt, de_schema in Hk, Ho, Hs. simpl in Hk, Ho, Hs. subst k2 b2.
    simpl in Hnd. unfold de_key at 1 in Hnd. simpl in Hnd.
    apply andb_true_iff in Hnd as [Hn1 Hn2]. apply negb_true_iff in Hn1.
    destruct (IH Hn2) as [IH1 IH2]. split.
    + intros k ox o [E|Hin].
      * inversion E; subst. exists o2. simpl. rewrite key_eqb_refl. auto.
      * pose proof (notin_keys k1 k _ Hn1 (in_keys _ _ _ _ Hin)) as Hne.
        destruct (IH1 k ox o Hin) as (oy & E & S). exists oy. simpl. rewrite Hne. auto.
    + intros k oy o [E|Hin].
      * inversion E; subst. exists o1. simpl. rewrite key_eqb_refl. auto.
      * assert (Hk' : In k (map de_key a)) by (rewrite (erel_keys _ _ HR); eapply in_keys; eauto).
        pose proof (notin_keys k1 k _ Hn1 Hk') as Hne.
        destruct (IH2 k oy o Hin) as (ox & E & S). exists ox. simpl. rewrite Hne. auto.
Qed.

Lemma eqb1_rebuild : forall s, RB s.
Proof.
  induction s as [ | val | val mn mx | val mn mx pr | val len mnl mxl al sub pat
                 | es ty len mnl mxl IHes IHty | ks IHks | ts IHts
                 | val | val | val | val | nm t IHt | t IHt ] using schema_ind';
    intros s' H K N; destruct s'; try discriminate H.
  - reflexivity.
  - exact H.
  - cbn [schema_same] in H. cbn [eqb1].
    apply andb_true_iff in H as [H H3]. apply andb_true_iff in H as [H1 H2].
    rewrite (o_same_int _ _ H1), (o_same_int _ _ H2), (o_same_int _ _ H3). reflexivity.
  - cbn [schema_same] in H. cbn [eqb1].
    apply andb_true_iff in H as [H H4]. apply andb_true_iff in H as [H H3]. apply andb_true_iff in H as [H1 H2].
    rewrite (o_same_float _ _ H1), (o_same_float _ _ H2), (o_same_float _ _ H3), (o_same_int _ _ H4).
    reflexivity.
  - cbn [schema_same] in H. cbn [eqb1].
    apply andb_true_iff in H as [H H7]. apply andb_true_iff in H as [H H6]. apply andb_true_iff in H as [H H5].
    apply andb_true_iff in H as [H H4]. apply andb_true_iff in H as [H H3]. apply andb_true_iff in H as [H1 H2].
    unfold ostr_same in *. unfold o_eq at 1 5 6 7.
    rewrite H1, H5, H6, (o_same_int _ _ H2), (o_same_int _ _ H3), (o_same_int _ _ H4). simpl.
    exact H7.
  - (* list *)
    rewrite schema_same_list in H. cbn [eqb1].
    apply andb_true_iff in H as [H H5]. apply andb_true_iff in H as [H H4]. apply andb_true_iff in H as [H H3].
    apply andb_true_iff in H as [H1 H2].
    destruct (cond_list _ _ _ _ _ K N) as [Ce Ct].
    rewrite (o_same_int _ _ H3), (o_same_int _ _ H4), (o_same_int _ _ H5).
    repeat (apply andb_true_iff; split); auto.
    + destruct es as [l1|], es0 as [l2|]; try discriminate H1; auto. simpl.
      apply (elems_rebuild l1 l2 (IHes l1 eq_refl) (Ce l1 eq_refl) H1).
    + destruct ty as [t|], ty0 as [t0|]; try discriminate H2; auto. simpl.
      destruct (Ct t eq_refl) as [Kt Nt]. apply (IHty t eq_refl t0 H2 Kt Nt).
  - (* dict *)
    rewrite schema_same_dict in H. cbn [eqb1].
    destruct ks as [a|], ks0 as [b|]; try discriminate H; auto.
    cbn [keys_distinct date_params_ok] in K, N. apply andb_true_iff in K as [Kd K].
    apply forallb_id_map in K, N.
    assert (HC : Forall (fun e : dentry => forall x, de_schema e = Some x ->
                           keys_distinct x = true /\ date_params_ok x = true) a).
    { rewrite Forall_forall in *. intros e He x Hx. specialize (K e He). specialize (N e He).
      cbv beta in K, N. rewrite Hx in K, N. auto. }
    pose proof (entries_rebuild a b (IHks a eq_refl) HC H) as HR.
    destruct (pos_lookup a b HR Kd) as [L R].
    pose proof (Forall2_len _ _ _ HR) as Hlen.
    assert (E1 : dsub_l (dtab eqb1 a) b = true) by (apply dsub_l_iff; auto).
    assert (E2 : dsub_r (dtab eqb1 a) b = true) by (apply dsub_r_iff; auto).
    unfold dtab in E1, E2. rewrite E1, E2. reflexivity.
  - (* any *)
    rewrite schema_same_any in H. cbn [eqb1].
    destruct ts as [l1|], ts0 as [l2|]; try discriminate H; auto. simpl.
    cbn [keys_distinct date_params_ok] in K, N. apply forallb_id_map in K, N.
    apply (types_rebuild l1 l2 (IHts l1 eq_refl)); [|exact H].
    rewrite Forall_forall in *. intros x Hx. split; [apply (K x Hx) | apply (N x Hx)].
  - exact H.
  - exact H.
  - exact H.
  - cbn [schema_same] in H. cbn [eqb1]. cbn [date_params_ok] in N.
    destruct val as [x|], v as [x'|]; simpl in *; try discriminate; auto.
    apply date_same_eq; assumption.
  - cbn [schema_same] in H. cbn [eqb1]. apply andb_true_iff in H as [H1 H2].
    unfold ostr_same in H1. unfold o_eq. rewrite H1. simpl. apply (IHt s' H2 K N).
  - cbn [schema_same] in H. cbn [eqb1]. apply (IHt s' H K N).
Qed.

Lemma rebuild_equal_lemma s s' :
  schema_same s s' = true -> keys_distinct s = true -> date_params_ok s = true ->
  schema_eqb s s' = true.
Proof. rewrite schema_eqb_eqb1. apply eqb1_rebuild. Qed.

(* schema_same is reflexive (floats bitwise: NaN included) on schemas whose date parameter is a date *)
Lemma schema_same_refl : forall s, date_params_ok s = true -> schema_same s s = true.
Proof.
  induction s as [ | val | val mn mx | val mn mx pr | val len mnl mxl al sub pat
                 | es ty len mnl mxl IHes IHty | ks IHks | ts IHts
                 | val | val | val | val | nm t IHt | t IHt ] using schema_ind'; intros N.
  - reflexivity.
  - apply option_eqb_refl. apply eqb_reflx.
  - cbn [schema_same]. unfold ointv_same. rewrite !(option_eqb_refl _ intv_same_refl). reflexivity.
  - cbn [schema_same]. unfold ointv_same, ofloat_same.
    rewrite !(option_eqb_refl _ intv_same_refl), !(option_eqb_refl _ same_refl). reflexivity.
  - cbn [schema_same]. unfold ointv_same, ostr_same.
    rewrite !(option_eqb_refl _ intv_same_refl), !(option_eqb_refl _ str_eqb_refl).
    rewrite (option_eqb_refl (fun x y : pystr * list re => str_eqb (fst x) (fst y))); [reflexivity|].
    intros x. apply str_eqb_refl.
  - rewrite schema_same_list. unfold ointv_same. rewrite !(option_eqb_refl _ intv_same_refl).
    cbn [date_params_ok] in N. apply andb_true_iff in N as [N1 N2].
    repeat (apply andb_true_iff; split); auto.
    + destruct es as [l|]; auto. specialize (IHes l eq_refl). apply forallb_id_map in N1.
      induction l as [|[x|] l IH]; simpl; auto;
        apply Forall_cons_iff in IHes as [I0 I]; apply Forall_cons_iff in N1 as [N0 N1].
      * rewrite (I0 x eq_refl N0). simpl. apply IH; assumption.
      * apply IH; assumption.
    + destruct ty as [t|]; auto.
  - rewrite schema_same_dict. destruct ks as [a|]; auto. specialize (IHks a eq_refl).
    cbn [date_params_ok] in N. apply forallb_id_map in N.
    induction a as [|[[k o] b] a IH]; simpl; auto.
    apply Forall_cons_iff in IHks as [I0 I]. apply Forall_cons_iff in N as [N0 N].
    rewrite key_eqb_refl, eqb_reflx, (IH I N). unfold de_schema in *. simpl in *.
    destruct o as [x|]; auto. rewrite (I0 x eq_refl N0). reflexivity.
  - rewrite schema_same_any. destruct ts as [l|]; auto. specialize (IHts l eq_refl).
    cbn [date_params_ok] in N. apply forallb_id_map in N.
    induction l as [|x l IH]; simpl; auto.
    apply Forall_cons_iff in IHts as [I0 I]. apply Forall_cons_iff in N as [N0 N].
    rewrite (I0 N0), (IH I N). reflexivity.
  - apply option_eqb_refl. intros x. apply bytes_eqb_eq. reflexivity.
  - apply option_eqb_refl. apply N.eqb_refl.
  - apply option_eqb_refl. intros x. rewrite eqb_reflx, Z.eqb_refl. reflexivity.
  - cbn [schema_same]. destruct val as [v|]; auto. cbn [date_params_ok] in N. simpl.
    destruct v; simpl in *; try discriminate; auto.
  - cbn [schema_same]. unfold ostr_same. rewrite (option_eqb_refl _ str_eqb_refl). apply IHt. exact N.
  - cbn [schema_same]. apply IHt. exact N.
Qed.

Lemma eq_refl_lemma s :
  keys_distinct s = true -> date_params_ok s = true -> schema_eqb s s = true.
Proof. intros K N. apply rebuild_equal_lemma; auto using schema_same_refl. Qed.

(* ================= remaining statements ================= *)
Lemma ne_is_negb_lemma s1 s2 : schema_neb s1 s2 = negb (schema_eqb s1 s2).
Proof. reflexivity. Qed.
Lemma ne_value_is_negb_lemma s v : schema_ne_value s v = negb (schema_eq_value s v).
Proof. reflexivity. Qed.

Lemma eq_value_is_validate_lemma s v :
  schema_eq_value s v = true <-> validate Plain s [] v = [].
Proof. apply verdict_nil. Qed.

Lemma eq_value_iff_conforms_lemma s v :
  wf s = true -> (schema_eq_value s v = true <-> conforms s v).
Proof. intros H. apply verdict_iff_conforms_lemma. exact H. Qed.

(* discrimination: a variant some value tells apart is unequal *)
Lemma discriminated_unequal_lemma parse s1 s2 v :
  pats_from parse s1 -> pats_from parse s2 -> marker_free s1 = true -> marker_free s2 = true ->
  verdict s1 v <> verdict s2 v -> schema_eqb s1 s2 = false.
Proof.
  intros P1 P2 M1 M2 Hv. destruct (schema_eqb s1 s2) eqn:E; [|reflexivity].
  exfalso. apply Hv. apply (eq_same_verdicts_lemma parse s1 s2 P1 P2 M1 M2 E).
Qed.

(* one object compared with itself: the identity shortcut only adds equalities *)
Lemma eqb1_self : forall s, eqb1 s s = true -> schema_eqb_self s = true.
Proof.
  induction s as [ | val | val mn mx | val mn mx pr | val len mnl mxl al sub pat
                 | es ty len mnl mxl IHes IHty | ks IHks | ts IHts
                 | val | val | val | val | nm t IHt | t IHt ] using schema_ind';
    cbn [eqb1 schema_eqb_self]; auto.
  - intros H. apply andb_true_iff in H as [H _]. apply andb_true_iff in H as [H H3].
    apply andb_true_iff in H as [H1 H2].
    destruct val, mn, mx; simpl in *; rewrite ?float_eq_refl; reflexivity.
  - destruct ty as [t|]; auto. intros H.
    apply andb_true_iff in H as [H _]. apply andb_true_iff in H as [H _]. apply andb_true_iff in H as [H _].
    apply andb_true_iff in H as [_ H]. simpl in H. apply (IHty t eq_refl H).
  - destruct val; auto.
  - intros H. apply andb_true_iff in H as [_ H]. auto.
Qed.

Lemma eq_self_lemma s : schema_eqb s s = true -> schema_eqb_self s = true.
Proof. rewrite schema_eqb_eqb1. apply eqb1_self. Qed.

Lemma marker_free_universal_elems es ty len mnl mxl l x :
  marker_free (SList es ty len mnl mxl) = true -> es = Some l -> In (Some x) l -> universal x = false.
Proof.
  intros M -> Hin. destruct (mf_list _ _ _ _ _ M) as [Me _]. specialize (Me l eq_refl).
  rewrite Forall_forall in Me. destruct (Me _ Hin x eq_refl) as [H _]. rewrite <- verdict_ell. exact H.
Qed.

(* ================= witnesses against the unconditional statements ================= *)
(* schema.list([schema.any]), schema.list([...]), schema.list([schema.alias("x", schema.any)]) *)
Definition ex_list_any : schema := SList (Some [Some (SAny None)]) None None None None.
Definition ex_list_ell : schema := SList (Some [None]) None None None None.
Definition ex_list_alias : schema :=
  SList (Some [Some (SAlias (Some [120%N]) (SAny None))]) None None None None.

(* NaN parameters (repaired): a float schema declared with NaN equals itself, its rebuild and
   nothing with another parameter; it validates NaN only *)
Definition ex_float_nan : schema := SFloat (Some fnan) None None None.
Lemma nan_params_lemma :
  schema_eqb ex_float_nan ex_float_nan = true /\ schema_eqb_self ex_float_nan = true /\
  schema_eqb (SFloat None (Some fnan) None None) (SFloat None (Some fnan) None None) = true /\
  schema_eqb ex_float_nan (SFloat (Some (mkf false 1%Z 0%Z)) None None None) = false /\
  schema_eqb (SFloat (Some (mkf false 1%Z 0%Z)) None None None) ex_float_nan = false /\
  schema_eqb ex_float_nan (SFloat None None None None) = false /\
  schema_eqb (SFloat None (Some fnan) None None) (SFloat None None (Some fnan) None) = false /\
  schema_eqb (SList (Some [Some ex_float_nan]) None None None None)
             (SList (Some [Some ex_float_nan]) None None None None) = true /\
  schema_eqb (SList None (Some ex_float_nan) None None None)
             (SList None (Some ex_float_nan) None None None) = true /\
  verdict ex_float_nan (VFloat fnan) = true /\ verdict ex_float_nan (VFloat (mkf false 1%Z 0%Z)) = false.
Proof. vm_compute. auto 20. Qed.

Lemma eq_same_verdicts_refuted_lemma :
  exists s1 s2 v, wf s1 = true /\ wf s2 = true /\ date_params_ok s1 = true /\ date_params_ok s2 = true /\
                  schema_eqb s1 s2 = true /\ verdict s1 v = false /\ verdict s2 v = true.
Proof. exists ex_list_any, ex_list_ell, (VList []). vm_compute. auto 10. Qed.

Lemma eq_trans_refuted_lemma :
  exists s1 s2 s3, wf s1 = true /\ wf s2 = true /\ wf s3 = true /\
                   schema_eqb s1 s2 = true /\ schema_eqb s2 s3 = true /\ schema_eqb s1 s3 = false.
Proof. exists ex_list_any, ex_list_ell, ex_list_alias. vm_compute. auto 10. Qed.
