(* C06: evaluating the expression repr prints rebuilds the schema. *)
From Coq Require Import PrimFloat.
Require Import D42.Prelude D42.PyFloat D42.Value D42.Regex D42.Schema D42.Validate D42.CaseLib
               D42.Declare D42.Represent.
Require Import D42P.ListLemmas D42P.ScalarSpec D42P.DeclareSpec D42P.DeclareInv.
Open Scope Z_scope.

(* ------------------------------------------------------------------------------------ *)
(* evaluation of one call                                                                *)
(* ------------------------------------------------------------------------------------ *)
Lemma evalA_meth r m args s0 xs s1 :
  evalA r = Ok (ASchema s0) ->
  rsequence (map (fun x => evalA x) args) = Ok xs ->
  decl m s0 xs = Ok s1 ->
  evalA (EMeth r m args) = Ok (ASchema s1).
Proof.
  intros H1 H2 H3. cbn [evalA]. rewrite H1. cbn [bind]. rewrite H2. cbn [bind]. rewrite H3. reflexivity.
Qed.

Lemma evalA_opt_meth {A} (o : option A) r m (lit : A -> expr) s0 s1 :
  evalA r = Ok (ASchema s0) ->
  (forall a, o = Some a -> exists x, evalA (lit a) = Ok x /\ decl m s0 [x] = Ok s1) ->
  (o = None -> s1 = s0) ->
  evalA (opt_meth o r m lit) = Ok (ASchema s1).
Proof.
  intros Hr Hs Hn. destruct o as [a|]; cbn [opt_meth].
  - destruct (Hs a eq_refl) as (x & Hx & Hd).
    apply (evalA_meth r m [lit a] s0 [x] s1); auto.
    cbn [map rsequence]. rewrite Hx. reflexivity.
  - rewrite (Hn eq_refl). exact Hr.
Qed.

Lemma a_int_lit i : a_int (AVal (of_intv i)) = Some i.
Proof. destruct i; reflexivity. Qed.

(* the arguments the len(...) tail passes *)
Definition len_call_args (len mnl mxl : option intv) : option (list arg) :=
  match len with
  | Some k => Some [AVal (of_intv k)]
  | None =>
      match mnl, mxl with
      | Some a, Some b => Some [AVal (of_intv a); AVal (of_intv b)]
      | Some a, None => Some [AVal (of_intv a); AVal VEllipsis]
      | None, Some b => Some [AVal VEllipsis; AVal (of_intv b)]
      | None, None => None
      end
  end.

Lemma evalA_len_suffix r s0 s1 len mnl mxl :
  evalA r = Ok (ASchema s0) ->
  (forall xs, len_call_args len mnl mxl = Some xs -> decl MLen s0 xs = Ok s1) ->
  (len_call_args len mnl mxl = None -> s1 = s0) ->
  evalA (len_suffix r len mnl mxl) = Ok (ASchema s1).
Proof.
  intros Hr Hs Hn. unfold len_suffix, len_call_args in *.
  destruct len as [k|]; [|destruct mnl as [a|], mxl as [b|]].
  - apply (evalA_meth r MLen _ s0 [AVal (of_intv k)] s1); auto.
  - apply (evalA_meth r MLen _ s0 [AVal (of_intv a); AVal (of_intv b)] s1); auto.
  - apply (evalA_meth r MLen _ s0 [AVal (of_intv a); AVal VEllipsis] s1); auto.
  - apply (evalA_meth r MLen _ s0 [AVal VEllipsis; AVal (of_intv b)] s1); auto.
  - rewrite (Hn eq_refl). exact Hr.
Qed.

Lemma a_ell_int i : a_ell (AVal (of_intv i)) = false.
Proof. destruct i; reflexivity. Qed.
Lemma a_nil_int i : a_nil (AVal (of_intv i)) = false.
Proof. destruct i; reflexivity. Qed.

(* ------------------------------------------------------------------------------------ *)
(* containers                                                                            *)
(* ------------------------------------------------------------------------------------ *)
Definition rt (s : schema) : Prop :=
  dsl_inv s = true -> alias_custom_free s = true -> evalA (represent s) = Ok (ASchema s).

Definition elem_expr (o : option schema) : expr :=
  match o with Some e => represent e | None => ell_lit end.
Definition elem_arg (o : option schema) : arg :=
  match o with Some e => ASchema e | None => AVal VEllipsis end.

Lemma evalA_elems l :
  Forall (fun o : option schema => forall s, o = Some s -> evalA (represent s) = Ok (ASchema s)) l ->
  rsequence (map (fun x => evalA x) (map elem_expr l)) = Ok (map elem_arg l).
Proof.
  induction 1 as [|o r Ho _ IH]; cbn [map rsequence]; [reflexivity|].
  rewrite IH. destruct o as [e|]; cbn [elem_expr elem_arg].
  - rewrite (Ho e eq_refl). reflexivity.
  - reflexivity.
Qed.

Lemma elems_loop_complete n l : forall idx,
  ell_positions_ok n idx l = true -> elems_loop n idx (map elem_arg l) = Ok l.
Proof.
  induction l as [|o r IH]; intros idx H; cbn [map elems_loop]; [reflexivity|].
  cbn [ell_positions_ok] in H. apply andb_true_iff in H as [Ho Hr].
  destruct o as [e|]; cbn [elem_arg elem_of_arg is_none is_some negb andb].
  - rewrite (IH _ Hr). reflexivity.
  - cbn [is_some is_none negb orb] in Ho.
    destruct (idx =? 0)%nat; cbn [negb andb orb] in *.
    + rewrite (IH _ Hr). reflexivity.
    + destruct (idx =? n - 1)%nat; cbn [negb] in *; [|discriminate Ho].
      rewrite (IH _ Hr). reflexivity.
Qed.

Definition entry_expr (e : dentry) : dkey * expr :=
  if is_kell (de_key e) then (DKey KEll, ell_lit)
  else ((if de_opt e then DOpt (de_key e) else DKey (de_key e)),
        match de_schema e with Some t => represent t | None => EOpaque end).
Definition entry_arg (e : dentry) : dkey * arg :=
  if is_kell (de_key e) then (DKey KEll, AVal VEllipsis)
  else ((if de_opt e then DOpt (de_key e) else DKey (de_key e)),
        match de_schema e with Some t => ASchema t | None => AVal VNil end).

Lemma evalA_entries l :
  forallb entry_shape_ok l = true ->
  Forall (fun e : dentry => forall s, de_schema e = Some s -> evalA (represent s) = Ok (ASchema s)) l ->
  rsequence (map (fun kx : dkey * expr => rmap (fun a => (fst kx, a)) (evalA (snd kx))) (map entry_expr l))
  = Ok (map entry_arg l).
Proof.
  intros Hs H. induction H as [|e r He _ IH]; cbn [map rsequence]; [reflexivity|].
  cbn [forallb] in Hs. apply andb_true_iff in Hs as [Hse Hsr]. rewrite (IH Hsr).
  destruct e as [[k o] b]. unfold entry_expr, entry_arg. cbn [de_key de_schema de_opt fst snd] in *.
  destruct (is_kell k) eqn:Ek; cbn [fst snd evalA rmap bind ell_lit]; [reflexivity|].
  destruct o as [t|].
  - rewrite (He t eq_refl). reflexivity.
  - destruct k; try discriminate Hse; discriminate Ek.
Qed.

Lemma upsert_new k s o acc :
  existsb (key_eqb k) (map de_key acc) = false -> upsert k s o acc = acc ++ [(k, s, o)].
Proof.
  induction acc as [|e r IH]; cbn [map existsb upsert app]; [reflexivity|].
  intros H. apply orb_false_iff in H as [H1 H2]. rewrite H1, (IH H2). reflexivity.
Qed.

Lemma nodup_keys_mid a k b :
  nodup_keys (a ++ k :: b) = true -> existsb (key_eqb k) a = false.
Proof.
  induction a as [|x r IH]; cbn [app nodup_keys existsb]; [reflexivity|].
  intros H. apply andb_true_iff in H as [Hx Hr]. apply negb_true_iff in Hx.
  rewrite existsb_app' in Hx. cbn [existsb] in Hx.
  apply orb_false_iff in Hx as [_ Hx]. apply orb_false_iff in Hx as [Hx _].
  rewrite key_eqb_sym, Hx. cbn [orb]. apply IH. exact Hr.
Qed.

Lemma dict_loop_complete l : forall acc,
  forallb entry_shape_ok l = true -> nodup_keys (map de_key (acc ++ l)) = true ->
  dict_loop (map entry_arg l) acc = Ok (acc ++ l).
Proof.
  induction l as [|e r IH]; intros acc Hs Hn; cbn [map dict_loop].
  - rewrite app_nil_r. reflexivity.
  - cbn [forallb] in Hs. apply andb_true_iff in Hs as [Hse Hsr].
    assert (Hk : existsb (key_eqb (de_key e)) (map de_key acc) = false).
    { rewrite map_app in Hn. cbn [map] in Hn. apply (nodup_keys_mid _ _ _ Hn). }
    assert (Hn' : nodup_keys (map de_key ((acc ++ [e]) ++ r)) = true).
    { rewrite <- app_assoc. exact Hn. }
    destruct e as [[k o] b]. unfold entry_arg at 1. cbn [de_key de_schema de_opt fst snd] in *.
    destruct (is_kell k) eqn:Ek.
    + destruct k; try discriminate Ek. destruct o; [discriminate Hse|]. destruct b; [discriminate Hse|].
      cbn [dkey_ell a_ell orb negb dkey_key dkey_opt].
      rewrite (upsert_new _ _ _ _ Hk). etransitivity; [apply IH; assumption|]. rewrite <- app_assoc. reflexivity.
    + destruct o as [t|]; [|destruct k; try discriminate Hse; discriminate Ek].
      assert (Hd : dkey_ell (if b then DOpt k else DKey k) = false).
      { destruct b; [reflexivity|]. destruct k; try reflexivity. discriminate Ek. }
      rewrite Hd. cbn [a_ell orb].
      replace (dkey_key (if b then DOpt k else DKey k)) with k by (destruct b; reflexivity).
      replace (dkey_opt (if b then DOpt k else DKey k)) with b by (destruct b; reflexivity).
      rewrite (upsert_new _ _ _ _ Hk). etransitivity; [apply IH; assumption|]. rewrite <- app_assoc. reflexivity.
Qed.

Lemma evalA_types l :
  Forall (fun t => evalA (represent t) = Ok (ASchema t)) l ->
  rsequence (map (fun x => evalA x) (map (fun t => represent t) l)) = Ok (map ASchema l).
Proof.
  induction 1 as [|t r Ht _ IH]; cbn [map rsequence]; [reflexivity|].
  rewrite Ht, IH. reflexivity.
Qed.

Lemma all_schemas_map l : all_schemas (map ASchema l) = Some l.
Proof. induction l as [|s r IH]; cbn [map all_schemas]; [reflexivity|]. rewrite IH. reflexivity. Qed.

(* ------------------------------------------------------------------------------------ *)
(* the round trip                                                                        *)
(* ------------------------------------------------------------------------------------ *)
Ltac step_opt := eapply evalA_opt_meth; [ | intros ? ->; eexists; split; [reflexivity|] | intros -> ; reflexivity ].

Lemma forallb_id_Forall {A} (f : A -> bool) l :
  forallb (fun x => x) (map f l) = true -> Forall (fun a => f a = true) l.
Proof.
  induction l as [|a r IH]; cbn [map forallb]; intros H; constructor.
  - apply andb_true_iff in H as [H _]. exact H.
  - apply IH. apply andb_true_iff in H as [_ H]. exact H.
Qed.

Lemma repr_roundtrip_A : forall s, rt s.
Proof.
  induction s as [ | val | val mn mx | val mn mx pr | val len mnl mxl al sub pat
                 | es ty len mnl mxl IHes IHty | ks IHks | ts IHts
                 | val | val | val | val | nm t IHt | t IHt ] using schema_ind';
    unfold rt; intros Hinv Hacf; cbn [represent].
  - reflexivity.
  - (* bool *)
    eapply evalA_opt_meth; [reflexivity | | intros ->; reflexivity].
    intros b ->. eexists. split; reflexivity.
  - (* int *)
    cbn [dsl_inv] in Hinv.
    eapply evalA_opt_meth with (s0 := SInt val mn None).
    + eapply evalA_opt_meth with (s0 := SInt val None None).
      * eapply evalA_opt_meth; [reflexivity | | intros ->; reflexivity].
        intros i ->. eexists. split; [reflexivity|].
        cbn [decl bare with1]. unfold int_call. rewrite a_int_lit. reflexivity.
      * intros m ->. eexists. split; [reflexivity|].
        cbn [decl with1]. unfold int_min, dE. rewrite a_int_lit. cbn [is_some is_none negb].
        destruct val as [x|]; cbn [opt_all] in Hinv; [|reflexivity]. bdestr. rewrite H. reflexivity.
      * intros ->. reflexivity.
    + intros m ->. eexists. split; [reflexivity|].
      cbn [decl with1]. unfold int_max, dE. rewrite a_int_lit. cbn [is_some is_none negb].
      destruct val as [x|]; cbn [opt_all] in Hinv; [|reflexivity]. bdestr. rewrite H0. reflexivity.
    + intros ->. reflexivity.
  - (* float *)
    cbn [dsl_inv] in Hinv. apply andb_true_iff in Hinv as [Hv Hp].
    eapply evalA_opt_meth with (s0 := SFloat val mn mx None).
    + eapply evalA_opt_meth with (s0 := SFloat val mn None None).
      * eapply evalA_opt_meth with (s0 := SFloat val None None None).
        -- eapply evalA_opt_meth; [reflexivity | | intros ->; reflexivity].
           intros f ->. eexists. split; reflexivity.
        -- intros m ->. eexists. split; [reflexivity|].
           cbn [decl with1]. unfold float_min, dE. cbn [a_float is_some is_none negb].
           destruct val as [x|]; cbn [opt_all] in Hv; [|reflexivity]. bdestr. rewrite H. reflexivity.
        -- intros ->. reflexivity.
      * intros m ->. eexists. split; [reflexivity|].
        cbn [decl with1]. unfold float_max, dE. cbn [a_float is_some is_none negb].
        destruct val as [x|]; cbn [opt_all] in Hv; [|reflexivity]. bdestr. rewrite H0. reflexivity.
      * intros ->. reflexivity.
    + intros p ->. eexists. split; [reflexivity|].
      cbn [decl with1]. unfold float_precision, dE. rewrite a_int_lit. cbn [opt_all] in Hp.
      rewrite Hp. reflexivity.
    + intros ->. reflexivity.
  - (* str *)
    cbn [dsl_inv] in Hinv. apply andb_true_iff in Hinv as [Hinv Hval].
    apply andb_true_iff in Hinv as [Hgrp Hpat].
    eapply evalA_len_suffix with (s0 := SStr val None None None al sub pat).
    + eapply evalA_opt_meth with (s0 := SStr val None None None al sub None).
      * eapply evalA_opt_meth with (s0 := SStr val None None None al None None).
        -- eapply evalA_opt_meth with (s0 := SStr val None None None None None None).
           ++ eapply evalA_opt_meth; [reflexivity | | intros ->; reflexivity].
              intros x ->. eexists. split; reflexivity.
           ++ intros a ->. eexists. split; [reflexivity|].
              cbn [decl with1]. unfold str_alphabet, dE. cbn [a_str is_some is_none negb].
              destruct val as [x|]; cbn [opt_all] in Hval; [|reflexivity]. bdestr.
              match goal with H : forallb _ x = true |- _ => rewrite H end. reflexivity.
           ++ intros ->. reflexivity.
        -- intros t ->. eexists. split; [reflexivity|].
           cbn [decl with1]. unfold str_contains, dE. cbn [a_str is_some is_none negb].
           destruct val as [x|]; cbn [opt_all] in Hval; [|reflexivity]. bdestr.
           match goal with H : infix t x = true |- _ => rewrite H end. reflexivity.
        -- intros ->. reflexivity.
      * intros [src tree] ->. eexists. split; [reflexivity|].
        cbn [opt_all] in Hpat. bdestr.
        destruct al; [discriminate|]. destruct sub; [discriminate|].
        cbn [decl with1 fst snd]. unfold str_regex, dE. cbn [a_pat is_some is_none negb orb].
        destruct val as [x|]; cbn [opt_all] in Hval; [|reflexivity]. bdestr.
        match goal with H : pat_search _ x = true |- _ => rewrite H end. reflexivity.
      * intros ->. reflexivity.
    + (* the len tail *)
      intros xs Hxs. unfold len_call_args in Hxs.
      assert (Hp : is_some pat = false).
      { destruct pat as [pt|]; [|reflexivity]. cbn [opt_all] in Hpat. bdestr.
        destruct len; [discriminate|]. destruct mnl; [discriminate|]. destruct mxl; [discriminate|].
        discriminate Hxs. }
      cbn [decl]. unfold with_len.
      destruct len as [k|]; [|destruct mnl as [a|], mxl as [b|]]; inversion Hxs; subst xs; clear Hxs;
        cbn [len_args]; unfold str_len, dE; cbn [is_some is_none negb orb]; rewrite Hp;
        rewrite ?a_ell_int, ?a_nil_int; cbn [a_ell a_nil];
        unfold sized_len, sized_min_len, sized_max_len, dE; rewrite ?a_int_lit.
      * unfold len_group_ok in Hgrp. cbn [is_none orb] in Hgrp. bdestr.
        destruct mnl; [discriminate|]. destruct mxl; [discriminate|].
        destruct val as [x|]; cbn [opt_all option_map] in *; [|reflexivity]. bdestr.
        match goal with H : (zlen x =? iz k) = true |- _ => rewrite H end. reflexivity.
      * destruct val as [x|]; cbn [opt_all option_map bind] in *; [|reflexivity]. bdestr. rw_conds.
        reflexivity.
      * destruct val as [x|]; cbn [opt_all option_map bind] in *; [|reflexivity]. bdestr. rw_conds.
        reflexivity.
      * destruct val as [x|]; cbn [opt_all option_map bind] in *; [|reflexivity]. bdestr. rw_conds.
        reflexivity.
    + intros Hn. unfold len_call_args in Hn.
      destruct len; [discriminate|]. destruct mnl, mxl; try discriminate. reflexivity.
  - (* list *)
    cbn [dsl_inv] in Hinv. cbn [alias_custom_free] in Hacf.
    apply andb_true_iff in Hinv as [Hinv Hty]. apply andb_true_iff in Hinv as [Hinv Hes].
    apply andb_true_iff in Hinv as [Hxor Hgrp]. apply andb_true_iff in Hacf as [Haes Haty].
    eapply evalA_len_suffix with (s0 := SList es ty None None None).
    + destruct ty as [t|].
      * destruct es; [discriminate Hxor|].
        apply (evalA_meth _ MCall _ (bare KdList) [ASchema t]); [reflexivity | | reflexivity].
        cbn [map rsequence]. rewrite (IHty t eq_refl Hty Haty). reflexivity.
      * destruct es as [l|]; [|reflexivity].
        bdestr.
        assert (Hall : Forall (fun o : option schema =>
                                 forall s, o = Some s -> evalA (represent s) = Ok (ASchema s)) l).
        { specialize (IHes l eq_refl).
          apply forallb_id_Forall in H0. apply forallb_id_Forall in Haes.
          clear - IHes H0 Haes. induction IHes as [|o r Ho _ IH]; constructor.
          - intros s ->. inversion H0; inversion Haes; subst. apply Ho; auto.
          - inversion H0; inversion Haes; subst. apply IH; auto. }
        assert (Hev : evalA (EListD (map elem_expr l)) = Ok (AList (map elem_arg l))).
        { cbn [evalA]. rewrite (evalA_elems l Hall). reflexivity. }
        assert (Hd : decl MCall (bare KdList) [AList (map elem_arg l)] = Ok (SList (Some l) None None None None)).
        { cbn [decl bare with1]. unfold list_call, dE. cbn [a_list is_some is_none negb orb bind].
          unfold elems_ok in H. apply andb_true_iff in H as [Hp H2]. rewrite map_length.
          rewrite (elems_loop_complete _ _ _ Hp). cbn [bind]. apply negb_true_iff in H2. rewrite H2.
          reflexivity. }
        destruct l as [|o r].
        -- apply (evalA_meth _ MCall _ (bare KdList) [AList []]); [reflexivity | reflexivity | exact Hd].
        -- apply (evalA_meth _ MCall _ (bare KdList) [AList (map elem_arg (o :: r))]);
             [reflexivity | | exact Hd].
           unfold elem_expr in Hev. cbn [map rsequence] in *. rewrite Hev. reflexivity.
    + intros xs Hxs. unfold len_call_args in Hxs. cbn [decl]. unfold with_len.
      destruct len as [k|]; [|destruct mnl as [a|], mxl as [b|]]; inversion Hxs; subst xs; clear Hxs;
        cbn [len_args]; unfold list_len, dE; cbn [is_some is_none negb orb];
        rewrite ?a_ell_int, ?a_nil_int; cbn [a_ell a_nil];
        unfold list_decl_len, list_decl_min_len, list_decl_max_len, dE; rewrite ?a_int_lit.
      * unfold len_group_ok in Hgrp. cbn [is_none orb] in Hgrp. bdestr.
        destruct mnl; [discriminate|]. destruct mxl; [discriminate|].
        destruct es as [l|]; [|reflexivity]. bdestr. unfold list_lens_ok in *. cbn [opt_all] in *. bdestr.
        destruct (all_concrete l); bdestr; rw_conds; reflexivity.
      * destruct es as [l|]; [|reflexivity]. bdestr. unfold list_lens_ok in *. cbn [opt_all bind] in *.
        bdestr. rw_conds. reflexivity.
      * destruct es as [l|]; [|reflexivity]. bdestr. unfold list_lens_ok in *. cbn [opt_all bind] in *.
        bdestr. rw_conds. reflexivity.
      * destruct es as [l|]; [|reflexivity]. bdestr. unfold list_lens_ok in *. cbn [opt_all bind] in *.
        bdestr. rw_conds. reflexivity.
    + intros Hn. unfold len_call_args in Hn.
      destruct len; [discriminate|]. destruct mnl, mxl; try discriminate. reflexivity.
  - (* dict *)
    destruct ks as [l|]; [|reflexivity].
    cbn [dsl_inv] in Hinv. cbn [alias_custom_free] in Hacf. bdestr.
    assert (Hall : Forall (fun e : dentry =>
                             forall s, de_schema e = Some s -> evalA (represent s) = Ok (ASchema s)) l).
    { specialize (IHks l eq_refl).
      apply forallb_id_Forall in H0. apply forallb_id_Forall in Hacf.
      clear - IHks H0 Hacf. induction IHks as [|e r He _ IH]; constructor.
      - intros s Hs. inversion H0; inversion Hacf; subst. rewrite Hs in *. apply (He s eq_refl); auto.
      - inversion H0; inversion Hacf; subst. apply IH; auto. }
    assert (Hev : evalA (EDictD (map entry_expr l)) = Ok (ADict (map entry_arg l))).
    { cbn [evalA]. rewrite (evalA_entries l H Hall). reflexivity. }
    assert (Hd : decl MCall (bare KdDict) [ADict (map entry_arg l)] = Ok (SDict (Some l))).
    { cbn [decl bare with1]. unfold dict_call, dE. cbn [a_dict is_some is_none negb].
      rewrite (dict_loop_complete l [] H); [reflexivity | exact H1]. }
    destruct l as [|e r].
    + apply (evalA_meth _ MCall _ (bare KdDict) [ADict []]); [reflexivity | reflexivity | exact Hd].
    + apply (evalA_meth _ MCall _ (bare KdDict) [ADict (map entry_arg (e :: r))]); [reflexivity | | exact Hd].
      unfold entry_expr in Hev. cbn [map rsequence] in *. rewrite Hev. reflexivity.
  - (* any *)
    destruct ts as [l|]; [|reflexivity].
    cbn [dsl_inv] in Hinv. cbn [alias_custom_free] in Hacf. bdestr.
    assert (Hall : Forall (fun t => evalA (represent t) = Ok (ASchema t)) l).
    { specialize (IHts l eq_refl).
      apply forallb_id_Forall in H0. apply forallb_id_Forall in Hacf.
      clear - IHts H0 Hacf. induction IHts as [|t r Ht _ IH]; constructor.
      - inversion H0; inversion Hacf; subst. apply Ht; auto.
      - inversion H0; inversion Hacf; subst. apply IH; auto. }
    apply (evalA_meth _ MCall _ (bare KdAny) (map ASchema l)); [reflexivity | apply evalA_types; exact Hall |].
    cbn [decl bare]. destruct l as [|t r]; [discriminate|].
    cbn [map]. unfold any_call. change (ASchema t :: map ASchema r) with (map ASchema (t :: r)).
    rewrite all_schemas_map. cbn [is_some is_none negb].
    rewrite (flat_map_flatten_flat _ H1). reflexivity.
  - (* bytes *)
    eapply evalA_opt_meth; [reflexivity | | intros ->; reflexivity].
    intros b ->. eexists. split; reflexivity.
  - (* uuid *)
    eapply evalA_opt_meth; [reflexivity | | intros ->; reflexivity].
    intros n ->. eexists. split; [reflexivity|].
    cbn [dsl_inv opt_all] in Hinv. cbn [decl bare with1]. unfold uuid_call, dE. rewrite Hinv. reflexivity.
  - (* datetime *)
    eapply evalA_opt_meth; [reflexivity | | intros ->; reflexivity].
    intros [aw us] ->. eexists. split; reflexivity.
  - (* date *)
    eapply evalA_opt_meth; [reflexivity | | intros ->; reflexivity].
    intros v ->. eexists. split; [reflexivity|].
    cbn [dsl_inv opt_all] in Hinv. cbn [decl bare with1]. unfold date_call, dE. rewrite Hinv. reflexivity.
  - discriminate Hacf.
  - discriminate Hacf.
Qed.

Lemma repr_roundtrip_eval s :
  dsl_inv s = true -> alias_custom_free s = true -> eval (represent s) = Ok s.
Proof. intros Hi Ha. unfold eval. rewrite (repr_roundtrip_A s Hi Ha). reflexivity. Qed.

(* ------------------------------------------------------------------------------------ *)
(* structural identity is reflexive on DSL-built schemas                                 *)
(* ------------------------------------------------------------------------------------ *)
Lemma same_refl' a : same a a = true.
Proof.
  unfold same. destruct (FloatOps.Prim2SF a) as [s|s| |s m e]; auto using Bool.eqb_reflx.
  rewrite Bool.eqb_reflx, Pos.eqb_refl, Z.eqb_refl. reflexivity.
Qed.
Lemma intv_same_refl' a : intv_same a a = true.
Proof. destruct a; simpl; [apply Z.eqb_refl | apply Bool.eqb_reflx]. Qed.
Lemma str_eqb_refl' a : str_eqb a a = true.
Proof. apply str_eqb_eq. reflexivity. Qed.
Lemma option_eqb_refl' {A} (eqb : A -> A -> bool) :
  (forall a, eqb a a = true) -> forall o, option_eqb eqb o o = true.
Proof. intros H [a|]; simpl; auto. Qed.

Lemma schema_same_refl_inv : forall s, dsl_inv s = true -> schema_same s s = true.
Proof.
  induction s as [ | val | val mn mx | val mn mx pr | val len mnl mxl al sub pat
                 | es ty len mnl mxl IHes IHty | ks IHks | ts IHts
                 | val | val | val | val | nm t IHt | t IHt ] using schema_ind';
    intros Hinv; cbn [schema_same].
  - reflexivity.
  - apply option_eqb_refl'. apply Bool.eqb_reflx.
  - unfold ointv_same. rewrite !(option_eqb_refl' _ intv_same_refl'). reflexivity.
  - unfold ofloat_same, ointv_same.
    rewrite !(option_eqb_refl' _ same_refl'), (option_eqb_refl' _ intv_same_refl'). reflexivity.
  - unfold ostr_same, ointv_same.
    rewrite !(option_eqb_refl' _ str_eqb_refl'), !(option_eqb_refl' _ intv_same_refl').
    cbn [andb]. destruct pat as [[src tree]|]; simpl; [apply str_eqb_refl' | reflexivity].
  - cbn [dsl_inv] in Hinv. bdestr.
    unfold ointv_same. rewrite !(option_eqb_refl' _ intv_same_refl'), !andb_true_r.
    apply andb_true_intro. split.
    + destruct es as [l|]; [|reflexivity]. specialize (IHes l eq_refl). bdestr.
      apply forallb_id_Forall in H3. clear - IHes H3.
      induction IHes as [|o r Ho _ IH]; [reflexivity|].
      inversion H3; subst. destruct o as [e|].
      * rewrite (Ho e eq_refl); auto.
      * apply IH; auto.
    + destruct ty as [t|]; [|reflexivity]. apply (IHty t eq_refl). assumption.
  - destruct ks as [l|]; [|reflexivity]. specialize (IHks l eq_refl). cbn [dsl_inv] in Hinv. bdestr.
    apply forallb_id_Forall in H0. clear - IHks H0.
    induction IHks as [|e r He _ IH]; [reflexivity|].
    inversion H0; subst. destruct e as [[k o] b]. cbn [de_schema fst snd] in *.
    rewrite (proj2 (dkey_eqb_eq k k) eq_refl), Bool.eqb_reflx. cbn [andb].
    destruct o as [t|].
    + rewrite (He t eq_refl); auto.
    + apply IH; auto.
  - destruct ts as [l|]; [|reflexivity]. specialize (IHts l eq_refl). cbn [dsl_inv] in Hinv. bdestr.
    apply forallb_id_Forall in H0. clear - IHts H0.
    induction IHts as [|t r Ht _ IH]; [reflexivity|].
    inversion H0; subst. rewrite (Ht H2). apply IH; auto.
  - apply option_eqb_refl'. intros a. apply bytes_eqb_eq. reflexivity.
  - apply option_eqb_refl'. apply N.eqb_refl.
  - apply option_eqb_refl'. intros [a u]. cbn [fst snd]. rewrite Bool.eqb_reflx, Z.eqb_refl. reflexivity.
  - destruct val as [v|]; [|reflexivity]. cbn [dsl_inv opt_all] in Hinv. cbn [option_eqb].
    destruct v; try discriminate Hinv; cbn [value_same].
    + rewrite Bool.eqb_reflx, Z.eqb_refl. reflexivity.
    + apply Z.eqb_refl.
  - rewrite (option_eqb_refl' _ str_eqb_refl'). apply IHt. exact Hinv.
  - apply IHt. exact Hinv.
Qed.

(* the form asked for: an equal schema with the same repr *)
Lemma repr_roundtrip_lemma s :
  dsl_inv s = true -> alias_custom_free s = true ->
  exists s', eval (represent s) = Ok s' /\ s' = s /\ schema_same s s' = true /\
             represent s' = represent s.
Proof.
  intros Hi Ha. exists s. split; [apply repr_roundtrip_eval; assumption|].
  split; [reflexivity|]. split; [apply schema_same_refl_inv; assumption | reflexivity].
Qed.

(* what repr prints for DSL-built schemas never contains the non-expression marker, and the
   rebuilt schema satisfies the invariant again *)
Lemma repr_deterministic s1 s2 : s1 = s2 -> represent s1 = represent s2.
Proof. intros ->. reflexivity. Qed.
