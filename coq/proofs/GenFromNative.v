(* C14, generation clause: fake(from_native v) is v, and no random draw is consumed. *)
From Coq Require Import PrimFloat.
Require Import D42.Prelude D42.PyFloat D42.Value D42.Regex D42.Schema D42.PyRandom D42.RegexGen
               D42.Generate D42.FromNative.
Require Import D42P.ListLemmas D42P.ValueLemmas D42P.FromNativeSpec.

Definition exact (m : M value) (v : value) : Prop := forall t, m t = Ok (v, t).

Lemma exact_msequence (ms : list (M value)) vs :
  Forall2 exact ms vs -> forall t, msequence ms t = Ok (vs, t).
Proof.
  induction 1 as [|m v ms vs Hm _ IH]; intros t; cbn [msequence]; [reflexivity|].
  unfold mbind. rewrite Hm, IH. reflexivity.
Qed.

Lemma strip_m_map_Some {A B} (f : A -> M B) (l : list A) :
  strip_m (map (fun o => match o with Some e => Some (f e) | None => None end) (map Some l)) = map f l.
Proof. induction l; simpl; congruence. Qed.

Theorem gen_from_native_lemma w :
  forall v s, from_native v = Ok s -> exact (gen w s) v.
Proof.
  induction v as [ | b | z | f | s0 | b | n | a us | o | l IH | d IH | | | t0 ] using value_ind';
    intros s Hs; cbn [from_native] in Hs; try discriminate;
    try (inversion Hs; subst; intros t; reflexivity).
  - destruct (uuid_is_v4 n); [|discriminate]. inversion Hs; subst. intros t. reflexivity.
  - (* list *)
    destruct (rsequence (map (fun x => from_native x) l)) as [es| |] eqn:Er; simpl in Hs; try discriminate.
    inversion Hs; subst; clear Hs. apply rsequence_ok in Er.
    intros t. cbn [gen]. rewrite strip_m_map_Some. unfold mbind.
    rewrite (exact_msequence (map (fun e => gen w e) es) l).
    + simpl. reflexivity.
    + clear - IH Er. induction Er as [|x e l es Hxe _ IHr]; simpl; constructor.
      * inversion IH; subst. auto.
      * inversion IH; subst. auto.
  - (* dict *)
    destruct (existsb (fun kv : key * value => is_kell (fst kv)) d) eqn:Ek; [discriminate|].
    destruct (rsequence (map (fun kv : key * value => rmap (fun s => (fst kv, s)) (from_native (snd kv))) d))
      as [ents| |] eqn:Er; simpl in Hs; try discriminate.
    inversion Hs; subst; clear Hs. apply rsequence_ok in Er. apply dict_ents_rel in Er.
    intros t. unfold dict_of_natives. cbn [gen]. unfold mbind.
    assert (Hseq : forall t, msequence
              (strip_m (map (fun e : dentry =>
                               if is_kell (de_key e) then None
                               else if de_opt e then None
                               else match de_schema e with
                                    | Some sch => Some (dom v <- gen w sch; ret (de_key e, v))
                                    | None => Some (mraise AttributeError) end)
                            (map (fun e : key * schema => (fst e, Some (snd e), false)) ents))) t = Ok (d, t)).
    { clear t. pose proof (no_kell_keys _ Ek) as Hnk.
      assert (Hnk' : forall kv, In kv d -> is_kell (fst kv) = false).
      { intros kv Hin. destruct (is_kell (fst kv)) eqn:E; auto. exfalso. apply Hnk.
        apply in_map_iff. exists kv. split; auto. destruct (fst kv); try discriminate. reflexivity. }
      clear Hnk Ek. induction Er as [|kv e d ents [Hk Hf] _ IHr]; intros t; simpl; [reflexivity|].
      unfold de_key, de_opt, de_schema. simpl. rewrite Hk, (Hnk' kv (or_introl eq_refl)). simpl.
      unfold mbind. inversion IH; subst. rewrite (H1 _ Hf t). unfold ret.
      rewrite IHr; auto. destruct kv; reflexivity. intros kv' Hin. apply Hnk'. right. exact Hin. }
    rewrite Hseq. reflexivity.
Qed.
