(* C16, printed form: with forwarding custom types (SCustom) at arbitrary positions of a schema
   tree, [represent] builds the same expression tree as for the tree with the wrappers erased -
   at any depth, under elements, typed lists, dict members, alternatives.  (A type alias prints
   as opaque text in both trees.) *)
Require Import D42.Prelude D42.Value D42.Regex D42.Schema D42.Validate D42.CaseLib D42.Custom
               D42.Declare D42.Represent.
Require Import D42P.ListLemmas D42P.CustomSpec.
Local Open Scope nat_scope.

Lemma erase_represent_lemma : forall s, represent (erase s) = represent s.
Proof.
  induction s as [ | val | val mn mx | val mn mx pr | val len mnl mxl al sub pat
                 | es ty len mnl mxl IHes IHty | ks IHks | ts IHts
                 | val | val | val | val | nm t IHt | t IHt ] using schema_ind'; try reflexivity.
  - rewrite erase_list_unfold. cbn [represent].
    destruct ty as [t|]; cbn [erase_opt].
    + rewrite (IHty t eq_refl). reflexivity.
    + destruct es as [l|]; [|reflexivity]. specialize (IHes l eq_refl).
      assert (Hmap : map (fun o => match o with Some e => represent e | None => ell_lit end) (map erase_opt l)
                     = map (fun o => match o with Some e => represent e | None => ell_lit end) l).
      { rewrite map_map. induction IHes as [|o r Ho _ IH]; cbn [map]; [reflexivity|]. rewrite IH. f_equal.
        destruct o as [e|]; cbn [erase_opt]; [apply (Ho e eq_refl) | reflexivity]. }
      destruct l as [|o r]; [reflexivity|]. cbn [map] in Hmap |- *. rewrite Hmap. reflexivity.
  - rewrite erase_dict_unfold. destruct ks as [l|]; [|reflexivity]. specialize (IHks l eq_refl).
    cbn [represent].
    assert (Hmap : forall (g : dentry -> dkey * expr),
              g = (fun e : dentry =>
                     if is_kell (de_key e) then (DKey KEll, ell_lit)
                     else ((if de_opt e then DOpt (de_key e) else DKey (de_key e)),
                           match de_schema e with Some t => represent t | None => EOpaque end)) ->
              map g (map erase_entry l) = map g l).
    { intros g Hg. subst g. rewrite map_map.
      induction IHks as [|e r He _ IH]; cbn [map]; [reflexivity|]. rewrite IH. f_equal.
      unfold erase_entry. cbn [de_key de_schema de_opt fst snd].
      destruct (is_kell (de_key e)); [reflexivity|]. f_equal.
      destruct (de_schema e) as [t|] eqn:Es; cbn [erase_opt]; [apply (He t eq_refl) | reflexivity]. }
    specialize (Hmap _ eq_refl).
    destruct l as [|e0 r]; [reflexivity|]. cbn [map] in Hmap |- *. rewrite Hmap. reflexivity.
  - rewrite erase_any_unfold. destruct ts as [l|]; [|reflexivity]. specialize (IHts l eq_refl).
    cbn [represent]. f_equal. rewrite map_map.
    induction IHts as [|t r Ht _ IH]; cbn [map]; [reflexivity|]. rewrite IH, Ht. reflexivity.
  - cbn [erase represent]. exact IHt.
Qed.
Print Assumptions erase_represent_lemma.
