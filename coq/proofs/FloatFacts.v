(* Facts about the float comparisons of the validator, from Coq's specification of
   primitive floats (FloatAxioms). *)
From Coq Require Import ZArith Bool PrimFloat SpecFloat FloatOps FloatAxioms.
Require Import D42.Prelude D42.PyFloat D42.Value D42.Validate.

(* x == e (IEEE) means: the same float, or two zeros *)
Lemma eqb_true_cases x e :
  PrimFloat.eqb x e = true ->
  x = e \/ (exists s t, Prim2SF x = S754_zero s /\ Prim2SF e = S754_zero t).
Proof.
  rewrite FloatAxioms.eqb_spec. unfold SFeqb.
  destruct (Prim2SF x) as [s| s| |s m ex] eqn:Ex; destruct (Prim2SF e) as [t| t| |t n ee] eqn:Ee;
    simpl; try discriminate;
    try (destruct s; discriminate); try (destruct t; discriminate).
  - intros _. right. eauto.
  - destruct s, t; intros H; try discriminate; left; apply Prim2SF_inj; congruence.
  - intros H. left. apply Prim2SF_inj. rewrite Ex, Ee.
    destruct s, t; try discriminate.
    + destruct (Z.compare_spec ex ee); try discriminate. subst.
      destruct (Pos.compare_cont Eq m n) eqn:Ec; try discriminate.
      apply Pos.compare_eq in Ec. subst. reflexivity.
    + destruct (Z.compare_spec ex ee); try discriminate. subst.
      destruct (Pos.compare_cont Eq m n) eqn:Ec; try discriminate.
      apply Pos.compare_eq in Ec. subst. reflexivity.
Qed.

Lemma py_round_zero_mul x s k :
  Prim2SF x = S754_zero s ->
  py_round (PrimFloat.mul x k) = match Prim2SF k with
                                 | S754_nan | S754_infinity _ => None
                                 | _ => Some 0%Z end.
Proof.
  intros Hx. unfold py_round, view. rewrite mul_spec, Hx. unfold SF64mul, SFmul.
  destruct (Prim2SF k) as [t| t| |t m e]; simpl; try reflexivity.
  - destruct (xorb s t); reflexivity.
  - destruct (xorb s t); reflexivity.
Qed.

Lemma eqb_true_not_nan x e :
  PrimFloat.eqb x e = true -> is_nan x = false /\ is_nan e = false.
Proof.
  rewrite FloatAxioms.eqb_spec. unfold SFeqb, is_nan, view.
  destruct (Prim2SF x) as [s| s| |s m ex]; destruct (Prim2SF e) as [t| t| |t n ee];
    simpl; intros H; try discriminate; auto.
Qed.

Lemma eqb_true_value_ok x e pr :
  PrimFloat.eqb x e = true -> float_value_ok x e pr = true.
Proof.
  intros H. unfold float_value_ok. destruct (eqb_true_not_nan _ _ H) as [-> ->]. cbn [orb].
  destruct pr as [pr|].
  - unfold prec_equal. destruct (eqb_true_cases _ _ H) as [->|(s & t & Hx & He)].
    + destruct (py_round (PrimFloat.mul e (scale10 (iz pr)))); [apply Z.eqb_refl | exact H].
    + rewrite (py_round_zero_mul _ _ _ Hx), (py_round_zero_mul _ _ _ He).
      destruct (Prim2SF (scale10 (iz pr))); auto.
  - unfold isclose, isclose_gen. rewrite H. reflexivity.
Qed.
