(* C13: the combinators of theories/Combinators.v mean what their parts mean.
   All statements are about [conforms] (the declarative meaning); with the
   wf-preservation lemmas and C02's validate_iff_conforms they transfer to the validator's
   verdict (section "verdict forms" at the end). *)
Require Import D42.Prelude D42.Value D42.Regex D42.Schema D42.Validate D42.Conforms D42.CaseLib
               D42.Combinators.
Require Import D42P.ListLemmas D42P.ScalarSpec D42P.ContainerSpec D42P.ValidateSpec.
Local Open Scope nat_scope.

(* ------------------------------------------------------------------ keys *)
Lemma key_eqb_eq a b : key_eqb a b = true <-> a = b.
Proof.
  destruct a, b; simpl; try (split; [discriminate | congruence]); try tauto.
  - rewrite str_eqb_eq. split; congruence.
  - rewrite Z.eqb_eq. split; congruence.
  - rewrite bytes_eqb_eq. split; congruence.
  - rewrite N.eqb_eq. split; congruence.
Qed.

Lemma key_eqb_refl k : key_eqb k k = true.
Proof. apply key_eqb_eq. reflexivity. Qed.

Lemma key_eqb_sym a b : key_eqb a b = key_eqb b a.
Proof.
  destruct (key_eqb a b) eqn:E1, (key_eqb b a) eqn:E2; auto.
  - apply key_eqb_eq in E1. subst. rewrite key_eqb_refl in E2. discriminate.
  - apply key_eqb_eq in E2. subst. rewrite key_eqb_refl in E1. discriminate.
Qed.

Lemma key_eqb_neq a b : key_eqb a b = false <-> a <> b.
Proof.
  split.
  - intros E H. subst. rewrite key_eqb_refl in E. discriminate.
  - intros H. destruct (key_eqb a b) eqn:E; auto. apply key_eqb_eq in E. contradiction.
Qed.

Lemma existsb_map {A B} (f : B -> bool) (g : A -> B) l :
  existsb f (map g l) = existsb (fun x => f (g x)) l.
Proof. induction l as [|x r IH]; simpl; [reflexivity|]. rewrite IH. reflexivity. Qed.

(* ------------------------------------------------------------------ disjunctions *)
Definition any_of (ps : list Prop) : Prop := fold_right (fun c acc => c \/ acc) False ps.

Lemma any_of_app a b : any_of (a ++ b) <-> any_of a \/ any_of b.
Proof. induction a as [|x r IH]; simpl; [tauto|]. rewrite IH. tauto. Qed.

Lemma any_of_map_Exists {A} (f : A -> Prop) l : any_of (map f l) <-> Exists f l.
Proof.
  induction l as [|x r IH]; simpl.
  - split; [tauto | intros H; inversion H].
  - rewrite IH. split.
    + intros [H|H]; [left | right]; assumption.
    + intros H. inversion H; subst; tauto.
Qed.

Lemma conforms_any ts v : conforms (SAny (Some ts)) v <-> Exists (fun t => conforms t v) ts.
Proof. cbn [conforms]. apply (any_of_map_Exists (fun t => conforms t v)). Qed.

(* ------------------------------------------------------------------ flattening *)
Lemma flatten1_conforms s : forall v, any_of (map (fun t => conforms t v) (flatten1 s)) <-> conforms s v.
Proof.
  induction s as [ | val | val mn mx | val mn mx pr | val len mnl mxl al sub pat
                 | es ty len mnl mxl IHes IHty | ks IHks | ts IHts
                 | val | val | val | val | nm t IHt | t IHt ] using schema_ind';
    intros v; try (cbn [flatten1 map any_of fold_right]; tauto).
  destruct ts as [ts|]; [|cbn [flatten1 map any_of fold_right conforms]; tauto].
  specialize (IHts ts eq_refl). cbn [flatten1 conforms]. fold (any_of (map (fun t => conforms t v) ts)).
  induction IHts as [|t r Ht _ IH]; cbn [flat_map map any_of fold_right]; [tauto|].
  rewrite map_app, any_of_app, Ht. fold (any_of (map (fun t0 => conforms t0 v) r)).
  fold (any_of (map (fun t0 => conforms t0 v) (flat_map flatten1 r))) in IH. rewrite IH. tauto.
Qed.

Lemma flatten_conforms ts v :
  any_of (map (fun t => conforms t v) (flatten ts)) <-> any_of (map (fun t => conforms t v) ts).
Proof.
  unfold flatten. induction ts as [|t r IH]; cbn [flat_map map any_of fold_right]; [tauto|].
  rewrite map_app, any_of_app, flatten1_conforms.
  fold (any_of (map (fun t0 => conforms t0 v) r)).
  fold (any_of (map (fun t0 => conforms t0 v) (flat_map flatten1 r))) in IH. rewrite IH. tauto.
Qed.

Lemma flatten_same_meaning_lemma ts v :
  conforms (SAny (Some (flatten ts))) v <-> conforms (SAny (Some ts)) v.
Proof. cbn [conforms]. apply flatten_conforms. Qed.

(* what is left after flattening contains no declared any at the top: flattening again
   changes nothing *)
Definition declared_any (s : schema) : bool :=
  match s with SAny (Some _) => true | _ => false end.

Lemma flatten1_no_declared_any s : Forall (fun t => declared_any t = false) (flatten1 s).
Proof.
  induction s as [ | val | val mn mx | val mn mx pr | val len mnl mxl al sub pat
                 | es ty len mnl mxl IHes IHty | ks IHks | ts IHts
                 | val | val | val | val | nm t IHt | t IHt ] using schema_ind';
    try (cbn [flatten1]; repeat constructor).
  destruct ts as [ts|]; [|cbn [flatten1]; repeat constructor].
  specialize (IHts ts eq_refl). cbn [flatten1].
  induction IHts as [|t r Ht _ IH]; cbn [flat_map]; [constructor|].
  apply Forall_app. split; assumption.
Qed.

Lemma flatten1_fixed s : declared_any s = false -> flatten1 s = [s].
Proof. destruct s as [ | | | | | | |[ts|]| | | | | | ]; simpl; auto; discriminate. Qed.

Lemma flatten_idempotent ts : flatten (flatten ts) = flatten ts.
Proof.
  unfold flatten.
  assert (G : forall l, Forall (fun t => declared_any t = false) l -> flat_map flatten1 l = l).
  { induction 1 as [|x r Hx _ IH]; simpl; [reflexivity|]. rewrite (flatten1_fixed _ Hx), IH. reflexivity. }
  apply G. induction ts as [|t r IH]; simpl; [constructor|].
  apply Forall_app. split; [apply flatten1_no_declared_any | exact IH].
Qed.

(* well-formedness *)
Lemma wf_any_iff l : wf (SAny (Some l)) = true <-> Forall (fun t => wf t = true) l.
Proof. cbn [wf]. apply (forallb_id_map wf). Qed.

Lemma wf_flatten1 s : wf s = true -> Forall (fun t => wf t = true) (flatten1 s).
Proof.
  induction s as [ | val | val mn mx | val mn mx pr | val len mnl mxl al sub pat
                 | es ty len mnl mxl IHes IHty | ks IHks | ts IHts
                 | val | val | val | val | nm t IHt | t IHt ] using schema_ind';
    intros Hwf; try (cbn [flatten1]; constructor; [exact Hwf | constructor]).
  destruct ts as [ts|]; [|cbn [flatten1]; constructor; [exact Hwf | constructor]].
  specialize (IHts ts eq_refl). apply wf_any_iff in Hwf. cbn [flatten1].
  induction IHts as [|t r Ht _ IH]; cbn [flat_map]; [constructor|].
  inversion Hwf; subst. apply Forall_app. split; auto.
Qed.

Lemma wf_flatten ts : Forall (fun t => wf t = true) ts -> wf (SAny (Some (flatten ts))) = true.
Proof.
  intros H. apply wf_any_iff. unfold flatten.
  induction H as [|t r Ht _ IH]; simpl; [constructor|].
  apply Forall_app. split; [apply wf_flatten1; exact Ht | exact IH].
Qed.

(* ------------------------------------------------------------------ any(...) and | *)
Lemma any_call_spec_lemma base args :
  match any_call base args with
  | Ok u => base = None /\ args <> [] /\
            forall v, conforms u v <-> Exists (fun t => conforms t v) args
  | Err k => k = DeclErr /\ base <> None /\ args <> []
  | Raise e => e = TypeError /\ args = []
  end.
Proof.
  unfold any_call. destruct args as [|t ts]; [split; reflexivity|].
  destruct base as [b|].
  - repeat split; discriminate.
  - split; [reflexivity|]. split; [discriminate|].
    intros v. rewrite flatten_same_meaning_lemma. apply conforms_any.
Qed.

Lemma any_call_is_union_lemma t ts u :
  any_call None (t :: ts) = Ok u ->
  forall v, conforms u v <-> Exists (fun x => conforms x v) (t :: ts).
Proof.
  intros H v. pose proof (any_call_spec_lemma None (t :: ts)) as G. rewrite H in G.
  destruct G as (_ & _ & G). apply G.
Qed.

Lemma wf_any_call base args u :
  Forall (fun t => wf t = true) args -> any_call base args = Ok u -> wf u = true.
Proof.
  unfold any_call. destruct args as [|t ts]; [discriminate|]. destruct base; [discriminate|].
  intros H E. injection E as <-. apply (wf_flatten (t :: ts)). exact H.
Qed.

Lemma s_or_total a b : exists u, s_or a b = Ok u.
Proof. unfold s_or, any_call. eauto. Qed.

Lemma or_is_union_lemma a b u :
  s_or a b = Ok u -> forall v, conforms u v <-> conforms a v \/ conforms b v.
Proof.
  intros H v. rewrite (any_call_is_union_lemma a [b] u H v). split.
  - intros E. inversion E as [? ? H0|? ? H0]; subst; [left; exact H0|].
    inversion H0 as [? ? H1|? ? H1]; subst; [right; exact H1 | inversion H1].
  - intros [H0|H0]; [constructor 1 | constructor 2; constructor 1]; exact H0.
Qed.

Lemma wf_s_or a b u : wf a = true -> wf b = true -> s_or a b = Ok u -> wf u = true.
Proof. intros Ha Hb. apply wf_any_call. repeat constructor; assumption. Qed.

(* nested unions: (a | b) | c, a | (b | c) and any(a, b, c) are the same schema *)
Lemma or_assoc_same a b c ab bc :
  s_or a b = Ok ab -> s_or b c = Ok bc ->
  s_or ab c = any_call None [a; b; c] /\ s_or a bc = any_call None [a; b; c].
Proof.
  unfold s_or, any_call. intros E1 E2. inversion E1; inversion E2; subst.
  unfold flatten. cbn [flat_map flatten1]. rewrite !app_nil_r.
  assert (G : forall l, Forall (fun t => declared_any t = false) l -> flat_map flatten1 l = l).
  { induction 1 as [|x r Hx _ IH]; simpl; [reflexivity|]. rewrite (flatten1_fixed _ Hx), IH. reflexivity. }
  rewrite !G.
  - rewrite <- !app_assoc. split; reflexivity.
  - apply Forall_app. split; apply flatten1_no_declared_any.
  - apply Forall_app. split; apply flatten1_no_declared_any.
Qed.

(* ------------------------------------------------------------------ alias *)
Lemma alias_spec_lemma n t v : conforms (alias n t) v <-> conforms t v.
Proof. reflexivity. Qed.

Lemma wf_alias n t : wf (alias n t) = wf t.
Proof. reflexivity. Qed.

(* ------------------------------------------------------------------ dict schemas, entry-wise *)
Definition vhas_key (k : key) (v : value) : Prop :=
  match v with VDict d => has_key k d = true | _ => False end.

(* the constraint one declared entry puts on a dict value *)
Definition entry_holds (e : dentry) (d : list (key * value)) : Prop :=
  match assoc (de_key e) d with
  | Some x => opt_holds (de_schema e) (fun s => conforms s x)
  | None => de_opt e = true
  end.

Definition centry (e : dentry) : key * (option (value -> Prop) * bool) :=
  (de_key e, (match de_schema e with Some sch => Some (conforms sch) | None => None end, de_opt e)).

Lemma declared_centry k l : declared k (map centry l) = has_dkey k l.
Proof. unfold declared, has_dkey. rewrite existsb_map. reflexivity. Qed.

Lemma conforms_dict_entries l v :
  conforms (SDict (Some l)) v <->
  exists d, v = VDict d /\
    (forall e, In e l -> de_key e <> KEll -> entry_holds e d) /\
    (has_dkey KEll l = false -> forall k x, In (k, x) d -> has_dkey k l = true).
Proof.
  cbn [conforms]. fold centry. unfold dict_spec. rewrite declared_centry.
  split; intros (d & -> & H1 & H2); exists d; (split; [reflexivity|]); split.
  - intros e He Hk. specialize (H1 (de_key e) (match de_schema e with Some sch => Some (conforms sch) | None => None end) (de_opt e)).
    unfold entry_holds. assert (Hin : In (centry e) (map centry l)) by (apply in_map; exact He).
    specialize (H1 Hin Hk). destruct (assoc (de_key e) d); [|exact H1].
    destruct (de_schema e); exact H1.
  - intros Hr k x Hin. rewrite <- declared_centry. eapply H2; eauto.
  - intros k c opt Hin Hk. apply in_map_iff in Hin as (e & Ee & He). unfold centry in Ee.
    inversion Ee; subst. specialize (H1 e He Hk). unfold entry_holds in H1.
    destruct (assoc (de_key e) d); [|exact H1]. destruct (de_schema e); exact H1.
  - intros Hr k x Hin. rewrite declared_centry. eapply H2; eauto.
Qed.

Lemma conforms_dict_undeclared v : conforms (SDict None) v <-> exists d, v = VDict d.
Proof. cbn [conforms]. split; intros (d & H); [exists d; tauto | exists d; tauto]. Qed.

(* ---- nodup / has_dkey / find_entry ---- *)
Lemma has_dkey_map k l : existsb (key_eqb k) (map de_key l) = has_dkey k l.
Proof. unfold has_dkey. rewrite existsb_map. reflexivity. Qed.

Lemma nodup_cons e l :
  nodup_keys (map de_key (e :: l)) = true <->
  has_dkey (de_key e) l = false /\ nodup_keys (map de_key l) = true.
Proof.
  cbn [map nodup_keys]. rewrite andb_true_iff, negb_true_iff, has_dkey_map. tauto.
Qed.

Lemma has_dkey_In k l : has_dkey k l = true <-> exists e, In e l /\ de_key e = k.
Proof.
  unfold has_dkey. rewrite existsb_exists. split; intros (e & He & H); exists e; split; auto.
  - symmetry. apply key_eqb_eq. exact H.
  - apply key_eqb_eq. congruence.
Qed.

Lemma has_dkey_false k l : has_dkey k l = false <-> forall e, In e l -> de_key e <> k.
Proof.
  split.
  - intros H e He Hk. assert (has_dkey k l = true) by (apply has_dkey_In; eauto). congruence.
  - intros H. destruct (has_dkey k l) eqn:E; auto. apply has_dkey_In in E as (e & He & Hk).
    exfalso. eapply H; eauto.
Qed.

Lemma has_dkey_app k a b : has_dkey k (a ++ b) = has_dkey k a || has_dkey k b.
Proof. unfold has_dkey. apply existsb_app. Qed.

Lemma find_entry_none k l : find_entry k l = None <-> has_dkey k l = false.
Proof.
  induction l as [|e r IH]; simpl; [tauto|].
  destruct (key_eqb k (de_key e)); simpl; [split; discriminate | exact IH].
Qed.

Lemma find_entry_some k l e : find_entry k l = Some e -> In e l /\ de_key e = k.
Proof.
  induction l as [|x r IH]; simpl; [discriminate|].
  destruct (key_eqb k (de_key x)) eqn:E.
  - intros H. inversion H; subst. apply key_eqb_eq in E. auto.
  - intros H. destruct (IH H). auto.
Qed.

Lemma find_entry_In l e :
  nodup_keys (map de_key l) = true -> In e l -> find_entry (de_key e) l = Some e.
Proof.
  induction l as [|x r IH]; intros Hn Hin; [contradiction|].
  apply nodup_cons in Hn as [Hx Hn]. simpl. destruct Hin as [->|Hin].
  - rewrite key_eqb_refl. reflexivity.
  - destruct (key_eqb (de_key e) (de_key x)) eqn:E; [|auto].
    apply key_eqb_eq in E. exfalso. eapply (proj1 (has_dkey_false _ _) Hx); eauto.
Qed.

(* ---- dict assignment ---- *)
Lemma dset_same_key (e e' : dentry) :
  key_eqb (de_key e) (de_key e') = true -> (de_key e', de_schema e, de_opt e) = e.
Proof.
  intros H. apply key_eqb_eq in H. rewrite <- H. destruct e as [[k s] o]. reflexivity.
Qed.

Lemma has_dkey_dset k e d : has_dkey k (dset e d) = key_eqb k (de_key e) || has_dkey k d.
Proof.
  unfold has_dkey. induction d as [|x r IH]; cbn [dset existsb]; [rewrite orb_false_r; reflexivity|].
  destruct (key_eqb (de_key e) (de_key x)) eqn:E.
  - rewrite (dset_same_key _ _ E). cbn [existsb]. apply key_eqb_eq in E. rewrite <- E.
    destruct (key_eqb k (de_key e)); reflexivity.
  - cbn [existsb]. rewrite IH.
    destruct (key_eqb k (de_key x)), (key_eqb k (de_key e)); reflexivity.
Qed.

Lemma dset_absent e d : has_dkey (de_key e) d = false -> dset e d = d ++ [e].
Proof.
  induction d as [|x r IH]; simpl; [reflexivity|].
  destruct (key_eqb (de_key e) (de_key x)); simpl; [discriminate|].
  intros H. rewrite IH by exact H. reflexivity.
Qed.

Lemma nodup_dset e d :
  nodup_keys (map de_key d) = true -> nodup_keys (map de_key (dset e d)) = true.
Proof.
  induction d as [|x r IH]; intros Hn; [reflexivity|].
  apply nodup_cons in Hn as [Hx Hn]. simpl.
  destruct (key_eqb (de_key e) (de_key x)) eqn:E.
  - apply (nodup_cons (de_key x, de_schema e, de_opt e) r). split; assumption.
  - apply nodup_cons. split; [|apply IH; exact Hn].
    rewrite has_dkey_dset, Hx, orb_false_r. rewrite key_eqb_sym. exact E.
Qed.

Lemma In_dset e d x :
  nodup_keys (map de_key d) = true ->
  (In x (dset e d) <-> x = e \/ (In x d /\ de_key x <> de_key e)).
Proof.
  induction d as [|y r IH]; intros Hn.
  - simpl. split; [intros [H|[]]; auto | intros [H|[[] _]]; auto].
  - apply nodup_cons in Hn as [Hy Hn]. simpl.
    destruct (key_eqb (de_key e) (de_key y)) eqn:E.
    + rewrite (dset_same_key _ _ E). apply key_eqb_eq in E. simpl. split.
      * intros [H|H]; [left; auto|]. right. split; [right; exact H|].
        rewrite E. apply (proj1 (has_dkey_false _ _) Hy). exact H.
      * intros [H|[[H|H] Hk]]; [left; auto | subst; congruence | right; exact H].
    + apply key_eqb_neq in E. simpl. rewrite (IH Hn). split.
      * intros [H|[H|[H Hk]]]; [right; subst; split; [left; reflexivity | congruence] | left; exact H |].
        right. split; [right; exact H | exact Hk].
      * intros [H|[[H|H] Hk]]; [right; left; exact H | left; exact H | right; right; auto].
Qed.

Lemma Forall_dset (P : dentry -> Prop) e d : P e -> Forall P d -> Forall P (dset e d).
Proof.
  intros He. induction 1 as [|x r Hx H IH]; simpl; [repeat constructor; exact He|].
  destruct (key_eqb (de_key e) (de_key x)) eqn:E.
  - rewrite (dset_same_key _ _ E). constructor; assumption.
  - constructor; assumption.
Qed.

(* ---- {**e1, **e2} ---- *)
Lemma has_dkey_merge k e1 e2 : has_dkey k (merge_entries e1 e2) = has_dkey k e1 || has_dkey k e2.
Proof.
  unfold merge_entries. revert e1. induction e2 as [|e r IH]; intros e1; simpl.
  - rewrite orb_false_r. reflexivity.
  - rewrite IH, has_dkey_dset. destruct (key_eqb k (de_key e)), (has_dkey k e1); reflexivity.
Qed.

Lemma nodup_merge e1 e2 :
  nodup_keys (map de_key e1) = true -> nodup_keys (map de_key (merge_entries e1 e2)) = true.
Proof.
  unfold merge_entries. revert e1. induction e2 as [|e r IH]; intros e1 Hn; simpl; [exact Hn|].
  apply IH. apply nodup_dset. exact Hn.
Qed.

Lemma Forall_merge (P : dentry -> Prop) e1 e2 :
  Forall P e1 -> Forall P e2 -> Forall P (merge_entries e1 e2).
Proof.
  unfold merge_entries. intros H1 H2. revert e1 H1.
  induction H2 as [|e r He _ IH]; intros e1 H1; simpl; [exact H1|].
  apply IH. apply Forall_dset; assumption.
Qed.

(* which entries the sum has: all of d2's, and those of d1 whose key d2 does not declare *)
Lemma In_merge e1 e2 x :
  nodup_keys (map de_key e1) = true -> nodup_keys (map de_key e2) = true ->
  (In x (merge_entries e1 e2) <-> In x e2 \/ (In x e1 /\ has_dkey (de_key x) e2 = false)).
Proof.
  unfold merge_entries. revert e1. induction e2 as [|e r IH]; intros e1 Hn1 Hn2.
  - simpl. split; [intros H; right; auto | intros [[]|[H _]]; exact H].
  - apply nodup_cons in Hn2 as [He Hn2]. cbn [fold_left].
    rewrite (IH (dset e e1) (nodup_dset _ _ Hn1) Hn2), (In_dset e e1 x Hn1).
    cbn [has_dkey existsb]. fold (has_dkey (de_key x) r). split.
    + intros [H|[[H|[H Hk]] Hr]].
      * left. right. exact H.
      * left. left. auto.
      * right. split; [exact H|]. apply key_eqb_neq in Hk. rewrite Hk. exact Hr.
    + intros [[H|H]|[H Hr]].
      * subst x. right. split; [left; reflexivity | exact He].
      * left. exact H.
      * apply orb_false_iff in Hr as [Hk Hr]. apply key_eqb_neq in Hk.
        right. split; [right; split; assumption | exact Hr].
Qed.

(* ---- the Python position rule is the textbook merge ---- *)
Definition repl (e2 : list dentry) (e : dentry) : dentry :=
  match find_entry (de_key e) e2 with
  | Some e' => (de_key e, de_schema e', de_opt e')
  | None => e end.

Lemma merged_spec_unfold e1 e2 :
  merged_spec e1 e2 = map (repl e2) e1 ++ filter (fun e => negb (has_dkey (de_key e) e1)) e2.
Proof. reflexivity. Qed.

Lemma filter_ext_in' {A} (f g : A -> bool) l :
  (forall x, In x l -> f x = g x) -> filter f l = filter g l.
Proof.
  induction l as [|x r IH]; intros H; simpl; [reflexivity|].
  rewrite (H x (or_introl eq_refl)), IH; [reflexivity|]. intros y Hy. apply H. right. exact Hy.
Qed.

Lemma map_repl_dset e r e1 :
  nodup_keys (map de_key e1) = true -> has_dkey (de_key e) r = false ->
  has_dkey (de_key e) e1 = true ->
  map (repl r) (dset e e1) = map (repl (e :: r)) e1.
Proof.
  intros Hn Hr. induction e1 as [|x t IH]; intros Hin; [discriminate|].
  apply nodup_cons in Hn as [Hx Hn]. simpl.
  destruct (key_eqb (de_key e) (de_key x)) eqn:E.
  - pose proof E as E'. apply key_eqb_eq in E'. cbn [map]. f_equal.
    + unfold repl. cbn [de_key fst find_entry]. rewrite <- E', key_eqb_refl.
      apply find_entry_none in Hr. rewrite Hr. rewrite E'. reflexivity.
    + apply map_ext_in. intros y Hy. unfold repl. cbn [find_entry].
      assert (Hne : de_key y <> de_key e).
      { rewrite E'. apply (proj1 (has_dkey_false _ _) Hx). exact Hy. }
      apply key_eqb_neq in Hne. rewrite Hne. reflexivity.
  - cbn [map]. f_equal.
    + unfold repl. cbn [find_entry]. rewrite key_eqb_sym, E. reflexivity.
    + apply IH; [exact Hn|]. cbn [has_dkey existsb] in Hin. rewrite E in Hin. exact Hin.
Qed.

Lemma map_repl_absent e r e1 :
  has_dkey (de_key e) e1 = false -> map (repl (e :: r)) e1 = map (repl r) e1.
Proof.
  intros H. apply map_ext_in. intros y Hy. unfold repl. cbn [find_entry].
  assert (Hne : de_key y <> de_key e) by (apply (proj1 (has_dkey_false _ _) H); exact Hy).
  apply key_eqb_neq in Hne. rewrite Hne. reflexivity.
Qed.

Lemma merge_is_textbook e1 e2 :
  nodup_keys (map de_key e1) = true -> nodup_keys (map de_key e2) = true ->
  merge_entries e1 e2 = merged_spec e1 e2.
Proof.
  rewrite merged_spec_unfold. unfold merge_entries. revert e1.
  induction e2 as [|e r IH]; intros e1 Hn1 Hn2.
  - simpl. rewrite app_nil_r. symmetry. rewrite <- (map_id e1) at 2. apply map_ext. reflexivity.
  - apply nodup_cons in Hn2 as [He Hn2]. cbn [fold_left].
    rewrite (IH (dset e e1) (nodup_dset _ _ Hn1) Hn2).
    assert (Hf : filter (fun x => negb (has_dkey (de_key x) (dset e e1))) r =
                 filter (fun x => negb (has_dkey (de_key x) e1)) r).
    { apply filter_ext_in'. intros y Hy. rewrite has_dkey_dset.
      assert (Hne : de_key y <> de_key e) by (apply (proj1 (has_dkey_false _ _) He); exact Hy).
      apply key_eqb_neq in Hne. rewrite Hne. reflexivity. }
    rewrite Hf. cbn [filter]. destruct (has_dkey (de_key e) e1) eqn:Hin; cbn [negb].
    + rewrite (map_repl_dset e r e1 Hn1 He Hin). reflexivity.
    + rewrite (dset_absent _ _ Hin), map_app, (map_repl_absent e r e1 Hin). cbn [map].
      assert (Hre : repl r e = e).
      { unfold repl. apply find_entry_none in He. rewrite He. reflexivity. }
      rewrite Hre, <- app_assoc. reflexivity.
Qed.

(* ---- d1 + d2 ---- *)
Lemma wf_dict_iff l :
  wf (SDict (Some l)) = true <->
  Forall (fun e => entry_shape_ok e = true) l /\ nodup_keys (map de_key l) = true /\
  Forall (fun e => match de_schema e with Some t => wf t | None => true end = true) l.
Proof.
  cbn [wf]. rewrite !andb_true_iff, forallb_forall, <- Forall_forall.
  rewrite (forallb_id_map (fun e : dentry => match de_schema e with Some t => wf t | None => true end)).
  tauto.
Qed.

Lemma wf_entries ks : wf (SDict ks) = true -> wf (SDict (Some (entries_of ks))) = true.
Proof. destruct ks; [auto | reflexivity]. Qed.

Lemma dict_add_ok k1 k2 :
  dict_add (SDict k1) (SDict k2) = Ok (SDict (Some (merge_entries (entries_of k1) (entries_of k2)))).
Proof. reflexivity. Qed.

Lemma dict_add_rejects a b :
  match dict_add a b with
  | Ok _ => (exists k1, a = SDict k1) /\ (exists k2, b = SDict k2)
  | Raise e => (e = AttributeError /\ forall k1, a <> SDict k1) \/
               (e = TypeError /\ (exists k1, a = SDict k1) /\ forall k2, b <> SDict k2)
  | Err _ => False end.
Proof.
  destruct a; try (left; split; [reflexivity | discriminate]).
  destruct b; try (right; repeat split; eauto; discriminate).
  split; eauto.
Qed.

Lemma wf_dict_add a b d : wf a = true -> wf b = true -> dict_add a b = Ok d -> wf d = true.
Proof.
  destruct a; try discriminate. destruct b; try discriminate. intros H1 H2 E. inversion E; subst.
  apply wf_entries, wf_dict_iff in H1 as (S1 & N1 & W1).
  apply wf_entries, wf_dict_iff in H2 as (S2 & N2 & W2).
  apply wf_dict_iff. repeat split.
  - apply Forall_merge; assumption.
  - apply nodup_merge; assumption.
  - apply (Forall_merge (fun e => match de_schema e with Some t => wf t | None => true end = true)); assumption.
Qed.

Lemma add_textbook_lemma k1 k2 :
  wf (SDict k1) = true -> wf (SDict k2) = true ->
  dict_add (SDict k1) (SDict k2) = Ok (SDict (Some (merged_spec (entries_of k1) (entries_of k2)))).
Proof.
  intros H1 H2. rewrite dict_add_ok.
  apply wf_entries, wf_dict_iff in H1 as (_ & N1 & _).
  apply wf_entries, wf_dict_iff in H2 as (_ & N2 & _).
  rewrite (merge_is_textbook _ _ N1 N2). reflexivity.
Qed.

Lemma add_characterisation_lemma k1 k2 d :
  wf (SDict k1) = true -> wf (SDict k2) = true -> dict_add (SDict k1) (SDict k2) = Ok d ->
  forall v, conforms d v <->
    exists dv, v = VDict dv /\
      (forall e, In e (entries_of k2) -> de_key e <> KEll -> entry_holds e dv) /\
      (forall e, In e (entries_of k1) -> de_key e <> KEll ->
                 has_dkey (de_key e) (entries_of k2) = false -> entry_holds e dv) /\
      (has_dkey KEll (entries_of k1) = false -> has_dkey KEll (entries_of k2) = false ->
       forall k x, In (k, x) dv ->
         has_dkey k (entries_of k1) = true \/ has_dkey k (entries_of k2) = true).
Proof.
  intros H1 H2 E v. rewrite dict_add_ok in E. inversion E; subst d. clear E.
  apply wf_entries, wf_dict_iff in H1 as (_ & N1 & _).
  apply wf_entries, wf_dict_iff in H2 as (_ & N2 & _).
  set (e1 := entries_of k1) in *. set (e2 := entries_of k2) in *.
  rewrite conforms_dict_entries.
  split; intros (dv & -> & A & B); exists dv; (split; [reflexivity|]).
  - repeat split.
    + intros e He Hk. apply A; [|exact Hk]. apply In_merge; auto.
    + intros e He Hk Hn. apply A; [|exact Hk]. apply In_merge; auto.
    + intros R1 R2 k x Hin. apply orb_true_iff. rewrite <- has_dkey_merge.
      apply (B (eq_trans (has_dkey_merge _ _ _) (eq_trans (f_equal2 orb R1 R2) eq_refl)) k x Hin).
  - destruct B as (B & C). split.
    + intros e He Hk. apply In_merge in He; auto. destruct He as [He|[He Hn]]; auto.
    + intros R k x Hin. rewrite has_dkey_merge in R. apply orb_false_iff in R as [R1 R2].
      rewrite has_dkey_merge. apply orb_true_iff. eapply C; eauto.
Qed.

(* relaxed iff either operand is *)
Lemma add_relaxed_lemma k1 k2 :
  has_dkey KEll (merge_entries (entries_of k1) (entries_of k2)) =
  has_dkey KEll (entries_of k1) || has_dkey KEll (entries_of k2).
Proof. apply has_dkey_merge. Qed.

(* ------------------------------------------------------------------ make_required *)
Definition required_keys (d : schema) (ks : option (list key)) : list key :=
  match ks with
  | Some l => l
  | None => match d with SDict dk => map de_key (entries_of dk) | _ => [] end
  end.

Lemma existsb_key_In k l : existsb (key_eqb k) l = true <-> In k l.
Proof.
  rewrite existsb_exists. split.
  - intros (x & Hx & E). apply key_eqb_eq in E. subst. exact Hx.
  - intros H. exists k. split; [exact H | apply key_eqb_refl].
Qed.

Lemma make_required_rejects s ks :
  match make_required s ks with
  | Ok _ => exists dk, s = SDict dk /\
                       forall k, In k (required_keys s ks) -> has_dkey k (entries_of dk) = true
  | Err e => e = DeclErr /\
             ((forall dk, s <> SDict dk) \/
              exists dk k, s = SDict dk /\ In k (required_keys s ks) /\ has_dkey k (entries_of dk) = false)
  | Raise _ => False end.
Proof.
  destruct s as [ | | | | | |dk| | | | | | | ]; try (split; [reflexivity | left; discriminate]).
  unfold make_required.
  set (req := match ks with Some l => l | None => map de_key (entries_of dk) end).
  assert (Hreq : required_keys (SDict dk) ks = req) by (destruct ks; reflexivity).
  destruct (forallb (fun k => has_dkey k (entries_of dk)) req) eqn:F; cbn [negb].
  - assert (G : forall k, In k req -> has_dkey k (entries_of dk) = true)
      by (apply forallb_forall; exact F).
    destruct dk as [l|].
    + exists (Some l). rewrite Hreq. split; auto.
    + exists None. rewrite Hreq. split; auto.
  - split; [reflexivity|]. right.
    assert (Hex : exists k, In k req /\ has_dkey k (entries_of dk) = false).
    { clear Hreq. induction req as [|k r IH]; [discriminate|]. simpl in F.
      destruct (has_dkey k (entries_of dk)) eqn:Hk.
      - destruct (IH F) as (k' & Hin & Hf). exists k'. split; [right; exact Hin | exact Hf].
      - exists k. split; [left; reflexivity | exact Hk]. }
    destruct Hex as (k & Hin & Hf). exists dk, k. rewrite Hreq. auto.
Qed.

Definition upd_entry (req : list key) (e : dentry) : dentry :=
  (de_key e, de_schema e, if existsb (key_eqb (de_key e)) req then false else de_opt e).

Lemma has_dkey_upd k req l : has_dkey k (map (upd_entry req) l) = has_dkey k l.
Proof. unfold has_dkey. rewrite existsb_map. reflexivity. Qed.

Lemma make_required_unfold dk ks :
  make_required (SDict dk) ks =
  let req := required_keys (SDict dk) ks in
  if negb (forallb (fun k => has_dkey k (entries_of dk)) req) then Err DeclErr else
  match dk with
  | None => Ok (SDict None)
  | Some l => Ok (SDict (Some (map (upd_entry req) l)))
  end.
Proof. destruct ks, dk; reflexivity. Qed.

Lemma make_required_spec_lemma d ks d' :
  make_required d ks = Ok d' ->
  forall v, conforms d' v <->
            conforms d v /\ (forall k, In k (required_keys d ks) -> k <> KEll -> vhas_key k v).
Proof.
  destruct d as [ | | | | | |dk| | | | | | | ]; try discriminate.
  rewrite make_required_unfold. cbv zeta.
  set (req := required_keys (SDict dk) ks).
  destruct (forallb (fun k => has_dkey k (entries_of dk)) req) eqn:F; cbn [negb]; [|discriminate].
  assert (G : forall k, In k req -> has_dkey k (entries_of dk) = true)
    by (apply forallb_forall; exact F).
  destruct dk as [l|]; intros E; injection E as <-; intros v.
  - (* declared keys *)
    cbn [entries_of] in G. rewrite !conforms_dict_entries. split.
    + intros (dv & -> & A & B). split.
      * exists dv. split; [reflexivity|]. split.
        -- intros e He Hk. specialize (A (upd_entry req e) (in_map _ _ _ He) Hk).
           unfold entry_holds, upd_entry in *. cbn [de_key de_schema de_opt fst snd] in A.
           destruct (assoc (de_key e) dv); [exact A|].
           destruct (existsb (key_eqb (de_key e)) req); [discriminate | exact A].
        -- intros R k x Hin. rewrite <- (has_dkey_upd k req l). apply (B (eq_trans (has_dkey_upd _ _ _) R) k x Hin).
      * intros k Hk Hne. cbn [vhas_key]. apply G in Hk as Hd. apply has_dkey_In in Hd as (e & He & Ek).
        specialize (A (upd_entry req e) (in_map _ _ _ He)).
        unfold entry_holds, upd_entry in A. cbn [de_key de_schema de_opt fst snd] in A. rewrite Ek in A.
        assert (Hex : existsb (key_eqb k) req = true) by (apply existsb_key_In; exact Hk).
        rewrite Hex in A. unfold has_key. destruct (assoc k dv); [reflexivity|].
        specialize (A Hne). discriminate.
    + intros ((dv & -> & A & B) & K). exists dv. split; [reflexivity|]. split.
      * intros e' He' Hk. apply in_map_iff in He' as (e & <- & He).
        unfold upd_entry in Hk. cbn [de_key fst] in Hk.
        specialize (A e He Hk). unfold entry_holds, upd_entry in *.
        cbn [de_key de_schema de_opt fst snd].
        destruct (assoc (de_key e) dv) eqn:Ea; [exact A|].
        destruct (existsb (key_eqb (de_key e)) req) eqn:Hex; [|exact A].
        apply existsb_key_In in Hex. specialize (K _ Hex Hk). cbn [vhas_key] in K.
        unfold has_key in K. rewrite Ea in K. discriminate.
      * intros R k x Hin. rewrite has_dkey_upd in *. eapply B; eauto.
  - (* undeclared: nothing can be requested *)
    cbn [entries_of] in G. split; [intros H; split; [exact H|] | intros [H _]; exact H].
    intros k Hk. specialize (G k Hk). discriminate.
Qed.

Lemma entry_shape_upd req e : entry_shape_ok e = true -> entry_shape_ok (upd_entry req e) = true.
Proof.
  destruct e as [[k s] o]. unfold upd_entry. cbn [de_key de_schema de_opt fst snd].
  destruct (existsb (key_eqb k) req); [|auto].
  destruct k, s, o; simpl; auto.
Qed.

Lemma wf_make_required d ks d' : wf d = true -> make_required d ks = Ok d' -> wf d' = true.
Proof.
  destruct d as [ | | | | | |dk| | | | | | | ]; try discriminate.
  rewrite make_required_unfold. cbv zeta.
  destruct (negb (forallb (fun k => has_dkey k (entries_of dk)) (required_keys (SDict dk) ks))); [discriminate|].
  destruct dk as [l|]; intros Hwf E; injection E as <-; [|reflexivity].
  set (req := required_keys (SDict (Some l)) ks).
  apply wf_dict_iff in Hwf as (S1 & N1 & W1). apply wf_dict_iff. repeat split.
  - apply Forall_forall. intros e' He'. apply in_map_iff in He' as (e & <- & He).
    apply entry_shape_upd. apply (proj1 (Forall_forall _ _) S1 e He).
  - rewrite map_map. exact N1.
  - apply Forall_forall. intros e' He'. apply in_map_iff in He' as (e & <- & He).
    apply (proj1 (Forall_forall _ _) W1 e He).
Qed.

(* keys and order are untouched *)
Lemma make_required_keys dk ks d' :
  make_required (SDict dk) ks = Ok d' -> iter_keys d' = iter_keys (SDict dk).
Proof.
  rewrite make_required_unfold. cbv zeta.
  destruct (negb (forallb (fun k => has_dkey k (entries_of dk)) (required_keys (SDict dk) ks))); [discriminate|].
  destruct dk as [l|]; intros E; injection E as <-; [|reflexivity].
  cbn [iter_keys entries_of]. rewrite map_map. reflexivity.
Qed.

(* ------------------------------------------------------------------ d[k], iteration *)
Lemma getitem_spec_lemma l k :
  wf (SDict (Some l)) = true ->
  match getitem (SDict (Some l)) k with
  | Ok m => k <> KEll /\ exists s o, m = Some s /\ In (k, Some s, o) l
  | Raise e => e = KeyError /\ (k = KEll \/ has_dkey k l = false)
  | Err _ => False end.
Proof.
  intros Hwf. apply wf_dict_iff in Hwf as (S1 & N1 & _). cbn [getitem].
  destruct (find_entry k l) as [e|] eqn:F.
  - apply find_entry_some in F as [He Ek].
    destruct (is_kell k) eqn:K.
    + split; [reflexivity|]. left. destruct k; try discriminate. reflexivity.
    + apply is_kell_false in K. split; [exact K|].
      pose proof (proj1 (Forall_forall _ _) S1 e He) as Sh.
      destruct e as [[k' s] o]. cbn [de_key fst] in Ek. subst k'. cbn [de_schema fst snd].
      destruct s as [s|]; [exists s, o; auto|].
      destruct k; simpl in Sh; try discriminate. contradiction.
  - split; [reflexivity|]. right. apply find_entry_none. exact F.
Qed.

Lemma getitem_declared l k s o :
  wf (SDict (Some l)) = true -> In (k, Some s, o) l -> k <> KEll ->
  getitem (SDict (Some l)) k = Ok (Some s).
Proof.
  intros Hwf Hin Hk. apply wf_dict_iff in Hwf as (_ & N1 & _). cbn [getitem].
  rewrite (find_entry_In l (k, Some s, o) N1 Hin : find_entry k l = _).
  apply is_kell_false in Hk. rewrite Hk. reflexivity.
Qed.

Lemma getitem_other s k :
  match s with
  | SDict None => getitem s k = Raise KeyError
  | SDict (Some _) => True
  | _ => getitem s k = Raise TypeError end.
Proof. destruct s as [ | | | | | |[l|]| | | | | | | ]; auto. Qed.

Lemma iter_spec_lemma dk :
  iter_keys (SDict dk) = Ok (map de_key (entries_of dk)) /\
  (wf (SDict dk) = true ->
   forall k, In k (map de_key (entries_of dk)) -> k <> KEll ->
             exists s, getitem (SDict dk) k = Ok (Some s)).
Proof.
  split; [reflexivity|]. intros Hwf k Hin Hk. destruct dk as [l|]; [|contradiction].
  cbn [entries_of] in Hin. apply in_map_iff in Hin as (e & Ek & He).
  pose proof (getitem_spec_lemma l k Hwf) as G.
  destruct (getitem (SDict (Some l)) k) as [m| |ex].
  - destruct G as (_ & s & o & -> & _). eauto.
  - contradiction.
  - destruct G as (_ & [G|G]); [contradiction|].
    exfalso. apply (proj1 (has_dkey_false _ _) G e He Ek).
Qed.

Lemma contains_spec_lemma dk k : contains_key (SDict dk) k = Ok (has_dkey k (entries_of dk)).
Proof. cbn [contains_key iter_keys bind]. rewrite has_dkey_map. reflexivity. Qed.

(* iteration yields the relaxed marker, which is not subscriptable *)
Lemma iter_all_subscriptable_refuted_lemma :
  exists d k ks, wf d = true /\ iter_keys d = Ok ks /\ In k ks /\ getitem d k = Raise KeyError.
Proof.
  exists (SDict (Some [(KEll, None, false)])), KEll, [KEll].
  vm_compute. repeat split; auto.
Qed.

(* ------------------------------------------------------------------ verdict forms (via C02) *)
Lemma verdict_eq_of_iff s1 s2 v :
  wf s1 = true -> wf s2 = true -> (conforms s1 v <-> conforms s2 v) -> verdict s1 v = verdict s2 v.
Proof.
  intros W1 W2 H.
  pose proof (verdict_iff_conforms_lemma s1 W1 v) as V1.
  pose proof (verdict_iff_conforms_lemma s2 W2 v) as V2.
  destruct (verdict s1 v), (verdict s2 v); auto.
  - assert (false = true) by (apply V2, H, V1; reflexivity). discriminate.
  - assert (false = true) by (apply V1, H, V2; reflexivity). discriminate.
Qed.

Lemma or_verdict_lemma a b u :
  wf a = true -> wf b = true -> s_or a b = Ok u ->
  forall v, verdict u v = verdict a v || verdict b v.
Proof.
  intros Wa Wb E v. pose proof (wf_s_or a b u Wa Wb E) as Wu.
  pose proof (or_is_union_lemma a b u E v) as H.
  pose proof (verdict_iff_conforms_lemma u Wu v) as Vu.
  pose proof (verdict_iff_conforms_lemma a Wa v) as Va.
  pose proof (verdict_iff_conforms_lemma b Wb v) as Vb.
  destruct (verdict u v) eqn:Eu.
  - symmetry. apply orb_true_iff. destruct (proj1 H (proj1 Vu eq_refl)) as [H0|H0];
      [left; apply Va | right; apply Vb]; exact H0.
  - symmetry. apply orb_false_iff. split.
    + destruct (verdict a v); auto. assert (false = true) by (apply Vu, H; left; apply Va; reflexivity). discriminate.
    + destruct (verdict b v); auto. assert (false = true) by (apply Vu, H; right; apply Vb; reflexivity). discriminate.
Qed.

Lemma alias_verdict_lemma n t v : verdict (alias n t) v = verdict t v.
Proof. reflexivity. Qed.

Definition vhas_keyb (k : key) (v : value) : bool :=
  match v with VDict d => has_key k d | _ => false end.

Lemma make_required_verdict_lemma d ks d' :
  wf d = true -> make_required d ks = Ok d' ->
  forall v, verdict d' v =
            verdict d v && forallb (fun k => is_kell k || vhas_keyb k v) (required_keys d ks).
Proof.
  intros Wd E v. pose proof (wf_make_required d ks d' Wd E) as Wd'.
  pose proof (make_required_spec_lemma d ks d' E v) as H.
  pose proof (verdict_iff_conforms_lemma d Wd v) as Vd.
  pose proof (verdict_iff_conforms_lemma d' Wd' v) as Vd'.
  assert (K : forallb (fun k => is_kell k || vhas_keyb k v) (required_keys d ks) = true <->
              (forall k, In k (required_keys d ks) -> k <> KEll -> vhas_key k v)).
  { rewrite forallb_forall. split.
    - intros F k Hk Hne. specialize (F k Hk). apply is_kell_false in Hne. rewrite Hne in F.
      destruct v; simpl in *; try discriminate. exact F.
    - intros F k Hk. destruct (is_kell k) eqn:Ek; [reflexivity|]. apply is_kell_false in Ek.
      specialize (F k Hk Ek). destruct v; simpl in *; try contradiction. exact F. }
  destruct (verdict d' v) eqn:E'.
  - symmetry. apply andb_true_iff. destruct (proj1 H (proj1 Vd' eq_refl)) as [H1 H2].
    split; [apply Vd; exact H1 | apply K; exact H2].
  - symmetry. apply andb_false_iff.
    destruct (verdict d v) eqn:E1; [|left; reflexivity]. right.
    destruct (forallb (fun k => is_kell k || vhas_keyb k v) (required_keys d ks)) eqn:E2; [|reflexivity].
    assert (false = true) by (apply Vd', H; split; [apply Vd; reflexivity | apply K; reflexivity]).
    discriminate.
Qed.
