(* C03: every error is located (its path resolves to the value it reports), true (the
   stated fact holds of that value) and does not leak outside the sub-value validated. *)
From Coq Require Import PrimFloat.
Require Import D42.Prelude D42.PyFloat D42.Value D42.Regex D42.Schema D42.Validate.
Require Import D42P.ListLemmas D42P.ScalarSpec D42P.FloatFacts.
Open Scope Z_scope.

Definition vlen (v : value) : option Z :=
  match v with VStr s => Some (zlen s) | VList l => Some (zlen l) | _ => None end.

(* Python's < between two ints (bools included) or two floats *)
Definition lt_val (a b : value) : bool :=
  match a, b with
  | VFloat x, VFloat y => PrimFloat.ltb x y
  | _, _ => match as_int a, as_int b with Some x, Some y => x <? y | _, _ => false end
  end.

(* the fact each kind of error states about the value it reports *)
Definition fact (m : mode) (e : verror) : Prop :=
  let a := eactual e in
  match ekind_of e with
  | EType t => isinst t a = false
  | EValue x => py_eqb a x = false
  | EMin b => lt_val a b = true
  | EMax b => lt_val b a = true
  | ELen n => exists L, vlen a = Some L /\ L <> iz n
  | EMinLen n => exists L, vlen a = Some L /\ L < iz n
  | EMaxLen n => exists L, vlen a = Some L /\ iz n < L
  | EAlphabet al => exists s, a = VStr s /\ Exists (fun c => ~ In c al) s
  | ESubstr t => exists s, a = VStr s /\ infix t s = false
  | ERegex pt => exists s, a = VStr s /\ pat_search pt s = false
  | EMissingElement i => exists l, a = VList l /\ 0 <= i /\ nth_error l (Z.to_nat i) = None
  | EExtraElement i => exists l x, a = VList l /\ 0 <= i /\ nth_error l (Z.to_nat i) = Some x
  | EMissingKey k => exists d, a = VDict d /\ assoc k d = None
  | EExtraKey k => exists d x, a = VDict d /\ assoc k d = Some x
  | EMismatch ts => forall t, In t ts -> validate m t (epath e) a <> []
  | EUuidVersion ver => exists n, a = VUuid n /\ uuid_version n = ver /\ ver <> Some 4%N
  end.

(* an error raised at p about v itself *)
Definition local (m : mode) (p : path) (v : value) (e : verror) : Prop :=
  epath e = p /\ eactual e = v /\ fact m e.

(* an error raised somewhere below p, inside the root value *)
Definition good (m : mode) (root : value) (p : path) (e : verror) : Prop :=
  (exists q, epath e = p ++ q) /\ lookup root (epath e) = Some (eactual e) /\ fact m e.

Lemma local_good m root p v e : lookup root p = Some v -> local m p v e -> good m root p e.
Proof.
  intros Hl (Hp & Ha & Hf). repeat split; auto.
  - exists []. rewrite app_nil_r. exact Hp.
  - rewrite Hp, Ha. exact Hl.
Qed.

Lemma good_weaken m root p k e : good m root (p ++ k) e -> good m root p e.
Proof.
  intros ((q & Hq) & Hl & Hf). repeat split; auto. exists (k ++ q). rewrite app_assoc. exact Hq.
Qed.

Lemma lookup_app root p q :
  lookup root (p ++ q) = match lookup root p with Some v => lookup v q | None => None end.
Proof.
  revert root. induction p as [|k p IH]; intros root; simpl; [reflexivity|].
  destruct root; try reflexivity.
  - destruct k; try reflexivity. destruct (z <? 0); [reflexivity|].
    destruct (nth_error l (Z.to_nat z)); [apply IH | reflexivity].
  - destruct (assoc k d); [apply IH | reflexivity].
Qed.

Lemma lookup_index root p l i x :
  lookup root p = Some (VList l) -> nth_error l i = Some x ->
  lookup root (p ++ [KInt (Z.of_nat i)]) = Some x.
Proof.
  intros Hp Hn. rewrite lookup_app, Hp. simpl.
  destruct (Z.ltb_spec (Z.of_nat i) 0); [lia|]. rewrite Nat2Z.id, Hn. reflexivity.
Qed.

Lemma lookup_key root p d k x :
  lookup root p = Some (VDict d) -> assoc k d = Some x -> lookup root (p ++ [k]) = Some x.
Proof. intros Hp Hn. rewrite lookup_app, Hp. simpl. rewrite Hn. reflexivity. Qed.

(* ---------------- scalars: every error is local ---------------- *)
Ltac local_single :=
  constructor; [split; [reflexivity | split; [reflexivity | unfold fact; cbn [ekind_of eactual epath]; auto]] | constructor].

Lemma check_value_local m p v e :
  Forall (local m p v) (check_value p v e).
Proof.
  unfold check_value. destruct (py_eqb v e) eqn:E; [constructor|]. local_single.
Qed.

Lemma v_none_local m p v : Forall (local m p v) (v_none p v).
Proof. unfold v_none. destruct (isinst TNone v) eqn:E; [constructor | local_single]. Qed.

Lemma v_bool_local m val p v : Forall (local m p v) (v_bool val p v).
Proof.
  unfold v_bool. destruct (isinst TBool v) eqn:E; simpl; [|local_single].
  destruct val; [apply check_value_local | constructor].
Qed.

Lemma isinst_int v : isinst TInt v = match as_int v with Some _ => true | None => false end.
Proof. destruct v as [|[|]| | | | | | | | | | | |]; reflexivity. Qed.

Lemma lt_val_int v z b : as_int v = Some z -> lt_val v (of_intv b) = (z <? iz b).
Proof.
  intros H. unfold lt_val.
  destruct v as [|[|]|x| | | | | | | | | | |]; simpl in *; try discriminate;
    inversion H; subst; destruct b as [y|[|]]; reflexivity.
Qed.
Lemma lt_val_int_r v z b : as_int v = Some z -> lt_val (of_intv b) v = (iz b <? z).
Proof.
  intros H. unfold lt_val.
  destruct v as [|[|]|x| | | | | | | | | | |]; simpl in *; try discriminate;
    inversion H; subst; destruct b as [y|[|]]; reflexivity.
Qed.

Lemma v_int_local m val mn mx p v : Forall (local m p v) (v_int val mn mx p v).
Proof.
  unfold v_int. destruct (as_int v) as [z|] eqn:Ez.
  2:{ local_single. rewrite isinst_int, Ez. reflexivity. }
  destruct (match val with Some e => check_value p v (of_intv e) | None => [] end) eqn:Ev.
  - apply Forall_app. split.
    + destruct mn as [b|]; [|constructor]. destruct (z <? iz b) eqn:E; [|constructor].
      local_single. rewrite (lt_val_int _ _ _ Ez). exact E.
    + destruct mx as [b|]; [|constructor]. destruct (iz b <? z) eqn:E; [|constructor].
      local_single. rewrite (lt_val_int_r _ _ _ Ez). exact E.
  - rewrite <- Ev. destruct val; [apply check_value_local | constructor].
Qed.

Lemma v_float_local m val mn mx pr p v : Forall (local m p v) (v_float val mn mx pr p v).
Proof.
  unfold v_float. destruct v as [| | |x| | | | | | | | | |]; try local_single.
  destruct (match val with
            | Some e => if float_value_ok x e pr then [] else [VE (EValue (VFloat e)) p (VFloat x)]
            | None => [] end) eqn:Ev.
  - apply Forall_app. split.
    + destruct mn as [b|]; [|constructor]. destruct (PrimFloat.ltb x b) eqn:E; [|constructor]. local_single.
    + destruct mx as [b|]; [|constructor]. destruct (PrimFloat.ltb b x) eqn:E; [|constructor]. local_single.
  - rewrite <- Ev. destruct val as [e|]; [|constructor].
    destruct (float_value_ok x e pr) eqn:E; [constructor|]. local_single.
    simpl. destruct (PrimFloat.eqb x e) eqn:Eq; [|reflexivity].
    rewrite (eqb_true_value_ok _ _ pr Eq) in E. discriminate.
Qed.

Lemma check_len_local m p v n len mnl mxl :
  vlen v = Some n -> Forall (local m p v) (check_len p v n len mnl mxl).
Proof.
  intros Hn. unfold check_len. repeat (apply Forall_app; split).
  - destruct len as [k|]; [|constructor]. destruct (Z.eqb_spec n (iz k)); simpl; [constructor|].
    local_single. exists n. auto.
  - destruct mnl as [k|]; [|constructor]. destruct (Z.ltb_spec n (iz k)); [|constructor].
    local_single. exists n. auto.
  - destruct mxl as [k|]; [|constructor]. destruct (Z.ltb_spec (iz k) n); [|constructor].
    local_single. exists n. auto.
Qed.

Lemma forallb_false_Exists {A} (f : A -> bool) l :
  forallb f l = false -> Exists (fun x => f x = false) l.
Proof.
  induction l as [|a r IH]; simpl; [discriminate|].
  destruct (f a) eqn:E; simpl; [intros H; right; auto | intros _; left; exact E].
Qed.

Lemma v_str_local m val len mnl mxl al sub pat p v :
  Forall (local m p v) (v_str val len mnl mxl al sub pat p v).
Proof.
  unfold v_str. destruct v as [| | | |s| | | | | | | | |]; try local_single.
  destruct (match val with Some e => check_value p (VStr s) (VStr e) | None => [] end) eqn:Ev.
  2:{ rewrite <- Ev. destruct val; [apply check_value_local | constructor]. }
  destruct (match pat with Some pt => if pat_search pt s then [] else [VE (ERegex pt) p (VStr s)] | None => [] end) eqn:Ep.
  2:{ rewrite <- Ep. destruct pat as [pt|]; [|constructor].
      destruct (pat_search pt s) eqn:E; [constructor|]. local_single. exists s. auto. }
  apply Forall_app; split; [apply check_len_local; reflexivity | apply Forall_app; split].
  - destruct sub as [t|]; [|constructor]. destruct (infix t s) eqn:E; [constructor|].
    local_single. exists s. auto.
  - destruct al as [a|]; [|constructor]. destruct (forallb (fun c => Nmem c a) s) eqn:E; [constructor|].
    local_single. exists s. split; [reflexivity|].
    apply forallb_false_Exists in E. eapply Exists_impl; [|exact E].
    intros c Hc Hin. apply Nmem_In in Hin. congruence.
Qed.

Lemma v_bytes_local m val p v : Forall (local m p v) (v_bytes val p v).
Proof.
  unfold v_bytes. destruct (isinst TBytes v) eqn:E; simpl; [|local_single].
  destruct val; [apply check_value_local | constructor].
Qed.

Lemma v_uuid_local m val p v : Forall (local m p v) (v_uuid val p v).
Proof.
  unfold v_uuid. destruct v as [| | | | | |n| | | | | | |]; try local_single.
  destruct (uuid_is_v4 n) eqn:E; simpl.
  - destruct val; [apply check_value_local | constructor].
  - local_single. exists n. repeat split. intros H. apply uuid_is_v4_iff in H. congruence.
Qed.

Lemma v_datetime_local m val p v : Forall (local m p v) (v_datetime val p v).
Proof.
  unfold v_datetime. destruct (isinst TDatetime v) eqn:E; simpl; [|local_single].
  destruct val as [[a us]|]; [apply check_value_local | constructor].
Qed.

Lemma v_date_local m val p v : Forall (local m p v) (v_date val p v).
Proof.
  unfold v_date. destruct (isinst TDate v) eqn:E; simpl; [|local_single].
  destruct val; [apply check_value_local | constructor].
Qed.

(* ---------------- containers ---------------- *)
Definition okg (m : mode) (root : value) (f : elemfn) : Prop :=
  forall q x, lookup root q = Some x -> Forall (good m root q) (f q x).

Lemma Forall_good_weaken m root p k es :
  Forall (good m root (p ++ k)) es -> Forall (good m root p) es.
Proof. intros H. eapply Forall_impl; [|exact H]. intros e. apply good_weaken. Qed.

Lemma velems_good m root fs p l idx :
  Forall (okg m root) fs -> lookup root p = Some (VList l) ->
  Forall (good m root p) (velems fs p l idx).
Proof.
  intros Hfs Hp. revert idx. induction Hfs as [|f fs Hf _ IH]; intros idx; cbn [velems]; [constructor|].
  destruct (nth_error l idx) as [x|] eqn:E.
  - apply Forall_app. split; [|apply IH].
    eapply Forall_good_weaken. apply Hf. eapply lookup_index; eauto.
  - constructor; [|constructor]. eapply local_good; [exact Hp|].
    repeat split; simpl. exists l. repeat split; [lia|]. rewrite Nat2Z.id. exact E.
Qed.

Lemma extras_good m root p l n :
  lookup root p = Some (VList l) -> Forall (good m root p) (extras p l n).
Proof.
  intros Hp. unfold extras. apply Forall_forall. intros e He.
  apply in_map_iff in He as (i & <- & Hi). apply in_seq in Hi.
  eapply local_good; [exact Hp|]. repeat split; simpl.
  destruct (nth_error l i) as [x|] eqn:E.
  - exists l, x. repeat split; [lia|]. rewrite Nat2Z.id. exact E.
  - apply nth_error_None in E. lia.
Qed.

Lemma strip_Forall {A} (P : A -> Prop) (l : list (option A)) :
  Forall (fun o => match o with Some a => P a | None => True end) l -> Forall P (strip l).
Proof.
  induction 1 as [|o r Ho _ IH]; simpl; [constructor|]. destruct o; simpl; auto.
Qed.

Lemma Forall_tl {A} (P : A -> Prop) l : Forall P l -> Forall P (tl l).
Proof. destruct 1; simpl; auto. Qed.
Lemma Forall_removelast {A} (P : A -> Prop) l : Forall P l -> Forall P (removelast l).
Proof. induction 1 as [|a r Ha H IH]; simpl; auto. destruct r; auto. Qed.
Lemma Forall_middle {A} (P : option A -> Prop) l : Forall P l -> Forall P (middle l).
Proof. intros H. unfold middle. destruct (classify l); auto using Forall_tl, Forall_removelast. Qed.

Lemma list_logic_good m root fs p l :
  Forall (fun o => match o with Some f => okg m root f | None => True end) fs ->
  lookup root p = Some (VList l) ->
  Forall (good m root p) (list_logic fs p l).
Proof.
  intros Hfs Hp. unfold list_logic.
  pose proof (strip_Forall _ _ (Forall_middle _ _ Hfs)) as Hmid.
  destruct (classify fs).
  - destruct l as [|x l0]; [apply velems_good; auto|].
    destruct (map (fun i => velems (strip (middle fs)) p (x :: l0) i) (seq 0 (length (x :: l0)))) as [|w ws] eqn:EM;
      [constructor|].
    pose proof (min_by_len_in w ws) as Hin. rewrite <- EM in Hin.
    apply in_map_iff in Hin as (i & <- & _). apply velems_good; auto.
  - apply velems_good; auto.
  - apply velems_good; auto.
  - apply Forall_app. split; [apply velems_good; auto | apply extras_good; auto].
Qed.

Lemma typed_logic_good m root f p l :
  okg m root f -> lookup root p = Some (VList l) ->
  Forall (good m root p) (typed_logic m f p l).
Proof.
  intros Hf Hp. unfold typed_logic. apply Forall_flat_map. apply Forall_forall. intros [i x] Hin. simpl.
  destruct (skip_ell m i (length l) x); [constructor|].
  eapply Forall_good_weaken. apply Hf. eapply lookup_index; eauto. apply enumerate_nth. exact Hin.
Qed.

Lemma assoc_In_some {V} k (x : V) d : In (k, x) d -> exists y, assoc k d = Some y.
Proof.
  induction d as [|[k' y] r IH]; simpl; [contradiction|].
  intros [E|H].
  - inversion E; subst. assert (Hk : key_eqb k k = true).
    { destruct k; simpl; auto using Z.eqb_refl, N.eqb_refl;
        try (apply (proj2 (str_eqb_eq _ _)); reflexivity);
        try (apply (proj2 (bytes_eqb_eq _ _)); reflexivity). }
    rewrite Hk. eauto.
  - destruct (key_eqb k k'); eauto.
Qed.

Lemma dict_logic_good m root (fs : list (key * (option elemfn * bool))) p d :
  Forall (fun e => match fst (snd e) with Some f => okg m root f | None => True end) fs ->
  lookup root p = Some (VDict d) ->
  Forall (good m root p) (dict_logic m fs p d).
Proof.
  intros Hfs Hp. unfold dict_logic. apply Forall_app. split.
  - unfold dict_members. apply Forall_flat_map. eapply Forall_impl; [|exact Hfs].
    intros [k [f opt]] Hf. simpl in Hf.
    destruct (is_kell k); [constructor|].
    destruct (assoc k d) as [x|] eqn:Ea.
    + assert (G : Forall (good m root p) (match f with Some f0 => f0 (p ++ [k]) x | None => [] end)).
      { destruct f as [f0|]; [|constructor]. eapply Forall_good_weaken. apply Hf. eapply lookup_key; eauto. }
      destruct m; [exact G|]. destruct x; try exact G. constructor.
    + destruct m; [|constructor]. destruct opt; [constructor|].
      constructor; [|constructor]. eapply local_good; [exact Hp|]. repeat split; simpl. exists d. auto.
  - unfold dict_extras. destruct (declared KEll fs); [constructor|].
    apply Forall_flat_map. apply Forall_forall. intros [k x] Hin. simpl.
    destruct (declared k fs); [constructor|].
    constructor; [|constructor]. eapply local_good; [exact Hp|]. repeat split; simpl.
    destruct (assoc_In_some _ _ _ Hin) as (y & Hy). exists d, y. auto.
Qed.

Lemma any_logic_local m ts p v :
  Forall (local m p v) (any_logic ts (map (fun t => validate m t) ts) p v).
Proof.
  unfold any_logic, elemfn.
  destruct (existsb (fun f : path -> value -> list verror => match f p v with [] => true | _ => false end)
                    (map (fun t => validate m t) ts)) eqn:E; [constructor|].
  constructor; [|constructor]. repeat split; simpl. intros t Ht Hnil. simpl in Hnil.
  assert (Hex : existsb (fun f : path -> value -> list verror => match f p v with [] => true | _ => false end)
                        (map (fun t => validate m t) ts) = true).
  { apply existsb_exists. exists (validate m t). split; [apply in_map; exact Ht|]. rewrite Hnil. reflexivity. }
  congruence.
Qed.

(* ---------------- the theorem ---------------- *)
Theorem errors_good_lemma :
  forall m root s p v, lookup root p = Some v -> Forall (good m root p) (validate m s p v).
Proof.
  intros m root.
  induction s as [ | val | val mn mx | val mn mx pr | val len mnl mxl al sub pat
                 | es ty len mnl mxl IHes IHty | ks IHks | ts IHts
                 | val | val | val | val | nm t IHt | t IHt ] using schema_ind';
    intros p v Hp; cbn [validate].
  - eapply Forall_impl; [intros e; apply (local_good m root p v e Hp) | apply v_none_local].
  - eapply Forall_impl; [intros e; apply (local_good m root p v e Hp) | apply v_bool_local].
  - eapply Forall_impl; [intros e; apply (local_good m root p v e Hp) | apply v_int_local].
  - eapply Forall_impl; [intros e; apply (local_good m root p v e Hp) | apply v_float_local].
  - eapply Forall_impl; [intros e; apply (local_good m root p v e Hp) | apply v_str_local].
  - (* list *)
    destruct v as [| | | | | | | | |l| | | |];
      try (constructor; [|constructor]; eapply local_good; [exact Hp|]; repeat split; reflexivity).
    destruct (check_len_first p (VList l) (zlen l) len mnl mxl) eqn:EL.
    + destruct ty as [t|].
      * apply typed_logic_good; auto. intros q x Hq. apply (IHty t eq_refl). exact Hq.
      * destruct es as [es'|]; [|constructor].
        apply list_logic_good; auto. specialize (IHes es' eq_refl). clear - IHes.
        induction IHes as [|o r Ho _ IH]; simpl; constructor; auto.
        destruct o as [sch|]; auto. intros q x Hq. apply (Ho sch eq_refl). exact Hq.
    + unfold check_len_first in EL.
      pose proof (check_len_local m p (VList l) (zlen l) len mnl mxl eq_refl) as HL.
      destruct (check_len p (VList l) (zlen l) len mnl mxl) as [|e0 r0]; [discriminate|].
      inversion EL; subst. inversion HL; subst.
      constructor; [|constructor]. eapply local_good; eauto.
  - (* dict *)
    destruct v as [| | | | | | | | | |d| | |];
      try (constructor; [|constructor]; eapply local_good; [exact Hp|]; repeat split; reflexivity).
    destruct ks as [ents|]; [|constructor].
    apply dict_logic_good; auto. specialize (IHks ents eq_refl). clear - IHks.
    induction IHks as [|e r He _ IH]; simpl; constructor; auto.
    simpl. destruct (de_schema e) as [sch|] eqn:Es; auto. intros q x Hq. apply (He sch eq_refl). exact Hq.
  - (* any *)
    destruct ts as [ts'|]; [|constructor].
    eapply Forall_impl; [intros e; apply (local_good m root p v e Hp)|]. apply any_logic_local.
  - eapply Forall_impl; [intros e; apply (local_good m root p v e Hp) | apply v_bytes_local].
  - eapply Forall_impl; [intros e; apply (local_good m root p v e Hp) | apply v_uuid_local].
  - eapply Forall_impl; [intros e; apply (local_good m root p v e Hp) | apply v_datetime_local].
  - eapply Forall_impl; [intros e; apply (local_good m root p v e Hp) | apply v_date_local].
  - apply IHt. exact Hp.
  - apply IHt. exact Hp.
Qed.
