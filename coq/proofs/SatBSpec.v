(* [satb] (theories/SatB.v) decides [sat] (theories/Sat.v) on well-formed schemas. *)
From Coq Require Import PrimFloat ZArith Lia Bool List.
Require Import D42.Prelude D42.PyFloat D42.Value D42.Regex D42.Schema D42.Validate D42.Conforms
               D42.PyRandom D42.RegexGen D42.ReSupported D42.Generate D42.Sat D42.SatB.
Require Import D42Gen.GenConsts.
Require Import D42P.ListLemmas D42P.ScalarSpec D42P.ValidateSpec.
Import ListNotations.
Open Scope Z_scope.

Lemma opt_holdsb_iff {A} (o : option A) (f : A -> bool) (P : A -> Prop) :
  (forall a, f a = true <-> P a) -> (opt_holdsb o f = true <-> opt_holds o P).
Proof.
  intros H. destruct o as [a|]; simpl; [apply H | split; auto].
Qed.

Lemma len_okb_iff n len mnl mxl : len_okb n len mnl mxl = true <-> len_ok n len mnl mxl.
Proof.
  unfold len_okb, len_ok. rewrite !andb_true_iff.
  rewrite (opt_holdsb_iff len _ (fun k => n = iz k)) by (intros a; apply Z.eqb_eq).
  rewrite (opt_holdsb_iff mnl _ (fun k => iz k <= n)) by (intros a; apply Z.leb_le).
  rewrite (opt_holdsb_iff mxl _ (fun k => n <= iz k)) by (intros a; apply Z.leb_le).
  tauto.
Qed.

Lemma negb_true_false b : negb b = true <-> b = false.
Proof. destruct b; simpl; split; auto; discriminate. Qed.

Lemma satb_int_iff val mn mx : satb_int val mn mx = true <-> sat_int val mn mx.
Proof.
  unfold satb_int, sat_int. destruct val as [i|].
  - rewrite andb_true_iff.
    rewrite (opt_holdsb_iff mn _ (fun m => iz m <= iz i)) by (intros a; apply Z.leb_le).
    rewrite (opt_holdsb_iff mx _ (fun m => iz i <= iz m)) by (intros a; apply Z.leb_le).
    tauto.
  - destruct mn as [a|], mx as [b|]; try (split; auto; fail). apply Z.leb_le.
Qed.

Lemma satb_float_iff val mn mx pr : satb_float val mn mx pr = true <-> sat_float val mn mx pr.
Proof.
  unfold satb_float, sat_float. destruct val as [x|].
  - rewrite !andb_true_iff.
    rewrite (opt_holdsb_iff mn _ (fun m => PrimFloat.ltb x m = false)) by (intros a; apply negb_true_false).
    rewrite (opt_holdsb_iff mx _ (fun m => PrimFloat.ltb m x = false)) by (intros a; apply negb_true_false).
    tauto.
  - rewrite andb_true_iff.
    assert (H1 : match mn, mx with Some a, Some b => negb (PrimFloat.ltb b a) | _, _ => true end = true <->
                 match mn, mx with Some a, Some b => PrimFloat.ltb b a = false | _, _ => True end).
    { destruct mn as [a|], mx as [b|]; try (split; auto; fail). apply negb_true_false. }
    assert (H2 : match pr with None => true
                          | Some p => prec_ok (fst (float_lo_hi mn mx)) (snd (float_lo_hi mn mx)) (iz p) end = true <->
                 match pr with None => True
                          | Some p => prec_ok (fst (float_lo_hi mn mx)) (snd (float_lo_hi mn mx)) (iz p) = true end).
    { destruct pr as [p|]; [reflexivity | split; auto]. }
    rewrite H1, H2. reflexivity.
Qed.

Lemma is_none_iff {A} (o : option A) : is_none o = true <-> o = None.
Proof. destruct o; simpl; split; auto; discriminate. Qed.

Lemma empty_alpha_okb_iff len mnl mxl al sub :
  empty_alpha_okb len mnl mxl al sub = true <-> (al = Some [] -> len_ok (sub_len sub) len mnl mxl).
Proof.
  unfold empty_alpha_okb. destruct al as [[|c a]|].
  - rewrite len_okb_iff. split; auto.
  - split; [intros _ H; discriminate | auto].
  - split; [intros _ H; discriminate | auto].
Qed.

Lemma satb_str_iff w val len mnl mxl al sub pat :
  pat_ok pat = true ->
  (satb_str w val len mnl mxl al sub pat = true <-> sat_str w val len mnl mxl al sub pat).
Proof.
  intros Hpat. unfold satb_str, sat_str. destruct val as [x|].
  - apply (verdict_iff_conforms_lemma (SStr (Some x) len mnl mxl al sub pat) Hpat (VStr x)).
  - destruct pat as [[src p]|].
    + rewrite !andb_true_iff, !is_none_iff. tauto.
    + rewrite andb_true_iff.
      assert (Hal : opt_holdsb al (fun a => opt_holdsb sub (fun t => forallb (fun c => Nmem c a) t)) = true <->
                    opt_holds al (fun a => opt_holds sub (fun t => Forall (fun c => In c a) t))).
      { apply opt_holdsb_iff. intros a. apply opt_holdsb_iff. intros t. apply forallb_Nmem. }
      rewrite Hal. destruct len as [k|].
      * rewrite !andb_true_iff, len_okb_iff, empty_alpha_okb_iff, !Z.leb_le. tauto.
      * cbv zeta. rewrite !andb_true_iff, empty_alpha_okb_iff, !Z.leb_le.
        rewrite (opt_holdsb_iff mxl _ (fun k =>
                   match sub with
                   | Some t => Z.max match mxl with Some k0 => iz k0
                                               | None => Z.max STR_LEN_MAX (opt_iz mnl STR_LEN_MIN) end (zlen t)
                   | None => match mxl with Some k0 => iz k0
                                       | None => Z.max STR_LEN_MAX (opt_iz mnl STR_LEN_MIN) end
                   end <= iz k)) by (intros a; apply Z.leb_le).
        tauto.
Qed.

Lemma satb_list_len_iff len mnl mxl : satb_list_len len mnl mxl = true <-> sat_list_len len mnl mxl.
Proof.
  unfold satb_list_len, sat_list_len. destruct len as [k|].
  - rewrite andb_true_iff, len_okb_iff, Z.leb_le. reflexivity.
  - cbv zeta. rewrite andb_true_iff, !Z.leb_le. reflexivity.
Qed.

Lemma forallb_id_map_conj {A} (f : A -> bool) (P : A -> Prop) (l : list A) :
  Forall (fun a => f a = true <-> P a) l ->
  (forallb (fun x => x) (map f l) = true <->
   fold_right (fun c acc => c /\ acc) True (map P l)).
Proof.
  induction l as [|a r IH]; intros HF; simpl; [split; auto|].
  inversion HF as [|a' r' Ha Hr]; subst. rewrite andb_true_iff, Ha, (IH Hr). reflexivity.
Qed.

Lemma satb_iff_lemma : forall w s, wf s = true -> (satb w s = true <-> sat w s).
Proof.
  intros w.
  induction s as [ | val | val mn mx | val mn mx pr | val len mnl mxl al sub pat
                 | es ty len mnl mxl IHes IHty | ks IHks | ts IHts
                 | val | val | val | val | nm t IHt | t IHt ] using schema_ind';
    intros Hwf; cbn [satb sat].
  - split; auto.
  - split; auto.
  - apply satb_int_iff.
  - apply satb_float_iff.
  - apply satb_str_iff. exact Hwf.
  - (* list *)
    cbn [wf] in Hwf. apply andb_true_iff in Hwf as [Hwes Hwty].
    destruct es as [es'|].
    + apply andb_true_iff in Hwes as [_ Hwes]. apply forallb_id_map in Hwes.
      rewrite !andb_true_iff, is_none_iff, len_okb_iff.
      rewrite (forallb_id_map_conj _ (fun o => match o with Some e => sat w e | None => True end)).
      * tauto.
      * specialize (IHes es' eq_refl). rewrite Forall_forall in *. intros o Ho.
        destruct o as [e|]; [|split; auto].
        apply (IHes _ Ho e eq_refl). apply (Hwes _ Ho).
    + rewrite andb_true_iff, satb_list_len_iff. destruct ty as [t|].
      * rewrite (IHty t eq_refl Hwty). reflexivity.
      * tauto.
  - (* dict *)
    destruct ks as [ents|]; [|split; auto].
    cbn [wf] in Hwf. apply andb_true_iff in Hwf as [_ Hwf]. apply forallb_id_map in Hwf.
    apply (forallb_id_map_conj _ (fun e : dentry =>
             if is_kell (de_key e) || de_opt e then True
             else match de_schema e with Some sch => sat w sch | None => False end)).
    specialize (IHks ents eq_refl). rewrite Forall_forall in *. intros e He.
    destruct (is_kell (de_key e) || de_opt e); [split; auto|].
    specialize (IHks e He). specialize (Hwf e He).
    destruct (de_schema e) as [sch|]; [|split; [discriminate | contradiction]].
    apply (IHks sch eq_refl Hwf).
  - (* any *)
    destruct ts as [ts'|]; [|split; auto].
    cbn [wf] in Hwf. apply forallb_id_map in Hwf.
    rewrite andb_true_iff, (forallb_id_map_conj _ (fun t => sat w t)).
    + assert (Hne : negb (match ts' with [] => true | _ => false end) = true <-> ts' <> []).
      { destruct ts' as [|t0 r0]; simpl; split.
        - discriminate.
        - intros H. exfalso. apply H. reflexivity.
        - intros _. discriminate.
        - reflexivity. }
      rewrite Hne. reflexivity.
    + specialize (IHts ts' eq_refl). rewrite Forall_forall in *. intros t Ht.
      apply (IHts t Ht). apply (Hwf t Ht).
  - split; auto.
  - apply opt_holdsb_iff. intros n. apply uuid_is_v4_iff.
  - split; auto.
  - apply opt_holdsb_iff. intros d. reflexivity.
  - apply IHt. exact Hwf.
  - apply IHt. exact Hwf.
Qed.

Lemma satb_sound_lemma : forall w s, wf s = true -> satb w s = true -> sat w s.
Proof. intros w s Hwf H. apply (satb_iff_lemma w s Hwf). exact H. Qed.

Lemma satb_complete_lemma : forall w s, wf s = true -> sat w s -> satb w s = true.
Proof. intros w s Hwf H. apply (satb_iff_lemma w s Hwf). exact H. Qed.
