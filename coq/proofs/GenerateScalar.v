(* C01, scalar types: under [sat] the generator returns (for every tape) a conforming value. *)
From Coq Require Import PrimFloat SpecFloat FloatOps FloatAxioms.
Require Import D42.Prelude D42.PyFloat D42.Value D42.Regex D42.Schema D42.Validate D42.Conforms
               D42.PyRandom D42.RegexGen D42.Generate D42.Sat.
Require Import D42Gen.GenConsts.
Require Import D42P.ListLemmas D42P.ScalarSpec D42P.RandomSpec.
Open Scope Z_scope.

(* facts about the constants of the running code (regenerated tables): re-checked on every run *)
Lemma str_alphabet_nonempty : STR_ALPHABET <> [].
Proof. unfold STR_ALPHABET. discriminate. Qed.

Lemma bytes_len_range : BYTES_LEN_MIN <= BYTES_LEN_MAX.
Proof. unfold BYTES_LEN_MIN, BYTES_LEN_MAX. lia. Qed.

(* ---- int ---- *)
Lemma as_int_of_intv i : as_int (of_intv i) = Some (iz i).
Proof. destruct i as [z|[|]]; reflexivity. Qed.

Lemma g_int_sound val mn mx :
  sat_int val mn mx -> returns (g_int val mn mx) (conforms (SInt val mn mx)).
Proof.
  intros Hs. unfold g_int. destruct val as [i|].
  - apply returns_ret. destruct Hs as [H1 H2]. exists (iz i). rewrite as_int_of_intv. cbn. auto.
  - set (lo0 := opt_iz mn INT_MIN). set (hi0 := opt_iz mx INT_MAX).
    set (hi := match mx with None => Z.max hi0 lo0 | Some _ => hi0 end).
    set (lo := match mx, mn with Some _, None => Z.min lo0 hi | _, _ => lo0 end).
    assert (Hle : lo <= hi).
    { unfold lo, hi, lo0, hi0, opt_iz, sat_int in *. destruct mn, mx; simpl; lia. }
    eapply returns_bind; [apply returns_randint; exact Hle|]. intros z Hz. apply returns_ret.
    exists z. cbn. repeat split; auto.
    + unfold lo, hi, lo0, hi0, opt_iz in *. destruct mn as [a|]; cbn; auto. destruct mx; simpl in *; lia.
    + unfold lo, hi, lo0, hi0, opt_iz in *. destruct mx as [b|]; cbn; auto. destruct mn; simpl in *; lia.
Qed.

(* ---- float ---- *)
Lemma pymax_ok b a : PrimFloat.ltb (pymax_f b a) a = false.
Proof. unfold pymax_f. destruct (PrimFloat.ltb b a) eqn:E; [apply ltb_irrefl | exact E]. Qed.

Lemma pymin_ok a b : PrimFloat.ltb b (pymin_f a b) = false.
Proof. unfold pymin_f. destruct (PrimFloat.ltb b a) eqn:E; [apply ltb_irrefl | exact E]. Qed.

Lemma returns_random_float_plain a b :
  PrimFloat.ltb b a = false ->
  returns (random_float a b None) (fun x => PrimFloat.ltb x a = false /\ PrimFloat.ltb b x = false).
Proof. intros H. unfold random_float. rewrite H. apply returns_uniform. exact H. Qed.

(* with a precision the drawn grid point is clamped into [a, b] *)
Lemma returns_random_float_prec a b p :
  PrimFloat.ltb b a = false -> prec_ok a b p = true ->
  returns (random_float a b (Some p)) (fun x => PrimFloat.ltb x a = false /\ PrimFloat.ltb b x = false).
Proof.
  intros Hab Hp. unfold random_float. rewrite Hab. unfold prec_ok in Hp. cbv zeta.
  destruct (r_py_int (PrimFloat.mul a (scale10 p))) as [l| |] eqn:El; try discriminate.
  destruct (r_py_int (PrimFloat.mul b (scale10 p))) as [r| |] eqn:Er; try discriminate.
  apply Z.leb_le in Hp.
  eapply returns_bind; [eapply (returns_mlift _ l (fun z => z = l)); eauto|]. intros l0 ->.
  eapply returns_bind; [eapply (returns_mlift _ r (fun z => z = r)); eauto|]. intros r0 ->.
  eapply returns_bind; [apply returns_randint; exact Hp|]. intros k _.
  apply returns_ret.
  set (x := py_round_nd (py_truediv k (10 ^ p)) p).
  set (y := if PrimFloat.ltb x a then a else x).
  assert (Hy : PrimFloat.ltb y a = false).
  { unfold y. destruct (PrimFloat.ltb x a) eqn:E; [apply ltb_irrefl | exact E]. }
  destruct (PrimFloat.ltb b y) eqn:E.
  - split; [exact Hab | apply ltb_irrefl].
  - split; [exact Hy | exact E].
Qed.

Lemma float_lo_hi_ordered mn mx :
  match mn, mx with Some a, Some b => PrimFloat.ltb b a = false | _, _ => True end ->
  PrimFloat.ltb (snd (float_lo_hi mn mx)) (fst (float_lo_hi mn mx)) = false.
Proof.
  unfold float_lo_hi. destruct mn, mx; simpl; intros H; auto using pymax_ok, pymin_ok.
Qed.

Lemma g_float_sound val mn mx pr :
  sat_float val mn mx pr -> returns (g_float val mn mx pr) (conforms (SFloat val mn mx pr)).
Proof.
  intros Hs. unfold g_float. destruct val as [x|].
  - apply returns_ret. destruct Hs as (H1 & H2 & H3). exists x. cbn. auto.
  - destruct Hs as [Hord Hpr]. pose proof (float_lo_hi_ordered mn mx Hord) as Hle.
    eapply returns_bind with (P := fun x => PrimFloat.ltb x (fst (float_lo_hi mn mx)) = false /\
                                            PrimFloat.ltb (snd (float_lo_hi mn mx)) x = false).
    + destruct pr as [p|].
      * apply returns_random_float_prec; auto.
      * apply returns_random_float_plain; auto.
    + intros x [H1 H2]. apply returns_ret. exists x. cbn. repeat split; auto.
      * unfold float_lo_hi in *. destruct mn as [a|]; cbn; auto. destruct mx; simpl in *; auto.
      * unfold float_lo_hi in *. destruct mx as [b|]; cbn; auto.
Qed.

(* ---- str ---- *)
Lemma is_prefix_app a q : is_prefix a (a ++ q) = true.
Proof. induction a as [|x a IH]; simpl; auto. rewrite N.eqb_refl. exact IH. Qed.

Lemma infix_app a p q : infix a (p ++ a ++ q) = true.
Proof.
  induction p as [|x p IH]; simpl.
  - destruct (a ++ q) eqn:E; simpl.
    + destruct a; [reflexivity | discriminate].
    + rewrite <- E, is_prefix_app. reflexivity.
  - rewrite IH. apply orb_true_r.
Qed.

Lemma infix_nil_l b : infix [] b = true.
Proof. destruct b; reflexivity. Qed.

Lemma splice_length g t off :
  0 <= off <= zlen g -> zlen (splice g t off) = zlen g + zlen t.
Proof.
  intros H. unfold splice, zlen in *. rewrite !app_length, firstn_length, skipn_length. lia.
Qed.

Lemma splice_forall (P : N -> Prop) g t off :
  Forall P g -> Forall P t -> Forall P (splice g t off).
Proof.
  intros Hg Ht. unfold splice. rewrite <- (firstn_skipn (Z.to_nat off) g) in Hg.
  apply Forall_app in Hg as [H1 H2]. apply Forall_app. split; auto. apply Forall_app. split; auto.
Qed.

Lemma g_str_plain_sound w len mnl mxl al sub :
  sat_str w None len mnl mxl al sub None ->
  returns (g_str w None len mnl mxl al sub None) (conforms (SStr None len mnl mxl al sub None)).
Proof.
  intros (Hal & Hlen). unfold g_str.
  set (alphabet := match al with Some a => a | None => STR_ALPHABET end).
  (* the drawn length L satisfies everything the rest needs *)
  set (good := fun L : Z => sub_len sub <= L /\ 0 <= L /\ len_ok L len mnl mxl).
  assert (Hempty : alphabet = [] -> len_ok (sub_len sub) len mnl mxl).
  { intros Ha. assert (Hal0 : al = Some []).
    { unfold alphabet in Ha. destruct al as [a|]; [subst; reflexivity|].
      exfalso. apply str_alphabet_nonempty. exact Ha. }
    destruct len as [k|]; [destruct Hlen as (_ & _ & _ & H) | cbv zeta in Hlen; destruct Hlen as (_ & _ & _ & H)];
      apply H; exact Hal0. }
  assert (Hsl0 : 0 <= sub_len sub) by (unfold sub_len, zlen; destruct sub; lia).
  eapply returns_bind with (P := good).
  - destruct len as [k|].
    + destruct Hlen as (H0 & H1 & H2 & H3). apply returns_ret. unfold good. auto.
    + cbv zeta in Hlen.
      set (lo0 := opt_iz mnl STR_LEN_MIN) in *.
      set (hi0 := match mxl with Some k => iz k | None => Z.max STR_LEN_MAX lo0 end) in *.
      set (lo := match sub with Some t => Z.max lo0 (zlen t) | None => lo0 end) in *.
      set (hi := match sub with Some t => Z.max hi0 (zlen t) | None => hi0 end) in *.
      destruct Hlen as (H0 & H1 & H2 & H3).
      eapply returns_weaken; [apply returns_randint; exact H1|].
      intros L HL. cbv beta in HL. unfold good, len_ok, sub_len. cbn [opt_holds].
      assert (Hmx : opt_holds mxl (fun k => L <= iz k)) by (destruct mxl as [m|]; cbn in *; auto; lia).
      assert (Hmn : opt_holds mnl (fun k => iz k <= L)).
      { subst lo lo0. unfold opt_iz in *. destruct mnl as [m|]; cbn; auto. destruct sub; lia. }
      assert (Hsub : match sub with Some t => zlen t | None => 0 end <= L) by (subst lo; destruct sub; lia).
      assert (H0L : 0 <= L) by lia.
      repeat split; auto.
  - intros L0 HL0.
    set (L := match alphabet with [] => match sub with Some t => zlen t | None => 0 end | _ => L0 end).
    assert (HL : good L /\ (alphabet = [] -> L = sub_len sub)).
    { unfold L. destruct alphabet as [|c a] eqn:Ea.
      - change (match sub with Some t => zlen t | None => 0 end) with (sub_len sub).
        split; [|intros _; reflexivity]. unfold good. split; [lia|]. split; [lia|]. apply Hempty; reflexivity.
      - split; [exact HL0 | discriminate]. }
    destruct HL as ((HL1 & HL0' & HL2) & HL3).
    assert (Hne : alphabet <> [] \/ L - sub_len sub <= 0).
    { destruct alphabet as [|c a] eqn:Ea; [right; rewrite HL3 by reflexivity; lia | left; discriminate]. }
    assert (Halpha : forall s, Forall (fun c => In c alphabet) s ->
                               opt_holds al (fun a => Forall (fun c => In c a) s)).
    { intros s Hs. unfold alphabet in Hs. destruct al; cbn; auto. }
    destruct sub as [t|].
    + eapply returns_bind; [apply returns_random_str; exact Hne|]. intros g [Hg1 Hg2].
      eapply returns_bind; [apply returns_randint; unfold zlen; lia|]. intros off Hoff.
      apply returns_ret. exists (splice g t off). cbn [opt_holds].
      split; [reflexivity|]. split; [exact I|]. split; [exact I|]. split; [|split].
      * rewrite splice_length by exact Hoff. unfold zlen at 1. rewrite Hg1. unfold sub_len in *.
        replace (Z.of_nat (Z.to_nat (L - zlen t)) + zlen t) with L by lia. exact HL2.
      * unfold splice. apply infix_app.
      * destruct al as [a|]; cbn in *; [|exact I]. apply splice_forall; auto.
    + eapply returns_bind; [apply returns_random_str; unfold sub_len in Hne; rewrite Z.sub_0_r in Hne; exact Hne|].
      intros g [Hg1 Hg2]. apply returns_ret. exists g. cbn [opt_holds].
      split; [reflexivity|]. split; [exact I|]. split; [exact I|]. split; [|split; [exact I|]].
      * unfold zlen. rewrite Hg1. replace (Z.of_nat (Z.to_nat L)) with L by lia. exact HL2.
      * apply Halpha. exact Hg2.
Qed.

Lemma g_bytes_sound val : returns (g_bytes val) (conforms (SBytes val)).
Proof.
  unfold g_bytes. destruct val as [b|].
  - apply returns_ret. exists b. cbn. auto.
  - eapply returns_bind; [apply returns_randint; apply bytes_len_range|]. intros n _.
    eapply returns_bind; [apply returns_random_str; left; apply str_alphabet_nonempty|].
    intros g _. apply returns_ret. exists g. cbn. auto.
Qed.
