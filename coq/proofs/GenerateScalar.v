(* C01, scalar types: under [sat] the generator returns (for every tape) a conforming value. *)
From Coq Require Import PrimFloat SpecFloat FloatOps FloatAxioms.
Require Import D42.Prelude D42.PyFloat D42.Value D42.Regex D42.Schema D42.Validate D42.Conforms
               D42.PyRandom D42.RegexGen D42.Generate D42.Sat.
Require Import D42Gen.GenConsts.
Require Import D42P.ListLemmas D42P.ScalarSpec D42P.RandomSpec.
Open Scope Z_scope.

(* facts about the constants of the running code (regenerated tables): re-checked on every run *)
Lemma str_alphabet_nonempty : STR_ALPHABET <> [].
Proof. unfold STR_ALPHABET. discriminate. Qed.

Lemma bytes_len_range : BYTES_LEN_MIN <= BYTES_LEN_MAX.
Proof. unfold BYTES_LEN_MIN, BYTES_LEN_MAX. lia. Qed.

(* ---- int ---- *)
Lemma as_int_of_intv i : as_int (of_intv i) = Some (iz i).
Proof. destruct i as [z|[|]]; reflexivity. Qed.

Lemma g_int_sound val mn mx :
  sat_int val mn mx -> returns (g_int val mn mx) (conforms (SInt val mn mx)).
Proof.
  intros Hs. unfold g_int. destruct val as [i|].
  - apply returns_ret. destruct Hs as [H1 H2]. exists (iz i). rewrite as_int_of_intv. cbn. auto.
  - set (lo0 := opt_iz mn INT_MIN). set (hi0 := opt_iz mx INT_MAX).
    set (hi := match mx with None => Z.max hi0 lo0 | Some _ => hi0 end).
    set (lo := match mx, mn with Some _, None => Z.min lo0 hi | _, _ => lo0 end).
    assert (Hle : lo <= hi).
    { unfold lo, hi, lo0, hi0, opt_iz, sat_int in *. destruct mn, mx; simpl; lia. }
    eapply returns_bind; [apply returns_randint; exact Hle|]. intros z Hz. apply returns_ret.
    exists z. cbn. repeat split; auto.
    + unfold lo, hi, lo0, hi0, opt_iz in *. destruct mn as [a|]; cbn; auto. destruct mx; simpl in *; lia.
    + unfold lo, hi, lo0, hi0, opt_iz in *. destruct mx as [b|]; cbn; auto. destruct mn; simpl in *; lia.
Qed.

(* ---- float ---- *)
Lemma pymax_ok b a : PrimFloat.ltb (pymax_f b a) a = false.
Proof. unfold pymax_f. destruct (PrimFloat.ltb b a) eqn:E; [apply ltb_irrefl | exact E]. Qed.

Lemma pymin_ok a b : PrimFloat.ltb b (pymin_f a b) = false.
Proof. unfold pymin_f. destruct (PrimFloat.ltb b a) eqn:E; [apply ltb_irrefl | exact E]. Qed.

Lemma returns_random_float_plain a b :
  PrimFloat.ltb b a = false ->
  returns (random_float a b None) (fun x => PrimFloat.ltb x a = false /\ PrimFloat.ltb b x = false).
Proof. intros H. unfold random_float. rewrite H. apply returns_uniform. exact H. Qed.

Lemma g_float_sound val mn mx pr :
  sat_float val mn mx pr -> returns (g_float val mn mx pr) (conforms (SFloat val mn mx pr)).
Proof.
  intros Hs. unfold g_float. destruct val as [x|].
  - apply returns_ret. destruct Hs as (H1 & H2 & H3). exists x. cbn. auto.
  - destruct pr as [p|].
    + destruct Hs as (-> & -> & Hp). cbv beta iota.
      unfold random_float. rewrite pymax_ok.
      unfold prec_free_ok in Hp.
      destruct (r_py_int (PrimFloat.mul FLOAT_MIN (scale10 (iz p)))) as [l| |] eqn:El; try discriminate.
      destruct (r_py_int (PrimFloat.mul (pymax_f FLOAT_MAX FLOAT_MIN) (scale10 (iz p)))) as [r| |] eqn:Er;
        try discriminate.
      apply Z.leb_le in Hp. cbv zeta.
      eapply returns_bind with (P := fun _ => True).
      * eapply returns_bind; [eapply (returns_mlift _ l (fun z => z = l)); eauto|]. intros l0 ->.
        eapply returns_bind; [eapply (returns_mlift _ r (fun z => z = r)); eauto|]. intros r0 ->.
        eapply returns_bind; [apply returns_randint; exact Hp|]. intros k _.
        apply returns_ret. exact I.
      * intros x _. apply returns_ret. exists x. cbn. auto.
    + set (lo0 := match mn with Some m => m | None => FLOAT_MIN end).
      set (hi0 := match mx with Some m => m | None => FLOAT_MAX end).
      set (hi := match mx with None => pymax_f hi0 lo0 | Some _ => hi0 end).
      set (lo := match mx, mn with Some _, None => pymin_f lo0 hi | _, _ => lo0 end).
      assert (Hle : PrimFloat.ltb hi lo = false).
      { unfold lo, hi, lo0, hi0, sat_float in *. destruct mn, mx; simpl; auto using pymax_ok, pymin_ok. }
      eapply returns_bind; [apply returns_random_float_plain; exact Hle|]. intros x [H1 H2].
      apply returns_ret. exists x. cbn. repeat split; auto.
      * unfold lo, hi, lo0, hi0 in *. destruct mn as [a|]; cbn; auto. destruct mx; simpl in *; auto.
      * unfold lo, hi, lo0, hi0 in *. destruct mx as [b|]; cbn; auto.
Qed.
