(* C02: the validator's verdict is exactly conformance. *)
Require Import D42.Prelude D42.Value D42.Regex D42.Schema D42.Validate D42.Conforms.
Require Import D42P.ListLemmas D42P.ScalarSpec D42P.ContainerSpec.

Lemma forallb_id_map {A} (f : A -> bool) l :
  forallb (fun x => x) (map f l) = true <-> Forall (fun a => f a = true) l.
Proof.
  induction l as [|a r IH]; simpl; [split; auto|].
  rewrite andb_true_iff, IH. split; [intros [? ?]; auto | intros H; inversion H; auto].
Qed.

Theorem validate_iff_conforms_lemma :
  forall s, wf s = true -> forall p v, validate Plain s p v = [] <-> conforms s v.
Proof.
  induction s as [ | val | val mn mx | val mn mx pr | val len mnl mxl al sub pat
                 | es ty len mnl mxl IHes IHty | ks IHks | ts IHts
                 | val | val | val | val | nm t IHt | t IHt ] using schema_ind';
    intros Hwf p v.
  - apply v_none_nil.
  - apply v_bool_nil.
  - apply v_int_nil.
  - apply v_float_nil.
  - apply v_str_nil. exact Hwf.
  - (* list *)
    cbn [validate conforms].
    destruct v as [| | | | | | | | |l| | | |];
      try (split; [discriminate | intros (l0 & E & _); discriminate]).
    pose proof (check_len_first_nil p (VList l) (zlen l) len mnl mxl) as Hlen.
    destruct (check_len_first p (VList l) (zlen l) len mnl mxl) eqn:EL.
    2:{ split; [discriminate|]. intros (lq & E & HL & _). inversion E; subst lq.
        apply Hlen in HL. discriminate. }
    assert (HL := proj1 Hlen eq_refl).
    cbn [wf] in Hwf. apply andb_true_iff in Hwf as [Hwes Hwty].
    destruct ty as [t|].
    + specialize (IHty t eq_refl Hwty).
      rewrite (typed_logic_plain_iff (validate Plain t) (conforms t)).
      * split; [intros H; exists l; auto | intros (l0 & E & _ & H); inversion E; subst; exact H].
      * intros p0 x. apply IHty.
    + destruct es as [es'|].
      * specialize (IHes es' eq_refl). apply andb_true_iff in Hwes as [Hew Hwm].
        rewrite (list_logic_iff _ (map (fun e => match e with Some sch => Some (conforms sch) | None => None end) es')).
        -- split; [intros H; exists l; auto | intros (l0 & E & _ & H); inversion E; subst; exact H].
        -- apply forallb_id_map in Hwm. clear - IHes Hwm.
           induction IHes as [|o r Ho _ IH]; simpl; constructor.
           ++ inversion Hwm; subst. destruct o as [sch|]; simpl; auto.
              intros p x. apply (Ho sch eq_refl). assumption.
           ++ apply IH. inversion Hwm; auto.
        -- change (elems_wf (map (option_map (validate Plain)) es') = true).
           rewrite elems_wf_map. exact Hew.
      * split; auto. intros _. exists l. auto.
  - (* dict *)
    cbn [validate conforms].
    destruct v as [| | | | | | | | | |d| | |];
      try (split; [discriminate | intros (d0 & E & _); discriminate]).
    destruct ks as [ents|].
    2:{ split; auto. intros _. exists d. auto. }
    specialize (IHks ents eq_refl). cbn [wf] in Hwf.
    apply andb_true_iff in Hwf as [Hwf Hwm]. apply forallb_id_map in Hwm.
    rewrite (dict_logic_iff _ (map (fun e : dentry =>
                                      (de_key e,
                                       (match de_schema e with
                                        | Some sch => Some (conforms sch)
                                        | None => None end, de_opt e))) ents)).
    + split; [intros H; exists d; auto | intros (d0 & E & H); inversion E; subst; exact H].
    + clear - IHks Hwm. induction IHks as [|e r He _ IH]; simpl; constructor.
      * inversion Hwm; subst. unfold relfd. simpl. repeat split.
        destruct (de_schema e) as [sch|] eqn:Es; simpl; auto.
        intros p x. apply (He sch eq_refl). assumption.
      * apply IH. inversion Hwm; auto.
  - (* any *)
    cbn [validate conforms]. destruct ts as [ts'|]; [|split; auto].
    specialize (IHts ts' eq_refl). cbn [wf] in Hwf. apply forallb_id_map in Hwf.
    apply any_logic_iff. clear - IHts Hwf.
    induction IHts as [|t r Ht _ IH]; simpl; constructor.
    + inversion Hwf; subst. apply Ht. assumption.
    + apply IH. inversion Hwf; auto.
  - apply v_bytes_nil.
  - apply v_uuid_nil.
  - apply v_datetime_nil.
  - apply v_date_nil.
  - cbn [validate conforms]. apply IHt. exact Hwf.
  - cbn [validate conforms]. apply IHt. exact Hwf.
Qed.

Lemma verdict_iff_conforms_lemma :
  forall s, wf s = true -> forall v, verdict s v = true <-> conforms s v.
Proof.
  intros s Hwf v. unfold verdict. rewrite <- (validate_iff_conforms_lemma s Hwf [] v).
  destruct (validate Plain s [] v); split; auto; discriminate.
Qed.
