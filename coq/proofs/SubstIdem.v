(* C12, second half: substituting the same plain, NaN-free value into the result again
   succeeds and returns the same schema. *)
From Coq Require Import PrimFloat.
Require Import D42.Prelude D42.PyFloat D42.Value D42.Regex D42.Schema D42.Validate D42.Conforms
               D42.FromNative D42.Substitute D42.Agree.
Require Import D42P.ListLemmas D42P.ScalarSpec D42P.ValueLemmas D42P.ContainerSpec D42P.FromNativeSpec
               D42P.ValidateSpec D42P.ErrorsSpec D42P.SubstLemmas D42P.SubstNarrows D42P.SubstPins.
Open Scope nat_scope.

(* "v substitutes into e as a fixpoint": the partial validator accepts v at every path and
   substitution returns e itself *)
Definition fixp (e : schema) (x : value) : Prop :=
  (forall p, validate Subst e p x = []) /\ substitute e x = Ok e.

(* ---- a list whose elements are all schemas, each a fixpoint for its value ---- *)
Lemma velems_fix m (es : list schema) (xs : list value) :
  Forall2 (fun e x => forall p, validate m e p x = []) es xs ->
  forall pre p, velems (map (validate m) es) p (pre ++ xs) (length pre) = [].
Proof.
  induction 1 as [|e x es xs Hex _ IH]; intros pre p; cbn [map velems]; [reflexivity|].
  rewrite nth_error_app2 by lia. rewrite Nat.sub_diag. cbn [nth_error]. rewrite Hex. cbn [app].
  specialize (IH (pre ++ [x]) p). rewrite <- app_assoc in IH. cbn [app] in IH.
  rewrite app_length in IH. cbn [length] in IH. rewrite Nat.add_1_r in IH. exact IH.
Qed.

Lemma subst_run_fix (es : list schema) (xs : list value) :
  Forall2 (fun e x => substitute e x = Ok e) es xs ->
  forall pre, subst_run (map Some (map substitute es)) (pre ++ xs) (length pre) = Ok (map Some es).
Proof.
  induction 1 as [|e x es xs Hex _ IH]; intros pre; cbn [map subst_run]; [reflexivity|].
  rewrite nth_error_app2 by lia. rewrite Nat.sub_diag. cbn [nth_error]. rewrite Hex. cbn [bind].
  specialize (IH (pre ++ [x])). rewrite <- app_assoc in IH. cbn [app] in IH.
  rewrite app_length in IH. cbn [length] in IH. rewrite Nat.add_1_r in IH. rewrite IH. reflexivity.
Qed.

Lemma map_cfo_like {A} (f : schema -> A) (es : list schema) :
  map (fun e => match e with Some sch => Some (f sch) | None => None end) (map Some es)
  = map Some (map f es).
Proof. rewrite !map_map. reflexivity. Qed.

Lemma exact_list_fix (es : list schema) (l : list value) len mnl mxl :
  Forall2 fixp es l -> plain (VList l) = true -> len_ok (zlen l) len mnl mxl ->
  fixp (SList (Some (map Some es)) None len mnl mxl) (VList l).
Proof.
  intros Hf Hpl Hlen.
  assert (Hlen2 : length es = length l) by (eapply Forall2_len; eauto).
  assert (Hv : forall p, validate Subst (SList (Some (map Some es)) None len mnl mxl) p (VList l) = []).
  { intros p. cbn [validate]. rewrite (proj2 (check_len_first_nil p (VList l) (zlen l) len mnl mxl) Hlen).
    rewrite map_cfo_like. unfold list_logic. rewrite classify_map_Some, middle_map_Some, strip_map_Some.
    rewrite !map_length, (proj2 (extras_nil p l (length es))) by lia. rewrite app_nil_r.
    apply (velems_fix Subst es l) with (pre := []).
    eapply Forall2_impl; [|exact Hf]. intros e x [H _]. exact H. }
  split; [exact Hv|].
  cbn [substitute]. rewrite (Hv []).
  assert (Hne : (negb (length l =? 0) && forallb is_vell l) = false).
  { destruct l as [|x l']; [reflexivity|]. simpl.
    assert (Hx : is_vell x = false) by (apply plain_not_ell; eapply plain_list_In; [exact Hpl | left; reflexivity]).
    rewrite Hx. reflexivity. }
  rewrite Hne.
  assert (Hmid : existsb is_vell (removelast (tl l)) = false).
  { apply not_true_iff_false. intros E. apply existsb_exists in E as (x & Hin & Hx).
    assert (Hinl : In x l).
    { destruct l as [|a l0]; [contradiction|]. right. simpl in Hin.
      clear - Hin. induction l0 as [|b r IH]; [contradiction|]. destruct r; [contradiction|].
      simpl in Hin. destruct Hin as [->|Hin]; [left; reflexivity | right; apply IH; exact Hin]. }
    rewrite (plain_not_ell x (plain_list_In _ _ Hpl Hinl)) in Hx. discriminate. }
  rewrite Hmid. unfold subst_list_elements. rewrite (plain_list_no_ell _ Hpl).
  rewrite map_cfo_like, classify_map_Some, middle_map_Some.
  unfold subst_elements.
  assert (Hr : Forall2 (fun e x => substitute e x = Ok e) es l)
    by (eapply Forall2_impl; [|exact Hf]; intros e x [_ H]; exact H).
  pose proof (subst_run_fix es l Hr []) as Hrun. cbn [app length] in Hrun.
  match goal with |- context [subst_run ?a ?b ?c] =>
    replace (subst_run a b c) with (@Ok (list (option schema)) (map Some es)) by (symmetry; exact Hrun) end.
  cbn [bind]. rewrite map_length. simpl. rewrite Hlen2, skipn_all. simpl. rewrite app_nil_r. reflexivity.
Qed.

(* ---- a dict whose entries, where the value has the key, are fixpoints for that member ---- *)
Definition entry_fix (d : list (key * value)) (e : dentry) : Prop :=
  match assoc (de_key e) d with
  | Some x => exists sch, de_schema e = Some sch /\ fixp sch x /\ de_opt e = false
  | None => True end.

Lemma Forall2_diag {A} (R : A -> A -> Prop) l : Forall (fun a => R a a) l -> Forall2 R l l.
Proof. induction 1; constructor; auto. Qed.

Lemma plain_dict_no_kell d : plain (VDict d) = true -> has_key KEll d = false.
Proof.
  intros Hpl. unfold has_key, is_some, is_none. destruct (assoc KEll d) as [x|] eqn:E; [|reflexivity].
  apply assoc_In in E. cbn [plain] in Hpl. apply forallb_id_map' in Hpl. rewrite Forall_forall in Hpl.
  specialize (Hpl _ E). simpl in Hpl. discriminate.
Qed.

Lemma exact_dict_fix (ents : list dentry) (d : list (key * value)) :
  Forall (entry_fix d) ents -> plain (VDict d) = true ->
  (forall k x, In (k, x) d -> In k (map de_key ents)) ->
  relaxed_only ents = false ->
  fixp (SDict (Some ents)) (VDict d).
Proof.
  intros Hents Hpl Hdecl Hrel.
  set (fs := map (fun e : dentry =>
                    (de_key e, (match de_schema e with
                                | Some sch => Some (validate Subst sch)
                                | None => None end, de_opt e))) ents).
  assert (Hkeys : map fst fs = map de_key ents) by (unfold fs; rewrite map_map; reflexivity).
  assert (Hv : forall p, validate Subst (SDict (Some ents)) p (VDict d) = []).
  { intros p. cbn [validate]. fold fs. unfold dict_logic. apply app_nil_iff. split.
    - unfold dict_members. apply flat_map_nil_iff. apply Forall_forall. unfold fs. intros y Hy.
      apply in_map_iff in Hy as (e & <- & Hin). rewrite Forall_forall in Hents. specialize (Hents e Hin).
      unfold entry_fix in Hents. destruct (is_kell (de_key e)); [reflexivity|].
      destruct (assoc (de_key e) d) as [x|] eqn:Ea; [|reflexivity].
      destruct Hents as (sch & Hs & [Hval _] & _). rewrite Hs.
      destruct x; try apply Hval; reflexivity.
    - unfold dict_extras. match goal with |- (if ?c then _ else _) = _ => destruct c end; [reflexivity|].
      apply flat_map_nil_iff. apply Forall_forall. intros [k x] Hin. simpl.
      assert (Hd : declared k fs = true) by (apply declared_In; rewrite Hkeys; eauto).
      match goal with |- (if ?c then _ else _) = _ => replace c with true by (symmetry; exact Hd) end.
      reflexivity. }
  split; [exact Hv|].
  cbn [substitute]. rewrite (Hv []). cbv beta iota zeta.
  match goal with |- (if ?c then _ else _) = _ =>
    change c with (Nat.eqb (length ents) 1 && declared KEll (map (fun e : dentry => (de_key e, tt)) ents)) end.
  unfold relaxed_only in Hrel. rewrite Hrel. fold (dfs ents).
  unfold subst_dict_entries. rewrite (plain_dict_no_kell _ Hpl).
  assert (Hseq : rsequence
            (map (fun e : key * (option schema * option substfn * bool) =>
                    let '(k, (orig, f, opt)) := e in
                    match assoc k d with
                    | Some x => if is_vell x then Ok (k, orig, false)
                                else match f with
                                     | Some f0 => do s <- f0 x; Ok (k, Some s, false)
                                     | None => Raise AttributeError end
                    | None => Ok (k, orig, opt) end) (dfs ents)) = Ok ents).
  { unfold dfs. rewrite map_map. apply rsequence_ok_iff. apply Forall2_diag.
    eapply Forall_impl; [|exact Hents]. intros [[k o] b] He. unfold entry_fix in He.
    unfold de_key, de_schema, de_opt in *. simpl in *.
    destruct (assoc k d) as [x|] eqn:Ea; [|reflexivity].
    destruct He as (sch & Hs & [_ Hsub] & Hb). subst o b.
    rewrite (plain_not_ell x (plain_dict_assoc _ _ _ Hpl Ea)). rewrite Hsub. reflexivity. }
  rewrite Hseq. cbn [bind].
  assert (Hall : forallb (fun kv : key * value => declared (fst kv) (dfs ents)) d = true).
  { apply forallb_forall. intros [k x] Hin. simpl. apply declared_In. unfold dfs. rewrite map_map.
    simpl. exact (Hdecl k x Hin). }
  rewrite Hall. reflexivity.
Qed.

(* ---- any ---- *)
Lemma any_fix (kept : list schema) v :
  kept <> [] -> Forall (fun k => fixp k v) kept -> fixp (SAny (Some kept)) v.
Proof.
  intros Hne Hk.
  assert (Hv : forall p, validate Subst (SAny (Some kept)) p v = []).
  { intros p. cbn [validate]. unfold any_logic. destruct kept as [|k0 kr]; [congruence|].
    inversion Hk as [|? ? [Hv0 _] _]; subst. simpl. rewrite Hv0. reflexivity. }
  split; [exact Hv|]. cbn [substitute]. rewrite (Hv []).
  assert (Hs : any_subst (map (fun t => substitute t) kept) v = Ok kept).
  { clear Hne Hv. induction Hk as [|k r [_ Hsub] _ IH]; cbn [map any_subst]; [reflexivity|].
    rewrite Hsub, IH. reflexivity. }
  rewrite Hs. cbn [bind]. destruct kept; [congruence | reflexivity].
Qed.

(* ---- scalars: the result of a scalar substitution ---- *)
Lemma scalar_fix s' v :
  scalar s' = true -> wf s' = true -> conforms s' v ->
  (validate Subst s' [] v = [] -> substitute s' v = Ok s') -> fixp s' v.
Proof.
  intros Hsc Hwf Hc Hsub.
  assert (Hv : forall p, validate Subst s' p v = []).
  { intros p. pose proof (proj2 (validate_iff_conforms_lemma s' Hwf p v) Hc) as H.
    destruct s'; try discriminate; exact H. }
  split; [exact Hv | apply Hsub; apply Hv].
Qed.

Lemma prec_equal_refl x p : is_nan x = false -> prec_equal x x p = true.
Proof.
  intros Hn. unfold prec_equal. destruct (py_round (PrimFloat.mul x (scale10 p))).
  - apply Z.eqb_refl.
  - apply eqb_refl_nonnan. exact Hn.
Qed.

Lemma float_value_ok_refl x pr : float_value_ok x x pr = true.
Proof.
  unfold float_value_ok. destruct (is_nan x) eqn:Hn; cbn; [reflexivity|].
  destruct pr; [apply prec_equal_refl | apply isclose_refl]; exact Hn.
Qed.

Lemma date_eqb_refl' d : isinst TDate d = true -> py_eqb d d = true.
Proof.
  destruct d; simpl; try discriminate; intros _.
  - rewrite Bool.eqb_reflx, Z.eqb_refl. reflexivity.
  - apply Z.eqb_refl.
Qed.

(* ---- from_native x is a fixpoint for x ---- *)
Lemma fn_scalar_fix x sx :
  scalar sx = true -> vwf x = true -> from_native x = Ok sx ->
  (validate Subst sx [] x = [] -> substitute sx x = Ok sx) -> fixp sx x.
Proof.
  intros Hsc Hw Hs Hsub. destruct (fn_accepts_lemma x sx Hw Hs) as [Hwf Hc].
  apply scalar_fix; auto.
Qed.

Lemma Forall2_combine_map {A B C} (f : A -> B -> C) (R : A -> C -> Prop) la lb :
  length la = length lb -> (forall a b, In (a, b) (combine la lb) -> R a (f a b)) ->
  Forall2 R la (map (fun p => f (fst p) (snd p)) (combine la lb)).
Proof.
  revert lb. induction la as [|a la IH]; intros [|b lb] Hl H; simpl in *; try discriminate; constructor.
  - apply H. left. reflexivity.
  - apply IH; [lia|]. intros a0 b0 Hin. apply H. right. exact Hin.
Qed.

Lemma fn_fix x :
  forall sx, plain x = true -> vwf x = true -> from_native x = Ok sx -> fixp sx x.
Proof.
  induction x as [ | b | z | f | s0 | b | n | a us | o | l IH | d IH | | | t ] using value_ind';
    intros sx Hpl Hw Hs; pose proof Hs as Hs0; cbn [from_native] in Hs; try discriminate.
  - inversion Hs; subst. apply (fn_scalar_fix VNone); auto; try (cbn [substitute]; intros ->; reflexivity).
  - inversion Hs; subst. apply (fn_scalar_fix (VBool b)); auto; try (cbn [substitute]; intros ->; reflexivity).
  - inversion Hs; subst. apply (fn_scalar_fix (VInt z)); auto; try (cbn [substitute]; intros ->; reflexivity).
  - inversion Hs; subst. apply (fn_scalar_fix (VFloat f)); auto; try (cbn [substitute]; intros ->; reflexivity).
  - inversion Hs; subst. apply (fn_scalar_fix (VStr s0)); auto. unfold str_schema. cbn [substitute]. intros ->. reflexivity.
  - inversion Hs; subst. apply (fn_scalar_fix (VBytes b)); auto; try (cbn [substitute]; intros ->; reflexivity).
  - destruct (uuid_is_v4 n) eqn:E4; [|discriminate]. inversion Hs; subst.
    apply (fn_scalar_fix (VUuid n)); auto; try (cbn [substitute]; intros ->; reflexivity).
  - inversion Hs; subst. apply (fn_scalar_fix (VDatetime a us)); auto; try (cbn [substitute]; intros ->; reflexivity).
  - inversion Hs; subst. apply (fn_scalar_fix (VDate o)); auto; try (cbn [substitute]; intros ->; reflexivity).
  - (* list *)
    destruct (rsequence (map (fun x => from_native x) l)) as [es| |] eqn:Er; simpl in Hs; try discriminate.
    inversion Hs; subst; clear Hs. apply rsequence_ok in Er.
    apply exact_list_fix; auto; [|unfold len_ok; cbn; auto].
    cbn [vwf] in Hw. apply forallb_id_map' in Hw.
    assert (HPl : Forall (fun x => plain x = true) l)
      by (apply Forall_forall; intros x Hx; eapply plain_list_In; eauto).
    clear - IH Hw HPl Er. induction Er as [|x e l es Hxe _ IHr]; constructor.
    + inversion IH; inversion Hw; inversion HPl; subst. auto.
    + inversion IH; inversion Hw; inversion HPl; subst. auto.
  - (* dict *)
    destruct (existsb (fun kv : key * value => is_kell (fst kv)) d) eqn:Ek; [discriminate|].
    destruct (rsequence (map (fun kv : key * value => rmap (fun s => (fst kv, s)) (from_native (snd kv))) d))
      as [ents| |] eqn:Er; simpl in Hs; try discriminate.
    inversion Hs; subst; clear Hs. apply rsequence_ok in Er. apply dict_ents_rel in Er.
    destruct (vwf_dict _ Hw) as [Hnd Hvm].
    pose proof (no_kell_keys _ Ek) as Hnk.
    assert (Hkeys : map fst ents = map fst d) by (eapply Forall2_fst_map; exact Er).
    unfold dict_of_natives. apply exact_dict_fix; auto.
    + apply Forall_forall. intros e Hin. apply in_map_iff in Hin as ([k s] & <- & Hin). unfold entry_fix.
      unfold de_key, de_schema, de_opt. simpl.
      destruct (Forall2_In_r _ _ _ _ Er Hin) as ([k0 x] & Hind & Hk0 & Hf). simpl in *. subst k0.
      rewrite (assoc_NoDup_In _ _ _ Hnd Hind). exists s. split; [reflexivity|]. split; [|reflexivity].
      pose proof (proj1 (Forall_forall _ _) IH) as IH'.
      apply (IH' (k, x) Hind s); auto;
        try (eapply plain_dict_assoc; [exact Hpl | apply assoc_NoDup_In; eauto]);
        try (eapply Hvm; eauto).
    + intros k x Hin. rewrite keys_of_natives, Hkeys. apply in_map_iff. exists (k, x). auto.
    + unfold relaxed_only. apply andb_false_iff. right. apply not_true_iff_false. intros Hd.
      apply declared_In in Hd. rewrite map_map in Hd. simpl in Hd.
      apply Hnk. rewrite <- Hkeys.
      change (map (fun x : dentry => de_key x)) with (map de_key) in Hd. rewrite keys_of_natives in Hd. exact Hd.
Qed.

(* ---- native dict entries, exactly ---- *)
Lemma dict_set_fresh {V} k (x : V) d :
  ~ In k (map fst d) -> dict_set k x d = d ++ [(k, x)].
Proof.
  induction d as [|[k' y] r IH]; simpl; intros H; [reflexivity|].
  destruct (key_eqb k k') eqn:E.
  - apply key_eqb_eq in E. subst. exfalso. apply H. left. reflexivity.
  - rewrite IH; auto.
Qed.

Lemma set_entry_fresh k s o acc :
  ~ In k (map de_key acc) -> set_entry k s o acc = acc ++ [(k, s, o)].
Proof.
  intros H. unfold set_entry. rewrite dict_set_fresh.
  - rewrite map_app, map_map. simpl. f_equal. rewrite <- (map_id acc) at 2. apply map_ext.
    intros [[? ?] ?]. reflexivity.
  - rewrite map_map. simpl. exact H.
Qed.

Definition native_entry (kv : key * value) (s : schema) : dentry := (fst kv, Some s, false).

Lemma native_entries_exact d :
  NoDup (map fst d) -> (forall k x, In (k, x) d -> is_vell x = false) ->
  forall acc ents, (forall k, In k (map fst d) -> ~ In k (map de_key acc)) ->
  native_entries d acc = Ok ents ->
  exists ss, Forall2 (fun kv s => sub_from_native (snd kv) = Ok s) d ss /\
             ents = acc ++ map (fun p => native_entry (fst p) (snd p)) (combine d ss).
Proof.
  induction d as [|[k x] r IH]; intros Hnd Hne acc ents Hfresh H; cbn [native_entries] in H.
  - inversion H; subst. exists []. split; [constructor | simpl; rewrite app_nil_r; reflexivity].
  - inversion Hnd as [|? ? Hk Hnd']; subst.
    rewrite (Hne k x (or_introl eq_refl)) in H.
    apply bind_ok in H as (so & Hs & H). apply rmap_ok in Hs as (s & Hs & ->).
    rewrite set_entry_fresh in H by (apply Hfresh; left; reflexivity).
    assert (Hfresh' : forall k0, In k0 (map fst r) -> ~ In k0 (map de_key (acc ++ [(k, Some s, false)]))).
    { intros k0 Hin0. rewrite map_app. simpl. intros Hin1. apply in_app_or in Hin1 as [Hin1|[<-|[]]].
      - apply (Hfresh k0 (or_intror Hin0)). exact Hin1.
      - contradiction. }
    destruct (IH Hnd' (fun k0 x0 Hin => Hne k0 x0 (or_intror Hin)) _ _ Hfresh' H) as (ss & Hss & ->).
    exists (s :: ss). split; [constructor; auto|]. simpl. rewrite <- app_assoc. reflexivity.
Qed.

Lemma In_firstn {A} n (l : list A) x : In x (firstn n l) -> In x l.
Proof. intros H. rewrite <- (firstn_skipn n l). apply in_or_app. auto. Qed.

(* ---- one window: positional fixpoints ---- *)
Definition PFix (of : option substfn) : Prop :=
  match of with
  | Some f => forall x s', plain x = true -> vwf x = true -> f x = Ok s' -> fixp s' x
  | None => True end.

Lemma window_fix fs xs ss :
  Forall PFix fs -> Forall (fun x => plain x = true /\ vwf x = true) xs ->
  length fs <= length xs ->
  Forall2 (fun (ofx : option substfn * value) s => exists f, fst ofx = Some f /\ f (snd ofx) = Ok s)
          (combine fs xs) ss ->
  Forall2 fixp ss (firstn (length fs) xs).
Proof.
  intros HPF. revert xs ss. induction HPF as [|of fs Hof _ IH]; intros xs ss Hxs Hle Hrel.
  - simpl in *. inversion Hrel; subst. constructor.
  - destruct xs as [|x xs]; [simpl in Hle; lia|]. simpl in Hrel.
    inversion Hrel as [|? s ? ss' (f & Hf & Hfx) Hrest]; subst. simpl in Hf, Hfx. subst of.
    inversion Hxs as [|? ? (Hp & Hw) Hxs']; subst. simpl. constructor.
    + eapply Hof; eauto.
    + eapply IH; eauto. simpl in Hle. lia.
Qed.

Lemma natives_fix l ss :
  Forall (fun x => plain x = true /\ vwf x = true) l ->
  Forall2 (fun x s => sub_from_native x = Ok s) l ss -> Forall2 fixp ss l.
Proof.
  intros Hl H. induction H as [|x s l ss Hxs _ IH]; constructor.
  - inversion Hl as [|? ? (Hp & Hw) _]; subst. apply fn_fix; auto using sub_from_native_ok.
  - apply IH. inversion Hl; auto.
Qed.

Lemma subst_elements_fix fs l start els :
  Forall PFix fs -> Forall (fun x => plain x = true /\ vwf x = true) l ->
  start <= length l -> subst_elements fs l start = Ok els ->
  exists es, els = map Some es /\ Forall2 fixp es l.
Proof.
  intros HPF HPl Hst H. unfold subst_elements in H.
  apply bind_ok in H as (mid & Hm & H). apply bind_ok in H as (suf & Hsu & H).
  apply bind_ok in H as (pre & Hp & H). inversion H; subst; clear H.
  apply subst_run_pos in Hm as (ms & -> & Hlms & Hle & Hrel).
  apply natives_rel in Hsu as (ss & -> & Hss). apply natives_rel in Hp as (ps & -> & Hps).
  exists (ps ++ ms ++ ss). split; [rewrite !map_app; reflexivity|].
  rewrite map_length, Hlms in Hss.
  assert (El : l = firstn start l ++ firstn (length fs) (skipn start l) ++ skipn (start + length fs) l).
  { rewrite <- (firstn_skipn start l) at 1. f_equal.
    rewrite <- (firstn_skipn (length fs) (skipn start l)) at 1. f_equal.
    rewrite skipn_skipn'. reflexivity. }
  rewrite El.
  assert (Hsub : forall l', (forall x, In x l' -> In x l) ->
                            Forall (fun x => plain x = true /\ vwf x = true) l').
  { intros l' Hin. apply Forall_forall. intros x Hx. rewrite Forall_forall in HPl. auto. }
  apply Forall2_app; [apply natives_fix; auto; apply Hsub; intros x Hx; eapply In_firstn; eauto|].
  apply Forall2_app.
  - eapply window_fix; eauto. apply Hsub. intros x Hx. eapply In_skipn; eauto.
  - apply natives_fix; auto. apply Hsub. intros x Hx. eapply In_skipn; eauto.
Qed.

(* ---- the theorem ---- *)
Definition idemP (s : schema) : Prop :=
  forall v s', plain v = true -> vwf v = true ->
               substitute s v = Ok s' -> fixp s' v.

Lemma relaxed_only_keys ents0 ents :
  map de_key ents = map de_key ents0 -> relaxed_only ents = relaxed_only ents0.
Proof.
  intros H. unfold relaxed_only.
  assert (Hl : length ents = length ents0) by (rewrite <- (map_length de_key ents), H, map_length; reflexivity).
  rewrite Hl. f_equal. apply declared_same_keys. rewrite !map_map. simpl. exact H.
Qed.

Lemma no_nan_list_In l x : no_nan (VList l) = true -> In x l -> no_nan x = true.
Proof.
  cbn [no_nan]. intros H Hin. apply forallb_id_map' in H. rewrite Forall_forall in H. auto.
Qed.

Lemma no_nan_dict_In d k x : no_nan (VDict d) = true -> In (k, x) d -> no_nan x = true.
Proof.
  cbn [no_nan]. intros H Hin. apply forallb_id_map' in H. rewrite Forall_forall in H. apply (H (k, x) Hin).
Qed.

Ltac scalar_start'' Hs EV :=
  cbn [substitute] in Hs;
  match type of Hs with
  | match validate Subst ?s [] ?v with _ => _ end = _ =>
      destruct (validate Subst s [] v) eqn:EV; [|discriminate];
      apply subst_valid_scalar in EV; [|reflexivity|assumption]
  end.

Theorem subst_idem_lemma : forall s, wf s = true -> idemP s.
Proof.
  induction s as [ | val | val mn mx | val mn mx pr | val len mnl mxl al sub pat
                 | es ty len mnl mxl IHes IHty | ks IHks | ts IHts
                 | val | val | val | val | nm t IHt | t IHt ] using schema_ind';
    intros Hwf v s' Hpl Hvw Hs.
  - (* none *) scalar_start'' Hs EV. inversion Hs; subst.
    apply scalar_fix; auto. cbn [substitute]. intros ->. reflexivity.
  - (* bool *) scalar_start'' Hs EV. destruct v; try discriminate. inversion Hs; subst.
    apply scalar_fix; auto.
    + destruct EV as (b1 & E1 & _). inversion E1; subst. exists b1. cbn. auto.
    + cbn [substitute]. intros ->. reflexivity.
  - (* int *) scalar_start'' Hs EV. destruct (as_intv v) as [i|] eqn:Ei; [|discriminate].
    inversion Hs; subst. pose proof (as_intv_iz _ _ Ei) as Ez.
    apply scalar_fix; auto.
    + destruct EV as (z1 & E1 & _ & Hmn & Hmx). rewrite Ez in E1. inversion E1; subst.
      exists (iz i). cbn. auto.
    + cbn [substitute]. intros ->. rewrite Ei. reflexivity.
  - (* float *) scalar_start'' Hs EV. destruct v as [| | |x| | | | | | | | | |]; try discriminate.
    inversion Hs; subst. apply scalar_fix; auto.
    + destruct EV as (x1 & E1 & Hv & Hmn & Hmx). inversion E1; subst x1. exists x.
      destruct val as [e|]; cbn in *; repeat split; auto.
      apply float_value_ok_refl.
    + cbn [substitute]. intros ->. destruct val; reflexivity.
  - (* str *) scalar_start'' Hs EV. destruct v; try discriminate. inversion Hs; subst.
    apply scalar_fix; auto.
    + destruct EV as (s1 & E1 & _ & Hrest). inversion E1; subst. exists s1. cbn. auto.
    + cbn [substitute]. intros ->. reflexivity.
  - (* list *)
    cbn [substitute] in Hs.
    destruct (validate Subst (SList es ty len mnl mxl) [] v) eqn:EV; [|discriminate].
    destruct v as [| | | | | | | | |l| | | |]; try discriminate.
    destruct (negb (length l =? 0) && forallb is_vell l); [discriminate|].
    destruct (existsb is_vell (removelast (tl l))); [discriminate|].
    cbn [validate] in EV.
    destruct (check_len_first [] (VList l) (zlen l) len mnl mxl) eqn:EL; [|discriminate].
    apply check_len_first_nil in EL.
    cbn [wf] in Hwf. apply andb_true_iff in Hwf as [Hwes Hwty].
    assert (HPl : Forall (fun x => plain x = true /\ vwf x = true) l).
    { apply Forall_forall. intros x Hx. split; [eapply plain_list_In | eapply vwf_list_In]; eauto. }
    destruct ty as [t|].
    + assert (Hs2 : exists els, rsequence (map (fun x => if is_vell x then Ok None
                                                         else rmap Some (substitute t x)) l) = Ok els /\
                                s' = SList (Some els) None len mnl mxl).
      { destruct es; apply bind_ok in Hs as (els & ? & Hs); inversion Hs; eauto. }
      destruct Hs2 as (els & Hr & ->). apply rsequence_ok in Hr.
      specialize (IHty t eq_refl Hwty).
      assert (Hels : exists ss, els = map Some ss /\ Forall2 fixp ss l).
      { clear - Hr HPl IHty. induction Hr as [|x e l els Hxe _ IH].
        - exists []. split; auto.
        - inversion HPl as [|? ? (H1 & H2) H4]; subst. destruct (IH H4) as (ss & -> & Hss).
          rewrite (plain_not_ell _ H1) in Hxe. apply rmap_ok in Hxe as (s & Hs & ->).
          exists (s :: ss). split; [reflexivity|]. constructor; [apply (IHty x s); auto | exact Hss]. }
      destruct Hels as (ss & -> & Hss). apply exact_list_fix; auto.
    + destruct es as [es'|].
      * apply bind_ok in Hs as (els & Hr & Hs). inversion Hs; subst; clear Hs.
        specialize (IHes es' eq_refl). apply andb_true_iff in Hwes as [Hew Hwm].
        apply forallb_id_map' in Hwm.
        set (fs := map (fun e => match e with Some sch => Some (substitute sch) | None => None end) es') in *.
        assert (HPF : Forall PFix fs).
        { unfold fs. clear - IHes Hwm. induction IHes as [|o r Ho _ IH]; simpl; constructor.
          - inversion Hwm; subst. destruct o as [sch|]; simpl; auto.
            intros x s1 Hx Hw Hsub. eapply (Ho sch eq_refl); eauto.
          - apply IH. inversion Hwm; auto. }
        assert (HPFm : Forall PFix (middle fs)) by (apply Forall_middle; exact HPF).
        unfold subst_list_elements in Hr. destruct (existsb is_vell l); [discriminate|].
        assert (Hex : exists ess, els = map Some ess /\ Forall2 fixp ess l).
        { match type of Hr with match ?c with _ => _ end = _ => destruct c eqn:Ecl end.
          - apply first_window_spec in Hr as (i & Hi & Hr). apply in_seq in Hi.
            apply (subst_elements_fix (middle fs) l i els); auto. lia.
          - apply (subst_elements_fix (middle fs) l 0 els); auto. lia.
          - apply (subst_elements_fix (middle fs) l (length l - length (middle fs)) els); auto. lia.
          - apply (subst_elements_fix (middle fs) l 0 els); auto. lia. }
        destruct Hex as (ess & -> & Hess). apply exact_list_fix; auto.
      * apply bind_ok in Hs as (els & Hr & Hs). inversion Hs; subst; clear Hs.
        apply rsequence_ok in Hr.
        assert (Hels : exists ss, els = map Some ss /\ Forall2 (fun x s => sub_from_native x = Ok s) l ss).
        { clear - Hr HPl. induction Hr as [|x e l els Hxe _ IH].
          - exists []. split; auto.
          - inversion HPl as [|? ? (H1 & _) H2]; subst. destruct (IH H2) as (ss & -> & Hss).
            rewrite (plain_not_ell _ H1) in Hxe. apply rmap_ok in Hxe as (s & Hs & ->).
            exists (s :: ss). split; auto. }
        destruct Hels as (ss & -> & Hss). apply exact_list_fix; auto. apply natives_fix; auto.
  - (* dict *)
    cbn [substitute] in Hs.
    destruct (validate Subst (SDict ks) [] v) eqn:EV; [|discriminate].
    destruct v as [| | | | | | | | | |d| | |]; try discriminate.
    destruct (vwf_dict _ Hvw) as [Hnd Hvm].
    assert (Hne : forall k x, In (k, x) d -> is_vell x = false).
    { intros k x Hin. apply plain_not_ell. eapply plain_dict_assoc; eauto.
      apply assoc_NoDup_In; eauto. }
    assert (Hnokell : ~ In KEll (map fst d)).
    { intros Hin. apply in_map_iff in Hin as ([k x] & Hk & Hin). simpl in Hk. subst k.
      cbn [plain] in Hpl. apply forallb_id_map' in Hpl. rewrite Forall_forall in Hpl.
      specialize (Hpl _ Hin). simpl in Hpl. discriminate. }
    (* entries built from natives are fixpoints for their members *)
    assert (Hnat : forall ss, Forall2 (fun kv s => sub_from_native (snd kv) = Ok s) d ss ->
                   Forall (entry_fix d) (map (fun p => native_entry (fst p) (snd p)) (combine d ss))).
    { intros ss Hss. apply Forall_forall. intros e Hin. apply in_map_iff in Hin as ([[k x] s] & <- & Hin).
      unfold entry_fix, native_entry, de_key, de_schema, de_opt. simpl.
      pose proof (in_combine_l _ _ _ _ Hin) as Hind.
      rewrite (assoc_NoDup_In _ _ _ Hnd Hind). exists s. split; [reflexivity|]. split; [|reflexivity].
      assert (Hsx : sub_from_native x = Ok s).
      { clear - Hss Hin. induction Hss as [|kv s0 d ss H _ IH]; simpl in Hin; [contradiction|].
        destruct Hin as [E|Hin]; [inversion E; subst; exact H | auto]. }
      apply fn_fix; auto using sub_from_native_ok.
      - eapply plain_dict_assoc; eauto. apply assoc_NoDup_In; eauto.
      - eapply Hvm; eauto. }
    assert (Hnatkeys : forall ss, Forall2 (fun kv s => sub_from_native (snd kv) = Ok s) d ss ->
                       map de_key (map (fun p => native_entry (fst p) (snd p)) (combine d ss)) = map fst d).
    { intros ss Hss. rewrite map_map. unfold native_entry, de_key. simpl.
      clear - Hss. induction Hss as [|kv s d ss _ _ IH]; simpl; congruence. }
    destruct ks as [ents0|].
    + cbv beta iota zeta in Hs.
      match type of Hs with (if ?c then _ else _) = _ => destruct c eqn:Erel end.
      * (* relaxed-only *)
        apply bind_ok in Hs as (ents & Hr & Hs). inversion Hs; subst; clear Hs.
        destruct (native_entries_exact d Hnd Hne [] ents) as (ss & Hss & ->); auto.
        simpl app.
        set (ne := map (fun p => native_entry (fst p) (snd p)) (combine d ss)) in *.
        assert (Hfr : ~ In KEll (map de_key ne)) by (unfold ne; rewrite Hnatkeys; auto).
        rewrite (set_entry_fresh KEll None false ne Hfr).
        destruct d as [|kv0 d0].
        -- (* the value is {}: the result is the relaxed-only schema itself *)
           inversion Hss; subst. simpl.
           split; [intros p; reflexivity | reflexivity].
        -- apply exact_dict_fix; auto.
           ++ apply Forall_app. split; [apply Hnat; exact Hss|]. constructor; [|constructor].
              unfold entry_fix. change (de_key (KEll, None, false)) with KEll.
              destruct (assoc KEll (kv0 :: d0)) as [x|] eqn:Ea; auto.
              exfalso. apply Hnokell. apply assoc_In in Ea. apply in_map_iff. exists (KEll, x). auto.
           ++ intros k x Hin. rewrite map_app. apply in_or_app. left. unfold ne. rewrite Hnatkeys by exact Hss.
              apply in_map_iff. exists (k, x). auto.
           ++ unfold relaxed_only. rewrite app_length. inversion Hss; subst. unfold ne. simpl.
              rewrite map_length. destruct (length (combine d0 l')); reflexivity.
      * apply bind_ok in Hs as (ents & Hr & Hs). inversion Hs; subst; clear Hs.
        specialize (IHks ents0 eq_refl). cbn [wf] in Hwf.
        apply andb_true_iff in Hwf as [Hwf Hwm]. apply forallb_id_map' in Hwm.
        fold (dfs ents0) in Hr.
        destruct (subst_dict_declared _ _ _ Hr) as [Hnk Hdecl].
        apply subst_dict_spec in Hr.
        2:{ intros k x Ha. apply (Hne k x). apply assoc_In. exact Ha. }
        pose proof (entry_rel_keys _ _ _ Hr) as Hkeys.
        apply exact_dict_fix; auto.
        -- apply Forall_forall. intros e Hine.
           destruct (Forall2_In_r _ _ _ _ Hr Hine) as (e0 & Hin0 & Hke & Hcase).
           unfold entry_fix. rewrite Hke.
           destruct Hcase as [[Hnone _]|(sch & x & s1 & Hsch & Ha & Hsub & Hs1 & Ho)].
           ++ rewrite Hnone. exact I.
           ++ rewrite Ha. exists s1. split; auto. split; auto.
              rewrite Forall_forall in IHks, Hwm.
              assert (Hwsch : wf sch = true) by (specialize (Hwm e0 Hin0); rewrite Hsch in Hwm; exact Hwm).
              pose proof (assoc_In _ _ _ Ha) as Hind.
              apply (IHks e0 Hin0 sch Hsch Hwsch x s1); auto.
              ** eapply plain_dict_assoc; eauto.
              ** eapply Hvm; eauto.
        -- intros k x Hin. rewrite Hkeys. eauto.
        -- rewrite (relaxed_only_keys ents0 ents Hkeys). exact Erel.
    + (* undeclared dict *)
      apply bind_ok in Hs as (ents & Hr & Hs). inversion Hs; subst; clear Hs.
      destruct (native_entries_exact d Hnd Hne [] ents) as (ss & Hss & ->); auto.
      simpl app. apply exact_dict_fix; auto.
      * intros k x Hin. rewrite Hnatkeys by exact Hss. apply in_map_iff. exists (k, x). auto.
      * unfold relaxed_only. apply andb_false_iff. right. apply not_true_iff_false. intros Hd.
        apply declared_In in Hd. rewrite map_map in Hd. simpl in Hd.
        change (map (fun x : dentry => de_key x)) with (map de_key) in Hd.
        rewrite Hnatkeys in Hd by exact Hss. contradiction.
  - (* any *)
    cbn [substitute] in Hs.
    destruct (validate Subst (SAny ts) [] v) eqn:EV; [|discriminate].
    destruct ts as [ts'|].
    + apply bind_ok in Hs as (kept & Hk & Hs). destruct kept as [|k0 kr] eqn:Ekept; [discriminate|].
      inversion Hs; subst; clear Hs. apply any_subst_spec in Hk.
      specialize (IHts ts' eq_refl). cbn [wf] in Hwf. apply forallb_id_map' in Hwf.
      apply any_fix; [discriminate|].
      eapply Forall_impl; [|exact Hk]. intros s1 (f & Hf & Hfv).
      apply in_map_iff in Hf as (t & <- & Ht). rewrite Forall_forall in IHts, Hwf.
      apply (IHts t Ht (Hwf t Ht) v s1); auto.
    + apply bind_ok in Hs as (s1 & Hs1 & Hs). inversion Hs; subst; clear Hs.
      apply any_fix; [discriminate|]. constructor; [|constructor].
      apply fn_fix; auto using sub_from_native_ok.
  - (* bytes *) scalar_start'' Hs EV. destruct v; try discriminate. inversion Hs; subst.
    apply scalar_fix; auto.
    + destruct EV as (b1 & E1 & _). inversion E1; subst. exists b1. cbn. auto.
    + cbn [substitute]. intros ->. reflexivity.
  - (* uuid *) scalar_start'' Hs EV. destruct v; try discriminate. inversion Hs; subst.
    apply scalar_fix; auto.
    + destruct EV as (n1 & E1 & H4 & _). inversion E1; subst. exists n1. cbn. auto.
    + cbn [substitute]. intros ->. reflexivity.
  - (* datetime *) scalar_start'' Hs EV.
    destruct v as [| | | | | | | av uv | | | | | |]; try discriminate. inversion Hs; subst.
    apply scalar_fix; auto.
    + exists av, uv. cbn. auto.
    + cbn [substitute]. intros ->. reflexivity.
  - (* date *) scalar_start'' Hs EV. inversion Hs; subst. destruct EV as [Hi _].
    apply scalar_fix; auto.
    + split; auto. cbn. apply date_eqb_refl'. exact Hi.
    + cbn [substitute]. intros ->. reflexivity.
  - (* alias *)
    cbn [substitute] in Hs. apply bind_ok in Hs as (t' & Ht & Hs). inversion Hs; subst.
    destruct (IHt Hwf v t' Hpl Hvw Ht) as [Hv Hsub]. split.
    + intros p. cbn [validate]. apply Hv.
    + cbn [substitute]. rewrite Hsub. reflexivity.
  - (* custom *)
    cbn [substitute] in Hs. apply bind_ok in Hs as (t' & Ht & Hs). inversion Hs; subst.
    destruct (IHt Hwf v t' Hpl Hvw Ht) as [Hv Hsub]. split.
    + intros p. cbn [validate]. apply Hv.
    + cbn [substitute]. rewrite Hsub. reflexivity.
Qed.
