(* C05: substitution only narrows. *)
From Coq Require Import PrimFloat.
Require Import D42.Prelude D42.PyFloat D42.Value D42.Regex D42.Schema D42.Validate D42.Conforms
               D42.FromNative D42.Substitute.
Require Import D42P.ListLemmas D42P.ScalarSpec D42P.ValueLemmas D42P.ContainerSpec D42P.FromNativeSpec
               D42P.ValidateSpec D42P.SubstLemmas.
Open Scope nat_scope.

(* ---- element lists: shape transfer between two option lists with the same markers ---- *)
Definition same_mark {A B} (a : option A) (b : option B) : Prop := is_none a = is_none b.

Lemma mark_first_ell {A B} (fs : list (option A)) (cs : list (option B)) :
  Forall2 same_mark fs cs -> first_ell fs = first_ell cs.
Proof.
  destruct 1 as [|f c ? ? H]; [reflexivity|]. unfold same_mark in H.
  destruct f, c; simpl in *; try reflexivity; discriminate.
Qed.

Lemma mark_last_ell {A B} (fs : list (option A)) (cs : list (option B)) :
  Forall2 same_mark fs cs -> last_ell fs = last_ell cs.
Proof. intros H. unfold last_ell. apply Forall2_rev in H. apply mark_first_ell in H. exact H. Qed.

Lemma mark_classify {A B} (fs : list (option A)) (cs : list (option B)) :
  Forall2 same_mark fs cs -> classify fs = classify cs.
Proof.
  intros H. unfold classify.
  rewrite (Forall2_len _ _ _ H), (mark_first_ell _ _ H), (mark_last_ell _ _ H). reflexivity.
Qed.

Lemma Forall2_middle {A B} (R : option A -> option B -> Prop) fs cs :
  (forall a b, R a b -> same_mark a b) ->
  Forall2 R fs cs -> Forall2 R (middle fs) (middle cs).
Proof.
  intros HR H. unfold middle.
  assert (Hm : Forall2 same_mark fs cs) by (eapply Forall2_impl; [|exact H]; auto).
  rewrite (mark_classify _ _ Hm).
  destruct (classify cs); auto using Forall2_tl, Forall2_removelast.
Qed.

(* ---- narrowing of one window ---- *)
Definition nrel (P : value -> Prop) (of : option substfn) (oc : option vpred) : Prop :=
  match of, oc with
  | Some f, Some c => forall x s', P x -> f x = Ok s' -> forall y, conforms s' y -> c y
  | None, None => True
  | _, _ => False end.

Lemma nrel_mark P a b : nrel P a b -> same_mark a b.
Proof. unfold same_mark. destruct a, b; simpl; try reflexivity; contradiction. Qed.

Lemma mid_narrows P fsm csm l ms :
  Forall2 (nrel P) fsm csm -> Forall P l -> Forall2 (run_rel l) fsm ms ->
  forall lm, Forall2 (fun (c : vpred) x => c x) (map conforms ms) lm ->
             Forall2 (fun (c : vpred) x => c x) (strip csm) lm.
Proof.
  intros Hn HP Hr. revert csm Hn.
  induction Hr as [|of s fsm ms (f & x & -> & Hin & Hf) _ IH]; intros csm Hn lm Hc.
  - inversion Hn; subst. simpl in *. exact Hc.
  - inversion Hn as [|? oc ? csm' Hoc Hrest]; subst. destruct oc as [c|]; [|contradiction].
    simpl in Hc. inversion Hc as [|? y ? lm' Hy Hrest']; subst. simpl. constructor.
    + rewrite Forall_forall in HP. exact (Hoc x s (HP x Hin) Hf y Hy).
    + apply IH; auto.
Qed.

Lemma subst_list_narrows P fs cs l els :
  Forall2 (nrel P) fs cs -> Forall P l ->
  (classify fs = FExact -> length l <= length fs) ->
  subst_list_elements fs l = Ok els ->
  forall l', list_spec (map cfo els) l' -> list_spec cs l'.
Proof.
  intros Hn HP Hex Hs l' Hc. unfold subst_list_elements in Hs.
  destruct (existsb is_vell l); [discriminate|].
  assert (Hmk : Forall2 same_mark fs cs) by (eapply Forall2_impl; [|exact Hn]; apply nrel_mark).
  pose proof (mark_classify _ _ Hmk) as Hcl.
  pose proof (Forall2_middle _ _ _ (nrel_mark P) Hn) as Hmid.
  pose proof (Forall2_len _ _ _ Hmid) as Hlm.
  unfold list_spec. rewrite <- Hcl. destruct (classify fs) eqn:Ecl.
  - (* contains *)
    apply first_window_spec in Hs as (i & Hi & Hs). apply in_seq in Hi.
    apply subst_elements_spec in Hs as (ps & ms & ss & -> & Hps & Hlen & Hrel); [|lia].
    rewrite cfo_map_Some in Hc. apply list_spec_all_some in Hc. rewrite !map_app in Hc.
    apply Forall2_app_l in Hc as (l1 & r & -> & _ & Hc).
    apply Forall2_app_l in Hc as (lm & l2 & -> & Hc & _).
    exists l1, lm, l2. split; auto. eapply mid_narrows; eauto.
  - (* head *)
    apply subst_elements_spec in Hs as (ps & ms & ss & -> & Hps & Hlen & Hrel); [|lia].
    destruct ps; [|discriminate]. simpl in Hc.
    rewrite cfo_map_Some in Hc. apply list_spec_all_some in Hc. rewrite !map_app in Hc.
    apply Forall2_app_l in Hc as (lm & l2 & -> & Hc & _).
    exists lm, l2. split; auto. eapply mid_narrows; eauto.
  - (* tail *)
    apply subst_elements_spec in Hs as (ps & ms & ss & -> & Hps & Hlen & Hrel); [|lia].
    assert (length ss = 0) by lia. destruct ss; [|discriminate]. rewrite app_nil_r in Hc.
    rewrite cfo_map_Some in Hc. apply list_spec_all_some in Hc. rewrite !map_app in Hc.
    apply Forall2_app_l in Hc as (l1 & lm & -> & _ & Hc).
    exists l1, lm. split; auto. eapply mid_narrows; eauto.
  - (* exact *)
    specialize (Hex eq_refl).
    assert (Hmf : middle fs = fs) by (apply exact_middle; exact Ecl).
    apply subst_elements_spec in Hs as (ps & ms & ss & -> & Hps & Hlen & Hrel); [|lia].
    rewrite Hmf in Hlen. assert (length ss = 0) by lia. destruct ss; [|discriminate].
    destruct ps; [|discriminate]. simpl in Hc. rewrite app_nil_r in Hc.
    rewrite cfo_map_Some in Hc. apply list_spec_all_some in Hc.
    eapply mid_narrows; eauto.
Qed.

(* ---- facts read off "the partial validator reported no error" ---- *)
Lemma check_len_first_len_ok p v n len mnl mxl :
  check_len_first p v n len mnl mxl = [] -> len_ok n len mnl mxl.
Proof. apply check_len_first_nil. Qed.

Lemma list_logic_exact_len (fs : list (option elemfn)) p l :
  classify fs = FExact -> list_logic fs p l = [] -> length l <= length fs.
Proof.
  unfold list_logic. intros ->. intros H. apply app_nil_iff in H as [_ H].
  apply extras_nil in H. lia.
Qed.

(* scalar schemas do not look at the mode *)
Definition scalar (s : schema) : bool :=
  match s with
  | SList _ _ _ _ _ | SDict _ | SAny _ | SAlias _ _ | SCustom _ => false
  | _ => true end.

Lemma subst_valid_scalar s v :
  scalar s = true -> wf s = true -> validate Subst s [] v = [] -> conforms s v.
Proof.
  intros Hs Hwf H. apply (validate_iff_conforms_lemma s Hwf [] v).
  destruct s; try discriminate; exact H.
Qed.

Lemma as_intv_iz v i : as_intv v = Some i -> as_int v = Some (iz i).
Proof. destruct v; simpl; intros H; inversion H; subst; auto. destruct b; auto. Qed.

Lemma date_eqb_eq w v : isinst TDate w = true -> py_eqb w v = true -> w = v.
Proof.
  destruct w; simpl; try discriminate; intros _; destruct v; try discriminate; intros H.
  - apply andb_true_iff in H as [H1 H2]. apply Bool.eqb_prop in H1. apply Z.eqb_eq in H2. congruence.
  - apply Z.eqb_eq in H. congruence.
Qed.

(* ---- dict entries ---- *)
Definition dfs (ents0 : list dentry) : list (key * (option schema * option substfn * bool)) :=
  map (fun e : dentry =>
         (de_key e, (de_schema e, match de_schema e with
                                  | Some sch => Some (substitute sch)
                                  | None => None end, de_opt e))) ents0.

Definition dcs (ents : list dentry) : list (key * (option vpred * bool)) :=
  map (fun e : dentry => (de_key e, (cfo (de_schema e), de_opt e))) ents.

Lemma dcs_keys ents : map fst (dcs ents) = map de_key ents.
Proof. unfold dcs. rewrite map_map. reflexivity. Qed.

(* relation between an original entry and the entry substitution produces for it *)
Definition entry_rel (d : list (key * value)) (e0 e : dentry) : Prop :=
  de_key e = de_key e0 /\
  ((assoc (de_key e0) d = None /\ e = e0) \/
   (exists sch x s', de_schema e0 = Some sch /\ assoc (de_key e0) d = Some x /\
                     substitute sch x = Ok s' /\ de_schema e = Some s' /\ de_opt e = false)).

Lemma subst_dict_spec ents0 d ents :
  (forall k x, assoc k d = Some x -> is_vell x = false) ->
  subst_dict_entries (dfs ents0) d = Ok ents ->
  Forall2 (entry_rel d) ents0 ents.
Proof.
  intros Hne H. unfold subst_dict_entries in H.
  destruct (has_key KEll d); [discriminate|].
  apply bind_ok in H as (ents' & Hr & H).
  destruct (forallb _ d); [|discriminate]. inversion H; subst; clear H.
  unfold dfs in Hr. rewrite map_map in Hr. apply rsequence_ok in Hr.
  eapply Forall2_impl; [|exact Hr]. clear Hr.
  intros [[k o] b] e He. unfold de_key, de_schema, de_opt in He. simpl in He.
  destruct (assoc k d) as [x|] eqn:Ea.
  - rewrite (Hne _ _ Ea) in He. destruct o as [sch|]; [|discriminate].
    apply bind_ok in He as (s' & Hs' & He). inversion He; subst.
    split; [reflexivity|]. right. exists sch, x, s'. repeat split; auto.
  - inversion He; subst. split; [reflexivity|]. left. split; [exact Ea | reflexivity].
Qed.

Lemma subst_dict_declared ents0 d ents :
  subst_dict_entries (dfs ents0) d = Ok ents ->
  has_key KEll d = false /\ forall k x, In (k, x) d -> In k (map de_key ents0).
Proof.
  intros H. unfold subst_dict_entries in H.
  destruct (has_key KEll d); [discriminate|]. split; auto.
  apply bind_ok in H as (ents' & Hr & H).
  destruct (forallb _ d) eqn:Ef; [|discriminate].
  intros k x Hin. rewrite forallb_forall in Ef. specialize (Ef _ Hin). simpl in Ef.
  apply declared_In in Ef. unfold dfs in Ef. rewrite map_map in Ef. exact Ef.
Qed.

Definition narrowP (s : schema) : Prop :=
  forall v s', plain v = true -> substitute s v = Ok s' ->
               forall w, conforms s' w -> conforms s w.

Lemma declared_same_keys {A B} k (fs : list (key * A)) (gs : list (key * B)) :
  map fst fs = map fst gs -> declared k fs = declared k gs.
Proof.
  intros H. apply eq_true_iff_eq. rewrite !declared_In, H. reflexivity.
Qed.

Lemma entry_rel_keys d ents0 ents :
  Forall2 (entry_rel d) ents0 ents -> map de_key ents = map de_key ents0.
Proof. induction 1 as [|e0 e ? ? [H _] _ IH]; simpl; congruence. Qed.

Lemma dict_spec_narrows d ents0 ents d' :
  plain (VDict d) = true ->
  Forall (fun e0 => forall sch, de_schema e0 = Some sch -> narrowP sch) ents0 ->
  Forall2 (entry_rel d) ents0 ents ->
  dict_spec (dcs ents) d' -> dict_spec (dcs ents0) d'.
Proof.
  intros Hpl HP Hrel [H1 H2].
  assert (Hk : map fst (dcs ents0) = map fst (dcs ents))
    by (rewrite !dcs_keys; symmetry; eapply entry_rel_keys; eauto).
  split.
  - intros k c opt Hin Hne. unfold dcs in Hin. apply in_map_iff in Hin as (e0 & E & Hin).
    inversion E; subst; clear E.
    destruct (FromNativeSpec.Forall2_In_l _ _ _ _ Hrel Hin) as (e & Hine & Hke & Hcase).
    rewrite Forall_forall in HP.
    destruct Hcase as [[_ ->]|(sch & x & s' & Hsch & Ha & Hsub & Hs' & Ho)].
    + apply H1; auto. unfold dcs. apply in_map_iff. exists e0. auto.
    + specialize (H1 (de_key e0) (Some (conforms s')) false).
      assert (Hm : In (de_key e0, (Some (conforms s'), false)) (dcs ents)).
      { unfold dcs. apply in_map_iff. exists e. rewrite Hke, Hs', Ho. auto. }
      specialize (H1 Hm Hne). rewrite Hsch. simpl.
      destruct (assoc (de_key e0) d') as [y|]; [|discriminate]. simpl in H1.
      exact (HP e0 Hin sch Hsch x s' (plain_dict_assoc _ _ _ Hpl Ha) Hsub y H1).
  - rewrite (declared_same_keys KEll _ _ Hk). intros Hd k x Hin.
    rewrite (declared_same_keys k _ _ Hk). eapply H2; eauto.
Qed.

(* ---- the theorem ---- *)
Ltac scalar_start Hs EV :=
  cbn [substitute] in Hs;
  match type of Hs with
  | match validate Subst ?s [] ?v with _ => _ end = _ =>
      destruct (validate Subst s [] v) eqn:EV; [|discriminate];
      apply subst_valid_scalar in EV; [|reflexivity|assumption]
  end.

Theorem subst_narrows_lemma : forall s, wf s = true -> narrowP s.
Proof.
  induction s as [ | val | val mn mx | val mn mx pr | val len mnl mxl al sub pat
                 | es ty len mnl mxl IHes IHty | ks IHks | ts IHts
                 | val | val | val | val | nm t IHt | t IHt ] using schema_ind';
    intros Hwf v s' Hpl Hs w Hc.
  - (* none *) scalar_start Hs EV. inversion Hs; subst. exact Hc.
  - (* bool *) scalar_start Hs EV. destruct v; try discriminate. inversion Hs; subst.
    destruct EV as (b1 & E1 & Hv). inversion E1; subst.
    destruct Hc as (b0 & -> & Hb). cbn in Hb. subst. exists b1. auto.
  - (* int *) scalar_start Hs EV. destruct (as_intv v) as [i|] eqn:Ei; [|discriminate].
    inversion Hs; subst. apply as_intv_iz in Ei.
    destruct EV as (z1 & E1 & Hv & Hmn & Hmx). rewrite Ei in E1. inversion E1; subst.
    destruct Hc as (z0 & Hz & Hv0 & Hmn0 & Hmx0). cbn in Hv0. subst.
    exists (iz i). auto.
  - (* float *) scalar_start Hs EV. destruct v; try discriminate. inversion Hs; subst.
    destruct val as [e|]; [exact Hc|].
    destruct Hc as (x & -> & _ & Hmn0 & Hmx0). exists x. cbn. auto.
  - (* str *) scalar_start Hs EV. destruct v; try discriminate. inversion Hs; subst.
    destruct EV as (s1 & E1 & Hv & Hrest). inversion E1; subst.
    destruct Hc as (s0 & -> & Hv0 & Hrest0). cbn in Hv0. subst. exists s1. auto.
  - (* list *)
    cbn [substitute] in Hs.
    destruct (validate Subst (SList es ty len mnl mxl) [] v) eqn:EV; [|discriminate].
    destruct v as [| | | | | | | | |l| | | |]; try discriminate.
    destruct (negb (length l =? 0) && forallb is_vell l); [discriminate|].
    destruct (existsb is_vell (removelast (tl l))); [discriminate|].
    cbn [validate] in EV.
    destruct (check_len_first [] (VList l) (zlen l) len mnl mxl) eqn:EL; [|discriminate].
    cbn [wf] in Hwf. apply andb_true_iff in Hwf as [Hwes Hwty].
    assert (HPl : Forall (fun x => plain x = true) l)
      by (apply Forall_forall; intros x Hx; eapply plain_list_In; eauto).
    destruct ty as [t|].
    + (* typed *)
      assert (Hs2 : exists els, rsequence (map (fun x => if is_vell x then Ok None
                                                         else rmap Some (substitute t x)) l) = Ok els /\
                                s' = SList (Some els) None len mnl mxl).
      { destruct es; apply bind_ok in Hs as (els & ? & Hs); inversion Hs; eauto. }
      destruct Hs2 as (els & Hr & ->). apply rsequence_ok in Hr.
      destruct Hc as (l' & -> & Hlen & Hc). exists l'. split; auto. split; auto.
      specialize (IHty t eq_refl Hwty).
      assert (Hels : exists ss, els = map Some ss /\ Forall2 (fun x s => substitute t x = Ok s) l ss).
      { clear - Hr HPl. induction Hr as [|x e l els Hxe _ IH].
        - exists []. split; auto.
        - inversion HPl; subst. destruct (IH H2) as (ss & -> & Hss).
          rewrite (plain_not_ell _ H1) in Hxe. apply rmap_ok in Hxe as (s & Hs & ->).
          exists (s :: ss). split; auto. }
      destruct Hels as (ss & -> & Hss).
      change (map (fun e => match e with Some sch => Some (conforms sch) | None => None end) (map Some ss))
        with (map cfo (map Some ss)) in Hc.
      rewrite cfo_map_Some in Hc. apply list_spec_all_some in Hc.
      clear - Hss Hc HPl IHty. revert l' Hc.
      induction Hss as [|x s l ss Hxs _ IH]; intros l' Hc; simpl in Hc; inversion Hc; subst; constructor.
      * inversion HPl; subst. eapply IHty; eauto.
      * inversion HPl; subst. apply IH; auto.
    + destruct es as [es'|].
      * (* element list *)
        apply bind_ok in Hs as (els & Hr & Hs). inversion Hs; subst; clear Hs.
        destruct Hc as (l' & -> & Hlen & Hc). exists l'. split; auto. split; auto.
        specialize (IHes es' eq_refl). apply andb_true_iff in Hwes as [Hew Hwm].
        apply forallb_id_map' in Hwm.
        change (map (fun e => match e with Some sch => Some (conforms sch) | None => None end) els)
          with (map cfo els) in Hc.
        eapply (subst_list_narrows (fun x => plain x = true)); [| exact HPl | | exact Hr | exact Hc].
        -- clear - IHes Hwm. induction IHes as [|o r Ho _ IH]; simpl; constructor.
           ++ inversion Hwm; subst. destruct o as [sch|]; simpl; auto.
              intros x s1 Hx Hsub y Hy. eapply (Ho sch eq_refl); eauto.
           ++ apply IH. inversion Hwm; auto.
        -- intros Hcl. rewrite map_length.
           set (fs := map (fun e => match e with Some sch => Some (validate Subst sch) | None => None end) es') in *.
           assert (Hcl' : classify fs = FExact).
           { rewrite <- Hcl. unfold fs.
             change (classify (map (option_map (validate Subst)) es') =
                     classify (map (option_map (fun sch => substitute sch)) es')).
             rewrite !classify_map. reflexivity. }
           pose proof (list_logic_exact_len fs [] l Hcl' EV) as Hle. unfold fs in Hle.
           rewrite map_length in Hle. exact Hle.
      * (* untyped, no elements *)
        apply bind_ok in Hs as (els & Hr & Hs). inversion Hs; subst; clear Hs.
        destruct Hc as (l' & -> & Hlen & Hc). exists l'. auto.
  - (* dict *)
    cbn [substitute] in Hs.
    destruct (validate Subst (SDict ks) [] v) eqn:EV; [|discriminate].
    destruct v as [| | | | | | | | | |d| | |]; try discriminate.
    destruct ks as [ents0|].
    + cbv beta iota zeta in Hs.
      match type of Hs with (if ?c then _ else _) = _ => destruct c eqn:Erel end.
      * (* relaxed-only: the original accepts every dict *)
        apply bind_ok in Hs as (ents & _ & Hs). inversion Hs; subst; clear Hs.
        destruct Hc as (d' & -> & _). exists d'. split; auto.
        apply andb_true_iff in Erel as [E1 E2]. apply Nat.eqb_eq in E1.
        destruct ents0 as [|e0 [|? ?]]; try discriminate.
        unfold declared in E2. simpl in E2. rewrite orb_false_r in E2.
        assert (E3 : de_key e0 = KEll) by (destruct (de_key e0); try discriminate; reflexivity).
        split.
        -- intros k c opt [Hin|[]] Hne. inversion Hin; subst. congruence.
        -- intros Hd. unfold declared in Hd. simpl in Hd. rewrite E3 in Hd. simpl in Hd. discriminate.
      * apply bind_ok in Hs as (ents & Hr & Hs). inversion Hs; subst; clear Hs.
        destruct Hc as (d' & -> & Hc). exists d'. split; auto.
        specialize (IHks ents0 eq_refl). cbn [wf] in Hwf.
        apply andb_true_iff in Hwf as [Hwf Hwm]. apply forallb_id_map' in Hwm.
        fold (dfs ents0) in Hr. fold (dcs ents) in Hc. fold (dcs ents0).
        apply subst_dict_spec in Hr.
        2:{ intros k x Ha. apply plain_not_ell. eapply plain_dict_assoc; eauto. }
        eapply dict_spec_narrows; eauto.
        clear - IHks Hwm. induction IHks as [|e r He _ IH]; constructor.
        -- inversion Hwm; subst. intros sch Hsch. apply (He sch Hsch). rewrite Hsch in H1. exact H1.
        -- apply IH. inversion Hwm; auto.
    + (* undeclared dict *)
      apply bind_ok in Hs as (ents & _ & Hs). inversion Hs; subst; clear Hs.
      destruct Hc as (d' & -> & _). exists d'. auto.
  - (* any *)
    cbn [substitute] in Hs.
    destruct (validate Subst (SAny ts) [] v) eqn:EV; [|discriminate].
    destruct ts as [ts'|]; [|exact I].
    apply bind_ok in Hs as (kept & Hk & Hs). destruct kept as [|k0 kr]; [discriminate|].
    inversion Hs; subst; clear Hs. cbn [conforms] in *.
    apply fold_or_Exists in Hc. apply fold_or_Exists.
    apply any_subst_spec in Hk. specialize (IHts ts' eq_refl). cbn [wf] in Hwf.
    apply forallb_id_map' in Hwf.
    apply Exists_exists in Hc as (s1 & Hin & Hc1). rewrite Forall_forall in Hk.
    destruct (Hk s1 Hin) as (f & Hf & Hfv). apply in_map_iff in Hf as (t & <- & Ht).
    apply Exists_exists. exists t. split; auto.
    rewrite Forall_forall in IHts, Hwf. eapply IHts; eauto.
  - (* bytes *) scalar_start Hs EV. destruct v; try discriminate. inversion Hs; subst.
    destruct EV as (b1 & E1 & Hv). inversion E1; subst.
    destruct Hc as (b0 & -> & Hb). cbn in Hb. subst. exists b1. auto.
  - (* uuid *) scalar_start Hs EV. destruct v; try discriminate. inversion Hs; subst.
    destruct EV as (n1 & E1 & H4 & Hv). inversion E1; subst.
    destruct Hc as (n0 & -> & H40 & Hb). cbn in Hb. subst. exists n1. auto.
  - (* datetime *) scalar_start Hs EV.
    destruct v as [| | | | | | | av uv | | | | | |]; try discriminate. inversion Hs; subst.
    destruct EV as (a1 & us1 & E1 & Hv). inversion E1; subst a1 us1.
    destruct Hc as (a0 & us0 & -> & Hb). cbn in Hb. inversion Hb; subst a0 us0. exists av, uv. auto.
  - (* date *) scalar_start Hs EV. inversion Hs; subst.
    destruct EV as [Hi Hv]. destruct Hc as [Hi0 Hv0]. cbn in Hv0.
    rewrite (date_eqb_eq _ _ Hi0 Hv0). split; auto.
  - (* alias *)
    cbn [substitute] in Hs. apply bind_ok in Hs as (t' & Ht & Hs). inversion Hs; subst.
    cbn [conforms] in *. eapply IHt; eauto.
  - (* custom *)
    cbn [substitute] in Hs. apply bind_ok in Hs as (t' & Ht & Hs). inversion Hs; subst.
    cbn [conforms] in *. eapply IHt; eauto.
Qed.
