(* C10 / C11: properties of the declaration model (theories/Declare.v). *)
From Coq Require Import PrimFloat Permutation.
Require Import D42.Prelude D42.PyFloat D42.Value D42.Regex D42.Schema D42.Validate D42.Conforms
               D42.Declare.
Require Import D42P.ListLemmas D42P.ScalarSpec D42P.ContainerSpec.
Open Scope Z_scope.

(* ------------------------------------------------------------------------------------ *)
(* generic case-splitting on the guard ladders                                           *)
(* ------------------------------------------------------------------------------------ *)
Ltac rw_views :=
  repeat match goal with
         | H : a_int ?a = _ |- context[a_int ?a] => rewrite H
         | H : a_float ?a = _ |- context[a_float ?a] => rewrite H
         | H : a_str ?a = _ |- context[a_str ?a] => rewrite H
         | H : a_pat ?a = _ |- context[a_pat ?a] => rewrite H
         | H : a_ell ?a = _ |- context[a_ell ?a] => rewrite H
         | H : a_nil ?a = _ |- context[a_nil ?a] => rewrite H
         | H : a_rawstr ?a = _ |- context[a_rawstr ?a] => rewrite H
         end.
Ltac dstep :=
  match goal with
  | |- context[match ?x with _ => _ end] => is_var x; destruct x
  | |- context[match a_int ?a with _ => _ end] => destruct (a_int a) eqn:?
  | |- context[match a_float ?a with _ => _ end] => destruct (a_float a) eqn:?
  | |- context[match a_str ?a with _ => _ end] => destruct (a_str a) eqn:?
  | |- context[match a_pat ?a with _ => _ end] => destruct (a_pat a) as [[[? ?] ?]|] eqn:?
  | |- context[if ?b then _ else _] => destruct b eqn:?
  | |- context[match ?x with _ => _ end] => destruct x eqn:?
  end.
Ltac dall := repeat (cbn [bind is_some is_none negb orb andb a_int a_float a_str a_pat a_ell a_nil a_rawstr];
                     rw_views; try dstep).

Ltac bdestr :=
  repeat match goal with
         | H : _ && _ = true |- _ => apply andb_true_iff in H; destruct H
         | H : _ || _ = false |- _ => apply orb_false_iff in H; destruct H
         | H : negb _ = true |- _ => apply negb_true_iff in H
         | H : negb _ = false |- _ => apply negb_false_iff in H
         end.
Ltac bsplit := repeat (apply andb_true_intro; split).

(* ------------------------------------------------------------------------------------ *)
(* 1. only DeclarationError                                                              *)
(* ------------------------------------------------------------------------------------ *)
Definition nr {A} (r : result A) : Prop := match r with Raise _ => False | _ => True end.

Lemma nr_bind {A B} (r : result A) (f : A -> result B) :
  nr r -> (forall a, nr (f a)) -> nr (bind r f).
Proof. destruct r; simpl; auto. Qed.

Lemma nr_not_raise {A} (r : result A) : nr r -> forall e, r <> Raise e.
Proof. intros H e E. rewrite E in H. exact H. Qed.

Lemma sized_len_nr n a : nr (sized_len n a).
Proof. unfold sized_len, dE. dall; exact I. Qed.
Lemma sized_min_len_nr n a : nr (sized_min_len n a).
Proof. unfold sized_min_len, dE. dall; exact I. Qed.
Lemma sized_max_len_nr n a : nr (sized_max_len n a).
Proof. unfold sized_max_len, dE. dall; exact I. Qed.
Lemma list_decl_len_nr es a : nr (list_decl_len es a).
Proof. unfold list_decl_len, dE. dall; exact I. Qed.
Lemma list_decl_min_len_nr es a : nr (list_decl_min_len es a).
Proof. unfold list_decl_min_len, dE. dall; exact I. Qed.
Lemma list_decl_max_len_nr es a : nr (list_decl_max_len es a).
Proof. unfold list_decl_max_len, dE. dall; exact I. Qed.

Lemma elems_loop_nr n idx l : nr (elems_loop n idx l).
Proof.
  revert idx. induction l as [|a r IH]; intros idx; cbn [elems_loop]; [exact I|].
  destruct (elem_of_arg a) as [e|]; [|exact I].
  destruct (is_none e && negb (idx =? 0)%nat && negb (idx =? n - 1)%nat); [exact I|].
  apply nr_bind; [apply IH | intros; exact I].
Qed.

Lemma dict_loop_nr items acc : nr (dict_loop items acc).
Proof.
  revert acc. induction items as [|[k a] r IH]; intros acc; cbn [dict_loop]; [exact I|].
  destruct (dkey_ell k || a_ell a).
  - destruct (negb (dkey_ell k)); [exact I|]. destruct (negb (a_ell a)); [exact I|]. apply IH.
  - destruct a; try exact I. apply IH.
Qed.

Lemma str_len_nr v len mnl mxl al sub pat a b : nr (str_len v len mnl mxl al sub pat a b).
Proof.
  unfold str_len, dE.
  repeat match goal with |- nr (if ?c then _ else _) => destruct c; [try exact I|] end;
    repeat (apply nr_bind; [first [apply sized_len_nr | apply sized_min_len_nr | apply sized_max_len_nr]
                           | intros ]); exact I.
Qed.

Lemma list_len_nr es ty len mnl mxl a b : nr (list_len es ty len mnl mxl a b).
Proof.
  unfold list_len, dE.
  repeat match goal with |- nr (if ?c then _ else _) => destruct c; [try exact I|] end;
    repeat (apply nr_bind; [first [apply list_decl_len_nr | apply list_decl_min_len_nr
                                  | apply list_decl_max_len_nr] | intros ]); exact I.
Qed.

Lemma list_call_nr es ty len mnl mxl a : nr (list_call es ty len mnl mxl a).
Proof.
  unfold list_call, dE.
  destruct a as [v|s|src tree c|l|d]; cbn [a_list].
  - destruct v; try exact I.
    dall; try exact I.
    all: try (apply nr_bind; [apply elems_loop_nr | intros; dall; exact I]).
  - dall; exact I.
  - exact I.
  - dall; try exact I.
    all: try (apply nr_bind; [apply elems_loop_nr | intros; dall; exact I]).
  - exact I.
Qed.

Lemma dict_call_nr ks a : nr (dict_call ks a).
Proof.
  unfold dict_call, dE. destruct (a_dict a); [|exact I]. destruct (is_some ks); [exact I|].
  apply nr_bind; [apply dict_loop_nr | intros; exact I].
Qed.

Lemma decl_only_declerr_lemma m s args :
  arity_ok (kind_of s) m args = true -> forall e, decl m s args <> Raise e.
Proof.
  intros Har. apply nr_not_raise.
  unfold arity_ok in Har. apply andb_true_iff in Har as [Hm Har].
  destruct s; destruct m; cbn [kind_of has_meth] in Hm; try discriminate Hm; cbn [decl kind_of] in *.
  all: try (destruct args as [|a [|b [|c r]]]; try discriminate Har; cbn [with1 with_len len_args]).
  all: try apply str_len_nr; try apply list_len_nr; try apply list_call_nr; try apply dict_call_nr.
  all: try (unfold bool_call, int_call, int_min, int_max, float_call, float_min, float_max,
            float_precision, str_call, str_alphabet, str_contains, bytes_call, uuid_call,
            datetime_call, date_call, dE; dall; exact I).
  - (* regex *)
    unfold str_regex, dE. apply negb_true_iff in Har. rewrite Har. dall; exact I.
  - (* any: one or more arguments *)
    unfold any_call, dE. dall; exact I.
  - unfold any_call, dE. dall; exact I.
  - unfold any_call, dE. dall; exact I.
Qed.

(* ------------------------------------------------------------------------------------ *)
(* 2. re-declaration is rejected                                                         *)
(* ------------------------------------------------------------------------------------ *)
Lemma redeclare_rejected_lemma m s args :
  prop_declared m s = true -> arity_ok (kind_of s) m args = true -> decl m s args = Err DeclErr.
Proof.
  intros Hd Har. unfold arity_ok in Har. apply andb_true_iff in Har as [Hm Har].
  destruct s; destruct m; cbn [kind_of has_meth] in Hm; try discriminate Hm;
    cbn [decl kind_of prop_declared] in *.
  all: try (destruct args as [|a [|b [|c r]]]; try discriminate Har; cbn [with1 with_len len_args]).
  all: try (unfold bool_call, int_call, int_min, int_max, float_call, float_min, float_max,
            float_precision, str_call, str_alphabet, str_contains, bytes_call, uuid_call,
            datetime_call, date_call, dict_call, dE; rewrite ?Hd; dall; reflexivity).
  - (* str len, one argument *)
    unfold str_len, dE. destruct (is_some len); [reflexivity|].
    simpl in Hd. rewrite Hd. reflexivity.
  - unfold str_len, dE. destruct (is_some len); [reflexivity|].
    simpl in Hd. rewrite Hd. reflexivity.
  - (* regex *)
    unfold str_regex, dE. apply negb_true_iff in Har. rewrite Har.
    destruct (a_pat a) as [[[src tree] c]|]; [|reflexivity]. destruct pat; [reflexivity | discriminate Hd].
  - (* list call *)
    unfold list_call, dE. rewrite Hd. dall; reflexivity.
  - unfold list_len, dE. destruct (is_some len); [reflexivity|].
    simpl in Hd. rewrite Hd. reflexivity.
  - unfold list_len, dE. destruct (is_some len); [reflexivity|].
    simpl in Hd. rewrite Hd. reflexivity.
  - unfold dict_call, dE. destruct (a_dict a); [|reflexivity]. destruct ks; [reflexivity | discriminate Hd].
  - unfold any_call, dE. destruct (all_schemas _); [rewrite Hd|]; reflexivity.
  - unfold any_call, dE. destruct (all_schemas _); [rewrite Hd|]; reflexivity.
  - unfold any_call, dE. destruct (all_schemas _); [rewrite Hd|]; reflexivity.
Qed.

(* ------------------------------------------------------------------------------------ *)
(* 3. refinements commute (C11)                                                          *)
(* ------------------------------------------------------------------------------------ *)
Lemma outcome_eq_refl r : outcome_eq r r.
Proof. destruct r; simpl; auto. Qed.
Lemma outcome_eq_sym a b : outcome_eq a b -> outcome_eq b a.
Proof. destruct a, b; simpl; auto. Qed.
Lemma outcome_eq_trans a b c : outcome_eq a b -> outcome_eq b c -> outcome_eq a c.
Proof. destruct a, b, c; simpl; try tauto; congruence. Qed.

Ltac unfold_decl :=
  unfold int_min, int_max, float_min, float_max, float_precision, str_len, str_alphabet,
    str_contains, str_regex, list_len, sized_len, sized_min_len, sized_max_len,
    list_decl_len, list_decl_min_len, list_decl_max_len, dE.


Ltac leaf :=
  cbn [outcome_eq]; auto; try congruence;
  try (exfalso;
       repeat match goal with
              | H : _ || _ = false |- _ => apply orb_false_iff in H; destruct H
              end; congruence).
Ltac cstep := cbn [decl with1 with_len len_args bind outcome_eq]; unfold_decl; dall.

Lemma commute_int v mn mx o1 x1 o2 x2 :
  refinement o1 = true -> refinement o2 = true ->
  has_meth KdInt o1 = true -> has_meth KdInt o2 = true ->
  outcome_eq (then2 o1 [x1] o2 [x2] (SInt v mn mx)) (then2 o2 [x2] o1 [x1] (SInt v mn mx)).
Proof.
  intros R1 R2 M1 M2. unfold then2.
  destruct o1; try discriminate R1; try discriminate M1;
    destruct o2; try discriminate R2; try discriminate M2; cbn [decl with1].
  all: repeat (progress cstep); leaf.
Qed.

Lemma commute_float v mn mx pr o1 x1 o2 x2 :
  refinement o1 = true -> refinement o2 = true ->
  has_meth KdFloat o1 = true -> has_meth KdFloat o2 = true ->
  outcome_eq (then2 o1 [x1] o2 [x2] (SFloat v mn mx pr)) (then2 o2 [x2] o1 [x1] (SFloat v mn mx pr)).
Proof.
  intros R1 R2 M1 M2. unfold then2.
  destruct o1; try discriminate R1; try discriminate M1;
    destruct o2; try discriminate R2; try discriminate M2; cbn [decl with1].
  all: repeat (progress cstep); leaf.
Qed.

Lemma commute_str v len mnl mxl al sub pat o1 a1 o2 a2 :
  refinement o1 = true -> refinement o2 = true ->
  arity_ok KdStr o1 a1 = true -> arity_ok KdStr o2 a2 = true ->
  outcome_eq (then2 o1 a1 o2 a2 (SStr v len mnl mxl al sub pat))
             (then2 o2 a2 o1 a1 (SStr v len mnl mxl al sub pat)).
Proof.
  intros R1 R2 H1 H2. unfold then2, arity_ok in *.
  apply andb_true_iff in H1 as [M1 H1]. apply andb_true_iff in H2 as [M2 H2].
  destruct o1; try discriminate R1; try discriminate M1;
    destruct o2; try discriminate R2; try discriminate M2;
    destruct a1 as [|x1 [|y1 [|z1 r1]]]; try discriminate H1;
    destruct a2 as [|x2 [|y2 [|z2 r2]]]; try discriminate H2;
    try apply negb_true_iff in H1; try apply negb_true_iff in H2.
  all: repeat (progress cstep); leaf.
Qed.

Lemma commute_list es ty len mnl mxl o1 a1 o2 a2 :
  refinement o1 = true -> refinement o2 = true ->
  arity_ok KdList o1 a1 = true -> arity_ok KdList o2 a2 = true ->
  outcome_eq (then2 o1 a1 o2 a2 (SList es ty len mnl mxl))
             (then2 o2 a2 o1 a1 (SList es ty len mnl mxl)).
Proof.
  intros R1 R2 H1 H2. unfold then2, arity_ok in *.
  apply andb_true_iff in H1 as [M1 H1]. apply andb_true_iff in H2 as [M2 H2].
  destruct o1; try discriminate R1; try discriminate M1;
    destruct o2; try discriminate R2; try discriminate M2;
    destruct a1 as [|x1 [|y1 [|z1 r1]]]; try discriminate H1;
    destruct a2 as [|x2 [|y2 [|z2 r2]]]; try discriminate H2.
  all: repeat (progress cstep); leaf.
Qed.

Lemma commute_lemma s o1 a1 o2 a2 :
  refinement o1 = true -> refinement o2 = true ->
  arity_ok (kind_of s) o1 a1 = true -> arity_ok (kind_of s) o2 a2 = true ->
  outcome_eq (then2 o1 a1 o2 a2 s) (then2 o2 a2 o1 a1 s).
Proof.
  intros R1 R2 H1 H2.
  destruct s; cbn [kind_of] in *;
    try (exfalso; unfold arity_ok in H1; apply andb_true_iff in H1 as [M1 _];
         destruct o1; try discriminate R1; discriminate M1).
  - unfold arity_ok in H1, H2.
    apply andb_true_iff in H1 as [M1 H1]. apply andb_true_iff in H2 as [M2 H2].
    destruct o1; try discriminate R1; try discriminate M1;
      destruct o2; try discriminate R2; try discriminate M2;
      destruct a1 as [|x1 [|y1 r1]]; try discriminate H1;
      destruct a2 as [|x2 [|y2 r2]]; try discriminate H2; apply commute_int; auto.
  - unfold arity_ok in H1, H2.
    apply andb_true_iff in H1 as [M1 H1]. apply andb_true_iff in H2 as [M2 H2].
    destruct o1; try discriminate R1; try discriminate M1;
      destruct o2; try discriminate R2; try discriminate M2;
      destruct a1 as [|x1 [|y1 r1]]; try discriminate H1;
      destruct a2 as [|x2 [|y2 r2]]; try discriminate H2; apply commute_float; auto.
  - apply commute_str; auto.
  - apply commute_list; auto.
Qed.

(* ------------------------------------------------------------------------------------ *)
(* 4. any order of any number of refinements                                             *)
(* ------------------------------------------------------------------------------------ *)
Lemma decl_kind m s args s' : decl m s args = Ok s' -> kind_of s' = kind_of s.
Proof.
  destruct s; destruct m; cbn [decl]; try discriminate;
    unfold with1, with_len, len_args;
    destruct args as [|a [|b [|c r]]]; try discriminate.
  all: unfold bool_call, int_call, float_call, str_call, list_call, dict_call, any_call, bytes_call,
         uuid_call, datetime_call, date_call; unfold_decl; unfold bind.
  all: dall; try discriminate; intros E; inversion E; reflexivity.
Qed.

Lemma run_app ops1 ops2 s : run (ops1 ++ ops2) s = do s' <- run ops1 s; run ops2 s'.
Proof.
  revert s. induction ops1 as [|[m a] r IH]; intros s; cbn [run app bind]; [reflexivity|].
  destruct (decl m s a); cbn [bind]; auto.
Qed.

Lemma perm_same_outcome_lemma ops ops' :
  Permutation ops ops' ->
  forall s, refinement_ops (kind_of s) ops -> outcome_eq (run ops s) (run ops' s).
Proof.
  unfold refinement_ops.
  induction 1 as [| [m a] l l' HP IH | [m1 a1] [m2 a2] l | l l' l'' HP1 IH1 HP2 IH2]; intros s HF.
  - apply outcome_eq_refl.
  - cbn [run]. inversion HF as [|? ? _ HF']; subst.
    destruct (decl m s a) as [s'| |] eqn:E; cbn [bind outcome_eq]; auto.
    apply IH. rewrite (decl_kind _ _ _ _ E). exact HF'.
  - cbn [run].
    inversion HF as [|? ? [R1 A1] HF']; subst. inversion HF' as [|? ? [R2 A2] HF'']; subst.
    cbn [fst snd] in *.
    pose proof (commute_lemma s m2 a2 m1 a1 R1 R2 A1 A2) as HC. unfold then2 in HC.
    destruct (decl m2 s a2) as [s2| |] eqn:E2; destruct (decl m1 s a1) as [s1| |] eqn:E1;
      cbn [bind outcome_eq] in *.
    all: try (destruct (decl m1 s2 a1) as [s21| |] eqn:E21; cbn [bind outcome_eq] in * );
      try (destruct (decl m2 s1 a2) as [s12| |] eqn:E12; cbn [bind outcome_eq] in * );
      try contradiction; try exact I; try exact HC.
    all: try (subst; apply outcome_eq_refl).
  - eapply outcome_eq_trans; [apply IH1; exact HF|].
    apply IH2. eapply Permutation_Forall; [exact HP1 | exact HF].
Qed.

Lemma perm_after_value_lemma v ops ops' :
  Permutation ops ops' ->
  forall s, refinement_ops (kind_of s) ops ->
  outcome_eq (run ((MCall, v) :: ops) s) (run ((MCall, v) :: ops') s).
Proof.
  intros HP s HR. cbn [run].
  destruct (decl MCall s v) as [s1| |] eqn:E; cbn [bind outcome_eq]; auto.
  apply perm_same_outcome_lemma; [exact HP|]. rewrite (decl_kind _ _ _ _ E). exact HR.
Qed.

Lemma value_does_not_commute_lemma :
  exists s v a, outcome_eq (then2 MCall v MMin a s) (then2 MMin a MCall v s) -> False.
Proof.
  exists (bare KdInt), [AVal (VInt 5%Z)], [AVal (VInt 3%Z)]. vm_compute. auto.
Qed.
