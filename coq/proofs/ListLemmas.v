(* Generic list facts used by the validator proofs. *)
Require Import D42.Prelude D42.Schema D42.Validate.

Lemma app_nil_iff {A} (a b : list A) : a ++ b = [] <-> a = [] /\ b = [].
Proof. split; [apply app_eq_nil | intros [-> ->]; reflexivity]. Qed.

Lemma concat_nil_iff {A} (ls : list (list A)) : concat ls = [] <-> Forall (fun x => x = []) ls.
Proof.
  induction ls as [|x r IH]; simpl; [split; auto|].
  rewrite app_nil_iff, IH. split; [intros [? ?]; auto | intros H; inversion H; auto].
Qed.

Lemma flat_map_nil_iff {A B} (f : A -> list B) (l : list A) :
  flat_map f l = [] <-> Forall (fun x => f x = []) l.
Proof.
  induction l as [|x r IH]; simpl; [split; auto|].
  rewrite app_nil_iff, IH. split; [intros [? ?]; auto | intros H; inversion H; auto].
Qed.

Lemma Forall2_len {A B} (R : A -> B -> Prop) a b : Forall2 R a b -> length a = length b.
Proof. induction 1; simpl; congruence. Qed.

Lemma Forall2_tl {A B} (R : A -> B -> Prop) a b : Forall2 R a b -> Forall2 R (tl a) (tl b).
Proof. destruct 1; simpl; auto. Qed.

Lemma Forall2_removelast {A B} (R : A -> B -> Prop) a b :
  Forall2 R a b -> Forall2 R (removelast a) (removelast b).
Proof.
  induction 1 as [|x y a b Hxy H IH]; simpl; auto.
  destruct H; simpl; auto.
Qed.

Lemma Forall2_rev {A B} (R : A -> B -> Prop) a b : Forall2 R a b -> Forall2 R (rev a) (rev b).
Proof. induction 1; simpl; auto. apply Forall2_app; auto. Qed.

Lemma min_by_len_nil {A} (w : list A) ws :
  min_by_len w ws = [] <-> Exists (fun x => x = []) (w :: ws).
Proof.
  revert w. induction ws as [|x r IH]; intros w; cbn [min_by_len].
  - split; [intros ->; constructor; reflexivity | intros H; inversion H; subst; auto; inversion H1].
  - destruct (length x <? length w)%nat eqn:E.
    + rewrite IH. apply Nat.ltb_lt in E. split; intros H.
      * constructor 2. exact H.
      * inversion H; subst; [simpl in E; lia | exact H1].
    + rewrite IH. apply Nat.ltb_ge in E. split; intros H.
      * inversion H; subst; [constructor; reflexivity | do 2 constructor 2; exact H1].
      * inversion H; subst; [constructor; reflexivity|].
        inversion H1; subst; [|constructor 2; exact H2].
        constructor. destruct w; [reflexivity | simpl in E; lia].
Qed.

(* min_by_len returns one of its arguments *)
Lemma min_by_len_in {A} (w : list A) ws : In (min_by_len w ws) (w :: ws).
Proof.
  revert w. induction ws as [|x r IH]; intros w; cbn [min_by_len]; [left; reflexivity|].
  destruct (length x <? length w)%nat.
  - right. apply IH.
  - destruct (IH w) as [H|H]; [left; exact H | right; right; exact H].
Qed.

Lemma strip_length_all_some {A} (l : list (option A)) :
  forallb is_some l = true -> length (strip l) = length l.
Proof.
  induction l as [|o r IH]; simpl; auto.
  destruct o; simpl; [|discriminate]. intros H. rewrite IH; auto.
Qed.

Lemma skipn_nth_error_cons {A} (l : list A) i x :
  nth_error l i = Some x -> skipn i l = x :: skipn (S i) l.
Proof.
  revert i. induction l as [|y r IH]; intros [|i] H; simpl in *; try discriminate.
  - inversion H; reflexivity.
  - apply IH; exact H.
Qed.

Lemma enumerate_In {A} (l : list A) x : In x l -> exists i, In (i, x) (enumerate l).
Proof.
  unfold enumerate. generalize 0%nat as k.
  induction l as [|y r IH]; intros k H; [contradiction|].
  destruct H as [->|H]; simpl; [exists k; auto | destruct (IH (S k) H) as (i & Hi); exists i; auto].
Qed.

Lemma enumerate_In_r {A} (l : list A) i x : In (i, x) (enumerate l) -> In x l.
Proof. unfold enumerate. intros H. eapply in_combine_r; eauto. Qed.

Lemma enumerate_nth {A} (l : list A) i x : In (i, x) (enumerate l) -> nth_error l i = Some x.
Proof.
  unfold enumerate.
  assert (G : forall k, In (i, x) (combine (seq k (length l)) l) -> (k <= i)%nat /\ nth_error l (i - k) = Some x).
  { induction l as [|y r IH]; intros k H; [contradiction|].
    simpl in H. destruct H as [H|H].
    - inversion H; subst. rewrite Nat.sub_diag. split; auto.
    - destruct (IH (S k) H) as [Hk Hn]. split; [lia|].
      replace (i - k)%nat with (S (i - S k)) by lia. exact Hn. }
  intros H. destruct (G 0%nat H) as [_ Hn]. rewrite Nat.sub_0_r in Hn. exact Hn.
Qed.
