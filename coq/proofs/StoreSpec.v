(* Proofs about the object-store model (theories/Store.v): frame theorem for histories,
   arguments unchanged, replay determinism, and the pre-F16 refutation.

   Honest reading: in a functional model purity is largely by construction.  What carries
   content here is (1) the ownership argument: with every site flag = copy, no Internal
   cell is ever written after its allocation and no Internal cell ever references a Caller
   cell, so arbitrary later caller mutations cannot be seen through any pooled schema;
   (2) with one flag = reference the same statement is FALSE ([history_frame_refuted]);
   (3) the model has no state besides heap and pool.  That /repo's sites really are "copy"
   and that /repo has no further state is validated by harness/props/c07.py, not proved. *)
Require Import D42.Prelude D42.Store.

(* ------------------------------------------------------------------ list helpers *)
Lemma nth_error_app_l {A} (l l' : list A) i x :
  nth_error l i = Some x -> nth_error (l ++ l') i = Some x.
Proof.
  intro H. rewrite nth_error_app1; auto. apply nth_error_Some. congruence.
Qed.

Lemma nth_error_snoc_new {A} (l : list A) x : nth_error (l ++ [x]) (length l) = Some x.
Proof. rewrite nth_error_app2 by lia. rewrite Nat.sub_diag. reflexivity. Qed.

Lemma nth_error_snoc_inv {A} (l : list A) x i y :
  nth_error (l ++ [x]) i = Some y -> nth_error l i = Some y \/ (i = length l /\ y = x).
Proof.
  intro H. destruct (Nat.lt_ge_cases i (length l)) as [L | L].
  - rewrite nth_error_app1 in H by assumption. auto.
  - rewrite nth_error_app2 in H by assumption.
    destruct (i - length l) as [|k] eqn:E.
    + simpl in H. inversion H. right. split; [lia | reflexivity].
    + simpl in H. destruct k; discriminate.
Qed.

Lemma upd_nth_length {A} i (f : A -> A) l : length (upd_nth i f l) = length l.
Proof. revert i. induction l as [|x r IH]; intros [|i]; simpl; auto. Qed.

Lemma nth_error_upd_same {A} i (f : A -> A) l x :
  nth_error l i = Some x -> nth_error (upd_nth i f l) i = Some (f x).
Proof.
  revert i. induction l as [|y r IH]; intros [|i] H; simpl in *; try discriminate.
  - inversion H. reflexivity.
  - auto.
Qed.

Lemma nth_error_upd_other {A} i j (f : A -> A) l :
  i <> j -> nth_error (upd_nth i f l) j = nth_error l j.
Proof.
  revert i j. induction l as [|y r IH]; intros [|i] [|j] H; simpl; auto.
  - congruence.
Qed.

Lemma nth_error_upd_inv {A} i j (f : A -> A) l y :
  nth_error (upd_nth i f l) j = Some y ->
  (i <> j /\ nth_error l j = Some y) \/ (i = j /\ exists x, nth_error l j = Some x /\ y = f x).
Proof.
  intro H. destruct (Nat.eq_dec i j) as [E | E].
  - subst. right. split; auto.
    destruct (nth_error l j) as [x|] eqn:Ex.
    + rewrite (nth_error_upd_same _ f _ _ Ex) in H. inversion H. eauto.
    + exfalso. apply nth_error_None in Ex.
      assert (j < length (upd_nth j f l)) by (apply nth_error_Some; congruence).
      rewrite upd_nth_length in H0. lia.
  - left. rewrite nth_error_upd_other in H by assumption. auto.
Qed.

(* ------------------------------------------------------------------ invariant, extension *)
Definition internal_at (st : state) (c : nat) : Prop :=
  exists cl, nth_error (heap st) c = Some cl /\ own cl = Internal.

Definition closed (st : state) (it : item) : Prop :=
  match it with
  | IAtom _ | ISnap _ => True
  | ISch s => s < length (pool st)
  | ICon c => internal_at st c
  end.

Definition eclosed (st : state) (e : entry) : Prop := closed st (snd e).

(* every pooled schema owns an Internal registry; Internal cells point only to closed items *)
Definition inv (st : state) : Prop :=
  (forall s cls r, nth_error (pool st) s = Some (SObj cls r) -> internal_at st r)
  /\ (forall c cl, nth_error (heap st) c = Some cl -> own cl = Internal ->
                   Forall (eclosed st) (ents cl)).

(* st' extends st: Internal cells and pooled objects are kept as they are *)
Definition ext (st st' : state) : Prop :=
  (forall c cl, nth_error (heap st) c = Some cl -> own cl = Internal ->
                nth_error (heap st') c = Some cl)
  /\ (forall s o, nth_error (pool st) s = Some o -> nth_error (pool st') s = Some o).

(* st' only adds cells / objects: every existing cell (also the caller's) is untouched *)
Definition grows (st st' : state) : Prop :=
  (exists h, heap st' = heap st ++ h) /\ (exists p, pool st' = pool st ++ p).

Lemma ext_refl st : ext st st.
Proof. split; auto. Qed.

Lemma ext_trans a b c : ext a b -> ext b c -> ext a c.
Proof. intros [H1 H2] [H3 H4]. split; intros; auto. Qed.

Lemma grows_refl st : grows st st.
Proof. split; exists []; rewrite app_nil_r; reflexivity. Qed.

Lemma grows_trans a b c : grows a b -> grows b c -> grows a c.
Proof.
  intros [[h1 H1] [p1 P1]] [[h2 H2] [p2 P2]]. split.
  - exists (h1 ++ h2). rewrite H2, H1, app_assoc. reflexivity.
  - exists (p1 ++ p2). rewrite P2, P1, app_assoc. reflexivity.
Qed.

Lemma grows_ext a b : grows a b -> ext a b.
Proof.
  intros [[h H] [p P]]. split; intros.
  - rewrite H. apply nth_error_app_l. assumption.
  - rewrite P. apply nth_error_app_l. assumption.
Qed.

Lemma ext_pool_length a b : ext a b -> length (pool a) <= length (pool b).
Proof.
  intros [_ H]. destruct (Nat.le_gt_cases (length (pool a)) (length (pool b))) as [L | L]; [assumption|].
  destruct (nth_error (pool a) (length (pool b))) as [x|] eqn:E.
  - apply H in E. assert (length (pool b) < length (pool b)) by (apply nth_error_Some; congruence). lia.
  - apply nth_error_None in E. lia.
Qed.

Lemma internal_ext a b c : ext a b -> internal_at a c -> internal_at b c.
Proof. intros [H _] [cl [H1 H2]]. exists cl. auto. Qed.

Lemma closed_ext a b it : ext a b -> closed a it -> closed b it.
Proof.
  intros E H. destruct it; simpl in *; auto.
  - pose proof (ext_pool_length _ _ E). lia.
  - eapply internal_ext; eauto.
Qed.

Lemma Forall_eclosed_ext a b es : ext a b -> Forall (eclosed a) es -> Forall (eclosed b) es.
Proof. intros E H. eapply Forall_impl; [|exact H]. intros e. apply closed_ext; assumption. Qed.

(* ------------------------------------------------------------------ frame for denotations *)
Lemma den_frame st st' : inv st -> ext st st' ->
  forall fuel it, closed st it -> den fuel st' it = den fuel st it.
Proof.
  intros [Ia Ib] [Eh Ep]. induction fuel as [|f IH]; intros it C; [reflexivity|].
  destruct it as [a | s | c | t]; simpl; auto.
  - simpl in C. destruct (nth_error (pool st) s) as [[cls r]|] eqn:E.
    + rewrite (Ep _ _ E). f_equal. apply IH. simpl. eapply Ia; eauto.
    + apply nth_error_None in E. lia.
  - destruct C as [cl [H1 H2]]. rewrite (Eh _ _ H1 H2), H1. f_equal.
    apply map_ext_in. intros e He. f_equal. apply IH.
    pose proof (Ib _ _ H1 H2) as F. rewrite Forall_forall in F. apply F. assumption.
Qed.

(* ------------------------------------------------------------------ wf_state -> inv *)
Lemma internalb_spec st c : internalb st c = true -> internal_at st c.
Proof.
  unfold internalb, internal_at. destruct (nth_error (heap st) c) as [cl|]; [|discriminate].
  destruct (own cl) eqn:E; [discriminate|]. intros _. eauto.
Qed.

Lemma closedb_spec st it : closedb st it = true -> closed st it.
Proof.
  destruct it; simpl; auto.
  - intro H. apply Nat.ltb_lt. assumption.
  - apply internalb_spec.
Qed.

Lemma wf_state_inv st : wf_state st -> inv st.
Proof.
  unfold wf_state, wf_stateb. intro H. apply andb_prop in H. destruct H as [H1 H2].
  rewrite forallb_forall in H1, H2. split.
  - intros s cls r E. apply nth_error_In in E. apply H1 in E. apply internalb_spec. assumption.
  - intros c cl E O. apply nth_error_In in E. apply H2 in E. rewrite O in E.
    rewrite forallb_forall in E. apply Forall_forall. intros e He.
    apply closedb_spec. apply E. assumption.
Qed.

Lemma inv_empty : inv empty_state.
Proof. apply wf_state_inv. reflexivity. Qed.

(* ------------------------------------------------------------------ primitive changes *)
Lemma alloc_grows o es st : grows st (fst (alloc o es st)).
Proof. split; simpl; [eexists; reflexivity | exists []; rewrite app_nil_r; reflexivity]. Qed.

Lemma push_grows o st : grows st (fst (push o st)).
Proof. split; simpl; [exists []; rewrite app_nil_r; reflexivity | eexists; reflexivity]. Qed.

Lemma alloc_new_internal es st : internal_at (fst (alloc Internal es st)) (snd (alloc Internal es st)).
Proof. exists (mkCell Internal es). simpl. split; [apply nth_error_snoc_new | reflexivity]. Qed.

Lemma alloc_inv o es st :
  inv st -> (o = Internal -> Forall (eclosed st) es) -> inv (fst (alloc o es st)).
Proof.
  intros I Hes. pose proof (grows_ext _ _ (alloc_grows o es st)) as E.
  destruct I as [Ia Ib]. split.
  - intros s cls r H. simpl in H. eapply internal_ext; [exact E|]. eapply Ia; eauto.
  - intros c cl H O. simpl in H. apply nth_error_snoc_inv in H. destruct H as [H | [_ H]].
    + eapply Forall_eclosed_ext; [exact E|]. eapply Ib; eauto.
    + subst cl. simpl in *. eapply Forall_eclosed_ext; [exact E|]. auto.
Qed.

Lemma push_inv cls r st : inv st -> internal_at st r -> inv (fst (push (SObj cls r) st)).
Proof.
  intros I Hr. pose proof (grows_ext _ _ (push_grows (SObj cls r) st)) as E.
  destruct I as [Ia Ib]. split.
  - intros s cls' r' H. simpl in H. apply nth_error_snoc_inv in H. destruct H as [H | [_ H]].
    + eapply internal_ext; [exact E|]. eapply Ia; eauto.
    + inversion H; subst. eapply internal_ext; [exact E|]. assumption.
  - intros c cl H O. simpl in H. eapply Forall_eclosed_ext; [exact E|]. eapply Ib; eauto.
Qed.

Lemma caller_ents_spec st c es :
  caller_ents st c = Some es ->
  exists cl, nth_error (heap st) c = Some cl /\ own cl = Caller /\ ents cl = es.
Proof.
  unfold caller_ents. destruct (nth_error (heap st) c) as [cl|]; [|discriminate].
  destruct (own cl) eqn:O; [|discriminate]. intro H. inversion H. eauto.
Qed.

(* writing one of the caller's cells *)
Lemma write_caller_ext st c es es' : caller_ents st c = Some es -> ext st (write c es' st).
Proof.
  intro H. apply caller_ents_spec in H. destruct H as [cl [H1 [H2 _]]]. split; simpl; auto.
  intros c' cl' H O. destruct (Nat.eq_dec c c') as [-> | N].
  - rewrite H1 in H. inversion H; subst. congruence.
  - rewrite nth_error_upd_other; assumption.
Qed.

Lemma write_caller_inv st c es es' : inv st -> caller_ents st c = Some es -> inv (write c es' st).
Proof.
  intros I H. pose proof (write_caller_ext st c es es' H) as E.
  apply caller_ents_spec in H. destruct H as [cl0 [H1 [H2 _]]].
  destruct I as [Ia Ib]. split.
  - intros s cls r Hs. simpl in Hs. eapply internal_ext; [exact E|]. eapply Ia; eauto.
  - intros c' cl' H O. simpl in H. apply nth_error_upd_inv in H.
    destruct H as [[N H] | [-> [x [Hx ->]]]].
    + eapply Forall_eclosed_ext; [exact E|]. eapply Ib; eauto.
    + simpl in O. rewrite H1 in Hx. inversion Hx; subst. congruence.
Qed.

(* ------------------------------------------------------------------ registry helpers *)
Lemma lookup_In k es it : lookup k es = Some it -> exists k', In (k', it) es.
Proof.
  induction es as [|[k' it'] r IH]; simpl; [discriminate|].
  destruct (N.eqb k k').
  - intro H. inversion H; subst. eauto.
  - intro H. destruct (IH H) as [k'' Hk]. eauto.
Qed.

Lemma reg_set_Forall (P : entry -> Prop) k it es :
  P (k, it) -> Forall P es -> Forall P (reg_set k it es).
Proof.
  intros Hp H. induction H as [|[k' it'] r Hx Hr IH]; simpl.
  - constructor; auto.
  - destruct (N.eqb k k'); constructor; auto.
Qed.

Lemma merge_Forall (P : entry -> Prop) a b : Forall P a -> Forall P b -> Forall P (merge a b).
Proof.
  unfold merge. intros Ha Hb. revert a Ha. induction Hb as [|[k it] r Hx Hr IH]; intros a Ha; simpl; auto.
  apply IH. apply reg_set_Forall; assumption.
Qed.

Lemma any_ents_spec st c es :
  any_ents st c = Some es -> exists cl, nth_error (heap st) c = Some cl /\ ents cl = es.
Proof.
  unfold any_ents. destruct (nth_error (heap st) c) as [cl|]; [|discriminate].
  intro H. inversion H. eauto.
Qed.

Lemma reg_of_closed st s cls r es :
  inv st -> reg_of st s = Some (cls, r, es) ->
  nth_error (pool st) s = Some (SObj cls r) /\ internal_at st r /\ Forall (eclosed st) es.
Proof.
  intros [Ia Ib]. unfold reg_of.
  destruct (nth_error (pool st) s) as [[cls' r']|] eqn:E; [|discriminate].
  destruct (any_ents st r') as [es'|] eqn:A; [|discriminate].
  intro H. inversion H; subst. split; [reflexivity|].
  pose proof (Ia _ _ _ E) as Hi. split; [assumption|].
  destruct Hi as [cl [H1 H2]]. apply any_ents_spec in A. destruct A as [cl' [H3 H4]].
  rewrite H1 in H3. inversion H3; subst. eapply Ib; eauto.
Qed.

Lemma field_of_closed st es name c ces :
  inv st -> Forall (eclosed st) es -> field_of st es name = Some (c, ces) ->
  internal_at st c /\ Forall (eclosed st) ces.
Proof.
  intros [Ia Ib] F. unfold field_of.
  destruct (lookup name es) as [[a | s | c' | t]|] eqn:L; try discriminate.
  destruct (any_ents st c') as [ces'|] eqn:A; [|discriminate].
  intro H. inversion H; subst.
  apply lookup_In in L. destruct L as [k' Hin].
  rewrite Forall_forall in F. pose proof (F _ Hin) as C. unfold eclosed in C. simpl in C.
  split; [assumption|].
  destruct C as [cl [H1 H2]]. apply any_ents_spec in A. destruct A as [cl' [H3 H4]].
  rewrite H1 in H3. inversion H3; subst. eapply Ib; eauto.
Qed.

(* ------------------------------------------------------------------ sites *)
Lemma fresh_flag σ : sites_fresh σ = true -> forall i, flag σ i = true.
Proof.
  unfold sites_fresh. intro H.
  repeat (apply andb_prop in H; let H' := fresh "F" in destruct H as [H H']).
  intros []; simpl; assumption.
Qed.

Lemma sites_repo_fresh : sites_fresh sites_repo = true.
Proof. reflexivity. Qed.

(* ------------------------------------------------------------------ store / derive *)
Lemma ext_entries_closed st e extra :
  inv st -> ext_entries st e = Some extra -> Forall (eclosed st) extra.
Proof.
  intros I. destruct e as [t name | v fuel]; simpl.
  - destruct (reg_of st t) as [[[cls r] tes]|] eqn:R; [|discriminate].
    destruct (reg_of_closed _ _ _ _ _ I R) as [_ [_ F]].
    destruct (field_of st tes name) as [[c ces]|] eqn:Fo.
    + intro H. inversion H; subst. eapply field_of_closed; eauto.
    + intro H. inversion H. constructor.
  - destruct (valid_arg st v); [|discriminate]. intro H. inversion H.
    constructor; [exact Logic.I | constructor].
Qed.

Lemma store_ok σ x es name st st1 it :
  sites_fresh σ = true -> inv st -> Forall (eclosed st) es ->
  store σ x es name st = Some (st1, it) ->
  grows st st1 /\ inv st1 /\ closed st1 it.
Proof.
  intros Fr I Fes. pose proof (fresh_flag _ Fr) as Fl.
  destruct x as [a | t | ts | site c | site v fuel | site e]; simpl.
  - intro H. inversion H; subst. split; [apply grows_refl|]. split; [assumption | exact Logic.I].
  - destruct (t <? length (pool st)) eqn:L; [|discriminate]. intro H. inversion H; subst.
    split; [apply grows_refl|]. split; [assumption|]. simpl. apply Nat.ltb_lt. assumption.
  - destruct (forallb _ ts) eqn:L; [|discriminate]. intro H. inversion H; subst.
    split; [apply (alloc_grows Internal _ st)|]. split.
    + apply alloc_inv; [assumption|]. intros _. apply Forall_forall. intros e He.
      apply in_map_iff in He. destruct He as [t [<- Ht]]. unfold eclosed. simpl.
      rewrite forallb_forall in L. apply Nat.ltb_lt. apply L. assumption.
    + apply (alloc_new_internal _ st).
  - destruct (caller_ents st c) as [ces|] eqn:Ce; [|discriminate].
    destruct (forallb _ ces) eqn:L; [|discriminate]. rewrite Fl.
    intro H. inversion H; subst.
    split; [apply (alloc_grows Internal _ st)|]. split.
    + apply alloc_inv; [assumption|]. intros _. apply Forall_forall. intros e He.
      rewrite forallb_forall in L. pose proof (L _ He) as S. unfold eclosed.
      destruct (snd e); simpl in *; auto; try discriminate. apply Nat.ltb_lt. assumption.
    + apply (alloc_new_internal _ st).
  - destruct (valid_arg st v); [|discriminate]. rewrite Fl. intro H. inversion H; subst.
    split; [apply grows_refl|]. split; [assumption | exact Logic.I].
  - destruct (ext_entries st e) as [extra|] eqn:Ee; [|discriminate].
    pose proof (ext_entries_closed _ _ _ I Ee) as Fx.
    destruct (field_of st es name) as [[c0 old]|] eqn:Fo.
    + rewrite Fl. intro H. inversion H; subst.
      destruct (field_of_closed _ _ _ _ _ I Fes Fo) as [_ Fold].
      split; [apply (alloc_grows Internal _ st)|]. split.
      * apply alloc_inv; [assumption|]. intros _. apply merge_Forall; assumption.
      * apply (alloc_new_internal _ st).
    + intro H. inversion H; subst.
      split; [apply (alloc_grows Internal _ st)|]. split.
      * apply alloc_inv; [assumption|]. intros _. assumption.
      * apply (alloc_new_internal _ st).
Qed.

Lemma derive_ok σ recv cls0 name x st :
  sites_fresh σ = true -> inv st ->
  grows st (fst (derive σ recv cls0 name x st)) /\ inv (fst (derive σ recv cls0 name x st)).
Proof.
  intros Fr I. pose proof (fresh_flag _ Fr SitePropsUpdate) as Fl. unfold derive.
  assert (S : exists start,
             match recv with
             | Some s => match reg_of st s with
                         | Some (cls, r, es) => Some (cls, Some r, es)
                         | None => None end
             | None => Some (cls0, None, []) end = start
             /\ match start with
                | Some (_, _, es) => Forall (eclosed st) es
                | None => True end).
  { eexists. split; [reflexivity|]. destruct recv as [s|]; [|constructor].
    destruct (reg_of st s) as [[[cls r] es]|] eqn:R; [|exact Logic.I].
    eapply reg_of_closed; eauto. }
  destruct S as [start [-> Fes]].
  destruct start as [[[cls ro] es]|]; [|split; [apply grows_refl | assumption]].
  destruct (store σ x es name st) as [[st1 it]|] eqn:St; [|split; [apply grows_refl | assumption]].
  destruct (store_ok _ _ _ _ _ _ _ Fr I Fes St) as [G1 [I1 C1]].
  rewrite Fl.
  assert (K : grows st (fst (push (SObj cls (snd (alloc Internal (reg_set name it es) st1)))
                                  (fst (alloc Internal (reg_set name it es) st1))))
              /\ inv (fst (push (SObj cls (snd (alloc Internal (reg_set name it es) st1)))
                                (fst (alloc Internal (reg_set name it es) st1))))).
  { split.
    - eapply grows_trans; [exact G1|]. eapply grows_trans; [apply alloc_grows | apply push_grows].
    - apply push_inv; [|apply alloc_new_internal].
      apply alloc_inv; [assumption|]. intros _. apply reg_set_Forall; [exact C1|].
      eapply Forall_eclosed_ext; [apply grows_ext; exact G1 | assumption]. }
  destruct ro; exact K.
Qed.

(* ------------------------------------------------------------------ one step *)
Ltac gsolve :=
  split; simpl;
  [ first [eexists; reflexivity | exists []; rewrite app_nil_r; reflexivity]
  | first [eexists; reflexivity | exists []; rewrite app_nil_r; reflexivity] ].

Lemma step_grows σ o st :
  sites_fresh σ = true -> inv st -> is_mutation o = false -> grows st (fst (step σ o st)).
Proof.
  intros Fr I M. pose proof (fresh_flag _ Fr SiteReturned) as Fl.
  destruct o as [es | c d | cls | recv cls name x ok | tag args | s name fuel | s name k];
    simpl in *; try discriminate.
  - apply (alloc_grows Caller es st).
  - gsolve.
  - destruct ok; [apply derive_ok; assumption | apply grows_refl].
  - destruct (forallb (valid_arg st) args); apply grows_refl.
  - destruct (reg_of st s) as [[[cls r] es]|]; [|apply grows_refl]. rewrite Fl.
    apply (alloc_grows Caller _ st).
  - destruct (reg_of st s) as [[[cls r] es]|]; [|apply grows_refl].
    destruct (field_of st es name) as [[c ces]|]; [|apply grows_refl].
    destruct (lookup k ces) as [[]|]; apply grows_refl.
Qed.

Lemma step_ext_inv σ o st :
  sites_fresh σ = true -> inv st -> ext st (fst (step σ o st)) /\ inv (fst (step σ o st)).
Proof.
  intros Fr I. pose proof (fresh_flag _ Fr SiteReturned) as Fl.
  destruct (is_mutation o) eqn:M.
  - destruct o; try discriminate. simpl.
    destruct (caller_ents st c) as [es|] eqn:Ce; simpl.
    + split; [eapply write_caller_ext | eapply write_caller_inv]; eauto.
    + split; [apply ext_refl | assumption].
  - split; [apply grows_ext; apply step_grows; assumption|].
    destruct o as [es | c d | cls | recv cls name x ok | tag args | s name fuel | s name k];
      simpl in *; try discriminate.
    + apply (alloc_inv Caller es st I). discriminate.
    + change (inv (fst (push (SObj cls (snd (alloc Internal [] st))) (fst (alloc Internal [] st))))).
      apply push_inv; [|apply alloc_new_internal]. apply alloc_inv; [assumption|]. constructor.
    + destruct ok; [apply derive_ok; assumption | assumption].
    + destruct (forallb (valid_arg st) args); assumption.
    + destruct (reg_of st s) as [[[cls r] es]|]; [|assumption]. rewrite Fl.
      apply (alloc_inv Caller _ st I). discriminate.
    + destruct (reg_of st s) as [[[cls r] es]|]; [|assumption].
      destruct (field_of st es name) as [[c ces]|]; [|assumption].
      destruct (lookup k ces) as [[]|]; assumption.
Qed.

(* ------------------------------------------------------------------ histories *)
Lemma run_ext_inv σ : sites_fresh σ = true ->
  forall ops st, inv st -> ext st (run σ ops st) /\ inv (run σ ops st).
Proof.
  intros Fr. induction ops as [|o r IH]; intros st I; simpl.
  - split; [apply ext_refl | assumption].
  - destruct (step_ext_inv σ o st Fr I) as [E1 I1].
    destruct (IH _ I1) as [E2 I2]. split; [eapply ext_trans; eauto | assumption].
Qed.

Lemma run_app σ a b st : run σ (a ++ b) st = run σ b (run σ a st).
Proof. revert st. induction a as [|o r IH]; intros st; simpl; auto. Qed.

Lemma firstn_split_le {A} (l : list A) i j : i <= j -> exists m, firstn j l = firstn i l ++ m.
Proof.
  revert i j. induction l as [|x r IH]; intros i j L.
  - exists []. rewrite !firstn_nil. reflexivity.
  - destruct i as [|i]; [exists (firstn j (x :: r)); reflexivity|].
    destruct j as [|j]; [lia|]. destruct (IH i j ltac:(lia)) as [m Hm].
    exists m. simpl. rewrite Hm. reflexivity.
Qed.

Theorem history_frame_thm : forall σ, sites_fresh σ = true ->
  forall ops st0, wf_state st0 ->
  forall i j s, i <= j -> s < length (pool (after σ ops i st0)) ->
  forall fuel, denote fuel (after σ ops j st0) s = denote fuel (after σ ops i st0) s.
Proof.
  intros σ Fr ops st0 W i j s L Hs fuel. unfold after, denote.
  destruct (firstn_split_le ops i j L) as [m Hm]. rewrite Hm, run_app.
  pose proof (wf_state_inv _ W) as I0.
  destruct (run_ext_inv σ Fr (firstn i ops) st0 I0) as [_ Ii].
  destruct (run_ext_inv σ Fr m _ Ii) as [E _].
  apply den_frame; assumption.
Qed.

(* no operation other than caller_mutates writes an existing cell, in particular none of the
   caller's containers (arguments included) *)
Theorem args_unchanged_thm : forall σ, sites_fresh σ = true ->
  forall o st, wf_state st -> is_mutation o = false ->
  forall c cl, nth_error (heap st) c = Some cl ->
               nth_error (heap (fst (step σ o st))) c = Some cl.
Proof.
  intros σ Fr o st W M c cl H.
  destruct (step_grows σ o st Fr (wf_state_inv _ W) M) as [[h Hh] _].
  rewrite Hh. apply nth_error_app_l. assumption.
Qed.

(* ------------------------------------------------------------------ the pre-F16 flags *)
(* l = [5]; s = schema.list(l); l.append(6) *)
Definition f16_witness : list op :=
  [ ONew [(0%N, IAtom 5)];
    ODerive None cls_list n_elements (XShallow SiteListCall 0) true;
    caller_mutates 0 (DAppend (0%N, IAtom 6)) ].

Theorem history_frame_refuted_thm :
  exists ops st0 i j s fuel,
    wf_state st0 /\ i <= j /\ s < length (pool (after sites_f16 ops i st0)) /\
    denote fuel (after sites_f16 ops j st0) s <> denote fuel (after sites_f16 ops i st0) s.
Proof.
  exists f16_witness, empty_state, 2, 3, 0, 6.
  split; [reflexivity|]. split; [lia|]. split; [vm_compute; lia|].
  vm_compute. discriminate.
Qed.

(* the same history with the flags of /repo leaves the schema alone *)
Example f16_witness_repo_unchanged :
  denote 6 (after sites_repo f16_witness 3 empty_state) 0
  = denote 6 (after sites_repo f16_witness 2 empty_state) 0.
Proof. vm_compute. reflexivity. Qed.

(* ------------------------------------------------------------------ replay determinism *)
Definition dent (f : nat) (st : state) (e : entry) : content := CEntry (fst e) (den f st (snd e)).

Definition sim (A B : state) (a b : item) : Prop := forall f, den f A a = den f B b.
Definition esim (A B : state) (a b : entry) : Prop := fst a = fst b /\ sim A B (snd a) (snd b).

Lemma sim_sym A B a b : sim A B a b -> sim B A b a.
Proof. intros H f. symmetry. apply H. Qed.

Lemma esim_sym A B a b : esim A B a b -> esim B A b a.
Proof. intros [H1 H2]. split; [auto | apply sim_sym; assumption]. Qed.

Lemma Forall2_esim_sym A B l1 l2 : Forall2 (esim A B) l1 l2 -> Forall2 (esim B A) l2 l1.
Proof. induction 1; constructor; auto using esim_sym. Qed.

Lemma maps_esim A B l1 l2 :
  (forall f, map (dent f A) l1 = map (dent f B) l2) -> Forall2 (esim A B) l1 l2.
Proof.
  revert l2. induction l1 as [|e1 r1 IH]; intros [|e2 r2] H.
  - constructor.
  - specialize (H 0). discriminate.
  - specialize (H 0). discriminate.
  - constructor.
    + split.
      * specialize (H 0). simpl in H. inversion H. reflexivity.
      * intro f. specialize (H f). simpl in H. unfold dent in H. inversion H. reflexivity.
    + apply IH. intro f. specialize (H f). simpl in H. inversion H. reflexivity.
Qed.

Lemma esim_maps A B l1 l2 :
  Forall2 (esim A B) l1 l2 -> forall f, map (dent f A) l1 = map (dent f B) l2.
Proof.
  induction 1 as [|e1 e2 r1 r2 [Hk Hs] _ IH]; intro f; simpl; [reflexivity|].
  rewrite IH. unfold dent. rewrite Hk, (Hs f). reflexivity.
Qed.

Lemma den_con st c cl f :
  nth_error (heap st) c = Some cl -> den (S f) st (ICon c) = CCont (map (dent f st) (ents cl)).
Proof. intro H. simpl. rewrite H. reflexivity. Qed.

Lemma den_sch st s cls r f :
  nth_error (pool st) s = Some (SObj cls r) -> den (S f) st (ISch s) = CSchema cls (den f st (ICon r)).
Proof. intro H. simpl. rewrite H. reflexivity. Qed.

Lemma sim_cells A B ca cb cla clb :
  nth_error (heap A) ca = Some cla -> nth_error (heap B) cb = Some clb ->
  sim A B (ICon ca) (ICon cb) -> Forall2 (esim A B) (ents cla) (ents clb).
Proof.
  intros Ha Hb SM. apply maps_esim. intro f. specialize (SM (S f)).
  rewrite (den_con _ _ _ _ Ha), (den_con _ _ _ _ Hb) in SM. inversion SM. reflexivity.
Qed.

Lemma cells_sim A B ca cb cla clb :
  nth_error (heap A) ca = Some cla -> nth_error (heap B) cb = Some clb ->
  Forall2 (esim A B) (ents cla) (ents clb) -> sim A B (ICon ca) (ICon cb).
Proof.
  intros Ha Hb F [|f]; [reflexivity|].
  rewrite (den_con _ _ _ _ Ha), (den_con _ _ _ _ Hb). f_equal. apply esim_maps. assumption.
Qed.

Lemma sim_reg A B s1 s2 cls1 r1 es1 cls2 r2 es2 :
  reg_of A s1 = Some (cls1, r1, es1) -> reg_of B s2 = Some (cls2, r2, es2) ->
  sim A B (ISch s1) (ISch s2) -> cls1 = cls2 /\ Forall2 (esim A B) es1 es2.
Proof.
  unfold reg_of. intros Ha Hb SM.
  destruct (nth_error (pool A) s1) as [[c1 q1]|] eqn:Pa; [|discriminate].
  destruct (any_ents A q1) as [e1|] eqn:Ea; [|discriminate]. inversion Ha; subst.
  destruct (nth_error (pool B) s2) as [[c2 q2]|] eqn:Pb; [|discriminate].
  destruct (any_ents B q2) as [e2|] eqn:Eb; [|discriminate]. inversion Hb; subst.
  apply any_ents_spec in Ea. destruct Ea as [cla [Ha1 <-]].
  apply any_ents_spec in Eb. destruct Eb as [clb [Hb1 <-]].
  split.
  - specialize (SM 1). rewrite (den_sch _ _ _ _ _ Pa), (den_sch _ _ _ _ _ Pb) in SM.
    inversion SM. reflexivity.
  - eapply sim_cells; eauto. intro f. specialize (SM (S f)).
    rewrite (den_sch _ _ _ _ _ Pa), (den_sch _ _ _ _ _ Pb) in SM. inversion SM. reflexivity.
Qed.

Lemma lookup_esim A B k es1 es2 :
  Forall2 (esim A B) es1 es2 ->
  match lookup k es1, lookup k es2 with
  | Some a, Some b => sim A B a b
  | None, None => True
  | _, _ => False
  end.
Proof.
  induction 1 as [|[k1 i1] [k2 i2] r1 r2 [Hk Hs] _ IH]; simpl; [exact I|].
  simpl in Hk. subst k2. destruct (N.eqb k k1); [exact Hs | exact IH].
Qed.

(* the kind of an item is visible in its denotation *)
Lemma sim_con_kind A B c cl b :
  nth_error (heap A) c = Some cl -> sim A B (ICon c) b ->
  exists c' cl', b = ICon c' /\ nth_error (heap B) c' = Some cl'.
Proof.
  intros H SM. specialize (SM 1). rewrite (den_con _ _ _ _ H) in SM.
  destruct b as [a | s | c' | t]; simpl in SM; try discriminate.
  - destruct (nth_error (pool B) s) as [[]|]; discriminate.
  - destruct (nth_error (heap B) c') as [cl'|] eqn:E; [eauto | discriminate].
Qed.

Lemma sim_sch_kind A B s cls r b :
  nth_error (pool A) s = Some (SObj cls r) -> sim A B (ISch s) b ->
  exists s' cls' r', b = ISch s' /\ nth_error (pool B) s' = Some (SObj cls' r').
Proof.
  intros H SM. specialize (SM 1). rewrite (den_sch _ _ _ _ _ H) in SM.
  destruct b as [a | s' | c' | t]; simpl in SM; try discriminate.
  - destruct (nth_error (pool B) s') as [[cls' r']|] eqn:E; [eauto | discriminate].
  - destruct (nth_error (heap B) c'); discriminate.
Qed.

Lemma field_of_esim A B name es1 es2 c1 ces1 :
  Forall2 (esim A B) es1 es2 -> field_of A es1 name = Some (c1, ces1) ->
  exists c2 ces2, field_of B es2 name = Some (c2, ces2) /\ Forall2 (esim A B) ces1 ces2.
Proof.
  intros F. unfold field_of. pose proof (lookup_esim A B name _ _ F) as L.
  destruct (lookup name es1) as [[a | s | c | t]|]; try discriminate.
  destruct (any_ents A c) as [e1|] eqn:Ea; [|discriminate]. intro H. inversion H; subst.
  apply any_ents_spec in Ea. destruct Ea as [cla [Ha <-]].
  destruct (lookup name es2) as [b|]; [|contradiction].
  destruct (sim_con_kind _ _ _ _ _ Ha L) as [c2 [clb [-> Hb]]].
  exists c2, (ents clb). unfold any_ents. rewrite Hb. split; [reflexivity|].
  eapply sim_cells; eauto.
Qed.

Lemma field_of_esim_none A B name es1 es2 :
  Forall2 (esim A B) es1 es2 -> field_of A es1 name = None -> field_of B es2 name = None.
Proof.
  intros F H. destruct (field_of B es2 name) as [[c2 ces2]|] eqn:E; [|reflexivity].
  destruct (field_of_esim B A name _ _ _ _ (Forall2_esim_sym _ _ _ _ F) E) as [c1 [ces1 [H1 _]]].
  congruence.
Qed.

Lemma reg_set_esim A B k a b es1 es2 :
  sim A B a b -> Forall2 (esim A B) es1 es2 ->
  Forall2 (esim A B) (reg_set k a es1) (reg_set k b es2).
Proof.
  intros S. induction 1 as [|[k1 i1] [k2 i2] r1 r2 [Hk Hs] Hr IH]; simpl.
  - constructor; [split; auto | constructor].
  - simpl in Hk. subst k2. destruct (N.eqb k k1).
    + constructor; [split; auto | assumption].
    + constructor; [split; auto | assumption].
Qed.

Lemma merge_esim A B a1 a2 b1 b2 :
  Forall2 (esim A B) a1 a2 -> Forall2 (esim A B) b1 b2 ->
  Forall2 (esim A B) (merge a1 b1) (merge a2 b2).
Proof.
  unfold merge. intros Ha Hb. revert a1 a2 Ha.
  induction Hb as [|[k1 i1] [k2 i2] r1 r2 [Hk Hs] _ IH]; intros a1 a2 Ha; simpl; [assumption|].
  simpl in Hk, Hs. subst k2. apply IH. apply reg_set_esim; assumption.
Qed.

(* similarity survives extension of both states *)
Lemma sim_ext A B A' B' a b :
  inv A -> inv B -> ext A A' -> ext B B' -> closed A a -> closed B b ->
  sim A B a b -> sim A' B' a b.
Proof.
  intros Ia Ib Ea Eb Ca Cb S f.
  rewrite (den_frame _ _ Ia Ea f a Ca), (den_frame _ _ Ib Eb f b Cb). apply S.
Qed.

Lemma Forall2_esim_ext A B A' B' l1 l2 :
  inv A -> inv B -> ext A A' -> ext B B' ->
  Forall (eclosed A) l1 -> Forall (eclosed B) l2 ->
  Forall2 (esim A B) l1 l2 -> Forall2 (esim A' B') l1 l2.
Proof.
  intros Ia Ib Ea Eb F1 F2 H. revert F1 F2.
  induction H as [|e1 e2 r1 r2 [Hk Hs] _ IH]; intros F1 F2; [constructor|].
  inversion F1 as [|? ? C1 T1]; subst. inversion F2 as [|? ? C2 T2]; subst.
  constructor; [|apply IH; assumption].
  split; [assumption|]. apply (sim_ext A B A' B'); assumption.
Qed.

(* denotation of a cell / schema that has just been allocated *)
Lemma den_new_cell o es st f :
  inv st -> Forall (eclosed st) es ->
  den f (fst (alloc o es st)) (ICon (length (heap st)))
  = match f with O => CFuel | S g => CCont (map (dent g st) es) end.
Proof.
  intros I F. destruct f as [|g]; [reflexivity|].
  rewrite (den_con _ _ (mkCell o es) g) by (simpl; apply nth_error_snoc_new).
  f_equal. simpl. apply map_ext_in. intros e He. unfold dent. f_equal.
  apply den_frame; [assumption | apply grows_ext; apply alloc_grows |].
  rewrite Forall_forall in F. apply F. assumption.
Qed.

Lemma den_new_schema cls es st f :
  inv st -> Forall (eclosed st) es ->
  den f (fst (push (SObj cls (length (heap st))) (fst (alloc Internal es st))))
        (ISch (length (pool st)))
  = match f with
    | O => CFuel
    | S O => CSchema cls CFuel
    | S (S g) => CSchema cls (CCont (map (dent g st) es))
    end.
Proof.
  intros I F. destruct f as [|f]; [reflexivity|].
  rewrite (den_sch _ _ cls (length (heap st)) f) by (simpl; apply nth_error_snoc_new).
  destruct f as [|g]; [reflexivity|]. f_equal.
  rewrite (den_con _ _ (mkCell Internal es) g) by (simpl; apply nth_error_snoc_new).
  f_equal. simpl. apply map_ext_in. intros e He. unfold dent. f_equal.
  apply (den_frame st); [assumption | | rewrite Forall_forall in F; apply F; assumption].
  apply grows_ext. gsolve.
Qed.

Lemma new_cells_sim o A B l1 l2 :
  inv A -> inv B -> Forall (eclosed A) l1 -> Forall (eclosed B) l2 ->
  Forall2 (esim A B) l1 l2 ->
  sim (fst (alloc o l1 A)) (fst (alloc o l2 B)) (ICon (length (heap A))) (ICon (length (heap B))).
Proof.
  intros Ia Ib F1 F2 H f. rewrite !den_new_cell by assumption.
  destruct f as [|g]; [reflexivity|]. f_equal. apply esim_maps. assumption.
Qed.

Lemma new_schemas_sim cls A B l1 l2 :
  inv A -> inv B -> Forall (eclosed A) l1 -> Forall (eclosed B) l2 ->
  Forall2 (esim A B) l1 l2 ->
  sim (fst (push (SObj cls (length (heap A))) (fst (alloc Internal l1 A))))
      (fst (push (SObj cls (length (heap B))) (fst (alloc Internal l2 B))))
      (ISch (length (pool A))) (ISch (length (pool B))).
Proof.
  intros Ia Ib F1 F2 H f. rewrite !den_new_schema by assumption.
  destruct f as [|[|g]]; try reflexivity. do 2 f_equal. apply esim_maps. assumption.
Qed.

Lemma storable_closed st es :
  forallb (fun e : entry => storable st (snd e)) es = true -> Forall (eclosed st) es.
Proof.
  intro L. apply Forall_forall. intros e He. rewrite forallb_forall in L.
  pose proof (L _ He) as Hs. unfold eclosed.
  destruct (snd e); simpl in *; auto; try discriminate. apply Nat.ltb_lt. assumption.
Qed.

Lemma ext_entries_esim A B e x1 x2 :
  inv A -> inv B ->
  (forall a, In a (match e with EFrom t _ => [ISch t] | ESnap v _ => [v] end) -> sim A B a a) ->
  ext_entries A e = Some x1 -> ext_entries B e = Some x2 -> Forall2 (esim A B) x1 x2.
Proof.
  intros Ia Ib Ha. destruct e as [t name | v fuel]; simpl.
  - destruct (reg_of A t) as [[[c1 r1] e1]|] eqn:RA; [|discriminate].
    destruct (reg_of B t) as [[[c2 r2] e2]|] eqn:RB; [|discriminate].
    destruct (sim_reg _ _ _ _ _ _ _ _ _ _ RA RB (Ha _ (or_introl eq_refl))) as [_ F].
    destruct (field_of A e1 name) as [[ca cesa]|] eqn:FA.
    + destruct (field_of_esim _ _ _ _ _ _ _ F FA) as [cb [cesb [FB G]]]. rewrite FB.
      intros H1 H2. inversion H1; inversion H2; subst. assumption.
    + rewrite (field_of_esim_none _ _ _ _ _ F FA).
      intros H1 H2. inversion H1; inversion H2; subst. constructor.
  - destruct (valid_arg A v); [|discriminate]. destruct (valid_arg B v); [|discriminate].
    intros H1 H2. inversion H1; inversion H2; subst.
    constructor; [|constructor]. split; [reflexivity|]. simpl.
    intros [|f]; [reflexivity|]. simpl. f_equal. apply (Ha v). left. reflexivity.
Qed.

Lemma store_sim σ x name A B es1 es2 A1 B1 it1 it2 :
  sites_fresh σ = true -> inv A -> inv B ->
  Forall (eclosed A) es1 -> Forall (eclosed B) es2 -> Forall2 (esim A B) es1 es2 ->
  (forall a, In a (src_args x) -> sim A B a a) ->
  store σ x es1 name A = Some (A1, it1) -> store σ x es2 name B = Some (B1, it2) ->
  sim A1 B1 it1 it2.
Proof.
  intros Fr Ia Ib F1 F2 F Ha. pose proof (fresh_flag _ Fr) as Fl.
  destruct x as [a | t | ts | site c | site v fuel | site e]; simpl.
  - intros H1 H2. inversion H1; inversion H2; subst. intros [|f]; reflexivity.
  - destruct (t <? length (pool A)); [|discriminate]. destruct (t <? length (pool B)); [|discriminate].
    intros H1 H2. inversion H1; inversion H2; subst. apply Ha. left. reflexivity.
  - destruct (forallb _ ts) eqn:LA; [|discriminate].
    destruct (forallb (fun t => t <? length (pool B)) ts) eqn:LB; [|discriminate].
    intros H1 H2. inversion H1; inversion H2; subst.
    assert (CA : Forall (eclosed A) (map (fun t => (0%N, ISch t)) ts)).
    { apply Forall_forall. intros e He. apply in_map_iff in He. destruct He as [t [<- Ht]].
      unfold eclosed. simpl. rewrite forallb_forall in LA. apply Nat.ltb_lt. apply LA. assumption. }
    assert (CB : Forall (eclosed B) (map (fun t => (0%N, ISch t)) ts)).
    { apply Forall_forall. intros e He. apply in_map_iff in He. destruct He as [t [<- Ht]].
      unfold eclosed. simpl. rewrite forallb_forall in LB. apply Nat.ltb_lt. apply LB. assumption. }
    apply (new_cells_sim Internal A B); try assumption.
    clear LA LB CA CB H1 H2. simpl in Ha. induction ts as [|t r IH]; simpl; constructor.
    + split; [reflexivity|]. simpl. apply Ha. left. reflexivity.
    + apply IH. intros a Hin. apply Ha. right. assumption.
  - destruct (caller_ents A c) as [ca|] eqn:CA; [|discriminate].
    destruct (caller_ents B c) as [cb|] eqn:CB; [|discriminate].
    destruct (forallb _ ca) eqn:LA; [|discriminate].
    destruct (forallb (fun e : entry => storable B (snd e)) cb) eqn:LB; [|discriminate].
    rewrite Fl. intros H1 H2. inversion H1; inversion H2; subst.
    apply caller_ents_spec in CA. destruct CA as [cla [HA [_ <-]]].
    apply caller_ents_spec in CB. destruct CB as [clb [HB [_ <-]]].
    apply (new_cells_sim Internal A B); try assumption; try (apply storable_closed; assumption).
    eapply sim_cells; eauto. apply Ha. left. reflexivity.
  - destruct (valid_arg A v); [|discriminate]. destruct (valid_arg B v); [|discriminate].
    rewrite Fl. intros H1 H2. inversion H1; inversion H2; subst.
    intros [|f]; [reflexivity|]. simpl. f_equal. apply (Ha v). left. reflexivity.
  - destruct (ext_entries A e) as [xa|] eqn:EA; [|discriminate].
    destruct (ext_entries B e) as [xb|] eqn:EB; [|discriminate].
    assert (FX : Forall2 (esim A B) xa xb).
    { eapply ext_entries_esim; eauto; try (destruct e; exact Ha). }
    pose proof (ext_entries_closed _ _ _ Ia EA) as CXA.
    pose proof (ext_entries_closed _ _ _ Ib EB) as CXB.
    destruct (field_of A es1 name) as [[ca olda]|] eqn:FA.
    + destruct (field_of_esim _ _ _ _ _ _ _ F FA) as [cb [oldb [FB G]]]. rewrite FB, Fl.
      destruct (field_of_closed _ _ _ _ _ Ia F1 FA) as [_ COA].
      destruct (field_of_closed _ _ _ _ _ Ib F2 FB) as [_ COB].
      intros H1 H2. inversion H1; inversion H2; subst.
      apply (new_cells_sim Internal A B); try assumption; try (apply merge_Forall; assumption).
      apply merge_esim; assumption.
    + rewrite (field_of_esim_none _ _ _ _ _ F FA).
      intros H1 H2. inversion H1; inversion H2; subst.
      apply (new_cells_sim Internal A B); assumption.
Qed.

Lemma derive_sim σ recv cls0 name x A B :
  sites_fresh σ = true -> inv A -> inv B ->
  (forall a, In a ((match recv with Some s => [ISch s] | None => [] end) ++ src_args x) -> sim A B a a) ->
  snd (derive σ recv cls0 name x A) <> RInvalid ->
  snd (derive σ recv cls0 name x B) <> RInvalid ->
  forall f, res_den f (fst (derive σ recv cls0 name x A)) (snd (derive σ recv cls0 name x A))
          = res_den f (fst (derive σ recv cls0 name x B)) (snd (derive σ recv cls0 name x B)).
Proof.
  intros Fr Ia Ib Ha. pose proof (fresh_flag _ Fr SitePropsUpdate) as Fl.
  assert (K : forall cls ro1 ro2 es1 es2,
             Forall (eclosed A) es1 -> Forall (eclosed B) es2 -> Forall2 (esim A B) es1 es2 ->
             let dA := match store σ x es1 name A with
                       | None => (A, RInvalid)
                       | Some (st1, it) =>
                           match ro1, flag σ SitePropsUpdate with
                           | Some r, false =>
                               let st2 := write r (reg_set name it es1) st1 in
                               let '(st3, s') := push (SObj cls r) st2 in (st3, RSchema s')
                           | _, _ =>
                               let '(st2, r') := alloc Internal (reg_set name it es1) st1 in
                               let '(st3, s') := push (SObj cls r') st2 in (st3, RSchema s')
                           end end in
             let dB := match store σ x es2 name B with
                       | None => (B, RInvalid)
                       | Some (st1, it) =>
                           match ro2, flag σ SitePropsUpdate with
                           | Some r, false =>
                               let st2 := write r (reg_set name it es2) st1 in
                               let '(st3, s') := push (SObj cls r) st2 in (st3, RSchema s')
                           | _, _ =>
                               let '(st2, r') := alloc Internal (reg_set name it es2) st1 in
                               let '(st3, s') := push (SObj cls r') st2 in (st3, RSchema s')
                           end end in
             snd dA <> RInvalid -> snd dB <> RInvalid ->
             forall f, res_den f (fst dA) (snd dA) = res_den f (fst dB) (snd dB)).
  { intros cls ro1 ro2 es1 es2 F1 F2 F. rewrite Fl.
    destruct (store σ x es1 name A) as [[A1 it1]|] eqn:SA; [|simpl; congruence].
    destruct (store σ x es2 name B) as [[B1 it2]|] eqn:SB; [|simpl; congruence].
    intros dA dB _ _ f.
    assert (Hx : forall a, In a (src_args x) -> sim A B a a).
    { intros a Hin. apply Ha. apply in_or_app. right. assumption. }
    pose proof (store_sim _ _ _ _ _ _ _ _ _ _ _ Fr Ia Ib F1 F2 F Hx SA SB) as Sit.
    destruct (store_ok _ _ _ _ _ _ _ Fr Ia F1 SA) as [GA [IA1 CA]].
    destruct (store_ok _ _ _ _ _ _ _ Fr Ib F2 SB) as [GB [IB1 CB]].
    assert (FA1 : Forall (eclosed A1) (reg_set name it1 es1)).
    { apply reg_set_Forall; [exact CA|]. eapply Forall_eclosed_ext; [apply grows_ext; exact GA | assumption]. }
    assert (FB1 : Forall (eclosed B1) (reg_set name it2 es2)).
    { apply reg_set_Forall; [exact CB|]. eapply Forall_eclosed_ext; [apply grows_ext; exact GB | assumption]. }
    assert (FF : Forall2 (esim A1 B1) (reg_set name it1 es1) (reg_set name it2 es2)).
    { apply reg_set_esim; [assumption|].
      apply (Forall2_esim_ext A B A1 B1); auto using grows_ext. }
    pose proof (new_schemas_sim cls A1 B1 _ _ IA1 IB1 FA1 FB1 FF f) as R.
    subst dA dB. destruct ro1, ro2; simpl; f_equal; exact R. }
  unfold derive. destruct recv as [s|].
  - destruct (reg_of A s) as [[[c1 r1] e1]|] eqn:RA; [|simpl; congruence].
    destruct (reg_of B s) as [[[c2 r2] e2]|] eqn:RB; [|simpl; congruence].
    assert (Hs : sim A B (ISch s) (ISch s)) by (apply Ha; left; reflexivity).
    destruct (sim_reg _ _ _ _ _ _ _ _ _ _ RA RB Hs) as [-> F].
    destruct (reg_of_closed _ _ _ _ _ Ia RA) as [_ [_ F1]].
    destruct (reg_of_closed _ _ _ _ _ Ib RB) as [_ [_ F2]].
    apply (K c2 (Some r1) (Some r2) e1 e2 F1 F2 F).
  - apply (K cls0 None None [] []); constructor.
Qed.

Theorem replay_deterministic_thm : forall σ, sites_fresh σ = true ->
  forall o A B, wf_state A -> wf_state B -> is_caller_op o = false ->
  (forall a, In a (op_args o) -> forall f, den f A a = den f B a) ->
  snd (step σ o A) <> RInvalid -> snd (step σ o B) <> RInvalid ->
  forall f, outcome σ o A f = outcome σ o B f.
Proof.
  intros σ Fr o A B WA WB Hc Ha. pose proof (wf_state_inv _ WA) as Ia.
  pose proof (wf_state_inv _ WB) as Ib. pose proof (fresh_flag _ Fr SiteReturned) as Fl.
  simpl in Fl. unfold outcome.
  destruct o as [es | c d | cls | recv cls name x ok | tag args | s name fuel | s name k];
    simpl in Hc; try discriminate; simpl.
  - (* OLeaf *)
    intros _ _ f. f_equal.
    apply (new_schemas_sim cls A B [] [] Ia Ib); constructor.
  - (* ODerive *)
    destruct ok; [|reflexivity]. apply derive_sim; assumption.
  - (* OObserve *)
    destruct (forallb (valid_arg A) args); [|simpl; congruence].
    destruct (forallb (valid_arg B) args); [|simpl; congruence].
    intros _ _ f. simpl. do 2 f_equal. apply map_ext_in. intros a Hin. apply Ha. assumption.
  - (* OFake *)
    destruct (reg_of A s) as [[[c1 r1] e1]|] eqn:RA; [|simpl; congruence].
    destruct (reg_of B s) as [[[c2 r2] e2]|] eqn:RB; [|simpl; congruence].
    rewrite Fl. intros _ _ f. simpl. f_equal.
    apply (new_cells_sim Caller A B); try assumption.
    + constructor; [exact Logic.I | constructor].
    + constructor; [exact Logic.I | constructor].
    + constructor; [|constructor]. split; [reflexivity|]. simpl.
      intros [|g]; [reflexivity|]. simpl. f_equal. apply (Ha (ISch s)). left. reflexivity.
  - (* OGetItem *)
    destruct (reg_of A s) as [[[c1 r1] e1]|] eqn:RA; [|simpl; congruence].
    destruct (reg_of B s) as [[[c2 r2] e2]|] eqn:RB; [|simpl; congruence].
    assert (Hs : sim A B (ISch s) (ISch s)) by (intro f0; apply Ha; left; reflexivity).
    destruct (sim_reg _ _ _ _ _ _ _ _ _ _ RA RB Hs) as [_ F].
    destruct (field_of A e1 name) as [[ca cesa]|] eqn:FA; [|simpl; congruence].
    destruct (field_of_esim _ _ _ _ _ _ _ F FA) as [cb [cesb [FB G]]]. rewrite FB.
    pose proof (lookup_esim A B k _ _ G) as L.
    destruct (lookup k cesa) as [[a | t | c | t]|]; try (simpl; congruence).
    destruct (lookup k cesb) as [[a' | t' | c' | t']|]; try (simpl; congruence).
    all: intros _ _ f; simpl; f_equal; apply L.
Qed.
