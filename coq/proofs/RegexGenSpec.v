(* Proofs about the regex generator model (theories/RegexGen.v):
     gen_sound / regen_fullmatch_lemma      whatever is returned matches the whole pattern
     regen_unsupported_raises_lemma         unsupported node on every path => Raise, every tape
   The tie of [matches] to the derivative matcher of D42.Regex is in RegexGenMatch.v. *)
From Coq Require Import Permutation.
Require Import D42.Prelude D42.Regex D42.PyRandom D42.RegexGen.
Require Import D42Gen.GenConsts.
Open Scope N_scope.

(* ------------------------------------------------------------------ induction principle *)
Section ReInd.
  Variable P : re -> Prop.
  Hypothesis HLit : forall c, P (RLit c).
  Hypothesis HNotLit : forall c, P (RNotLit c).
  Hypothesis HAny : P RAny.
  Hypothesis HIn : forall n items, P (RIn n items).
  Hypothesis HBranch : forall alts, Forall (Forall P) alts -> P (RBranch alts).
  Hypothesis HGroup : forall body, Forall P body -> P (RGroup body).
  Hypothesis HRepeat : forall lz mn mx body, Forall P body -> P (RRepeat lz mn mx body).
  Hypothesis HAt : forall k, P (RAt k).
  Hypothesis HUns : forall op, P (RUnsupported op).

  Fixpoint re_ind' (r : re) : P r :=
    let fix go (l : list re) : Forall P l :=
      match l with
      | [] => Forall_nil _
      | x :: l' => Forall_cons x (re_ind' x) (go l') end in
    match r with
    | RLit c => HLit c
    | RNotLit c => HNotLit c
    | RAny => HAny
    | RIn n items => HIn n items
    | RBranch alts =>
        HBranch alts
          ((fix go2 (ll : list (list re)) : Forall (Forall P) ll :=
              match ll with
              | [] => Forall_nil _
              | x :: l' => Forall_cons x (go x) (go2 l') end) alts)
    | RGroup body => HGroup body (go body)
    | RRepeat lz mn mx body => HRepeat lz mn mx body (go body)
    | RAt k => HAt k
    | RUnsupported op => HUns op
    end.
End ReInd.

(* ------------------------------------------------------------------ the tape monad *)
Lemma mbind_ok {A B} (m : M A) (f : A -> M B) t b t' :
  mbind m f t = Ok (b, t') -> exists a t1, m t = Ok (a, t1) /\ f a t1 = Ok (b, t').
Proof.
  unfold mbind. destruct (m t) as [[a t1]|k|e]; try discriminate. intros H. eauto.
Qed.

Lemma ret_ok {A} (a b : A) t t' : ret a t = Ok (b, t') -> b = a /\ t' = t.
Proof. unfold ret. intros H. inversion H. auto. Qed.

Lemma mlift_ok {A} (r : result A) t a t' : mlift r t = Ok (a, t') -> r = Ok a /\ t' = t.
Proof. unfold mlift. destruct r; intros H; inversion H; auto. Qed.

Lemma draw_ok t x t' : draw t = Ok (x, t') -> True.
Proof. auto. Qed.

Lemma randint_ok a b t z t' : randint a b t = Ok (z, t') -> (a <= z <= b)%Z.
Proof.
  unfold randint. destruct (b <? a)%Z eqn:E; [discriminate|].
  apply Z.ltb_ge in E. intros H. apply mbind_ok in H as (x & t1 & _ & H).
  apply ret_ok in H as [-> _].
  pose proof (Z.mod_pos_bound (Z.of_N x) (b - a + 1) ltac:(lia)). lia.
Qed.

Lemma choice_ok {A} (l : list A) t a t' : choice l t = Ok (a, t') -> In a l.
Proof.
  unfold choice. destruct l as [|d l0]; [discriminate|].
  intros H. apply mbind_ok in H as (x & t1 & _ & H). apply ret_ok in H as [-> _].
  apply nth_In. set (n := length (d :: l0)).
  assert (N.of_nat n <> 0) by (subst n; simpl; lia).
  pose proof (N.mod_lt x (N.of_nat n) H). lia.
Qed.

(* ------------------------------------------------------------------ small data lemmas *)
Lemma Nmem_In c s : Nmem c s = true <-> In c s.
Proof.
  unfold Nmem. rewrite existsb_exists. split.
  - intros (x & Hx & E). apply N.eqb_eq in E. subst. exact Hx.
  - intros H. exists c. split; [exact H|apply N.eqb_refl].
Qed.

Lemma Nmem_false c s : Nmem c s = false <-> ~ In c s.
Proof.
  rewrite <- Nmem_In. destruct (Nmem c s); split; intros H; try congruence; try reflexivity.
Qed.

Lemma nrange_iter_spec n : forall i acc c,
  n <= i + 1 ->
  (In c (snd (N.iter n nrange_step (i, acc))) <-> (i + 1 - n <= c /\ c <= i) \/ In c acc)
  /\ fst (N.iter n nrange_step (i, acc)) = i - n.
Proof.
  induction n as [|n IH] using N.peano_ind; intros i acc c Hn.
  - simpl. split; [|lia]. split; [auto|]. intros [H|H]; [lia|exact H].
  - rewrite N.iter_succ.
    destruct (N.iter n nrange_step (i, acc)) as [j l] eqn:E.
    destruct (IH i acc c ltac:(lia)) as [IH1 IH2]. rewrite E in IH1, IH2. simpl in IH1, IH2.
    subst j. unfold nrange_step. cbn [fst snd]. split; [|lia].
    split.
    + intros [H|H]; [left; lia|]. apply IH1 in H as [H|H]; [left; lia|right; exact H].
    + intros [H|H].
      * destruct (N.eq_dec c (i - n)) as [->|Hne]; [left; reflexivity|].
        right. apply IH1. left. lia.
      * right. apply IH1. right. exact H.
Qed.

Lemma nrange_In lo hi c : In c (nrange lo hi) <-> lo <= c /\ c <= hi.
Proof.
  unfold nrange. destruct (hi <? lo) eqn:E.
  - apply N.ltb_lt in E. simpl. split; [tauto|lia].
  - apply N.ltb_ge in E.
    destruct (nrange_iter_spec (hi + 1 - lo) hi [] c ltac:(lia)) as [H _]. rewrite H.
    simpl. split; [intros [H0|[]]; lia|intros H0; left; lia].
Qed.

Lemma dedup_In c l : In c (dedup l) <-> In c l.
Proof.
  induction l as [|x r IH]; [tauto|]. cbn [dedup].
  destruct (Nmem x r) eqn:E.
  - rewrite IH. split; [intros H; right; exact H|].
    intros [->|H]; [apply Nmem_In; exact E|exact H].
  - simpl. rewrite IH. tauto.
Qed.

Lemma set_diff_In c letters ex : In c (set_diff letters ex) <-> In c letters /\ ~ In c ex.
Proof.
  unfold set_diff. rewrite dedup_In, filter_In, negb_true_iff, Nmem_false. tauto.
Qed.

(* ------------------------------------------------------------------ soundness *)
Definition sound (g : M pystr) (L : pystr -> Prop) : Prop :=
  forall t s t', g t = Ok (s, t') -> L s.

Lemma seq_run_sound gs rs :
  Forall2 (fun g r => sound g (matches r)) gs rs -> sound (seq_run gs) (matches_seq rs).
Proof.
  induction 1 as [|g r gs rs Hg _ IH]; intros t s t' H; cbn [seq_run] in H.
  - apply ret_ok in H as [-> _]. constructor.
  - apply mbind_ok in H as (s1 & t1 & H1 & H).
    apply mbind_ok in H as (s2 & t2 & H2 & H).
    apply ret_ok in H as [-> _]. constructor; [eapply Hg; eassumption|eapply IH; eassumption].
Qed.

Lemma mrepeat_sound g body n :
  sound g (matches_seq body) -> sound (mrepeat g n) (matches_rep body n).
Proof.
  intros Hg. induction n as [|k IH]; intros t s t' H; cbn [mrepeat] in H.
  - apply ret_ok in H as [-> _]. constructor.
  - apply mbind_ok in H as (s1 & t1 & H1 & H).
    apply mbind_ok in H as (s2 & t2 & H2 & H).
    apply ret_ok in H as [-> _]. constructor; [eapply Hg; eassumption|eapply IH; eassumption].
Qed.

Lemma alphabets_ok_spec c : alphabets_ok c = true ->
  ~ In 10 (g_letters c) /\
  (forall x, In x (g_digits c) -> is_digit x = true) /\
  (forall x, In x (g_word c) -> is_word x = true) /\
  (forall x, In x (g_letters c) -> is_digit x = true -> In x (g_digits c)) /\
  (forall x, In x (g_letters c) -> is_word x = true -> In x (g_word c)).
Proof.
  unfold alphabets_ok. intros H.
  apply andb_prop in H as [H H5]. apply andb_prop in H as [H H4].
  apply andb_prop in H as [H H3]. apply andb_prop in H as [H1 H2].
  rewrite forallb_forall in H2, H3, H4, H5.
  apply negb_true_iff in H1. apply Nmem_false in H1.
  repeat split; auto.
  - intros x Hx Hd. specialize (H4 x Hx). rewrite Hd in H4. apply Nmem_In. exact H4.
  - intros x Hx Hd. specialize (H5 x Hx). rewrite Hd in H5. apply Nmem_In. exact H5.
Qed.

Section Sound.
  Variable cfg : gcfg.
  Variable hash_perm : pystr -> pystr.
  Hypothesis hash_perm_perm : forall l, Permutation (hash_perm l) l.
  Hypothesis Hcfg : alphabets_ok cfg = true.

  Let letters_no_nl : ~ In 10 (g_letters cfg) := proj1 (alphabets_ok_spec cfg Hcfg).
  Let digits_ok : forall c, In c (g_digits cfg) -> is_digit c = true :=
    proj1 (proj2 (alphabets_ok_spec cfg Hcfg)).
  Let word_ok : forall c, In c (g_word cfg) -> is_word c = true :=
    proj1 (proj2 (proj2 (alphabets_ok_spec cfg Hcfg))).
  Let letters_digit : forall c, In c (g_letters cfg) -> is_digit c = true -> In c (g_digits cfg) :=
    proj1 (proj2 (proj2 (proj2 (alphabets_ok_spec cfg Hcfg)))).
  Let letters_word : forall c, In c (g_letters cfg) -> is_word c = true -> In c (g_word cfg) :=
    proj2 (proj2 (proj2 (proj2 (alphabets_ok_spec cfg Hcfg)))).

  Notation category_alphabet := (category_alphabet cfg).
  Notation exclude_letters := (exclude_letters cfg).
  Notation gen_not_in := (gen_not_in cfg hash_perm).
  Notation gen_in := (gen_in cfg).
  Notation gen := (gen cfg hash_perm).
  Notation gen_re := (gen_re cfg hash_perm).

  (* everything the class can match among the letters ends up in exclude_letters *)
  Lemma exclude_letters_spec items : forall acc ex,
    exclude_letters items acc = Ok ex ->
    items_supported items = true /\
    (forall c, In c acc -> In c ex) /\
    (forall c, In c (g_letters cfg) -> existsb (fun it => item_mem it c) items = true -> In c ex).
  Proof.
    induction items as [|it rest IH]; intros acc ex H; cbn [RegexGen.exclude_letters] in H.
    - inversion H; subst. repeat split; auto. intros c _ Hc. discriminate.
    - destruct it as [x|lo hi|k].
      + apply IH in H as (Hs & Hacc & Hm). repeat split; [exact Hs| |].
        * intros c Hc. apply Hacc. apply in_or_app. left. exact Hc.
        * intros c Hl Hc. cbn [existsb] in Hc. apply orb_prop in Hc as [Hc|Hc]; [|auto].
          cbn [item_mem] in Hc. apply N.eqb_eq in Hc. subst. apply Hacc.
          apply in_or_app. right. left. reflexivity.
      + apply IH in H as (Hs & Hacc & Hm). repeat split; [exact Hs| |].
        * intros c Hc. apply Hacc. apply in_or_app. left. exact Hc.
        * intros c Hl Hc. cbn [existsb] in Hc. apply orb_prop in Hc as [Hc|Hc]; [|auto].
          cbn [item_mem] in Hc. apply andb_prop in Hc as [H1 H2].
          apply N.leb_le in H1, H2. apply Hacc. apply in_or_app. right.
          apply nrange_In. lia.
      + destruct (category_alphabet k) as [a| |] eqn:Ek; cbn [bind] in H; try discriminate.
        apply IH in H as (Hs & Hacc & Hm).
        assert (Hk : cat_supported k = true) by (destruct k; [reflexivity|reflexivity|discriminate]).
        repeat split.
        * cbn [items_supported forallb]. rewrite Hk. exact Hs.
        * intros c Hc. apply Hacc. apply in_or_app. left. exact Hc.
        * intros c Hl Hc. cbn [existsb] in Hc. apply orb_prop in Hc as [Hc|Hc]; [|auto].
          cbn [item_mem] in Hc. apply Hacc. apply in_or_app. right.
          destruct k; cbn [RegexGen.category_alphabet] in Ek; inversion Ek; subst;
            cbn [cat_mem] in Hc; auto.
  Qed.

  Lemma gen_not_in_ok items t x t' :
    gen_not_in items t = Ok (x, t') ->
    In x (g_letters cfg) /\ items_supported items = true /\
    existsb (fun it => item_mem it x) items = false.
  Proof.
    unfold RegexGen.gen_not_in. intros H.
    apply mbind_ok in H as (ex & t1 & H1 & H).
    apply mlift_ok in H1 as [H1 ->].
    apply choice_ok in H.
    apply (Permutation_in _ (hash_perm_perm _)) in H.
    apply set_diff_In in H as [Hl Hn].
    apply exclude_letters_spec in H1 as (Hs & _ & Hm).
    repeat split; auto.
    destruct (existsb (fun it => item_mem it x) items) eqn:E; [|reflexivity].
    exfalso. apply Hn. apply Hm; assumption.
  Qed.

  Lemma gen_in_ok items t x t' :
    gen_in items t = Ok (x, t') -> existsb (fun it => item_mem it x) items = true.
  Proof.
    unfold RegexGen.gen_in. destruct items as [|i0 items0]; [discriminate|].
    set (items := i0 :: items0). intros H.
    apply mbind_ok in H as (it & t1 & H1 & H). apply choice_ok in H1.
    apply existsb_exists. exists it. split; [exact H1|].
    destruct it as [c|lo hi|k].
    - apply ret_ok in H as [-> _]. cbn [item_mem]. apply N.eqb_refl.
    - apply mbind_ok in H as (o & t2 & H2 & H). apply ret_ok in H as [-> _].
      apply randint_ok in H2. cbn [item_mem].
      apply andb_true_intro. split; apply N.leb_le; lia.
    - apply mbind_ok in H as (a & t2 & H2 & H). apply mlift_ok in H2 as [H2 ->].
      apply choice_ok in H. cbn [item_mem].
      destruct k; cbn [RegexGen.category_alphabet] in H2; inversion H2; subst; cbn [cat_mem]; auto.
  Qed.

  Lemma Forall2_map_sound (f : re -> M pystr) body :
    Forall (fun r => no_at r = true -> sound (f r) (matches r)) body ->
    forallb no_at body = true ->
    Forall2 (fun g r => sound g (matches r)) (map f body) body.
  Proof.
    induction 1 as [|r rest Hr _ IH]; intros Hn; cbn [map]; constructor.
    - apply Hr. cbn [forallb] in Hn. apply andb_prop in Hn as [Hn _]. exact Hn.
    - apply IH. cbn [forallb] in Hn. apply andb_prop in Hn as [_ Hn]. exact Hn.
  Qed.

  Theorem gen_sound : forall r, no_at r = true -> sound (gen r) (matches r).
  Proof.
    induction r as [c|c| |neg items|alts IH|body IH|lz mn mx body IH|k|op] using re_ind';
      intros Hna t s t' H; cbn [RegexGen.gen] in H.
    - apply ret_ok in H as [-> _]. constructor.
    - apply mbind_ok in H as (x & t1 & H1 & H). apply ret_ok in H as [-> _].
      apply gen_not_in_ok in H1 as (_ & _ & Hm). constructor.
      cbn [existsb item_mem] in Hm. rewrite orb_false_r in Hm. apply N.eqb_neq. exact Hm.
    - apply mbind_ok in H as (x & t1 & H1 & H). apply ret_ok in H as [-> _].
      apply choice_ok in H1. constructor. intros ->. apply letters_no_nl. exact H1.
    - apply mbind_ok in H as (x & t1 & H1 & H). apply ret_ok in H as [-> _].
      destruct neg.
      + apply gen_not_in_ok in H1 as (_ & Hs & Hm). constructor; [auto|].
        cbn [cset_mem]. rewrite Hm. reflexivity.
      + apply gen_in_ok in H1. constructor; [discriminate|].
        cbn [cset_mem]. rewrite H1. reflexivity.
    - apply mbind_ok in H as (g & t1 & H1 & H). apply choice_ok in H1.
      apply in_map_iff in H1 as (alt & <- & Hin).
      cbn [no_at] in Hna. rewrite forallb_forall in Hna. specialize (Hna _ Hin).
      rewrite Forall_forall in IH. specialize (IH _ Hin).
      apply MBranch with (alt := alt); [exact Hin|].
      eapply seq_run_sound; [|exact H]. apply Forall2_map_sound; assumption.
    - constructor. cbn [no_at] in Hna.
      eapply seq_run_sound; [|exact H]. apply Forall2_map_sound; assumption.
    - cbn [no_at] in Hna. unfold gen_max_repeat in H.
      apply mbind_ok in H as (count & t1 & H1 & H). apply randint_ok in H1.
      apply MRepeat with (n := Z.to_nat count).
      + lia.
      + destruct mx as [m|]; [lia|exact I].
      + eapply mrepeat_sound; [|exact H].
        apply seq_run_sound. apply Forall2_map_sound; assumption.
    - discriminate.
    - discriminate.
  Qed.

  Lemma gen_re_sound p : forallb no_at p = true -> sound (gen_re p) (matches_seq p).
  Proof.
    intros Hn. unfold RegexGen.gen_re. apply seq_run_sound.
    apply Forall2_map_sound; [|exact Hn].
    apply Forall_forall. intros r _. apply gen_sound.
  Qed.

  (* the stripped anchors generate the empty string: the run on p is the run on the
     stripped sequence *)
  Lemma seq_run_snoc_at gs t :
    seq_run (gs ++ [ret []]) t = seq_run gs t.
  Proof.
    revert t. induction gs as [|g rest IH]; intros t; cbn [app seq_run].
    - reflexivity.
    - unfold mbind. destruct (g t) as [[s1 t1]| |]; try reflexivity.
      rewrite IH. reflexivity.
  Qed.

  Lemma seq_run_cons_at gs t : seq_run (ret [] :: gs) t = seq_run gs t.
  Proof.
    cbn [seq_run]. unfold mbind, ret.
    destruct (seq_run gs t) as [[s2 t2]| |]; reflexivity.
  Qed.

  Lemma gen_re_strip_begin p t : gen_re (snd (strip_begin p)) t = gen_re p t.
  Proof.
    unfold strip_begin. destruct p as [|r rest]; [reflexivity|].
    destruct r; try reflexivity. destruct k; try reflexivity;
      cbn [snd]; unfold RegexGen.gen_re; cbn [map RegexGen.gen]; symmetry; apply seq_run_cons_at.
  Qed.

  Lemma gen_re_strip_end p t : gen_re (fst (strip_end p)) t = gen_re p t.
  Proof.
    unfold strip_end. destruct (rev p) as [|r rest] eqn:E; [reflexivity|].
    assert (Hp : p = rev rest ++ [r]).
    { rewrite <- (rev_involutive p), E. reflexivity. }
    destruct r; try reflexivity. destruct k; try reflexivity;
      cbn [fst]; rewrite Hp; unfold RegexGen.gen_re; rewrite map_app; cbn [map RegexGen.gen];
      symmetry; apply seq_run_snoc_at.
  Qed.

  Theorem regen_fullmatch_lemma p :
    anchors_ok p = true ->
    forall t s t', gen_re p t = Ok (s, t') -> matches_top p s.
  Proof.
    intros Ha t s t' H. unfold matches_top. unfold anchors_ok in Ha.
    eapply gen_re_sound; [exact Ha|].
    unfold strip_anchors. rewrite gen_re_strip_end, gen_re_strip_begin. exact H.
  Qed.
End Sound.

(* ------------------------------------------------------------------ loud refusal *)
Definition noerr {A} (g : M A) : Prop := forall t k, g t <> Err k.
Definition refuses {A} (g : M A) : Prop := forall t, is_raise (g t) = true.

Lemma noerr_ret {A} (a : A) : noerr (ret a).
Proof. intros t k. discriminate. Qed.
Lemma noerr_raise {A} e : noerr (@mraise A e).
Proof. intros t k. discriminate. Qed.
Lemma noerr_bind {A B} (m : M A) (f : A -> M B) :
  noerr m -> (forall a, noerr (f a)) -> noerr (mbind m f).
Proof.
  intros Hm Hf t k. unfold mbind. destruct (m t) as [[a t1]|k'|e] eqn:E.
  - apply Hf.
  - exfalso. eapply Hm. exact E.
  - discriminate.
Qed.
Lemma noerr_draw : noerr draw.
Proof. intros [|x r] k; discriminate. Qed.
Lemma noerr_randint a b : noerr (randint a b).
Proof.
  unfold randint. destruct (b <? a)%Z; [apply noerr_raise|].
  apply noerr_bind; [apply noerr_draw|intros; apply noerr_ret].
Qed.
Lemma noerr_choice {A} (l : list A) : noerr (choice l).
Proof.
  unfold choice. destruct l; [apply noerr_raise|].
  apply noerr_bind; [apply noerr_draw|intros; apply noerr_ret].
Qed.
Lemma noerr_seq_run gs : Forall noerr gs -> noerr (seq_run gs).
Proof.
  induction 1 as [|g rest Hg _ IH]; cbn [seq_run]; [apply noerr_ret|].
  apply noerr_bind; [exact Hg|]. intros s. apply noerr_bind; [exact IH|]. intros; apply noerr_ret.
Qed.
Lemma noerr_mrepeat g n : noerr g -> noerr (mrepeat g n).
Proof.
  intros Hg. induction n as [|k IH]; cbn [mrepeat]; [apply noerr_ret|].
  apply noerr_bind; [exact Hg|]. intros s. apply noerr_bind; [exact IH|]. intros; apply noerr_ret.
Qed.

Lemma refuses_bind_l {A B} (m : M A) (f : A -> M B) : refuses m -> refuses (mbind m f).
Proof. intros Hm t. unfold mbind. specialize (Hm t). destruct (m t) as [[a t1]| |]; try discriminate. reflexivity. Qed.
Lemma refuses_bind_r {A B} (m : M A) (f : A -> M B) :
  noerr m -> (forall a, refuses (f a)) -> refuses (mbind m f).
Proof.
  intros Hm Hf t. unfold mbind. destruct (m t) as [[a t1]|k|e] eqn:E.
  - apply Hf.
  - exfalso. eapply Hm. exact E.
  - reflexivity.
Qed.

Lemma refuses_seq_run gs :
  Forall noerr gs -> Exists refuses gs -> refuses (seq_run gs).
Proof.
  intros Hn He. induction He as [g rest Hg|g rest _ IH]; cbn [seq_run].
  - apply refuses_bind_l. exact Hg.
  - inversion Hn; subst. apply refuses_bind_r; [assumption|]. intros s.
    apply refuses_bind_l. apply IH. assumption.
Qed.

Section Refuse.
  Variable cfg : gcfg.
  Variable hash_perm : pystr -> pystr.
  Notation gen := (gen cfg hash_perm).
  Notation gen_re := (gen_re cfg hash_perm).

  Lemma noerr_mlift_cat k : noerr (mlift (category_alphabet cfg k)).
  Proof. intros t e. destruct k; discriminate. Qed.

  Lemma exclude_letters_noerr items : forall acc k, exclude_letters cfg items acc <> Err k.
  Proof.
    induction items as [|it rest IH]; intros acc k; cbn [exclude_letters]; [discriminate|].
    destruct it as [c|lo hi|c]; try apply IH.
    destruct c; cbn [category_alphabet bind]; try apply IH. discriminate.
  Qed.

  Lemma noerr_gen_not_in items : noerr (gen_not_in cfg hash_perm items).
  Proof.
    unfold gen_not_in. apply noerr_bind.
    - intros t k. unfold mlift. destruct (exclude_letters cfg items []) eqn:E; try discriminate.
      exfalso. eapply exclude_letters_noerr. exact E.
    - intros ex. apply noerr_choice.
  Qed.

  Lemma noerr_gen_in items : noerr (gen_in cfg items).
  Proof.
    unfold gen_in. destruct items as [|i0 l0]; [apply noerr_raise|].
    apply noerr_bind; [apply noerr_choice|]. intros [c|lo hi|k].
    - apply noerr_ret.
    - apply noerr_bind; [apply noerr_randint|intros; apply noerr_ret].
    - apply noerr_bind; [apply noerr_mlift_cat|intros; apply noerr_choice].
  Qed.

  Lemma Forall_noerr_map (f : re -> M pystr) body :
    Forall (fun r => noerr (f r)) body -> Forall noerr (map f body).
  Proof. induction 1; cbn [map]; constructor; assumption. Qed.

  Lemma gen_noerr : forall r, noerr (gen r).
  Proof.
    induction r as [c|c| |neg items|alts IH|body IH|lz mn mx body IH|k|op] using re_ind';
      cbn [RegexGen.gen].
    - apply noerr_ret.
    - apply noerr_bind; [apply noerr_gen_not_in|intros; apply noerr_ret].
    - apply noerr_bind; [apply noerr_choice|intros; apply noerr_ret].
    - apply noerr_bind; [|intros; apply noerr_ret].
      destruct neg; [apply noerr_gen_not_in|apply noerr_gen_in].
    - intros t k. unfold mbind.
      destruct (random_choice _ t) as [[g t1]|k'|e] eqn:E.
      + apply choice_ok in E. apply in_map_iff in E as (alt & <- & Hin).
        rewrite Forall_forall in IH. specialize (IH _ Hin).
        apply noerr_seq_run. apply Forall_noerr_map. exact IH.
      + exfalso. eapply noerr_choice. exact E.
      + discriminate.
    - apply noerr_seq_run. apply Forall_noerr_map. exact IH.
    - unfold gen_max_repeat. apply noerr_bind; [apply noerr_randint|]. intros count.
      apply noerr_mrepeat. apply noerr_seq_run. apply Forall_noerr_map. exact IH.
    - apply noerr_ret.
    - apply noerr_raise.
  Qed.

  Lemma exclude_letters_unsupported items : forall acc,
    items_supported items = false -> is_raise (exclude_letters cfg items acc) = true.
  Proof.
    induction items as [|it rest IH]; intros acc H; [discriminate|].
    cbn [items_supported forallb] in H. cbn [exclude_letters].
    destruct it as [c|lo hi|k]; try (apply IH; exact H).
    destruct k; cbn [category_alphabet bind]; try (apply IH; exact H). reflexivity.
  Qed.

  Lemma refuses_map_exists (f : re -> M pystr) body :
    Forall (fun r => must_refuse r = true -> refuses (f r)) body ->
    existsb must_refuse body = true -> Exists refuses (map f body).
  Proof.
    induction 1 as [|r rest Hr _ IH]; intros He; [discriminate|].
    cbn [existsb] in He. cbn [map]. destruct (must_refuse r) eqn:E.
    - left. apply Hr. reflexivity.
    - right. apply IH. exact He.
  Qed.

  Lemma mrepeat_refuses g n : (0 < n)%nat -> refuses g -> refuses (mrepeat g n).
  Proof. intros Hn Hg. destruct n; [lia|]. cbn [mrepeat]. apply refuses_bind_l. exact Hg. Qed.

  Theorem gen_refuses : forall r, must_refuse r = true -> refuses (gen r).
  Proof.
    induction r as [c|c| |neg items|alts IH|body IH|lz mn mx body IH|k|op] using re_ind';
      intros Hm; cbn [must_refuse] in Hm; try discriminate; cbn [RegexGen.gen].
    - apply refuses_bind_l. destruct neg.
      + apply negb_true_iff in Hm. unfold gen_not_in. apply refuses_bind_l. intros t.
        pose proof (exclude_letters_unsupported items [] Hm) as Hr. unfold mlift.
        destruct (exclude_letters cfg items []); try discriminate. reflexivity.
      + unfold gen_in. destruct items as [|i0 l0]; [intros t; reflexivity|].
        intros t. unfold mbind.
        destruct (random_choice (i0 :: l0) t) as [[it t1]|k|e] eqn:E.
        * apply choice_ok in E. rewrite forallb_forall in Hm. specialize (Hm _ E).
          destruct it as [c|lo hi|k]; try discriminate. destruct k; try discriminate.
          reflexivity.
        * exfalso. eapply noerr_choice. exact E.
        * reflexivity.
    - intros t. unfold mbind.
      destruct (random_choice _ t) as [[g t1]|k|e] eqn:E.
      + apply choice_ok in E. apply in_map_iff in E as (alt & <- & Hin).
        rewrite forallb_forall in Hm. specialize (Hm _ Hin).
        rewrite Forall_forall in IH. specialize (IH _ Hin).
        apply refuses_seq_run.
        * apply Forall_noerr_map. apply Forall_forall. intros; apply gen_noerr.
        * apply refuses_map_exists; assumption.
      + exfalso. eapply noerr_choice. exact E.
      + reflexivity.
    - apply refuses_seq_run.
      + apply Forall_noerr_map. apply Forall_forall. intros; apply gen_noerr.
      + apply refuses_map_exists; assumption.
    - apply andb_prop in Hm as [Hmn Hm]. apply N.ltb_lt in Hmn.
      unfold gen_max_repeat. intros t. unfold mbind.
      destruct (random_int _ _ t) as [[count t1]|k|e] eqn:E.
      + apply randint_ok in E. apply mrepeat_refuses; [lia|].
        apply refuses_seq_run.
        * apply Forall_noerr_map. apply Forall_forall. intros; apply gen_noerr.
        * apply refuses_map_exists; assumption.
      + exfalso. eapply noerr_randint. exact E.
      + reflexivity.
    - intros t. reflexivity.
  Qed.

  Theorem regen_unsupported_raises_lemma p :
    existsb must_refuse p = true -> forall t, is_raise (gen_re p t) = true.
  Proof.
    intros H. unfold RegexGen.gen_re. apply refuses_seq_run.
    - apply Forall_noerr_map. apply Forall_forall. intros; apply gen_noerr.
    - apply refuses_map_exists; [|exact H]. apply Forall_forall. intros; apply gen_refuses; assumption.
  Qed.
End Refuse.

(* ------------------------------------------------------------------ facts about the tables *)
Lemma default_alphabets_ok k : alphabets_ok (default_cfg k) = true.
Proof. vm_compute. reflexivity. Qed.

Lemma default_alphabets_ascii k : alphabets_ascii (default_cfg k) = true.
Proof. vm_compute. reflexivity. Qed.

(* the instance of the correspondence is one of the orders the theorem covers *)
Lemma insert_cp_perm c l : Permutation (insert_cp c l) (c :: l).
Proof.
  induction l as [|x r IH]; cbn [insert_cp]; [reflexivity|].
  destruct (c <=? x); [reflexivity|].
  etransitivity; [apply perm_skip; exact IH|apply perm_swap].
Qed.
Lemma sort_cp_perm l : Permutation (sort_cp l) l.
Proof.
  induction l as [|x r IH]; cbn [sort_cp fold_right]; [reflexivity|].
  etransitivity; [apply insert_cp_perm|apply perm_skip; exact IH].
Qed.
