(* C13: `+` on dict schemas is associative, as schemas (entries, their order, the key objects). *)
Require Import D42.Prelude D42.Value D42.Regex D42.Schema D42.Validate D42.Conforms D42.CaseLib
               D42.Combinators.
Require Import D42P.ListLemmas D42P.CombinatorsSpec.
Local Open Scope nat_scope.

Definition dsetf := (fun (acc : list dentry) (e : dentry) => dset e acc).

Lemma dset_dset_same e f d :
  key_eqb (de_key e) (de_key f) = true -> dset e (dset f d) = dset e d.
Proof.
  intros Hef. induction d as [|h r IH]; cbn [dset].
  - rewrite Hef. rewrite (dset_same_key _ _ Hef). reflexivity.
  - destruct (key_eqb (de_key f) (de_key h)) eqn:Efh.
    + cbn [dset]. cbn [de_key fst].
      assert (Eeh : key_eqb (de_key e) (de_key h) = true).
      { apply key_eqb_eq in Hef. apply key_eqb_eq in Efh. apply key_eqb_eq. congruence. }
      change (de_key (de_key h, de_schema f, de_opt f)) with (de_key h).
      rewrite Eeh. reflexivity.
    + cbn [dset].
      assert (Eeh : key_eqb (de_key e) (de_key h) = false).
      { apply key_eqb_eq in Hef. apply key_eqb_neq in Efh. apply key_eqb_neq. congruence. }
      rewrite Eeh, IH. reflexivity.
Qed.

(* replacing a present key in place commutes with setting another key *)
Lemma dset_comm_present e g X :
  key_eqb (de_key e) (de_key g) = false -> has_dkey (de_key e) X = true ->
  dset e (dset g X) = dset g (dset e X).
Proof.
  intros Heg. induction X as [|h r IH]; intros Hin; [discriminate Hin|].
  cbn [has_dkey existsb] in Hin. cbn [dset].
  destruct (key_eqb (de_key e) (de_key h)) eqn:Eeh.
  - assert (Egh : key_eqb (de_key g) (de_key h) = false).
    { apply key_eqb_eq in Eeh. apply key_eqb_neq in Heg. apply key_eqb_neq. congruence. }
    rewrite Egh. cbn [dset]. rewrite Eeh.
    change (de_key (de_key h, de_schema e, de_opt e)) with (de_key h). rewrite Egh. reflexivity.
  - cbn [orb] in Hin. fold (has_dkey (de_key e) r) in Hin.
    destruct (key_eqb (de_key g) (de_key h)) eqn:Egh.
    + cbn [dset]. change (de_key (de_key h, de_schema g, de_opt g)) with (de_key h).
      rewrite Eeh, Egh. reflexivity.
    + cbn [dset]. rewrite Eeh, Egh, (IH Hin). reflexivity.
Qed.

Lemma dset_fold_present e r : forall X,
  has_dkey (de_key e) r = false -> has_dkey (de_key e) X = true ->
  dset e (fold_left dsetf r X) = fold_left dsetf r (dset e X).
Proof.
  induction r as [|g r IH]; intros X Hr HX; cbn [fold_left]; [reflexivity|].
  cbn [has_dkey existsb] in Hr. apply orb_false_elim in Hr. destruct Hr as [Heg Hr].
  fold (has_dkey (de_key e) r) in Hr.
  unfold dsetf at 2 4. rewrite <- (dset_comm_present e g X Heg HX).
  apply IH; [exact Hr|]. rewrite has_dkey_dset, HX. apply orb_true_r.
Qed.

Lemma merge_dset e m : forall x,
  nodup_keys (map de_key m) = true ->
  fold_left dsetf (dset e m) x = dset e (fold_left dsetf m x).
Proof.
  induction m as [|f r IH]; intros x Hn; [reflexivity|].
  apply nodup_cons in Hn. destruct Hn as [Hf Hn].
  cbn [dset]. destruct (key_eqb (de_key e) (de_key f)) eqn:Eef.
  - rewrite (dset_same_key _ _ Eef). cbn [fold_left]. unfold dsetf at 2 4.
    assert (Her : has_dkey (de_key e) r = false).
    { apply key_eqb_eq in Eef. rewrite Eef. exact Hf. }
    rewrite (dset_fold_present e r (dset f x) Her).
    + rewrite (dset_dset_same e f x Eef). reflexivity.
    + rewrite has_dkey_dset, Eef. reflexivity.
  - cbn [fold_left]. apply IH. exact Hn.
Qed.

Lemma merge_assoc_lemma x y z :
  nodup_keys (map de_key y) = true -> nodup_keys (map de_key z) = true ->
  merge_entries (merge_entries x y) z = merge_entries x (merge_entries y z).
Proof.
  intros Hy. unfold merge_entries. fold dsetf.
  induction z as [|e z' IH] using rev_ind; intros Hz; [reflexivity|].
  rewrite !fold_left_app. cbn [fold_left]. unfold dsetf at 1 4.
  assert (Hz' : nodup_keys (map de_key z') = true).
  { clear IH. revert Hz. induction z' as [|a l IHl]; intros H; [reflexivity|].
    cbn [app map] in H. apply (nodup_cons a (l ++ [e])) in H. destruct H as [Ha Hl].
    apply nodup_cons. split; [|apply IHl; exact Hl].
    rewrite has_dkey_app in Ha. apply orb_false_elim in Ha. exact (proj1 Ha). }
  rewrite (IH Hz'). symmetry. apply merge_dset.
  exact (nodup_merge y z' Hy).
Qed.

Theorem add_assoc_lemma a b c ab bc :
  wf a = true -> wf b = true -> wf c = true ->
  dict_add a b = Ok ab -> dict_add b c = Ok bc ->
  dict_add ab c = dict_add a bc.
Proof.
  intros Ha Hb Hc Hab Hbc.
  destruct a as [ | | | | | | k1 | | | | | | | ]; try discriminate Hab.
  destruct b as [ | | | | | | k2 | | | | | | | ]; try discriminate Hab.
  destruct c as [ | | | | | | k3 | | | | | | | ]; try discriminate Hbc.
  rewrite dict_add_ok in Hab, Hbc. inversion Hab; subst ab. inversion Hbc; subst bc.
  rewrite !dict_add_ok. cbn [entries_of].
  apply wf_entries, wf_dict_iff in Hb as (_ & N2 & _).
  apply wf_entries, wf_dict_iff in Hc as (_ & N3 & _).
  rewrite (merge_assoc_lemma (entries_of k1) (entries_of k2) (entries_of k3) N2 N3). reflexivity.
Qed.
Print Assumptions add_assoc_lemma.
