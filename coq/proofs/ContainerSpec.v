(* Container logic of the validator: empty error list <-> declarative spec, given that
   each member function is correct for its member predicate. *)
Require Import D42.Prelude D42.Value D42.Schema D42.Validate D42.Conforms.
Require Import D42P.ListLemmas.
Open Scope nat_scope.

Definition okf (f : elemfn) (c : vpred) : Prop := forall p x, f p x = [] <-> c x.

Definition relf (f : option elemfn) (c : option vpred) : Prop :=
  match f, c with
  | Some f, Some c => okf f c
  | None, None => True
  | _, _ => False end.

Lemma velems_nil fs cs p l idx :
  Forall2 okf fs cs ->
  (velems fs p l idx = [] <-> Forall2 (fun c x => c x) cs (firstn (length cs) (skipn idx l))).
Proof.
  intros H. revert idx. induction H as [|f c fs cs Hfc H IH]; intros idx; cbn [velems length firstn].
  - split; auto.
  - destruct (nth_error l idx) as [x|] eqn:E.
    + rewrite (skipn_nth_error_cons _ _ _ E). cbn [firstn].
      rewrite app_nil_iff, IH, (Hfc _ x).
      split; [intros [? ?]; constructor; auto | intros H0; inversion H0; subst; auto].
    + apply nth_error_None in E. rewrite skipn_all2 by lia. cbn.
      split; [discriminate | intros H0; inversion H0].
Qed.

Lemma head_iff (cs : list vpred) l :
  Forall2 (fun c x => c x) cs (firstn (length cs) l) <->
  exists lm l2, l = lm ++ l2 /\ Forall2 (fun c x => c x) cs lm.
Proof.
  split.
  - intros H. exists (firstn (length cs) l), (skipn (length cs) l).
    split; [symmetry; apply firstn_skipn | exact H].
  - intros (lm & l2 & -> & H). pose proof (Forall2_len _ _ _ H) as E.
    rewrite E, firstn_app, firstn_all, Nat.sub_diag. simpl. rewrite app_nil_r. exact H.
Qed.

Lemma window_iff (cs : list vpred) l i :
  Forall2 (fun c x => c x) cs (firstn (length cs) (skipn i l)) /\ i <= length l <->
  exists l1 lm l2, l = l1 ++ lm ++ l2 /\ length l1 = i /\ Forall2 (fun c x => c x) cs lm.
Proof.
  split.
  - intros [H Hi]. apply head_iff in H as (lm & l2 & E & H).
    exists (firstn i l), lm, l2. rewrite <- E, firstn_skipn. repeat split; auto.
    rewrite firstn_length; lia.
  - intros (l1 & lm & l2 & -> & <- & H). split.
    + rewrite skipn_app, skipn_all, Nat.sub_diag. simpl. apply head_iff. eauto.
    + rewrite app_length; lia.
Qed.

Lemma relf_first_ell fs cs : Forall2 relf fs cs -> first_ell fs = first_ell cs.
Proof. destruct 1 as [|f c ? ? Hfc]; auto. destruct f, c; simpl in *; try contradiction; auto. Qed.

Lemma relf_last_ell fs cs : Forall2 relf fs cs -> last_ell fs = last_ell cs.
Proof. intros H. unfold last_ell. apply Forall2_rev in H. apply relf_first_ell in H. exact H. Qed.

Lemma relf_classify fs cs : Forall2 relf fs cs -> classify fs = classify cs.
Proof.
  intros H. unfold classify.
  rewrite (Forall2_len _ _ _ H), (relf_first_ell _ _ H), (relf_last_ell _ _ H). reflexivity.
Qed.

Lemma relf_middle fs cs : Forall2 relf fs cs -> Forall2 relf (middle fs) (middle cs).
Proof.
  intros H. unfold middle. rewrite (relf_classify _ _ H).
  destruct (classify cs); auto using Forall2_tl, Forall2_removelast.
Qed.

Lemma relf_strip fs cs : Forall2 relf fs cs -> Forall2 okf (strip fs) (strip cs).
Proof.
  induction 1 as [|f c fs cs Hfc H IH]; simpl; auto.
  destruct f, c; simpl in *; try contradiction; auto.
Qed.

Lemma relf_all_some fs cs :
  Forall2 relf fs cs -> forallb is_some fs = forallb is_some cs.
Proof.
  induction 1 as [|f c fs cs Hfc H IH]; simpl; auto.
  destruct f, c; simpl in *; try contradiction; auto.
Qed.

Lemma extras_nil p l n : extras p l n = [] <-> length l - n = 0.
Proof.
  unfold extras. destruct (length l - n) eqn:E; simpl; split; auto; discriminate.
Qed.

Lemma exact_middle {A} (fs : list (option A)) : classify fs = FExact -> middle fs = fs.
Proof. unfold middle. intros ->. reflexivity. Qed.

Lemma list_logic_iff fs cs p l :
  Forall2 relf fs cs -> elems_wf fs = true ->
  (list_logic fs p l = [] <-> list_spec cs l).
Proof.
  intros H Hwf. unfold list_logic, list_spec.
  pose proof (relf_classify _ _ H) as Hc.
  pose proof (relf_middle _ _ H) as Hm.
  pose proof (relf_strip _ _ Hm) as Hs.
  pose proof (Forall2_len _ _ _ Hs) as Hlen.
  unfold elems_wf in Hwf.
  pose proof (strip_length_all_some _ Hwf) as Hlm.
  rewrite <- Hc. cbv zeta.
  set (mf := strip (middle fs)) in *. set (mc := strip (middle cs)) in *.
  destruct (classify fs) eqn:Ecl.
  - (* body *)
    destruct l as [|x l].
    + rewrite (velems_nil _ _ _ _ _ Hs). simpl. rewrite firstn_nil. split.
      * intros H0. exists [], [], []. split; auto.
      * intros (l1 & lm & l2 & E & H0). symmetry in E. apply app_eq_nil in E as [_ E].
        apply app_eq_nil in E as [-> _]. exact H0.
    + set (L := x :: l).
      assert (HL : length L = S (length l)) by reflexivity.
      destruct (map (fun i => velems mf p L i) (seq 0 (length L))) as [|w ws] eqn:EM.
      { rewrite HL in EM. simpl in EM. discriminate. }
      rewrite min_by_len_nil, <- EM, Exists_exists. split.
      * intros (e & Hin & ->). apply in_map_iff in Hin as (i & Hi & Hin). apply in_seq in Hin.
        apply (velems_nil _ _ _ _ _ Hs) in Hi.
        assert (Hle : i <= length L) by lia.
        destruct (proj1 (window_iff mc L i) (conj Hi Hle)) as (l1 & lm & l2 & E & _ & H0). eauto.
      * intros (l1 & lm & l2 & E & H0).
        destruct mc as [|c0 cs0] eqn:Ecs.
        -- exists []. split; auto. apply in_map_iff. exists 0. split; [|apply in_seq; lia].
           destruct mf; [reflexivity | simpl in Hlen; discriminate].
        -- exists []. split; auto. apply in_map_iff. exists (length l1). split.
           ++ apply (velems_nil _ _ _ _ _ Hs).
              assert (Hw : exists l1' lm' l2', L = l1' ++ lm' ++ l2' /\ length l1' = length l1 /\
                                               Forall2 (fun (c : vpred) x => c x) (c0 :: cs0) lm')
                by (exists l1, lm, l2; auto).
              apply window_iff in Hw as [Hw _]. exact Hw.
           ++ apply in_seq. pose proof (Forall2_len _ _ _ H0) as E0. simpl in E0.
              assert (length L = length l1 + (length lm + length l2))
                by (rewrite E, !app_length; reflexivity). lia.
  - (* head *)
    rewrite (velems_nil _ _ _ _ _ Hs). simpl skipn. apply head_iff.
  - (* tail *)
    rewrite (velems_nil _ _ _ _ _ Hs). fold mf in Hlm. rewrite <- Hlm, Hlen. split.
    + intros H0. pose proof (Forall2_len _ _ _ H0) as E0. rewrite firstn_length, skipn_length in E0.
      exists (firstn (length l - length mc) l), (skipn (length l - length mc) l).
      split; [symmetry; apply firstn_skipn|].
      rewrite firstn_all2 in H0; [exact H0 | rewrite skipn_length; lia].
    + intros (l1 & lm & -> & H0). pose proof (Forall2_len _ _ _ H0) as E0.
      rewrite app_length, E0, Nat.add_sub, skipn_app, skipn_all, Nat.sub_diag. simpl.
      rewrite firstn_all. exact H0.
  - (* exact *)
    assert (Hfs : length fs = length mc).
    { rewrite <- Hlen, Hlm, (exact_middle _ Ecl). reflexivity. }
    rewrite app_nil_iff, (velems_nil _ _ _ _ _ Hs), extras_nil, Hfs. simpl skipn. split.
    + intros [H0 H1]. pose proof (Forall2_len _ _ _ H0) as E0. rewrite firstn_length in E0.
      rewrite firstn_all2 in H0 by lia. exact H0.
    + intros H0. pose proof (Forall2_len _ _ _ H0) as E0. rewrite E0, firstn_all, Nat.sub_diag. split; auto.
Qed.

(* ---- option_map commutes with the shape functions ---- *)
Lemma tl_map {A B} (f : A -> B) l : tl (map f l) = map f (tl l).
Proof. destruct l; reflexivity. Qed.
Lemma removelast_map {A B} (f : A -> B) l : removelast (map f l) = map f (removelast l).
Proof.
  induction l as [|a r IH]; simpl; auto. destruct r; simpl in *; [reflexivity|]. rewrite IH. reflexivity.
Qed.
Lemma first_ell_map {A B} (f : A -> B) l : first_ell (map (option_map f) l) = first_ell l.
Proof. destruct l as [|[?|] ?]; reflexivity. Qed.
Lemma last_ell_map {A B} (f : A -> B) l : last_ell (map (option_map f) l) = last_ell l.
Proof. unfold last_ell. rewrite <- map_rev. apply (first_ell_map f (rev l)). Qed.
Lemma classify_map {A B} (f : A -> B) l : classify (map (option_map f) l) = classify l.
Proof. unfold classify. rewrite map_length, first_ell_map, last_ell_map. reflexivity. Qed.
Lemma middle_map {A B} (f : A -> B) l :
  middle (map (option_map f) l) = map (option_map f) (middle l).
Proof.
  unfold middle. rewrite classify_map.
  destruct (classify l); rewrite ?tl_map, ?removelast_map; reflexivity.
Qed.
Lemma all_some_map {A B} (f : A -> B) l :
  forallb is_some (map (option_map f) l) = forallb is_some l.
Proof. induction l as [|[?|] r IH]; simpl; auto. Qed.
Lemma elems_wf_map {A B} (f : A -> B) l : elems_wf (map (option_map f) l) = elems_wf l.
Proof. unfold elems_wf. rewrite middle_map, all_some_map. reflexivity. Qed.

(* ---- typed lists ---- *)
Lemma typed_logic_plain_iff f c p l :
  okf f c -> (typed_logic Plain f p l = [] <-> Forall c l).
Proof.
  intros Hf. unfold typed_logic. rewrite flat_map_nil_iff, !Forall_forall. split.
  - intros H x Hx. destruct (enumerate_In l x Hx) as (i & Hi).
    specialize (H _ Hi). simpl in H. apply Hf in H. exact H.
  - intros H [i x] Hin. simpl. apply Hf. apply H. eapply enumerate_In_r; eauto.
Qed.

(* ---- dicts ---- *)
Definition relfd (f : key * (option elemfn * bool)) (c : key * (option vpred * bool)) : Prop :=
  fst f = fst c /\ snd (snd f) = snd (snd c) /\ relf (fst (snd f)) (fst (snd c)).

Lemma relfd_declared fs cs k : Forall2 relfd fs cs -> declared k fs = declared k cs.
Proof.
  induction 1 as [|f c fs cs (Hk & _) H IH]; simpl; auto. rewrite Hk, IH. reflexivity.
Qed.

Lemma is_kell_false k : is_kell k = false <-> k <> KEll.
Proof. destruct k; simpl; split; auto; try discriminate; congruence. Qed.

Lemma dict_members_iff fs cs p d :
  Forall2 relfd fs cs ->
  (dict_members Plain fs p d = [] <->
   forall k c opt, In (k, (c, opt)) cs -> k <> KEll ->
      match assoc k d with
      | Some x => opt_holds c (fun c => c x)
      | None => opt = true
      end).
Proof.
  intros H. unfold dict_members. rewrite flat_map_nil_iff.
  induction H as [|[k [f o]] [k' [c o']] fs cs (Hk & Ho & Hr) H IH]; simpl in *.
  - split; [intros _ ? ? ? [] | constructor].
  - subst k' o'. split.
    + intros HF. inversion HF as [|? ? Hhd Htl]; subst.
      intros k0 c0 opt0 [E|Hin] Hne.
      * inversion E; subst k0 c0 opt0. apply is_kell_false in Hne. rewrite Hne in Hhd.
        destruct (assoc k d) as [x|].
        -- destruct f as [f|], c as [c|]; simpl in *; try contradiction; auto. exact (proj1 (Hr _ _) Hhd).
        -- destruct o; [reflexivity | discriminate].
      * apply (proj1 IH Htl k0 c0 opt0 Hin Hne).
    + intros Hall. constructor.
      * destruct (is_kell k) eqn:Ek; [reflexivity|]. apply is_kell_false in Ek.
        specialize (Hall k c o (or_introl eq_refl) Ek).
        destruct (assoc k d) as [x|].
        -- destruct f as [f|], c as [c|]; simpl in *; try contradiction; auto. exact (proj2 (Hr _ _) Hall).
        -- subst o. reflexivity.
      * apply IH. intros k0 c0 opt0 Hin Hne. apply (Hall k0 c0 opt0 (or_intror Hin) Hne).
Qed.

Lemma dict_extras_iff {A} (fs : list (key * A)) p d :
  dict_extras fs p d = [] <->
  (declared KEll fs = false -> forall k x, In (k, x) d -> declared k fs = true).
Proof.
  unfold dict_extras. destruct (declared KEll fs).
  - split; auto. intros _ H; discriminate.
  - rewrite flat_map_nil_iff, Forall_forall. split.
    + intros H _ k x Hin. specialize (H _ Hin). simpl in H.
      destruct (declared k fs); [reflexivity | discriminate].
    + intros H [k x] Hin. simpl. rewrite (H eq_refl k x Hin). reflexivity.
Qed.

Lemma dict_logic_iff fs cs p d :
  Forall2 relfd fs cs -> (dict_logic Plain fs p d = [] <-> dict_spec cs d).
Proof.
  intros H. unfold dict_logic, dict_spec.
  rewrite app_nil_iff, (dict_members_iff _ _ _ _ H), dict_extras_iff.
  rewrite (relfd_declared _ _ KEll H).
  split; intros [H1 H2]; split; auto; intros Hk k x Hin.
  - rewrite <- (relfd_declared _ _ k H). eapply H2; eauto.
  - rewrite (relfd_declared _ _ k H). eapply H2; eauto.
Qed.

(* ---- any ---- *)
Lemma any_logic_iff ts fs (cs : list Prop) p v :
  Forall2 (fun f c => f p v = [] <-> c) fs cs ->
  (any_logic ts fs p v = [] <-> fold_right (fun c acc => c \/ acc) False cs).
Proof.
  intros H. unfold any_logic, elemfn in *.
  assert (E : existsb (fun f : path -> value -> list verror => match f p v with [] => true | _ => false end) fs = true <->
              fold_right (fun c acc => c \/ acc) False cs).
  { induction H as [|f c fs cs Hfc H IH]; simpl; [split; [discriminate | tauto]|].
    rewrite orb_true_iff, IH, <- Hfc. destruct (f p v); split; intros [H0|H0]; auto; discriminate. }
  destruct (existsb (fun f : path -> value -> list verror => match f p v with [] => true | _ => false end) fs) eqn:Ex.
  - split; auto. intros _. apply E. reflexivity.
  - split; [discriminate|]. intros H0. apply E in H0. discriminate.
Qed.
