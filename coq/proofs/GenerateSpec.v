(* C01: for every hereditarily satisfiable schema and every tape, the generator returns a
   value and that value conforms (equivalently: validates with zero errors). *)
From Coq Require Import PrimFloat Permutation.
Require Import D42.Prelude D42.PyFloat D42.Value D42.Regex D42.Schema D42.Validate D42.Conforms
               D42.PyRandom D42.RegexGen D42.ReSupported D42.Generate D42.Sat.
Require Import D42Gen.GenConsts.
Require Import D42P.ListLemmas D42P.ScalarSpec D42P.ValueLemmas D42P.ContainerSpec D42P.ValidateSpec
               D42P.FromNativeSpec D42P.SubstLemmas D42P.SubstNarrows D42P.RandomSpec D42P.GenerateScalar D42P.RegexGenSpec D42P.RegexGenMatch D42P.RegexGenTotal.
Open Scope Z_scope.

Definition gsound (w : world) (s : schema) : Prop := returns (gen w s) (conforms s).

(* ---- str with a pattern ---- *)
Lemma g_str_pattern_sound w src p :
  world_ok w -> re_modelled p = true -> re_total p = true ->
  returns (g_str w None None None None None None (Some (src, p)))
          (conforms (SStr None None None None None None (Some (src, p)))).
Proof.
  intros [_ Hperm] Hmod Htot. unfold g_str.
  eapply returns_bind with (P := fun s => searchb p s = Some true).
  - intros t. destruct (gen_re_total _ (w_perm w) Hperm p Htot t) as (s & t' & E & _).
    exists s, t'. split; auto.
    eapply (regen_validates_lemma (w_perm w)); eauto. apply default_alphabets_ok.
  - intros s Hs. apply returns_ret. exists s. cbn. unfold len_ok. cbn. repeat split; auto.
Qed.

(* ---- element lists ---- *)
Lemma strip_tl_first {A} (l : list (option A)) : first_ell l = true -> strip (tl l) = strip l.
Proof. destruct l as [|[a|] r]; simpl; auto; discriminate. Qed.

Lemma strip_app {A} (a b : list (option A)) : strip (a ++ b) = strip a ++ strip b.
Proof. unfold strip. apply flat_map_app. Qed.

Lemma strip_removelast_last {A} (l : list (option A)) :
  last_ell l = true -> strip (removelast l) = strip l.
Proof.
  unfold last_ell. intros H. destruct (rev l) as [|[a|] r] eqn:E; try discriminate.
  assert (El : l = rev r ++ [None]) by (rewrite <- (rev_involutive l), E; reflexivity).
  rewrite El, removelast_last, strip_app. simpl. rewrite app_nil_r. reflexivity.
Qed.

Lemma last_ell_cons {A} (o : option A) r : r <> [] -> last_ell (o :: r) = last_ell r.
Proof.
  intros Hr. unfold last_ell. simpl. destruct (rev r) as [|x xs] eqn:E.
  - apply (f_equal (@rev _)) in E. rewrite rev_involutive in E. simpl in E. congruence.
  - reflexivity.
Qed.

Lemma classify_cases {A} (es : list (option A)) :
  match classify es with
  | FBody => first_ell es = true /\ last_ell es = true /\ (2 < length es)%nat
  | FHead => last_ell es = true
  | FTail => first_ell es = true
  | FExact => True end.
Proof.
  unfold classify.
  destruct ((2 <? length es)%nat && first_ell es && last_ell es) eqn:E1.
  - apply andb_true_iff in E1 as [E1 E3]. apply andb_true_iff in E1 as [E0 E2].
    apply Nat.ltb_lt in E0. auto.
  - destruct ((2 <=? length es)%nat && last_ell es) eqn:E2.
    + apply andb_true_iff in E2. tauto.
    + destruct ((1 <=? length es)%nat && first_ell es) eqn:E3; auto.
      apply andb_true_iff in E3. tauto.
Qed.

Lemma strip_middle {A} (es : list (option A)) : strip (middle es) = strip es.
Proof.
  pose proof (classify_cases es) as H. unfold middle. destruct (classify es).
  - destruct H as (H1 & H2 & H3). rewrite strip_removelast_last, strip_tl_first; auto.
    destruct es as [|o r]; simpl in *; [lia|].
    rewrite <- (last_ell_cons o r); auto. intros ->. simpl in H3. lia.
  - apply strip_removelast_last; auto.
  - apply strip_tl_first; auto.
  - reflexivity.
Qed.

Definition marks (es : list (option schema)) : list (option unit) :=
  map (fun o => match o with Some _ => Some tt | None => None end) es.

Lemma marks_first es : first_ell (marks es) = first_ell es.
Proof. destruct es as [|[e|] r]; reflexivity. Qed.

Lemma last_opt_rev {A} (l : list A) :
  last_opt l = match rev l with [] => None | x :: _ => Some x end.
Proof.
  induction l as [|a r IH]; [reflexivity|]. destruct r as [|b r'].
  - reflexivity.
  - change (last_opt (a :: b :: r')) with (last_opt (b :: r')). rewrite IH.
    change (rev (a :: b :: r')) with (rev (b :: r') ++ [a]).
    destruct (rev (b :: r')) as [|x xs] eqn:E; [|reflexivity].
    apply (f_equal (@rev _)) in E. rewrite rev_involutive in E. discriminate.
Qed.

Lemma last_opt_marks es :
  match last_opt (marks es) with
  | None => es = []
  | Some None => last_ell es = true
  | Some (Some _) => last_ell es = false end.
Proof.
  rewrite last_opt_rev. unfold marks, last_ell. rewrite <- map_rev.
  destruct (rev es) as [|[e|] r] eqn:E; simpl; auto.
  apply (f_equal (@rev _)) in E. rewrite rev_involutive in E. exact E.
Qed.

Lemma strip_map {A B} (f : A -> B) l : strip (map (option_map f) l) = map f (strip l).
Proof. induction l as [|[a|] r IH]; simpl; congruence. Qed.

Lemma Forall2_map_l {A B C} (f : A -> C) (R : C -> B -> Prop) l1 l2 :
  Forall2 (fun a b => R (f a) b) l1 l2 -> Forall2 R (map f l1) l2.
Proof. induction 1; simpl; constructor; auto. Qed.

Lemma list_spec_pad es vals pre post :
  Forall2 (fun e v => conforms e v) (strip es) vals ->
  match classify es with
  | FBody => True | FHead => pre = [] | FTail => post = [] | FExact => pre = [] /\ post = [] end ->
  list_spec (map cfo es) (pre ++ vals ++ post).
Proof.
  intros Hv Hc. change (map cfo es) with (map (option_map conforms) es).
  unfold list_spec. rewrite classify_map, middle_map, strip_map, strip_middle.
  assert (Hf : Forall2 (fun (c : vpred) x => c x) (map conforms (strip es)) vals)
    by (apply Forall2_map_l; exact Hv).
  destruct (classify es).
  - exists pre, vals, post. auto.
  - subst pre. exists vals, post. auto.
  - subst post. rewrite app_nil_r. exists pre, vals. auto.
  - destruct Hc as [-> ->]. simpl. rewrite app_nil_r. exact Hf.
Qed.

Lemma list_spec_vals es vals :
  Forall2 (fun e v => conforms e v) (strip es) vals -> list_spec (map cfo es) vals.
Proof.
  intros Hv. pose proof (list_spec_pad es vals [] [] Hv) as H. simpl in H. rewrite app_nil_r in H.
  apply H. destruct (classify es); auto.
Qed.

Lemma list_spec_post es vals post :
  Forall2 (fun e v => conforms e v) (strip es) vals ->
  (classify es = FBody \/ classify es = FHead) -> list_spec (map cfo es) (vals ++ post).
Proof.
  intros Hv Hc. apply (list_spec_pad es vals [] post Hv). destruct Hc as [-> | ->]; auto.
Qed.

Lemma list_spec_pre es vals pre :
  Forall2 (fun e v => conforms e v) (strip es) vals ->
  (classify es = FBody \/ classify es = FTail) -> list_spec (map cfo es) (pre ++ vals).
Proof.
  intros Hv Hc. pose proof (list_spec_pad es vals pre [] Hv) as H. rewrite app_nil_r in H.
  apply H. destruct Hc as [-> | ->]; auto.
Qed.

Lemma exact_no_marks {A} (es : list (option A)) :
  classify es = FExact -> elems_wf es = true -> first_ell es = false /\ last_ell es = false.
Proof.
  intros Hc Hw. unfold elems_wf in Hw. rewrite (exact_middle _ Hc) in Hw. split.
  - destruct es as [|[a|] r]; simpl in *; auto; discriminate.
  - unfold last_ell. destruct (rev es) as [|[a|] r] eqn:E; auto.
    assert (Hin : In None es) by (apply in_rev; rewrite E; left; reflexivity).
    rewrite forallb_forall in Hw. specialize (Hw _ Hin). discriminate.
Qed.

Lemma pad_spec es len mnl mxl vals :
  Forall2 (fun e v => conforms e v) (strip es) vals ->
  elems_wf es = true ->
  len_ok (padded_len es (pad_target len mnl)) len mnl mxl ->
  exists r, pad_elements (marks es) (pad_target len mnl) vals = Ok r /\ len_ok (zlen r) len mnl mxl /\
            list_spec (map cfo es) r.
Proof.
  intros Hv Hw Hl. remember (pad_target len mnl) as tgt eqn:Et.
  assert (Hn : zlen vals = zlen (strip es)) by (unfold zlen; rewrite (Forall2_len _ _ _ Hv); reflexivity).
  pose proof (classify_cases es) as Hcc. pose proof (last_opt_marks es) as Hlast.
  assert (Hplain : len_ok (zlen vals) len mnl mxl -> 
                   exists r, Ok vals = Ok r /\ len_ok (zlen r) len mnl mxl /\ list_spec (map cfo es) r).
  { intros H. exists vals. split; [reflexivity|]. split; [exact H|]. apply list_spec_vals; exact Hv. }
  unfold pad_elements. unfold padded_len in Hl. rewrite <- Hn in Hl.
  destruct tgt as [k|]; [|apply Hplain; exact Hl].
  destruct (zlen vals <? iz k) eqn:En; [|simpl in Hl; apply Hplain; exact Hl].
  apply Z.ltb_lt in En. simpl in Hl.
  set (padding := repeat VNone (Z.to_nat (iz k - zlen vals))).
  assert (Hpl : zlen padding = iz k - zlen vals).
  { unfold padding. unfold zlen in *. rewrite repeat_length. lia. }
  assert (Hpv : zlen (padding ++ vals) = iz k) by (unfold zlen in *; rewrite app_length; lia).
  assert (Hvp : zlen (vals ++ padding) = iz k) by (unfold zlen in *; rewrite app_length; lia).
  destruct (last_opt (marks es)) as [[u|]|].
  - (* last element is a schema *)
    rewrite Hlast, orb_false_r in Hl.
    pose proof (marks_first es) as Hmf.
    destruct (marks es) as [|[u0|] mr] eqn:Em.
    + rewrite <- Hmf in Hl. simpl in Hl. exists vals. split; [reflexivity|]. split; [exact Hl|].
      apply list_spec_vals; exact Hv.
    + rewrite <- Hmf in Hl. simpl in Hl. exists vals. split; [reflexivity|]. split; [exact Hl|].
      apply list_spec_vals; exact Hv.
    + assert (Hf : first_ell es = true) by (rewrite <- Hmf; reflexivity).
      rewrite Hf in Hl. exists (padding ++ vals). split; auto. split.
      * rewrite Hpv. exact Hl.
      * apply list_spec_pre; auto.
        destruct (classify es) eqn:Ec; auto.
        -- congruence.
        -- destruct (exact_no_marks _ Ec Hw). congruence.
  - (* last element is ... *)
    rewrite Hlast, orb_true_r in Hl. exists (vals ++ padding). split; auto. split.
    + rewrite Hvp. exact Hl.
    + destruct (classify es) eqn:Ec.
      * apply list_spec_post; auto.
      * apply list_spec_post; auto.
      * (* tail form with a trailing marker: the list is [...] *)
        assert (Hes : strip es = []).
        { unfold classify in Ec. rewrite Hlast, Hcc in Ec. rewrite !andb_true_r in Ec.
          destruct (2 <? length es)%nat eqn:E2; [discriminate|].
          destruct (2 <=? length es)%nat eqn:E3; [discriminate|].
          apply Nat.leb_gt in E3. destruct es as [|o [|o2 r]]; simpl in *; try lia; auto.
          destruct o; [discriminate | reflexivity]. }
        rewrite Hes in Hv. inversion Hv; subst. simpl.
        rewrite <- (app_nil_r padding). apply list_spec_pre; [rewrite Hes; constructor | auto].
      * destruct (exact_no_marks _ Ec Hw). congruence.
  - (* no elements at all: nothing to pad (the code raises IndexError on elements[-1] only when
       a target exceeds 0 = the number of values) *)
    exfalso. unfold pad_target in Et. subst es. cbn [first_ell last_ell rev orb] in Hl. destruct Hl as (H1 & H2 & _).
    destruct len as [k0|].
    + inversion Et; subst. unfold opt_holds in H1. lia.
    + subst mnl. unfold opt_holds in H2. lia.
Qed.

(* ---- generating the concrete elements, in order ---- *)
Lemma gen_elements w es :
  Forall (fun o => forall e, o = Some e -> gsound w e) es ->
  returns (msequence (strip_m (map (fun o => match o with
                                             | Some e => Some (gen w e)
                                             | None => None end) es)))
          (fun vals => Forall2 (fun e v => conforms e v) (strip es) vals).
Proof.
  induction 1 as [|o es Ho _ IH]; simpl.
  - apply returns_ret. constructor.
  - destruct o as [e|]; simpl; [|exact IH].
    eapply returns_bind; [apply (Ho e eq_refl)|]. intros v Hv.
    eapply returns_bind; [exact IH|]. intros vals Hvals. apply returns_ret. constructor; auto.
Qed.

Lemma g_list_length_sound len mnl mxl :
  sat_list_len len mnl mxl ->
  returns (g_list_length len mnl mxl)
          (fun lf => 0 <= fst lf /\ len_ok (fst lf) len mnl mxl /\
                     (snd lf = false -> len = None /\ mnl = None /\ mxl = None)).
Proof.
  intros Hs. unfold g_list_length, sat_list_len in *. destruct len as [k|].
  - destruct Hs as [H0 H1]. apply returns_ret. simpl. split; [exact H0|]. split; [exact H1|].
    intros Hf; discriminate.
  - cbv zeta in Hs. destruct Hs as [H0 H1].
    eapply returns_bind; [apply returns_randint; exact H1|]. intros n Hn. cbv beta in Hn.
    apply returns_ret. simpl. split; [lia|]. split.
    + unfold len_ok, opt_iz in *. cbn. repeat split; auto.
      * destruct mnl; cbn in *; auto. lia.
      * destruct mxl; cbn in *; auto. lia.
    + destruct mnl, mxl; simpl; intros; try discriminate; auto.
Qed.

(* ---- dict members ---- *)
Definition required (e : dentry) : bool := negb (is_kell (de_key e)) && negb (de_opt e).

Definition member_ok (e : dentry) (kv : key * value) : Prop :=
  fst kv = de_key e /\ exists sch, de_schema e = Some sch /\ conforms sch (snd kv).

Lemma gen_members w ents :
  Forall (fun e => required e = true -> exists sch, de_schema e = Some sch /\ gsound w sch) ents ->
  returns (msequence
             (strip_m (map (fun e : dentry =>
                              if is_kell (de_key e) then None
                              else if de_opt e then None
                              else match de_schema e with
                                   | Some sch => Some (dom v <- gen w sch; ret (de_key e, v))
                                   | None => Some (mraise AttributeError) end) ents)))
          (fun kvs => Forall2 member_ok (filter required ents) kvs).
Proof.
  induction 1 as [|e ents He _ IH]; simpl.
  - apply returns_ret. constructor.
  - unfold required at 1 in He. unfold required at 1.
    destruct (is_kell (de_key e)); simpl; [exact IH|].
    destruct (de_opt e); simpl; [exact IH|].
    destruct (He eq_refl) as (sch & Hs & Hg). rewrite Hs. simpl.
    eapply returns_bind with (P := member_ok e).
    + eapply returns_bind; [exact Hg|]. intros v Hv. apply returns_ret.
      split; [reflexivity|]. exists sch. auto.
    + intros kv Hkv. eapply returns_bind; [exact IH|]. intros kvs Hkvs. apply returns_ret.
      constructor; auto.
Qed.

Lemma NoDup_map_filter {A B} (f : A -> B) (p : A -> bool) l :
  NoDup (map f l) -> NoDup (map f (filter p l)).
Proof.
  induction l as [|a l IH]; simpl; intros H; [constructor|].
  inversion H; subst. destruct (p a); simpl; auto. constructor; auto.
  intros Hin. apply H2. apply in_map_iff in Hin as (x & Hx & Hin). apply filter_In in Hin as [Hin _].
  apply in_map_iff. exists x. auto.
Qed.

Lemma NoDup_map_inj {A B} (f : A -> B) l a b :
  NoDup (map f l) -> In a l -> In b l -> f a = f b -> a = b.
Proof.
  induction l as [|x l IH]; simpl; intros Hnd Ha Hb E; [contradiction|].
  inversion Hnd; subst. destruct Ha as [->|Ha], Hb as [->|Hb]; auto.
  - exfalso. apply H1. rewrite E. apply in_map. exact Hb.
  - exfalso. apply H1. rewrite <- E. apply in_map. exact Ha.
Qed.

Lemma members_keys ents kvs :
  Forall2 member_ok ents kvs -> map fst kvs = map de_key ents.
Proof. induction 1 as [|e kv ? ? [H _] _ IH]; simpl; congruence. Qed.

Lemma dict_members_conform ents kvs :
  NoDup (map de_key ents) ->
  Forall2 member_ok (filter required ents) kvs ->
  dict_spec (dcs ents) kvs.
Proof.
  intros Hnd Hm.
  pose proof (members_keys _ _ Hm) as Hk.
  assert (Hndk : NoDup (map fst kvs)) by (rewrite Hk; apply NoDup_map_filter; exact Hnd).
  split.
  - intros k c opt Hin Hne. unfold dcs in Hin. apply in_map_iff in Hin as (e & E & Hin).
    inversion E; subst; clear E.
    destruct (required e) eqn:Er.
    + assert (Hf : In e (filter required ents)) by (apply filter_In; auto).
      destruct (Forall2_In_l _ _ _ _ Hm Hf) as (kv & Hkv & Hfst & sch & Hs & Hc).
      destruct kv as [k' x]. simpl in *. subst k'.
      rewrite (assoc_NoDup_In _ _ _ Hndk Hkv), Hs. simpl. exact Hc.
    + destruct (assoc (de_key e) kvs) as [x|] eqn:Ea.
      * exfalso. apply assoc_In in Ea. apply (in_map fst) in Ea. simpl in Ea. rewrite Hk in Ea.
        apply in_map_iff in Ea as (e' & He' & Hin'). apply filter_In in Hin' as [Hin' Hr'].
        assert (e' = e) by (eapply NoDup_map_inj; eauto). subst. congruence.
      * unfold required in Er. apply andb_false_iff in Er as [Er|Er].
        -- apply negb_false_iff in Er. destruct (de_key e); simpl in Er; try discriminate. congruence.
        -- apply negb_false_iff in Er. exact Er.
  - intros _ k x Hin. apply declared_In. rewrite dcs_keys.
    apply (in_map fst) in Hin. simpl in Hin. rewrite Hk in Hin.
    apply in_map_iff in Hin as (e & <- & Hin). apply filter_In in Hin as [Hin _].
    apply in_map. exact Hin.
Qed.

Lemma date_eqb_refl d : isinst TDate d = true -> py_eqb d d = true.
Proof.
  destruct d; simpl; try discriminate; intros _.
  - rewrite Bool.eqb_reflx, Z.eqb_refl. reflexivity.
  - apply Z.eqb_refl.
Qed.

Lemma fold_and_Forall {A} (P : A -> Prop) l :
  fold_right (fun c acc => c /\ acc) True (map P l) <-> Forall P l.
Proof.
  induction l as [|a r IH]; simpl.
  - split; auto.
  - rewrite IH. split; [intros [H1 H2]; auto | intros H; inversion H; auto].
Qed.

(* ---- the theorem ---- *)
Theorem gen_sound_lemma w :
  world_ok w -> forall s, wf s = true -> sat w s -> gsound w s.
Proof.
  intros Hw.
  induction s as [ | val | val mn mx | val mn mx pr | val len mnl mxl al sub pat
                 | es ty len mnl mxl IHes IHty | ks IHks | ts IHts
                 | val | val | val | val | nm t IHt | t IHt ] using schema_ind';
    intros Hwf Hsat; unfold gsound; cbn [gen].
  - apply returns_ret. reflexivity.
  - destruct val as [b|].
    + apply returns_ret. exists b. cbn. auto.
    + eapply returns_bind; [apply returns_choice; discriminate|]. intros b _.
      apply returns_ret. exists b. cbn. auto.
  - apply g_int_sound. exact Hsat.
  - apply g_float_sound. exact Hsat.
  - (* str *)
    cbn [sat] in Hsat. destruct val as [x|].
    + unfold g_str. apply returns_ret. exact Hsat.
    + destruct pat as [[src p]|].
      * cbn [sat_str] in Hsat. destruct Hsat as (-> & -> & -> & -> & -> & Htot).
        apply g_str_pattern_sound; auto.
      * apply g_str_plain_sound. exact Hsat.
  - (* list *)
    cbn [sat] in Hsat. cbn [wf] in Hwf. apply andb_true_iff in Hwf as [Hwes Hwty].
    destruct es as [es'|].
    + destruct Hsat as (-> & Hlen & Hmem).
      apply andb_true_iff in Hwes as [Hew Hwm]. apply forallb_id_map' in Hwm.
      apply fold_and_Forall in Hmem.
      specialize (IHes es' eq_refl).
      eapply returns_bind.
      * apply gen_elements. clear - IHes Hwm Hmem.
        induction IHes as [|o r Ho _ IH]; constructor.
        -- inversion Hwm; inversion Hmem; subst. intros e ->. apply (Ho e eq_refl); auto.
        -- apply IH; [inversion Hwm | inversion Hmem]; auto.
      * intros vals Hvals.
        destruct (pad_spec es' len mnl mxl vals Hvals Hew Hlen) as (r & Hr & Hlr & Hspec).
        fold (marks es'). rewrite Hr. eapply returns_bind; [apply (returns_mlift _ r (fun x => x = r)); auto|].
        intros r0 ->. apply returns_ret. exists r. split; auto.
    + destruct Hsat as [Hlen Hty].
      eapply returns_bind; [apply g_list_length_sound; exact Hlen|].
      intros [n specified] (Hn0 & Hnl & Hspec). simpl in *.
      destruct ty as [t|].
      * specialize (IHty t eq_refl Hwty Hty).
        eapply returns_bind; [apply returns_repeat; exact IHty|]. intros vals [Hl Hall].
        apply returns_ret. exists vals. split; auto. split; auto.
        unfold zlen. rewrite Hl. replace (Z.of_nat (Z.to_nat n)) with n by lia. exact Hnl.
      * destruct specified.
        -- apply returns_ret. eexists. split; [reflexivity|]. split; auto.
           unfold zlen. rewrite repeat_length. replace (Z.of_nat (Z.to_nat n)) with n by lia. exact Hnl.
        -- destruct (Hspec eq_refl) as (-> & -> & ->). apply returns_ret. exists [].
           split; [reflexivity|]. split; [unfold len_ok; cbn; auto | exact I].
  - (* dict *)
    destruct ks as [ents|].
    + cbn [sat] in Hsat. apply fold_and_Forall in Hsat. cbn [wf] in Hwf.
      apply andb_true_iff in Hwf as [Hwf Hwm]. apply andb_true_iff in Hwf as [_ Hnd].
      apply forallb_id_map' in Hwm. apply nodup_keys_NoDup in Hnd.
      specialize (IHks ents eq_refl).
      eapply returns_bind.
      * apply gen_members. clear - IHks Hwm Hsat.
        induction IHks as [|e r He _ IH]; constructor.
        -- inversion Hwm; inversion Hsat; subst. intros Hr. unfold required in Hr.
           apply andb_true_iff in Hr as [Hr1 Hr2]. apply negb_true_iff in Hr1, Hr2.
           rewrite Hr1, Hr2 in H5. simpl in H5.
           destruct (de_schema e) as [sch|] eqn:Es; [|contradiction].
           exists sch. split; [reflexivity|]. apply (He sch eq_refl); auto.
        -- apply IH; [inversion Hwm | inversion Hsat]; auto.
      * intros kvs Hkvs. apply returns_ret. exists kvs. split; auto.
        apply (dict_members_conform ents kvs Hnd Hkvs).
    + apply returns_ret. exists []. split; auto.
  - (* any *)
    destruct ts as [ts'|].
    + cbn [sat] in Hsat. destruct Hsat as [Hne Hall]. apply fold_and_Forall in Hall.
      cbn [wf] in Hwf. apply forallb_id_map' in Hwf. specialize (IHts ts' eq_refl).
      eapply returns_bind with (P := fun g => exists t, In t ts' /\ g = gen w t).
      * eapply returns_weaken; [apply returns_choice|].
        -- destruct ts'; [congruence | discriminate].
        -- intros g Hg. apply in_map_iff in Hg as (t & <- & Ht). eauto.
      * intros g (t & Ht & ->). rewrite Forall_forall in IHts, Hwf, Hall.
        eapply returns_weaken; [apply (IHts t Ht (Hwf t Ht) (Hall t Ht))|].
        intros v Hv. cbn [conforms]. apply fold_or_Exists. apply Exists_exists. eauto.
    + apply returns_ret. exact I.
  - apply g_bytes_sound.
  - (* uuid *)
    apply returns_ret. cbn [sat] in Hsat. destruct val as [n|]; cbn in *.
    + exists n. auto.
    + exists (w_uuid w). destruct Hw as [H4 _]. apply uuid_is_v4_iff in H4. auto.
  - apply returns_ret. destruct val as [[a us]|]; [exists a, us | exists false, (w_now w)]; cbn; auto.
  - (* date *)
    cbn [sat] in Hsat. destruct val as [d|]; cbn in Hsat.
    + apply returns_ret. split; auto. cbn. apply date_eqb_refl. exact Hsat.
    + eapply returns_bind; [apply returns_randint; lia|]. intros days _. apply returns_ret.
      split; reflexivity.
  - apply IHt; auto.
  - apply IHt; auto.
Qed.
