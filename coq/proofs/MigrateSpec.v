(* Proofs about the model of rewrite_imports (theories/Migrate.v) and the regenerated
   tables (generated/GenMapping.v, generated/GenExports.v).  Statements of record are
   restated in props/C19.v. *)
Require Import D42.Prelude D42.Migrate.
Require Import D42Gen.GenMapping D42Gen.GenExports.
From Coq Require Import Permutation.
Open Scope nat_scope.

(* ------------------------------------------------------------------ boolean equalities *)
Lemma list_eqb_eq {A} (eqb : A -> A -> bool) :
  (forall x y, eqb x y = true -> x = y) -> forall a b, list_eqb eqb a b = true -> a = b.
Proof.
  intros H a. induction a as [|x a IH]; intros [|y b] E; simpl in E; try discriminate; auto.
  apply andb_true_iff in E. destruct E as [E1 E2]. f_equal; auto.
Qed.

Lemma list_eqb_refl {A} (eqb : A -> A -> bool) :
  (forall x, eqb x x = true) -> forall a, list_eqb eqb a a = true.
Proof. intros H a. induction a as [|x a IH]; simpl; auto. rewrite H, IH. reflexivity. Qed.

Lemma str_eqb_eq a b : str_eqb a b = true -> a = b.
Proof. apply list_eqb_eq. intros x y E. apply N.eqb_eq. exact E. Qed.

Lemma str_eqb_refl a : str_eqb a a = true.
Proof. apply list_eqb_refl. apply N.eqb_refl. Qed.

Lemma option_eqb_eq {A} (eqb : A -> A -> bool) :
  (forall x y, eqb x y = true -> x = y) -> forall a b, option_eqb eqb a b = true -> a = b.
Proof. intros H [x|] [y|] E; simpl in E; try discriminate; auto. f_equal. auto. Qed.

Lemma alias_eqb_eq a b : alias_eqb a b = true -> a = b.
Proof.
  destruct a as [n1 a1], b as [n2 a2]. unfold alias_eqb. simpl. intros E.
  apply andb_true_iff in E. destruct E as [E1 E2].
  apply str_eqb_eq in E1. apply (option_eqb_eq _ str_eqb_eq) in E2. congruence.
Qed.

Lemma stmt_eqb_eq a b : stmt_eqb a b = true -> a = b.
Proof.
  destruct a as [l m ns|i], b as [l' m' ns'|j]; simpl; intros E; try discriminate.
  - apply andb_true_iff in E. destruct E as [E E3]. apply andb_true_iff in E. destruct E as [E1 E2].
    apply Nat.eqb_eq in E1. apply (option_eqb_eq _ str_eqb_eq) in E2.
    apply (list_eqb_eq _ alias_eqb_eq) in E3. congruence.
  - apply N.eqb_eq in E. congruence.
Qed.

(* ------------------------------------------------------------------ the tables *)
Lemma assoc_In {B} k (l : list (pystr * B)) v : assoc k l = Some v -> In (k, v) l.
Proof.
  induction l as [|[k' v'] l IH]; simpl; intros E; try discriminate.
  destruct (str_eqb k k') eqn:K.
  - apply str_eqb_eq in K. inversion E. subst. left. reflexivity.
  - right. auto.
Qed.

Lemma lookup2_In mp m n t : lookup2 mp (Some m) n = Some t -> In (m, n, t) (flat_mapping mp).
Proof.
  unfold lookup2, flat_mapping. destruct (assoc m mp) as [d|] eqn:A; try discriminate.
  intros E. apply assoc_In in A. apply assoc_In in E.
  apply in_flat_map. exists (m, d). split; auto.
  apply in_map_iff. exists (n, t). split; auto.
Qed.

Definition entry := (pystr * pystr * (pystr * pystr))%type.

Definition targets_ok (ex : exports_t) (pkg : pystr) (mp : mapping_t) : bool :=
  forallb (fun e : entry => target_exported ex e && in_package pkg (fst (snd e))) (flat_mapping mp).

Lemma targets_ok_spec ex pkg mp : targets_ok ex pkg mp = true ->
  forall m n m' n', In (m, n, (m', n')) (flat_mapping mp) ->
    in_package pkg m' = true /\ exists names, In (m', (true, names)) ex /\ In n' names.
Proof.
  intros H m n m' n' HI. unfold targets_ok in H.
  rewrite forallb_forall in H. specialize (H _ HI). cbn [target_exported fst snd] in H.
  apply andb_true_iff in H. destruct H as [H1 H2]. split; [exact H2|].
  destruct (assoc m' ex) as [[[|] names]|] eqn:A; try discriminate.
  exists names. split.
  - apply assoc_In. exact A.
  - apply existsb_exists in H1. destruct H1 as [x [Hx E]]. apply str_eqb_eq in E. subst. exact Hx.
Qed.

Lemma gen_mapping_error_none : gen_mapping_error = None.
Proof. vm_compute. reflexivity. Qed.

Lemma mapping_targets_exported_lemma :
  forall m n m' n', In (m, n, (m', n')) (flat_mapping gen_mapping) ->
    in_package gen_package m' = true /\
    exists names, In (m', (true, names)) gen_exports /\ In n' names.
Proof. apply targets_ok_spec. vm_compute. reflexivity. Qed.

Lemma keeps_names_spec mp : forallb keeps_name (flat_mapping mp) = true ->
  forall m n m' n', In (m, n, (m', n')) (flat_mapping mp) -> n' = n.
Proof.
  intros H m n m' n' HI. rewrite forallb_forall in H. specialize (H _ HI).
  cbn [keeps_name] in H. apply str_eqb_eq in H. auto.
Qed.

Lemma mapping_keeps_names_lemma :
  forall m n m' n', In (m, n, (m', n')) (flat_mapping gen_mapping) -> n' = n.
Proof. apply keeps_names_spec. vm_compute. reflexivity. Qed.

(* no mapped name is "*" and no target module is itself a v1 module of the table *)
Definition entry_sane (mp : mapping_t) (e : entry) : bool :=
  let '(_, n, (nm, _)) := e in
  negb (str_eqb n [42%N]) && match assoc nm mp with None => true | Some _ => false end.

Lemma entries_sane_spec mp : forallb (entry_sane mp) (flat_mapping mp) = true ->
  forall m n m' n', In (m, n, (m', n')) (flat_mapping mp) -> n <> [42%N] /\ assoc m' mp = None.
Proof.
  intros H m n m' n' HI. rewrite forallb_forall in H. specialize (H _ HI).
  cbn [entry_sane] in H. apply andb_true_iff in H. destruct H as [H1 H2]. split.
  - intros ->. rewrite str_eqb_refl in H1. discriminate.
  - destruct (assoc m' mp); [discriminate | reflexivity].
Qed.

Lemma entries_sane :
  forall m n m' n', In (m, n, (m', n')) (flat_mapping gen_mapping) ->
    n <> [42%N] /\ assoc m' gen_mapping = None.
Proof. apply entries_sane_spec. vm_compute. reflexivity. Qed.

Lemma star_unmapped_lemma : forall m, lookup2 gen_mapping m [42%N] = None.
Proof.
  intros [m|]; [|reflexivity].
  destruct (lookup2 gen_mapping (Some m) [42%N]) as [[m' n']|] eqn:E; [|reflexivity].
  apply lookup2_In in E. apply entries_sane in E. destruct E as [E _]. congruence.
Qed.

(* ------------------------------------------------------------------ one ImportFrom *)
Definition group_bindings (g : list (pystr * list alias)) : list (pystr * (option pystr * pystr)) :=
  flat_map (fun g => map (fun a : alias => (local_name a, (Some (fst g), fst a))) (snd g)) g.

Definition plain_bindings (m : option pystr) (u : list alias) :=
  map (fun a : alias => (local_name a, (m, fst a))) u.

Lemma dd_add_perm k v d :
  Permutation (group_bindings (dd_add k v d)) ((local_name v, (Some k, fst v)) :: group_bindings d).
Proof.
  induction d as [|[k' vs] d IH]; simpl.
  - apply Permutation_refl.
  - destruct (str_eqb k k') eqn:K.
    + apply str_eqb_eq in K. subst k'. simpl. rewrite map_app. simpl.
      rewrite <- app_assoc. simpl. apply Permutation_sym. apply Permutation_middle.
    + simpl. eapply Permutation_trans.
      * apply Permutation_app_head. exact IH.
      * apply Permutation_sym. apply Permutation_middle.
Qed.

Lemma bindings_rewrite_import mp m ns :
  bindings (rewrite_import mp m ns) =
  let acc := fold_left (rw_step mp m) ns ([], []) in
  group_bindings (fst acc) ++ plain_bindings m (snd acc).
Proof.
  unfold rewrite_import, bindings. cbv zeta.
  destruct (fold_left (rw_step mp m) ns ([], [])) as [g u]. simpl fst. simpl snd.
  rewrite flat_map_app. f_equal.
  - unfold group_bindings. induction g as [|[k vs] g IH]; simpl; auto. rewrite IH. reflexivity.
  - destruct u; simpl; auto. rewrite app_nil_r. reflexivity.
Qed.

(* the local name bound by the alias written for a mapped name *)
Definition written_binding (mp : mapping_t) (m : option pystr) (a : alias)
  : pystr * (option pystr * pystr) :=
  match lookup2 mp m (fst a) with
  | Some (nm, nn) => (local_name (nn, snd a), (Some nm, nn))
  | None => (local_name a, (m, fst a))
  end.

Lemma fold_step_perm mp m ns : forall acc,
  Permutation
    (let acc' := fold_left (rw_step mp m) ns acc in group_bindings (fst acc') ++ plain_bindings m (snd acc'))
    (group_bindings (fst acc) ++ plain_bindings m (snd acc) ++ map (written_binding mp m) ns).
Proof.
  induction ns as [|a ns IH]; intros [g u]; simpl.
  - rewrite app_nil_r. apply Permutation_refl.
  - eapply Permutation_trans; [apply IH|].
    unfold rw_step, written_binding. simpl fst. simpl snd.
    destruct (lookup2 mp m (fst a)) as [[nm nn]|]; simpl fst; simpl snd.
    + eapply Permutation_trans.
      * apply Permutation_app_tail. apply dd_add_perm.
      * simpl. apply Permutation_sym.
        rewrite app_assoc. eapply Permutation_trans; [apply Permutation_sym; apply Permutation_middle|].
        rewrite <- app_assoc. apply Permutation_refl.
    + unfold plain_bindings. rewrite map_app. simpl. rewrite <- app_assoc. simpl.
      apply Permutation_refl.
Qed.

Lemma written_expected mp m a :
  (forall n nm nn, lookup2 mp m n = Some (nm, nn) -> nn = n) ->
  written_binding mp m a = expected_binding mp m a.
Proof.
  intros K. unfold written_binding, expected_binding.
  destruct (lookup2 mp m (fst a)) as [[nm nn]|] eqn:E; auto.
  apply K in E. subst nn. destruct a as [n [x|]]; reflexivity.
Qed.

Lemma rewrite_import_binds_same_lemma mp m ns :
  (forall n nm nn, lookup2 mp m n = Some (nm, nn) -> nn = n) ->
  Permutation (bindings (rewrite_import mp m ns)) (map (expected_binding mp m) ns).
Proof.
  intros K. rewrite bindings_rewrite_import.
  eapply Permutation_trans; [apply (fold_step_perm mp m ns ([], []))|]. simpl.
  rewrite (map_ext _ _ (fun a => written_expected mp m a K)). apply Permutation_refl.
Qed.

Lemma rewrite_import_all_absolute mp m ns :
  Forall (fun s => rewritten s = true) (rewrite_import mp m ns).
Proof.
  unfold rewrite_import. apply Forall_app. split.
  - apply Forall_forall. intros s Hs. apply in_map_iff in Hs. destruct Hs as [g [<- _]]. reflexivity.
  - destruct (snd (fold_left (rw_step mp m) ns ([], []))); constructor; auto.
Qed.

(* ------------------------------------------------------------------ the line splice *)
(* what the splices amount to when no line is shared: the line holding the first piece of a
   rewritten import becomes the replacement lines, its other lines disappear, every other
   physical line stays *)
Definition fwd_line (mp : mapping_t) (l : line) : list line :=
  match l with
  | [Frag s k n] =>
      if rewritten s then (if k =? 0 then map stmt_line (rewrite_stmt mp s) else []) else [l]
  | _ => [l]
  end.
Definition fwd (mp : mapping_t) (ls : list line) : list line := flat_map (fwd_line mp) ls.

Definition st_rewritten (st : pstate) : bool :=
  match st with Some (s, _, _, _) => rewritten s | None => false end.

Lemma replacements_app mp a b : replacements mp (a ++ b) = replacements mp a ++ replacements mp b.
Proof. unfold replacements. apply flat_map_app. Qed.

Lemma replacements_cons mp it its :
  replacements mp (it :: its) = replacements mp [it] ++ replacements mp its.
Proof. apply (replacements_app mp [it] its). Qed.

Lemma replacements_plain mp s a b : rewritten s = false -> replacements mp [(s, a, b)] = [].
Proof. destruct s as [[|l] m ns|i]; simpl; intros H; try discriminate; reflexivity. Qed.

Lemma replacements_rewritten mp s a b : rewritten s = true ->
  replacements mp [(s, a, b)] = [(a, b, map stmt_line (rewrite_stmt mp s))].
Proof. destruct s as [[|l] m ns|i]; simpl; intros H; try discriminate; reflexivity. Qed.

Local Arguments Nat.eqb : simpl never.
Local Arguments Nat.leb : simpl never.

Lemma eat_frags_plain mp : forall l i its st',
  existsb frag_rewritten l = false -> eat_frags i l = Some (its, st') ->
  replacements mp its = [] /\ st_rewritten st' = false.
Proof.
  induction l as [|[s k n] l IH]; intros i its st' HP HE; simpl in HE.
  - inversion HE. subst. split; reflexivity.
  - simpl in HP. apply orb_false_iff in HP. destruct HP as [Hs HP].
    destruct (k =? 0); try discriminate.
    destruct (n =? 1).
    + destruct (eat_frags i l) as [[its0 st0]|] eqn:E0; simpl in HE; try discriminate.
      inversion HE. subst. destruct (IH _ _ _ HP E0) as [R1 R2]. split; auto.
      unfold prepend. simpl fst. rewrite replacements_cons, R1, (replacements_plain mp s i i Hs).
      reflexivity.
    + destruct (2 <=? n); try discriminate. destruct l; try discriminate.
      inversion HE. subst. split; [reflexivity | exact Hs].
Qed.

Lemma eat_line_plain mp i st l its st' :
  st_rewritten st = false -> existsb frag_rewritten l = false ->
  eat_line i st l = Some (its, st') ->
  replacements mp its = [] /\ st_rewritten st' = false.
Proof.
  intros Hst HP HE. destruct st as [[[[s0 a] k0] n0]|]; simpl in HE.
  - destruct l as [|[s k n] l]; try discriminate.
    simpl in HP. apply orb_false_iff in HP. destruct HP as [Hs HP].
    destruct (stmt_eqb s s0 && (k =? k0) && (n =? n0)); try discriminate.
    destruct (S k0 =? n0).
    + destruct (eat_frags i l) as [[its0 st0]|] eqn:E0; simpl in HE; try discriminate.
      inversion HE. subst. destruct (eat_frags_plain mp _ _ _ _ HP E0) as [R1 R2]. split; auto.
      unfold prepend. simpl fst. rewrite replacements_cons, R1.
      simpl in Hst. rewrite (replacements_plain mp s0 a i Hst). reflexivity.
    + destruct l; try discriminate. inversion HE. subst. split; [reflexivity | exact Hst].
  - eapply eat_frags_plain; eauto.
Qed.

Lemma fwd_line_plain mp l : existsb frag_rewritten l = false -> fwd_line mp l = [l].
Proof.
  destruct l as [|[s k n] [|f l]]; simpl; auto. intros H.
  apply orb_false_iff in H. destruct H as [H _]. rewrite H. reflexivity.
Qed.

(* a line holding a rewritten piece and nothing else *)
Lemma disjoint_line_shape (l : line) :
  existsb frag_rewritten l = true -> length l =? 1 = true ->
  exists s k n, l = [Frag s k n] /\ rewritten s = true.
Proof.
  destruct l as [|[s k n] [|f l]]; simpl; intros H1 H2; try discriminate.
  exists s, k, n. split; auto. rewrite orb_false_r in H1. exact H1.
Qed.

Lemma firstn_le_app {A} a (X Y : list A) : a <= length X -> firstn a (X ++ Y) = firstn a X.
Proof.
  intros H. rewrite firstn_app. replace (a - length X) with 0 by lia.
  simpl. apply app_nil_r.
Qed.

Lemma firstn_len_app {A} (X Y : list A) : firstn (length X) (X ++ Y) = X.
Proof. rewrite firstn_app, Nat.sub_diag, firstn_all. simpl. apply app_nil_r. Qed.

Lemma skipn_len_app {A} (X Y : list A) : skipn (length X) (X ++ Y) = Y.
Proof. rewrite skipn_app, Nat.sub_diag, skipn_all. reflexivity. Qed.

Definition expected_out (mp : mapping_t) (st : pstate) (pre ls : list line) : list line :=
  match st with
  | Some (s, a, _, _) =>
      if rewritten s then firstn a pre ++ map stmt_line (rewrite_stmt mp s) ++ fwd mp ls
      else pre ++ fwd mp ls
  | None => pre ++ fwd mp ls
  end.

Definition st_inv (st : pstate) (i : nat) : Prop :=
  match st with
  | Some (s, a, k, _) => rewritten s = true -> a <= i /\ k <> 0
  | None => True
  end.

Lemma expected_out_plain mp st pre ls :
  st_rewritten st = false -> expected_out mp st pre ls = pre ++ fwd mp ls.
Proof. destruct st as [[[[s a] k] n]|]; simpl; auto. intros ->. reflexivity. Qed.

Lemma apply_fwd mp : forall ls i st items pre,
  parse_lines i st ls = Some items -> line_disjoint ls = true -> length pre = i -> st_inv st i ->
  apply_replacements (replacements mp items) (pre ++ ls) = expected_out mp st pre ls.
Proof.
  induction ls as [|l ls IH]; intros i st items pre HP HD HL HI.
  - simpl in HP. destruct st; try discriminate. inversion HP. subst. reflexivity.
  - simpl in HP. destruct (eat_line i st l) as [[its st1]|] eqn:EL; try discriminate.
    destruct (parse_lines (S i) st1 ls) as [rest|] eqn:PR; try discriminate.
    inversion HP. subst items. clear HP.
    simpl in HD. apply andb_true_iff in HD. destruct HD as [HDl HD].
    assert (HL' : length (pre ++ [l]) = S i) by (rewrite app_length; simpl; lia).
    replace (pre ++ l :: ls) with ((pre ++ [l]) ++ ls) by (rewrite <- app_assoc; reflexivity).
    rewrite replacements_app.
    destruct (st_rewritten st) eqn:SR.
    + (* inside a rewritten import *)
      destruct st as [[[[s0 a] k0] n0]|]; simpl in SR; try discriminate.
      destruct (HI SR) as [Ha Hk].
      simpl in EL. destruct l as [|[s k n] l']; try discriminate.
      destruct (stmt_eqb s s0 && (k =? k0) && (n =? n0)) eqn:T; try discriminate.
      apply andb_true_iff in T. destruct T as [T T3]. apply andb_true_iff in T. destruct T as [T1 T2].
      apply stmt_eqb_eq in T1. apply Nat.eqb_eq in T2. apply Nat.eqb_eq in T3. subst s k n.
      assert (l' = []) as ->.
      { simpl in HDl. rewrite SR in HDl. simpl in HDl. destruct l'; [reflexivity | discriminate]. }
      assert (FL : fwd_line mp [Frag s0 k0 n0] = []).
      { simpl. rewrite SR. destruct k0; [congruence | reflexivity]. }
      destruct (S k0 =? n0).
      * simpl in EL. inversion EL. subst its st1. clear EL.
        rewrite (replacements_rewritten mp s0 a i SR). simpl app.
        unfold apply_replacements in *. simpl fold_right.
        rewrite (IH (S i) None rest (pre ++ [Frag s0 k0 n0]) PR HD HL' I).
        simpl expected_out. rewrite SR. unfold splice.
        rewrite <- app_assoc. rewrite firstn_le_app by lia.
        replace (Nat.max a (S i)) with (length (pre ++ [[Frag s0 k0 n0]])) by lia.
        rewrite app_assoc. rewrite skipn_len_app.
        unfold fwd at 2. simpl flat_map. rewrite FL. reflexivity.
      * inversion EL. subst its st1. clear EL. simpl app.
        assert (HI1 : st_inv (Some (s0, a, S k0, n0)) (S i)) by (simpl; intros _; split; lia).
        rewrite (IH (S i) _ rest (pre ++ [[Frag s0 k0 n0]]) PR HD HL' HI1).
        simpl expected_out. rewrite SR. rewrite firstn_le_app by lia.
        unfold fwd at 2. simpl flat_map. rewrite FL. reflexivity.
    + rewrite (expected_out_plain mp st pre (l :: ls) SR).
      destruct (existsb frag_rewritten l) eqn:XR.
      * (* the first line of a rewritten import *)
        simpl in HDl. destruct (disjoint_line_shape l XR HDl) as [s [k [n [-> Hs]]]].
        destruct st as [[[[s0 a0] k0] n0]|].
        { exfalso. simpl in EL. simpl in SR.
          destruct (stmt_eqb s s0) eqn:T1; simpl in EL; try discriminate.
          apply stmt_eqb_eq in T1. congruence. }
        simpl in EL. destruct (k =? 0) eqn:K0; try discriminate.
        apply Nat.eqb_eq in K0. subst k.
        assert (FL : fwd_line mp [Frag s 0 n] = map stmt_line (rewrite_stmt mp s)).
        { simpl. rewrite Hs. reflexivity. }
        destruct (n =? 1) eqn:N1.
        -- simpl in EL. inversion EL. subst its st1. clear EL.
           rewrite (replacements_rewritten mp s i i Hs). simpl app.
           unfold apply_replacements in *. simpl fold_right.
           rewrite (IH (S i) None rest (pre ++ [[Frag s 0 n]]) PR HD HL' I).
           simpl expected_out. unfold splice.
           rewrite <- app_assoc. subst i. rewrite firstn_len_app.
           replace (Nat.max (length pre) (S (length pre))) with (length (pre ++ [[Frag s 0 n]]))
             by (rewrite app_length; simpl; lia).
           rewrite app_assoc. rewrite skipn_len_app.
           unfold fwd at 2. simpl flat_map. rewrite FL. reflexivity.
        -- destruct (2 <=? n); try discriminate. inversion EL. subst its st1. clear EL. simpl app.
           assert (HI1 : st_inv (Some (s, i, 1, n)) (S i)) by (simpl; intros _; split; lia).
           rewrite (IH (S i) _ rest (pre ++ [[Frag s 0 n]]) PR HD HL' HI1).
           simpl expected_out. rewrite Hs. subst i. rewrite firstn_len_app.
           unfold fwd at 2. simpl flat_map. rewrite FL. reflexivity.
      * (* a line without any piece of a rewritten import *)
        destruct (eat_line_plain mp i st l its st1 SR XR EL) as [R1 R2].
        rewrite R1. simpl app.
        assert (HI1 : st_inv st1 (S i)).
        { destruct st1 as [[[[s1 a1] k1] n1]|]; simpl; auto. simpl in R2. congruence. }
        rewrite (IH (S i) st1 rest (pre ++ [l]) PR HD HL' HI1).
        rewrite (expected_out_plain mp st1 _ _ R2).
        unfold fwd at 2. simpl flat_map. rewrite (fwd_line_plain mp l XR).
        rewrite <- app_assoc. reflexivity.
Qed.
