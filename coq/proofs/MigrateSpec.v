(* Proofs about the model of rewrite_imports (theories/Migrate.v): the regenerated tables
   and the replacement of one from-import (the line splice is in MigrateSplice.v); tables (generated/GenMapping.v, generated/GenExports.v).  Statements of record are
   restated in props/C19.v. *)
Require Import D42.Prelude D42.Migrate.
Require Import D42Gen.GenMapping D42Gen.GenExports.
From Coq Require Import Permutation.
Open Scope nat_scope.

(* ------------------------------------------------------------------ boolean equalities *)
Lemma list_eqb_eq {A} (eqb : A -> A -> bool) :
  (forall x y, eqb x y = true -> x = y) -> forall a b, list_eqb eqb a b = true -> a = b.
Proof.
  intros H a. induction a as [|x a IH]; intros [|y b] E; simpl in E; try discriminate; auto.
  apply andb_true_iff in E. destruct E as [E1 E2]. f_equal; auto.
Qed.

Lemma list_eqb_refl {A} (eqb : A -> A -> bool) :
  (forall x, eqb x x = true) -> forall a, list_eqb eqb a a = true.
Proof. intros H a. induction a as [|x a IH]; simpl; auto. rewrite H, IH. reflexivity. Qed.

Lemma str_eqb_eq a b : str_eqb a b = true -> a = b.
Proof. apply list_eqb_eq. intros x y E. apply N.eqb_eq. exact E. Qed.

Lemma str_eqb_refl a : str_eqb a a = true.
Proof. apply list_eqb_refl. apply N.eqb_refl. Qed.

Lemma option_eqb_eq {A} (eqb : A -> A -> bool) :
  (forall x y, eqb x y = true -> x = y) -> forall a b, option_eqb eqb a b = true -> a = b.
Proof. intros H [x|] [y|] E; simpl in E; try discriminate; auto. f_equal. auto. Qed.

Lemma alias_eqb_eq a b : alias_eqb a b = true -> a = b.
Proof.
  destruct a as [n1 a1], b as [n2 a2]. unfold alias_eqb. simpl. intros E.
  apply andb_true_iff in E. destruct E as [E1 E2].
  apply str_eqb_eq in E1. apply (option_eqb_eq _ str_eqb_eq) in E2. congruence.
Qed.

Lemma stmt_eqb_eq a b : stmt_eqb a b = true -> a = b.
Proof.
  destruct a as [l m ns|i], b as [l' m' ns'|j]; simpl; intros E; try discriminate.
  - apply andb_true_iff in E. destruct E as [E E3]. apply andb_true_iff in E. destruct E as [E1 E2].
    apply Nat.eqb_eq in E1. apply (option_eqb_eq _ str_eqb_eq) in E2.
    apply (list_eqb_eq _ alias_eqb_eq) in E3. congruence.
  - apply N.eqb_eq in E. congruence.
Qed.

(* ------------------------------------------------------------------ the tables *)
Lemma assoc_In {B} k (l : list (pystr * B)) v : assoc k l = Some v -> In (k, v) l.
Proof.
  induction l as [|[k' v'] l IH]; simpl; intros E; try discriminate.
  destruct (str_eqb k k') eqn:K.
  - apply str_eqb_eq in K. inversion E. subst. left. reflexivity.
  - right. auto.
Qed.

Lemma lookup2_In mp m n t : lookup2 mp (Some m) n = Some t -> In (m, n, t) (flat_mapping mp).
Proof.
  unfold lookup2, flat_mapping. destruct (assoc m mp) as [d|] eqn:A; try discriminate.
  intros E. apply assoc_In in A. apply assoc_In in E.
  apply in_flat_map. exists (m, d). split; auto.
  apply in_map_iff. exists (n, t). split; auto.
Qed.

Definition entry := (pystr * pystr * (pystr * pystr))%type.

Definition targets_ok (ex : exports_t) (pkg : pystr) (mp : mapping_t) : bool :=
  forallb (fun e : entry => target_exported ex e && in_package pkg (fst (snd e))) (flat_mapping mp).

Lemma targets_ok_spec ex pkg mp : targets_ok ex pkg mp = true ->
  forall m n m' n', In (m, n, (m', n')) (flat_mapping mp) ->
    in_package pkg m' = true /\ exists names, In (m', (true, names)) ex /\ In n' names.
Proof.
  intros H m n m' n' HI. unfold targets_ok in H.
  rewrite forallb_forall in H. specialize (H _ HI). cbn [target_exported fst snd] in H.
  apply andb_true_iff in H. destruct H as [H1 H2]. split; [exact H2|].
  destruct (assoc m' ex) as [[[|] names]|] eqn:A; try discriminate.
  exists names. split.
  - apply assoc_In. exact A.
  - apply existsb_exists in H1. destruct H1 as [x [Hx E]]. apply str_eqb_eq in E. subst. exact Hx.
Qed.

Lemma gen_mapping_error_none : gen_mapping_error = None.
Proof. vm_compute. reflexivity. Qed.

Lemma mapping_targets_exported_lemma :
  forall m n m' n', In (m, n, (m', n')) (flat_mapping gen_mapping) ->
    in_package gen_package m' = true /\
    exists names, In (m', (true, names)) gen_exports /\ In n' names.
Proof. apply targets_ok_spec. vm_compute. reflexivity. Qed.

Lemma keeps_names_spec mp : forallb keeps_name (flat_mapping mp) = true ->
  forall m n m' n', In (m, n, (m', n')) (flat_mapping mp) -> n' = n.
Proof.
  intros H m n m' n' HI. rewrite forallb_forall in H. specialize (H _ HI).
  cbn [keeps_name] in H. apply str_eqb_eq in H. auto.
Qed.

Lemma mapping_keeps_names_lemma :
  forall m n m' n', In (m, n, (m', n')) (flat_mapping gen_mapping) -> n' = n.
Proof. apply keeps_names_spec. vm_compute. reflexivity. Qed.

(* no mapped name is "*" and no target module is itself a v1 module of the table *)
Definition entry_sane (mp : mapping_t) (e : entry) : bool :=
  let '(_, n, (nm, _)) := e in
  negb (str_eqb n [42%N]) && match assoc nm mp with None => true | Some _ => false end.

Lemma entries_sane_spec mp : forallb (entry_sane mp) (flat_mapping mp) = true ->
  forall m n m' n', In (m, n, (m', n')) (flat_mapping mp) -> n <> [42%N] /\ assoc m' mp = None.
Proof.
  intros H m n m' n' HI. rewrite forallb_forall in H. specialize (H _ HI).
  cbn [entry_sane] in H. apply andb_true_iff in H. destruct H as [H1 H2]. split.
  - intros ->. rewrite str_eqb_refl in H1. discriminate.
  - destruct (assoc m' mp); [discriminate | reflexivity].
Qed.

Lemma entries_sane :
  forall m n m' n', In (m, n, (m', n')) (flat_mapping gen_mapping) ->
    n <> [42%N] /\ assoc m' gen_mapping = None.
Proof. apply entries_sane_spec. vm_compute. reflexivity. Qed.

Lemma star_unmapped_lemma : forall m, lookup2 gen_mapping m [42%N] = None.
Proof.
  intros [m|]; [|reflexivity].
  destruct (lookup2 gen_mapping (Some m) [42%N]) as [[m' n']|] eqn:E; [|reflexivity].
  apply lookup2_In in E. apply entries_sane in E. destruct E as [E _]. congruence.
Qed.

(* ------------------------------------------------------------------ one ImportFrom *)
Definition group_bindings (g : list (pystr * list alias)) : list (pystr * (option pystr * pystr)) :=
  flat_map (fun g => map (fun a : alias => (local_name a, (Some (fst g), fst a))) (snd g)) g.

Definition plain_bindings (m : option pystr) (u : list alias) :=
  map (fun a : alias => (local_name a, (m, fst a))) u.

Lemma dd_add_perm k v d :
  Permutation (group_bindings (dd_add k v d)) ((local_name v, (Some k, fst v)) :: group_bindings d).
Proof.
  induction d as [|[k' vs] d IH]; simpl.
  - apply Permutation_refl.
  - destruct (str_eqb k k') eqn:K.
    + apply str_eqb_eq in K. subst k'. simpl. rewrite map_app. simpl.
      rewrite <- app_assoc. simpl. apply Permutation_sym. apply Permutation_middle.
    + simpl. eapply Permutation_trans.
      * apply Permutation_app_head. exact IH.
      * apply Permutation_sym. apply Permutation_middle.
Qed.

Lemma bindings_rewrite_import mp m ns :
  bindings (rewrite_import mp m ns) =
  let acc := fold_left (rw_step mp m) ns ([], []) in
  group_bindings (fst acc) ++ plain_bindings m (snd acc).
Proof.
  unfold rewrite_import, bindings. cbv zeta.
  destruct (fold_left (rw_step mp m) ns ([], [])) as [g u]. simpl fst. simpl snd.
  rewrite flat_map_app. f_equal.
  - unfold group_bindings. induction g as [|[k vs] g IH]; simpl; auto. rewrite IH. reflexivity.
  - destruct u; simpl; auto. rewrite app_nil_r. reflexivity.
Qed.

(* the local name bound by the alias written for a mapped name *)
Definition written_binding (mp : mapping_t) (m : option pystr) (a : alias)
  : pystr * (option pystr * pystr) :=
  match lookup2 mp m (fst a) with
  | Some (nm, nn) => (local_name (nn, snd a), (Some nm, nn))
  | None => (local_name a, (m, fst a))
  end.

Lemma fold_step_perm mp m ns : forall acc,
  Permutation
    (let acc' := fold_left (rw_step mp m) ns acc in group_bindings (fst acc') ++ plain_bindings m (snd acc'))
    (group_bindings (fst acc) ++ plain_bindings m (snd acc) ++ map (written_binding mp m) ns).
Proof.
  induction ns as [|a ns IH]; intros [g u]; simpl.
  - rewrite app_nil_r. apply Permutation_refl.
  - eapply Permutation_trans; [apply IH|].
    unfold rw_step, written_binding. simpl fst. simpl snd.
    destruct (lookup2 mp m (fst a)) as [[nm nn]|]; simpl fst; simpl snd.
    + eapply Permutation_trans.
      * apply Permutation_app_tail. apply dd_add_perm.
      * simpl. apply Permutation_sym.
        rewrite app_assoc. eapply Permutation_trans; [apply Permutation_sym; apply Permutation_middle|].
        rewrite <- app_assoc. apply Permutation_refl.
    + unfold plain_bindings. rewrite map_app. simpl. rewrite <- app_assoc. simpl.
      apply Permutation_refl.
Qed.

Lemma written_expected mp m a :
  (forall n nm nn, lookup2 mp m n = Some (nm, nn) -> nn = n) ->
  written_binding mp m a = expected_binding mp m a.
Proof.
  intros K. unfold written_binding, expected_binding.
  destruct (lookup2 mp m (fst a)) as [[nm nn]|] eqn:E; auto.
  apply K in E. subst nn. destruct a as [n [x|]]; reflexivity.
Qed.

Lemma rewrite_import_binds_same_lemma mp m ns :
  (forall n nm nn, lookup2 mp m n = Some (nm, nn) -> nn = n) ->
  Permutation (bindings (rewrite_import mp m ns)) (map (expected_binding mp m) ns).
Proof.
  intros K. rewrite bindings_rewrite_import.
  eapply Permutation_trans; [apply (fold_step_perm mp m ns ([], []))|]. simpl.
  rewrite (map_ext _ _ (fun a => written_expected mp m a K)). apply Permutation_refl.
Qed.

Lemma rewrite_import_all_absolute mp m ns :
  Forall (fun s => rewritten s = true) (rewrite_import mp m ns).
Proof.
  unfold rewrite_import. apply Forall_app. split.
  - apply Forall_forall. intros s Hs. apply in_map_iff in Hs. destruct Hs as [g [<- _]]. reflexivity.
  - destruct (snd (fold_left (rw_step mp m) ns ([], []))); constructor; auto.
Qed.

Lemma rewrite_import_binds_same_full :
  forall (mp : mapping_t) (m : option pystr) (ns : list alias),
    (forall n nm nn, lookup2 mp m n = Some (nm, nn) -> nn = n) ->
    Permutation (bindings (rewrite_import mp m ns)) (map (expected_binding mp m) ns) /\
    Forall (fun s => rewritten s = true) (rewrite_import mp m ns).
Proof.
  intros mp m ns K. split.
  - exact (rewrite_import_binds_same_lemma mp m ns K).
  - exact (rewrite_import_all_absolute mp m ns).
Qed.

(* ------------------------------------------------------------------ on the regenerated table *)
Lemma gen_keeps m : forall n nm nn, lookup2 gen_mapping m n = Some (nm, nn) -> nn = n.
Proof.
  intros n nm nn E. destruct m as [m|]; [|discriminate].
  apply lookup2_In in E. apply mapping_keeps_names_lemma in E. exact E.
Qed.

Lemma rewrite_import_binds_same_gen m ns :
  Permutation (bindings (rewrite_import gen_mapping m ns)) (map (expected_binding gen_mapping m) ns).
Proof. apply rewrite_import_binds_same_lemma. apply gen_keeps. Qed.

Lemma mapped_name_importable_lemma m n m' n' :
  lookup2 gen_mapping (Some m) n = Some (m', n') ->
  in_package gen_package m' = true /\
  exists names, In (m', (true, names)) gen_exports /\ In n' names.
Proof. intros E. apply lookup2_In in E. eapply mapping_targets_exported_lemma. exact E. Qed.

(* ------------------------------------------------------------------ order per target module *)
Definition gnames (M : option pystr) (g : list (pystr * list alias)) : list alias :=
  flat_map (fun kv => sel M (Some (fst kv)) (snd kv)) g.

Lemma str_eqb_neq a b : str_eqb a b = false -> a <> b.
Proof. intros H ->. rewrite str_eqb_refl in H. discriminate. Qed.

Lemma opt_str_eqb_eq a b : option_eqb str_eqb a b = true -> a = b.
Proof. apply option_eqb_eq. apply str_eqb_eq. Qed.

Lemma gnames_notin M k g : M = Some k -> ~ In k (map fst g) -> gnames M g = [].
Proof.
  intros -> H. induction g as [|[k' vs] g IH]; simpl; auto.
  simpl in H. unfold sel at 1. simpl.
  destruct (str_eqb k k') eqn:E.
  - apply str_eqb_eq in E. subst. exfalso. apply H. left. reflexivity.
  - apply IH. intros X. apply H. right. exact X.
Qed.

Lemma dd_add_keys k v g x : In x (map fst (dd_add k v g)) -> x = k \/ In x (map fst g).
Proof.
  induction g as [|[k' vs] g IH]; simpl.
  - intros [<-|[]]. left. reflexivity.
  - destruct (str_eqb k k'); simpl; intros [<-|H]; auto.
    destruct (IH H); auto.
Qed.

Lemma dd_add_nodup k v g : NoDup (map fst g) -> NoDup (map fst (dd_add k v g)).
Proof.
  induction g as [|[k' vs] g IH]; simpl; intros H.
  - constructor; [intros [] | constructor].
  - inversion H as [|x l Hn Hd]. subst. destruct (str_eqb k k') eqn:E; simpl.
    + constructor; auto.
    + constructor; auto. intros X. apply dd_add_keys in X. destruct X as [->|X]; auto.
      rewrite str_eqb_refl in E. discriminate.
Qed.

Lemma gnames_dd_add M k v g : NoDup (map fst g) ->
  gnames M (dd_add k v g) = gnames M g ++ sel M (Some k) [v].
Proof.
  induction g as [|[k' vs] g IH]; simpl; intros H.
  - rewrite app_nil_r. reflexivity.
  - inversion H as [|x l Hn Hd]. subst. destruct (str_eqb k k') eqn:E; simpl.
    + apply str_eqb_eq in E. subst k'. unfold sel. simpl fst. simpl snd.
      destruct (option_eqb str_eqb M (Some k)) eqn:EM.
      * apply opt_str_eqb_eq in EM. rewrite (gnames_notin M k g EM Hn).
        rewrite !app_nil_r. reflexivity.
      * simpl. rewrite app_nil_r. reflexivity.
    + rewrite (IH Hd). rewrite app_assoc. reflexivity.
Qed.

Lemma names_from_groups M (g : list (pystr * list alias)) :
  names_from M (map (fun g => ImportFrom 0 (Some (fst g)) (snd g)) g) = gnames M g.
Proof. induction g as [|[k vs] g IH]; simpl; auto. rewrite IH. reflexivity. Qed.

Lemma fold_step_order mp m M ns :
  (forall n nm nn, lookup2 mp m n = Some (nm, nn) -> Some nm <> m) ->
  forall g u, NoDup (map fst g) ->
    NoDup (map fst (fst (fold_left (rw_step mp m) ns (g, u)))) /\
    gnames M (fst (fold_left (rw_step mp m) ns (g, u))) ++ sel M m (snd (fold_left (rw_step mp m) ns (g, u)))
    = gnames M g ++ sel M m u ++ flat_map (contrib mp m M) ns.
Proof.
  intros Side. induction ns as [|a ns IH]; intros g u ND.
  - simpl. split; auto. rewrite app_nil_r. reflexivity.
  - cbn [fold_left flat_map].
    assert (S : rw_step mp m (g, u) a =
                match lookup2 mp m (fst a) with
                | Some (nm, nn) => (dd_add nm (nn, snd a) g, u)
                | None => (g, u ++ [a])
                end).
    { unfold rw_step. simpl fst. simpl snd. destruct (lookup2 mp m (fst a)) as [[nm nn]|]; reflexivity. }
    rewrite S. clear S. unfold contrib at 1.
    destruct (lookup2 mp m (fst a)) as [[nm nn]|] eqn:L.
    + destruct (IH (dd_add nm (nn, snd a) g) u (dd_add_nodup _ _ _ ND)) as [N1 E1].
      split; [exact N1|]. rewrite E1. rewrite (gnames_dd_add M nm (nn, snd a) g ND).
      unfold sel. destruct (option_eqb str_eqb M (Some nm)) eqn:EM.
      * apply opt_str_eqb_eq in EM.
        assert (X : option_eqb str_eqb M m = false).
        { destruct (option_eqb str_eqb M m) eqn:Y; auto. apply opt_str_eqb_eq in Y.
          exfalso. apply (Side _ _ _ L). congruence. }
        rewrite X. simpl. rewrite <- app_assoc. reflexivity.
      * rewrite app_nil_r. reflexivity.
    + destruct (IH g (u ++ [a]) ND) as [N1 E1].
      split; [exact N1|]. rewrite E1.
      unfold sel. destruct (option_eqb str_eqb M m); simpl; auto.
      rewrite <- app_assoc. reflexivity.
Qed.

(* the names imported from each module M by the replacement statements are, in the original
   order, exactly the names whose target module is M *)
Lemma rewrite_import_order_lemma mp m ns M :
  (forall n nm nn, lookup2 mp m n = Some (nm, nn) -> Some nm <> m) ->
  names_from M (rewrite_import mp m ns) = flat_map (contrib mp m M) ns.
Proof.
  intros Side. unfold rewrite_import.
  destruct (fold_step_order mp m M ns Side [] [] (NoDup_nil _)) as [_ E]. simpl in E.
  destruct (fold_left (rw_step mp m) ns ([], [])) as [g u]. simpl fst in *. simpl snd in *.
  unfold names_from. rewrite flat_map_app. fold (names_from M (map (fun g0 => ImportFrom 0 (Some (fst g0)) (snd g0)) g)).
  assert (SN : sel M m [] = []) by (unfold sel; destruct (option_eqb str_eqb M m); reflexivity).
  rewrite SN in E. simpl in E. rewrite <- E. rewrite names_from_groups. f_equal.
  destruct u; simpl; [rewrite SN; reflexivity|]. rewrite app_nil_r. reflexivity.
Qed.

Lemma gen_targets_differ m : forall n nm nn, lookup2 gen_mapping m n = Some (nm, nn) -> Some nm <> m.
Proof.
  intros n nm nn E. destruct m as [m|]; [|discriminate].
  pose proof (lookup2_In _ _ _ _ E) as HI. apply entries_sane in HI. destruct HI as [_ HN].
  intros X. inversion X. subst nm.
  unfold lookup2 in E. rewrite HN in E. discriminate.
Qed.

Lemma rewrite_import_order_gen m ns M :
  names_from M (rewrite_import gen_mapping m ns) = flat_map (contrib gen_mapping m M) ns.
Proof. apply rewrite_import_order_lemma. apply gen_targets_differ. Qed.

(* ------------------------------------------------------------------ a second run is stable *)
Lemma fold_unmapped mp m ns : (forall a, In a ns -> lookup2 mp m (fst a) = None) ->
  forall g u, fold_left (rw_step mp m) ns (g, u) = (g, u ++ ns).
Proof.
  induction ns as [|a ns IH]; intros H g u; simpl.
  - rewrite app_nil_r. reflexivity.
  - unfold rw_step at 2. simpl fst. simpl snd. rewrite (H a (or_introl eq_refl)).
    rewrite IH by (intros x Hx; apply H; right; exact Hx).
    rewrite <- app_assoc. reflexivity.
Qed.

Lemma rewrite_import_unmapped mp m ns : (forall a, In a ns -> lookup2 mp m (fst a) = None) ->
  ns <> [] -> rewrite_import mp m ns = [ImportFrom 0 m ns].
Proof.
  intros H N. unfold rewrite_import. rewrite (fold_unmapped mp m ns H [] []). simpl.
  destruct ns; [congruence | reflexivity].
Qed.

Definition group_fixed (mp : mapping_t) (kv : pystr * list alias) : Prop :=
  assoc (fst kv) mp = None /\ snd kv <> [].

Lemma dd_add_fixed mp k v g : assoc k mp = None -> Forall (group_fixed mp) g ->
  Forall (group_fixed mp) (dd_add k v g).
Proof.
  intros K. induction g as [|[k' vs] g IH]; simpl; intros H.
  - constructor; [split; [exact K | discriminate] | constructor].
  - inversion H as [|x l HH H3]. subst. destruct HH as [H1 H2]. destruct (str_eqb k k').
    + constructor; auto. split; [exact H1|]. simpl. destruct vs; discriminate.
    + constructor; auto. split; auto.
Qed.

Lemma fold_fixed mp m ns :
  (forall n nm nn, lookup2 mp m n = Some (nm, nn) -> assoc nm mp = None) ->
  forall g u, Forall (group_fixed mp) g -> (forall a, In a u -> lookup2 mp m (fst a) = None) ->
    Forall (group_fixed mp) (fst (fold_left (rw_step mp m) ns (g, u))) /\
    (forall a, In a (snd (fold_left (rw_step mp m) ns (g, u))) -> lookup2 mp m (fst a) = None).
Proof.
  intros Side. induction ns as [|a ns IH]; intros g u HG HU; simpl; [split; assumption|].
  unfold rw_step at 2 4. simpl fst. simpl snd.
  destruct (lookup2 mp m (fst a)) as [[nm nn]|] eqn:L.
  - apply IH; auto. apply dd_add_fixed; auto. eapply Side. exact L.
  - apply IH; auto. intros x Hx. apply in_app_or in Hx. destruct Hx as [Hx|[<-|[]]]; auto.
Qed.

Lemma rewrite_twice_stable_lemma mp m ns :
  (forall n nm nn, lookup2 mp m n = Some (nm, nn) -> assoc nm mp = None) ->
  flat_map (rewrite_stmt mp) (rewrite_import mp m ns) = rewrite_import mp m ns.
Proof.
  intros Side. unfold rewrite_import.
  destruct (fold_fixed mp m ns Side [] [] (Forall_nil _) (fun a (H : In a []) => match H with end)) as [HG HU].
  cbv zeta. remember (fold_left (rw_step mp m) ns ([], [])) as acc eqn:EA. clear EA.
  destruct acc as [g u]. simpl fst in *. simpl snd in *.
  rewrite flat_map_app. f_equal.
  - induction g as [|[k vs] g IH]; simpl; auto.
    inversion HG as [|x l HH H3]. subst. destruct HH as [H1 H2]. simpl in H1, H2.
    rewrite (IH H3). rewrite rewrite_import_unmapped; auto.
    intros a _. unfold lookup2. rewrite H1. reflexivity.
  - destruct u as [|a u]; simpl; auto. rewrite app_nil_r.
    apply rewrite_import_unmapped; [exact HU | discriminate].
Qed.

Lemma rewrite_twice_stable_gen m ns :
  flat_map (rewrite_stmt gen_mapping) (rewrite_import gen_mapping m ns) = rewrite_import gen_mapping m ns.
Proof.
  apply rewrite_twice_stable_lemma. intros n nm nn E. destruct m as [m|]; [|discriminate].
  apply lookup2_In in E. apply entries_sane in E. apply E.
Qed.

Lemma rewrite_stmt_twice_gen s :
  flat_map (rewrite_stmt gen_mapping) (rewrite_stmt gen_mapping s) = rewrite_stmt gen_mapping s.
Proof.
  destruct s as [[|l] m ns|i]; simpl; try reflexivity. apply rewrite_twice_stable_gen.
Qed.

(* the replacement statements are well-formed: each names at least one name *)
Lemma dd_add_nonempty k v g : Forall (fun kv : pystr * list alias => snd kv <> []) g ->
  Forall (fun kv : pystr * list alias => snd kv <> []) (dd_add k v g).
Proof.
  induction g as [|[k' vs] g IH]; simpl; intros H.
  - constructor; [discriminate | constructor].
  - inversion H as [|x l H1 H2]. subst. destruct (str_eqb k k').
    + constructor; auto. simpl. destruct vs; discriminate.
    + constructor; auto.
Qed.

Lemma fold_nonempty mp m ns : forall g u,
  Forall (fun kv : pystr * list alias => snd kv <> []) g ->
  Forall (fun kv : pystr * list alias => snd kv <> []) (fst (fold_left (rw_step mp m) ns (g, u))).
Proof.
  induction ns as [|a ns IH]; intros g u H; simpl; auto.
  unfold rw_step at 2. simpl fst. simpl snd.
  destruct (lookup2 mp m (fst a)) as [[nm nn]|]; apply IH; auto. apply dd_add_nonempty. exact H.
Qed.

Lemma rewrite_import_wf mp m ns : Forall (fun s => stmt_wf s = true) (rewrite_import mp m ns).
Proof.
  unfold rewrite_import.
  pose proof (fold_nonempty mp m ns [] [] (Forall_nil _)) as H.
  destruct (fold_left (rw_step mp m) ns ([], [])) as [g u]. simpl fst in *. simpl snd in *.
  apply Forall_app. split.
  - induction g as [|[k vs] g IH]; simpl; constructor.
    + inversion H as [|x l H1 H2]. subst. simpl in H1. destruct vs; [congruence | reflexivity].
    + apply IH. inversion H. assumption.
  - destruct u; constructor; [reflexivity | constructor].
Qed.
