(* Proofs about the model of rewrite_imports (theories/Migrate.v) and the regenerated
   tables (generated/GenMapping.v, generated/GenExports.v).  Statements of record are
   restated in props/C19.v. *)
Require Import D42.Prelude D42.Migrate.
Require Import D42Gen.GenMapping D42Gen.GenExports.
From Coq Require Import Permutation.
Open Scope nat_scope.

(* ------------------------------------------------------------------ boolean equalities *)
Lemma list_eqb_eq {A} (eqb : A -> A -> bool) :
  (forall x y, eqb x y = true -> x = y) -> forall a b, list_eqb eqb a b = true -> a = b.
Proof.
  intros H a. induction a as [|x a IH]; intros [|y b] E; simpl in E; try discriminate; auto.
  apply andb_true_iff in E. destruct E as [E1 E2]. f_equal; auto.
Qed.

Lemma list_eqb_refl {A} (eqb : A -> A -> bool) :
  (forall x, eqb x x = true) -> forall a, list_eqb eqb a a = true.
Proof. intros H a. induction a as [|x a IH]; simpl; auto. rewrite H, IH. reflexivity. Qed.

Lemma str_eqb_eq a b : str_eqb a b = true -> a = b.
Proof. apply list_eqb_eq. intros x y E. apply N.eqb_eq. exact E. Qed.

Lemma str_eqb_refl a : str_eqb a a = true.
Proof. apply list_eqb_refl. apply N.eqb_refl. Qed.

Lemma option_eqb_eq {A} (eqb : A -> A -> bool) :
  (forall x y, eqb x y = true -> x = y) -> forall a b, option_eqb eqb a b = true -> a = b.
Proof. intros H [x|] [y|] E; simpl in E; try discriminate; auto. f_equal. auto. Qed.

Lemma alias_eqb_eq a b : alias_eqb a b = true -> a = b.
Proof.
  destruct a as [n1 a1], b as [n2 a2]. unfold alias_eqb. simpl. intros E.
  apply andb_true_iff in E. destruct E as [E1 E2].
  apply str_eqb_eq in E1. apply (option_eqb_eq _ str_eqb_eq) in E2. congruence.
Qed.

Lemma stmt_eqb_eq a b : stmt_eqb a b = true -> a = b.
Proof.
  destruct a as [l m ns|i], b as [l' m' ns'|j]; simpl; intros E; try discriminate.
  - apply andb_true_iff in E. destruct E as [E E3]. apply andb_true_iff in E. destruct E as [E1 E2].
    apply Nat.eqb_eq in E1. apply (option_eqb_eq _ str_eqb_eq) in E2.
    apply (list_eqb_eq _ alias_eqb_eq) in E3. congruence.
  - apply N.eqb_eq in E. congruence.
Qed.

(* ------------------------------------------------------------------ the tables *)
Lemma assoc_In {B} k (l : list (pystr * B)) v : assoc k l = Some v -> In (k, v) l.
Proof.
  induction l as [|[k' v'] l IH]; simpl; intros E; try discriminate.
  destruct (str_eqb k k') eqn:K.
  - apply str_eqb_eq in K. inversion E. subst. left. reflexivity.
  - right. auto.
Qed.

Lemma lookup2_In mp m n t : lookup2 mp (Some m) n = Some t -> In (m, n, t) (flat_mapping mp).
Proof.
  unfold lookup2, flat_mapping. destruct (assoc m mp) as [d|] eqn:A; try discriminate.
  intros E. apply assoc_In in A. apply assoc_In in E.
  apply in_flat_map. exists (m, d). split; auto.
  apply in_map_iff. exists (n, t). split; auto.
Qed.

Definition entry := (pystr * pystr * (pystr * pystr))%type.

Definition targets_ok (ex : exports_t) (pkg : pystr) (mp : mapping_t) : bool :=
  forallb (fun e : entry => target_exported ex e && in_package pkg (fst (snd e))) (flat_mapping mp).

Lemma targets_ok_spec ex pkg mp : targets_ok ex pkg mp = true ->
  forall m n m' n', In (m, n, (m', n')) (flat_mapping mp) ->
    in_package pkg m' = true /\ exists names, In (m', (true, names)) ex /\ In n' names.
Proof.
  intros H m n m' n' HI. unfold targets_ok in H.
  rewrite forallb_forall in H. specialize (H _ HI). cbn [target_exported fst snd] in H.
  apply andb_true_iff in H. destruct H as [H1 H2]. split; [exact H2|].
  destruct (assoc m' ex) as [[[|] names]|] eqn:A; try discriminate.
  exists names. split.
  - apply assoc_In. exact A.
  - apply existsb_exists in H1. destruct H1 as [x [Hx E]]. apply str_eqb_eq in E. subst. exact Hx.
Qed.

Lemma gen_mapping_error_none : gen_mapping_error = None.
Proof. vm_compute. reflexivity. Qed.

Lemma mapping_targets_exported_lemma :
  forall m n m' n', In (m, n, (m', n')) (flat_mapping gen_mapping) ->
    in_package gen_package m' = true /\
    exists names, In (m', (true, names)) gen_exports /\ In n' names.
Proof. apply targets_ok_spec. vm_compute. reflexivity. Qed.

Lemma keeps_names_spec mp : forallb keeps_name (flat_mapping mp) = true ->
  forall m n m' n', In (m, n, (m', n')) (flat_mapping mp) -> n' = n.
Proof.
  intros H m n m' n' HI. rewrite forallb_forall in H. specialize (H _ HI).
  cbn [keeps_name] in H. apply str_eqb_eq in H. auto.
Qed.

Lemma mapping_keeps_names_lemma :
  forall m n m' n', In (m, n, (m', n')) (flat_mapping gen_mapping) -> n' = n.
Proof. apply keeps_names_spec. vm_compute. reflexivity. Qed.

(* no mapped name is "*" and no target module is itself a v1 module of the table *)
Definition entry_sane (mp : mapping_t) (e : entry) : bool :=
  let '(_, n, (nm, _)) := e in
  negb (str_eqb n [42%N]) && match assoc nm mp with None => true | Some _ => false end.

Lemma entries_sane_spec mp : forallb (entry_sane mp) (flat_mapping mp) = true ->
  forall m n m' n', In (m, n, (m', n')) (flat_mapping mp) -> n <> [42%N] /\ assoc m' mp = None.
Proof.
  intros H m n m' n' HI. rewrite forallb_forall in H. specialize (H _ HI).
  cbn [entry_sane] in H. apply andb_true_iff in H. destruct H as [H1 H2]. split.
  - intros ->. rewrite str_eqb_refl in H1. discriminate.
  - destruct (assoc m' mp); [discriminate | reflexivity].
Qed.

Lemma entries_sane :
  forall m n m' n', In (m, n, (m', n')) (flat_mapping gen_mapping) ->
    n <> [42%N] /\ assoc m' gen_mapping = None.
Proof. apply entries_sane_spec. vm_compute. reflexivity. Qed.

Lemma star_unmapped_lemma : forall m, lookup2 gen_mapping m [42%N] = None.
Proof.
  intros [m|]; [|reflexivity].
  destruct (lookup2 gen_mapping (Some m) [42%N]) as [[m' n']|] eqn:E; [|reflexivity].
  apply lookup2_In in E. apply entries_sane in E. destruct E as [E _]. congruence.
Qed.

(* ------------------------------------------------------------------ one ImportFrom *)
Definition group_bindings (g : list (pystr * list alias)) : list (pystr * (option pystr * pystr)) :=
  flat_map (fun g => map (fun a : alias => (local_name a, (Some (fst g), fst a))) (snd g)) g.

Definition plain_bindings (m : option pystr) (u : list alias) :=
  map (fun a : alias => (local_name a, (m, fst a))) u.

Lemma dd_add_perm k v d :
  Permutation (group_bindings (dd_add k v d)) ((local_name v, (Some k, fst v)) :: group_bindings d).
Proof.
  induction d as [|[k' vs] d IH]; simpl.
  - apply Permutation_refl.
  - destruct (str_eqb k k') eqn:K.
    + apply str_eqb_eq in K. subst k'. simpl. rewrite map_app. simpl.
      rewrite <- app_assoc. simpl. apply Permutation_sym. apply Permutation_middle.
    + simpl. eapply Permutation_trans.
      * apply Permutation_app_head. exact IH.
      * apply Permutation_sym. apply Permutation_middle.
Qed.

Lemma bindings_rewrite_import mp m ns :
  bindings (rewrite_import mp m ns) =
  let acc := fold_left (rw_step mp m) ns ([], []) in
  group_bindings (fst acc) ++ plain_bindings m (snd acc).
Proof.
  unfold rewrite_import, bindings. cbv zeta.
  destruct (fold_left (rw_step mp m) ns ([], [])) as [g u]. simpl fst. simpl snd.
  rewrite flat_map_app. f_equal.
  - unfold group_bindings. induction g as [|[k vs] g IH]; simpl; auto. rewrite IH. reflexivity.
  - destruct u; simpl; auto. rewrite app_nil_r. reflexivity.
Qed.

(* the local name bound by the alias written for a mapped name *)
Definition written_binding (mp : mapping_t) (m : option pystr) (a : alias)
  : pystr * (option pystr * pystr) :=
  match lookup2 mp m (fst a) with
  | Some (nm, nn) => (local_name (nn, snd a), (Some nm, nn))
  | None => (local_name a, (m, fst a))
  end.

Lemma fold_step_perm mp m ns : forall acc,
  Permutation
    (let acc' := fold_left (rw_step mp m) ns acc in group_bindings (fst acc') ++ plain_bindings m (snd acc'))
    (group_bindings (fst acc) ++ plain_bindings m (snd acc) ++ map (written_binding mp m) ns).
Proof.
  induction ns as [|a ns IH]; intros [g u]; simpl.
  - rewrite app_nil_r. apply Permutation_refl.
  - eapply Permutation_trans; [apply IH|].
    unfold rw_step, written_binding. simpl fst. simpl snd.
    destruct (lookup2 mp m (fst a)) as [[nm nn]|]; simpl fst; simpl snd.
    + eapply Permutation_trans.
      * apply Permutation_app_tail. apply dd_add_perm.
      * simpl. apply Permutation_sym.
        rewrite app_assoc. eapply Permutation_trans; [apply Permutation_sym; apply Permutation_middle|].
        rewrite <- app_assoc. apply Permutation_refl.
    + unfold plain_bindings. rewrite map_app. simpl. rewrite <- app_assoc. simpl.
      apply Permutation_refl.
Qed.

Lemma written_expected mp m a :
  (forall n nm nn, lookup2 mp m n = Some (nm, nn) -> nn = n) ->
  written_binding mp m a = expected_binding mp m a.
Proof.
  intros K. unfold written_binding, expected_binding.
  destruct (lookup2 mp m (fst a)) as [[nm nn]|] eqn:E; auto.
  apply K in E. subst nn. destruct a as [n [x|]]; reflexivity.
Qed.

Lemma rewrite_import_binds_same_lemma mp m ns :
  (forall n nm nn, lookup2 mp m n = Some (nm, nn) -> nn = n) ->
  Permutation (bindings (rewrite_import mp m ns)) (map (expected_binding mp m) ns).
Proof.
  intros K. rewrite bindings_rewrite_import.
  eapply Permutation_trans; [apply (fold_step_perm mp m ns ([], []))|]. simpl.
  rewrite (map_ext _ _ (fun a => written_expected mp m a K)). apply Permutation_refl.
Qed.

Lemma rewrite_import_all_absolute mp m ns :
  Forall (fun s => rewritten s = true) (rewrite_import mp m ns).
Proof.
  unfold rewrite_import. apply Forall_app. split.
  - apply Forall_forall. intros s Hs. apply in_map_iff in Hs. destruct Hs as [g [<- _]]. reflexivity.
  - destruct (snd (fold_left (rw_step mp m) ns ([], []))); constructor; auto.
Qed.

Lemma rewrite_import_binds_same_full :
  forall (mp : mapping_t) (m : option pystr) (ns : list alias),
    (forall n nm nn, lookup2 mp m n = Some (nm, nn) -> nn = n) ->
    Permutation (bindings (rewrite_import mp m ns)) (map (expected_binding mp m) ns) /\
    Forall (fun s => rewritten s = true) (rewrite_import mp m ns).
Proof.
  intros mp m ns K. split.
  - exact (rewrite_import_binds_same_lemma mp m ns K).
  - exact (rewrite_import_all_absolute mp m ns).
Qed.

(* ------------------------------------------------------------------ the line splice *)
(* what the splices amount to when no line is shared: the line holding the first piece of a
   rewritten import becomes the replacement lines, its other lines disappear, every other
   physical line stays *)
Definition fwd_line (mp : mapping_t) (l : line) : list line :=
  match l with
  | [Frag s k n] =>
      if rewritten s then (if k =? 0 then map stmt_line (rewrite_stmt mp s) else []) else [l]
  | _ => [l]
  end.
Definition fwd (mp : mapping_t) (ls : list line) : list line := flat_map (fwd_line mp) ls.

Definition st_rewritten (st : pstate) : bool :=
  match st with Some (s, _, _, _) => rewritten s | None => false end.

Lemma replacements_app mp a b : replacements mp (a ++ b) = replacements mp a ++ replacements mp b.
Proof. unfold replacements. apply flat_map_app. Qed.

Lemma replacements_cons mp it its :
  replacements mp (it :: its) = replacements mp [it] ++ replacements mp its.
Proof. apply (replacements_app mp [it] its). Qed.

Lemma replacements_plain mp s a b : rewritten s = false -> replacements mp [(s, a, b)] = [].
Proof. destruct s as [[|l] m ns|i]; simpl; intros H; try discriminate; reflexivity. Qed.

Lemma replacements_rewritten mp s a b : rewritten s = true ->
  replacements mp [(s, a, b)] = [(a, b, map stmt_line (rewrite_stmt mp s))].
Proof. destruct s as [[|l] m ns|i]; simpl; intros H; try discriminate; reflexivity. Qed.

Local Arguments Nat.eqb : simpl never.
Local Arguments Nat.leb : simpl never.

Lemma eat_frags_plain mp : forall l i its st',
  existsb frag_rewritten l = false -> eat_frags i l = Some (its, st') ->
  replacements mp its = [] /\ st_rewritten st' = false.
Proof.
  induction l as [|[s k n] l IH]; intros i its st' HP HE; simpl in HE.
  - inversion HE. subst. split; reflexivity.
  - simpl in HP. apply orb_false_iff in HP. destruct HP as [Hs HP].
    destruct (k =? 0); try discriminate.
    destruct (n =? 1).
    + destruct (eat_frags i l) as [[its0 st0]|] eqn:E0; simpl in HE; try discriminate.
      inversion HE. subst. destruct (IH _ _ _ HP E0) as [R1 R2]. split; auto.
      unfold prepend. simpl fst. rewrite replacements_cons, R1, (replacements_plain mp s i i Hs).
      reflexivity.
    + destruct (2 <=? n); try discriminate. destruct l; try discriminate.
      inversion HE. subst. split; [reflexivity | exact Hs].
Qed.

Lemma eat_line_plain mp i st l its st' :
  st_rewritten st = false -> existsb frag_rewritten l = false ->
  eat_line i st l = Some (its, st') ->
  replacements mp its = [] /\ st_rewritten st' = false.
Proof.
  intros Hst HP HE. destruct st as [[[[s0 a] k0] n0]|]; simpl in HE.
  - destruct l as [|[s k n] l]; try discriminate.
    simpl in HP. apply orb_false_iff in HP. destruct HP as [Hs HP].
    destruct (stmt_eqb s s0 && (k =? k0) && (n =? n0)); try discriminate.
    destruct (S k0 =? n0).
    + destruct (eat_frags i l) as [[its0 st0]|] eqn:E0; simpl in HE; try discriminate.
      inversion HE. subst. destruct (eat_frags_plain mp _ _ _ _ HP E0) as [R1 R2]. split; auto.
      unfold prepend. simpl fst. rewrite replacements_cons, R1.
      simpl in Hst. rewrite (replacements_plain mp s0 a i Hst). reflexivity.
    + destruct l; try discriminate. inversion HE. subst. split; [reflexivity | exact Hst].
  - eapply eat_frags_plain; eauto.
Qed.

Lemma fwd_line_plain mp l : existsb frag_rewritten l = false -> fwd_line mp l = [l].
Proof.
  destruct l as [|[s k n] [|f l]]; simpl; auto. intros H.
  apply orb_false_iff in H. destruct H as [H _]. rewrite H. reflexivity.
Qed.

(* a line holding a rewritten piece and nothing else *)
Lemma disjoint_line_shape (l : line) :
  existsb frag_rewritten l = true -> length l =? 1 = true ->
  exists s k n, l = [Frag s k n] /\ rewritten s = true.
Proof.
  destruct l as [|[s k n] [|f l]]; simpl; intros H1 H2; try discriminate.
  exists s, k, n. split; auto. rewrite orb_false_r in H1. exact H1.
Qed.

Lemma firstn_le_app {A} a (X Y : list A) : a <= length X -> firstn a (X ++ Y) = firstn a X.
Proof.
  intros H. rewrite firstn_app. replace (a - length X) with 0 by lia.
  simpl. apply app_nil_r.
Qed.

Lemma firstn_len_app {A} (X Y : list A) : firstn (length X) (X ++ Y) = X.
Proof. rewrite firstn_app, Nat.sub_diag, firstn_all. simpl. apply app_nil_r. Qed.

Lemma skipn_len_app {A} (X Y : list A) : skipn (length X) (X ++ Y) = Y.
Proof. rewrite skipn_app, Nat.sub_diag, skipn_all. reflexivity. Qed.

Definition expected_out (mp : mapping_t) (st : pstate) (pre ls : list line) : list line :=
  match st with
  | Some (s, a, _, _) =>
      if rewritten s then firstn a pre ++ map stmt_line (rewrite_stmt mp s) ++ fwd mp ls
      else pre ++ fwd mp ls
  | None => pre ++ fwd mp ls
  end.

Definition st_inv (st : pstate) (i : nat) : Prop :=
  match st with
  | Some (s, a, k, _) => rewritten s = true -> a <= i /\ k <> 0
  | None => True
  end.

Lemma expected_out_plain mp st pre ls :
  st_rewritten st = false -> expected_out mp st pre ls = pre ++ fwd mp ls.
Proof. destruct st as [[[[s a] k] n]|]; simpl; auto. intros ->. reflexivity. Qed.

Lemma fwd_cons mp l ls : fwd mp (l :: ls) = fwd_line mp l ++ fwd mp ls.
Proof. reflexivity. Qed.

Local Arguments fwd : simpl never.
Local Arguments fwd_line : simpl never.

Lemma splice_at_end (a i : nat) (R : list (list frag)) (pre : list (list frag)) l F :
  length pre = i -> a <= i ->
  splice (a, i, R) ((pre ++ [l]) ++ F) = firstn a pre ++ R ++ F.
Proof.
  intros HL Ha. unfold splice.
  assert (HL' : length (pre ++ [l]) = S i) by (rewrite app_length; simpl; lia).
  rewrite (firstn_le_app a (pre ++ [l]) F) by lia.
  rewrite (firstn_le_app a pre [l]) by lia.
  replace (Nat.max a (S i)) with (length (pre ++ [l])) by lia.
  rewrite skipn_len_app. reflexivity.
Qed.

Lemma apply_fwd mp : forall ls i st items pre,
  parse_lines i st ls = Some items -> line_disjoint ls = true -> length pre = i -> st_inv st i ->
  apply_replacements (replacements mp items) (pre ++ ls) = expected_out mp st pre ls.
Proof.
  induction ls as [|l ls IH]; intros i st items pre HP HD HL HI.
  - simpl in HP. destruct st; try discriminate. inversion HP. subst. reflexivity.
  - simpl in HP. destruct (eat_line i st l) as [[its st1]|] eqn:EL; try discriminate.
    destruct (parse_lines (S i) st1 ls) as [rest|] eqn:PR; try discriminate.
    inversion HP. subst items. clear HP.
    simpl in HD. apply andb_true_iff in HD. destruct HD as [HDl HD].
    assert (HL' : length (pre ++ [l]) = S i) by (rewrite app_length; simpl; lia).
    replace (pre ++ l :: ls) with ((pre ++ [l]) ++ ls) by (rewrite <- app_assoc; reflexivity).
    rewrite replacements_app. unfold apply_replacements in *.
    destruct (st_rewritten st) eqn:SR.
    + (* inside a rewritten import *)
      destruct st as [[[[s0 a] k0] n0]|]; simpl in SR; try discriminate.
      destruct (HI SR) as [Ha Hk].
      unfold eat_line in EL. destruct l as [|[s k n] l']; try discriminate.
      destruct (stmt_eqb s s0 && (k =? k0) && (n =? n0)) eqn:T; try discriminate.
      apply andb_true_iff in T. destruct T as [T T3]. apply andb_true_iff in T. destruct T as [T1 T2].
      apply stmt_eqb_eq in T1. apply Nat.eqb_eq in T2. apply Nat.eqb_eq in T3. subst s k n.
      assert (l' = []) as ->.
      { simpl in HDl. rewrite SR in HDl. simpl in HDl. destruct l'; [reflexivity | discriminate]. }
      assert (FL : fwd_line mp [Frag s0 k0 n0] = []).
      { unfold fwd_line. rewrite SR. destruct k0; [congruence | reflexivity]. }
      unfold expected_out. rewrite SR. rewrite fwd_cons, FL. simpl app.
      destruct (S k0 =? n0).
      * simpl in EL. inversion EL. subst its st1. clear EL.
        rewrite (replacements_rewritten mp s0 a i SR). simpl app. simpl fold_right.
        rewrite (IH (S i) None rest (pre ++ [[Frag s0 k0 n0]]) PR HD HL' I).
        unfold expected_out. apply splice_at_end; auto.
      * inversion EL. subst its st1. clear EL. simpl app.
        assert (HI1 : st_inv (Some (s0, a, S k0, n0)) (S i)) by (simpl; intros _; split; lia).
        rewrite (IH (S i) _ rest (pre ++ [[Frag s0 k0 n0]]) PR HD HL' HI1).
        unfold expected_out. rewrite SR. rewrite firstn_le_app by lia. reflexivity.
    + rewrite (expected_out_plain mp st pre (l :: ls) SR). rewrite fwd_cons.
      destruct (existsb frag_rewritten l) eqn:XR.
      * (* the first line of a rewritten import *)
        simpl in HDl. destruct (disjoint_line_shape l XR HDl) as [s [k [n [-> Hs]]]].
        destruct st as [[[[s0 a0] k0] n0]|].
        { exfalso. unfold eat_line in EL. simpl in SR.
          destruct (stmt_eqb s s0) eqn:T1; simpl in EL; try discriminate.
          apply stmt_eqb_eq in T1. congruence. }
        unfold eat_line in EL. simpl in EL. destruct (k =? 0) eqn:K0; try discriminate.
        apply Nat.eqb_eq in K0. subst k.
        assert (FL : fwd_line mp [Frag s 0 n] = map stmt_line (rewrite_stmt mp s)).
        { unfold fwd_line. rewrite Hs. reflexivity. }
        rewrite FL.
        destruct (n =? 1) eqn:N1.
        -- simpl in EL. inversion EL. subst its st1. clear EL.
           rewrite (replacements_rewritten mp s i i Hs). simpl app. simpl fold_right.
           rewrite (IH (S i) None rest (pre ++ [[Frag s 0 n]]) PR HD HL' I).
           unfold expected_out.
           pose proof (splice_at_end i i (map stmt_line (rewrite_stmt mp s)) pre [Frag s 0 n]
                                     (fwd mp ls) HL (le_n i)) as X.
           unfold splice in X. rewrite X. clear X.
           subst i. rewrite firstn_all. reflexivity.
        -- destruct (2 <=? n); try discriminate. inversion EL. subst its st1. clear EL. simpl app.
           assert (HI1 : st_inv (Some (s, i, 1, n)) (S i)) by (simpl; intros _; split; lia).
           rewrite (IH (S i) _ rest (pre ++ [[Frag s 0 n]]) PR HD HL' HI1).
           unfold expected_out. rewrite Hs. subst i. rewrite firstn_len_app. reflexivity.
      * (* a line without any piece of a rewritten import *)
        destruct (eat_line_plain mp i st l its st1 SR XR EL) as [R1 R2].
        rewrite R1. simpl app.
        assert (HI1 : st_inv st1 (S i)).
        { destruct st1 as [[[[s1 a1] k1] n1]|]; simpl; auto. simpl in R2. congruence. }
        rewrite (IH (S i) st1 rest (pre ++ [l]) PR HD HL' HI1).
        rewrite (expected_out_plain mp st1 _ _ R2).
        rewrite (fwd_line_plain mp l XR).
        rewrite <- app_assoc. reflexivity.
Qed.

(* ------------------------------------------------------------------ reading statements
   off lines does not depend on the line numbers: a span-free copy of the parser *)
Definition pstate0 := option (stmt * nat * nat).
Definition forget (st : pstate) : pstate0 :=
  match st with Some (s, _, k, n) => Some (s, k, n) | None => None end.
Definition proj (r : list (stmt * nat * nat) * pstate) : list stmt * pstate0 :=
  (map it_stmt (fst r), forget (snd r)).
Definition prepend0 (s : stmt) (r : list stmt * pstate0) : list stmt * pstate0 := (s :: fst r, snd r).

Fixpoint eat_frags0 (l : list frag) : option (list stmt * pstate0) :=
  match l with
  | [] => Some ([], None)
  | Frag s k n :: l' =>
      if k =? 0 then
        if n =? 1 then option_map (prepend0 s) (eat_frags0 l')
        else if 2 <=? n then
               match l' with [] => Some ([], Some (s, 1, n)) | _ => None end
             else None
      else None
  end.

Definition eat_line0 (st : pstate0) (l : list frag) : option (list stmt * pstate0) :=
  match st with
  | None => eat_frags0 l
  | Some (s0, k0, n0) =>
      match l with
      | [] => None
      | Frag s k n :: l' =>
          if stmt_eqb s s0 && (k =? k0) && (n =? n0) then
            if S k0 =? n0 then option_map (prepend0 s0) (eat_frags0 l')
            else match l' with [] => Some ([], Some (s0, S k0, n0)) | _ => None end
          else None
      end
  end.

Fixpoint parse0 (st : pstate0) (ls : list (list frag)) : option (list stmt) :=
  match ls with
  | [] => match st with None => Some [] | Some _ => None end
  | l :: ls' =>
      match eat_line0 st l with
      | None => None
      | Some (ss, st') =>
          match parse0 st' ls' with
          | None => None
          | Some rest => Some (ss ++ rest)
          end
      end
  end.

Lemma eat_frags_proj i l : option_map proj (eat_frags i l) = eat_frags0 l.
Proof.
  induction l as [|[s k n] l IH]; simpl; auto.
  destruct (k =? 0); auto. destruct (n =? 1).
  - rewrite <- IH. destruct (eat_frags i l) as [[its st]|]; reflexivity.
  - destruct (2 <=? n); auto. destruct l; reflexivity.
Qed.

Lemma eat_line_proj i st l : option_map proj (eat_line i st l) = eat_line0 (forget st) l.
Proof.
  destruct st as [[[[s0 a] k0] n0]|]; simpl; [|apply eat_frags_proj].
  destruct l as [|[s k n] l]; auto.
  destruct (stmt_eqb s s0 && (k =? k0) && (n =? n0)); auto.
  destruct (S k0 =? n0).
  - rewrite <- (eat_frags_proj i l). destruct (eat_frags i l) as [[its st]|]; reflexivity.
  - destruct l; reflexivity.
Qed.

Lemma parse_proj : forall ls i st,
  option_map (map it_stmt) (parse_lines i st ls) = parse0 (forget st) ls.
Proof.
  induction ls as [|l ls IH]; intros i st; simpl.
  - destruct st as [[[[s a] k] n]|]; reflexivity.
  - rewrite <- (eat_line_proj i st l).
    destruct (eat_line i st l) as [[its st1]|]; simpl; auto.
    rewrite <- (IH (S i) st1).
    destruct (parse_lines (S i) st1 ls); simpl; auto. rewrite map_app. reflexivity.
Qed.

Lemma stmts_of_parse0 ls : stmts_of ls = parse0 None ls.
Proof. unfold stmts_of, ast_view. apply (parse_proj ls 0 None). Qed.

Definition st_rewritten0 (st : pstate0) : bool :=
  match st with Some (s, _, _) => rewritten s | None => false end.

Lemma rewrite_stmt_plain mp s : rewritten s = false -> rewrite_stmt mp s = [s].
Proof. destruct s as [[|l] m ns|i]; simpl; intros H; try discriminate; reflexivity. Qed.

Lemma flat_rewrite_plain mp ss :
  forallb (fun s => negb (rewritten s)) ss = true -> flat_map (rewrite_stmt mp) ss = ss.
Proof.
  induction ss as [|s ss IH]; simpl; auto. intros H. apply andb_true_iff in H. destruct H as [H1 H2].
  apply negb_true_iff in H1. rewrite (rewrite_stmt_plain mp s H1), IH; auto.
Qed.

Lemma eat_frags0_plain : forall l ss st',
  existsb frag_rewritten l = false -> eat_frags0 l = Some (ss, st') ->
  forallb (fun s => negb (rewritten s)) ss = true /\ st_rewritten0 st' = false.
Proof.
  induction l as [|[s k n] l IH]; intros ss st' HP HE; simpl in HE.
  - inversion HE. subst. split; reflexivity.
  - simpl in HP. apply orb_false_iff in HP. destruct HP as [Hs HP].
    destruct (k =? 0); try discriminate.
    destruct (n =? 1).
    + destruct (eat_frags0 l) as [[ss0 st0]|] eqn:E0; simpl in HE; try discriminate.
      inversion HE. subst. destruct (IH _ _ HP eq_refl) as [R1 R2]. split; auto.
      simpl. rewrite Hs, R1. reflexivity.
    + destruct (2 <=? n); try discriminate. destruct l; try discriminate.
      inversion HE. subst. split; [reflexivity | exact Hs].
Qed.

Lemma eat_line0_plain st l ss st' :
  st_rewritten0 st = false -> existsb frag_rewritten l = false ->
  eat_line0 st l = Some (ss, st') ->
  forallb (fun s => negb (rewritten s)) ss = true /\ st_rewritten0 st' = false.
Proof.
  intros Hst HP HE. destruct st as [[[s0 k0] n0]|]; unfold eat_line0 in HE.
  - destruct l as [|[s k n] l]; try discriminate.
    simpl in HP. apply orb_false_iff in HP. destruct HP as [Hs HP].
    destruct (stmt_eqb s s0 && (k =? k0) && (n =? n0)); try discriminate.
    destruct (S k0 =? n0).
    + destruct (eat_frags0 l) as [[ss0 st0]|] eqn:E0; simpl in HE; try discriminate.
      inversion HE. subst. destruct (eat_frags0_plain _ _ _ HP E0) as [R1 R2]. split; auto.
      simpl in *. rewrite Hst, R1. reflexivity.
    + destruct l; try discriminate. inversion HE. subst. split; [reflexivity | exact Hst].
  - eapply eat_frags0_plain; eauto.
Qed.

(* the replacement lines read back as the replacement statements *)
Lemma parse0_stmt_lines : forall R X,
  parse0 None (map stmt_line R ++ X) = option_map (app R) (parse0 None X).
Proof.
  induction R as [|s R IH]; intros X; simpl.
  - destruct (parse0 None X); reflexivity.
  - rewrite IH. destruct (parse0 None X); reflexivity.
Qed.

Definition fwd_concl (mp : mapping_t) (st : pstate0) (ls : list (list frag)) (ss : list stmt) : Prop :=
  match st with
  | Some (s, k, n) =>
      if rewritten s then
        k <> 0 -> exists ss', ss = s :: ss' /\
                              parse0 None (fwd mp ls) = Some (flat_map (rewrite_stmt mp) ss')
      else parse0 st (fwd mp ls) = Some (flat_map (rewrite_stmt mp) ss)
  | None => parse0 None (fwd mp ls) = Some (flat_map (rewrite_stmt mp) ss)
  end.

Lemma fwd_concl_plain mp st ls ss : st_rewritten0 st = false ->
  fwd_concl mp st ls ss <-> parse0 st (fwd mp ls) = Some (flat_map (rewrite_stmt mp) ss).
Proof. destruct st as [[[s k] n]|]; simpl; [intros ->|]; tauto. Qed.

Lemma stmts_fwd0 mp : forall ls st ss,
  parse0 st ls = Some ss -> line_disjoint ls = true -> fwd_concl mp st ls ss.
Proof.
  induction ls as [|l ls IH]; intros st ss HP HD.
  - simpl in HP. destruct st; try discriminate. inversion HP. subst. reflexivity.
  - simpl in HP. destruct (eat_line0 st l) as [[ss1 st1]|] eqn:EL; try discriminate.
    destruct (parse0 st1 ls) as [rest|] eqn:PR; try discriminate.
    inversion HP. subst ss. clear HP.
    simpl in HD. apply andb_true_iff in HD. destruct HD as [HDl HD].
    specialize (IH st1 rest PR HD).
    destruct (st_rewritten0 st) eqn:SR.
    + destruct st as [[[s0 k0] n0]|]; simpl in SR; try discriminate.
      unfold fwd_concl. rewrite SR. intros Hk.
      unfold eat_line0 in EL. destruct l as [|[s k n] l']; try discriminate.
      destruct (stmt_eqb s s0 && (k =? k0) && (n =? n0)) eqn:T; try discriminate.
      apply andb_true_iff in T. destruct T as [T T3]. apply andb_true_iff in T. destruct T as [T1 T2].
      apply stmt_eqb_eq in T1. apply Nat.eqb_eq in T2. apply Nat.eqb_eq in T3. subst s k n.
      assert (l' = []) as ->.
      { simpl in HDl. rewrite SR in HDl. simpl in HDl. destruct l'; [reflexivity | discriminate]. }
      assert (FL : fwd_line mp [Frag s0 k0 n0] = []).
      { unfold fwd_line. rewrite SR. destruct k0; [congruence | reflexivity]. }
      rewrite fwd_cons, FL. simpl app.
      destruct (S k0 =? n0).
      * simpl in EL. inversion EL. subst ss1 st1. clear EL.
        exists rest. split; [reflexivity | exact IH].
      * inversion EL. subst ss1 st1. clear EL. simpl app.
        unfold fwd_concl in IH. rewrite SR in IH. apply IH. congruence.
    + apply (fwd_concl_plain mp st (l :: ls) _ SR). rewrite fwd_cons.
      destruct (existsb frag_rewritten l) eqn:XR.
      * simpl in HDl. destruct (disjoint_line_shape l XR HDl) as [s [k [n [-> Hs]]]].
        destruct st as [[[s0 k0] n0]|].
        { exfalso. unfold eat_line0 in EL. simpl in SR.
          destruct (stmt_eqb s s0) eqn:T1; simpl in EL; try discriminate.
          apply stmt_eqb_eq in T1. congruence. }
        unfold eat_line0 in EL. simpl in EL. destruct (k =? 0) eqn:K0; try discriminate.
        apply Nat.eqb_eq in K0. subst k.
        assert (FL : fwd_line mp [Frag s 0 n] = map stmt_line (rewrite_stmt mp s)).
        { unfold fwd_line. rewrite Hs. reflexivity. }
        rewrite FL, parse0_stmt_lines.
        destruct (n =? 1) eqn:N1.
        -- simpl in EL. inversion EL. subst ss1 st1. clear EL.
           simpl in IH. rewrite IH. reflexivity.
        -- destruct (2 <=? n); try discriminate. inversion EL. subst ss1 st1. clear EL.
           unfold fwd_concl in IH. rewrite Hs in IH.
           destruct IH as [ss' [-> IH]]; [congruence|]. rewrite IH. reflexivity.
      * destruct (eat_line0_plain st l ss1 st1 SR XR EL) as [R1 R2].
        rewrite (fwd_line_plain mp l XR). simpl app. simpl parse0. rewrite EL.
        apply (fwd_concl_plain mp st1 ls rest R2) in IH. rewrite IH.
        rewrite flat_map_app, (flat_rewrite_plain mp ss1 R1). reflexivity.
Qed.

(* ------------------------------------------------------------------ main statements *)
Lemma apply_replacements_fwd mp ls body :
  ast_view ls = Some body -> line_disjoint ls = true ->
  apply_replacements (replacements mp body) ls = fwd mp ls.
Proof.
  intros HA HD.
  apply (apply_fwd mp ls 0 None body [] HA HD eq_refl I).
Qed.

Lemma rewrite_splice_correct_lemma mp ls body :
  ast_view ls = Some body -> line_disjoint ls = true ->
  stmts_of (apply_replacements (replacements mp body) ls)
  = Some (flat_map (rewrite_stmt mp) (map it_stmt body)).
Proof.
  intros HA HD. rewrite (apply_replacements_fwd mp ls body HA HD), stmts_of_parse0.
  assert (H0 : parse0 None ls = Some (map it_stmt body)).
  { rewrite <- stmts_of_parse0. unfold stmts_of. rewrite HA. reflexivity. }
  exact (stmts_fwd0 mp ls None _ H0 HD).
Qed.

(* None exactly when there is no absolute ImportFrom at top level *)
Lemma replacements_nil_iff mp body :
  replacements mp body = [] <-> forallb (fun it => negb (rewritten (it_stmt it))) body = true.
Proof.
  induction body as [|[[s a] b] body IH]; simpl; [tauto|].
  rewrite andb_true_iff, <- IH. unfold it_stmt. simpl.
  destruct s as [[|l] m ns|i]; simpl; split; intros H; try discriminate; try tauto.
  destruct H; discriminate.
Qed.

Lemma rewrite_none_iff_lemma mp ls body :
  rewrite_imports mp ls body = None <->
  (forall it, In it body -> rewritten (it_stmt it) = false).
Proof.
  unfold rewrite_imports.
  assert (E : (forall it, In it body -> rewritten (it_stmt it) = false)
              <-> replacements mp body = []).
  { rewrite replacements_nil_iff, forallb_forall. split; intros H it Hit.
    - rewrite (H it Hit). reflexivity.
    - apply negb_true_iff. auto. }
  rewrite E. destruct (replacements mp body); split; intros H; congruence.
Qed.

(* the whole function, on a source whose two views agree and whose imports own their lines *)
Lemma rewrite_source_correct_lemma mp ls body :
  ast_view ls = Some body -> line_disjoint ls = true ->
  match rewrite_source mp ls with
  | Ok None => forall it, In it body -> rewritten (it_stmt it) = false
  | Ok (Some out) =>
      (exists it, In it body /\ rewritten (it_stmt it) = true) /\
      stmts_of out = Some (flat_map (rewrite_stmt mp) (map it_stmt body))
  | _ => False
  end.
Proof.
  intros HA HD. unfold rewrite_source. rewrite HA.
  destruct (rewrite_imports mp ls body) as [out|] eqn:E.
  - split.
    + destruct (existsb (fun it => rewritten (it_stmt it)) body) eqn:X.
      * apply existsb_exists in X. exact X.
      * exfalso. assert (N : rewrite_imports mp ls body = None).
        { apply rewrite_none_iff_lemma. intros it Hit.
          destruct (rewritten (it_stmt it)) eqn:R; auto.
          assert (existsb (fun it => rewritten (it_stmt it)) body = true)
            by (apply existsb_exists; exists it; auto). congruence. }
        congruence.
    + assert (O : out = apply_replacements (replacements mp body) ls).
      { unfold rewrite_imports in E. destruct (replacements mp body); [discriminate | congruence]. }
      subst out. apply rewrite_splice_correct_lemma; auto.
  - apply (proj1 (rewrite_none_iff_lemma mp ls body)). exact E.
Qed.

(* ------------------------------------------------------------------ on the regenerated table *)
Lemma gen_keeps m : forall n nm nn, lookup2 gen_mapping m n = Some (nm, nn) -> nn = n.
Proof.
  intros n nm nn E. destruct m as [m|]; [|discriminate].
  apply lookup2_In in E. apply mapping_keeps_names_lemma in E. exact E.
Qed.

Lemma rewrite_import_binds_same_gen m ns :
  Permutation (bindings (rewrite_import gen_mapping m ns)) (map (expected_binding gen_mapping m) ns).
Proof. apply rewrite_import_binds_same_lemma. apply gen_keeps. Qed.

Lemma mapped_name_importable_lemma m n m' n' :
  lookup2 gen_mapping (Some m) n = Some (m', n') ->
  in_package gen_package m' = true /\
  exists names, In (m', (true, names)) gen_exports /\ In n' names.
Proof. intros E. apply lookup2_In in E. eapply mapping_targets_exported_lemma. exact E. Qed.

(* ------------------------------------------------------------------ witnesses *)
Definition s_district42 : pystr := [100;105;115;116;114;105;99;116;52;50]%N.
Definition s_d42 : pystr := [100;52;50]%N.
Definition s_schema : pystr := [115;99;104;101;109;97]%N.
Definition s_foo : pystr := [102;111;111]%N.

(* F21: "from district42 import schema; x = 1" - one physical line, two statements *)
Definition f21_import : stmt := ImportFrom 0 (Some s_district42) [(s_schema, None)].
Definition f21_lines : list (list frag) := [[Frag f21_import 0 1; Frag (Other 1) 0 1]].
Definition f21_body : list (stmt * nat * nat) := [(f21_import, 0, 0); (Other 1, 0, 0)].

Lemma rewrite_splice_refuted_lemma :
  ast_view f21_lines = Some f21_body /\
  line_disjoint f21_lines = false /\
  flat_map (rewrite_stmt gen_mapping) (map it_stmt f21_body)
    = [ImportFrom 0 (Some s_d42) [(s_schema, None)]; Other 1] /\
  stmts_of (apply_replacements (replacements gen_mapping f21_body) f21_lines)
    = Some [ImportFrom 0 (Some s_d42) [(s_schema, None)]].
Proof. vm_compute. repeat split. Qed.

(* a form feed in front of the import: splitlines() breaks the line there, ast does not.
   "\x0cfrom district42 import schema\nx = 1\n" *)
Definition ff_lines : list (list frag) := [[]; [Frag f21_import 0 1]; [Frag (Other 1) 0 1]].
Definition ff_body : list (stmt * nat * nat) := [(f21_import, 0, 0); (Other 1, 1, 1)].

Lemma rewrite_misaligned_refuted_lemma :
  aligned ff_lines ff_body = false /\
  line_disjoint ff_lines = true /\
  match rewrite_imports gen_mapping ff_lines ff_body with
  | Some out => stmts_of out = Some [ImportFrom 0 (Some s_d42) [(s_schema, None)]; f21_import; Other 1]
  | None => False
  end.
Proof. vm_compute. repeat split. Qed.

(* ------------------------------------------------------------------ order per target module *)
Definition gnames (M : option pystr) (g : list (pystr * list alias)) : list alias :=
  flat_map (fun kv => sel M (Some (fst kv)) (snd kv)) g.

Lemma str_eqb_neq a b : str_eqb a b = false -> a <> b.
Proof. intros H ->. rewrite str_eqb_refl in H. discriminate. Qed.

Lemma opt_str_eqb_eq a b : option_eqb str_eqb a b = true -> a = b.
Proof. apply option_eqb_eq. apply str_eqb_eq. Qed.

Lemma gnames_notin M k g : M = Some k -> ~ In k (map fst g) -> gnames M g = [].
Proof.
  intros -> H. induction g as [|[k' vs] g IH]; simpl; auto.
  simpl in H. unfold sel at 1. simpl.
  destruct (str_eqb k k') eqn:E.
  - apply str_eqb_eq in E. subst. exfalso. apply H. left. reflexivity.
  - apply IH. intros X. apply H. right. exact X.
Qed.

Lemma dd_add_keys k v g x : In x (map fst (dd_add k v g)) -> x = k \/ In x (map fst g).
Proof.
  induction g as [|[k' vs] g IH]; simpl.
  - intros [<-|[]]. left. reflexivity.
  - destruct (str_eqb k k'); simpl; intros [<-|H]; auto.
    destruct (IH H); auto.
Qed.

Lemma dd_add_nodup k v g : NoDup (map fst g) -> NoDup (map fst (dd_add k v g)).
Proof.
  induction g as [|[k' vs] g IH]; simpl; intros H.
  - constructor; [intros [] | constructor].
  - inversion H as [|x l Hn Hd]. subst. destruct (str_eqb k k') eqn:E; simpl.
    + constructor; auto.
    + constructor; auto. intros X. apply dd_add_keys in X. destruct X as [->|X]; auto.
      rewrite str_eqb_refl in E. discriminate.
Qed.

Lemma gnames_dd_add M k v g : NoDup (map fst g) ->
  gnames M (dd_add k v g) = gnames M g ++ sel M (Some k) [v].
Proof.
  induction g as [|[k' vs] g IH]; simpl; intros H.
  - rewrite app_nil_r. reflexivity.
  - inversion H as [|x l Hn Hd]. subst. destruct (str_eqb k k') eqn:E; simpl.
    + apply str_eqb_eq in E. subst k'. unfold sel. simpl fst. simpl snd.
      destruct (option_eqb str_eqb M (Some k)) eqn:EM.
      * apply opt_str_eqb_eq in EM. rewrite (gnames_notin M k g EM Hn).
        rewrite !app_nil_r. reflexivity.
      * simpl. rewrite app_nil_r. reflexivity.
    + rewrite (IH Hd). rewrite app_assoc. reflexivity.
Qed.

Lemma names_from_groups M (g : list (pystr * list alias)) :
  names_from M (map (fun g => ImportFrom 0 (Some (fst g)) (snd g)) g) = gnames M g.
Proof. induction g as [|[k vs] g IH]; simpl; auto. rewrite IH. reflexivity. Qed.

Lemma fold_step_order mp m M ns :
  (forall n nm nn, lookup2 mp m n = Some (nm, nn) -> Some nm <> m) ->
  forall g u, NoDup (map fst g) ->
    NoDup (map fst (fst (fold_left (rw_step mp m) ns (g, u)))) /\
    gnames M (fst (fold_left (rw_step mp m) ns (g, u))) ++ sel M m (snd (fold_left (rw_step mp m) ns (g, u)))
    = gnames M g ++ sel M m u ++ flat_map (contrib mp m M) ns.
Proof.
  intros Side. induction ns as [|a ns IH]; intros g u ND.
  - simpl. split; auto. rewrite app_nil_r. reflexivity.
  - cbn [fold_left flat_map].
    assert (S : rw_step mp m (g, u) a =
                match lookup2 mp m (fst a) with
                | Some (nm, nn) => (dd_add nm (nn, snd a) g, u)
                | None => (g, u ++ [a])
                end).
    { unfold rw_step. simpl fst. simpl snd. destruct (lookup2 mp m (fst a)) as [[nm nn]|]; reflexivity. }
    rewrite S. clear S. unfold contrib at 1.
    destruct (lookup2 mp m (fst a)) as [[nm nn]|] eqn:L.
    + destruct (IH (dd_add nm (nn, snd a) g) u (dd_add_nodup _ _ _ ND)) as [N1 E1].
      split; [exact N1|]. rewrite E1. rewrite (gnames_dd_add M nm (nn, snd a) g ND).
      unfold sel. destruct (option_eqb str_eqb M (Some nm)) eqn:EM.
      * apply opt_str_eqb_eq in EM.
        assert (X : option_eqb str_eqb M m = false).
        { destruct (option_eqb str_eqb M m) eqn:Y; auto. apply opt_str_eqb_eq in Y.
          exfalso. apply (Side _ _ _ L). congruence. }
        rewrite X. simpl. rewrite <- app_assoc. reflexivity.
      * rewrite app_nil_r. reflexivity.
    + destruct (IH g (u ++ [a]) ND) as [N1 E1].
      split; [exact N1|]. rewrite E1.
      unfold sel. destruct (option_eqb str_eqb M m); simpl; auto.
      rewrite <- app_assoc. reflexivity.
Qed.

(* the names imported from each module M by the replacement statements are, in the original
   order, exactly the names whose target module is M *)
Lemma rewrite_import_order_lemma mp m ns M :
  (forall n nm nn, lookup2 mp m n = Some (nm, nn) -> Some nm <> m) ->
  names_from M (rewrite_import mp m ns) = flat_map (contrib mp m M) ns.
Proof.
  intros Side. unfold rewrite_import.
  destruct (fold_step_order mp m M ns Side [] [] (NoDup_nil _)) as [_ E]. simpl in E.
  destruct (fold_left (rw_step mp m) ns ([], [])) as [g u]. simpl fst in *. simpl snd in *.
  unfold names_from. rewrite flat_map_app. fold (names_from M (map (fun g0 => ImportFrom 0 (Some (fst g0)) (snd g0)) g)).
  assert (SN : sel M m [] = []) by (unfold sel; destruct (option_eqb str_eqb M m); reflexivity).
  rewrite SN in E. simpl in E. rewrite <- E. rewrite names_from_groups. f_equal.
  destruct u; simpl; [rewrite SN; reflexivity|]. rewrite app_nil_r. reflexivity.
Qed.

Lemma gen_targets_differ m : forall n nm nn, lookup2 gen_mapping m n = Some (nm, nn) -> Some nm <> m.
Proof.
  intros n nm nn E. destruct m as [m|]; [|discriminate].
  pose proof (lookup2_In _ _ _ _ E) as HI. apply entries_sane in HI. destruct HI as [_ HN].
  intros X. inversion X. subst nm.
  unfold lookup2 in E. rewrite HN in E. discriminate.
Qed.

Lemma rewrite_import_order_gen m ns M :
  names_from M (rewrite_import gen_mapping m ns) = flat_map (contrib gen_mapping m M) ns.
Proof. apply rewrite_import_order_lemma. apply gen_targets_differ. Qed.

(* ------------------------------------------------------------------ a second run is stable *)
Lemma fold_unmapped mp m ns : (forall a, In a ns -> lookup2 mp m (fst a) = None) ->
  forall g u, fold_left (rw_step mp m) ns (g, u) = (g, u ++ ns).
Proof.
  induction ns as [|a ns IH]; intros H g u; simpl.
  - rewrite app_nil_r. reflexivity.
  - unfold rw_step at 2. simpl fst. simpl snd. rewrite (H a (or_introl eq_refl)).
    rewrite IH by (intros x Hx; apply H; right; exact Hx).
    rewrite <- app_assoc. reflexivity.
Qed.

Lemma rewrite_import_unmapped mp m ns : (forall a, In a ns -> lookup2 mp m (fst a) = None) ->
  ns <> [] -> rewrite_import mp m ns = [ImportFrom 0 m ns].
Proof.
  intros H N. unfold rewrite_import. rewrite (fold_unmapped mp m ns H [] []). simpl.
  destruct ns; [congruence | reflexivity].
Qed.

Definition group_fixed (mp : mapping_t) (kv : pystr * list alias) : Prop :=
  assoc (fst kv) mp = None /\ snd kv <> [].

Lemma dd_add_fixed mp k v g : assoc k mp = None -> Forall (group_fixed mp) g ->
  Forall (group_fixed mp) (dd_add k v g).
Proof.
  intros K. induction g as [|[k' vs] g IH]; simpl; intros H.
  - constructor; [split; [exact K | discriminate] | constructor].
  - inversion H as [|x l HH H3]. subst. destruct HH as [H1 H2]. destruct (str_eqb k k').
    + constructor; auto. split; [exact H1|]. simpl. destruct vs; discriminate.
    + constructor; auto. split; auto.
Qed.

Lemma fold_fixed mp m ns :
  (forall n nm nn, lookup2 mp m n = Some (nm, nn) -> assoc nm mp = None) ->
  forall g u, Forall (group_fixed mp) g -> (forall a, In a u -> lookup2 mp m (fst a) = None) ->
    Forall (group_fixed mp) (fst (fold_left (rw_step mp m) ns (g, u))) /\
    (forall a, In a (snd (fold_left (rw_step mp m) ns (g, u))) -> lookup2 mp m (fst a) = None).
Proof.
  intros Side. induction ns as [|a ns IH]; intros g u HG HU; simpl; [split; assumption|].
  unfold rw_step at 2 4. simpl fst. simpl snd.
  destruct (lookup2 mp m (fst a)) as [[nm nn]|] eqn:L.
  - apply IH; auto. apply dd_add_fixed; auto. eapply Side. exact L.
  - apply IH; auto. intros x Hx. apply in_app_or in Hx. destruct Hx as [Hx|[<-|[]]]; auto.
Qed.

Lemma rewrite_twice_stable_lemma mp m ns :
  (forall n nm nn, lookup2 mp m n = Some (nm, nn) -> assoc nm mp = None) ->
  flat_map (rewrite_stmt mp) (rewrite_import mp m ns) = rewrite_import mp m ns.
Proof.
  intros Side. unfold rewrite_import.
  destruct (fold_fixed mp m ns Side [] [] (Forall_nil _) (fun a (H : In a []) => match H with end)) as [HG HU].
  cbv zeta. remember (fold_left (rw_step mp m) ns ([], [])) as acc eqn:EA. clear EA.
  destruct acc as [g u]. simpl fst in *. simpl snd in *.
  rewrite flat_map_app. f_equal.
  - induction g as [|[k vs] g IH]; simpl; auto.
    inversion HG as [|x l HH H3]. subst. destruct HH as [H1 H2]. simpl in H1, H2.
    rewrite (IH H3). rewrite rewrite_import_unmapped; auto.
    intros a _. unfold lookup2. rewrite H1. reflexivity.
  - destruct u as [|a u]; simpl; auto. rewrite app_nil_r.
    apply rewrite_import_unmapped; [exact HU | discriminate].
Qed.

Lemma rewrite_twice_stable_gen m ns :
  flat_map (rewrite_stmt gen_mapping) (rewrite_import gen_mapping m ns) = rewrite_import gen_mapping m ns.
Proof.
  apply rewrite_twice_stable_lemma. intros n nm nn E. destruct m as [m|]; [|discriminate].
  apply lookup2_In in E. apply entries_sane in E. apply E.
Qed.

Lemma rewrite_stmt_twice_gen s :
  flat_map (rewrite_stmt gen_mapping) (rewrite_stmt gen_mapping s) = rewrite_stmt gen_mapping s.
Proof.
  destruct s as [[|l] m ns|i]; simpl; try reflexivity. apply rewrite_twice_stable_gen.
Qed.
