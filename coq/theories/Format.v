(* What Formatter renders of an error's location (d42/validation/_formatter.py):
   " at " + path for a non-root path; for a missing key/element the path extended by the
   missing key/index.  Wording is not modelled. *)
Require Import D42.Prelude D42.Value D42.Schema D42.Validate.

Definition missing_item (e : verror) : option key :=
  match ekind_of e with
  | EMissingElement i => Some (KInt i)
  | EMissingKey k => Some k
  | _ => None end.

(* the path printed in the message *)
Definition rendered_path (e : verror) : path :=
  match missing_item e with Some k => epath e ++ [k] | None => epath e end.

(* _at_path prints nothing when the path is the root *)
Definition prints_path (e : verror) : bool :=
  match missing_item e with
  | Some _ => true
  | None => match epath e with [] => false | _ => true end end.
