(* The boundary to Python's [random] module (d42/generation/_random.py is inside the model,
   the module [random] is outside): a tape of naturals, one entry consumed per primitive
   draw.  Every outcome the real module may return for a draw is produced by some entry, so
   "for all tapes" is "for every outcome of every draw, the extreme ones included".

   Assumed contract of the real module (trusted, DESIGN section 5):
     randint(a, b)  in  [a, b], ValueError when a > b;
     choice(seq)    an element of seq, IndexError when empty;
     uniform(a, b)  a float in [a, b] for finite a <= b.
   The harness replaces random.randint/choice/uniform by tape readers with exactly the
   decoding below, so that model and implementation can be run on the same tape. *)
From Coq Require Import PrimFloat SpecFloat FloatOps.
Require Import D42.Prelude D42.PyFloat.

Definition tape := list N.
Definition M (A : Type) := tape -> result (A * tape).

Definition ret {A} (a : A) : M A := fun t => Ok (a, t).
Definition mraise {A} (e : pyexn) : M A := fun _ => Raise e.
Definition merr {A} (k : errkind) : M A := fun _ => Err k.
Definition mbind {A B} (m : M A) (f : A -> M B) : M B :=
  fun t => match m t with
           | Ok (a, t') => f a t'
           | Err k => Err k
           | Raise e => Raise e end.
Notation "'dom' x <- m ; k" := (mbind m (fun x => k))
  (at level 200, x pattern, m at level 100, k at level 200, right associativity).

Definition mlift {A} (r : result A) : M A :=
  fun t => match r with Ok a => Ok (a, t) | Err k => Err k | Raise e => Raise e end.

(* run a list of computations left to right *)
Fixpoint msequence {A} (l : list (M A)) : M (list A) :=
  match l with
  | [] => ret []
  | m :: r => dom a <- m; dom rest <- msequence r; ret (a :: rest)
  end.

Definition draw : M N := fun t => match t with [] => Ok (0%N, []) | x :: r => Ok (x, r) end.

Open Scope Z_scope.

(* random.randint(a, b) *)
Definition randint (a b : Z) : M Z :=
  if b <? a then mraise ValueError
  else dom x <- draw; ret (a + (Z.of_N x) mod (b - a + 1)).

(* random.choice(seq) *)
Definition choice {A} (l : list A) : M A :=
  match l with
  | [] => mraise IndexError
  | d :: _ => dom x <- draw; ret (nth (N.to_nat (x mod N.of_nat (length l))) l d)
  end.

(* a tape entry read as the bit pattern of a binary64 (struct.unpack('<d', pack('<Q', x mod 2^64)));
   None for inf/nan patterns *)
Definition bits_to_float (x : N) : option float :=
  let x := Z.of_N x mod 2^64 in
  let s := 2^63 <=? x in
  let e := (x / 2^52) mod 2^11 in
  let m := x mod 2^52 in
  if e =? 2047 then None
  else if e =? 0 then
         (if m =? 0 then Some (if s then PrimFloat.opp PrimFloat.zero else PrimFloat.zero)
          else Some (SF2Prim (S754_finite s (Z.to_pos m) (-1074))))
       else Some (SF2Prim (S754_finite s (Z.to_pos (m + 2^52)) (e - 1075))).

(* random.uniform(a, b): any float of the closed range (the entry's float when it lies in
   the range, else a) *)
Definition uniform (a b : float) : M float :=
  dom x <- draw;
  ret (match bits_to_float x with
       | Some f => if PrimFloat.leb a f && PrimFloat.leb f b then f else a
       | None => a end).

(* ---- d42.generation._random.Random ---- *)
Definition random_int (a b : Z) : M Z := randint a b.

Definition random_choice {A} (l : list A) : M A := choice l.

(* "".join(random.choice(alphabet) for _ in range(length)) *)
Definition random_str (length : Z) (alphabet : pystr) : M pystr :=
  msequence (repeat (choice alphabet) (Z.to_nat length)).

(* int(x) raising as CPython does *)
Definition r_py_int (x : float) : result Z :=
  match py_int x with
  | Some z => Ok z
  | None => if is_nan x then Raise ValueError else Raise OverflowError end.

(* Random.random_float(start, end, precision) *)
Definition random_float (a b : float) (prec : option Z) : M float :=
  if PrimFloat.ltb b a then mraise ValueError
  else match prec with
       | None => uniform a b
       | Some p =>
           (* 10 ** precision: a negative precision gives a float scale factor; the
              declaration layer only lets non-negative ints through, callers guarantee it *)
           let sc := scale10 p in
           dom l <- mlift (r_py_int (PrimFloat.mul a sc));
           dom r <- mlift (r_py_int (PrimFloat.mul b sc));
           dom k <- randint l r;
           (* min(max(round(k / 10**p, p), start), end): Python's two-argument max/min keep
              the first argument unless the second is strictly greater / smaller *)
           let x := py_round_nd (py_truediv k (10 ^ p)) p in
           let y := if PrimFloat.ltb x a then a else x in
           ret (if PrimFloat.ltb b y then b else y)
       end.
