(* Migrate: executable model of d42/migration/migrate_v1_to_v2.py [rewrite_imports].
   Definitions only (proofs live in proofs/MigrateSpec.v).

   What the code sees of a module, and what the model keeps of it:
     * [lines = io.StringIO(source_code, newline='').readlines()] -> a list of physical lines; of a
       physical line only the pieces of TOP-LEVEL statements lying on it are kept
       ([Frag s k n] = "the k-th of the n physical-line pieces of statement s"), left to
       right; comments, blank space, separators are not represented (a comment-only or
       blank line is []).
     * [tree.body] of [ast.parse(source_code)]          -> a list of items = statement with
       its 0-based first and last physical line (lineno-1, end_lineno-1).
   A statement is either [ImportFrom level module names] (names with optional asname) or an
   opaque [Other id] (id = identity of its ast.dump).  Nested statements are inside their
   top-level [Other]. *)
Require Import D42.Prelude.
Open Scope nat_scope.

(* ------------------------------------------------------------------ abstract syntax *)
Notation alias := (pystr * option pystr)%type (only parsing).   (* ast.alias: name, asname *)

Inductive stmt :=
| ImportFrom (level : nat) (module : option pystr) (names : list alias)
| Other (id : N).

Definition alias_eqb (a b : alias) : bool :=
  str_eqb (fst a) (fst b) && option_eqb str_eqb (snd a) (snd b).

Definition stmt_eqb (a b : stmt) : bool :=
  match a, b with
  | ImportFrom l m ns, ImportFrom l' m' ns' =>
      Nat.eqb l l' && option_eqb str_eqb m m' && list_eqb alias_eqb ns ns'
  | Other i, Other j => N.eqb i j
  | _, _ => false
  end.

(* the v1 -> v2 table: {module: {name: (new_module, new_name)}} in dict order *)
Definition mapping_t := list (pystr * list (pystr * (pystr * pystr))).

Fixpoint assoc {B} (k : pystr) (l : list (pystr * B)) : option B :=
  match l with
  | [] => None
  | (k', v) :: r => if str_eqb k k' then Some v else assoc k r
  end.

(* [module in mapping and name in mapping[module]] then [mapping[module][name]] *)
Definition lookup2 (mp : mapping_t) (m : option pystr) (n : pystr) : option (pystr * pystr) :=
  match m with
  | None => None
  | Some m => match assoc m mp with None => None | Some d => assoc n d end
  end.

(* ------------------------------------------------------------------ one ImportFrom *)
(* new_imports = defaultdict(list); new_imports[k].append(v): a new key goes last *)
Fixpoint dd_add (k : pystr) (v : alias) (d : list (pystr * list alias)) : list (pystr * list alias) :=
  match d with
  | [] => [(k, [v])]
  | (k', vs) :: d' => if str_eqb k k' then (k', vs ++ [v]) :: d' else (k', vs) :: dd_add k v d'
  end.

(* body of [for alias in node.names]; acc = (new_imports, unmapped_names) *)
Definition rw_step (mp : mapping_t) (m : option pystr)
           (acc : list (pystr * list alias) * list alias) (a : alias)
  : list (pystr * list alias) * list alias :=
  match lookup2 mp m (fst a) with
  | Some (nm, nn) => (dd_add nm (nn, snd a) (fst acc), snd acc)
  | None => (fst acc, snd acc ++ [a])
  end.

(* replacement_lines, one statement per line: one from-import per new module in
   first-occurrence order, then the unmapped remainder from the original module *)
Definition rewrite_import (mp : mapping_t) (m : option pystr) (ns : list alias) : list stmt :=
  let acc := fold_left (rw_step mp m) ns ([], []) in
  map (fun g => ImportFrom 0 (Some (fst g)) (snd g)) (fst acc)
  ++ match snd acc with [] => [] | u => [ImportFrom 0 m u] end.

(* [isinstance(node, ast.ImportFrom)] and not [node.level > 0] *)
Definition rewritten (s : stmt) : bool :=
  match s with ImportFrom 0 _ _ => true | _ => false end.

(* what the property expects at the place of statement s *)
Definition rewrite_stmt (mp : mapping_t) (s : stmt) : list stmt :=
  match s with
  | ImportFrom 0 m ns => rewrite_import mp m ns
  | _ => [s]
  end.

(* local name -> (module, name) bound by a list of absolute from-imports *)
Definition local_name (a : alias) : pystr :=
  match snd a with Some x => x | None => fst a end.

Definition bindings_of (s : stmt) : list (pystr * (option pystr * pystr)) :=
  match s with
  | ImportFrom 0 m ns => map (fun a => (local_name a, (m, fst a))) ns
  | _ => []
  end.

Definition bindings (ss : list stmt) := flat_map bindings_of ss.

(* the binding the property asks for, for one imported name of [from m import ...] *)
Definition expected_binding (mp : mapping_t) (m : option pystr) (a : alias)
  : pystr * (option pystr * pystr) :=
  match lookup2 mp m (fst a) with
  | Some (nm, nn) => (local_name a, (Some nm, nn))
  | None => (local_name a, (m, fst a))
  end.

(* the names a list of statements imports from module M, left to right *)
Definition names_from (M : option pystr) (ss : list stmt) : list alias :=
  flat_map (fun s => match s with
                     | ImportFrom 0 m' ns => if option_eqb str_eqb M m' then ns else []
                     | _ => []
                     end) ss.

Definition sel (M m : option pystr) (u : list alias) : list alias :=
  if option_eqb str_eqb M m then u else [].

(* what one imported name of [from m import ...] contributes to the imports from M *)
Definition contrib (mp : mapping_t) (m M : option pystr) (a : alias) : list alias :=
  match lookup2 mp m (fst a) with
  | Some (nm, nn) => sel M (Some nm) [(nn, snd a)]
  | None => sel M m [a]
  end.

(* ------------------------------------------------------------------ physical lines *)
Inductive frag := Frag (s : stmt) (part total : nat).
Notation line := (list frag) (only parsing).
(* a position = (0-based physical line, index among the pieces of that line); the model's
   image of (lineno - 1, col_offset) and (end_lineno - 1, end_col_offset): the first is the
   position OF the statement's first piece, the second the position AFTER its last piece *)
Notation pos := (nat * nat)%type (only parsing).
Notation item := (stmt * (nat * nat) * (nat * nat))%type (only parsing).
Definition it_stmt (it : item) : stmt := fst (fst it).

(* what the grammar guarantees about a statement: a from-import names at least one name *)
Definition stmt_wf (s : stmt) : bool :=
  match s with ImportFrom _ _ [] => false | _ => true end.

(* an open statement: (statement, its start position, next part expected, parts in total) *)
Definition pstate := option (stmt * (nat * nat) * nat * nat).

Definition prepend (it : item) (r : list item * pstate) : list item * pstate :=
  (it :: fst r, snd r).

(* the pieces from column c on of line i when no statement is open: each must be a first
   piece; a statement continuing on the next physical line must be the last thing on this one *)
Fixpoint eat_frags (i c : nat) (l : line) : option (list item * pstate) :=
  match l with
  | [] => Some ([], None)
  | Frag s k n :: l' =>
      if stmt_wf s && (k =? 0) then
        if n =? 1 then option_map (prepend (s, (i, c), (i, S c))) (eat_frags i (S c) l')
        else if 2 <=? n then
               match l' with [] => Some ([], Some (s, (i, c), 1, n)) | _ => None end
             else None
      else None
  end.

(* every physical line inside an open statement starts with that statement's next piece *)
Definition eat_line (i : nat) (st : pstate) (l : line) : option (list item * pstate) :=
  match st with
  | None => eat_frags i 0 l
  | Some (s0, p0, k0, n0) =>
      match l with
      | [] => None
      | Frag s k n :: l' =>
          if stmt_eqb s s0 && (k =? k0) && (n =? n0) then
            if S k0 =? n0 then option_map (prepend (s0, p0, (i, 1))) (eat_frags i 1 l')
            else match l' with [] => Some ([], Some (s0, p0, S k0, n0)) | _ => None end
          else None
      end
  end.

Fixpoint parse_lines (i : nat) (st : pstate) (ls : list line) : option (list item) :=
  match ls with
  | [] => match st with None => Some [] | Some _ => None end
  | l :: ls' =>
      match eat_line i st l with
      | None => None
      | Some (its, st') =>
          match parse_lines (S i) st' ls' with
          | None => None
          | Some rest => Some (its ++ rest)
          end
      end
  end.

(* the top-level statements with their positions, as ast.parse reads them off the physical
   lines; None = not a sequence of whole statements (SyntaxError) *)
Definition ast_view (ls : list line) : option (list item) := parse_lines 0 None ls.
Definition stmts_of (ls : list line) : option (list stmt) := option_map (map it_stmt) (ast_view ls).

(* ------------------------------------------------------------------ rewrite_imports *)
Definition stmt_frag (s : stmt) : frag := Frag s 0 1.
Definition stmt_line (s : stmt) : line := [stmt_frag s].   (* f'{statement}\n' *)

(* (node.lineno-1, node.col_offset), (node.end_lineno-1, node.end_col_offset), statements *)
Notation replacement := ((nat * nat) * (nat * nat) * list stmt)%type (only parsing).

(* the loop [for node in tree.body]: one replacement per absolute ImportFrom *)
Definition replacements (mp : mapping_t) (body : list item) : list replacement :=
  flat_map (fun it : item =>
              match it with
              | (ImportFrom 0 m ns, p, q) => [(p, q, rewrite_import mp m ns)]
              | _ => []
              end) body.

Definition is_nil {A} (l : list A) : bool := match l with [] => true | _ => false end.

(* one iteration of the final loop.
     prefix = lines[start_line] up to col_offset      -> the pieces before the import on its first line
     suffix = lines[end_line] from end_col_offset on  -> the pieces after it on its last line
   [prefix.strip() or not (rest.startswith('#') or rest.strip('\r\n') == '')]: other code shares
   the first or last line  -> here: a piece before or a piece after (blanks, one ';' and a
   comment are not represented).  Then the lines are replaced by ONE line
   prefix + '; '.join(statements) + suffix, otherwise by one line per statement.
   [lines[a:b+1] = ...] is Python slice assignment (an empty slice at a when b+1 < a);
   [lines[a]] / [lines[b]] out of range would be an IndexError in Python and is [] here - it
   cannot happen when the positions are those of [ast_view ls] (the theorems' hypothesis). *)
Definition splice (r : replacement) (ls : list line) : list line :=
  let '((a, p), (b, q), stmts) := r in
  let prefix := firstn p (nth a ls []) in
  let suffix := skipn q (nth b ls []) in
  if negb (is_nil prefix) || negb (is_nil suffix)
  then firstn a ls ++ [prefix ++ map stmt_frag stmts ++ suffix] ++ skipn (Nat.max a (S b)) ls
  else firstn a ls ++ map stmt_line stmts ++ skipn (Nat.max a (S b)) ls.

(* [for ... in reversed(replacements)]: the last replacement is applied first *)
Definition apply_replacements (reps : list replacement) (ls : list line) : list line :=
  fold_right splice ls reps.

(* [ls] = the line list, [body] = ast view of the same source; None = "nothing to do" *)
Definition rewrite_imports (mp : mapping_t) (ls : list line) (body : list item) : option (list line) :=
  match replacements mp body with
  | [] => None
  | reps => Some (apply_replacements reps ls)
  end.

(* the whole function on a source given by its physical lines, when both views agree *)
Definition rewrite_source (mp : mapping_t) (ls : list line) : result (option (list line)) :=
  match ast_view ls with
  | None => Raise OtherExn                                 (* ast.parse: SyntaxError *)
  | Some body => Ok (rewrite_imports mp ls body)
  end.

(* ------------------------------------------------------------------ decidable hypotheses *)
Definition pos_eqb (a b : nat * nat) : bool := (fst a =? fst b) && (snd a =? snd b).
Definition item_eqb (a b : item) : bool :=
  stmt_eqb (it_stmt a) (it_stmt b) && pos_eqb (snd (fst a)) (snd (fst b)) && pos_eqb (snd a) (snd b).

(* the positions ast reports are positions in the list the implementation splits *)
Definition aligned (ls : list line) (body : list item) : bool :=
  option_eqb (list_eqb item_eqb) (ast_view ls) (Some body).

(* some rewritten import shares a physical line with another piece (layout only: decides
   between the one-line and the line-per-statement replacement) *)
Definition frag_rewritten (f : frag) : bool := let 'Frag s _ _ := f in rewritten s.
Definition line_disjoint (ls : list line) : bool :=
  forallb (fun l : line => negb (existsb frag_rewritten l) || (length l =? 1)) ls.

(* ------------------------------------------------------------------ table predicates *)
Definition flat_mapping (mp : mapping_t) : list (pystr * pystr * (pystr * pystr)) :=
  flat_map (fun md => map (fun e => (fst md, fst e, snd e)) (snd md)) mp.

Definition exports_t := list (pystr * (bool * list pystr)).  (* module, importable, names it has *)

Definition target_exported (ex : exports_t) (e : pystr * pystr * (pystr * pystr)) : bool :=
  let '(_, _, (nm, nn)) := e in
  match assoc nm ex with
  | Some (true, names) => existsb (str_eqb nn) names
  | _ => false
  end.

Definition keeps_name (e : pystr * pystr * (pystr * pystr)) : bool :=
  let '(_, n, (_, nn)) := e in str_eqb n nn.

(* "d42" or "d42.<...>" *)
Definition in_package (pkg m : pystr) : bool :=
  str_eqb m pkg || is_prefix (pkg ++ [46%N]) m.
