(* Prelude: result monad, strings as code-point lists, small list utilities.
   Definitions only (proofs live in proofs/). *)
From Coq Require Export NArith ZArith List Bool Lia Arith.
Export ListNotations.

Definition pystr := list N.             (* a Python str: Unicode code points *)

(* Python exceptions the modelled code can let escape *)
Inductive pyexn :=
| ValueError | IndexError | OverflowError | AttributeError | TypeError | KeyError
| ReError | NameError | OtherExn.

(* the library's own exception classes *)
Inductive errkind := DeclErr | SubstErr.

Inductive result (A : Type) :=
| Ok (a : A)
| Err (k : errkind)
| Raise (e : pyexn).
Arguments Ok {A} a.
Arguments Err {A} k.
Arguments Raise {A} e.

Definition bind {A B} (r : result A) (f : A -> result B) : result B :=
  match r with Ok a => f a | Err k => Err k | Raise e => Raise e end.
Notation "'do' x <- r ; k" := (bind r (fun x => k))
  (at level 200, x pattern, r at level 100, k at level 200, right associativity).

Definition rmap {A B} (f : A -> B) (r : result A) : result B :=
  match r with Ok a => Ok (f a) | Err k => Err k | Raise e => Raise e end.

Definition is_ok {A} (r : result A) : bool := match r with Ok _ => true | _ => false end.

(* sequence a list of results, left to right, stopping at the first failure *)
Fixpoint rsequence {A} (l : list (result A)) : result (list A) :=
  match l with
  | [] => Ok []
  | r :: rest => do a <- r; do l' <- rsequence rest; Ok (a :: l')
  end.

Definition eq_kind (a b : errkind) : bool :=
  match a, b with DeclErr, DeclErr | SubstErr, SubstErr => true | _, _ => false end.
Definition eq_exn (a b : pyexn) : bool :=
  match a, b with
  | ValueError, ValueError | IndexError, IndexError | OverflowError, OverflowError
  | AttributeError, AttributeError | TypeError, TypeError | KeyError, KeyError
  | ReError, ReError | NameError, NameError | OtherExn, OtherExn => true
  | _, _ => false end.

(* ---- list utilities ---- *)
Fixpoint list_eqb {A} (eqb : A -> A -> bool) (a b : list A) : bool :=
  match a, b with
  | [], [] => true
  | x :: a', y :: b' => eqb x y && list_eqb eqb a' b'
  | _, _ => false
  end.

Definition str_eqb : pystr -> pystr -> bool := list_eqb N.eqb.
Definition Nmem (c : N) (s : pystr) : bool := existsb (N.eqb c) s.

Fixpoint is_prefix (a b : pystr) : bool :=
  match a, b with
  | [], _ => true
  | x :: a', y :: b' => N.eqb x y && is_prefix a' b'
  | _ :: _, [] => false
  end.
(* Python: a in b *)
Fixpoint infix (a b : pystr) : bool :=
  is_prefix a b || match b with [] => false | _ :: b' => infix a b' end.

Definition option_eqb {A} (eqb : A -> A -> bool) (a b : option A) : bool :=
  match a, b with
  | None, None => true
  | Some x, Some y => eqb x y
  | _, _ => false end.

Definition is_none {A} (o : option A) : bool := match o with None => true | Some _ => false end.
Definition is_some {A} (o : option A) : bool := negb (is_none o).

Definition zlen {A} (l : list A) : Z := Z.of_nat (length l).

(* indices 0 .. n-1 paired with the elements *)
Definition enumerate {A} (l : list A) : list (nat * A) := combine (seq 0 (length l)) l.

Fixpoint last_opt {A} (l : list A) : option A :=
  match l with [] => None | [x] => Some x | _ :: r => last_opt r end.
