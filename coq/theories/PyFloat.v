(* CPython float helpers over Coq's primitive binary64 floats, bit-exact:
   int(x), round(x), round(x, n), int / int, math.isclose, x * 10**p.
   Exact integer arithmetic on the (sign, mantissa, exponent) view. *)
From Coq Require Import ZArith List Bool Lia PrimFloat Uint63 SpecFloat FloatOps.
Import ListNotations.
Open Scope Z_scope.

Inductive fview := FNan | FInf (neg : bool) | FFin (neg : bool) (m : Z) (e : Z).
(* FFin s m e denotes (-1)^s * m * 2^e with m >= 0 *)
Definition view (f : float) : fview :=
  match Prim2SF f with
  | S754_nan => FNan
  | S754_infinity s => FInf s
  | S754_zero s => FFin s 0 0
  | S754_finite s m e => FFin s (Zpos m) e
  end.

Definition mkf (s : bool) (m e : Z) : float := SF2Prim (S754_finite s (Z.to_pos m) e).

(* bit equality (distinguishes -0.0 / 0.0, identifies all NaNs) *)
Definition same (a b : float) : bool :=
  match Prim2SF a, Prim2SF b with
  | S754_nan, S754_nan => true
  | S754_zero s, S754_zero t => Bool.eqb s t
  | S754_infinity s, S754_infinity t => Bool.eqb s t
  | S754_finite s m e, S754_finite t n g => Bool.eqb s t && Pos.eqb m n && Z.eqb e g
  | _, _ => false end.

Definition is_nan (f : float) : bool := match view f with FNan => true | _ => false end.
Definition is_inf (f : float) : bool := match view f with FInf _ => true | _ => false end.
Definition is_finite (f : float) : bool := match view f with FFin _ _ _ => true | _ => false end.

Definition emin := -1074.
Definition emax_exp := 971.

Definition round_div_even (n d : Z) : Z :=   (* round(n/d) half even, n>=0, d>0 *)
  let q := n / d in let r := n mod d in
  match (2*r ?= d) with Lt => q | Gt => q+1 | Eq => if Z.even q then q else q+1 end.

Definition q2f_pos (n d : Z) : float :=  (* nearest-even double to n/d, n>0, d>0 *)
  let e0 := Z.log2 n - Z.log2 d - 53 in
  let e1 := Z.max e0 emin in
  let scaled e := if 0 <=? e then round_div_even n (d * 2^e) else round_div_even (n * 2^(-e)) d in
  let m1 := scaled e1 in
  let '(m, e) := if m1 <? 2^53 then (m1, e1) else let e2 := e1+1 in (scaled e2, e2) in
  let '(m, e) := if m <? 2^53 then (m, e) else (m / 2, e+1) in
  if m =? 0 then zero
  else if emax_exp <? e then infinity
  else SF2Prim (S754_finite false (Z.to_pos m) e).

Definition q2f (n d : Z) : float := (* d > 0 *)
  if n =? 0 then zero else if n <? 0 then PrimFloat.opp (q2f_pos (-n) d) else q2f_pos n d.

(* Python: a / b on ints (b <> 0), correctly rounded; overflow gives infinity here,
   CPython raises OverflowError - callers guard with [truediv_overflows]. *)
Definition py_truediv (a b : Z) : float := if b <? 0 then q2f (-a) (-b) else q2f a b.

(* Python: float(z) for an int (OverflowError when infinite - callers guard) *)
Definition of_Z (z : Z) : float := q2f z 1.

(* Python: int(x); None = raises (OverflowError for inf, ValueError for nan) *)
Definition py_int (f : float) : option Z :=
  match view f with
  | FFin s m e => let a := if 0 <=? e then m * 2^e else m / 2^(-e) in Some (if s then -a else a)
  | _ => None end.

(* Python: round(x) -> int, half even; None = raises *)
Definition py_round (f : float) : option Z :=
  match view f with
  | FFin s m e =>
      let a := if 0 <=? e then m * 2^e else round_div_even m (2^(-e)) in Some (if s then -a else a)
  | _ => None end.

(* Python: round(x, p) for p >= 0 : exact decimal half-even, then nearest double *)
Definition py_round_nd (f : float) (p : Z) : float :=
  match view f with
  | FFin s m e =>
     let num := m * 10^p in
     let k := if 0 <=? e then num * 2^e else round_div_even num (2^(-e)) in
     if k =? 0 then (if s then PrimFloat.opp zero else zero)
     else let r := q2f k (10^p) in if s then PrimFloat.opp r else r
  | _ => f end.

(* 10 ** p as used in  value * 10**p  (int converted to float by the multiplication) *)
Definition scale10 (p : Z) : float := of_Z (10 ^ p).

Definition rel_tol_default : float := mkf false 4835703278458517 (-82).   (* 1e-09 *)

(* math.isclose(a, b, rel_tol, abs_tol) on floats *)
Definition isclose_gen (a b rel_tol abs_tol : float) : bool :=
  if PrimFloat.eqb a b then true
  else if is_inf a || is_inf b then false
  else
    let diff := PrimFloat.abs (PrimFloat.sub b a) in
    PrimFloat.leb diff (PrimFloat.abs (PrimFloat.mul rel_tol b))
    || PrimFloat.leb diff (PrimFloat.abs (PrimFloat.mul rel_tol a))
    || PrimFloat.leb diff abs_tol.
Definition isclose (a b : float) : bool := isclose_gen a b rel_tol_default zero.

(* value/precision comparison of the (repaired) validator:
     try: round(a*10**p) == round(b*10**p)  except (OverflowError, ValueError): a == b *)
Definition prec_equal (a b : float) (p : Z) : bool :=
  match py_round (PrimFloat.mul a (scale10 p)), py_round (PrimFloat.mul b (scale10 p)) with
  | Some x, Some y => Z.eqb x y
  | _, _ => PrimFloat.eqb a b
  end.
