(* C17: what seeded generation may depend on besides the seed. *)
Require Import D42.Prelude D42.Value D42.Regex D42.Schema D42.PyRandom D42.RegexGen D42.Generate.

(* no negated class / NOT_LITERAL node anywhere in a pattern (the only site that iterates a
   set: "".join(set(letters) - set(excluded)) in _generate_not_in) *)
Fixpoint re_no_neg (r : re) : bool :=
  match r with
  | RNotLit _ => false
  | RIn neg _ => negb neg
  | RBranch alts => forallb (fun alt => forallb (fun r0 => re_no_neg r0) alt) alts
  | RGroup body => forallb (fun r0 => re_no_neg r0) body
  | RRepeat _ _ _ body => forallb (fun r0 => re_no_neg r0) body
  | _ => true end.

(* no unfixed uuid4 / datetime / date (they draw from the OS and the clock) and no negated
   class in any pattern, anywhere in the schema *)
Fixpoint env_free (negs_ok : bool) (s : schema) {struct s} : bool :=
  match s with
  | SStr _ _ _ _ _ _ pat =>
      match pat with Some (_, p) => negs_ok || forallb re_no_neg p | None => true end
  | SList es ty _ _ _ =>
      match es with
      | None => true
      | Some l => forallb (fun x => x)
                    (map (fun o => match o with Some e => env_free negs_ok e | None => true end) l) end &&
      match ty with None => true | Some t => env_free negs_ok t end
  | SDict (Some l) =>
      forallb (fun x => x)
        (map (fun e : dentry => match de_schema e with Some t => env_free negs_ok t | None => true end) l)
  | SAny (Some l) => forallb (fun x => x) (map (fun t => env_free negs_ok t) l)
  | SUuid None | SDatetime None | SDate None => false
  | SAlias _ t => env_free negs_ok t
  | SCustom t => env_free negs_ok t
  | _ => true
  end.

(* fake() over a sequence of schemas, threading the tape *)
Fixpoint gen_seq (w : world) (ss : list schema) : M (list value) :=
  match ss with
  | [] => ret []
  | s :: r => dom v <- gen w s; dom vs <- gen_seq w r; ret (v :: vs)
  end.
