(* d42/substitution/_substitutor.py : schema % value. *)
From Coq Require Import PrimFloat.
Require Import D42.Prelude D42.Value D42.Regex D42.Schema D42.Validate D42.FromNative.
Open Scope Z_scope.

(* Substitutor._from_native: ValueError becomes SubstitutionError, anything else passes *)
Definition sub_from_native (v : value) : result schema :=
  match from_native v with
  | Raise ValueError => Err SubstErr
  | r => r end.

Definition is_vell (v : value) : bool := match v with VEllipsis => true | _ => false end.

Definition substfn := value -> result schema.

(* elements of the result for positions outside the matched window *)
Definition natives (l : list value) : result (list (option schema)) :=
  rmap (map Some) (rsequence (map sub_from_native l)).

(* Substitutor._substitute_elements(value, elements, start) *)
Fixpoint subst_run (fs : list (option substfn)) (l : list value) (idx : nat)
  : result (list (option schema)) :=
  match fs with
  | [] => Ok []
  | f :: fs' =>
      match nth_error l idx with
      | None => Err SubstErr                              (* "Index out of range" *)
      | Some x =>
          match f with
          | None => Raise AttributeError                  (* `...`.__accept__ *)
          | Some f =>
              do s <- f x;
              do rest <- subst_run fs' l (S idx);
              Ok (Some s :: rest)
          end
      end
  end.

Definition subst_elements (fs : list (option substfn)) (l : list value) (start : nat)
  : result (list (option schema)) :=
  do mid <- subst_run fs l start;
  do suffix <- natives (skipn (start + length mid) l);     (* appended first ... *)
  do prefix <- natives (firstn start l);                   (* ... then the prefix *)
  Ok (prefix ++ mid ++ suffix).

(* try each window; only SubstitutionError is swallowed *)
Fixpoint first_window (fs : list (option substfn)) (l : list value) (idxs : list nat)
  : result (list (option schema)) :=
  match idxs with
  | [] => Err SubstErr                                      (* no window fits *)
  | i :: rest =>
      match subst_elements fs l i with
      | Err SubstErr => first_window fs l rest
      | r => r
      end
  end.

Definition subst_list_elements (fs : list (option substfn)) (l : list value)
  : result (list (option schema)) :=
  if existsb is_vell l then Err SubstErr else
  let mid := middle fs in
  match classify fs with
  | FBody => first_window mid l (seq 0 (length l))
  | FHead => subst_elements mid l 0
  | FTail => subst_elements mid l (length l - length mid)
  | FExact => subst_elements mid l 0
  end.

(* Python dict assignment d[k] = x : override in place or append *)
Fixpoint dict_set {V} (k : key) (x : V) (d : list (key * V)) : list (key * V) :=
  match d with
  | [] => [(k, x)]
  | (k', y) :: r => if key_eqb k k' then (k', x) :: r else (k', y) :: dict_set k x r
  end.

Definition set_entry (k : key) (s : option schema) (o : bool) (d : list dentry) : list dentry :=
  map (fun e => (fst e, fst (snd e), snd (snd e)))
      (dict_set k (s, o) (map (fun e : dentry => (de_key e, (de_schema e, de_opt e))) d)).

(* untyped / relaxed-only dict: every member via from_native *)
Fixpoint native_entries (d : list (key * value)) (acc : list dentry) : result (list dentry) :=
  match d with
  | [] => Ok acc
  | (k, x) :: r =>
      (* `...: ...` keeps the dict relaxed; under a real key `...` stands for any value *)
      do s <- (if is_vell x then Ok (if is_kell k then None else Some (SAny None))
               else rmap Some (sub_from_native x));
      native_entries r (set_entry k s false acc)
  end.

Definition subst_dict_entries (fs : list (key * (option schema * option substfn * bool)))
           (d : list (key * value)) : result (list dentry) :=
  if has_key KEll d then Err SubstErr else
  do ents <- rsequence (map (fun e : key * (option schema * option substfn * bool) =>
      let '(k, (orig, f, opt)) := e in
      match assoc k d with
      | Some x =>
          if is_vell x then Ok (k, orig, false)
          else match f with
               | None => Raise AttributeError
               | Some f => do s <- f x; Ok (k, Some s, false)
               end
      | None => Ok (k, orig, opt)
      end) fs);
  if forallb (fun kv => declared (fst kv) fs) d then Ok ents else Err SubstErr.

Fixpoint any_subst (fs : list substfn) (v : value) : result (list schema) :=
  match fs with
  | [] => Ok []
  | f :: r =>
      match f v with
      | Ok s => do rest <- any_subst r v; Ok (s :: rest)
      | Err SubstErr => any_subst r v
      | Err k => Err k
      | Raise e => Raise e
      end
  end.

Definition as_intv (v : value) : option intv :=
  match v with VInt z => Some (IInt z) | VBool b => Some (IBool b) | _ => None end.

Fixpoint substitute (s : schema) (v : value) {struct s} : result schema :=
  match s with
  | SAlias nm t => do t' <- substitute t v; Ok (SAlias nm t')
  | SCustom t => do t' <- substitute t v; Ok (SCustom t')
  | _ =>
    match validate Subst s [] v with
    | _ :: _ => Err SubstErr
    | [] =>
      match s with
      | SNone => Ok SNone
      | SBool _ => match v with VBool b => Ok (SBool (Some b)) | _ => Raise OtherExn end
      | SInt _ mn mx => match as_intv v with Some i => Ok (SInt (Some i) mn mx) | None => Raise OtherExn end
      | SFloat val mn mx pr =>
          match v with
          | VFloat x =>
              (* a declared value is kept (it is compared with a tolerance) *)
              Ok (SFloat (match val with Some e => Some e | None => Some x end) mn mx pr)
          | _ => Raise OtherExn end
      | SStr _ len mnl mxl al sub pat =>
          match v with VStr x => Ok (SStr (Some x) len mnl mxl al sub pat) | _ => Raise OtherExn end
      | SBytes _ => match v with VBytes b => Ok (SBytes (Some b)) | _ => Raise OtherExn end
      | SUuid _ => match v with VUuid n => Ok (SUuid (Some n)) | _ => Raise OtherExn end
      | SDatetime _ => match v with VDatetime a us => Ok (SDatetime (Some (a, us))) | _ => Raise OtherExn end
      | SDate _ => Ok (SDate (Some v))
      | SList es ty len mnl mxl =>
          match v with
          | VList l =>
              if (negb (Nat.eqb (length l) 0)) && forallb is_vell l then Err SubstErr else
              (* `...` only as the first or the last item of the value (value[1:-1]) *)
              if existsb is_vell (removelast (tl l)) then Err SubstErr else
              match ty, es with
              | None, None =>
                  do els <- rsequence (map (fun x => if is_vell x then Ok None
                                                     else rmap Some (sub_from_native x)) l);
                  Ok (SList (Some els) None len mnl mxl)
              | Some t, _ =>
                  do els <- rsequence (map (fun x => if is_vell x then Ok None
                                                     else rmap Some (substitute t x)) l);
                  Ok (SList (Some els) None len mnl mxl)
              | None, Some es' =>
                  do els <- subst_list_elements
                              (map (fun e => match e with
                                             | Some sch => Some (substitute sch)
                                             | None => None end) es') l;
                  Ok (SList (Some els) None len mnl mxl)
              end
          | _ => Raise OtherExn
          end
      | SDict ks =>
          match v with
          | VDict d =>
              let relaxed_only :=
                match ks with
                | None => true
                | Some ents => Nat.eqb (length ents) 1 && declared KEll (map (fun e : dentry => (de_key e, tt)) ents)
                end in
              if relaxed_only then
                do ents <- native_entries d [];
                Ok (SDict (Some (match ks with
                                 | Some _ => set_entry KEll None false ents
                                 | None => ents end)))
              else
                match ks with
                | None => Raise OtherExn
                | Some ents0 =>
                    do ents <- subst_dict_entries
                                 (map (fun e : dentry =>
                                         (de_key e,
                                          (de_schema e,
                                           match de_schema e with
                                           | Some sch => Some (substitute sch)
                                           | None => None end, de_opt e))) ents0) d;
                    Ok (SDict (Some ents))
                end
          | _ => Raise OtherExn
          end
      | SAny ts =>
          match ts with
          | None => do s' <- sub_from_native v; Ok (SAny (Some [s']))
          | Some ts' =>
              do kept <- any_subst (map (fun t => substitute t) ts') v;
              match kept with
              | [] => Err SubstErr
              | _ => Ok (SAny (Some kept))
              end
          end
      | SAlias _ _ | SCustom _ => Raise OtherExn    (* unreachable: handled above *)
      end
    end
  end.
