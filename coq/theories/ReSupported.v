(* A decidable description of the patterns on which the regex generator returns a string for
   EVERY tape: no unsupported node or category anywhere, every class / negated class / branch
   offers at least one candidate, every repeat range is non-empty. *)
Require Import D42.Prelude D42.Regex D42.PyRandom D42.RegexGen.
Open Scope N_scope.

Definition is_nil {A} (l : list A) : bool := match l with [] => true | _ => false end.

Definition item_total (c : gcfg) (it : citem) : bool :=
  match it with
  | CLit _ => true
  | CRange lo hi => lo <=? hi
  | CCat CDigit => negb (is_nil (g_digits c))
  | CCat CWord => negb (is_nil (g_word c))
  | CCat (COtherCat _) => false end.

(* exclude_letters as a total function (only meaningful when the categories are supported) *)
Fixpoint excluded (c : gcfg) (items : list citem) : pystr :=
  match items with
  | [] => []
  | CRange lo hi :: rest => nrange lo hi ++ excluded c rest
  | CCat CDigit :: rest => g_digits c ++ excluded c rest
  | CCat CWord :: rest => g_word c ++ excluded c rest
  | CCat (COtherCat _) :: rest => excluded c rest
  | CLit x :: rest => [x] ++ excluded c rest end.

Definition neg_total (c : gcfg) (items : list citem) : bool :=
  items_supported items && negb (is_nil (set_diff (g_letters c) (excluded c items))).

Fixpoint re_supported (c : gcfg) (r : re) : bool :=
  match r with
  | RLit _ => true
  | RNotLit x => neg_total c [CLit x]
  | RAny => negb (is_nil (g_letters c))
  | RIn false items => negb (is_nil items) && forallb (item_total c) items
  | RIn true items => neg_total c items
  | RBranch alts => negb (is_nil alts) &&
                    forallb (fun alt => forallb (fun r0 => re_supported c r0) alt) alts
  | RGroup body => forallb (fun r0 => re_supported c r0) body
  | RRepeat _ mn mx body =>
      match mx with Some m => mn <=? m | None => true end &&
      forallb (fun r0 => re_supported c r0) body
  | RAt _ => true
  | RUnsupported _ => false end.
