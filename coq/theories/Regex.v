(* Regular expressions: the sre.parse tree (as far as d42's generator distinguishes it)
   and an executable matcher (Brzozowski derivatives) standing for re.search/re.fullmatch
   on the supported fragment. *)
Require Import D42.Prelude.
Open Scope N_scope.

Inductive cat := CDigit | CWord | COtherCat (code : N).        (* \d, \w, anything else *)
Inductive citem := CLit (c : N) | CRange (lo hi : N) | CCat (k : cat).
Inductive atk := AtBeg | AtBegString | AtEnd | AtEndString | AtOther (code : N).   (* ^ \A $ \Z *)

Inductive re :=
| RLit (c : N)
| RNotLit (c : N)
| RAny
| RIn (neg : bool) (items : list citem)
| RBranch (alts : list (list re))
| RGroup (body : list re)                                  (* capturing, non-capturing, named *)
| RRepeat (lazy : bool) (mn : N) (mx : option N) (body : list re)   (* mx = None : MAXREPEAT *)
| RAt (k : atk)
| RUnsupported (opcode : N).

(* ---- character classes (ASCII semantics for \d and \w; see DESIGN trusted base) ---- *)
Definition is_digit (c : N) : bool := (48 <=? c) && (c <=? 57).
Definition is_word (c : N) : bool :=
  is_digit c || ((65 <=? c) && (c <=? 90)) || ((97 <=? c) && (c <=? 122)) || (c =? 95).
Definition cat_mem (k : cat) (c : N) : bool :=
  match k with CDigit => is_digit c | CWord => is_word c | COtherCat _ => false end.
Definition item_mem (it : citem) (c : N) : bool :=
  match it with
  | CLit x => c =? x
  | CRange lo hi => (lo <=? c) && (c <=? hi)
  | CCat k => cat_mem k c end.

Inductive cset := CS (neg : bool) (items : list citem).
Definition cset_mem (cs : cset) (c : N) : bool :=
  match cs with CS neg items => xorb neg (existsb (fun it => item_mem it c) items) end.

(* ---- core regular expressions and derivatives ---- *)
Inductive rx := Void | Eps | Chr (cs : cset) | Cat (a b : rx) | Alt (a b : rx) | Star (a : rx).

Fixpoint nullable (r : rx) : bool :=
  match r with
  | Void => false | Eps => true | Chr _ => false
  | Cat a b => nullable a && nullable b
  | Alt a b => nullable a || nullable b
  | Star _ => true end.

Definition mkCat (a b : rx) : rx :=
  match a, b with
  | Void, _ | _, Void => Void
  | Eps, _ => b
  | _, Eps => a
  | _, _ => Cat a b end.
Definition mkAlt (a b : rx) : rx :=
  match a, b with
  | Void, _ => b
  | _, Void => a
  | _, _ => Alt a b end.

Fixpoint deriv (c : N) (r : rx) : rx :=
  match r with
  | Void => Void | Eps => Void
  | Chr cs => if cset_mem cs c then Eps else Void
  | Cat a b => if nullable a then mkAlt (mkCat (deriv c a) b) (deriv c b) else mkCat (deriv c a) b
  | Alt a b => mkAlt (deriv c a) (deriv c b)
  | Star a => mkCat (deriv c a) (Star a) end.

Fixpoint rx_match (r : rx) (s : pystr) : bool :=
  match s with [] => nullable r | c :: s' => rx_match (deriv c r) s' end.

(* ---- translation of the parse tree ---- *)
Fixpoint rx_pow (r : rx) (n : nat) : rx := match n with O => Eps | S k => mkCat r (rx_pow r k) end.

Definition rx_seq (l : list (option rx)) : option rx :=
  fold_right (fun o acc => match o, acc with Some a, Some b => Some (mkCat a b) | _, _ => None end)
             (Some Eps) l.
Definition rx_alts (l : list (option rx)) : option rx :=
  fold_right (fun o acc => match o, acc with Some a, Some b => Some (mkAlt a b) | _, _ => None end)
             (Some Void) l.

Definition any_cs : cset := CS true [CLit 10].       (* . : everything but newline *)
Definition all_cs : cset := CS true [].               (* every character *)

Definition cat_supported (k : cat) : bool := match k with COtherCat _ => false | _ => true end.
Definition items_supported (items : list citem) : bool :=
  forallb (fun it => match it with CCat k => cat_supported k | _ => true end) items.

Fixpoint to_rx (r : re) : option rx :=
  match r with
  | RLit c => Some (Chr (CS false [CLit c]))
  | RNotLit c => Some (Chr (CS true [CLit c]))
  | RAny => Some (Chr any_cs)
  | RIn neg items => if items_supported items then Some (Chr (CS neg items)) else None
  | RBranch alts =>
      rx_alts (map (fun alt => rx_seq (map (fun r0 => to_rx r0) alt)) alts)
  | RGroup body => rx_seq (map (fun r0 => to_rx r0) body)
  | RRepeat _ mn mx body =>
      match rx_seq (map (fun r0 => to_rx r0) body) with
      | None => None
      | Some b =>
          match mx with
          | None => Some (mkCat (rx_pow b (N.to_nat mn)) (Star b))
          | Some m =>
              if m <? mn then Some Void
              else Some (mkCat (rx_pow b (N.to_nat mn)) (rx_pow (mkAlt Eps b) (N.to_nat (m - mn))))
          end
      end
  | RAt _ => None
  | RUnsupported _ => None
  end.

Definition seq_to_rx (body : list re) : option rx := rx_seq (map to_rx body).

(* anchors at the two ends of the top-level sequence *)
Inductive endk := EndOpen | EndDollar | EndZ.
Definition strip_begin (p : list re) : bool * list re :=
  match p with
  | RAt AtBeg :: r | RAt AtBegString :: r => (true, r)
  | _ => (false, p) end.
Definition strip_end (p : list re) : list re * endk :=
  match rev p with
  | RAt AtEnd :: r => (rev r, EndDollar)
  | RAt AtEndString :: r => (rev r, EndZ)
  | _ => (p, EndOpen) end.

Definition sigma_star : rx := Star (Chr all_cs).
Definition opt_newline : rx := Alt Eps (Chr (CS false [CLit 10])).

(* re.search(p, s) is not None *)
Definition search_rx (p : list re) : option rx :=
  let '(b, p1) := strip_begin p in
  let '(p2, e) := strip_end p1 in
  match seq_to_rx p2 with
  | None => None
  | Some body =>
      let pre := if b then Eps else sigma_star in
      let post := match e with EndOpen => sigma_star | EndDollar => opt_newline | EndZ => Eps end in
      Some (Cat pre (Cat body post))
  end.
Definition searchb (p : list re) (s : pystr) : option bool :=
  match search_rx p with Some r => Some (rx_match r s) | None => None end.

(* re.fullmatch(p, s) is not None *)
Definition fullmatch_rx (p : list re) : option rx :=
  let '(_, p1) := strip_begin p in
  let '(p2, e) := strip_end p1 in
  match seq_to_rx p2 with
  | None => None
  | Some body =>
      (* with $ the engine may stop before a final newline only if fullmatch's own end
         condition holds, i.e. never: the match must reach the end of the string *)
      Some body
  end.
Definition fullmatchb (p : list re) (s : pystr) : option bool :=
  match fullmatch_rx p with Some r => Some (rx_match r s) | None => None end.

Definition re_modelled (p : list re) : bool := is_some (search_rx p).
