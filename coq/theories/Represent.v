(* d42/representation/_representor.py : repr(schema) as the DSL expression it prints, and
   the evaluation of such expressions with the declaration model (theories/Declare.v).

   The TEXT layer (repr of int/float/str/bytes/UUID/datetime literals, indentation, commas)
   is not modelled: [expr] is the call-chain tree, literals carry values.  The harness parses
   the real repr() text with ast.parse, normalises it to an [expr] and compares it with
   [represent] of the abstracted schema (and evaluates the text on the implementation).
   Definitions only; proofs are in proofs/RepresentSpec.v. *)
From Coq Require Import PrimFloat.
Require Import D42.Prelude D42.PyFloat D42.Value D42.Regex D42.Schema D42.Validate D42.Declare.
Open Scope Z_scope.

Inductive expr :=
| EBase (k : kind)                                     (* schema.<kind> *)
| EMeth (recv : expr) (m : meth) (args : list expr)    (* recv.m(args);  m = MCall: recv(args) *)
| ELit (v : value)                                     (* a literal, `...` included *)
| EPat (src : pystr) (tree : list re)                  (* the str literal given to regex() *)
| EListD (items : list expr)                           (* [ e, ... ] *)
| EDictD (items : list (dkey * expr))                  (* { k: e, optional(k): e, ...: ... } *)
| EOpaque.                                             (* text that is no expression: Name<...> *)

Definition lit_int (i : intv) : expr := ELit (of_intv i).

(* the shared tail of visit_str / visit_list *)
Definition len_suffix (r : expr) (len mnl mxl : option intv) : expr :=
  match len with
  | Some k => EMeth r MLen [lit_int k]
  | None =>
      match mnl, mxl with
      | Some a, Some b => EMeth r MLen [lit_int a; lit_int b]
      | Some a, None => EMeth r MLen [lit_int a; ELit VEllipsis]
      | None, Some b => EMeth r MLen [ELit VEllipsis; lit_int b]
      | None, None => r
      end
  end.

(* `if props.x is not Nil: r += ".m(x)"` *)
Definition opt_meth {A} (o : option A) (r : expr) (m : meth) (lit : A -> expr) : expr :=
  match o with Some a => EMeth r m [lit a] | None => r end.

Definition ell_lit : expr := ELit VEllipsis.

Fixpoint represent (s : schema) : expr :=
  match s with
  | SNone => EBase KdNone
  | SBool v => opt_meth v (EBase KdBool) MCall (fun b => ELit (VBool b))
  | SInt v mn mx =>
      let r := opt_meth v (EBase KdInt) MCall lit_int in
      let r := opt_meth mn r MMin lit_int in
      opt_meth mx r MMax lit_int
  | SFloat v mn mx pr =>
      let r := opt_meth v (EBase KdFloat) MCall (fun f => ELit (VFloat f)) in
      let r := opt_meth mn r MMin (fun f => ELit (VFloat f)) in
      let r := opt_meth mx r MMax (fun f => ELit (VFloat f)) in
      opt_meth pr r MPrecision lit_int
  | SStr v len mnl mxl al sub pat =>
      let r := opt_meth v (EBase KdStr) MCall (fun x => ELit (VStr x)) in
      let r := opt_meth al r MAlphabet (fun x => ELit (VStr x)) in
      let r := opt_meth sub r MContains (fun x => ELit (VStr x)) in
      let r := opt_meth pat r MRegex (fun pt => EPat (fst pt) (snd pt)) in
      len_suffix r len mnl mxl
  | SList es ty len mnl mxl =>
      let r := EBase KdList in
      let r :=
        match ty with
        | Some t => EMeth r MCall [represent t]
        | None =>
            match es with
            | Some [] => EMeth r MCall [EListD []]
            | Some l =>
                EMeth r MCall
                  [EListD (map (fun o => match o with Some e => represent e | None => ell_lit end) l)]
            | None => r
            end
        end in
      len_suffix r len mnl mxl
  | SDict ks =>
      let r := EBase KdDict in
      match ks with
      | None => r
      | Some [] => EMeth r MCall [EDictD []]
      | Some l =>
          (* (a one-entry key table holding only `...` is printed on one line; same tree) *)
          EMeth r MCall
            [EDictD (map (fun e : dentry =>
                            if is_kell (de_key e) then (DKey KEll, ell_lit)
                            else ((if de_opt e then DOpt (de_key e) else DKey (de_key e)),
                                  match de_schema e with
                                  | Some t => represent t
                                  | None => EOpaque          (* `...`.__accept__ : AttributeError *)
                                  end)) l)]
      end
  | SAny ts =>
      match ts with
      | None => EBase KdAny
      | Some l => EMeth (EBase KdAny) MCall (map (fun t => represent t) l)
      end
  | SBytes v => opt_meth v (EBase KdBytes) MCall (fun b => ELit (VBytes b))
  | SUuid v => opt_meth v (EBase KdUuid) MCall (fun n => ELit (VUuid n))
  | SDatetime v => opt_meth v (EBase KdDatetime) MCall (fun p => ELit (VDatetime (fst p) (snd p)))
  | SDate v => opt_meth v (EBase KdDate) MCall (fun x => ELit x)
  | SAlias _ _ => EOpaque
  | SCustom t => represent t     (* the forwarding custom type: __represent__ hands the visitor to the wrapped schema *)
  end.

(* ---- evaluation: Python evaluates the receiver, then the arguments left to right ---- *)
Fixpoint evalA (e : expr) : result arg :=
  match e with
  | EBase k => Ok (ASchema (bare k))
  | EMeth r m args =>
      do a <- evalA r;
      match a with
      | ASchema s =>
          do xs <- rsequence (map (fun x => evalA x) args);
          rmap ASchema (decl m s xs)
      | _ => Raise AttributeError
      end
  | ELit v => Ok (AVal v)
  | EPat src tree => Ok (APattern src tree true)     (* the stored pattern did compile *)
  | EListD items => do l <- rsequence (map (fun x => evalA x) items); Ok (AList l)
  | EDictD items =>
      do l <- rsequence (map (fun kx : dkey * expr => rmap (fun a => (fst kx, a)) (evalA (snd kx))) items);
      Ok (ADict l)
  | EOpaque => Raise OtherExn
  end.

Definition eval (e : expr) : result schema :=
  do a <- evalA e;
  match a with ASchema s => Ok s | _ => Raise TypeError end.

(* no type alias, no custom type, at any depth *)
Fixpoint alias_custom_free (s : schema) : bool :=
  match s with
  | SList es ty _ _ _ =>
      match es with
      | None => true
      | Some l => forallb (fun x => x)
                    (map (fun o => match o with Some e => alias_custom_free e | None => true end) l)
      end &&
      match ty with None => true | Some t => alias_custom_free t end
  | SDict (Some l) =>
      forallb (fun x => x)
        (map (fun e => match de_schema e with Some t => alias_custom_free t | None => true end) l)
  | SAny (Some l) => forallb (fun x => x) (map (fun t => alias_custom_free t) l)
  | SAlias _ _ => false
  | SCustom _ => false
  | _ => true
  end.

Fixpoint arg_acf (a : arg) : bool :=
  match a with
  | ASchema s => alias_custom_free s
  | AList l => forallb (fun x => x) (map (fun x => arg_acf x) l)
  | ADict d => forallb (fun x => x) (map (fun kx => arg_acf (snd kx)) d)
  | _ => true
  end.
Definition args_acf (args : list arg) : bool := forallb arg_acf args.
