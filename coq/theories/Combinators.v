(* Schema combinators (C13), definitions only:
     a | b                 d42/declaration/__init__.py        union  = schema.any(self, other)
     schema.any(a, b, ...) d42/declaration/types/_any_schema.py  AnySchema.__call__, _flatten_schemas
     d1 + d2               d42/declaration/types/_dict_schema.py DictSchema.__add__
     d[key], iter(d), d.keys(), key in d     (same file)
     make_required(d, ks)  d42/utils/_make_required.py
     schema.alias(n, t)    d42/declaration/_schema_facade.py
   Every operation that can raise is in the [result] monad; the exception classes are the
   ones the code raises, in the order the code tests things. *)
Require Import D42.Prelude D42.Value D42.Regex D42.Schema D42.Validate D42.CaseLib.

(* ------------------------------------------------------------------ any / | *)

(* AnySchema._flatten_schemas on one operand: an AnySchema *instance* with declared types is
   replaced by its (recursively flattened) alternatives; a bare schema.any (types Nil), an
   alias of an any, a custom type around an any are kept as they are (isinstance test on the
   operand itself only). *)
Fixpoint flatten1 (s : schema) : list schema :=
  match s with
  | SAny (Some ts) => flat_map flatten1 ts
  | _ => [s]
  end.

Definition flatten (ts : list schema) : list schema := flat_map flatten1 ts.

(* AnySchema.__call__(self, type_, *types); [base] = self.props.types.
   - no positional argument: Python's TypeError (missing 'type_');
   - (operands that are not schemas: DeclarationError - not expressible here, the harness
     checks it directly);
   - types already declared: DeclarationError;
   - otherwise a new AnySchema whose types are the flattened operands. *)
Definition any_call (base : option (list schema)) (args : list schema) : result schema :=
  match args with
  | [] => Raise TypeError
  | _ :: _ =>
      match base with
      | Some _ => Err DeclErr
      | None => Ok (SAny (Some (flatten args)))
      end
  end.

(* a | b : Schema.__or__ is overridden by union(self, other) = schema.any(self, other) on a
   fresh schema.any, whatever the class of the left operand *)
Definition s_or (a b : schema) : result schema := any_call None [a; b].

(* AnySchema.__iter__ ; [types] = self.props.types *)
Definition any_iter (types : option (list schema)) : list schema :=
  match types with Some ts => ts | None => [] end.

(* ------------------------------------------------------------------ dict entries *)

Definition entries_of (ks : option (list dentry)) : list dentry :=
  match ks with Some l => l | None => [] end.        (* props.keys if not Nil else {} *)

Definition has_dkey (k : key) (l : list dentry) : bool :=
  existsb (fun e => key_eqb k (de_key e)) l.           (* key in props.keys *)

Fixpoint find_entry (k : key) (l : list dentry) : option dentry :=
  match l with
  | [] => None
  | e :: r => if key_eqb k (de_key e) then Some e else find_entry k r
  end.

(* Python dict assignment merged[k] = (schema, optional): an existing key keeps its position
   (and its key object), a new key is appended *)
Fixpoint dset (e : dentry) (d : list dentry) : list dentry :=
  match d with
  | [] => [e]
  | e' :: r =>
      if key_eqb (de_key e) (de_key e')
      then (de_key e', de_schema e, de_opt e) :: r
      else e' :: dset e r
  end.

(* {**self_keys, **other_keys} *)
Definition merge_entries (e1 e2 : list dentry) : list dentry :=
  fold_left (fun acc e => dset e acc) e2 e1.

(* DictSchema.__add__(self, other).  A left operand that is not a DictSchema reaches
   Schema.__add__ (AttributeError); a right operand that is not a DictSchema: TypeError.
   An undeclared operand (keys Nil) contributes {} - the result always has declared keys. *)
Definition dict_add (a b : schema) : result schema :=
  match a with
  | SDict k1 =>
      match b with
      | SDict k2 => Ok (SDict (Some (merge_entries (entries_of k1) (entries_of k2))))
      | _ => Raise TypeError
      end
  | _ => Raise AttributeError
  end.

(* DictSchema.keys() / __iter__ : every key of props.keys in insertion order - the relaxed
   marker `...` included, it is an ordinary key of that dict *)
Definition iter_keys (s : schema) : result (list key) :=
  match s with
  | SDict ks => Ok (map de_key (entries_of ks))
  | _ => Raise TypeError
  end.

(* key in d : no __contains__, Python falls back to iteration *)
Definition contains_key (s : schema) (k : key) : result bool :=
  do ks <- iter_keys s; Ok (existsb (key_eqb k) ks).

(* DictSchema.__getitem__ : KeyError when keys is Nil, the key is not declared or the key
   is `...`; else the first component of the entry (a schema; [None] = the `...` object,
   which only an ill-formed entry can hold).  Other schema classes are not subscriptable. *)
Definition getitem (s : schema) (k : key) : result (option schema) :=
  match s with
  | SDict None => Raise KeyError
  | SDict (Some l) =>
      match find_entry k l with
      | None => Raise KeyError
      | Some e => if is_kell k then Raise KeyError else Ok (de_schema e)
      end
  | _ => Raise TypeError
  end.

(* ------------------------------------------------------------------ make_required *)

(* make_required(schema, keys=None):
   1. schema not a DictSchema -> DeclarationError
   2. (keys not a set/list/tuple/None -> DeclarationError: not expressible, harness checks)
   3. keys None -> set(schema.keys())          (contains `...` for a relaxed schema)
   4. any requested key not in props.keys ({} when Nil) -> DeclarationError
   5. keys Nil -> the schema itself; else every entry whose key is requested gets
      optional := False, the others are copied (so the `...` entry is never changed). *)
Definition make_required (s : schema) (ks : option (list key)) : result schema :=
  match s with
  | SDict dk =>
      let ents := entries_of dk in
      let req := match ks with Some l => l | None => map de_key ents end in
      if negb (forallb (fun k => has_dkey k ents) req) then Err DeclErr else
      match dk with
      | None => Ok s
      | Some l =>
          Ok (SDict (Some (map (fun e : dentry =>
                                  (de_key e, de_schema e,
                                   if existsb (key_eqb (de_key e)) req then false else de_opt e)) l)))
      end
  | _ => Err DeclErr
  end.

(* ------------------------------------------------------------------ alias *)
(* SchemaFacade.alias(name, type_): no check at all, never raises *)
Definition alias (name : pystr) (t : schema) : schema := SAlias (Some name) t.

(* ------------------------------------------------------------------ textbook merge *)
(* the rule a reader would write down for d1 + d2, independent of dict assignment order:
   d1's entries in place, each replaced by d2's entry for the same key if there is one,
   followed by d2's entries whose key d1 does not declare *)
Definition merged_spec (e1 e2 : list dentry) : list dentry :=
  map (fun e => match find_entry (de_key e) e2 with
                | Some e' => (de_key e, de_schema e', de_opt e')
                | None => e end) e1
  ++ filter (fun e => negb (has_dkey (de_key e) e1)) e2.

(* ------------------------------------------------------------------ case checkers *)
Inductive comb_op :=
| OpOr (a b : schema)
| OpAny (base : option (list schema)) (args : list schema)
| OpAdd (a b : schema)
| OpReq (d : schema) (ks : option (list key))
| OpAlias (name : pystr) (t : schema).

Definition comb_eval (o : comb_op) : result schema :=
  match o with
  | OpOr a b => s_or a b
  | OpAny base args => any_call base args
  | OpAdd a b => dict_add a b
  | OpReq d ks => make_required d ks
  | OpAlias n t => Ok (alias n t)
  end.

(* (operation, observed resulting schema or exception) *)
Definition combcase := (comb_op * result schema)%type.
Definition combcase_ok (c : combcase) : bool :=
  let '(o, obs) := c in result_same schema_same (comb_eval o) obs.

(* d[k] : observed member *)
Definition getcase := (schema * key * result (option schema))%type.
Definition getcase_ok (c : getcase) : bool :=
  let '(s, k, obs) := c in
  result_same (option_eqb schema_same) (getitem s k) obs.

(* list(d), and `k in d` for a probe key *)
Definition itercase := (schema * key * result (list key) * result bool)%type.
Definition itercase_ok (c : itercase) : bool :=
  let '(s, k, obs, obsin) := c in
  result_same (list_eqb key_eqb) (iter_keys s) obs &&
  result_same Bool.eqb (contains_key s k) obsin.

(* list(schema.any(...)) *)
Definition anyitercase := (schema * list schema)%type.
Definition anyitercase_ok (c : anyitercase) : bool :=
  let '(s, obs) := c in
  match s with
  | SAny ts => list_eqb schema_same (any_iter ts) obs
  | _ => false end.

(* d1 + d2 on wf operands is the textbook merge (checked on every generated pair as well
   as proved) *)
Definition addcase := (schema * schema)%type.
Definition addcase_ok (c : addcase) : bool :=
  let '(a, b) := c in
  match a, b with
  | SDict k1, SDict k2 =>
      negb (wf a && wf b) ||
      result_same schema_same (dict_add a b)
                  (Ok (SDict (Some (merged_spec (entries_of k1) (entries_of k2)))))
  | _, _ => true
  end.
