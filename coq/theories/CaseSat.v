(* case checker for the decidable satisfiability predicate [satb] (theories/SatB.v) *)
Require Import D42.Prelude D42.PyFloat D42.Value D42.Regex D42.Schema D42.Validate D42.CaseLib
               D42.PyRandom D42.RegexGen D42.Generate D42.SatB.

(* (uuid, now, today, schema, expected verdict of satb) *)
Definition satcase := (N * Z * Z * schema * bool)%type.

Definition satcase_ok (c : satcase) : bool :=
  let '(u, now, today, s, expected) := c in
  let w := mk_world u now today sort_cp in
  Bool.eqb (satb w s) expected.
