(* Rollout: executable model of d42/utils/_rollout.py (definitions only).

   def rollout(keys, *, separator="."):
       updated = {}
       for comp_key, val in keys.items():
           if is_ellipsis(comp_key):
               if not is_ellipsis(val): raise ValueError(...)
               updated[comp_key] = val; continue
           is_optional = False
           if isinstance(comp_key, optional): comp_key = comp_key.key; is_optional = True
           if not isinstance(comp_key, str): raise TypeError(...)
           parts = comp_key.split(separator)
           key = parts[0]
           if len(parts) == 1:
               updated[optional(key) if is_optional else key] = val
           else:
               if key not in updated: updated[key] = {}
               tail = separator.join(parts[1:])
               updated[key][optional(tail) if is_optional else tail] = val
       for k, v in updated.items():
           updated[k] = rollout(v, separator=separator) if isinstance(v, dict) else v
       return updated

   A Python dict is an insertion-ordered association list with pairwise distinct keys.
   Key equality: [optional.__eq__] is [isinstance(other, optional) and key == other.key] and
   [str.__eq__(s, optional)] is NotImplemented, so ["a"] and [optional("a")] are two different
   keys; [...] equals only itself.  Keys that are neither [...], a str nor optional(str)
   are [RKOther]: the loop raises TypeError on them before they can be stored.
   Leaf payloads are opaque ids (identity of the Python object); they are assumed not to be
   dicts and not to support item assignment ([leaf[tail] = val] raises TypeError). *)
Require Import D42.Prelude.

Inductive rkey :=
| RKEll
| RKStr (opt : bool) (s : pystr)
| RKOther.

Inductive rval :=
| RLeaf (id : N)
| RDict (es : list (rkey * rval))
| REll.

Definition rdict := list (rkey * rval).

Definition rkey_eqb (a b : rkey) : bool :=
  match a, b with
  | RKEll, RKEll => true
  | RKStr o s, RKStr o' s' => Bool.eqb o o' && str_eqb s s'
  | RKOther, RKOther => true
  | _, _ => false
  end.

(* d.get(k) *)
Fixpoint rlookup (k : rkey) (d : rdict) : option rval :=
  match d with
  | [] => None
  | (k', v) :: r => if rkey_eqb k' k then Some v else rlookup k r
  end.

(* d[k] = v : the value is replaced in place when the key is present (the old key object
   and its position are kept), otherwise the entry is appended *)
Fixpoint rinsert (k : rkey) (v : rval) (d : rdict) : rdict :=
  match d with
  | [] => [(k, v)]
  | (k', v') :: r => if rkey_eqb k' k then (k', v) :: r else (k', v') :: rinsert k v r
  end.

(* ---- str.split(sep) / sep.join for a non-empty separator ----
   [split_go sep s skip]: the segments of [s] after skipping [skip] characters (the rest
   of a separator occurrence that has just been recognised); leftmost non-overlapping
   occurrences, as CPython does. *)
Fixpoint split_go (sep s : pystr) (skip : nat) : list pystr :=
  match s with
  | [] => [[]]
  | c :: s' =>
      match skip with
      | S k => split_go sep s' k
      | O =>
          if is_prefix sep s then [] :: split_go sep s' (length sep - 1)
          else match split_go sep s' 0 with
               | h :: t => (c :: h) :: t
               | [] => [[c]]
               end
      end
  end.

Definition split (sep s : pystr) : list pystr := split_go sep s 0.

Fixpoint join (sep : pystr) (segs : list pystr) : pystr :=
  match segs with
  | [] => []
  | x :: rest => match rest with [] => x | _ => x ++ sep ++ join sep rest end
  end.

(* ---- one iteration of the first loop ---- *)
Definition step (sep : pystr) (upd : rdict) (e : rkey * rval) : result rdict :=
  let '(ck, v) := e in
  match ck with
  | RKEll => match v with REll => Ok (rinsert RKEll v upd) | _ => Raise ValueError end
  | RKOther => Raise TypeError
  | RKStr o s =>
      match sep with
      | [] => Raise ValueError                       (* str.split(""): empty separator *)
      | _ :: _ =>
          match split sep s with
          | [] => Raise OtherExn                     (* unreachable: split is never empty *)
          | [key] => Ok (rinsert (RKStr o key) v upd)
          | key :: rest =>
              let k := RKStr false key in
              let upd1 := match rlookup k upd with
                          | None => rinsert k (RDict []) upd
                          | Some _ => upd
                          end in
              match rlookup k upd1 with
              | Some (RDict es) =>
                  Ok (rinsert k (RDict (rinsert (RKStr o (join sep rest)) v es)) upd1)
              | _ => Raise TypeError                 (* leaf[tail] = val *)
              end
          end
      end
  end.

Definition loop (sep : pystr) (d : rdict) (acc : result rdict) : result rdict :=
  fold_left (fun acc e => do u <- acc; step sep u e) d acc.

(* out of fuel = Python's RecursionError, abstracted to OtherExn like every exception
   class the model has no constructor for *)
Fixpoint rollout (fuel : nat) (sep : pystr) (d : rdict) : result rdict :=
  match fuel with
  | O => Raise OtherExn
  | S f =>
      do upd <- loop sep d (Ok []);
      rsequence (map (fun kv : rkey * rval =>
                        match snd kv with
                        | RDict es => do r <- rollout f sep es; Ok (fst kv, RDict r)
                        | _ => Ok kv
                        end) upd)
  end.

(* ---- unambiguity of a segment list w.r.t. a separator ----
   [no_match_before sep x rest]: no occurrence of [sep] starts inside [x] in [x ++ rest] *)
Fixpoint no_match_before (sep x rest : pystr) : bool :=
  match x with
  | [] => true
  | _ :: x' => negb (is_prefix sep (x ++ rest)) && no_match_before sep x' rest
  end.

(* the leftmost occurrence of sep in [join sep (x :: rest)] is the one written by join,
   for every suffix of the segment list; the last segment contains no occurrence *)
Fixpoint unambiguous (sep : pystr) (segs : list pystr) : bool :=
  match segs with
  | [] => true
  | x :: rest =>
      match rest with
      | [] => negb (infix sep x)
      | _ => no_match_before sep x (sep ++ join sep rest) && unambiguous sep rest
      end
  end.

(* ---- nested mappings of the property: trees ----
   a mapping is a list of children (optional?, key segment, subtree) *)
Inductive tree :=
| TLeaf (id : N)
| TNode (cs : list (bool * pystr * tree)).

Definition tmap := list (bool * pystr * tree).

Definition ckey (c : bool * pystr * tree) : rkey := RKStr (fst (fst c)) (snd (fst c)).

(* flat entries: the ellipsis entry, or (optional?, path, payload) *)
Inductive fent :=
| FEll
| FE (o : bool) (p : list pystr) (id : N).

Definition fcons (k : pystr) (e : fent) : fent :=
  match e with FEll => FEll | FE o p id => FE o (k :: p) id end.

Fixpoint flatten_t (o : bool) (k : pystr) (t : tree) : list fent :=
  match t with
  | TLeaf id => [FE o [k] id]
  | TNode cs => map (fcons k) (flat_map (fun c => flatten_t (fst (fst c)) (snd (fst c)) (snd c)) cs)
  end.

Definition flatten_m (cs : tmap) : list fent :=
  flat_map (fun c => flatten_t (fst (fst c)) (snd (fst c)) (snd c)) cs.

(* the flat dict handed to rollout *)
Definition ent (sep : pystr) (e : fent) : rkey * rval :=
  match e with
  | FEll => (RKEll, REll)
  | FE o p id => (RKStr o (join sep p), RLeaf id)
  end.

Definition flat_all (ell : bool) (cs : tmap) : list fent :=
  flatten_m cs ++ (if ell then [FEll] else []).

(* the nested dict a tree stands for *)
Fixpoint of_tree (t : tree) : rval :=
  match t with
  | TLeaf id => RLeaf id
  | TNode cs => RDict (map (fun c => (ckey c, of_tree (snd c))) cs)
  end.

Definition of_tmap (ell : bool) (cs : tmap) : rdict :=
  map (fun c => (ckey c, of_tree (snd c))) cs ++ (if ell then [(RKEll, REll)] else []).

Fixpoint keys_nodupb (l : list rkey) : bool :=
  match l with
  | [] => true
  | k :: r => negb (existsb (rkey_eqb k) r) && keys_nodupb r
  end.

(* well-formed: distinct keys per level (as Python dict keys: optional("a") and "a" are
   distinct); [optional] only on leaves; every interior node below the root has a child *)
Fixpoint wf_tree (t : tree) : bool :=
  match t with
  | TLeaf _ => true
  | TNode cs =>
      negb (match cs with [] => true | _ => false end)
      && keys_nodupb (map ckey cs)
      && forallb (fun c => match snd c with
                           | TNode _ => negb (fst (fst c))
                           | TLeaf _ => true
                           end && wf_tree (snd c)) cs
  end.

Definition wf_tmap (cs : tmap) : bool :=
  keys_nodupb (map ckey cs)
  && forallb (fun c => match snd c with
                       | TNode _ => negb (fst (fst c))
                       | TLeaf _ => true
                       end && wf_tree (snd c)) cs.

Definition fent_unamb (sep : pystr) (e : fent) : bool :=
  match e with FEll => true | FE _ p _ => unambiguous sep p end.

Definition unambiguous_tmap (sep : pystr) (cs : tmap) : bool :=
  forallb (fent_unamb sep) (flatten_m cs).

(* sufficient conditions for unambiguity used in the statements:
   no segment contains the first character of the separator *)
Definition headfree (sep : pystr) (segs : list pystr) : bool :=
  match sep with
  | [] => false
  | c :: _ => forallb (fun seg => negb (Nmem c seg)) segs
  end.

(* every key segment of the mapping is separator-free (the property's own wording) *)
Definition sepfree_tmap (sep : pystr) (cs : tmap) : bool :=
  forallb (fun e => match e with
                    | FEll => true
                    | FE _ p _ => forallb (fun seg => negb (infix sep seg)) p
                    end) (flatten_m cs).

Fixpoint tdepth (t : tree) : nat :=
  match t with
  | TLeaf _ => 0
  | TNode cs => S (fold_right (fun c m => Nat.max (tdepth (snd c)) m) 0 cs)
  end.

Definition tmap_depth (cs : tmap) : nat :=
  fold_right (fun c m => Nat.max (tdepth (snd c)) m) 0 cs.

(* ---- Python's dict == (len equal, every key of a is in b with an == value) ---- *)
Fixpoint val_equiv (a b : rval) {struct a} : bool :=
  match a, b with
  | RLeaf i, RLeaf j => N.eqb i j
  | REll, REll => true
  | RDict x, RDict y =>
      Nat.eqb (length x) (length y)
      && forallb (fun kv : rkey * rval =>
                    match rlookup (fst kv) y with
                    | Some w => val_equiv (snd kv) w
                    | None => false
                    end) x
  | _, _ => false
  end.

Definition dict_equiv (a b : rdict) : bool := val_equiv (RDict a) (RDict b).

(* a legitimate Python dict: distinct keys on every level *)
Fixpoint val_keys_ok (v : rval) : bool :=
  match v with
  | RDict es => keys_nodupb (map fst es) && forallb (fun kv : rkey * rval => val_keys_ok (snd kv)) es
  | _ => true
  end.

Definition dict_keys_ok (d : rdict) : bool := val_keys_ok (RDict d).

(* ---- already nested input: separator-free str keys (plain or optional), [...: ...]
   entries, any values ---- *)
Definition nested_key_ok (sep : pystr) (kv : rkey * rval) : bool :=
  match fst kv with
  | RKEll => match snd kv with REll => true | _ => false end
  | RKStr _ s => negb (infix sep s)
  | RKOther => false
  end.

Fixpoint nested_ok (sep : pystr) (v : rval) : bool :=
  match v with
  | RDict es =>
      keys_nodupb (map fst es)
      && forallb (fun kv : rkey * rval => nested_key_ok sep kv && nested_ok sep (snd kv)) es
  | _ => true
  end.

Fixpoint vdepth (v : rval) : nat :=
  match v with
  | RDict es => S (fold_right (fun kv m => Nat.max (vdepth (snd kv)) m) 0 es)
  | _ => 0
  end.

(* ---- structural (order-sensitive) equality, for the correspondence ---- *)
Fixpoint rval_eqb (a b : rval) {struct a} : bool :=
  match a, b with
  | RLeaf i, RLeaf j => N.eqb i j
  | REll, REll => true
  | RDict x, RDict y =>
      (fix go (x y : list (rkey * rval)) : bool :=
         match x, y with
         | [], [] => true
         | (k, u) :: x', (k', w) :: y' => rkey_eqb k k' && rval_eqb u w && go x' y'
         | _, _ => false
         end) x y
  | _, _ => false
  end.

Definition rdict_eqb (a b : rdict) : bool := rval_eqb (RDict a) (RDict b).

(* a generous fuel for evaluating arbitrary inputs: every recursion level consumes at
   least one key character or one nesting level *)
Fixpoint vsize (v : rval) : nat :=
  match v with
  | RDict es =>
      S (fold_right (fun kv m =>
                       match fst kv with RKStr _ s => length s | _ => 0 end
                       + vsize (snd kv) + 1 + m) 0 es)
  | _ => 0
  end.

(* ---- correspondence cases: separator, input, observed outcome of the implementation ---- *)
Definition rocase := (pystr * rdict * result rdict)%type.

Definition rresult_eqb (a b : result rdict) : bool :=
  match a, b with
  | Ok x, Ok y => rdict_eqb x y
  | Err k, Err k' => eq_kind k k'
  | Raise e, Raise e' => eq_exn e e'
  | _, _ => false
  end.

Definition rocase_ok (c : rocase) : bool :=
  let '(sep, d, obs) := c in
  rresult_eqb (rollout (vsize (RDict d) + 1) sep d) obs.

(* ---- tree cases: the harness's tree abstraction of a generated nested mapping, the flat
   dict it handed to the implementation, the observed outcome, and the harness's own
   (independent, Python) verdict on the theorem's hypotheses.  Checked: the hypotheses of
   rollout_flatten_inverse evaluate to that verdict; when they hold the observed result
   satisfies the theorem's conclusion; the model predicts the observed outcome exactly. ---- *)
Definition entry_eqb (a b : rkey * rval) : bool :=
  rkey_eqb (fst a) (fst b) && rval_eqb (snd a) (snd b).

Definition is_perm_b (a b : rdict) : bool :=
  Nat.eqb (length a) (length b)
  && forallb (fun e => existsb (entry_eqb e) b) a
  && forallb (fun e => existsb (entry_eqb e) a) b.

Definition trcase := (pystr * bool * tmap * rdict * result rdict * bool)%type.

Definition tr_hyp (sep : pystr) (ell : bool) (cs : tmap) (d : rdict) : bool :=
  negb (match sep with [] => true | _ => false end)
  && wf_tmap cs && unambiguous_tmap sep cs
  && keys_nodupb (map fst d)
  && is_perm_b d (map (ent sep) (flat_all ell cs)).

Definition trcase_ok (c : trcase) : bool :=
  let '(sep, ell, cs, d, obs, expect) := c in
  let hyp := tr_hyp sep ell cs d in
  Bool.eqb hyp expect
  && (negb hyp || match obs with
                  | Ok r => dict_equiv r (of_tmap ell cs) && dict_keys_ok r
                  | _ => false
                  end)
  && rresult_eqb (rollout (vsize (RDict d) + 1) sep d) obs.
