(* d42 schemas: one constructor per built-in type, fields = the props that type can carry.
   [None] stands for "Nil or absent" (Props equality identifies the two). *)
From Coq Require Import PrimFloat.
Require Import D42.Prelude D42.Value D42.Regex.

Inductive schema :=
| SNone
| SBool (v : option bool)
| SInt (v mn mx : option intv)
| SFloat (v mn mx : option float) (prec : option intv)
| SStr (v : option pystr) (len mnl mxl : option intv) (alpha sub : option pystr)
       (pat : option (pystr * list re))                 (* source text and its sre.parse tree *)
| SList (es : option (list (option schema)))            (* element None = the ... marker *)
        (ty : option schema) (len mnl mxl : option intv)
| SDict (ks : option (list (key * option schema * bool)))    (* (key or ..., schema or ..., optional) *)
| SAny (ts : option (list schema))
| SBytes (v : option (list N))
| SUuid (v : option N)
| SDatetime (v : option (bool * Z))
| SDate (v : option value)                              (* a date or a datetime *)
| SAlias (name : option pystr) (ty : schema)
| SCustom (inner : schema).                             (* user type forwarding every hook *)

Definition dentry := (key * option schema * bool)%type.
Definition de_key (e : dentry) : key := fst (fst e).
Definition de_schema (e : dentry) : option schema := snd (fst e).
Definition de_opt (e : dentry) : bool := snd e.


(* ---- induction principle with premises for the nested occurrences ---- *)
Section SchemaInd.
  Variable P : schema -> Prop.
  Hypothesis HNone : P SNone.
  Hypothesis HBool : forall v, P (SBool v).
  Hypothesis HInt : forall v mn mx, P (SInt v mn mx).
  Hypothesis HFloat : forall v mn mx pr, P (SFloat v mn mx pr).
  Hypothesis HStr : forall v len mnl mxl al sub pat, P (SStr v len mnl mxl al sub pat).
  Hypothesis HList : forall es ty len mnl mxl,
      (forall l, es = Some l -> Forall (fun o => forall s, o = Some s -> P s) l) ->
      (forall t, ty = Some t -> P t) -> P (SList es ty len mnl mxl).
  Hypothesis HDict : forall ks,
      (forall l, ks = Some l -> Forall (fun e => forall s, de_schema e = Some s -> P s) l) ->
      P (SDict ks).
  Hypothesis HAny : forall ts, (forall l, ts = Some l -> Forall P l) -> P (SAny ts).
  Hypothesis HBytes : forall v, P (SBytes v).
  Hypothesis HUuid : forall v, P (SUuid v).
  Hypothesis HDatetime : forall v, P (SDatetime v).
  Hypothesis HDate : forall v, P (SDate v).
  Hypothesis HAlias : forall n t, P t -> P (SAlias n t).
  Hypothesis HCustom : forall t, P t -> P (SCustom t).

  Fixpoint schema_ind' (s : schema) : P s :=
    match s with
    | SNone => HNone
    | SBool v => HBool v
    | SInt v mn mx => HInt v mn mx
    | SFloat v mn mx pr => HFloat v mn mx pr
    | SStr v len mnl mxl al sub pat => HStr v len mnl mxl al sub pat
    | SList es ty len mnl mxl =>
        HList es ty len mnl mxl
          (fun l H =>
             match es as es0 return es0 = Some l -> Forall (fun o => forall s, o = Some s -> P s) l with
             | None => fun H0 => match (eq_ind None (fun e => match e with None => True | Some _ => False end) I _ H0) with end
             | Some l0 => fun H0 =>
                 match (f_equal (fun o => match o with Some x => x | None => l0 end) H0) in _ = l1
                       return Forall _ l1 with
                 | eq_refl =>
                     (fix go (l : list (option schema)) : Forall (fun o => forall s, o = Some s -> P s) l :=
                        match l with
                        | [] => Forall_nil _
                        | o :: l' =>
                            Forall_cons o
                              (match o as o0 return forall s, o0 = Some s -> P s with
                               | None => fun s H1 => match (eq_ind None (fun e => match e with None => True | Some _ => False end) I _ H1) with end
                               | Some s0 => fun s H1 =>
                                   match (f_equal (fun o => match o with Some x => x | None => s0 end) H1) in _ = s1 return P s1 with
                                   | eq_refl => schema_ind' s0 end
                               end) (go l')
                        end) l0
                 end
             end H)
          (fun t H =>
             match ty as ty0 return ty0 = Some t -> P t with
             | None => fun H0 => match (eq_ind None (fun e => match e with None => True | Some _ => False end) I _ H0) with end
             | Some t0 => fun H0 =>
                 match (f_equal (fun o => match o with Some x => x | None => t0 end) H0) in _ = t1 return P t1 with
                 | eq_refl => schema_ind' t0 end
             end H)
    | SDict ks =>
        HDict ks
          (fun l H =>
             match ks as ks0 return ks0 = Some l -> Forall (fun e => forall s, de_schema e = Some s -> P s) l with
             | None => fun H0 => match (eq_ind None (fun e => match e with None => True | Some _ => False end) I _ H0) with end
             | Some l0 => fun H0 =>
                 match (f_equal (fun o => match o with Some x => x | None => l0 end) H0) in _ = l1
                       return Forall _ l1 with
                 | eq_refl =>
                     (fix go (l : list dentry) : Forall (fun e => forall s, de_schema e = Some s -> P s) l :=
                        match l with
                        | [] => Forall_nil _
                        | e :: l' =>
                            Forall_cons e
                              (match e as e0 return forall s, de_schema e0 = Some s -> P s with
                               | (k, o, b) =>
                                   match o as o0 return forall s, o0 = Some s -> P s with
                                   | None => fun s H1 => match (eq_ind None (fun e => match e with None => True | Some _ => False end) I _ H1) with end
                                   | Some s0 => fun s H1 =>
                                       match (f_equal (fun o => match o with Some x => x | None => s0 end) H1) in _ = s1 return P s1 with
                                       | eq_refl => schema_ind' s0 end
                                   end
                               end) (go l')
                        end) l0
                 end
             end H)
    | SAny ts =>
        HAny ts
          (fun l H =>
             match ts as ts0 return ts0 = Some l -> Forall P l with
             | None => fun H0 => match (eq_ind None (fun e => match e with None => True | Some _ => False end) I _ H0) with end
             | Some l0 => fun H0 =>
                 match (f_equal (fun o => match o with Some x => x | None => l0 end) H0) in _ = l1 return Forall P l1 with
                 | eq_refl =>
                     (fix go (l : list schema) : Forall P l :=
                        match l with [] => Forall_nil _ | s :: l' => Forall_cons s (schema_ind' s) (go l') end) l0
                 end
             end H)
    | SBytes v => HBytes v
    | SUuid v => HUuid v
    | SDatetime v => HDatetime v
    | SDate v => HDate v
    | SAlias n t => HAlias n t (schema_ind' t)
    | SCustom t => HCustom t (schema_ind' t)
    end.
End SchemaInd.

(* ---- shape of element lists ---- *)
Inductive form := FBody | FHead | FTail | FExact.
Definition first_ell {A} (es : list (option A)) : bool :=
  match es with None :: _ => true | _ => false end.
Definition last_ell {A} (es : list (option A)) : bool :=
  match rev es with None :: _ => true | _ => false end.
(* the order of the tests in Validator.visit_list / Substitutor.visit_list *)
Definition classify {A} (es : list (option A)) : form :=
  let n := length es in
  if (2 <? n)%nat && first_ell es && last_ell es then FBody
  else if (2 <=? n)%nat && last_ell es then FHead
  else if (1 <=? n)%nat && first_ell es then FTail
  else FExact.

Definition strip {A} (es : list (option A)) : list A :=
  flat_map (fun o => match o with Some x => [x] | None => [] end) es.

(* elements[1:-1], elements[:-1], elements[1:] : what the code passes on for each form *)
Definition middle {A} (es : list (option A)) : list (option A) :=
  match classify es with
  | FBody => removelast (tl es)
  | FHead => removelast es
  | FTail => tl es
  | FExact => es
  end.

(* ---- well-formedness: what declaration and plain substitution produce ---- *)
(* `...` only as first/last element (and not [..., ...]); relaxed marker entry is
   (KEll, None, false); every real key has a schema; keys pairwise distinct. *)
Definition elems_wf {A} (es : list (option A)) : bool :=
  forallb is_some (middle es).

Fixpoint nodup_keys (l : list key) : bool :=
  match l with
  | [] => true
  | k :: r => negb (existsb (key_eqb k) r) && nodup_keys r
  end.

Definition entry_shape_ok (e : dentry) : bool :=
  match e with
  | (KEll, None, false) => true
  | (KEll, _, _) => false
  | (_, Some _, _) => true
  | _ => false end.

Definition pat_ok (pat : option (pystr * list re)) : bool :=
  match pat with None => true | Some (_, p) => re_modelled p end.

Fixpoint wf (s : schema) : bool :=
  match s with
  | SStr _ _ _ _ _ _ pat => pat_ok pat
  | SList es ty _ _ _ =>
      match es with
      | None => true
      | Some l => elems_wf l &&
                  forallb (fun x => x) (map (fun o => match o with Some e => wf e | None => true end) l)
      end &&
      match ty with None => true | Some t => wf t end
  | SDict (Some l) =>
      forallb entry_shape_ok l && nodup_keys (map de_key l) &&
      forallb (fun x => x) (map (fun e => match de_schema e with Some t => wf t | None => true end) l)
  | SAny (Some l) => forallb (fun x => x) (map (fun t => wf t) l)
  | SAlias _ t => wf t
  | SCustom t => wf t
  | _ => true
  end.
