(* Case checkers for the C19 correspondence (harness/props/c19.py): the model of
   rewrite_imports instantiated with the regenerated mapping, compared with what the
   implementation was observed to return. *)
Require Import D42.Prelude D42.Migrate.
Require Import D42Gen.GenMapping.
Open Scope nat_scope.

(* what the harness saw: None / text that ast.parse rejects / the top-level statements of
   ast.parse(output), abstracted like the input *)
Inductive observed := ObsNone | ObsInvalid | ObsStmts (ss : list stmt).

(* line list, ast view (statements with start/end positions), observed outcome, and three
   facts established on the Python side:
     py_aligned    the implementation's line list is the tokenizer's up to the last rewritten import
     expect_region the generator meant this input to satisfy the theorem's hypothesis
     oracle_failed the direct oracle found the property violated on this input *)
Definition mcase :=
  (list (list frag) * list (stmt * (nat * nat) * (nat * nat)) * observed * (bool * bool * bool))%type.

Definition implb (a b : bool) : bool := negb a || b.

Definition obs_matches (out : option (list (list frag))) (obs : observed) : bool :=
  match out, obs with
  | None, ObsNone => true
  | Some o, ObsStmts ss =>
      match stmts_of o with
      | Some ms => list_eqb stmt_eqb ms ss
      | None => true      (* the model's output is not a sequence of whole statements: no
                             prediction beyond "not None" (see migrate_damage_ok) *)
      end
  | Some o, ObsInvalid => match stmts_of o with None => true | Some _ => false end
  | _, _ => false
  end.

(* the model predicts what was observed *)
Definition migrate_case_ok (c : mcase) : bool :=
  let '(ls, body, obs, _) := c in
  obs_matches (rewrite_imports gen_mapping ls body) obs.

(* the hypothesis of rewrite_splice_correct: the ast view given is the one the lines have *)
Definition in_region (ls : list (list frag)) (body : list (stmt * (nat * nat) * (nat * nat))) : bool :=
  aligned ls body.

(* the Python classifier is at least as wide as the hypothesis, and the inputs meant to
   satisfy it do *)
Definition migrate_region_ok (c : mcase) : bool :=
  let '(ls, body, _, (py_aligned, expect_region, _)) := c in
  implb (in_region ls body) py_aligned && implb expect_region (in_region ls body).

(* when the model's output does not read back as whole statements the oracle must have failed *)
Definition migrate_damage_ok (c : mcase) : bool :=
  let '(ls, body, _, (_, _, oracle_failed)) := c in
  match rewrite_imports gen_mapping ls body with
  | None => true
  | Some o => implb (is_none (stmts_of o)) oracle_failed
  end.

(* inside the region the model's output is the theorem's right-hand side (a run-time
   re-check of rewrite_splice_correct / rewrite_none_iff on the cases, by computation) *)
Definition migrate_theorem_instance (c : mcase) : bool :=
  let '(ls, body, _, _) := c in
  implb (in_region ls body)
        (match rewrite_imports gen_mapping ls body with
         | None => forallb (fun it => negb (rewritten (it_stmt it))) body
         | Some o => option_eqb (list_eqb stmt_eqb) (stmts_of o)
                       (Some (flat_map (rewrite_stmt gen_mapping) (map it_stmt body)))
         end).

Definition migrate_case_full (c : mcase) : bool :=
  migrate_case_ok c && migrate_region_ok c && migrate_damage_ok c && migrate_theorem_instance c.
