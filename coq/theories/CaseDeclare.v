(* Case-file checks for C10 / C11 (declaration chains). *)
Require Import D42.Prelude D42.Value D42.Regex D42.Schema D42.Validate D42.CaseLib D42.Declare.

(* every pattern handed to [regex] that re.compile accepted lies in the matcher's fragment
   (otherwise the model cannot predict a value-vs-pattern check: fail closed) *)
Definition op_modelled (o : op) : bool :=
  match o with
  | (MRegex, [APattern _ tree true]) => re_modelled tree
  | _ => true end.

(* (receiver, chain, observed outcome of the implementation) *)
Definition dcase := (schema * list op * result schema)%type.
Definition dcase_ok (c : dcase) : bool :=
  let '(s, ops, obs) := c in
  forallb op_modelled ops && result_same schema_same (run ops s) obs.

(* all permutations of a (short) list *)
Fixpoint insert_all {A} (x : A) (l : list A) : list (list A) :=
  match l with
  | [] => [[x]]
  | y :: r => (x :: l) :: map (cons y) (insert_all x r)
  end.
Fixpoint perms {A} (l : list A) : list (list A) :=
  match l with
  | [] => [[]]
  | x :: r => flat_map (insert_all x) (perms r)
  end.

(* (receiver, set of refinements, the outcome every order gave on the implementation) *)
Definition pcase := (schema * list op * result schema)%type.
Definition pcase_ok (c : pcase) : bool :=
  let '(s, ops, obs) := c in
  forallb op_modelled ops &&
  forallb (fun p => result_same schema_same (run p s) obs) (perms ops).
