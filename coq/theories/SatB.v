(* A decidable version of [sat] (theories/Sat.v): [satb w s = true] implies [sat w s]
   for well-formed schemas (proofs/SatBSpec.v), so the hypothesis of C01's theorem can be
   established by computation.  Mirrors [sat] clause by clause; [world_ok] is not part of
   [sat] and stays out.  Definitions only. *)
From Coq Require Import PrimFloat.
Require Import D42.Prelude D42.PyFloat D42.Value D42.Regex D42.Schema D42.Validate D42.Conforms
               D42.PyRandom D42.RegexGen D42.ReSupported D42.Generate D42.Sat.
Require Import D42Gen.GenConsts.
Open Scope Z_scope.

Definition opt_holdsb {A} (o : option A) (f : A -> bool) : bool :=
  match o with Some a => f a | None => true end.

Definition len_okb (n : Z) (len mnl mxl : option intv) : bool :=
  opt_holdsb len (fun k => n =? iz k) &&
  opt_holdsb mnl (fun k => iz k <=? n) &&
  opt_holdsb mxl (fun k => n <=? iz k).

Definition satb_int (val mn mx : option intv) : bool :=
  match val with
  | Some i => opt_holdsb mn (fun m => iz m <=? iz i) && opt_holdsb mx (fun m => iz i <=? iz m)
  | None => match mn, mx with Some a, Some b => iz a <=? iz b | _, _ => true end
  end.

Definition satb_float (val mn mx : option float) (pr : option intv) : bool :=
  match val with
  | Some x => float_value_ok x x pr &&
              opt_holdsb mn (fun m => negb (PrimFloat.ltb x m)) &&
              opt_holdsb mx (fun m => negb (PrimFloat.ltb m x))
  | None =>
      match mn, mx with Some a, Some b => negb (PrimFloat.ltb b a) | _, _ => true end &&
      match pr with
      | None => true
      | Some p => prec_ok (fst (float_lo_hi mn mx)) (snd (float_lo_hi mn mx)) (iz p)
      end
  end.

(* al = Some [] -> len_ok (sub_len sub) len mnl mxl *)
Definition empty_alpha_okb (len mnl mxl : option intv) (al sub : option pystr) : bool :=
  match al with
  | Some [] => len_okb (sub_len sub) len mnl mxl
  | _ => true end.

Definition satb_str (w : world) (val : option pystr) (len mnl mxl : option intv) (al sub : option pystr)
           (pat : option (pystr * list re)) : bool :=
  match val with
  | Some x => verdict (SStr val len mnl mxl al sub pat) (VStr x)
  | None =>
      match pat with
      | Some (_, p) =>
          is_none len && is_none mnl && is_none mxl && is_none al && is_none sub && re_total p
      | None =>
          (* substr is written over the alphabet *)
          opt_holdsb al (fun a => opt_holdsb sub (fun t => forallb (fun c => Nmem c a) t)) &&
          match len with
          | Some k =>
              (0 <=? iz k) && (sub_len sub <=? iz k) && len_okb (iz k) len mnl mxl &&
              empty_alpha_okb len mnl mxl al sub
          | None =>
              let lo0 := opt_iz mnl STR_LEN_MIN in
              let hi0 := match mxl with Some k => iz k | None => Z.max STR_LEN_MAX lo0 end in
              let lo := match sub with Some t => Z.max lo0 (zlen t) | None => lo0 end in
              let hi := match sub with Some t => Z.max hi0 (zlen t) | None => hi0 end in
              (0 <=? lo) && (lo <=? hi) && opt_holdsb mxl (fun k => hi <=? iz k) &&
              empty_alpha_okb len mnl mxl al sub
          end
      end
  end.

Definition satb_list_len (len mnl mxl : option intv) : bool :=
  match len with
  | Some k => (0 <=? iz k) && len_okb (iz k) len mnl mxl
  | None =>
      let lo := opt_iz mnl LIST_LEN_MIN in
      let hi := match mxl with Some k => iz k | None => Z.max LIST_LEN_MAX lo end in
      (0 <=? lo) && (lo <=? hi)
  end.

Fixpoint satb (w : world) (s : schema) {struct s} : bool :=
  match s with
  | SNone => true
  | SBool _ => true
  | SInt val mn mx => satb_int val mn mx
  | SFloat val mn mx pr => satb_float val mn mx pr
  | SStr val len mnl mxl al sub pat => satb_str w val len mnl mxl al sub pat
  | SList es ty len mnl mxl =>
      match es with
      | Some es' =>
          is_none ty &&
          len_okb (padded_len es' (pad_target len mnl)) len mnl mxl &&
          forallb (fun x => x)
                  (map (fun o => match o with Some e => satb w e | None => true end) es')
      | None =>
          satb_list_len len mnl mxl &&
          match ty with Some t => satb w t | None => true end
      end
  | SDict ks =>
      match ks with
      | None => true
      | Some ents =>
          forallb (fun x => x)
                  (map (fun e : dentry =>
                          if is_kell (de_key e) || de_opt e then true
                          else match de_schema e with Some sch => satb w sch | None => false end) ents)
      end
  | SAny ts =>
      match ts with
      | None => true
      | Some ts' =>
          negb (match ts' with [] => true | _ => false end) &&
          forallb (fun x => x) (map (fun t => satb w t) ts')
      end
  | SBytes _ => true
  | SUuid val => opt_holdsb val uuid_is_v4
  | SDatetime _ => true
  | SDate val => opt_holdsb val (fun d => isinst TDate d)
  | SAlias _ t => satb w t
  | SCustom t => satb w t
  end.
