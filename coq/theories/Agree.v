(* "The same plain value": the relation C14 and C04 state their exactness claims with.
   Scalars equal, except that an int position also admits the bool with the same integer
   value (Python identifies True/False with 1/0) and a float position admits any float
   within math.isclose's default tolerance (the documented float tolerance; NaN matches NaN); lists
   element-wise and of the same length; dicts with the same key set, member-wise. *)
From Coq Require Import PrimFloat.
Require Import D42.Prelude D42.PyFloat D42.Value D42.Schema D42.Validate.

Inductive veq : value -> value -> Prop :=
| veq_none : veq VNone VNone
| veq_bool b : veq (VBool b) (VBool b)
| veq_int z w : as_int w = Some z -> veq (VInt z) w
| veq_float x y : float_value_ok y x None = true -> veq (VFloat x) (VFloat y)   (* isclose, or both NaN *)
| veq_str s : veq (VStr s) (VStr s)
| veq_bytes b : veq (VBytes b) (VBytes b)
| veq_uuid n : veq (VUuid n) (VUuid n)
| veq_datetime a us : veq (VDatetime a us) (VDatetime a us)
| veq_date o : veq (VDate o) (VDate o)
| veq_list l l' : Forall2 veq l l' -> veq (VList l) (VList l')
| veq_dict d d' :
    (forall k x, In (k, x) d -> exists y, assoc k d' = Some y /\ veq x y) ->
    (forall k y, In (k, y) d' -> In k (map fst d)) ->
    veq (VDict d) (VDict d').

(* no NaN anywhere (NaN is unequal to itself: known finding F10) *)
Fixpoint no_nan (v : value) : bool :=
  match v with
  | VFloat f => negb (is_nan f)
  | VList l => forallb (fun x => x) (map (fun x => no_nan x) l)
  | VDict d => forallb (fun x => x) (map (fun kv => no_nan (snd kv)) d)
  | _ => true
  end.

(* what the abstraction of a Python value always satisfies: dict keys pairwise distinct *)
Fixpoint vwf (v : value) : bool :=
  match v with
  | VList l => forallb (fun x => x) (map (fun x => vwf x) l)
  | VDict d => nodup_keys (map fst d) && forallb (fun x => x) (map (fun kv => vwf (snd kv)) d)
  | _ => true
  end.

(* "w carries the substituted data v" (C04): scalars equal - an int/bool position up to
   Python's True/False ~ 1/0, a float position within the documented tolerance of the pinned
   value (math.isclose, or equality after rounding to the declared precision; when the schema
   already had a declared value e, v and w are both within that tolerance of e) -, lists
   element-wise and of the same length, dicts on every key given. *)
Require Import D42.Validate.

Definition fpin (x y : float) : Prop :=
  (exists pr, float_value_ok y x pr = true) \/
  (exists e pr, float_value_ok x e pr = true /\ float_value_ok y e pr = true).

Definition exact_kind (v : value) : bool :=
  match v with
  | VStr _ | VBytes _ | VUuid _ | VDatetime _ _ | VDate _ => true
  | _ => false end.

Inductive pins : value -> value -> Prop :=
| pins_none : pins VNone VNone
| pins_int v w z : as_int v = Some z -> as_int w = Some z -> pins v w
| pins_float x y : fpin x y -> pins (VFloat x) (VFloat y)
| pins_same v : exact_kind v = true -> pins v v
| pins_list l l' : Forall2 pins l l' -> pins (VList l) (VList l')
| pins_dict d d' :
    (forall k x, In (k, x) d -> exists y, assoc k d' = Some y /\ pins x y) ->
    pins (VDict d) (VDict d').
