(* d42/generation/_generator.py : Generator.visit_* over the tape monad of PyRandom.v.
   Line by line with the code (after the fix: commits F04, F05): which draws are made and in
   which order, which defaults are combined with which declared bounds. *)
From Coq Require Import PrimFloat.
Require Import D42.Prelude D42.PyFloat D42.Value D42.Regex D42.Schema D42.PyRandom D42.RegexGen.
Require Import D42Gen.GenConsts.
Open Scope Z_scope.

(* everything the generator reads from outside the tape: the OS entropy behind uuid4(), the
   clock behind datetime.utcnow() / date.today(), the iteration order of sets of characters
   (string hashing) *)
Record world := mk_world {
  w_uuid : N;
  w_now : Z;                       (* naive utcnow(), microseconds *)
  w_today : Z;                     (* date.today().toordinal() *)
  w_perm : pystr -> pystr }.

Definition FLOAT_MIN : float := of_Z FLOAT_MIN_Z.
Definition FLOAT_MAX : float := of_Z FLOAT_MAX_Z.

(* Python's max(a, b) / min(a, b) on two arguments: the first one unless the second is
   strictly greater / smaller *)
Definition pymax_f (a b : float) : float := if PrimFloat.ltb a b then b else a.
Definition pymin_f (a b : float) : float := if PrimFloat.ltb b a then b else a.

Definition opt_iz (o : option intv) (d : Z) : Z := match o with Some i => iz i | None => d end.

(* visit_int *)
Definition g_int (val mn mx : option intv) : M value :=
  match val with
  | Some i => ret (of_intv i)
  | None =>
      let lo := opt_iz mn INT_MIN in
      let hi := opt_iz mx INT_MAX in
      let hi := match mx with None => Z.max hi lo | Some _ => hi end in
      let lo := match mx, mn with Some _, None => Z.min lo hi | _, _ => lo end in
      dom z <- random_int lo hi; ret (VInt z)
  end.

(* the bounds visit_float hands to random_float *)
Definition float_lo_hi (mn mx : option float) : float * float :=
  let lo := match mn with Some m => m | None => FLOAT_MIN end in
  let hi := match mx with Some m => m | None => FLOAT_MAX end in
  let hi := match mx with None => pymax_f hi lo | Some _ => hi end in
  let lo := match mx, mn with Some _, None => pymin_f lo hi | _, _ => lo end in
  (lo, hi).

(* visit_float *)
Definition g_float (val mn mx : option float) (pr : option intv) : M value :=
  match val with
  | Some x => ret (VFloat x)
  | None =>
      dom x <- random_float (fst (float_lo_hi mn mx)) (snd (float_lo_hi mn mx))
                            (match pr with Some p => Some (iz p) | None => None end);
      ret (VFloat x)
  end.

(* generated[0:offset] + substr + generated[offset:] *)
Definition splice (g sub : pystr) (off : Z) : pystr :=
  firstn (Z.to_nat off) g ++ sub ++ skipn (Z.to_nat off) g.

(* visit_str *)
Definition g_str (w : world) (val : option pystr) (len mnl mxl : option intv)
           (al sub : option pystr) (pat : option (pystr * list re)) : M value :=
  match val with
  | Some x => ret (VStr x)
  | None =>
      match pat with
      | Some (_, p) =>
          dom s <- gen_re (default_cfg (Z.of_N RE_MAX_REPEAT)) (w_perm w) p; ret (VStr s)
      | None =>
          dom length <-
            match len with
            | Some k => ret (iz k)
            | None =>
                let lo := opt_iz mnl STR_LEN_MIN in
                let hi := match mxl with Some k => iz k | None => Z.max STR_LEN_MAX lo end in
                let lo := match sub with Some t => Z.max lo (zlen t) | None => lo end in
                let hi := match sub with Some t => Z.max hi (zlen t) | None => hi end in
                random_int lo hi
            end;
          let alphabet := match al with Some a => a | None => STR_ALPHABET end in
          (* an empty alphabet: only the substring (or "") is left *)
          let length := match alphabet with [] => (match sub with Some t => zlen t | None => 0 end)
                                          | _ => length end in
          match sub with
          | Some t =>
              dom g <- random_str (length - zlen t) alphabet;
              dom off <- random_int 0 (zlen g);
              ret (VStr (splice g t off))
          | None => dom g <- random_str length alphabet; ret (VStr g)
          end
      end
  end.

(* visit_bytes *)
Definition g_bytes (val : option (list N)) : M value :=
  match val with
  | Some b => ret (VBytes b)
  | None =>
      dom n <- random_int BYTES_LEN_MIN BYTES_LEN_MAX;
      dom g <- random_str n STR_ALPHABET; ret (VBytes g)
  end.

(* the length visit_list pads up to: the declared len, else the declared minimal length *)
Definition pad_target (len mnl : option intv) : option intv :=
  match len with Some k => Some k | None => mnl end.

(* the padding of visit_list (elements given, target length declared and not reached) *)
Definition pad_elements (es : list (option unit)) (len : option intv) (vals : list value)
  : result (list value) :=
  match len with
  | Some k =>
      if (zlen vals <? iz k) then
        let padding := repeat VNone (Z.to_nat (iz k - zlen vals)) in
        match last_opt es with
        | None => Raise IndexError                         (* elements[-1] of [] *)
        | Some None => Ok (vals ++ padding)                (* last element is ... *)
        | Some (Some _) =>
            match es with
            | None :: _ => Ok (padding ++ vals)            (* first element is ... *)
            | _ => Ok vals end
        end
      else Ok vals
  | None => Ok vals
  end.

Definition strip_m {A} (l : list (option (M A))) : list (M A) :=
  flat_map (fun o => match o with Some m => [m] | None => [] end) l.

(* the length drawn by visit_list when no elements are declared; the flag is
   is_length_specified *)
Definition g_list_length (len mnl mxl : option intv) : M (Z * bool) :=
  match len with
  | Some k => ret (iz k, true)
  | None =>
      let lo := opt_iz mnl LIST_LEN_MIN in
      let hi := match mxl with Some k => iz k | None => Z.max LIST_LEN_MAX lo end in
      dom n <- random_int lo hi;
      ret (n, is_some mnl || is_some mxl)
  end.

Fixpoint gen (w : world) (s : schema) {struct s} : M value :=
  match s with
  | SNone => ret VNone
  | SBool val =>
      match val with
      | Some b => ret (VBool b)
      | None => dom b <- random_choice [true; false]; ret (VBool b) end
  | SInt val mn mx => g_int val mn mx
  | SFloat val mn mx pr => g_float val mn mx pr
  | SStr val len mnl mxl al sub pat => g_str w val len mnl mxl al sub pat
  | SList es ty len mnl mxl =>
      match es with
      | Some es' =>
          dom vals <- msequence (strip_m (map (fun o => match o with
                                                        | Some e => Some (gen w e)
                                                        | None => None end) es'));
          dom r <- mlift (pad_elements (map (fun o => match o with Some _ => Some tt | None => None end) es')
                                       (pad_target len mnl) vals);
          ret (VList r)
      | None =>
          dom lf <- g_list_length len mnl mxl;
          let '(n, specified) := lf in
          match ty with
          | Some t => dom vals <- msequence (repeat (gen w t) (Z.to_nat n)); ret (VList vals)
          | None =>
              if specified then ret (VList (repeat (VList []) (Z.to_nat n))) else ret (VList [])
          end
      end
  | SDict ks =>
      match ks with
      | None => ret (VDict [])
      | Some ents =>
          dom kvs <- msequence
                       (strip_m (map (fun e : dentry =>
                                        if is_kell (de_key e) then None
                                        else if de_opt e then None
                                        else match de_schema e with
                                             | Some sch => Some (dom v <- gen w sch; ret (de_key e, v))
                                             | None => Some (mraise AttributeError)   (* `...`.__accept__ *)
                                             end) ents));
          ret (VDict kvs)
      end
  | SAny ts =>
      match ts with
      | None => ret VNone
      | Some ts' => dom g <- random_choice (map (fun t => gen w t) ts'); g
      end
  | SBytes val => g_bytes val
  | SUuid val => ret (VUuid (match val with Some n => n | None => w_uuid w end))
  | SDatetime val =>
      ret (match val with Some (a, us) => VDatetime a us | None => VDatetime false (w_now w) end)
  | SDate val =>
      match val with
      | Some d => ret d
      | None => dom days <- random_int (-100000) 100000; ret (VDate (w_today w - days))
      end
  | SAlias _ t => gen w t
  | SCustom t => gen w t
  end.

(* fake(s) under a tape: the value and the rest of the tape *)
Definition fake (w : world) (s : schema) (t : tape) : result (value * tape) := gen w s t.
