(* Store: a small object-store semantics for property C07 (immutability / purity).

   WHAT IS MODELLED.  Only provenance and aliasing of containers, not the contents of d42
   schemas (those live in Schema.v / Validate.v and are not needed here):

     * the heap is a list of cells; a cell is a Python list / dict / registry / tuple, i.e. a
       sequence of (key, item) entries, tagged with its OWNER: [Caller] (an object the program
       using d42 holds a reference to and may mutate at any time) or [Internal] (an object only
       d42's own schema objects reference: `Props._registry`, `props.elements`, `props.keys`,
       `props.types`);
     * a schema object is [SObj cls reg]: its class and the heap cell holding its registry;
       the registry's entries point to atoms (immutable scalars), other schemas, snapshots
       (deeply converted values, e.g. the result of from_native) or further cells;
     * every place in d42 that stores a container coming from outside, or builds the container
       of a new schema out of the container of an old one, is a SITE with one boolean flag:
       [true] = the code takes a fresh container there (copy), [false] = it keeps / rewrites the
       container it was given (reference, in-place update).  [sites_repo] records what the real
       code does (every flag [true]); the harness (harness/props/c07.py) validates these flags
       against /repo on every run by random histories, they are NOT proved from the Python
       source;
     * [denote fuel st s] is the pure content of a schema read through all references.
       Observations (validate, represent, iteration, `in`) are uninterpreted function symbols
       applied to the denotations of their arguments: the model has no other state, which is
       the second thing the harness validates (no hidden state in module singletons, caches,
       class attributes, default arguments).

   Merging / rewriting of entries is kept only as precise as identity tracking needs
   (`{**a, **b}` keeps the position of an existing key and replaces its value).

   Definitions only; proofs are in proofs/StoreSpec.v. *)
Require Import D42.Prelude.

(* ------------------------------------------------------------------ contents *)
Inductive content :=
| CAtom (a : N)                       (* immutable scalar / marker *)
| CSchema (cls : N) (reg : content)   (* a schema: class, registry *)
| CCont (es : list content)           (* a container: its entries in order *)
| CEntry (k : N) (v : content)        (* one entry of a container *)
| CApp (tag : N) (args : list content)(* an observation: free function symbol of denotations *)
| CSnap (t : content)                 (* a frozen (deeply converted) value *)
| CDangling                           (* reference outside the store *)
| CFuel.                              (* fuel exhausted (cyclic caller data) *)

Fixpoint content_eqb (a b : content) {struct a} : bool :=
  match a, b with
  | CAtom x, CAtom y => N.eqb x y
  | CSchema c r, CSchema c' r' => N.eqb c c' && content_eqb r r'
  | CCont x, CCont y =>
      (fix go (x y : list content) : bool :=
         match x, y with
         | [], [] => true
         | u :: x', w :: y' => content_eqb u w && go x' y'
         | _, _ => false end) x y
  | CEntry k v, CEntry k' v' => N.eqb k k' && content_eqb v v'
  | CApp t x, CApp t' y =>
      N.eqb t t' &&
      (fix go (x y : list content) : bool :=
         match x, y with
         | [], [] => true
         | u :: x', w :: y' => content_eqb u w && go x' y'
         | _, _ => false end) x y
  | CSnap x, CSnap y => content_eqb x y
  | CDangling, CDangling => true
  | CFuel, CFuel => true
  | _, _ => false
  end.

(* ------------------------------------------------------------------ store *)
Inductive owner := Caller | Internal.

Inductive item :=
| IAtom (a : N)          (* immutable scalar (int, str, `...`, key, optional-flag ...) *)
| ISch (s : nat)         (* reference to a schema object of the pool *)
| ICon (c : nat)         (* reference to a heap cell *)
| ISnap (t : content).   (* frozen tree: result of a deep conversion, shares nothing *)

Definition entry := (N * item)%type.          (* key (0 for list positions) , item *)

Record cell := mkCell { own : owner; ents : list entry }.

Inductive sobj := SObj (cls : N) (reg : nat).

Record state := mkState { heap : list cell; pool : list sobj }.

Definition empty_state : state := mkState [] [].

(* reading through references; [fuel] bounds the depth (caller data may be cyclic) *)
Fixpoint den (fuel : nat) (st : state) (it : item) : content :=
  match fuel with
  | O => CFuel
  | S f =>
      match it with
      | IAtom a => CAtom a
      | ISnap t => CSnap t
      | ISch s =>
          match nth_error (pool st) s with
          | Some (SObj cls r) => CSchema cls (den f st (ICon r))
          | None => CDangling
          end
      | ICon c =>
          match nth_error (heap st) c with
          | Some cl => CCont (map (fun e : entry => CEntry (fst e) (den f st (snd e))) (ents cl))
          | None => CDangling
          end
      end
  end.

Definition denote (fuel : nat) (st : state) (s : nat) : content := den fuel st (ISch s).

(* ------------------------------------------------------------------ storing sites *)
Inductive siteid :=
| SiteListCall        (* ListSchema.__call__     : elements=list(elements_or_type)            *)
| SiteDictCall        (* DictSchema.__call__     : real_keys = {} ... filled entry by entry   *)
| SiteAnyCall         (* AnySchema.__call__      : (type_,) + types, _flatten_schemas -> tuple *)
| SitePropsUpdate     (* Props.set / Props.update: {**self._registry, ...}                     *)
| SiteAdd             (* DictSchema.__add__      : {**self_keys, **other_keys}                 *)
| SiteMakeRequired    (* make_required           : updated_keys = {}                           *)
| SiteFromNativeList  (* from_native             : [from_native(x) for x in value]             *)
| SiteFromNativeDict  (* from_native             : {key: from_native(val) ...}                 *)
| SiteSubstList       (* Substitutor.visit_list / _substitute_elements: elements = [] ...      *)
| SiteSubstDict       (* Substitutor.visit_dict  : keys = {} ...                               *)
| SiteReturned.       (* containers handed to the caller (fake -> list/dict): fresh objects    *)

Record sites := mkSites {
  list_call : bool; dict_call : bool; any_call : bool; props_update : bool;
  dict_add : bool; make_required_site : bool;
  from_native_list : bool; from_native_dict : bool;
  subst_list : bool; subst_dict : bool; returned : bool }.

Definition flag (σ : sites) (i : siteid) : bool :=
  match i with
  | SiteListCall => list_call σ | SiteDictCall => dict_call σ | SiteAnyCall => any_call σ
  | SitePropsUpdate => props_update σ | SiteAdd => dict_add σ
  | SiteMakeRequired => make_required_site σ
  | SiteFromNativeList => from_native_list σ | SiteFromNativeDict => from_native_dict σ
  | SiteSubstList => subst_list σ | SiteSubstDict => subst_dict σ
  | SiteReturned => returned σ
  end.

Definition sites_fresh (σ : sites) : bool :=
  list_call σ && dict_call σ && any_call σ && props_update σ && dict_add σ
  && make_required_site σ && from_native_list σ && from_native_dict σ
  && subst_list σ && subst_dict σ && returned σ.

(* what /repo does (validated by the harness histories on every run, not proved) *)
Definition sites_repo : sites :=
  mkSites true true true true true true true true true true true.

(* the tree before commit 5805b93 (finding F16): ListSchema.__call__ kept the caller's list *)
Definition sites_f16 : sites :=
  mkSites false true true true true true true true true true true.

(* ------------------------------------------------------------------ primitive state changes *)
Definition alloc (o : owner) (es : list entry) (st : state) : state * nat :=
  (mkState (heap st ++ [mkCell o es]) (pool st), length (heap st)).

Definition push (o : sobj) (st : state) : state * nat :=
  (mkState (heap st) (pool st ++ [o]), length (pool st)).

Fixpoint upd_nth {A} (i : nat) (f : A -> A) (l : list A) : list A :=
  match l, i with
  | [], _ => []
  | x :: r, O => f x :: r
  | x :: r, S i' => x :: upd_nth i' f r
  end.

(* overwrite the entries of cell c (owner kept) *)
Definition write (c : nat) (es : list entry) (st : state) : state :=
  mkState (upd_nth c (fun cl => mkCell (own cl) es) (heap st)) (pool st).

(* hand a cell to the caller *)
Definition expose (c : nat) (st : state) : state :=
  mkState (upd_nth c (fun cl => mkCell Caller (ents cl)) (heap st)) (pool st).

Definition any_ents (st : state) (c : nat) : option (list entry) :=
  match nth_error (heap st) c with Some cl => Some (ents cl) | None => None end.

Definition caller_ents (st : state) (c : nat) : option (list entry) :=
  match nth_error (heap st) c with
  | Some cl => match own cl with Caller => Some (ents cl) | Internal => None end
  | None => None
  end.

Fixpoint lookup (k : N) (es : list entry) : option item :=
  match es with
  | [] => None
  | (k', it) :: r => if N.eqb k k' then Some it else lookup k r
  end.

(* {**es, k: it} : an existing key keeps its position *)
Fixpoint reg_set (k : N) (it : item) (es : list entry) : list entry :=
  match es with
  | [] => [(k, it)]
  | (k', it') :: r => if N.eqb k k' then (k, it) :: r else (k', it') :: reg_set k it r
  end.

(* {**a, **b} *)
Definition merge (a b : list entry) : list entry :=
  fold_left (fun acc e => reg_set (fst e) (snd e) acc) b a.

(* class, registry cell, registry entries of a pooled schema *)
Definition reg_of (st : state) (s : nat) : option (N * nat * list entry) :=
  match nth_error (pool st) s with
  | Some (SObj cls r) =>
      match any_ents st r with Some es => Some (cls, r, es) | None => None end
  | None => None
  end.

(* the container stored under [name] in a registry: its cell and entries *)
Definition field_of (st : state) (es : list entry) (name : N) : option (nat * list entry) :=
  match lookup name es with
  | Some (ICon c) => match any_ents st c with Some ces => Some (c, ces) | None => None end
  | _ => None
  end.

(* ------------------------------------------------------------------ caller mutations *)
Inductive delta :=
| DAppend (e : entry)
| DSet (i : nat) (e : entry)
| DDelete (i : nat)
| DClear
| DReplace (es : list entry).      (* sort, reverse, slice assignment, update ... *)

Fixpoint del_nth {A} (i : nat) (l : list A) : list A :=
  match l, i with
  | [], _ => []
  | _ :: r, O => r
  | x :: r, S i' => x :: del_nth i' r
  end.

Definition apply_delta (d : delta) (es : list entry) : list entry :=
  match d with
  | DAppend e => es ++ [e]
  | DSet i e => upd_nth i (fun _ => e) es
  | DDelete i => del_nth i es
  | DClear => []
  | DReplace es' => es'
  end.

(* ------------------------------------------------------------------ operations *)
(* an argument the caller can pass: an immutable scalar, a pooled schema, one of ITS OWN
   containers, or a frozen literal *)
Definition valid_arg (st : state) (it : item) : bool :=
  match it with
  | IAtom _ | ISnap _ => true
  | ISch s => s <? length (pool st)
  | ICon c => match caller_ents st c with Some _ => true | None => false end
  end.

(* what a shallow copy may contain: the declaration sites reject nested lists / dicts
   (DeclarationError), so a stored element is a scalar marker or a schema *)
Definition storable (st : state) (it : item) : bool :=
  match it with
  | IAtom _ | ISnap _ => true
  | ISch s => s <? length (pool st)
  | ICon _ => false
  end.

Inductive extsrc :=
| EFrom (t : nat) (name : N)          (* entries of schema t's container [name]  (`+`) *)
| ESnap (v : item) (fuel : nat).      (* a frozen argument (make_required's key list) *)

Inductive src :=
| XAtom (a : N)                               (* an immutable scalar argument *)
| XSch (t : nat)                              (* a schema argument *)
| XTuple (ts : list nat)                      (* a fresh tuple of schema arguments *)
| XShallow (site : siteid) (c : nat)          (* caller container stored at a site *)
| XDeep (site : siteid) (v : item) (fuel : nat)  (* caller value converted at a site *)
| XExtend (site : siteid) (e : extsrc).       (* receiver's container extended at a site *)

Definition n_mark : N := 9.

Definition ext_entries (st : state) (e : extsrc) : option (list entry) :=
  match e with
  | EFrom t name =>
      match reg_of st t with
      | Some (_, _, tes) =>
          match field_of st tes name with Some (_, ces) => Some ces | None => Some [] end
      | None => None
      end
  | ESnap v fuel => if valid_arg st v then Some [(n_mark, ISnap (den fuel st v))] else None
  end.

(* the item that ends up in the registry of the new schema, and the state after storing *)
Definition store (σ : sites) (x : src) (recv_es : list entry) (name : N) (st : state)
  : option (state * item) :=
  match x with
  | XAtom a => Some (st, IAtom a)
  | XSch t => if t <? length (pool st) then Some (st, ISch t) else None
  | XTuple ts =>
      if forallb (fun t => t <? length (pool st)) ts
      then let '(st', c') := alloc Internal (map (fun t => (0%N, ISch t)) ts) st in
           Some (st', ICon c')
      else None
  | XShallow site c =>
      match caller_ents st c with
      | Some es =>
          if forallb (fun e : entry => storable st (snd e)) es
          then if flag σ site
               then let '(st', c') := alloc Internal es st in Some (st', ICon c')
               else Some (st, ICon c)
          else None
      | None => None
      end
  | XDeep site v fuel =>
      if valid_arg st v
      then if flag σ site then Some (st, ISnap (den fuel st v)) else Some (st, v)
      else None
  | XExtend site e =>
      match ext_entries st e with
      | None => None
      | Some extra =>
          match field_of st recv_es name with
          | Some (c0, old) =>
              if flag σ site
              then let '(st', c') := alloc Internal (merge old extra) st in Some (st', ICon c')
              else Some (write c0 (merge old extra) st, ICon c0)
          | None =>
              let '(st', c') := alloc Internal extra st in Some (st', ICon c')
          end
      end
  end.

Inductive res :=
| RSchema (s : nat)                 (* a pooled schema (new or existing) *)
| RCell (c : nat)                   (* a container handed to the caller *)
| RApp (tag : N) (args : list item) (* an observation *)
| RUnit
| RRaise                            (* the operation raised; nothing was built *)
| RInvalid.                         (* the model cannot follow (ill-formed operation) *)

(* new schema = receiver's registry (or the empty registry of a fresh [cls0] object) with
   [name] set to what [x] stores *)
Definition derive (σ : sites) (recv : option nat) (cls0 : N) (name : N) (x : src) (st : state)
  : state * res :=
  let start := match recv with
               | Some s => match reg_of st s with
                           | Some (cls, r, es) => Some (cls, Some r, es)
                           | None => None end
               | None => Some (cls0, None, []) end in
  match start with
  | None => (st, RInvalid)
  | Some (cls, ro, es) =>
      match store σ x es name st with
      | None => (st, RInvalid)
      | Some (st1, it) =>
          let new_es := reg_set name it es in
          match ro, flag σ SitePropsUpdate with
          | Some r, false =>
              let st2 := write r new_es st1 in
              let '(st3, s') := push (SObj cls r) st2 in (st3, RSchema s')
          | _, _ =>
              let '(st2, r') := alloc Internal new_es st1 in
              let '(st3, s') := push (SObj cls r') st2 in (st3, RSchema s')
          end
      end
  end.

Inductive op :=
| ONew (es : list entry)                 (* the caller builds a list / dict *)
| OMutate (c : nat) (d : delta)          (* caller_mutates: only on the caller's own cells *)
| OLeaf (cls : N)                        (* schema.int, schema.list, ... *)
| ODerive (recv : option nat) (cls : N) (name : N) (x : src) (ok : bool)
| OObserve (tag : N) (args : list item)  (* validate, represent, iteration, `in`, == *)
| OFake (s : nat) (name : N) (fuel : nat)(* an operation returning a container to the caller *)
| OGetItem (s : nat) (name : N) (k : N). (* indexing: returns an existing sub-schema *)

Definition step (σ : sites) (o : op) (st : state) : state * res :=
  match o with
  | ONew es => let '(st', c) := alloc Caller es st in (st', RCell c)
  | OMutate c d =>
      match caller_ents st c with
      | Some es => (write c (apply_delta d es) st, RUnit)
      | None => (st, RInvalid)
      end
  | OLeaf cls =>
      let '(st1, r) := alloc Internal [] st in
      let '(st2, s) := push (SObj cls r) st1 in (st2, RSchema s)
  | ODerive recv cls name x ok =>
      if ok then derive σ recv cls name x st else (st, RRaise)
  | OObserve tag args =>
      if forallb (valid_arg st) args then (st, RApp tag args) else (st, RInvalid)
  | OFake s name fuel =>
      match reg_of st s with
      | None => (st, RInvalid)
      | Some (_, _, es) =>
          if flag σ SiteReturned
          then let '(st', c) := alloc Caller [(0%N, ISnap (den fuel st (ISch s)))] st in
               (st', RCell c)
          else match field_of st es name with
               | Some (c0, _) => (expose c0 st, RCell c0)
               | None =>
                   let '(st', c) := alloc Caller [(0%N, ISnap (den fuel st (ISch s)))] st in
                   (st', RCell c)
               end
      end
  | OGetItem s name k =>
      match reg_of st s with
      | None => (st, RInvalid)
      | Some (_, _, es) =>
          match field_of st es name with
          | Some (_, ces) =>
              match lookup k ces with
              | Some (ISch t) => (st, RSchema t)
              | _ => (st, RInvalid)
              end
          | None => (st, RInvalid)
          end
      end
  end.

Fixpoint run (σ : sites) (ops : list op) (st : state) : state :=
  match ops with
  | [] => st
  | o :: r => run σ r (fst (step σ o st))
  end.

(* the state after the first n operations of a history *)
Definition after (σ : sites) (ops : list op) (n : nat) (st : state) : state :=
  run σ (firstn n ops) st.

(* ------------------------------------------------------------------ the public operations *)
(* names of registry entries *)
Definition n_value : N := 1.
Definition n_elements : N := 2.
Definition n_keys : N := 3.
Definition n_types : N := 4.
Definition n_type : N := 5.
Definition n_generated : N := 6.
(* classes *)
Definition cls_list : N := 20.
Definition cls_dict : N := 21.
Definition cls_any : N := 22.
Definition cls_scalar : N := 23.
(* observation symbols *)
Definition t_validate : N := 30.
Definition t_represent : N := 31.
Definition t_iter : N := 32.
Definition t_contains : N := 33.
Definition t_getitem : N := 34.
Definition t_eq : N := 35.

Inductive ckind := KList | KDict.

Definition op_decl_list s c ok := ODerive (Some s) 0 n_elements (XShallow SiteListCall c) ok.
Definition op_decl_dict s c ok := ODerive (Some s) 0 n_keys (XShallow SiteDictCall c) ok.
Definition op_decl_any s c ok := ODerive (Some s) 0 n_types (XShallow SiteAnyCall c) ok.
(* s(5), s.len(2), s.min(1), s.regex(..), ... (also the calls that raise: ok = false) *)
Definition op_refine s name a ok := ODerive (Some s) 0 name (XAtom a) ok.
(* schema.list(schema.int), schema.alias(n, t) *)
Definition op_refine_schema s name t ok := ODerive (Some s) 0 name (XSch t) ok.
Definition op_add s t ok := ODerive (Some s) 0 n_keys (XExtend SiteAdd (EFrom t n_keys)) ok.
Definition op_or s t ok := ODerive None cls_any n_types (XTuple [s; t]) ok.
Definition op_subst_scalar s a ok := ODerive (Some s) 0 n_value (XAtom a) ok.
Definition op_subst s k v fuel ok :=
  match k with
  | KList => ODerive (Some s) 0 n_elements (XDeep SiteSubstList v fuel) ok
  | KDict => ODerive (Some s) 0 n_keys (XDeep SiteSubstDict v fuel) ok
  end.
Definition op_from_native_scalar a ok := ODerive None cls_scalar n_value (XAtom a) ok.
Definition op_from_native k v fuel ok :=
  match k with
  | KList => ODerive None cls_list n_elements (XDeep SiteFromNativeList v fuel) ok
  | KDict => ODerive None cls_dict n_keys (XDeep SiteFromNativeDict v fuel) ok
  end.
Definition op_make_required s keys fuel ok :=
  ODerive (Some s) 0 n_keys (XExtend SiteMakeRequired (ESnap keys fuel)) ok.
Definition op_validate s v := OObserve t_validate [ISch s; v].
Definition op_represent s := OObserve t_represent [ISch s].
Definition op_iter s := OObserve t_iter [ISch s].
Definition op_contains s k := OObserve t_contains [ISch s; IAtom k].
Definition op_eq s v := OObserve t_eq [ISch s; v].
Definition op_getitem s k := OGetItem s n_keys k.
Definition op_getitem_obs s k := OObserve t_getitem [ISch s; IAtom k].
Definition op_fake s fuel := OFake s n_elements fuel.
Definition caller_mutates c d := OMutate c d.

(* ------------------------------------------------------------------ well-formed states *)
(* decidable version of the invariant of StoreSpec.v: every pooled schema's registry is an
   Internal cell and Internal cells reference only atoms, snapshots, pooled schemas and
   Internal cells *)
Definition internalb (st : state) (c : nat) : bool :=
  match nth_error (heap st) c with
  | Some cl => match own cl with Internal => true | Caller => false end
  | None => false
  end.

Definition closedb (st : state) (it : item) : bool :=
  match it with
  | IAtom _ | ISnap _ => true
  | ISch s => s <? length (pool st)
  | ICon c => internalb st c
  end.

Definition wf_stateb (st : state) : bool :=
  forallb (fun o => match o with SObj _ r => internalb st r end) (pool st)
  && forallb (fun cl => match own cl with
                        | Caller => true
                        | Internal => forallb (fun e : entry => closedb st (snd e)) (ents cl)
                        end) (heap st).

Definition wf_state (st : state) : Prop := wf_stateb st = true.

(* ------------------------------------------------------------------ history cases (harness) *)
Definition res_schema (r : res) : option nat :=
  match r with RSchema s => Some s | _ => None end.

Definition is_invalid (r : res) : bool := match r with RInvalid => true | _ => false end.

(* pooled schemas of [st] whose denotation differs in [st'] *)
Definition changed (fuel : nat) (st st' : state) : list nat :=
  filter (fun s => negb (content_eqb (denote fuel st s) (denote fuel st' s)))
         (seq 0 (length (pool st))).

(* per step: pool size after the step, schemas that changed in this step, schema returned *)
Definition obs := (nat * list nat * option nat)%type.

Fixpoint trace (σ : sites) (fuel : nat) (ops : list op) (st : state) : list (option obs) :=
  match ops with
  | [] => []
  | o :: r =>
      let '(st', rs) := step σ o st in
      (if is_invalid rs then None
       else Some (length (pool st'), changed fuel st st', res_schema rs))
      :: trace σ fuel r st'
  end.

Definition obs_eqb (a b : obs) : bool :=
  let '(n, ch, r) := a in
  let '(n', ch', r') := b in
  Nat.eqb n n' && list_eqb Nat.eqb ch ch' && option_eqb Nat.eqb r r'.

Definition case_fuel : nat := 24.

Definition hcase := (list op * list obs)%type.

Definition hcase_ok_with (σ : sites) (c : hcase) : bool :=
  let '(ops, seen) := c in
  list_eqb (option_eqb obs_eqb) (trace σ case_fuel ops empty_state) (map Some seen).

(* the implementation in /repo must behave like the model with sites_repo *)
Definition hcase_ok (c : hcase) : bool := hcase_ok_with sites_repo c.
(* self-test: the same comparison against the pre-F16 flags *)
Definition hcase_f16_ok (c : hcase) : bool := hcase_ok_with sites_f16 c.

(* ------------------------------------------------------------------ vocabulary of the theorems *)
(* the caller's own actions, as opposed to operations of d42 *)
Definition is_mutation (o : op) : bool := match o with OMutate _ _ => true | _ => false end.
Definition is_caller_op (o : op) : bool :=
  match o with ONew _ | OMutate _ _ => true | _ => false end.

(* the arguments of an operation *)
Definition src_args (x : src) : list item :=
  match x with
  | XAtom a => [IAtom a]
  | XSch t => [ISch t]
  | XTuple ts => map ISch ts
  | XShallow _ c => [ICon c]
  | XDeep _ v _ => [v]
  | XExtend _ (EFrom t _) => [ISch t]
  | XExtend _ (ESnap v _) => [v]
  end.

Definition op_args (o : op) : list item :=
  match o with
  | ONew es => map snd es
  | OMutate c _ => [ICon c]
  | OLeaf _ => []
  | ODerive recv _ _ x _ => (match recv with Some s => [ISch s] | None => [] end) ++ src_args x
  | OObserve _ args => args
  | OFake s _ _ => [ISch s]
  | OGetItem s _ _ => [ISch s]
  end.

(* what an operation returned, read through the store *)
Inductive rden := DVal (t : content) | DUnit | DRaise | DInvalid.

Definition res_den (fuel : nat) (st : state) (r : res) : rden :=
  match r with
  | RSchema s => DVal (den fuel st (ISch s))
  | RCell c => DVal (den fuel st (ICon c))
  | RApp tag args => DVal (CApp tag (map (den fuel st) args))
  | RUnit => DUnit
  | RRaise => DRaise
  | RInvalid => DInvalid
  end.

Definition outcome (σ : sites) (o : op) (st : state) (fuel : nat) : rden :=
  res_den fuel (fst (step σ o st)) (snd (step σ o st)).
