(* Helpers for the generated case files: literals, structural comparison of observed
   and predicted outcomes, mismatch reporting. *)
From Coq Require Import PrimFloat.
Require Import D42.Prelude D42.PyFloat D42.Value D42.Regex D42.Schema D42.Validate.

Definition fnan : float := PrimFloat.nan.
Definition finf : float := PrimFloat.infinity.
Definition fninf : float := PrimFloat.neg_infinity.
Definition fzero : float := PrimFloat.zero.
Definition fnzero : float := PrimFloat.opp PrimFloat.zero.

(* structural identity of values (floats bitwise, bool and int kept apart) *)
Fixpoint value_same (a b : value) {struct a} : bool :=
  match a, b with
  | VNone, VNone => true
  | VBool x, VBool y => Bool.eqb x y
  | VInt x, VInt y => Z.eqb x y
  | VFloat x, VFloat y => same x y
  | VStr x, VStr y => str_eqb x y
  | VBytes x, VBytes y => list_eqb N.eqb x y
  | VUuid x, VUuid y => N.eqb x y
  | VDatetime a1 u1, VDatetime a2 u2 => Bool.eqb a1 a2 && Z.eqb u1 u2
  | VDate x, VDate y => Z.eqb x y
  | VList x, VList y =>
      (fix go (x y : list value) : bool :=
         match x, y with
         | [], [] => true
         | u :: x', w :: y' => value_same u w && go x' y'
         | _, _ => false end) x y
  | VDict x, VDict y =>
      (fix go (x y : list (key * value)) : bool :=
         match x, y with
         | [], [] => true
         | (k, u) :: x', (k', w) :: y' => key_eqb k k' && value_same u w && go x' y'
         | _, _ => false end) x y
  | VEllipsis, VEllipsis => true
  | VNil, VNil => true
  | VOther x, VOther y => N.eqb x y
  | _, _ => false
  end.

Definition path_eqb : path -> path -> bool := list_eqb key_eqb.

Definition ekind_same (a b : ekind) : bool :=
  match a, b with
  | EType x, EType y => pytype_eqb x y
  | EValue x, EValue y | EMin x, EMin y | EMax x, EMax y => value_same x y
  | ELen x, ELen y | EMinLen x, EMinLen y | EMaxLen x, EMaxLen y => intv_same x y
  | EAlphabet x, EAlphabet y | ESubstr x, ESubstr y => str_eqb x y
  | ERegex x, ERegex y => str_eqb (fst x) (fst y)
  | EMissingElement x, EMissingElement y | EExtraElement x, EExtraElement y => Z.eqb x y
  | EMissingKey x, EMissingKey y | EExtraKey x, EExtraKey y => key_eqb x y
  | EMismatch x, EMismatch y => Nat.eqb (length x) (length y)
  | EUuidVersion x, EUuidVersion y => option_eqb N.eqb x y
  | _, _ => false end.

Definition verror_same (a b : verror) : bool :=
  ekind_same (ekind_of a) (ekind_of b) && path_eqb (epath a) (epath b)
  && value_same (eactual a) (eactual b).

Definition result_same {A} (eqb : A -> A -> bool) (a b : result A) : bool :=
  match a, b with
  | Ok x, Ok y => eqb x y
  | Err k, Err k' => eq_kind k k'
  | Raise e, Raise e' => eq_exn e e'
  | _, _ => false end.

(* indices of the cases on which the check fails *)
Definition mismatches {A} (ok : A -> bool) (cases : list A) : list nat :=
  map fst (filter (fun ic => negb (ok (snd ic))) (enumerate cases)).

(* ---- validate cases: (mode, schema, value, observed outcome of the implementation) ---- *)
Definition vcase := (mode * schema * value * result (list verror))%type.
Definition vcase_ok (c : vcase) : bool :=
  let '(m, s, v, obs) := c in
  result_same (list_eqb verror_same) (validateR m s [] v) obs
  && (* on well-formed schemas the total function agrees too *)
     (negb (wf s) || result_same (list_eqb verror_same) (Ok (validate m s [] v)) obs).

(* C02 compares verdicts only: the implementation must return "no errors" exactly when the
   model does (an implementation that raises has not accepted). *)
Definition verdict_case_ok (c : vcase) : bool :=
  let '(m, s, v, obs) := c in
  match validateR m s [] v, obs with
  | Ok [], Ok [] => true
  | Ok [], _ => false
  | Ok (_ :: _), Ok [] => false
  | _, _ => true
  end.

(* C08 compares "returns or raises (which class)" and the number of reported errors *)
Definition total_case_ok (c : vcase) : bool :=
  let '(m, s, v, obs) := c in
  match validateR m s [] v, obs with
  | Ok es, Ok es' => Nat.eqb (length es) (length es')
  | Raise e, Raise e' => eq_exn e e'
  | _, _ => false
  end.
