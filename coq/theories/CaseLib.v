(* Helpers for the generated case files: literals, structural comparison of observed
   and predicted outcomes, mismatch reporting. *)
From Coq Require Import PrimFloat.
Require Import D42.Prelude D42.PyFloat D42.Value D42.Regex D42.Schema D42.Validate.

Definition fnan : float := PrimFloat.nan.
Definition finf : float := PrimFloat.infinity.
Definition fninf : float := PrimFloat.neg_infinity.
Definition fzero : float := PrimFloat.zero.
Definition fnzero : float := PrimFloat.opp PrimFloat.zero.

(* structural identity of values (floats bitwise, bool and int kept apart) *)
Fixpoint value_same (a b : value) {struct a} : bool :=
  match a, b with
  | VNone, VNone => true
  | VBool x, VBool y => Bool.eqb x y
  | VInt x, VInt y => Z.eqb x y
  | VFloat x, VFloat y => same x y
  | VStr x, VStr y => str_eqb x y
  | VBytes x, VBytes y => list_eqb N.eqb x y
  | VUuid x, VUuid y => N.eqb x y
  | VDatetime a1 u1, VDatetime a2 u2 => Bool.eqb a1 a2 && Z.eqb u1 u2
  | VDate x, VDate y => Z.eqb x y
  | VList x, VList y =>
      (fix go (x y : list value) : bool :=
         match x, y with
         | [], [] => true
         | u :: x', w :: y' => value_same u w && go x' y'
         | _, _ => false end) x y
  | VDict x, VDict y =>
      (fix go (x y : list (key * value)) : bool :=
         match x, y with
         | [], [] => true
         | (k, u) :: x', (k', w) :: y' => key_eqb k k' && value_same u w && go x' y'
         | _, _ => false end) x y
  | VEllipsis, VEllipsis => true
  | VNil, VNil => true
  | VOther x, VOther y => N.eqb x y
  | _, _ => false
  end.

Definition path_eqb : path -> path -> bool := list_eqb key_eqb.

Definition ekind_same (a b : ekind) : bool :=
  match a, b with
  | EType x, EType y => pytype_eqb x y
  | EValue x, EValue y | EMin x, EMin y | EMax x, EMax y => value_same x y
  | ELen x, ELen y | EMinLen x, EMinLen y | EMaxLen x, EMaxLen y => intv_same x y
  | EAlphabet x, EAlphabet y | ESubstr x, ESubstr y => str_eqb x y
  | ERegex x, ERegex y => str_eqb (fst x) (fst y)
  | EMissingElement x, EMissingElement y | EExtraElement x, EExtraElement y => Z.eqb x y
  | EMissingKey x, EMissingKey y | EExtraKey x, EExtraKey y => key_eqb x y
  | EMismatch x, EMismatch y => Nat.eqb (length x) (length y)
  | EUuidVersion x, EUuidVersion y => option_eqb N.eqb x y
  | _, _ => false end.

Definition verror_same (a b : verror) : bool :=
  ekind_same (ekind_of a) (ekind_of b) && path_eqb (epath a) (epath b)
  && value_same (eactual a) (eactual b).

Definition result_same {A} (eqb : A -> A -> bool) (a b : result A) : bool :=
  match a, b with
  | Ok x, Ok y => eqb x y
  | Err k, Err k' => eq_kind k k'
  | Raise e, Raise e' => eq_exn e e'
  | _, _ => false end.

(* indices of the cases on which the check fails *)
Definition mismatches {A} (ok : A -> bool) (cases : list A) : list nat :=
  map fst (filter (fun ic => negb (ok (snd ic))) (enumerate cases)).

(* ---- validate cases: (mode, schema, value, observed outcome of the implementation) ---- *)
Definition vcase := (mode * schema * value * result (list verror))%type.
Definition vcase_ok (c : vcase) : bool :=
  let '(m, s, v, obs) := c in
  result_same (list_eqb verror_same) (validateR m s [] v) obs
  && (* on well-formed schemas the total function agrees too *)
     (negb (wf s) || result_same (list_eqb verror_same) (Ok (validate m s [] v)) obs).

(* the hypothesis `wf s` of the validation theorems, decided for the schema of a case: a mismatch is a
   case whose schema is NOT well-formed (the harness passes true and counts the mismatches) *)
Definition wf_case_ok (c : vcase) : bool :=
  let '(m, s, v, obs) := c in wf s.

(* C02 compares verdicts only: the implementation must return "no errors" exactly when the
   model does (an implementation that raises has not accepted). *)
Definition verdict_case_ok (c : vcase) : bool :=
  let '(m, s, v, obs) := c in
  match validateR m s [] v, obs with
  | Ok [], Ok [] => true
  | Ok [], _ => false
  | Ok (_ :: _), Ok [] => false
  | _, _ => true
  end.

(* C08 compares "returns or raises (which class)" and the number of reported errors *)
Definition total_case_ok (c : vcase) : bool :=
  let '(m, s, v, obs) := c in
  match validateR m s [] v, obs with
  | Ok es, Ok es' => Nat.eqb (length es) (length es')
  | Raise e, Raise e' => eq_exn e e'
  | _, _ => false
  end.

(* ---- structural identity of schemas (floats bitwise, bool/int literals kept apart,
        patterns by source text, dict entries in order) ---- *)
Definition ofloat_same := option_eqb same.
Definition ointv_same := option_eqb intv_same.
Definition ostr_same := option_eqb str_eqb.

Fixpoint schema_same (a b : schema) {struct a} : bool :=
  match a, b with
  | SNone, SNone => true
  | SBool x, SBool y => option_eqb Bool.eqb x y
  | SInt v1 a1 b1, SInt v2 a2 b2 => ointv_same v1 v2 && ointv_same a1 a2 && ointv_same b1 b2
  | SFloat v1 a1 b1 p1, SFloat v2 a2 b2 p2 =>
      ofloat_same v1 v2 && ofloat_same a1 a2 && ofloat_same b1 b2 && ointv_same p1 p2
  | SStr v1 l1 a1 b1 al1 s1 p1, SStr v2 l2 a2 b2 al2 s2 p2 =>
      ostr_same v1 v2 && ointv_same l1 l2 && ointv_same a1 a2 && ointv_same b1 b2 &&
      ostr_same al1 al2 && ostr_same s1 s2 &&
      option_eqb (fun x y => str_eqb (fst x) (fst y)) p1 p2
  | SList es1 t1 l1 a1 b1, SList es2 t2 l2 a2 b2 =>
      match es1, es2 with
      | None, None => true
      | Some x, Some y =>
          (fix go (x y : list (option schema)) : bool :=
             match x, y with
             | [], [] => true
             | None :: x', None :: y' => go x' y'
             | Some u :: x', Some w :: y' => schema_same u w && go x' y'
             | _, _ => false end) x y
      | _, _ => false end &&
      match t1, t2 with
      | None, None => true
      | Some u, Some w => schema_same u w
      | _, _ => false end &&
      ointv_same l1 l2 && ointv_same a1 a2 && ointv_same b1 b2
  | SDict k1, SDict k2 =>
      match k1, k2 with
      | None, None => true
      | Some x, Some y =>
          (fix go (x y : list dentry) : bool :=
             match x, y with
             | [], [] => true
             | (ka, sa, oa) :: x', (kb, sb, ob) :: y' =>
                 key_eqb ka kb && Bool.eqb oa ob &&
                 match sa, sb with
                 | None, None => true
                 | Some u, Some w => schema_same u w
                 | _, _ => false end && go x' y'
             | _, _ => false end) x y
      | _, _ => false end
  | SAny t1, SAny t2 =>
      match t1, t2 with
      | None, None => true
      | Some x, Some y =>
          (fix go (x y : list schema) : bool :=
             match x, y with
             | [], [] => true
             | u :: x', w :: y' => schema_same u w && go x' y'
             | _, _ => false end) x y
      | _, _ => false end
  | SBytes x, SBytes y => option_eqb (list_eqb N.eqb) x y
  | SUuid x, SUuid y => option_eqb N.eqb x y
  | SDatetime x, SDatetime y =>
      option_eqb (fun p q => Bool.eqb (fst p) (fst q) && Z.eqb (snd p) (snd q)) x y
  | SDate x, SDate y => option_eqb value_same x y
  | SAlias n1 t1, SAlias n2 t2 => ostr_same n1 n2 && schema_same t1 t2
  | SCustom t1, SCustom t2 => schema_same t1 t2
  | _, _ => false
  end.
