(* Custom schema types (C16), definitions only.

   In the model a user-defined CustomSchema that forwards __validate__, __generate__,
   __represent__ and __substitute__ to a built-in schema is [SCustom inner]
   (Schema.v); each visitor's [visit] fallback (Validator.visit, SubstitutorValidator
   inherits it, Substitutor.visit, ...) calls schema.__d42_<op>__(visitor, **kwargs), which
   calls the user's hook with the same path / indent / kwargs, which forwards to
   inner.__accept__(visitor, **kwargs): Validate.validate, Validate.validateR and
   Substitute.substitute have exactly that as their [SCustom] case.

   [erase] removes every wrapper, at every depth. *)
Require Import D42.Prelude D42.Value D42.Regex D42.Schema D42.Validate D42.CaseLib.
Local Open Scope nat_scope.

Fixpoint erase (s : schema) {struct s} : schema :=
  match s with
  | SList es ty len mnl mxl =>
      SList (match es with
             | Some l => Some (map (fun o => match o with
                                             | Some e => Some (erase e)
                                             | None => None end) l)
             | None => None end)
            (match ty with Some t => Some (erase t) | None => None end)
            len mnl mxl
  | SDict ks =>
      SDict (match ks with
             | Some l => Some (map (fun e : dentry =>
                                      (de_key e,
                                       match de_schema e with
                                       | Some t => Some (erase t)
                                       | None => None end,
                                       de_opt e)) l)
             | None => None end)
  | SAny ts =>
      SAny (match ts with Some l => Some (map (fun t => erase t) l) | None => None end)
  | SAlias nm t => SAlias nm (erase t)
  | SCustom t => erase t
  | _ => s
  end.

(* number of wrappers in a schema tree (for non-vacuity statements and the evidence) *)
Fixpoint customs (s : schema) {struct s} : nat :=
  match s with
  | SList es ty _ _ _ =>
      (match es with
       | Some l => list_sum (map (fun o => match o with Some e => customs e | None => 0 end) l)
       | None => 0 end) +
      (match ty with Some t => customs t | None => 0 end)
  | SDict (Some l) =>
      list_sum (map (fun e : dentry => match de_schema e with Some t => customs t | None => 0 end) l)
  | SAny (Some l) => list_sum (map (fun t => customs t) l)
  | SAlias _ t => customs t
  | SCustom t => S (customs t)
  | _ => 0
  end.

(* the only place a validation error mentions schemas: the alternatives of a mismatch *)
Definition erase_kind (k : ekind) : ekind :=
  match k with
  | EMismatch ts => EMismatch (map erase ts)
  | _ => k end.

Definition erase_err (e : verror) : verror :=
  VE (erase_kind (ekind_of e)) (epath e) (eactual e).

(* ---- case checker: the harness' erase_built on the real tree vs [erase] ---- *)
Definition erasecase := (schema * schema)%type.     (* (wrapped tree, tree with wrappers removed) *)
Definition erasecase_ok (c : erasecase) : bool :=
  let '(w, u) := c in schema_same (erase w) u && Nat.eqb (customs u) 0.
