(* The meaning of a schema: which values conform.  Declarative (existence of splits,
   quantification over keys), independent of the validator's algorithm. *)
From Coq Require Import PrimFloat.
Require Import D42.Prelude D42.PyFloat D42.Value D42.Regex D42.Schema D42.Validate.
Open Scope Z_scope.

Definition opt_holds {A} (o : option A) (P : A -> Prop) : Prop :=
  match o with Some a => P a | None => True end.

Definition len_ok (n : Z) (len mnl mxl : option intv) : Prop :=
  opt_holds len (fun k => n = iz k) /\
  opt_holds mnl (fun k => iz k <= n) /\
  opt_holds mxl (fun k => n <= iz k).

Notation vpred := (value -> Prop) (only parsing).

(* element lists: exact, head [a, ...], tail [..., a], contains [..., a, ...] *)
Definition list_spec (cs : list (option vpred)) (l : list value) : Prop :=
  let mid := strip (middle cs) in
  match classify cs with
  | FBody => exists l1 lm l2, l = l1 ++ lm ++ l2 /\ Forall2 (fun c x => c x) mid lm
  | FHead => exists lm l2, l = lm ++ l2 /\ Forall2 (fun c x => c x) mid lm
  | FTail => exists l1 lm, l = l1 ++ lm /\ Forall2 (fun c x => c x) mid lm
  | FExact => Forall2 (fun c x => c x) mid l
  end.

(* dicts: every declared key is present with a conforming member or absent and optional;
   every key of the value is declared unless the schema is relaxed with ...: ... *)
Definition dict_spec (cs : list (key * (option vpred * bool))) (d : list (key * value)) : Prop :=
  (forall k c opt, In (k, (c, opt)) cs -> k <> KEll ->
      match assoc k d with
      | Some x => opt_holds c (fun c => c x)
      | None => opt = true
      end) /\
  (declared KEll cs = false -> forall k x, In (k, x) d -> declared k cs = true).

Fixpoint conforms (s : schema) (v : value) {struct s} : Prop :=
  match s with
  | SNone => v = VNone
  | SBool val => exists b, v = VBool b /\ opt_holds val (fun e => b = e)
  | SInt val mn mx =>
      exists z, as_int v = Some z /\
                opt_holds val (fun e => z = iz e) /\
                opt_holds mn (fun m => iz m <= z) /\
                opt_holds mx (fun m => z <= iz m)
  | SFloat val mn mx pr =>
      exists x, v = VFloat x /\
                opt_holds val (fun e => float_value_ok x e pr = true) /\
                opt_holds mn (fun m => PrimFloat.ltb x m = false) /\
                opt_holds mx (fun m => PrimFloat.ltb m x = false)
  | SStr val len mnl mxl al sub pat =>
      exists s0, v = VStr s0 /\
                 opt_holds val (fun e => s0 = e) /\
                 opt_holds pat (fun pt => searchb (snd pt) s0 = Some true) /\
                 len_ok (zlen s0) len mnl mxl /\
                 opt_holds sub (fun t => infix t s0 = true) /\
                 opt_holds al (fun a => Forall (fun c => In c a) s0)
  | SList es ty len mnl mxl =>
      exists l, v = VList l /\ len_ok (zlen l) len mnl mxl /\
                match ty with
                | Some t => Forall (conforms t) l
                | None =>
                    match es with
                    | None => True
                    | Some es' =>
                        list_spec (map (fun e => match e with
                                                 | Some sch => Some (conforms sch)
                                                 | None => None end) es') l
                    end
                end
  | SDict ks =>
      exists d, v = VDict d /\
                match ks with
                | None => True
                | Some ents =>
                    dict_spec (map (fun e : dentry =>
                                      (de_key e,
                                       (match de_schema e with
                                        | Some sch => Some (conforms sch)
                                        | None => None end, de_opt e))) ents) d
                end
  | SAny ts =>
      match ts with
      | None => True
      | Some ts' => fold_right (fun c acc => c \/ acc) False (map (fun t => conforms t v) ts')
      end
  | SBytes val => exists b, v = VBytes b /\ opt_holds val (fun e => b = e)
  | SUuid val => exists n, v = VUuid n /\ uuid_version n = Some 4%N /\ opt_holds val (fun e => n = e)
  | SDatetime val =>
      exists a us, v = VDatetime a us /\ opt_holds val (fun e => e = (a, us))
  | SDate val =>
      isinst TDate v = true /\ opt_holds val (fun e => py_eqb v e = true)
  | SAlias _ t => conforms t v
  | SCustom t => conforms t v
  end.
