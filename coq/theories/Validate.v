(* The two validators (d42/validation/_validator.py, d42/substitution/_validator.py).

   [validateR] is the faithful model: every Python operation that raises on some value
   of its argument type is partial here ([Raise]), applied where the code applies it.
   [validate] is the total function it computes on well-formed schemas
   (proofs/ValidateTotal.v: wf s -> validateR m s p v = Ok (validate m s p v)); every
   other theorem is about [validate]. *)
From Coq Require Import PrimFloat.
Require Import D42.Prelude D42.PyFloat D42.Value D42.Regex D42.Schema.
Open Scope Z_scope.

Inductive mode := Plain | Subst.       (* Validator / SubstitutorValidator *)

Inductive ekind :=
| EType (t : pytype)
| EValue (expected : value)
| EMin (m : value) | EMax (m : value)
| ELen (n : intv) | EMinLen (n : intv) | EMaxLen (n : intv)
| EAlphabet (a : pystr) | ESubstr (s : pystr)
| ERegex (pt : pystr * list re)          (* pattern text and its parse tree *)
| EMissingElement (i : Z) | EExtraElement (i : Z)
| EMissingKey (k : key) | EExtraKey (k : key)
| EMismatch (ts : list schema)            (* the alternatives, none of which matched *)
| EUuidVersion (actual : option N).

Record verror := VE { ekind_of : ekind; epath : path; eactual : value }.

Definition elemfn := path -> value -> list verror.
Definition elemfnR := path -> value -> result (list verror).

(* ================= scalar checks (total; they never raise once the type is right) ======= *)

Definition check_value (p : path) (v expected : value) : list verror :=
  if py_eqb v expected then [] else [VE (EValue expected) p v].

Definition check_len (p : path) (v : value) (n : Z) (len mnl mxl : option intv) : list verror :=
  (match len with Some k => if negb (n =? iz k) then [VE (ELen k) p v] else [] | None => [] end) ++
  (match mnl with Some k => if n <? iz k then [VE (EMinLen k) p v] else [] | None => [] end) ++
  (match mxl with Some k => if iz k <? n then [VE (EMaxLen k) p v] else [] | None => [] end).

(* list length checks return at the first failure *)
Definition check_len_first (p : path) (v : value) (n : Z) (len mnl mxl : option intv)
  : list verror :=
  match check_len p v n len mnl mxl with [] => [] | e :: _ => [e] end.

Definition v_none (p : path) (v : value) : list verror :=
  if isinst TNone v then [] else [VE (EType TNone) p v].

Definition v_bool (val : option bool) (p : path) (v : value) : list verror :=
  if negb (isinst TBool v) then [VE (EType TBool) p v] else
  match val with Some b => check_value p v (VBool b) | None => [] end.

Definition v_int (val mn mx : option intv) (p : path) (v : value) : list verror :=
  match as_int v with
  | None => [VE (EType TInt) p v]
  | Some z =>
      match (match val with Some e => check_value p v (of_intv e) | None => [] end) with
      | (_ :: _) as errs => errs
      | [] =>
          (match mn with Some m => if z <? iz m then [VE (EMin (of_intv m)) p v] else [] | None => [] end) ++
          (match mx with Some m => if iz m <? z then [VE (EMax (of_intv m)) p v] else [] | None => [] end)
      end
  end.

(* nan is unequal to itself: a value declared as nan is matched by nan only (repair F10) *)
Definition float_value_ok (x expected : float) (prec : option intv) : bool :=
  if is_nan x || is_nan expected then is_nan x && is_nan expected else
  match prec with
  | None => isclose x expected
  | Some pr => prec_equal x expected (iz pr)
  end.

Definition v_float (val mn mx : option float) (prec : option intv) (p : path) (v : value)
  : list verror :=
  match v with
  | VFloat x =>
      match (match val with
             | Some e => if float_value_ok x e prec then [] else [VE (EValue (VFloat e)) p v]
             | None => [] end) with
      | (_ :: _) as errs => errs
      | [] =>
          (match mn with Some m => if PrimFloat.ltb x m then [VE (EMin (VFloat m)) p v] else [] | None => [] end) ++
          (match mx with Some m => if PrimFloat.ltb m x then [VE (EMax (VFloat m)) p v] else [] | None => [] end)
      end
  | _ => [VE (EType TFloat) p v]
  end.

Definition pat_search (pat : pystr * list re) (s : pystr) : bool :=
  match searchb (snd pat) s with Some b => b | None => false end.

Definition v_str (val : option pystr) (len mnl mxl : option intv) (alpha sub : option pystr)
           (pat : option (pystr * list re)) (p : path) (v : value) : list verror :=
  match v with
  | VStr s =>
      match (match val with Some e => check_value p v (VStr e) | None => [] end) with
      | (_ :: _) as errs => errs
      | [] =>
          match (match pat with
                 | Some pt => if pat_search pt s then [] else [VE (ERegex pt) p v]
                 | None => [] end) with
          | (_ :: _) as errs => errs
          | [] =>
              check_len p v (zlen s) len mnl mxl ++
              (match sub with Some t => if infix t s then [] else [VE (ESubstr t) p v] | None => [] end) ++
              (match alpha with
               | Some a => if forallb (fun c => Nmem c a) s then [] else [VE (EAlphabet a) p v]
               | None => [] end)
          end
      end
  | _ => [VE (EType TStr) p v]
  end.

Definition v_bytes (val : option (list N)) (p : path) (v : value) : list verror :=
  if negb (isinst TBytes v) then [VE (EType TBytes) p v] else
  match val with Some b => check_value p v (VBytes b) | None => [] end.

Definition v_uuid (val : option N) (p : path) (v : value) : list verror :=
  match v with
  | VUuid n =>
      if negb (uuid_is_v4 n) then [VE (EUuidVersion (uuid_version n)) p v] else
      match val with Some e => check_value p v (VUuid e) | None => [] end
  | _ => [VE (EType TUuid) p v]
  end.

Definition v_datetime (val : option (bool * Z)) (p : path) (v : value) : list verror :=
  if negb (isinst TDatetime v) then [VE (EType TDatetime) p v] else
  match val with Some (a, us) => check_value p v (VDatetime a us) | None => [] end.

Definition v_date (val : option value) (p : path) (v : value) : list verror :=
  if negb (isinst TDate v) then [VE (EType TDate) p v] else
  match val with Some e => check_value p v e | None => [] end.

(* ================= containers, pure ================= *)

(* Validator._validate_elements *)
Fixpoint velems (fs : list elemfn) (p : path) (l : list value) (idx : nat) : list verror :=
  match fs with
  | [] => []
  | f :: fs' =>
      match nth_error l idx with
      | None => [VE (EMissingElement (Z.of_nat idx)) p (VList l)]
      | Some x => f (p ++ [KInt (Z.of_nat idx)]) x ++ velems fs' p l (S idx)
      end
  end.

(* all_errors.sort(key=len)[0] : first list of minimal length (the sort is stable) *)
Fixpoint min_by_len {A} (best : list A) (ls : list (list A)) : list A :=
  match ls with
  | [] => best
  | x :: r => if (length x <? length best)%nat then min_by_len x r else min_by_len best r
  end.

Definition extras (p : path) (l : list value) (from : nat) : list verror :=
  map (fun i => VE (EExtraElement (Z.of_nat i)) p (VList l)) (seq from (length l - from)).

Definition list_logic (fs : list (option elemfn)) (p : path) (l : list value) : list verror :=
  let mid := strip (middle fs) in
  match classify fs with
  | FBody =>
      match l with
      | [] => velems mid p l 0
      | _ => match map (fun i => velems mid p l i) (seq 0 (length l)) with
             | [] => []
             | w :: ws => min_by_len w ws end
      end
  | FHead => velems mid p l 0
  | FTail => velems mid p l (length l - length (middle fs))
  | FExact => velems mid p l 0 ++ extras p l (length fs)
  end.

Definition skip_ell (m : mode) (i n : nat) (x : value) : bool :=
  match m, x with
  | Subst, VEllipsis => (i =? 0)%nat || (i =? n - 1)%nat
  | _, _ => false end.

Definition typed_logic (m : mode) (f : elemfn) (p : path) (l : list value) : list verror :=
  flat_map (fun ix => if skip_ell m (fst ix) (length l) (snd ix) then []
                      else f (p ++ [KInt (Z.of_nat (fst ix))]) (snd ix))
           (enumerate l).

Definition declared {A} (k : key) (fs : list (key * A)) : bool :=
  existsb (fun e => key_eqb k (fst e)) fs.

Definition dict_members (m : mode) (fs : list (key * (option elemfn * bool))) (p : path)
           (d : list (key * value)) : list verror :=
  flat_map (fun e : key * (option elemfn * bool) =>
      let '(k, (f, opt)) := e in
      if is_kell k then [] else
      match assoc k d with
      | Some x =>
          match m, x with
          | Subst, VEllipsis => []
          | _, _ => match f with Some f => f (p ++ [k]) x | None => [] end
          end
      | None =>
          match m with
          | Plain => if opt then [] else [VE (EMissingKey k) p (VDict d)]
          | Subst => [] end
      end) fs.

Definition dict_extras {A} (fs : list (key * A)) (p : path) (d : list (key * value))
  : list verror :=
  if declared KEll fs then [] else
  flat_map (fun kv => if declared (fst kv) fs then [] else [VE (EExtraKey (fst kv)) p (VDict d)]) d.

Definition dict_logic (m : mode) (fs : list (key * (option elemfn * bool))) (p : path)
           (d : list (key * value)) : list verror :=
  dict_members m fs p d ++ dict_extras fs p d.

Definition any_logic (ts : list schema) (fs : list elemfn) (p : path) (v : value) : list verror :=
  if existsb (fun f => match f p v with [] => true | _ => false end) fs then []
  else [VE (EMismatch ts) p v].

Fixpoint validate (m : mode) (s : schema) (p : path) (v : value) {struct s} : list verror :=
  match s with
  | SNone => v_none p v
  | SBool val => v_bool val p v
  | SInt val mn mx => v_int val mn mx p v
  | SFloat val mn mx pr => v_float val mn mx pr p v
  | SStr val len mnl mxl al sub pat => v_str val len mnl mxl al sub pat p v
  | SList es ty len mnl mxl =>
      match v with
      | VList l =>
          match check_len_first p v (zlen l) len mnl mxl with
          | (_ :: _) as errs => errs
          | [] =>
              match ty with
              | Some t => typed_logic m (validate m t) p l
              | None =>
                  match es with
                  | None => []
                  | Some es' =>
                      list_logic (map (fun e => match e with
                                                | Some sch => Some (validate m sch)
                                                | None => None end) es') p l
                  end
              end
          end
      | _ => [VE (EType TList) p v]
      end
  | SDict ks =>
      match v with
      | VDict d =>
          match ks with
          | None => []
          | Some ents =>
              dict_logic m (map (fun e : dentry =>
                                   (de_key e,
                                    (match de_schema e with
                                     | Some sch => Some (validate m sch)
                                     | None => None end, de_opt e))) ents) p d
          end
      | _ => [VE (EType TDict) p v]
      end
  | SAny ts =>
      match ts with
      | None => []
      | Some ts' => any_logic ts' (map (fun t => validate m t) ts') p v
      end
  | SBytes val => v_bytes val p v
  | SUuid val => v_uuid val p v
  | SDatetime val => v_datetime val p v
  | SDate val => v_date val p v
  | SAlias _ t => validate m t p v
  | SCustom t => validate m t p v
  end.

Definition verdict (s : schema) (v : value) : bool :=
  match validate Plain s [] v with [] => true | _ => false end.
Definition verdict_m (m : mode) (s : schema) (v : value) : bool :=
  match validate m s [] v with [] => true | _ => false end.

(* ================= the faithful, partial model ================= *)

(* Python primitives that raise on the wrong kind of operand *)
Definition r_as_int (v : value) : result Z :=
  match as_int v with Some z => Ok z | None => Raise TypeError end.
Definition r_as_float (v : value) : result float :=
  match v with VFloat x => Ok x | _ => Raise TypeError end.
Definition r_as_str (v : value) : result pystr :=
  match v with VStr s => Ok s | _ => Raise TypeError end.
Definition r_as_list (v : value) : result (list value) :=
  match v with VList l => Ok l | _ => Raise TypeError end.
Definition r_as_dict (v : value) : result (list (key * value)) :=
  match v with VDict d => Ok d | _ => Raise TypeError end.
Definition r_uuid_version (v : value) : result (option N) :=
  match v with VUuid n => Ok (uuid_version n) | _ => Raise AttributeError end.

(* round(x * 10**p): OverflowError for inf, ValueError for nan *)
Definition r_round_scaled (x : float) (p : Z) : result Z :=
  let y := PrimFloat.mul x (scale10 p) in
  match py_round y with
  | Some z => Ok z
  | None => if is_nan y then Raise ValueError else Raise OverflowError
  end.

(* try: ... except (OverflowError, ValueError): fallback *)
Definition catch_ov {A} (r : result A) (fallback : result A) : result A :=
  match r with
  | Raise OverflowError | Raise ValueError => fallback
  | _ => r end.

Definition vr_int (val mn mx : option intv) (p : path) (v : value) : result (list verror) :=
  if negb (isinst TInt v) then Ok [VE (EType TInt) p v] else
  match (match val with Some e => check_value p v (of_intv e) | None => [] end) with
  | (_ :: _) as errs => Ok errs
  | [] =>
      do e1 <- match mn with
               | Some m => do z <- r_as_int v;
                           Ok (if z <? iz m then [VE (EMin (of_intv m)) p v] else [])
               | None => Ok [] end;
      do e2 <- match mx with
               | Some m => do z <- r_as_int v;
                           Ok (if iz m <? z then [VE (EMax (of_intv m)) p v] else [])
               | None => Ok [] end;
      Ok (e1 ++ e2)
  end.

Definition vr_float (val mn mx : option float) (prec : option intv) (p : path) (v : value)
  : result (list verror) :=
  if negb (isinst TFloat v) then Ok [VE (EType TFloat) p v] else
  do ev <- match val with
           | None => Ok []
           | Some e =>
               do x <- r_as_float v;
               do ok <- if is_nan x || is_nan e then Ok (is_nan x && is_nan e) else
                        match prec with
                        | None => Ok (isclose x e)
                        | Some pr =>
                            catch_ov (do a <- r_round_scaled x (iz pr);
                                      do b <- r_round_scaled e (iz pr);
                                      Ok (a =? b))
                                     (Ok (PrimFloat.eqb x e))
                        end;
               Ok (if ok then [] else [VE (EValue (VFloat e)) p v])
           end;
  match ev with
  | _ :: _ => Ok ev
  | [] =>
      do e1 <- match mn with
               | Some m => do x <- r_as_float v;
                           Ok (if PrimFloat.ltb x m then [VE (EMin (VFloat m)) p v] else [])
               | None => Ok [] end;
      do e2 <- match mx with
               | Some m => do x <- r_as_float v;
                           Ok (if PrimFloat.ltb m x then [VE (EMax (VFloat m)) p v] else [])
               | None => Ok [] end;
      Ok (e1 ++ e2)
  end.

Definition vr_str (val : option pystr) (len mnl mxl : option intv) (alpha sub : option pystr)
           (pat : option (pystr * list re)) (p : path) (v : value) : result (list verror) :=
  if negb (isinst TStr v) then Ok [VE (EType TStr) p v] else
  match (match val with Some e => check_value p v (VStr e) | None => [] end) with
  | (_ :: _) as errs => Ok errs
  | [] =>
      do ep <- match pat with
               | None => Ok []
               | Some pt =>
                   do s <- r_as_str v;             (* re.search(pattern, value): TypeError *)
                   match searchb (snd pt) s with
                   | Some b => Ok (if b then [] else [VE (ERegex pt) p v])
                   | None => Raise OtherExn         (* pattern outside the modelled fragment *)
                   end
               end;
      match ep with
      | _ :: _ => Ok ep
      | [] =>
          do el <- match len, mnl, mxl with
                   | None, None, None => Ok []
                   | _, _, _ => do s <- r_as_str v; Ok (check_len p v (zlen s) len mnl mxl)
                   end;
          do es <- match sub with
                   | Some t => do s <- r_as_str v;
                               Ok (if infix t s then [] else [VE (ESubstr t) p v])
                   | None => Ok [] end;
          do ea <- match alpha with
                   | Some a => do s <- r_as_str v;
                               Ok (if forallb (fun c => Nmem c a) s then []
                                   else [VE (EAlphabet a) p v])
                   | None => Ok [] end;
          Ok (el ++ es ++ ea)
      end
  end.

Definition vr_uuid (val : option N) (p : path) (v : value) : result (list verror) :=
  if negb (isinst TUuid v) then Ok [VE (EType TUuid) p v] else
  do ver <- r_uuid_version v;
  match ver with
  | Some 4%N => Ok (match val with Some e => check_value p v (VUuid e) | None => [] end)
  | _ => Ok [VE (EUuidVersion ver) p v]
  end.

(* element_schema.__accept__ on the Ellipsis object *)
Definition ell_accept : elemfnR := fun _ _ => Raise AttributeError.
Definition of_optR (o : option elemfnR) : elemfnR :=
  match o with Some f => f | None => ell_accept end.

Fixpoint velemsR (fs : list elemfnR) (p : path) (l : list value) (idx : nat)
  : result (list verror) :=
  match fs with
  | [] => Ok []
  | f :: fs' =>
      match nth_error l idx with
      | None => Ok [VE (EMissingElement (Z.of_nat idx)) p (VList l)]
      | Some x =>
          do e1 <- f (p ++ [KInt (Z.of_nat idx)]) x;
          do e2 <- velemsR fs' p l (S idx);
          Ok (e1 ++ e2)
      end
  end.

Definition list_logicR (fs : list (option elemfnR)) (p : path) (l : list value)
  : result (list verror) :=
  let mid := map of_optR (middle fs) in
  match classify fs with
  | FBody =>
      match l with
      | [] => velemsR mid p l 0
      | _ =>
          do all <- rsequence (map (fun i => velemsR mid p l i) (seq 0 (length l)));
          Ok (match all with [] => [] | w :: ws => min_by_len w ws end)
      end
  | FHead => velemsR mid p l 0
  | FTail => velemsR mid p l (length l - length mid)
  | FExact =>
      do e <- velemsR mid p l 0;
      Ok (e ++ extras p l (length fs))
  end.

Definition typed_logicR (m : mode) (f : elemfnR) (p : path) (l : list value)
  : result (list verror) :=
  rmap (@concat verror)
       (rsequence (map (fun ix => if skip_ell m (fst ix) (length l) (snd ix) then Ok []
                                  else f (p ++ [KInt (Z.of_nat (fst ix))]) (snd ix))
                       (enumerate l))).

Definition dict_membersR (m : mode) (fs : list (key * (option elemfnR * bool))) (p : path)
           (d : list (key * value)) : result (list verror) :=
  rmap (@concat verror)
       (rsequence (map (fun e : key * (option elemfnR * bool) =>
          let '(k, (f, opt)) := e in
          if is_kell k then Ok [] else
          match assoc k d with
          | Some x =>
              match m, x with
              | Subst, VEllipsis => Ok []
              | _, _ => of_optR f (p ++ [k]) x
              end
          | None =>
              match m with
              | Plain => Ok (if opt then [] else [VE (EMissingKey k) p (VDict d)])
              | Subst => Ok [] end
          end) fs)).

Fixpoint any_logicR (ts : list schema) (fs : list elemfnR) (p : path) (v : value)
  : result (list verror) :=
  match fs with
  | [] => Ok [VE (EMismatch ts) p v]
  | f :: r =>
      do es <- f p v;
      match es with [] => Ok [] | _ => any_logicR ts r p v end
  end.

Fixpoint validateR (m : mode) (s : schema) (p : path) (v : value) {struct s}
  : result (list verror) :=
  match s with
  | SNone => Ok (v_none p v)
  | SBool val => Ok (v_bool val p v)
  | SInt val mn mx => vr_int val mn mx p v
  | SFloat val mn mx pr => vr_float val mn mx pr p v
  | SStr val len mnl mxl al sub pat => vr_str val len mnl mxl al sub pat p v
  | SList es ty len mnl mxl =>
      if negb (isinst TList v) then Ok [VE (EType TList) p v] else
      do l <- r_as_list v;
      match check_len_first p v (zlen l) len mnl mxl with
      | (_ :: _) as errs => Ok errs
      | [] =>
          match ty with
          | Some t => typed_logicR m (validateR m t) p l
          | None =>
              match es with
              | None => Ok []
              | Some es' =>
                  list_logicR (map (fun e => match e with
                                             | Some sch => Some (validateR m sch)
                                             | None => None end) es') p l
              end
          end
      end
  | SDict ks =>
      if negb (isinst TDict v) then Ok [VE (EType TDict) p v] else
      do d <- r_as_dict v;
      match ks with
      | None => Ok []
      | Some ents =>
          let fs := map (fun e : dentry =>
                           (de_key e,
                            (match de_schema e with
                             | Some sch => Some (validateR m sch)
                             | None => None end, de_opt e))) ents in
          do e1 <- dict_membersR m fs p d;
          Ok (e1 ++ dict_extras fs p d)
      end
  | SAny ts =>
      match ts with
      | None => Ok []
      | Some ts' => any_logicR ts' (map (fun t => validateR m t) ts') p v
      end
  | SBytes val => Ok (v_bytes val p v)
  | SUuid val => vr_uuid val p v
  | SDatetime val => Ok (v_datetime val p v)
  | SDate val => Ok (v_date val p v)
  | SAlias _ t => validateR m t p v
  | SCustom t => validateR m t p v
  end.

(* validate_or_fail: True, or ValidationException carrying one bullet per error *)
Inductive vof_outcome := VofTrue | VofRaises (bullets : nat) | VofCrash (e : pyexn).
Definition validate_or_fail (s : schema) (v : value) : vof_outcome :=
  match validateR Plain s [] v with
  | Ok [] => VofTrue
  | Ok es => VofRaises (length es)
  | Err _ => VofCrash OtherExn
  | Raise e => VofCrash e
  end.
