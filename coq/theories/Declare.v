(* The declaration DSL (d42/declaration/types/*.py): every refinement method of every
   built-in type as a function on ARBITRARY arguments, guard ladders in source order.

   A call  receiver.m(a1, .., an)  is  [decl m receiver [a1; ..; an]] :
     Ok s'        the call returns the schema s' (the receiver is a value: never changed)
     Err DeclErr  the call raises DeclarationError
     Raise e      the call lets another exception escape (only Python's own TypeError /
                  AttributeError for a wrong number of arguments or a method the type
                  does not have; excluded from the theorems by [arity_ok]).
   Definitions only; proofs are in proofs/DeclareSpec.v. *)
From Coq Require Import PrimFloat.
Require Import D42.Prelude D42.PyFloat D42.Value D42.Regex D42.Schema D42.Validate.
Open Scope Z_scope.

(* __call__, min, max, precision, len, alphabet, contains, regex *)
Inductive meth := MCall | MMin | MMax | MPrecision | MLen | MAlphabet | MContains | MRegex.

Definition meth_eqb (a b : meth) : bool :=
  match a, b with
  | MCall, MCall | MMin, MMin | MMax, MMax | MPrecision, MPrecision | MLen, MLen
  | MAlphabet, MAlphabet | MContains, MContains | MRegex, MRegex => true
  | _, _ => false end.

(* a key of a dict display:  k  or  optional(k) *)
Inductive dkey := DKey (k : key) | DOpt (k : key).
Definition dkey_key (k : dkey) : key := match k with DKey k | DOpt k => k end.
Definition dkey_opt (k : dkey) : bool := match k with DOpt _ => true | DKey _ => false end.
(* is_ellipsis(key): an optional(..) object is not the Ellipsis *)
Definition dkey_ell (k : dkey) : bool := match k with DKey KEll => true | _ => false end.

(* what a caller can pass: any value (incl. Ellipsis, Nil, wrongly typed ones), a schema,
   a list / dict whose members are again arbitrary, and - for [regex] - a str together
   with what the re module says about it: its sre parse tree and whether re.compile
   accepts it (raises neither re.error nor OverflowError). *)
Inductive arg :=
| AVal (v : value)
| ASchema (s : schema)
| APattern (src : pystr) (tree : list re) (compiles : bool)
| AList (l : list arg)
| ADict (d : list (dkey * arg)).

(* ---- isinstance views of an argument ---- *)
(* isinstance(a, int): bool is a subclass of int; the literal is kept (repr differs) *)
Definition a_int (a : arg) : option intv :=
  match a with
  | AVal (VInt z) => Some (IInt z)
  | AVal (VBool b) => Some (IBool b)
  | _ => None end.
Definition a_float (a : arg) : option float :=
  match a with AVal (VFloat f) => Some f | _ => None end.
Definition a_str (a : arg) : option pystr :=
  match a with AVal (VStr s) => Some s | APattern s _ _ => Some s | _ => None end.
Definition a_ell (a : arg) : bool := match a with AVal VEllipsis => true | _ => false end.
Definition a_nil (a : arg) : bool := match a with AVal VNil => true | _ => false end.
Definition a_list (a : arg) : option (list arg) :=
  match a with
  | AList l => Some l
  | AVal (VList l) => Some (map AVal l)
  | _ => None end.
Definition a_dict (a : arg) : option (list (dkey * arg)) :=
  match a with
  | ADict d => Some d
  | AVal (VDict d) => Some (map (fun kv => (DKey (fst kv), AVal (snd kv))) d)
  | _ => None end.

Definition dE {A} : result A := Err DeclErr.

(* sys.float_info.dig (the harness asserts the running interpreter agrees) *)
Definition FLOAT_DIG : Z := 15.

(* ================= scalars ================= *)

(* BoolSchema.__call__ *)
Definition bool_call (v : option bool) (a : arg) : result schema :=
  match a with
  | AVal (VBool b) => if is_some v then dE else Ok (SBool (Some b))
  | _ => dE end.

(* IntSchema.__call__ / min / max *)
Definition int_call (v mn mx : option intv) (a : arg) : result schema :=
  match a_int a with
  | None => dE
  | Some i =>
      if is_some v then dE else
      if is_some mn || is_some mx then dE else
      Ok (SInt (Some i) mn mx)
  end.
Definition int_min (v mn mx : option intv) (a : arg) : result schema :=
  match a_int a with
  | None => dE
  | Some i =>
      if is_some mn then dE else
      if match v with Some x => iz x <? iz i | None => false end then dE else   (* value > props.value *)
      Ok (SInt v (Some i) mx)
  end.
Definition int_max (v mn mx : option intv) (a : arg) : result schema :=
  match a_int a with
  | None => dE
  | Some i =>
      if is_some mx then dE else
      if match v with Some x => iz i <? iz x | None => false end then dE else   (* value < props.value *)
      Ok (SInt v mn (Some i))
  end.

(* FloatSchema.__call__ / min / max / precision  (an int is not a float) *)
Definition float_call (v mn mx : option float) (pr : option intv) (a : arg) : result schema :=
  match a_float a with
  | None => dE
  | Some f =>
      if is_some v then dE else
      if is_some mn || is_some mx then dE else
      Ok (SFloat (Some f) mn mx pr)
  end.
Definition float_min (v mn mx : option float) (pr : option intv) (a : arg) : result schema :=
  match a_float a with
  | None => dE
  | Some f =>
      if is_some mn then dE else
      if match v with Some x => PrimFloat.ltb x f | None => false end then dE else
      Ok (SFloat v (Some f) mx pr)
  end.
Definition float_max (v mn mx : option float) (pr : option intv) (a : arg) : result schema :=
  match a_float a with
  | None => dE
  | Some f =>
      if is_some mx then dE else
      if match v with Some x => PrimFloat.ltb f x | None => false end then dE else
      Ok (SFloat v mn (Some f) pr)
  end.
Definition float_precision (v mn mx : option float) (pr : option intv) (a : arg) : result schema :=
  match a_int a with
  | None => dE
  | Some i =>
      if negb ((1 <=? iz i) && (iz i <=? FLOAT_DIG)) then dE else
      if is_some pr then dE else
      Ok (SFloat v mn mx (Some i))
  end.

(* ================= str ================= *)

Definition str_call (v : option pystr) (len mnl mxl : option intv) (al sub : option pystr)
           (pat : option (pystr * list re)) (a : arg) : result schema :=
  match a_str a with
  | None => dE
  | Some x =>
      if is_some v then dE else
      if is_some len then dE else
      if is_some mnl || is_some mxl then dE else
      if is_some al then dE else
      if is_some sub then dE else
      if is_some pat then dE else
      Ok (SStr (Some x) len mnl mxl al sub pat)
  end.

(* __declare_len / __declare_min_len / __declare_max_len against a fixed value of length n *)
Definition sized_len (n : option Z) (a : arg) : result intv :=
  match a_int a with
  | None => dE
  | Some i => if match n with Some k => negb (k =? iz i) | None => false end then dE else Ok i
  end.
Definition sized_min_len (n : option Z) (a : arg) : result intv :=
  match a_int a with
  | None => dE
  | Some i => if match n with Some k => k <? iz i | None => false end then dE else Ok i
  end.
Definition sized_max_len (n : option Z) (a : arg) : result intv :=
  match a_int a with
  | None => dE
  | Some i => if match n with Some k => iz i <? k | None => false end then dE else Ok i
  end.

(* len(val_or_min, max=Nil) *)
Definition len_args (args : list arg) : option (arg * arg) :=
  match args with
  | [a] => Some (a, AVal VNil)
  | [a; b] => Some (a, b)
  | _ => None end.

Definition str_len (v : option pystr) (len mnl mxl : option intv) (al sub : option pystr)
           (pat : option (pystr * list re)) (a mx : arg) : result schema :=
  if is_some len then dE else
  if is_some mnl || is_some mxl then dE else
  if is_some pat then dE else
  let n := option_map (@zlen N) v in
  if a_ell a then
    do k <- sized_max_len n mx; Ok (SStr v len mnl (Some k) al sub pat)
  else if a_nil mx then
    do k <- sized_len n a; Ok (SStr v (Some k) mnl mxl al sub pat)
  else if a_ell mx then
    do k <- sized_min_len n a; Ok (SStr v len (Some k) mxl al sub pat)
  else
    do k1 <- sized_min_len n a;
    do k2 <- sized_max_len n mx;
    Ok (SStr v len (Some k1) (Some k2) al sub pat).

Definition str_alphabet (v : option pystr) (len mnl mxl : option intv) (al sub : option pystr)
           (pat : option (pystr * list re)) (a : arg) : result schema :=
  match a_str a with
  | None => dE
  | Some letters =>
      if is_some al then dE else
      if is_some pat then dE else
      if match v with Some x => negb (forallb (fun c => Nmem c letters) x) | None => false end
      then dE else
      Ok (SStr v len mnl mxl (Some letters) sub pat)
  end.

Definition str_contains (v : option pystr) (len mnl mxl : option intv) (al sub : option pystr)
           (pat : option (pystr * list re)) (a : arg) : result schema :=
  match a_str a with
  | None => dE
  | Some t =>
      if is_some sub then dE else
      if is_some pat then dE else
      if match v with Some x => negb (infix t x) | None => false end then dE else
      Ok (SStr v len mnl mxl al (Some t) pat)
  end.

(* a str offered as a pattern, with its parse information *)
Definition a_pat (a : arg) : option (pystr * list re * bool) :=
  match a with APattern src tree compiles => Some (src, tree, compiles) | _ => None end.
(* a str without parse information: not an input of the model when offered to [regex] *)
Definition a_rawstr (a : arg) : bool := match a with AVal (VStr _) => true | _ => false end.

(* regex: isinstance; exclusivity guard; re.compile (re.error and OverflowError both become
   DeclarationError); re.search against a fixed value ([pat_search] as in Validate.v) *)
Definition str_regex (v : option pystr) (len mnl mxl : option intv) (al sub : option pystr)
           (pat : option (pystr * list re)) (a : arg) : result schema :=
  match a_pat a with
  | Some (src, tree, compiles) =>
      if is_some pat || is_some al || is_some len || is_some mnl || is_some mxl || is_some sub
      then dE else
      if negb compiles then dE else
      if match v with Some x => negb (pat_search (src, tree) x) | None => false end then dE else
      Ok (SStr v len mnl mxl al sub (Some (src, tree)))
  | None => if a_rawstr a then Raise OtherExn else dE
  end.

(* ================= list ================= *)

Definition elem_of_arg (a : arg) : option (option schema) :=
  match a with
  | ASchema s => Some (Some s)
  | AVal VEllipsis => Some None
  | _ => None end.

(* the for-loop of ListSchema.__call__: element type, then position of a `...` *)
Fixpoint elems_loop (n idx : nat) (l : list arg) : result (list (option schema)) :=
  match l with
  | [] => Ok []
  | a :: r =>
      match elem_of_arg a with
      | None => dE
      | Some e =>
          if is_none e && negb (idx =? 0)%nat && negb (idx =? n - 1)%nat then dE
          else do es <- elems_loop n (S idx) r; Ok (e :: es)
      end
  end.

Definition two_ells {A} (l : list (option A)) : bool :=
  match l with [None; None] => true | _ => false end.

Definition list_call (es : option (list (option schema))) (ty : option schema)
           (len mnl mxl : option intv) (a : arg) : result schema :=
  match a, a_list a with
  | ASchema _, _ | _, Some _ =>
      if is_some es || is_some ty then dE else
      if is_some len then dE else
      if is_some mnl || is_some mxl then dE else
      match a, a_list a with
      | ASchema t, _ => Ok (SList es (Some t) len mnl mxl)
      | _, Some l =>
          do es' <- elems_loop (length l) 0 l;
          if two_ells es' then dE else Ok (SList (Some es') ty len mnl mxl)
      | _, None => dE
      end
  | _, None => dE
  end.

(* number of concrete elements / "no `...` at all" *)
Definition concrete {A} (es : list (option A)) : nat := length (strip es).
Definition all_concrete {A} (es : list (option A)) : bool := (length es =? concrete es)%nat.

Definition list_decl_len (es : option (list (option schema))) (a : arg) : result intv :=
  match a_int a with
  | None => dE
  | Some i =>
      match es with
      | Some l =>
          if all_concrete l
          then (if negb (iz i =? Z.of_nat (concrete l)) then dE else Ok i)
          else (if iz i <? Z.of_nat (concrete l) then dE else Ok i)
      | None => Ok i
      end
  end.
Definition list_decl_min_len (es : option (list (option schema))) (a : arg) : result intv :=
  match a_int a with
  | None => dE
  | Some i =>
      match es with
      | Some l => if Z.of_nat (concrete l) <? iz i then dE else Ok i
      | None => Ok i
      end
  end.
Definition list_decl_max_len (es : option (list (option schema))) (a : arg) : result intv :=
  match a_int a with
  | None => dE
  | Some i =>
      match es with
      | Some l => if iz i <? Z.of_nat (concrete l) then dE else Ok i
      | None => Ok i
      end
  end.

Definition list_len (es : option (list (option schema))) (ty : option schema)
           (len mnl mxl : option intv) (a mx : arg) : result schema :=
  if is_some len then dE else
  if is_some mnl || is_some mxl then dE else
  if a_ell a then
    do k <- list_decl_max_len es mx; Ok (SList es ty len mnl (Some k))
  else if a_nil mx then
    do k <- list_decl_len es a; Ok (SList es ty (Some k) mnl mxl)
  else if a_ell mx then
    do k <- list_decl_min_len es a; Ok (SList es ty len (Some k) mxl)
  else
    do k1 <- list_decl_min_len es a;
    do k2 <- list_decl_max_len es mx;
    Ok (SList es ty len (Some k1) (Some k2)).

(* ================= dict ================= *)

(* real_keys[k] = (val, opt): an existing key keeps its position (and its key object) *)
Fixpoint upsert (k : key) (s : option schema) (o : bool) (l : list dentry) : list dentry :=
  match l with
  | [] => [(k, s, o)]
  | e :: r => if key_eqb k (de_key e) then (de_key e, s, o) :: r else e :: upsert k s o r
  end.

Fixpoint dict_loop (items : list (dkey * arg)) (acc : list dentry) : result (list dentry) :=
  match items with
  | [] => Ok acc
  | (k, a) :: r =>
      if dkey_ell k || a_ell a then
        if negb (dkey_ell k) then dE else
        if negb (a_ell a) then dE else
        dict_loop r (upsert (dkey_key k) None (dkey_opt k) acc)
      else
        match a with
        | ASchema s => dict_loop r (upsert (dkey_key k) (Some s) (dkey_opt k) acc)
        | _ => dE
        end
  end.

Definition dict_call (ks : option (list dentry)) (a : arg) : result schema :=
  match a_dict a with
  | None => dE
  | Some items =>
      if is_some ks then dE else
      do l <- dict_loop items []; Ok (SDict (Some l))
  end.

(* ================= any ================= *)

(* AnySchema._flatten_schemas on one member *)
Fixpoint flatten1 (s : schema) : list schema :=
  match s with
  | SAny (Some ts) => flat_map flatten1 ts
  | _ => [s]
  end.

Fixpoint all_schemas (l : list arg) : option (list schema) :=
  match l with
  | [] => Some []
  | ASchema s :: r => match all_schemas r with Some r' => Some (s :: r') | None => None end
  | _ :: _ => None
  end.

Definition any_call (ts : option (list schema)) (args : list arg) : result schema :=
  match all_schemas args with
  | None => dE
  | Some l =>
      if is_some ts then dE else Ok (SAny (Some (flat_map flatten1 l)))
  end.

(* ================= remaining value-only types ================= *)

Definition bytes_call (v : option (list N)) (a : arg) : result schema :=
  match a with
  | AVal (VBytes b) => if is_some v then dE else Ok (SBytes (Some b))
  | _ => dE end.

Definition uuid_call (v : option N) (a : arg) : result schema :=
  match a with
  | AVal (VUuid n) =>
      if negb (uuid_is_v4 n) then dE else            (* value.version != 4 *)
      if is_some v then dE else Ok (SUuid (Some n))
  | _ => dE end.

Definition datetime_call (v : option (bool * Z)) (a : arg) : result schema :=
  match a with
  | AVal (VDatetime aw us) => if is_some v then dE else Ok (SDatetime (Some (aw, us)))
  | _ => dE end.

(* isinstance(value, date): a datetime is a date *)
Definition date_call (v : option value) (a : arg) : result schema :=
  match a with
  | AVal x => if negb (isinst TDate x) then dE else
              if is_some v then dE else Ok (SDate (Some x))
  | _ => dE end.

(* ================= dispatch ================= *)

Definition with1 (args : list arg) (f : arg -> result schema) : result schema :=
  match args with [a] => f a | _ => Raise TypeError end.
Definition with_len (args : list arg) (f : arg -> arg -> result schema) : result schema :=
  match len_args args with Some (a, b) => f a b | None => Raise TypeError end.

Definition decl (m : meth) (s : schema) (args : list arg) : result schema :=
  match s, m with
  | SBool v, MCall => with1 args (bool_call v)
  | SInt v mn mx, MCall => with1 args (int_call v mn mx)
  | SInt v mn mx, MMin => with1 args (int_min v mn mx)
  | SInt v mn mx, MMax => with1 args (int_max v mn mx)
  | SFloat v mn mx pr, MCall => with1 args (float_call v mn mx pr)
  | SFloat v mn mx pr, MMin => with1 args (float_min v mn mx pr)
  | SFloat v mn mx pr, MMax => with1 args (float_max v mn mx pr)
  | SFloat v mn mx pr, MPrecision => with1 args (float_precision v mn mx pr)
  | SStr v len mnl mxl al sub pat, MCall => with1 args (str_call v len mnl mxl al sub pat)
  | SStr v len mnl mxl al sub pat, MLen => with_len args (str_len v len mnl mxl al sub pat)
  | SStr v len mnl mxl al sub pat, MAlphabet => with1 args (str_alphabet v len mnl mxl al sub pat)
  | SStr v len mnl mxl al sub pat, MContains => with1 args (str_contains v len mnl mxl al sub pat)
  | SStr v len mnl mxl al sub pat, MRegex => with1 args (str_regex v len mnl mxl al sub pat)
  | SList es ty len mnl mxl, MCall => with1 args (list_call es ty len mnl mxl)
  | SList es ty len mnl mxl, MLen => with_len args (list_len es ty len mnl mxl)
  | SDict ks, MCall => with1 args (dict_call ks)
  | SAny ts, MCall => match args with [] => Raise TypeError | _ => any_call ts args end
  | SBytes v, MCall => with1 args (bytes_call v)
  | SUuid v, MCall => with1 args (uuid_call v)
  | SDatetime v, MCall => with1 args (datetime_call v)
  | SDate v, MCall => with1 args (date_call v)
  | SNone, MCall | SAlias _ _, MCall | SCustom _, MCall => Raise TypeError   (* not callable *)
  | _, _ => Raise AttributeError                                              (* no such method *)
  end.

(* a chain  s.m1(args1).m2(args2)...  *)
Definition op := (meth * list arg)%type.
Fixpoint run (ops : list op) (s : schema) : result schema :=
  match ops with
  | [] => Ok s
  | (m, a) :: r => do s' <- decl m s a; run r s'
  end.

(* ================= what the theorems talk about ================= *)

(* the built-in type of a schema: methods and arities depend on nothing else *)
Inductive kind :=
| KdNone | KdBool | KdInt | KdFloat | KdStr | KdList | KdDict | KdAny | KdBytes | KdUuid
| KdDatetime | KdDate | KdAlias | KdCustom.
Definition kind_of (s : schema) : kind :=
  match s with
  | SNone => KdNone | SBool _ => KdBool | SInt _ _ _ => KdInt | SFloat _ _ _ _ => KdFloat
  | SStr _ _ _ _ _ _ _ => KdStr | SList _ _ _ _ _ => KdList | SDict _ => KdDict | SAny _ => KdAny
  | SBytes _ => KdBytes | SUuid _ => KdUuid | SDatetime _ => KdDatetime | SDate _ => KdDate
  | SAlias _ _ => KdAlias | SCustom _ => KdCustom end.

(* schema.<kind> *)
Definition bare (k : kind) : schema :=
  match k with
  | KdNone => SNone | KdBool => SBool None | KdInt => SInt None None None
  | KdFloat => SFloat None None None None | KdStr => SStr None None None None None None None
  | KdList => SList None None None None None | KdDict => SDict None | KdAny => SAny None
  | KdBytes => SBytes None | KdUuid => SUuid None | KdDatetime => SDatetime None
  | KdDate => SDate None
  | KdAlias => SAlias None (SAny None) | KdCustom => SCustom SNone end.

Definition has_meth (k : kind) (m : meth) : bool :=
  match k, m with
  | KdBool, MCall | KdBytes, MCall | KdUuid, MCall | KdDatetime, MCall | KdDate, MCall
  | KdDict, MCall | KdAny, MCall => true
  | KdInt, (MCall | MMin | MMax) => true
  | KdFloat, (MCall | MMin | MMax | MPrecision) => true
  | KdStr, (MCall | MLen | MAlphabet | MContains | MRegex) => true
  | KdList, (MCall | MLen) => true
  | _, _ => false end.

(* the type has the method, Python accepts the number of arguments, and a str offered to
   [regex] comes with its parse information *)
Definition arity_ok (k : kind) (m : meth) (args : list arg) : bool :=
  has_meth k m &&
  match m with
  | MLen => match args with [_] | [_; _] => true | _ => false end
  | MCall =>
      match k with
      | KdAny => match args with [] => false | _ => true end
      | _ => match args with [_] => true | _ => false end
      end
  | MRegex => match args with [a] => negb (a_rawstr a) | _ => false end
  | _ => match args with [_] => true | _ => false end
  end.

(* the property a method sets is already declared *)
Definition prop_declared (m : meth) (s : schema) : bool :=
  match s, m with
  | SBool v, MCall => is_some v
  | SInt v _ _, MCall => is_some v
  | SInt _ mn _, MMin => is_some mn
  | SInt _ _ mx, MMax => is_some mx
  | SFloat v _ _ _, MCall => is_some v
  | SFloat _ mn _ _, MMin => is_some mn
  | SFloat _ _ mx _, MMax => is_some mx
  | SFloat _ _ _ pr, MPrecision => is_some pr
  | SStr v _ _ _ _ _ _, MCall => is_some v
  | SStr _ len mnl mxl _ _ _, MLen => is_some len || is_some mnl || is_some mxl
  | SStr _ _ _ _ al _ _, MAlphabet => is_some al
  | SStr _ _ _ _ _ sub _, MContains => is_some sub
  | SStr _ _ _ _ _ _ pat, MRegex => is_some pat
  | SList es ty _ _ _, MCall => is_some es || is_some ty
  | SList _ _ len mnl mxl, MLen => is_some len || is_some mnl || is_some mxl
  | SDict ks, MCall => is_some ks
  | SAny ts, MCall => is_some ts
  | SBytes v, MCall => is_some v
  | SUuid v, MCall => is_some v
  | SDatetime v, MCall => is_some v
  | SDate v, MCall => is_some v
  | _, _ => false end.

(* the non-value refinements (C11) *)
Definition refinement (m : meth) : bool := match m with MCall => false | _ => true end.

(* ---- the fixed value a schema carries: a declared value, or a fully fixed element
        list (every element carries a fixed value, no `...`) ---- *)
Fixpoint fixed (s : schema) : option value :=
  match s with
  | SNone => Some VNone
  | SBool (Some b) => Some (VBool b)
  | SInt (Some i) _ _ => Some (of_intv i)
  | SFloat (Some f) _ _ _ => Some (VFloat f)
  | SStr (Some x) _ _ _ _ _ _ => Some (VStr x)
  | SBytes (Some b) => Some (VBytes b)
  | SUuid (Some n) => Some (VUuid n)
  | SDatetime (Some (aw, us)) => Some (VDatetime aw us)
  | SDate (Some v) => Some v
  | SList (Some es) None _ _ _ =>
      match (fix go (l : list (option schema)) : option (list value) :=
               match l with
               | [] => Some []
               | Some e :: r =>
                   match fixed e, go r with
                   | Some v, Some vs => Some (v :: vs)
                   | _, _ => None end
               | None :: _ => None
               end) es with
      | Some vs => Some (VList vs)
      | None => None end
  | _ => None
  end.

(* ---- the invariant of everything the DSL builds ---- *)
Definition opt_all {A} (o : option A) (f : A -> bool) : bool :=
  match o with Some a => f a | None => true end.

(* len(n) excludes len(a, b) and its one-sided forms *)
Definition len_group_ok (len mnl mxl : option intv) : bool :=
  is_none len || (is_none mnl && is_none mxl).

(* `...` only first or last, and not [..., ...] *)
Fixpoint ell_positions_ok {A} (n idx : nat) (l : list (option A)) : bool :=
  match l with
  | [] => true
  | e :: r => (is_some e || (idx =? 0)%nat || (idx =? n - 1)%nat) && ell_positions_ok n (S idx) r
  end.
Definition elems_ok {A} (l : list (option A)) : bool :=
  ell_positions_ok (length l) 0 l && negb (two_ells l).

(* lengths declared on a list with elements: what __declare_*len accept *)
Definition list_lens_ok {A} (l : list (option A)) (len mnl mxl : option intv) : bool :=
  let n := Z.of_nat (concrete l) in
  opt_all len (fun k => if all_concrete l then iz k =? n else negb (iz k <? n)) &&
  opt_all mnl (fun k => negb (n <? iz k)) &&
  opt_all mxl (fun k => negb (iz k <? n)).

Definition is_any_some (s : schema) : bool :=
  match s with SAny (Some _) => true | _ => false end.

Fixpoint dsl_inv (s : schema) : bool :=
  match s with
  | SNone | SBool _ | SBytes _ | SDatetime _ => true
  | SInt v mn mx =>
      opt_all v (fun x => opt_all mn (fun m => negb (iz x <? iz m)) &&
                          opt_all mx (fun m => negb (iz m <? iz x)))
  | SFloat v mn mx pr =>
      opt_all v (fun x => opt_all mn (fun m => negb (PrimFloat.ltb x m)) &&
                          opt_all mx (fun m => negb (PrimFloat.ltb m x))) &&
      opt_all pr (fun p => (1 <=? iz p) && (iz p <=? FLOAT_DIG))
  | SStr v len mnl mxl al sub pat =>
      len_group_ok len mnl mxl &&
      opt_all pat (fun _ => is_none len && is_none mnl && is_none mxl && is_none al && is_none sub) &&
      opt_all v (fun x =>
        opt_all len (fun k => zlen x =? iz k) &&
        opt_all mnl (fun k => negb (zlen x <? iz k)) &&
        opt_all mxl (fun k => negb (iz k <? zlen x)) &&
        opt_all al (fun a => forallb (fun c => Nmem c a) x) &&
        opt_all sub (fun t => infix t x) &&
        opt_all pat (fun pt => pat_search pt x))
  | SList es ty len mnl mxl =>
      negb (is_some es && is_some ty) && len_group_ok len mnl mxl &&
      match es with
      | None => true
      | Some l =>
          elems_ok l && list_lens_ok l len mnl mxl &&
          forallb (fun x => x) (map (fun o => match o with Some e => dsl_inv e | None => true end) l)
      end &&
      match ty with None => true | Some t => dsl_inv t end
  | SDict None => true
  | SDict (Some l) =>
      forallb entry_shape_ok l && nodup_keys (map de_key l) &&
      forallb (fun x => x) (map (fun e => match de_schema e with Some t => dsl_inv t | None => true end) l)
  | SAny None => true
  | SAny (Some l) =>
      match l with [] => false | _ => true end &&
      forallb (fun t => negb (is_any_some t)) l &&
      forallb (fun x => x) (map (fun t => dsl_inv t) l)
  | SUuid v => opt_all v uuid_is_v4
  | SDate v => opt_all v (isinst TDate)
  | SAlias _ t => dsl_inv t
  | SCustom t => dsl_inv t
  end.

(* schemas occurring in an argument satisfy the invariant (they were built by the DSL), and
   no dict key is optional(...) - the constructor of [optional] refuses the Ellipsis *)
Fixpoint arg_inv (a : arg) : bool :=
  match a with
  | AVal _ | APattern _ _ _ => true
  | ASchema s => dsl_inv s
  | AList l => forallb (fun x => x) (map (fun x => arg_inv x) l)
  | ADict d => forallb (fun x => x)
                 (map (fun kx => negb (match fst kx with DOpt KEll => true | _ => false end)
                                 && arg_inv (snd kx)) d)
  end.
Definition args_inv (args : list arg) : bool := forallb arg_inv args.

(* ---- NaN (finding F10): math.isclose(nan, nan) is False, so a schema whose fixed float
        value is NaN rejects it ---- *)
Fixpoint value_no_nan (v : value) : bool :=
  match v with
  | VFloat f => negb (is_nan f)
  | VList l => forallb (fun x => x) (map (fun x => value_no_nan x) l)
  | VDict d => forallb (fun x => x) (map (fun kx => value_no_nan (snd kx)) d)
  | _ => true end.

(* no fixed float value, at any depth, is NaN *)
Fixpoint schema_no_nan (s : schema) : bool :=
  match s with
  | SFloat (Some f) _ _ _ => negb (is_nan f)
  | SList es ty _ _ _ =>
      match es with
      | None => true
      | Some l => forallb (fun x => x)
                    (map (fun o => match o with Some e => schema_no_nan e | None => true end) l)
      end &&
      match ty with None => true | Some t => schema_no_nan t end
  | SDict (Some l) =>
      forallb (fun x => x)
        (map (fun e => match de_schema e with Some t => schema_no_nan t | None => true end) l)
  | SAny (Some l) => forallb (fun x => x) (map (fun t => schema_no_nan t) l)
  | SAlias _ t => schema_no_nan t
  | SCustom t => schema_no_nan t
  | _ => true
  end.

Fixpoint arg_no_nan (a : arg) : bool :=
  match a with
  | AVal v => value_no_nan v
  | ASchema s => schema_no_nan s
  | APattern _ _ _ => true
  | AList l => forallb (fun x => x) (map (fun x => arg_no_nan x) l)
  | ADict d => forallb (fun x => x) (map (fun kx => arg_no_nan (snd kx)) d)
  end.
Definition no_nan_args (args : list arg) : bool := forallb arg_no_nan args.

(* ---- outcomes up to the text of the DeclarationError (C11) ---- *)
Definition outcome_eq (a b : result schema) : Prop :=
  match a, b with
  | Ok x, Ok y => x = y
  | Err _, Err _ => True
  | Raise e, Raise e' => e = e'
  | _, _ => False end.

(* s.o1(a1).o2(a2) *)
Definition then2 (o1 : meth) (a1 : list arg) (o2 : meth) (a2 : list arg) (s : schema) : result schema :=
  do s' <- decl o1 s a1; decl o2 s' a2.

(* every op of a chain is an arity-correct non-value refinement of the type *)
Definition refinement_ops (k : kind) (ops : list op) : Prop :=
  Forall (fun o : op => refinement (fst o) = true /\ arity_ok k (fst o) (snd o) = true) ops.
