(* Python values as far as d42 inspects them. *)
From Coq Require Import PrimFloat.
Require Import D42.Prelude D42.PyFloat.
Open Scope Z_scope.

(* an int parameter/literal: Python lets a bool stand wherever an int is expected, and
   repr() keeps the difference *)
Inductive intv := IInt (z : Z) | IBool (b : bool).
Definition iz (i : intv) : Z :=
  match i with IInt z => z | IBool true => 1 | IBool false => 0 end.
Definition intv_same (a b : intv) : bool :=      (* identical literal *)
  match a, b with
  | IInt x, IInt y => Z.eqb x y
  | IBool x, IBool y => Bool.eqb x y
  | _, _ => false end.

(* dict keys up to Python's key equality: True/1/1.0 are one key *)
Inductive key :=
| KStr (s : pystr) | KInt (z : Z) | KNone | KBytes (b : list N) | KOpaque (n : N)
| KEll.                                  (* the Ellipsis object used as a key *)

Definition key_eqb (a b : key) : bool :=
  match a, b with
  | KStr x, KStr y => str_eqb x y
  | KInt x, KInt y => Z.eqb x y
  | KNone, KNone => true
  | KBytes x, KBytes y => list_eqb N.eqb x y
  | KOpaque x, KOpaque y => N.eqb x y
  | KEll, KEll => true
  | _, _ => false end.
Definition is_kell (k : key) : bool := match k with KEll => true | _ => false end.

Inductive value :=
| VNone
| VBool (b : bool)
| VInt (z : Z)
| VFloat (f : float)
| VStr (s : pystr)
| VBytes (b : list N)
| VUuid (n : N)                          (* the 128-bit integer *)
| VDatetime (aware : bool) (us : Z)      (* naive: local microseconds; aware: UTC microseconds *)
| VDate (ordinal : Z)
| VList (l : list value)
| VDict (d : list (key * value))         (* insertion order, keys pairwise distinct *)
| VEllipsis
| VNil
| VOther (tag : N).                      (* tuple, set, Decimal, object(), ... : instance of none of the schema types *)

(* the runtime types the validators test with isinstance *)
Inductive pytype :=
| TNone | TBool | TInt | TFloat | TStr | TList | TDict | TBytes | TUuid | TDatetime | TDate.

Definition pytype_eqb (a b : pytype) : bool :=
  match a, b with
  | TNone, TNone | TBool, TBool | TInt, TInt | TFloat, TFloat | TStr, TStr | TList, TList
  | TDict, TDict | TBytes, TBytes | TUuid, TUuid | TDatetime, TDatetime | TDate, TDate => true
  | _, _ => false end.

(* isinstance(v, t): bool is a subclass of int, datetime of date *)
Definition isinst (t : pytype) (v : value) : bool :=
  match t, v with
  | TNone, VNone => true
  | TBool, VBool _ => true
  | TInt, VInt _ | TInt, VBool _ => true
  | TFloat, VFloat _ => true
  | TStr, VStr _ => true
  | TList, VList _ => true
  | TDict, VDict _ => true
  | TBytes, VBytes _ => true
  | TUuid, VUuid _ => true
  | TDatetime, VDatetime _ _ => true
  | TDate, VDate _ | TDate, VDatetime _ _ => true
  | _, _ => false end.

Definition as_int (v : value) : option Z :=
  match v with VInt z => Some z | VBool true => Some 1 | VBool false => Some 0 | _ => None end.

Definition of_intv (i : intv) : value := match i with IInt z => VInt z | IBool b => VBool b end.

(* uuid.UUID.version: None unless the variant is RFC 4122 *)
Definition uuid_version (n : N) : option N :=
  if N.testbit n 63 && negb (N.testbit n 62)
  then Some (N.land (N.shiftr n 76) 15) else None.
Definition uuid_is_v4 (n : N) : bool :=
  match uuid_version n with Some 4%N => true | _ => false end.

(* Python == between the values d42 compares with ==/!= (scalars; containers structurally,
   dicts up to order).  int/float cross comparison is not needed by the modelled code and
   is answered False here. *)
Fixpoint assoc {V} (k : key) (d : list (key * V)) : option V :=
  match d with
  | [] => None
  | (k', v) :: r => if key_eqb k k' then Some v else assoc k r
  end.

Fixpoint py_eqb (a b : value) {struct a} : bool :=
  match a, b with
  | VNone, VNone => true
  | VBool _, _ | VInt _, _ =>
      match as_int a, as_int b with Some x, Some y => Z.eqb x y | _, _ => false end
  | VFloat x, VFloat y => PrimFloat.eqb x y
  | VStr x, VStr y => str_eqb x y
  | VBytes x, VBytes y => list_eqb N.eqb x y
  | VUuid x, VUuid y => N.eqb x y
  | VDatetime a1 u1, VDatetime a2 u2 => Bool.eqb a1 a2 && Z.eqb u1 u2
  | VDate x, VDate y => Z.eqb x y
  | VList x, VList y =>
      (fix go (x y : list value) : bool :=
         match x, y with
         | [], [] => true
         | u :: x', w :: y' => py_eqb u w && go x' y'
         | _, _ => false end) x y
  | VDict x, VDict y =>
      Nat.eqb (length x) (length y) &&
      (fix go (x : list (key * value)) : bool :=
         match x with
         | [] => true
         | (k, u) :: x' =>
             match assoc k y with Some w => py_eqb u w | None => false end && go x'
         end) x
  | VEllipsis, VEllipsis => true
  | VNil, VNil => true
  | VOther x, VOther y => N.eqb x y
  | _, _ => false
  end.

(* paths: PathHolder items; a list index is KInt i *)
Definition path := list key.

(* th.get(value, path) *)
Fixpoint lookup (v : value) (p : path) : option value :=
  match p with
  | [] => Some v
  | k :: p' =>
      match v, k with
      | VList l, KInt i =>
          if (i <? 0)%Z then None
          else match nth_error l (Z.to_nat i) with Some x => lookup x p' | None => None end
      | VDict d, _ => match assoc k d with Some x => lookup x p' | None => None end
      | _, _ => None
      end
  end.

Definition has_key {V} (k : key) (d : list (key * V)) : bool := is_some (assoc k d).
