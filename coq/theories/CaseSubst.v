(* case checkers for from_native / substitute *)
Require Import D42.Prelude D42.Value D42.Regex D42.Schema D42.Validate D42.CaseLib
               D42.FromNative D42.Substitute.

Definition fncase := (value * result schema)%type.
Definition fncase_ok (c : fncase) : bool :=
  let '(v, obs) := c in result_same schema_same (from_native v) obs.

Definition subcase := (schema * value * result schema)%type.
Definition subcase_ok (c : subcase) : bool :=
  let '(s, v, obs) := c in result_same schema_same (substitute s v) obs.
