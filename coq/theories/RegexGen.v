(* d42/generation/_regex_generator.py : RegexGenerator, over the sre.parse tree [list re]
   of D42.Regex and the tape monad of D42.PyRandom.  One definition per method, the draws
   in the order the code makes them.  Definitions only; proofs are in proofs/RegexGenSpec.v.

     generate(pattern)            gen_re            (after sre.parse, done by the harness)
     _generate_pattern(value)     seq_run (map gen value)
     _generate(opcode, value)     gen
     _generate_any                gen_any
     _generate_literal            chr: the code point itself
     _generate_in                 gen_in / gen_not_in (first item NEGATE = flag [neg] of RIn)
     _generate_not_in             gen_not_in
     _generate_not_literal        gen_not_in [CLit c]
     _generate_max_repeat         gen_max_repeat (= _generate_min_repeat)
     _generate_at                 ret []
     _generate_branch             random_choice over the alternatives, then _generate_pattern
     _generate_subpattern         _generate_pattern of the body
     _get_category_alphabet       category_alphabet

   The only place where the real code's result depends on something that is neither the
   pattern nor a draw is  "".join(set(letters) - set(exclude_letters))  in _generate_not_in:
   the ORDER of that string follows CPython's str hashing (PYTHONHASHSEED).  It is the
   parameter [hash_perm] here; the theorems hold for every permutation. *)
Require Import D42.Prelude D42.Regex D42.PyRandom.
Require Import D42Gen.GenConsts.
Open Scope N_scope.

(* RegexGenerator.__init__: self._alphabet (three strings) and self._max_repeat *)
Record gcfg := mk_gcfg {
  g_letters : pystr;
  g_digits : pystr;
  g_word : pystr;
  g_max_repeat : Z }.

(* RegexGenerator(Random(), max_repeat=k): the alphabets of the running code
   (string.ascii_letters + digits + punctuation + " ", ...), regenerated on every run *)
Definition default_cfg (k : Z) : gcfg := mk_gcfg RE_LETTERS RE_DIGITS RE_WORD k.

(* [chr(x) for x in range(lo, hi + 1)] *)
Definition nrange_step (st : N * pystr) : N * pystr := let '(i, acc) := st in (N.pred i, i :: acc).
Definition nrange (lo hi : N) : pystr :=
  if hi <? lo then [] else snd (N.iter (hi + 1 - lo) nrange_step (hi, [])).

(* the distinct elements of [l] (set(...)), in the order of their last occurrence *)
Fixpoint dedup (l : pystr) : pystr :=
  match l with
  | [] => []
  | c :: r => if Nmem c r then dedup r else c :: dedup r end.

(* set(letters) - set(exclude), before the order is chosen *)
Definition set_diff (letters exclude : pystr) : pystr :=
  dedup (filter (fun c => negb (Nmem c exclude)) letters).

(* "".join(g() for _ in range(n)) *)
Fixpoint mrepeat (g : M pystr) (n : nat) : M pystr :=
  match n with
  | O => ret []
  | S k => dom s <- g; dom s2 <- mrepeat g k; ret (s ++ s2) end.

(* "".join(g() for g in gs) *)
Fixpoint seq_run (gs : list (M pystr)) : M pystr :=
  match gs with
  | [] => ret []
  | g :: rest => dom s <- g; dom s2 <- seq_run rest; ret (s ++ s2) end.

Section Gen.
  Variable cfg : gcfg.
  Variable hash_perm : pystr -> pystr.     (* iteration order of a set of characters *)

  (* _get_category_alphabet *)
  Definition category_alphabet (k : cat) : result pystr :=
    match k with
    | CDigit => Ok (g_digits cfg)
    | CWord => Ok (g_word cfg)
    | COtherCat _ => Raise ValueError end.

  (* _generate_any *)
  Definition gen_any : M N := random_choice (g_letters cfg).

  (* the loop of _generate_not_in: exclude_letters += ... per item, in order *)
  Fixpoint exclude_letters (items : list citem) (acc : pystr) : result pystr :=
    match items with
    | [] => Ok acc
    | CRange lo hi :: rest => exclude_letters rest (acc ++ nrange lo hi)
    | CCat k :: rest => do a <- category_alphabet k; exclude_letters rest (acc ++ a)
    | CLit c :: rest => exclude_letters rest (acc ++ [c])      (* _generate(LITERAL, val) *)
    end.

  (* _generate_not_in *)
  Definition gen_not_in (items : list citem) : M N :=
    dom ex <- mlift (exclude_letters items []);
    random_choice (hash_perm (set_diff (g_letters cfg) ex)).

  (* _generate_in, first item not NEGATE.  [(opcode, val), *other = value] on an empty list
     is a ValueError (sre.parse never produces an empty class). *)
  Definition gen_in (items : list citem) : M N :=
    match items with
    | [] => mraise ValueError
    | _ =>
        dom it <- random_choice items;
        match it with
        | CRange lo hi => dom o <- random_int (Z.of_N lo) (Z.of_N hi); ret (Z.to_N o)
        | CCat k => dom a <- mlift (category_alphabet k); random_choice a
        | CLit c => ret c
        end
    end.

  (* _generate_max_repeat on the already translated body *)
  Definition gen_max_repeat (mn : N) (mx : option N) (body : M pystr) : M pystr :=
    let max_count := match mx with
                     | None => Z.max (g_max_repeat cfg) (Z.of_N mn)     (* == MAXREPEAT *)
                     | Some m => Z.of_N m end in
    dom count <- random_int (Z.of_N mn) max_count;
    mrepeat body (Z.to_nat count).

  (* _generate *)
  Fixpoint gen (r : re) : M pystr :=
    match r with
    | RAny => dom c <- gen_any; ret [c]
    | RLit c => ret [c]
    | RNotLit c => dom x <- gen_not_in [CLit c]; ret [x]
    | RIn neg items => dom x <- (if neg then gen_not_in items else gen_in items); ret [x]
    | RGroup body => seq_run (map (fun r0 => gen r0) body)
    | RRepeat _ mn mx body => gen_max_repeat mn mx (seq_run (map (fun r0 => gen r0) body))
    | RAt _ => ret []
    | RBranch alts =>
        dom g <- random_choice (map (fun alt => seq_run (map (fun r0 => gen r0) alt)) alts); g
    | RUnsupported _ => mraise ValueError
    end.

  (* _generate_pattern / generate *)
  Definition gen_re (p : list re) : M pystr := seq_run (map gen p).
End Gen.

(* ---- the supported fragment: declarative full-match semantics ----
   No rule for RUnsupported, none for RAt, none through a category other than \d \w. *)
Inductive matches : re -> pystr -> Prop :=
| MLit c : matches (RLit c) [c]
| MNotLit c x : x <> c -> matches (RNotLit c) [x]
| MAny x : x <> 10 -> matches RAny [x]
| MIn neg items x :
    (neg = true -> items_supported items = true) ->
    cset_mem (CS neg items) x = true -> matches (RIn neg items) [x]
| MBranch alts alt s : In alt alts -> matches_seq alt s -> matches (RBranch alts) s
| MGroup body s : matches_seq body s -> matches (RGroup body) s
| MRepeat lz mn mx body n s :
    (N.to_nat mn <= n)%nat ->
    match mx with Some m => (n <= N.to_nat m)%nat | None => True end ->
    matches_rep body n s -> matches (RRepeat lz mn mx body) s
with matches_seq : list re -> pystr -> Prop :=
| MSNil : matches_seq [] []
| MSCons r rest s1 s2 : matches r s1 -> matches_seq rest s2 -> matches_seq (r :: rest) (s1 ++ s2)
with matches_rep : list re -> nat -> pystr -> Prop :=
| MRZero body : matches_rep body O []
| MRSucc body n s1 s2 :
    matches_seq body s1 -> matches_rep body n s2 -> matches_rep body (S n) (s1 ++ s2).

(* anchors: only as the first (^ \A) and the last ($ \Z) element of the top-level sequence *)
Fixpoint no_at (r : re) : bool :=
  match r with
  | RAt _ => false
  | RBranch alts => forallb (fun alt => forallb (fun r0 => no_at r0) alt) alts
  | RGroup body => forallb (fun r0 => no_at r0) body
  | RRepeat _ _ _ body => forallb (fun r0 => no_at r0) body
  | _ => true end.

Definition strip_anchors (p : list re) : list re := fst (strip_end (snd (strip_begin p))).
Definition anchors_ok (p : list re) : bool := forallb no_at (strip_anchors p).

(* re.fullmatch(p, s) is not None, declaratively *)
Definition matches_top (p : list re) (s : pystr) : Prop := matches_seq (strip_anchors p) s.

(* what the proofs need of the alphabets (true of the defaults: checked by vm_compute on the
   regenerated table): "." never yields a newline; \d and \w alphabets lie inside the
   classes; a letter that is in the class is in the class's alphabet (so removing the
   alphabet from the letters removes every member of the class). *)
Definition alphabets_ok (c : gcfg) : bool :=
  negb (Nmem 10 (g_letters c))
  && forallb is_digit (g_digits c)
  && forallb is_word (g_word c)
  && forallb (fun x => implb (is_digit x) (Nmem x (g_digits c))) (g_letters c)
  && forallb (fun x => implb (is_word x) (Nmem x (g_word c))) (g_letters c).

(* the ASCII reading of \d \w in D42.Regex agrees with Python's Unicode reading on every
   character the generator can emit from an alphabet *)
Definition alphabets_ascii (c : gcfg) : bool :=
  forallb (fun x => x <? 128) (g_letters c ++ g_digits c ++ g_word c).

(* ---- nodes every run of the generator has to execute and that make it raise ---- *)
Definition cat_unsupported (it : citem) : bool :=
  match it with CCat (COtherCat _) => true | _ => false end.

Fixpoint must_refuse (r : re) : bool :=
  match r with
  | RUnsupported _ => true
  | RIn true items => negb (items_supported items)        (* the loop visits every item *)
  | RIn false items => forallb cat_unsupported items       (* whichever item is drawn *)
  | RGroup body => existsb (fun r0 => must_refuse r0) body
  | RRepeat _ mn _ body => (0 <? mn) && existsb (fun r0 => must_refuse r0) body
  | RBranch alts => forallb (fun alt => existsb (fun r0 => must_refuse r0) alt) alts
  | _ => false end.

Definition is_raise {A} (r : result A) : bool := match r with Raise _ => true | _ => false end.

(* ---- instance used by the per-run correspondence: the harness sorts the candidate string
   of _generate_not_in by code point before it reaches random.choice ---- *)
Fixpoint insert_cp (c : N) (l : pystr) : pystr :=
  match l with
  | [] => [c]
  | x :: r => if c <=? x then c :: l else x :: insert_cp c r end.
Definition sort_cp (l : pystr) : pystr := fold_right insert_cp [] l.

(* a case: max_repeat, parse tree, tape ++ [sentinel], observed outcome.  The model has to
   produce the same string / the same exception class and consume exactly the recorded
   draws (the sentinel must be what is left). *)
Definition regen_sentinel : N := 424242.
Definition rgcase := (Z * list re * tape * result pystr)%type.
Definition regen_case_ok (c : rgcase) : bool :=
  let '(k, p, t, obs) := c in
  match gen_re (default_cfg k) sort_cp p (t ++ [regen_sentinel]), obs with
  | Ok (s, rest), Ok s' => str_eqb s s' && list_eqb N.eqb rest [regen_sentinel]
  | Raise e, Raise e' => eq_exn e e'
  | _, _ => false end.

(* a semantics case: parse tree, string, re.fullmatch is not None, re.search is not None *)
Definition rscase := (list re * pystr * bool * bool)%type.
Definition resem_case_ok (c : rscase) : bool :=
  let '(p, s, fm, sr) := c in
  match fullmatchb p s, searchb p s with
  | Some a, Some b => Bool.eqb a fm && Bool.eqb b sr
  | _, _ => false end.
