(* Side condition of the bridge  dsl_inv -> wf  (proofs/DslWf.v, props/C10.v):
   hereditarily, every regex carried by a str schema is in the modelled fragment
   ([pat_ok], i.e. [re_modelled], the fragment of C09).  It is the only clause of [wf]
   that the DSL invariant [dsl_inv] does not talk about.  Definition only. *)
Require Import D42.Prelude D42.Value D42.Regex D42.Schema.

Fixpoint pats_modelled (s : schema) : bool :=
  match s with
  | SStr _ _ _ _ _ _ pat => pat_ok pat
  | SList es ty _ _ _ =>
      match es with
      | None => true
      | Some l => forallb (fun x => x)
                    (map (fun o => match o with Some e => pats_modelled e | None => true end) l)
      end &&
      match ty with None => true | Some t => pats_modelled t end
  | SDict (Some l) =>
      forallb (fun x => x)
        (map (fun e => match de_schema e with Some t => pats_modelled t | None => true end) l)
  | SAny (Some l) => forallb (fun x => x) (map (fun t => pats_modelled t) l)
  | SAlias _ t => pats_modelled t
  | SCustom t => pats_modelled t
  | _ => true
  end.
