(* "The schema admits a conforming value, hereditarily, within the generator's reach":
   the hypothesis of C01's theorem.  Per type it says what declaration guarantees (a fixed
   value conforms to its own schema, bounds are ordered, lengths are compatible, substr fits
   the alphabet) plus the exclusions that are known findings of the generator:
     - (F06 and F07 - precision together with a bound, an empty alphabet - were repaired in the
       code; what is left of them is a decidable side condition: the scaled bounds are finite,
       the empty string / the substring alone satisfies the declared lengths),
     - members that admit no value where the generator may visit them (F24: all alternatives
       of an any, the element type of a typed list, required dict members, concrete elements).
   Optional dict members need not be satisfiable. *)
From Coq Require Import PrimFloat Permutation.
Require Import D42.Prelude D42.PyFloat D42.Value D42.Regex D42.Schema D42.Validate D42.Conforms
               D42.PyRandom D42.RegexGen D42.ReSupported D42.Generate.
Require Import D42Gen.GenConsts.
Open Scope Z_scope.

Definition world_ok (w : world) : Prop :=
  uuid_is_v4 (w_uuid w) = true /\ forall l, Permutation (w_perm w l) l.

(* the pattern is one on which the regex generator returns a string for every tape: no
   unsupported construct anywhere, every class / negated class / branch has a candidate, repeat
   ranges are non-empty (decidable: theories/ReSupported.v; totality: proofs/RegexGenTotal.v) *)
Definition re_total (p : list re) : bool :=
  forallb (re_supported (default_cfg (Z.of_N RE_MAX_REPEAT))) p.

(* with a precision: int(lo * 10**p) .. int(hi * 10**p) is a (non-empty) range of ints *)
Definition prec_ok (lo hi : float) (p : Z) : bool :=
  match r_py_int (PrimFloat.mul lo (scale10 p)), r_py_int (PrimFloat.mul hi (scale10 p)) with
  | Ok l, Ok r => l <=? r
  | _, _ => false end.

Definition sat_int (val mn mx : option intv) : Prop :=
  match val with
  | Some i => opt_holds mn (fun m => iz m <= iz i) /\ opt_holds mx (fun m => iz i <= iz m)
  | None => match mn, mx with Some a, Some b => iz a <= iz b | _, _ => True end
  end.

Definition sat_float (val mn mx : option float) (pr : option intv) : Prop :=
  match val with
  | Some x => float_value_ok x x pr = true /\
              opt_holds mn (fun m => PrimFloat.ltb x m = false) /\
              opt_holds mx (fun m => PrimFloat.ltb m x = false)
  | None =>
      match mn, mx with Some a, Some b => PrimFloat.ltb b a = false | _, _ => True end /\
      match pr with
      | None => True
      | Some p => prec_ok (fst (float_lo_hi mn mx)) (snd (float_lo_hi mn mx)) (iz p) = true
      end
  end.

Definition sub_len (sub : option pystr) : Z := match sub with Some t => zlen t | None => 0 end.

Definition sat_str (w : world) (val : option pystr) (len mnl mxl : option intv) (al sub : option pystr)
           (pat : option (pystr * list re)) : Prop :=
  match val with
  | Some x => conforms (SStr val len mnl mxl al sub pat) (VStr x)
  | None =>
      match pat with
      | Some (_, p) =>
          len = None /\ mnl = None /\ mxl = None /\ al = None /\ sub = None /\ re_total p = true
      | None =>
          (* substr is written over the alphabet *)
          opt_holds al (fun a => opt_holds sub (fun t => Forall (fun c => In c a) t)) /\
          match len with
          | Some k =>
              0 <= iz k /\ sub_len sub <= iz k /\ len_ok (iz k) len mnl mxl /\
              (al = Some [] -> len_ok (sub_len sub) len mnl mxl)
          | None =>
              let lo0 := opt_iz mnl STR_LEN_MIN in
              let hi0 := match mxl with Some k => iz k | None => Z.max STR_LEN_MAX lo0 end in
              let lo := match sub with Some t => Z.max lo0 (zlen t) | None => lo0 end in
              let hi := match sub with Some t => Z.max hi0 (zlen t) | None => hi0 end in
              0 <= lo /\ lo <= hi /\ opt_holds mxl (fun k => hi <= iz k) /\
              (al = Some [] -> len_ok (sub_len sub) len mnl mxl)
          end
      end
  end.

(* the length of the list visit_list returns when elements are declared: n concrete
   elements, padded up to the target (len, else min_len) when a `...` marker says where *)
Definition padded_len {A} (es : list (option A)) (len : option intv) : Z :=
  let n := zlen (strip es) in
  match len with
  | Some k => if (n <? iz k) && (first_ell es || last_ell es) then iz k else n
  | None => n end.

Definition sat_list_len (len mnl mxl : option intv) : Prop :=
  match len with
  | Some k => 0 <= iz k /\ len_ok (iz k) len mnl mxl
  | None =>
      let lo := opt_iz mnl LIST_LEN_MIN in
      let hi := match mxl with Some k => iz k | None => Z.max LIST_LEN_MAX lo end in
      0 <= lo /\ lo <= hi
  end.

Fixpoint sat (w : world) (s : schema) {struct s} : Prop :=
  match s with
  | SNone => True
  | SBool _ => True
  | SInt val mn mx => sat_int val mn mx
  | SFloat val mn mx pr => sat_float val mn mx pr
  | SStr val len mnl mxl al sub pat => sat_str w val len mnl mxl al sub pat
  | SList es ty len mnl mxl =>
      match es with
      | Some es' =>
          ty = None /\
          len_ok (padded_len es' (pad_target len mnl)) len mnl mxl /\
          fold_right (fun c acc => c /\ acc) True
                     (map (fun o => match o with Some e => sat w e | None => True end) es')
      | None =>
          sat_list_len len mnl mxl /\
          match ty with Some t => sat w t | None => True end
      end
  | SDict ks =>
      match ks with
      | None => True
      | Some ents =>
          fold_right (fun c acc => c /\ acc) True
                     (map (fun e : dentry =>
                             if is_kell (de_key e) || de_opt e then True
                             else match de_schema e with Some sch => sat w sch | None => False end) ents)
      end
  | SAny ts =>
      match ts with
      | None => True
      | Some ts' => ts' <> [] /\ fold_right (fun c acc => c /\ acc) True (map (fun t => sat w t) ts')
      end
  | SBytes _ => True
  | SUuid val => opt_holds val (fun n => uuid_version n = Some 4%N)
  | SDatetime _ => True
  | SDate val => opt_holds val (fun d => isinst TDate d = true)
  | SAlias _ t => sat w t
  | SCustom t => sat w t
  end.
