(* d42/utils/_from_native.py : the schema denoting exactly one plain value. *)
Require Import D42.Prelude D42.Value D42.Regex D42.Schema.

Definition str_schema (s : pystr) : schema := SStr (Some s) None None None None None None.

(* DictSchema.__call__ on {key: schema} (no `...` key can reach it, see below) *)
Definition dict_of_natives (ents : list (key * schema)) : schema :=
  SDict (Some (map (fun e => (fst e, Some (snd e), false)) ents)).

Fixpoint from_native (v : value) {struct v} : result schema :=
  match v with
  | VNone => Ok SNone
  | VBool b => Ok (SBool (Some b))
  | VInt z => Ok (SInt (Some (IInt z)) None None)
  | VFloat f => Ok (SFloat (Some f) None None None)
  | VStr s => Ok (str_schema s)
  | VList l =>
      do es <- rsequence (map (fun x => from_native x) l);
      Ok (SList (Some (map Some es)) None None None None)
  | VDict d =>
      (* a `...` key is refused before any member is converted *)
      if existsb (fun kv => is_kell (fst kv)) d then Raise ValueError else
      do ents <- rsequence (map (fun kv => rmap (fun s => (fst kv, s)) (from_native (snd kv))) d);
      Ok (dict_of_natives ents)
  | VBytes b => Ok (SBytes (Some b))
  | VUuid n => if uuid_is_v4 n then Ok (SUuid (Some n)) else Raise ValueError
  | VDatetime a us => Ok (SDatetime (Some (a, us)))
  | VDate d => Ok (SDate (Some (VDate d)))
  | VEllipsis | VNil | VOther _ => Raise ValueError
  end.

(* plain values: built from the eleven kinds only, no `...` keys *)
Fixpoint plain (v : value) : bool :=
  match v with
  | VList l => forallb (fun x => x) (map (fun x => plain x) l)
  | VDict d => forallb (fun x => x) (map (fun kv => negb (is_kell (fst kv)) && plain (snd kv)) d)
  | VUuid n => uuid_is_v4 n
  | VEllipsis | VNil | VOther _ => false
  | _ => true
  end.
