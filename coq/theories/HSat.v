(* The hypothesis of C12's "substitution never returns a schema that cannot be generated
   from" (proofs/SubstSat.v): what the ORIGINAL schema must satisfy so that every result of
   substituting a plain value is hereditarily satisfiable ([sat], theories/Sat.v).

   Everything substitution pins needs nothing: a value that passed the substitutor's
   validation is its own witness (bounds, lengths, alphabet, substr, pattern - a str with a
   pattern gets a fixed value, so [re_total] is not needed), and [from_native] results are
   satisfiable.  [hsat] only speaks about what substitution leaves untouched:
     - a float with a declared value keeps that value (it is compared with a tolerance): the
       declared value must lie within the declared bounds;
     - dict members the value does not mention keep their schema: REQUIRED members must be
       [sat]; every member - optional ones included, since a mentioned member becomes
       required - must be [hsat] itself (its own unmentioned sub-members survive);
     - the element type of a typed list, every concrete element of an element list and every
       alternative of an any must be [hsat] (each may be substituted into).
   [hsat] neither implies nor is implied by [sat]: int.min(1).max(0) is [hsat] (no
   substitution into it succeeds) and str.len(-1) too.  Definitions only. *)
From Coq Require Import PrimFloat.
Require Import D42.Prelude D42.PyFloat D42.Value D42.Regex D42.Schema D42.Validate D42.Conforms
               D42.PyRandom D42.Generate D42.Sat D42.SatB.
Open Scope Z_scope.

Fixpoint hsat (w : world) (s : schema) {struct s} : Prop :=
  match s with
  | SFloat (Some e) mn mx pr => sat_float (Some e) mn mx pr
  | SList es ty _ _ _ =>
      match ty with
      | Some t => hsat w t                      (* elements are ignored when a type is given *)
      | None =>
          match es with
          | Some es' =>
              fold_right (fun c acc => c /\ acc) True
                         (map (fun o => match o with Some e => hsat w e | None => True end) es')
          | None => True
          end
      end
  | SDict (Some ents) =>
      fold_right (fun c acc => c /\ acc) True
                 (map (fun e : dentry =>
                         if is_kell (de_key e) then True
                         else match de_schema e with
                              | Some sch => hsat w sch /\ (if de_opt e then True else sat w sch)
                              | None => de_opt e = true
                              end) ents)
  | SAny (Some ts') =>
      fold_right (fun c acc => c /\ acc) True (map (fun t => hsat w t) ts')
  | SAlias _ t => hsat w t
  | SCustom t => hsat w t
  | _ => True
  end.

(* decidable form, clause by clause (soundness: proofs/SubstSat.v, hsatb_sound_lemma) *)
Fixpoint hsatb (w : world) (s : schema) {struct s} : bool :=
  match s with
  | SFloat (Some e) mn mx pr => satb_float (Some e) mn mx pr
  | SList es ty _ _ _ =>
      match ty with
      | Some t => hsatb w t
      | None =>
          match es with
          | Some es' =>
              forallb (fun x => x)
                      (map (fun o => match o with Some e => hsatb w e | None => true end) es')
          | None => true
          end
      end
  | SDict (Some ents) =>
      forallb (fun x => x)
              (map (fun e : dentry =>
                      if is_kell (de_key e) then true
                      else match de_schema e with
                           | Some sch => hsatb w sch && (if de_opt e then true else satb w sch)
                           | None => de_opt e
                           end) ents)
  | SAny (Some ts') => forallb (fun x => x) (map (fun t => hsatb w t) ts')
  | SAlias _ t => hsatb w t
  | SCustom t => hsatb w t
  | _ => true
  end.

(* no optional dict member anywhere: on such schemas [sat] implies [hsat]
   (proofs/SubstSat.v, sat_hsat_lemma), i.e. substitution preserves [sat] *)
Fixpoint opt_free (s : schema) : bool :=
  match s with
  | SList es ty _ _ _ =>
      match es with
      | Some l => forallb (fun x => x)
                          (map (fun o => match o with Some e => opt_free e | None => true end) l)
      | None => true end &&
      match ty with Some t => opt_free t | None => true end
  | SDict (Some l) =>
      forallb (fun x => x)
              (map (fun e : dentry =>
                      negb (de_opt e) &&
                      match de_schema e with Some t => opt_free t | None => true end) l)
  | SAny (Some l) => forallb (fun x => x) (map (fun t => opt_free t) l)
  | SAlias _ t => opt_free t
  | SCustom t => opt_free t
  | _ => true
  end.
