(* case checker for the generator correspondence *)
Require Import D42.Prelude D42.PyFloat D42.Value D42.Regex D42.Schema D42.Validate D42.CaseLib
               D42.PyRandom D42.RegexGen D42.Generate.

(* (uuid, now, today, schema, tape, observed value or exception, draws consumed) *)
Definition gencase := (N * Z * Z * schema * tape * result value * nat)%type.

Definition gencase_ok (c : gencase) : bool :=
  let '(u, now, today, s, t, obs, used) := c in
  let w := mk_world u now today sort_cp in
  match gen w s t, obs with
  | Ok (v, t'), Ok v' => value_same v v' && Nat.eqb (length t - length t') used
  | Raise e, Raise e' => eq_exn e e'
  | Err k, Err k' => eq_kind k k'
  | _, _ => false end.
