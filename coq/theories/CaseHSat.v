(* case checker for the hypothesis of C12's subst_result_can_be_generated_from: the original schema is
   well-formed and [hsatb] (theories/HSat.v); a mismatch is a case where it does NOT hold *)
Require Import D42.Prelude D42.PyFloat D42.Value D42.Regex D42.Schema D42.Validate D42.CaseLib
               D42.PyRandom D42.RegexGen D42.Generate D42.SatB D42.HSat.

(* (uuid, now, today, schema, expected) *)
Definition hsatcase := (N * Z * Z * schema * bool)%type.

Definition hsatcase_ok (c : hsatcase) : bool :=
  let '(u, now, today, s, expected) := c in
  let w := mk_world u now today sort_cp in
  Bool.eqb (wf s && hsatb w s) expected.
