(* Case-file checks for C06 (repr round-trip). *)
Require Import D42.Prelude D42.Value D42.Regex D42.Schema D42.Validate D42.CaseLib D42.Declare
               D42.Represent.

Definition kind_eqb (a b : kind) : bool :=
  match a, b with
  | KdNone, KdNone | KdBool, KdBool | KdInt, KdInt | KdFloat, KdFloat | KdStr, KdStr
  | KdList, KdList | KdDict, KdDict | KdAny, KdAny | KdBytes, KdBytes | KdUuid, KdUuid
  | KdDatetime, KdDatetime | KdDate, KdDate | KdAlias, KdAlias | KdCustom, KdCustom => true
  | _, _ => false end.

Definition dkey_same (a b : dkey) : bool :=
  match a, b with
  | DKey x, DKey y | DOpt x, DOpt y => key_eqb x y
  | _, _ => false end.

(* identical call-chain trees: literals structurally (floats bitwise, bool/int kept apart),
   patterns by source text *)
Fixpoint expr_same (a b : expr) {struct a} : bool :=
  match a, b with
  | EBase x, EBase y => kind_eqb x y
  | EMeth r1 m1 a1, EMeth r2 m2 a2 =>
      expr_same r1 r2 && meth_eqb m1 m2 &&
      (fix go (x y : list expr) : bool :=
         match x, y with
         | [], [] => true
         | u :: x', w :: y' => expr_same u w && go x' y'
         | _, _ => false end) a1 a2
  | ELit x, ELit y => value_same x y
  | EPat s1 _, EPat s2 _ => str_eqb s1 s2
  | EListD x, EListD y =>
      (fix go (x y : list expr) : bool :=
         match x, y with
         | [], [] => true
         | u :: x', w :: y' => expr_same u w && go x' y'
         | _, _ => false end) x y
  | EDictD x, EDictD y =>
      (fix go (x y : list (dkey * expr)) : bool :=
         match x, y with
         | [], [] => true
         | (k1, u) :: x', (k2, w) :: y' => dkey_same k1 k2 && expr_same u w && go x' y'
         | _, _ => false end) x y
  | EOpaque, EOpaque => true
  | _, _ => false
  end.

(* (schema as abstracted from the implementation's object, its repr() text parsed and
   normalised).  The text must be the model's tree; the schema must satisfy the invariant the
   round-trip theorem assumes (it was built through the DSL); and evaluating the tree in the
   model must give the schema back. *)
Definition rcase := (schema * expr)%type.
Definition rcase_ok (c : rcase) : bool :=
  let '(s, e) := c in
  expr_same (represent s) e && dsl_inv s &&
  match eval (represent s) with Ok s' => schema_same s s' | _ => false end.
