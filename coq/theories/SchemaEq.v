(* C15 - `==` / `!=` on schemas.

   d42/validation/__init__.py installs

     def eq(schema, value):
         if isinstance(value, Schema):
             return isinstance(value, schema.__class__) and (schema.props == value.props)
         return not validate(schema, value=value).has_errors()

   as Schema.__eq__; Schema.__ne__ is `not self.__eq__(other)`; Props.__eq__ is

     for key, val in self._registry.items():      # loop 1:  val != other.get(key)
     for key, other_val in other._registry.items():   # loop 2:  other_val != self.get(key)
   (a difference does not count when both sides are float NaN: _both_nan)

   A prop value is an int/bool, float, str, bytes, UUID, datetime, date, a schema, a list of
   schemas-or-Ellipsis (`elements`), a tuple of schemas (`types`) or a dict
   key -> (schema-or-Ellipsis, bool) (`keys`); an absent prop reads as Nil.  `!=` between two
   such values is Python's: list/tuple/dict compare member-wise with `==`; `x != y` with a
   schema on either side ends in eq(schema, other) (Ellipsis and Nil have no comparison of
   their own, so the reflected method of the schema is used): a schema facing `...` or Nil is
   *validated* against it.

   [eq_dir false s1 s2] is eq(s1, s2), [eq_dir true s1 s2] is eq(s2, s1): loop 2 of
   eq(s1, s2) compares members as `y == x`, i.e. eq(y, x) with y taken from s2, which the
   second flag makes a structural recursion on s1 as well.  Nothing is assumed symmetric.

   Class test: `a == b` between two schemas whose classes differ is False in both directions
   (if type(b) is a proper subclass of type(a) Python calls b.__eq__(a) first, and that fails
   its own isinstance test), so the constructors must coincide.  Every comparison here is
   between two independently built objects (no shared sub-object); [schema_eqb_self] is the
   comparison of an object with itself, where CPython's identity shortcut inside
   list/tuple/dict comparison applies.
   [None] stands for "Nil or absent" as everywhere in the model: loop 1 and loop 2 together
   treat a stored Nil and a missing key alike. *)
From Coq Require Import PrimFloat.
Require Import D42.Prelude D42.PyFloat D42.Value D42.Regex D42.Schema D42.Validate.

(* ---- `==` on parameter values ---- *)
Definition int_eq (a b : intv) : bool := Z.eqb (iz a) (iz b).            (* 1 == True *)
(* float props (value/min/max of a float schema), as Props.__eq__ compares them:
     not (a != b and not _both_nan(a, b))     -- 0.0 == -0.0; two NaN parameters are equal *)
Definition float_eq (a b : float) : bool := PrimFloat.eqb a b || (is_nan a && is_nan b).
Definition bytes_eq (a b : list N) : bool := list_eqb N.eqb a b.
Definition dt_eq (a b : bool * Z) : bool := Bool.eqb (fst a) (fst b) && Z.eqb (snd a) (snd b).
(* date parameters: a date or a datetime (DateSchema.__call__ refuses anything else);
   date(2020,1,2) == datetime(2020,1,2) is False *)
Definition date_eqb (a b : value) : bool :=
  match a, b with
  | VDate x, VDate y => Z.eqb x y
  | VDatetime a1 u1, VDatetime a2 u2 => Bool.eqb a1 a2 && Z.eqb u1 u2
  | _, _ => false end.
Definition pat_eq (a b : pystr * list re) : bool := str_eqb (fst a) (fst b).   (* the pattern text *)

(* a plain prop: Some x vs Nil is unequal *)
Definition o_eq {A} (eq : A -> A -> bool) (a b : option A) : bool := option_eqb eq a b.

(* ---- members that are schemas: the left one comes with its comparison function ---- *)
Notation cmp := (schema * (schema -> bool))%type (only parsing).

(* x == y where either side may be the marker [mk] (VEllipsis in element lists and key
   tables, VNil for an absent prop): schema vs marker = validate *)
Definition sprop_eq (mk : value) (a : option cmp) (b : option schema) : bool :=
  match a, b with
  | None, None => true
  | Some (x, _), None => verdict x mk
  | None, Some y => verdict y mk
  | Some (_, f), Some y => f y
  end.

(* list != list *)
Fixpoint elems_eq (l1 : list (option cmp)) (l2 : list (option schema)) : bool :=
  match l1, l2 with
  | [], [] => true
  | a :: r1, b :: r2 => sprop_eq VEllipsis a b && elems_eq r1 r2
  | _, _ => false end.
Definition oelems_eq (a : option (list (option cmp))) (b : option (list (option schema))) : bool :=
  match a, b with
  | None, None => true
  | Some l1, Some l2 => elems_eq l1 l2
  | _, _ => false end.                         (* a list is never equal to Nil *)

(* tuple != tuple *)
Fixpoint types_eq (l1 : list cmp) (l2 : list schema) : bool :=
  match l1, l2 with
  | [], [] => true
  | (_, f) :: r1, y :: r2 => f y && types_eq r1 r2
  | _, _ => false end.
Definition otypes_eq (a : option (list cmp)) (b : option (list schema)) : bool :=
  match a, b with
  | None, None => true
  | Some l1, Some l2 => types_eq l1 l2
  | _, _ => false end.

(* dict != dict: same size, every key of the left dict is in the right one with an equal
   (schema-or-Ellipsis, optional) tuple *)
Fixpoint dassoc {X} (k : key) (l : list (key * X * bool)) : option (X * bool) :=
  match l with
  | [] => None
  | (k', x, o) :: r => if key_eqb k k' then Some (x, o) else dassoc k r
  end.
(* keys1 != keys2 *)
Definition dsub_l (ta : list (key * option cmp * bool)) (b : list dentry) : bool :=
  Nat.eqb (length ta) (length b) &&
  forallb (fun e : key * option cmp * bool =>
             match dassoc (fst (fst e)) b with
             | Some (oy, o') => sprop_eq VEllipsis (snd (fst e)) oy && Bool.eqb (snd e) o'
             | None => false end) ta.
(* keys2 != keys1 *)
Definition dsub_r (ta : list (key * option cmp * bool)) (b : list dentry) : bool :=
  Nat.eqb (length b) (length ta) &&
  forallb (fun e : dentry =>
             match dassoc (de_key e) ta with
             | Some (ox, o) => sprop_eq VEllipsis ox (de_schema e) && Bool.eqb (de_opt e) o
             | None => false end) b.

Definition both (d l r : bool) : bool := if d then r && l else l && r.

(* eq_dir false s1 s2 = eq(s1, s2);  eq_dir true s1 s2 = eq(s2, s1).
   [l]: the comparisons with the member of s1 on the left (x != y), [r]: with the member of
   s2 on the left (y != x); eq(s1, s2) runs l then r, eq(s2, s1) runs r then l. *)
Fixpoint eq_dir (d : bool) (s1 s2 : schema) {struct s1} : bool :=
  match s1, s2 with
  | SNone, SNone => true
  | SBool v1, SBool v2 => both d (o_eq Bool.eqb v1 v2) (o_eq Bool.eqb v2 v1)
  | SInt v1 a1 b1, SInt v2 a2 b2 =>
      both d (o_eq int_eq v1 v2 && o_eq int_eq a1 a2 && o_eq int_eq b1 b2)
             (o_eq int_eq v2 v1 && o_eq int_eq a2 a1 && o_eq int_eq b2 b1)
  | SFloat v1 a1 b1 p1, SFloat v2 a2 b2 p2 =>
      both d (o_eq float_eq v1 v2 && o_eq float_eq a1 a2 && o_eq float_eq b1 b2 && o_eq int_eq p1 p2)
             (o_eq float_eq v2 v1 && o_eq float_eq a2 a1 && o_eq float_eq b2 b1 && o_eq int_eq p2 p1)
  | SStr v1 l1 a1 b1 al1 su1 p1, SStr v2 l2 a2 b2 al2 su2 p2 =>
      both d (o_eq str_eqb v1 v2 && o_eq int_eq l1 l2 && o_eq int_eq a1 a2 && o_eq int_eq b1 b2 &&
              o_eq str_eqb al1 al2 && o_eq str_eqb su1 su2 && o_eq pat_eq p1 p2)
             (o_eq str_eqb v2 v1 && o_eq int_eq l2 l1 && o_eq int_eq a2 a1 && o_eq int_eq b2 b1 &&
              o_eq str_eqb al2 al1 && o_eq str_eqb su2 su1 && o_eq pat_eq p2 p1)
  | SList es1 ty1 l1 a1 b1, SList es2 ty2 l2 a2 b2 =>
      both d
        (oelems_eq (match es1 with
                    | Some l => Some (map (fun o => match o with
                                                    | Some x => Some (x, eq_dir false x)
                                                    | None => None end) l)
                    | None => None end) es2 &&
         sprop_eq VNil (match ty1 with Some t => Some (t, eq_dir false t) | None => None end) ty2 &&
         o_eq int_eq l1 l2 && o_eq int_eq a1 a2 && o_eq int_eq b1 b2)
        (oelems_eq (match es1 with
                    | Some l => Some (map (fun o => match o with
                                                    | Some x => Some (x, eq_dir true x)
                                                    | None => None end) l)
                    | None => None end) es2 &&
         sprop_eq VNil (match ty1 with Some t => Some (t, eq_dir true t) | None => None end) ty2 &&
         o_eq int_eq l2 l1 && o_eq int_eq a2 a1 && o_eq int_eq b2 b1)
  | SDict k1, SDict k2 =>
      match k1, k2 with
      | None, None => true
      | Some a, Some b =>
          both d
            (dsub_l (map (fun e : dentry =>
                            (de_key e,
                             match de_schema e with Some x => Some (x, eq_dir false x) | None => None end,
                             de_opt e)) a) b)
            (dsub_r (map (fun e : dentry =>
                            (de_key e,
                             match de_schema e with Some x => Some (x, eq_dir true x) | None => None end,
                             de_opt e)) a) b)
      | _, _ => false end
  | SAny t1, SAny t2 =>
      both d
        (otypes_eq (match t1 with Some l => Some (map (fun x => (x, eq_dir false x)) l) | None => None end) t2)
        (otypes_eq (match t1 with Some l => Some (map (fun x => (x, eq_dir true x)) l) | None => None end) t2)
  | SBytes v1, SBytes v2 => both d (o_eq bytes_eq v1 v2) (o_eq bytes_eq v2 v1)
  | SUuid v1, SUuid v2 => both d (o_eq N.eqb v1 v2) (o_eq N.eqb v2 v1)
  | SDatetime v1, SDatetime v2 => both d (o_eq dt_eq v1 v2) (o_eq dt_eq v2 v1)
  | SDate v1, SDate v2 => both d (o_eq date_eqb v1 v2) (o_eq date_eqb v2 v1)
  | SAlias n1 t1, SAlias n2 t2 =>
      both d (o_eq str_eqb n1 n2 && eq_dir false t1 t2) (o_eq str_eqb n2 n1 && eq_dir true t1 t2)
  | SCustom t1, SCustom t2 => both d (eq_dir false t1 t2) (eq_dir true t1 t2)
  | _, _ => false
  end.

(* s1 == s2, s1 != s2 between two schemas; s == v, s != v for a non-schema v *)
Definition schema_eqb (s1 s2 : schema) : bool := eq_dir false s1 s2.
Definition schema_neb (s1 s2 : schema) : bool := negb (schema_eqb s1 s2).
Definition schema_eq_value (s : schema) (v : value) : bool := verdict s v.
Definition schema_ne_value (s : schema) (v : value) : bool := negb (schema_eq_value s v).

(* s == s on one object: list, tuple and dict comparison take `is` before `==`, so the
   containers are equal to themselves whatever they hold; Props.__eq__ itself applies `!=`
   directly, so a float parameter and a schema-valued prop are compared for real *)
Definition self_float (o : option float) : bool :=
  match o with Some x => float_eq x x | None => true end.
Fixpoint schema_eqb_self (s : schema) : bool :=
  match s with
  | SFloat v mn mx _ => self_float v && self_float mn && self_float mx
  | SList _ (Some t) _ _ _ => schema_eqb_self t
  | SDate (Some v) => date_eqb v v
  | SAlias _ t => schema_eqb_self t
  | SCustom t => schema_eqb_self t
  | _ => true
  end.

(* ================= hypotheses of the theorems (all decidable) ================= *)

(* accepts the markers: bare any, an any with such an alternative, alias/custom of it *)
Fixpoint universal (s : schema) : bool :=
  match s with
  | SAny None => true
  | SAny (Some l) => existsb (fun x => x) (map (fun t => universal t) l)
  | SAlias _ t => universal t
  | SCustom t => universal t
  | _ => false
  end.

(* no sub-schema that validates the marker sits where the other operand may hold the
   marker: an element of an element list (`...`), the `type` of a typed list (Nil), the
   value of the `...` key of a key table; and `...` as a value only under the `...` key *)
Fixpoint marker_free (s : schema) : bool :=
  match s with
  | SList es ty _ _ _ =>
      match es with
      | None => true
      | Some l => forallb (fun x => x)
                    (map (fun o => match o with
                                   | Some e => negb (verdict e VEllipsis) && marker_free e
                                   | None => true end) l)
      end &&
      match ty with
      | None => true
      | Some t => negb (verdict t VNil) && marker_free t end
  | SDict (Some l) =>
      forallb (fun x => x)
        (map (fun e : dentry =>
                match de_schema e with
                | Some t => (negb (is_kell (de_key e)) || negb (verdict t VEllipsis)) && marker_free t
                | None => is_kell (de_key e) end) l)
  | SAny (Some l) => forallb (fun x => x) (map (fun t => marker_free t) l)
  | SAlias _ t => marker_free t
  | SCustom t => marker_free t
  | _ => true
  end.

(* every date parameter is a date or a datetime: all DateSchema.__call__ accepts (for any
   other stored value the model's date comparison answers False) *)
Fixpoint date_params_ok (s : schema) : bool :=
  match s with
  | SDate (Some v) => date_eqb v v
  | SList es ty _ _ _ =>
      match es with
      | None => true
      | Some l => forallb (fun x => x)
                    (map (fun o => match o with Some e => date_params_ok e | None => true end) l)
      end &&
      match ty with None => true | Some t => date_params_ok t end
  | SDict (Some l) =>
      forallb (fun x => x)
        (map (fun e : dentry => match de_schema e with Some t => date_params_ok t | None => true end) l)
  | SAny (Some l) => forallb (fun x => x) (map (fun t => date_params_ok t) l)
  | SAlias _ t => date_params_ok t
  | SCustom t => date_params_ok t
  | _ => true
  end.

(* representation invariant of key tables: a Python dict has pairwise distinct keys *)
Fixpoint keys_distinct (s : schema) : bool :=
  match s with
  | SList es ty _ _ _ =>
      match es with
      | None => true
      | Some l => forallb (fun x => x)
                    (map (fun o => match o with Some e => keys_distinct e | None => true end) l)
      end &&
      match ty with None => true | Some t => keys_distinct t end
  | SDict (Some l) =>
      nodup_keys (map de_key l) &&
      forallb (fun x => x)
        (map (fun e : dentry => match de_schema e with Some t => keys_distinct t | None => true end) l)
  | SAny (Some l) => forallb (fun x => x) (map (fun t => keys_distinct t) l)
  | SAlias _ t => keys_distinct t
  | SCustom t => keys_distinct t
  | _ => true
  end.

(* every pattern's parse tree is [parse] of its text (re's parser is a function) *)
Fixpoint pats_from (parse : pystr -> list re) (s : schema) : Prop :=
  match s with
  | SStr _ _ _ _ _ _ (Some pt) => snd pt = parse (fst pt)
  | SList es ty _ _ _ =>
      match es with
      | None => True
      | Some l => fold_right and True
                    (map (fun o => match o with Some e => pats_from parse e | None => True end) l)
      end /\
      match ty with None => True | Some t => pats_from parse t end
  | SDict (Some l) =>
      fold_right and True
        (map (fun e : dentry => match de_schema e with Some t => pats_from parse t | None => True end) l)
  | SAny (Some l) => fold_right and True (map (fun t => pats_from parse t) l)
  | SAlias _ t => pats_from parse t
  | SCustom t => pats_from parse t
  | _ => True
  end.

(* ================= cases of the correspondence suite ================= *)
Inductive eqcase :=
| EqPair (s1 s2 : schema) (eq12 eq21 ne12 ne21 : bool)      (* two independent objects *)
| EqSelf (s : schema) (eq ne : bool)                        (* one object with itself *)
| EqValue (s : schema) (v : value) (eq ne : bool).          (* non-schema right-hand side *)

Definition eqcase_ok (c : eqcase) : bool :=
  match c with
  | EqPair s1 s2 e12 e21 n12 n21 =>
      Bool.eqb (schema_eqb s1 s2) e12 && Bool.eqb (schema_eqb s2 s1) e21 &&
      Bool.eqb (schema_neb s1 s2) n12 && Bool.eqb (schema_neb s2 s1) n21
  | EqSelf s e n => Bool.eqb (schema_eqb_self s) e && Bool.eqb (negb (schema_eqb_self s)) n
  | EqValue s v e n => Bool.eqb (schema_eq_value s v) e && Bool.eqb (schema_ne_value s v) n
  end.
