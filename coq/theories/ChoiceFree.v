(* C04: schemas without a choice point over partial structures (hypothesis of
   subst_accepts_value_partial), and the case type that lets the harness evaluate it. *)
From Coq Require Import PrimFloat.
Require Import D42.Prelude D42.PyFloat D42.Value D42.Regex D42.Schema.
Open Scope nat_scope.

(* no choice point: every any has at most one alternative, no element list has the contains form *)
Fixpoint choice_free (s : schema) {struct s} : bool :=
  match s with
  | SList es ty _ _ _ =>
      match es with
      | None => true
      | Some l => negb (match classify l with FBody => true | _ => false end) &&
                  forallb (fun x => x) (map (fun o => match o with Some e => choice_free e | None => true end) l)
      end &&
      match ty with None => true | Some t => choice_free t end
  | SDict (Some l) =>
      forallb (fun x => x) (map (fun e : dentry => match de_schema e with Some t => choice_free t | None => true end) l)
  | SAny (Some l) => (length l <=? 1)%nat && forallb (fun x => x) (map (fun t => choice_free t) l)
  | SAlias _ t => choice_free t
  | SCustom t => choice_free t
  | _ => true
  end.


(* (schema, expected): does the hypothesis "well-formed and choice-free" hold *)
Definition cfcase := (schema * bool)%type.
Definition cfcase_ok (c : cfcase) : bool :=
  Bool.eqb (wf (fst c) && choice_free (fst c)) (snd c).
